(* DispatchThm.v — invariants of the dispatcher LTS (model/Dispatch.v), proved
   for every reachable state: all interleavings of any number of dispatching
   threads, W workers, the tasks' polls and join, in both modes. *)
From Compio.Model Require Import Base Dispatch.

(* ---------------------------------------------------------------------- *)
(* list update                                                             *)

Lemma nth_upd_eq {A} (l : list A) k y a :
  nth_error l k = Some a -> nth_error (upd l k y) k = Some y.
Proof.
  intros H. unfold upd. rewrite H.
  assert (Hk : k < length l) by (apply nth_error_Some; congruence).
  rewrite nth_error_app2; rewrite firstn_length; [|lia].
  replace (k - Nat.min k (length l)) with 0 by lia. reflexivity.
Qed.

Lemma upd_cons_S {A} (a : A) l k y : upd (a :: l) (S k) y = a :: upd l k y.
Proof. unfold upd. cbn [nth_error]. destruct (nth_error l k); reflexivity. Qed.

Lemma nth_upd_neq {A} (l : list A) k y j :
  j <> k -> nth_error (upd l k y) j = nth_error l j.
Proof.
  revert k j; induction l as [|a l IH]; intros k j Hne.
  - unfold upd. destruct k; reflexivity.
  - destruct k as [|k].
    + unfold upd. cbn. destruct j; [congruence|reflexivity].
    + rewrite upd_cons_S. destruct j as [|j]; [reflexivity|]. cbn [nth_error]. apply IH. congruence.
Qed.

Lemma nth_upd_cases {A} (l : list A) k y j z :
  nth_error (upd l k y) j = Some z ->
  (j = k /\ z = y /\ exists a, nth_error l k = Some a) \/ (j <> k /\ nth_error l j = Some z).
Proof.
  intros H. destruct (Nat.eq_dec j k) as [->|Hne].
  - left. split; [reflexivity|]. destruct (nth_error l k) as [a|] eqn:Hk.
    + rewrite (nth_upd_eq _ _ _ _ Hk) in H. injection H as <-. split; [reflexivity|]. exists a. reflexivity.
    + unfold upd in H. rewrite Hk in H. congruence.
  - right. split; [exact Hne|]. rewrite nth_upd_neq in H by exact Hne. exact H.
Qed.

Lemma upd_length {A} (l : list A) k y : length (upd l k y) = length l.
Proof.
  unfold upd. destruct (nth_error l k) eqn:H; [|reflexivity].
  assert (Hk : k < length l) by (apply nth_error_Some; congruence).
  rewrite app_length, firstn_length. cbn [length]. rewrite skipn_length. lia.
Qed.

Lemma nth_app_cases {A} (l : list A) y j z :
  nth_error (l ++ [y]) j = Some z ->
  nth_error l j = Some z \/ (j = length l /\ z = y).
Proof.
  intros H. destruct (Nat.lt_ge_cases j (length l)) as [Hlt|Hge].
  - rewrite nth_error_app1 in H by exact Hlt. left. exact H.
  - rewrite nth_error_app2 in H by exact Hge. right.
    destruct (j - length l) as [|n] eqn:E.
    + cbn in H. injection H as <-. split; [lia|reflexivity].
    + cbn in H. destruct n; discriminate.
Qed.

Lemma nth_map_inv {A B} (f : A -> B) l j z :
  nth_error (map f l) j = Some z -> exists x, nth_error l j = Some x /\ z = f x.
Proof.
  rewrite nth_error_map. destruct (nth_error l j) as [x|]; cbn; intros H; [|discriminate].
  injection H as <-. exists x. split; reflexivity.
Qed.

Lemma Forall_upd {A} (P : A -> Prop) l k y : Forall P l -> P y -> Forall P (upd l k y).
Proof.
  intros Hl Hy. apply Forall_forall. intros z Hz. apply In_nth_error in Hz. destruct Hz as [j Hj].
  destruct (nth_upd_cases _ _ _ _ _ Hj) as [(_ & -> & _)|(_ & Hj')]; [exact Hy|].
  rewrite Forall_forall in Hl. apply Hl. eapply nth_error_In; eauto.
Qed.

Lemma Forall_nth {A} (P : A -> Prop) l j x : Forall P l -> nth_error l j = Some x -> P x.
Proof. intros H Hj. rewrite Forall_forall in H. apply H. eapply nth_error_In; eauto. Qed.

Lemma alive_not_all_dead l w p :
  nth_error l w = Some p -> is_dead p = false -> forallb is_dead l = false.
Proof.
  intros H Hp. destruct (forallb is_dead l) eqn:E; [|reflexivity].
  rewrite forallb_forall in E. rewrite (E p) in Hp; [discriminate|]. eapply nth_error_In; eauto.
Qed.

Lemma all_dead_nth l w p : forallb is_dead l = true -> nth_error l w = Some p -> is_dead p = true.
Proof. intros E H. rewrite forallb_forall in E. apply E. eapply nth_error_In; eauto. Qed.

(* ---------------------------------------------------------------------- *)
(* the invariant                                                           *)

(* counters and receiver state are a function of the phase *)
Definition tinv (x : task) : Prop :=
  match ph x with
  | TQueued => recvs x = 0 /\ spawns x = 0 /\ starts x = 0 /\ rc x = RNone
  | TTaken _ => recvs x = 1 /\ spawns x = 0 /\ starts x = 0 /\ rc x = RNone
  | TSpawned _ => recvs x = 1 /\ spawns x = 1 /\ starts x = 0 /\ rc x = RNone
  | TRunning _ => recvs x = 1 /\ spawns x = 1 /\ starts x = 1 /\ rc x = RNone
  | TDone _ => recvs x = 1 /\ spawns x = 1 /\ starts x = 1 /\ rc x = RResult
  | TPanicked _ => recvs x = 1 /\ spawns x = 1 /\ starts x = 1 /\ rc x = RCanceled
  | TCancelled _ => recvs x = 1 /\ spawns x = 1 /\ starts x <= 1 /\ rc x = RCanceled
  | TDropped => recvs x = 0 /\ spawns x = 0 /\ starts x = 0 /\ rc x = RCanceled
  end.

Definition running_wpc (p : wpc) : bool :=
  match p with WBoot | WDead _ => false | _ => true end.

Record Inv0 (s : dst) : Prop := mk_Inv0 {
  i_t : Forall tinv (ts s);
  (* the channel holds each queued task once *)
  i_q : NoDup (q s) /\ forall t, In t (q s) -> exists x, nth_error (ts s) t = Some x /\ ph x = TQueued;
  i_q2 : forall t x, nth_error (ts s) t = Some x -> ph x = TQueued -> In t (q s);
  (* a received task is held by the worker that received it *)
  i_l2 : forall t x w, nth_error (ts s) t = Some x -> ph x = TTaken w ->
                       nth_error (ws s) w = Some (WSpawn t);
  (* an unfinished task lives on a runtime that exists *)
  i_l3 : forall t x w, nth_error (ts s) t = Some x -> on_rt w x = true ->
                       exists p, nth_error (ws s) w = Some p /\ running_wpc p = true;
  (* sequential mode: the only unfinished task of a runtime is the awaited one *)
  i_s : conc s = false -> forall t x w, nth_error (ts s) t = Some x -> on_rt w x = true ->
                          nth_error (ws s) w = Some (WAwait t);
  (* a worker leaves only an empty, disconnected channel *)
  i_t7 : forall w, nth_error (ws s) w = Some WLeaving \/ nth_error (ws s) w = Some (WDead false) ->
                   q s = [] /\ sender s = false;
  i_ja : jp s = JIdle <-> sender s = true;
  i_jb : forall p, jp s = JReturned p -> all_dead s = true /\ p = existsb is_panicked (ws s);
  (* sequential mode: a task is cancelled only by a panicking worker *)
  i_p1 : conc s = false -> forall t x w, nth_error (ts s) t = Some x -> ph x = TCancelled w ->
                           nth_error (ws s) w = Some (WDead true);
  (* a task is dropped unreceived only if no worker survived *)
  i_p2 : forall t x, nth_error (ts s) t = Some x -> ph x = TDropped ->
                     forall w p, nth_error (ws s) w = Some p -> p = WDead true;
  i_w0 : ts s <> [] -> ws s <> []
}.

(* the channel is freed once the sender and all receivers are gone *)
Definition InvC (s : dst) : Prop := sender s = false -> all_dead s = true -> q s = [].
Definition Inv (s : dst) : Prop := Inv0 s /\ InvC s.

Lemma init_inv c n : Inv (init c n).
Proof.
  split; [|intros H; discriminate H].
  constructor; cbn.
  - constructor.
  - split; [constructor|]. intros t [].
  - intros t x H. destruct t; discriminate H.
  - intros t x w H. destruct t; discriminate H.
  - intros t x w H. destruct t; discriminate H.
  - intros _ t x w H. destruct t; discriminate H.
  - intros w [H|H]; apply nth_error_In in H; apply repeat_spec in H; discriminate H.
  - split; reflexivity.
  - intros p H. discriminate H.
  - intros _ t x w H. destruct t; discriminate H.
  - intros t x H. destruct t; discriminate H.
  - intros H. congruence.
Qed.

(* ---------------------------------------------------------------------- *)
(* the two task maps                                                        *)

Lemma dq_ph x : ph (drop_queued x) = match ph x with TQueued => TDropped | p => p end.
Proof. unfold drop_queued. destruct (ph x) eqn:E; cbn; rewrite ?E; reflexivity. Qed.

Lemma dq_tinv x : tinv x -> tinv (drop_queued x).
Proof.
  unfold drop_queued, tinv. destruct x as [p r a b c]. cbn. destruct p; cbn; auto.
  intros (-> & -> & -> & _). repeat split.
Qed.

Lemma dq_on_rt w x : on_rt w (drop_queued x) = on_rt w x.
Proof. unfold on_rt. rewrite dq_ph. destruct (ph x); reflexivity. Qed.

Lemma co_ph w x : ph (cancel_on w x) = if on_rt w x then TCancelled w else ph x.
Proof. unfold cancel_on. destruct (on_rt w x); reflexivity. Qed.

Lemma co_tinv w x : tinv x -> tinv (cancel_on w x).
Proof.
  unfold cancel_on, on_rt, tinv. destruct x as [p r a b c]. cbn.
  destruct p; cbn; auto; destruct (Nat.eqb w0 w); cbn; auto.
  - intros (-> & -> & -> & _). repeat split. lia.
  - intros (-> & -> & -> & _). repeat split. lia.
Qed.

Lemma co_on_rt w v x : on_rt v (cancel_on w x) = true -> on_rt v x = true /\ on_rt w x = false.
Proof.
  unfold cancel_on. destruct (on_rt w x) eqn:E.
  - unfold on_rt. cbn. discriminate.
  - intros H. split; [exact H|reflexivity].
Qed.

Lemma on_rt_same w v x : on_rt w x = true -> on_rt v x = true -> w = v.
Proof.
  unfold on_rt. destruct (ph x); try discriminate; intros H1 H2;
    apply Nat.eqb_eq in H1, H2; congruence.
Qed.

(* ---------------------------------------------------------------------- *)
(* cleanup re-establishes the full invariant                                *)

Lemma cleanup_inv s : Inv0 s -> Inv (cleanup s).
Proof.
  intros [T Q Q2 L2 L3 S T7 Ja Jb P1 P2 W0]. unfold cleanup.
  destruct (negb (sender s) && all_dead s) eqn:E.
  - apply andb_true_iff in E. destruct E as [Es Ed]. apply negb_true_iff in Es.
    split; [|intros _ _; reflexivity].
    constructor; cbn [conc sender q ws ts jp w_q w_ts].
    + rewrite Forall_forall in *. intros y Hy. apply in_map_iff in Hy.
      destruct Hy as (x & <- & Hx). apply dq_tinv, T, Hx.
    + split; [constructor|intros t []].
    + intros t y Hy Hp. apply nth_map_inv in Hy. destruct Hy as (x & _ & ->).
      rewrite dq_ph in Hp. destruct (ph x); discriminate Hp.
    + intros t y w Hy Hp. apply nth_map_inv in Hy. destruct Hy as (x & Hx & ->).
      rewrite dq_ph in Hp. eapply L2; [exact Hx|]. destruct (ph x); try discriminate Hp; exact Hp.
    + intros t y w Hy Hp. apply nth_map_inv in Hy. destruct Hy as (x & Hx & ->).
      rewrite dq_on_rt in Hp. eapply L3; eauto.
    + intros Hc t y w Hy Hp. apply nth_map_inv in Hy. destruct Hy as (x & Hx & ->).
      rewrite dq_on_rt in Hp. eapply S; eauto.
    + intros w _. split; [reflexivity|exact Es].
    + exact Ja.
    + exact Jb.
    + intros Hc t y w Hy Hp. apply nth_map_inv in Hy. destruct Hy as (x & Hx & ->).
      rewrite dq_ph in Hp. eapply P1; [exact Hc|exact Hx|].
      destruct (ph x); try discriminate Hp; exact Hp.
    + intros t y Hy Hp w p Hw. apply nth_map_inv in Hy. destruct Hy as (x & Hx & ->).
      rewrite dq_ph in Hp. destruct (ph x) eqn:Ex; try discriminate Hp.
      * (* was queued: the channel was not empty, so nobody left it normally *)
        pose proof (Q2 _ _ Hx Ex) as Hin.
        pose proof (all_dead_nth _ _ _ Ed Hw) as Hd.
        destruct p as [| | | | |b]; try discriminate Hd. destruct b; [reflexivity|].
        destruct (T7 w (or_intror Hw)) as [Hq _]. rewrite Hq in Hin. destruct Hin.
      * eapply P2; eauto.
    + intros Hn. apply W0. intros Ht. apply Hn. rewrite Ht. reflexivity.
  - split; [constructor; assumption|]. intros Hs Hd. rewrite Hs, Hd in E. discriminate E.
Qed.

(* ---------------------------------------------------------------------- *)
(* every step preserves the invariant                                       *)

Lemma NoDup_app_snoc {A} (l : list A) x : NoDup l -> ~ In x l -> NoDup (l ++ [x]).
Proof.
  induction l as [|a l IH]; intros Hn Hx; cbn [app]; [constructor; [intros []|constructor]|].
  inversion Hn as [|? ? Ha Hl]; subst. constructor.
  - intros Hin. apply in_app_or in Hin. destruct Hin as [Hin|[->|[]]]; [exact (Ha Hin)|].
    apply Hx. left. reflexivity.
  - apply IH; [exact Hl|]. intros Hin. apply Hx. right. exact Hin.
Qed.

Lemma any_alive_nonempty s : any_alive s = true -> ws s <> [].
Proof. unfold any_alive. destruct (ws s); [discriminate|discriminate]. Qed.

Lemma step_dispatch s s' : Inv s -> step s (EDispatch true) = Some s' -> Inv s'.
Proof.
  intros [[T Q Q2 L2 L3 S T7 Ja Jb P1 P2 W0] C] H. cbn [step] in H.
  assert (Ej : jp s = JIdle) by (destruct (jp s); try discriminate H; reflexivity).
  rewrite Ej in H.
  destruct (any_alive s) eqn:Ea; [|discriminate H]. injection H as <-.
  assert (Hsend : sender s = true) by (apply Ja; exact Ej).
  destruct Q as [Qn Qi].
  assert (Hfresh : ~ In (length (ts s)) (q s)).
  { intros Hin. destruct (Qi _ Hin) as (x & Hx & _).
    assert (length (ts s) < length (ts s)) by (apply nth_error_Some; congruence). lia. }
  split.
  - constructor; cbn [conc sender q ws ts jp w_q w_ts].
    + apply Forall_app. split; [exact T|]. constructor; [|constructor]. cbn. repeat split.
    + split.
      * apply NoDup_app_snoc; assumption.
      * intros t Hin. apply in_app_or in Hin. destruct Hin as [Hin|[<-|[]]].
        -- destruct (Qi _ Hin) as (x & Hx & Hp). exists x. split; [|exact Hp].
           rewrite nth_error_app1; [exact Hx|]. apply nth_error_Some. congruence.
        -- eexists. split; [rewrite nth_error_app2 by lia; rewrite Nat.sub_diag; reflexivity|reflexivity].
    + intros t x Hx Hp. apply in_or_app. apply nth_app_cases in Hx.
      destruct Hx as [Hx|[-> _]]; [left; eapply Q2; eauto|right; left; reflexivity].
    + intros t x w Hx Hp. apply nth_app_cases in Hx. destruct Hx as [Hx|[_ ->]]; [eapply L2; eauto|discriminate Hp].
    + intros t x w Hx Hp. apply nth_app_cases in Hx. destruct Hx as [Hx|[_ ->]]; [eapply L3; eauto|discriminate Hp].
    + intros Hc t x w Hx Hp. apply nth_app_cases in Hx. destruct Hx as [Hx|[_ ->]]; [eapply S; eauto|discriminate Hp].
    + intros w Hw. destruct (T7 w Hw) as [_ Hs]. congruence.
    + exact Ja.
    + exact Jb.
    + intros Hc t x w Hx Hp. apply nth_app_cases in Hx. destruct Hx as [Hx|[_ ->]]; [eapply P1; eauto|discriminate Hp].
    + intros t x Hx Hp. apply nth_app_cases in Hx. destruct Hx as [Hx|[_ ->]]; [eapply P2; eauto|discriminate Hp].
    + intros _. apply any_alive_nonempty. exact Ea.
  - intros Hs. cbn in Hs. congruence.
Qed.

Lemma step_boot s w ok s' : Inv s -> step s (EBoot w ok) = Some s' -> Inv s'.
Proof.
  intros [[T Q Q2 L2 L3 S T7 Ja Jb P1 P2 W0] C] H. cbn [step] in H.
  destruct (nth_error (ws s) w) as [p|] eqn:Ew; [|discriminate H].
  destruct p; try discriminate H. injection H as <-. apply cleanup_inv.
  set (pn := if ok then WRecv else WDead true).
  constructor; cbn [conc sender q ws ts jp w_ws]; auto.
  - intros t x v Hx Hp. pose proof (L2 _ _ _ Hx Hp) as Hv.
    destruct (Nat.eq_dec v w) as [->|Hne]; [congruence|]. rewrite nth_upd_neq by exact Hne. exact Hv.
  - intros t x v Hx Hp. destruct (L3 _ _ _ Hx Hp) as (p & Hv & Hr).
    destruct (Nat.eq_dec v w) as [->|Hne].
    + rewrite Ew in Hv. injection Hv as <-. discriminate Hr.
    + exists p. rewrite nth_upd_neq by exact Hne. split; assumption.
  - intros Hc t x v Hx Hp. pose proof (S Hc _ _ _ Hx Hp) as Hv.
    destruct (Nat.eq_dec v w) as [->|Hne]; [congruence|]. rewrite nth_upd_neq by exact Hne. exact Hv.
  - intros v Hv. apply T7 with (w := v).
    destruct (Nat.eq_dec v w) as [->|Hne].
    + rewrite (nth_upd_eq _ _ _ _ Ew) in Hv. unfold pn in Hv.
      destruct ok, Hv as [Hv|Hv]; discriminate Hv.
    + rewrite nth_upd_neq in Hv by exact Hne. exact Hv.
  - intros p Hj. destruct (Jb p Hj) as [Hd _]. unfold all_dead in Hd.
    pose proof (all_dead_nth _ _ _ Hd Ew) as Hx. discriminate Hx.
  - intros Hc t x v Hx Hp. pose proof (P1 Hc _ _ _ Hx Hp) as Hv.
    destruct (Nat.eq_dec v w) as [->|Hne]; [congruence|]. rewrite nth_upd_neq by exact Hne. exact Hv.
  - intros t x Hx Hp v p Hv. pose proof (P2 _ _ Hx Hp _ _ Ew) as Hb. discriminate Hb.
  - intros Hn Hu. apply (W0 Hn). apply (f_equal (@length wpc)) in Hu. rewrite upd_length in Hu.
    destruct (ws s); [reflexivity|discriminate Hu].
Qed.

Lemma step_recv s w t s' : Inv s -> step s (ERecv w t) = Some s' -> Inv s'.
Proof.
  intros [[T Q Q2 L2 L3 S T7 Ja Jb P1 P2 W0] C] H. cbn [step] in H.
  destruct (nth_error (ws s) w) as [p|] eqn:Ew; [|discriminate H].
  destruct p; try discriminate H.
  destruct (q s) as [|h r] eqn:Eq; [discriminate H|].
  destruct (Nat.eqb h t) eqn:Eh; [|discriminate H]. apply Nat.eqb_eq in Eh. subst h.
  destruct (nth_error (ts s) t) as [x0|] eqn:Et; [|discriminate H]. injection H as <-.
  destruct Q as [Qn Qi]. inversion Qn as [|? ? Hnotin Hnr]; subst.
  assert (Hq0 : ph x0 = TQueued).
  { destruct (Qi t (or_introl eq_refl)) as (x & Hx & Hp). congruence. }
  pose proof (Forall_nth _ _ _ _ T Et) as Ht0. unfold tinv in Ht0. rewrite Hq0 in Ht0.
  destruct Ht0 as (Hr0 & Hs0 & Hst0 & Hrc0).
  assert (Halive : forallb is_dead (upd (ws s) w (WSpawn t)) = false).
  { eapply alive_not_all_dead; [apply (nth_upd_eq _ _ _ _ Ew)|reflexivity]. }
  split.
  - constructor; cbn [conc sender q ws ts jp w_q w_ws w_ts].
    + apply Forall_upd; [exact T|]. unfold tinv. cbn. rewrite Hr0, Hs0, Hst0, Hrc0. repeat split.
    + split; [exact Hnr|]. intros j Hj.
      assert (Hne : j <> t) by (intros ->; exact (Hnotin Hj)).
      destruct (Qi j (or_intror Hj)) as (x & Hx & Hp). exists x. rewrite nth_upd_neq by exact Hne.
      split; assumption.
    + intros j x Hx Hp. apply nth_upd_cases in Hx. destruct Hx as [(-> & -> & _)|(Hne & Hx)].
      * discriminate Hp.
      * destruct (Q2 _ _ Hx Hp) as [Heq|Hin]; [congruence|exact Hin].
    + intros j x v Hx Hp. apply nth_upd_cases in Hx. destruct Hx as [(-> & -> & _)|(Hne & Hx)].
      * cbn in Hp. injection Hp as <-. apply (nth_upd_eq _ _ _ _ Ew).
      * pose proof (L2 _ _ _ Hx Hp) as Hv.
        destruct (Nat.eq_dec v w) as [->|Hnw]; [congruence|]. rewrite nth_upd_neq by exact Hnw. exact Hv.
    + intros j x v Hx Hp. apply nth_upd_cases in Hx. destruct Hx as [(-> & -> & _)|(Hne & Hx)].
      * discriminate Hp.
      * destruct (L3 _ _ _ Hx Hp) as (p & Hv & Hr).
        destruct (Nat.eq_dec v w) as [->|Hnw].
        -- eexists. split; [apply (nth_upd_eq _ _ _ _ Ew)|reflexivity].
        -- exists p. rewrite nth_upd_neq by exact Hnw. split; assumption.
    + intros Hc j x v Hx Hp. apply nth_upd_cases in Hx. destruct Hx as [(-> & -> & _)|(Hne & Hx)].
      * discriminate Hp.
      * pose proof (S Hc _ _ _ Hx Hp) as Hv.
        destruct (Nat.eq_dec v w) as [->|Hnw]; [congruence|]. rewrite nth_upd_neq by exact Hnw. exact Hv.
    + intros v Hv. exfalso.
      destruct (Nat.eq_dec v w) as [->|Hnw].
      * rewrite (nth_upd_eq _ _ _ _ Ew) in Hv. destruct Hv as [Hv|Hv]; discriminate Hv.
      * rewrite nth_upd_neq in Hv by exact Hnw. destruct (T7 v Hv) as [Hq _]. discriminate Hq.
    + exact Ja.
    + intros p Hj. destruct (Jb p Hj) as [Hd _]. unfold all_dead in Hd.
      pose proof (all_dead_nth _ _ _ Hd Ew) as Hx. discriminate Hx.
    + intros Hc j x v Hx Hp. apply nth_upd_cases in Hx. destruct Hx as [(-> & -> & _)|(Hne & Hx)].
      * discriminate Hp.
      * pose proof (P1 Hc _ _ _ Hx Hp) as Hv.
        destruct (Nat.eq_dec v w) as [->|Hnw]; [congruence|]. rewrite nth_upd_neq by exact Hnw. exact Hv.
    + intros j x Hx Hp v p Hv. apply nth_upd_cases in Hx. destruct Hx as [(-> & -> & _)|(Hne & Hx)].
      * discriminate Hp.
      * pose proof (P2 _ _ Hx Hp _ _ Ew) as Hb. discriminate Hb.
    + intros _ Hu. apply (f_equal (@length wpc)) in Hu. rewrite upd_length in Hu.
      assert (w < length (ws s)) by (apply nth_error_Some; congruence).
      cbn in Hu. lia.
  - intros _ Hd. unfold all_dead in Hd. cbn [ws w_q w_ws w_ts] in Hd. congruence.
Qed.

Lemma ws_nonempty_upd (l : list wpc) w y p : nth_error l w = Some p -> upd l w y <> [].
Proof.
  intros H Hu. apply (f_equal (@length wpc)) in Hu. rewrite upd_length in Hu.
  assert (w < length l) by (apply nth_error_Some; congruence). cbn in Hu. lia.
Qed.

Lemma step_spawn s w t s' : Inv s -> step s (ESpawn w t) = Some s' -> Inv s'.
Proof.
  intros [[T Q Q2 L2 L3 S T7 Ja Jb P1 P2 W0] C] H. cbn [step] in H.
  destruct (nth_error (ws s) w) as [p|] eqn:Ew; [|discriminate H].
  destruct p as [| |t'| | |]; try discriminate H.
  destruct (nth_error (ts s) t) as [x0|] eqn:Et; [|discriminate H].
  destruct (ph x0) as [|w'| | | | | |] eqn:Ep; try discriminate H.
  destruct (Nat.eqb t' t && Nat.eqb w' w) eqn:Eb; [|discriminate H].
  apply andb_true_iff in Eb. destruct Eb as [E1 E2]. apply Nat.eqb_eq in E1, E2. subst t' w'.
  injection H as <-.
  pose proof (Forall_nth _ _ _ _ T Et) as Ht0. unfold tinv in Ht0. rewrite Ep in Ht0.
  destruct Ht0 as (Hr0 & Hs0 & Hst0 & Hrc0).
  set (pn := if conc s then WRecv else WAwait t).
  assert (Hpn : running_wpc pn = true) by (unfold pn; destruct (conc s); reflexivity).
  assert (Halive : forallb is_dead (upd (ws s) w pn) = false).
  { eapply alive_not_all_dead; [apply (nth_upd_eq _ _ _ _ Ew)|]. unfold pn. destruct (conc s); reflexivity. }
  destruct Q as [Qn Qi].
  split.
  - constructor; cbn [conc sender q ws ts jp w_q w_ws w_ts].
    + apply Forall_upd; [exact T|]. unfold tinv. cbn. rewrite Hr0, Hs0, Hst0, Hrc0. repeat split.
    + split; [exact Qn|]. intros j Hj. destruct (Qi j Hj) as (x & Hx & Hp). exists x.
      assert (Hne : j <> t) by (intros ->; congruence).
      rewrite nth_upd_neq by exact Hne. split; assumption.
    + intros j x Hx Hp. apply nth_upd_cases in Hx. destruct Hx as [(-> & -> & _)|(Hne & Hx)];
        [discriminate Hp|eapply Q2; eauto].
    + intros j x v Hx Hp. apply nth_upd_cases in Hx. destruct Hx as [(-> & -> & _)|(Hne & Hx)].
      * discriminate Hp.
      * pose proof (L2 _ _ _ Hx Hp) as Hv.
        destruct (Nat.eq_dec v w) as [->|Hnw]; [congruence|]. rewrite nth_upd_neq by exact Hnw. exact Hv.
    + intros j x v Hx Hp. apply nth_upd_cases in Hx. destruct Hx as [(-> & -> & _)|(Hne & Hx)].
      * unfold on_rt in Hp. cbn in Hp. apply Nat.eqb_eq in Hp. subst v.
        exists pn. split; [apply (nth_upd_eq _ _ _ _ Ew)|exact Hpn].
      * destruct (L3 _ _ _ Hx Hp) as (p & Hv & Hr).
        destruct (Nat.eq_dec v w) as [->|Hnw].
        -- exists pn. split; [apply (nth_upd_eq _ _ _ _ Ew)|exact Hpn].
        -- exists p. rewrite nth_upd_neq by exact Hnw. split; assumption.
    + intros Hc j x v Hx Hp. apply nth_upd_cases in Hx. destruct Hx as [(-> & -> & _)|(Hne & Hx)].
      * unfold on_rt in Hp. cbn in Hp. apply Nat.eqb_eq in Hp. subst v.
        rewrite (nth_upd_eq _ _ _ _ Ew). unfold pn. rewrite Hc. reflexivity.
      * pose proof (S Hc _ _ _ Hx Hp) as Hv.
        destruct (Nat.eq_dec v w) as [->|Hnw]; [congruence|]. rewrite nth_upd_neq by exact Hnw. exact Hv.
    + intros v Hv. apply T7 with (w := v).
      destruct (Nat.eq_dec v w) as [->|Hnw].
      * rewrite (nth_upd_eq _ _ _ _ Ew) in Hv. unfold pn in Hv.
        destruct (conc s), Hv as [Hv|Hv]; discriminate Hv.
      * rewrite nth_upd_neq in Hv by exact Hnw. exact Hv.
    + exact Ja.
    + intros p Hj. destruct (Jb p Hj) as [Hd _]. unfold all_dead in Hd.
      pose proof (all_dead_nth _ _ _ Hd Ew) as Hx. discriminate Hx.
    + intros Hc j x v Hx Hp. apply nth_upd_cases in Hx. destruct Hx as [(-> & -> & _)|(Hne & Hx)].
      * discriminate Hp.
      * pose proof (P1 Hc _ _ _ Hx Hp) as Hv.
        destruct (Nat.eq_dec v w) as [->|Hnw]; [congruence|]. rewrite nth_upd_neq by exact Hnw. exact Hv.
    + intros j x Hx Hp v p Hv. apply nth_upd_cases in Hx. destruct Hx as [(-> & -> & _)|(Hne & Hx)].
      * discriminate Hp.
      * pose proof (P2 _ _ Hx Hp _ _ Ew) as Hb. discriminate Hb.
    + intros _. eapply ws_nonempty_upd; eauto.
  - intros _ Hd. unfold all_dead in Hd. cbn [ws w_q w_ws w_ts] in Hd. congruence.
Qed.

Lemma step_start s w t s' : Inv s -> step s (EStart w t) = Some s' -> Inv s'.
Proof.
  intros [[T Q Q2 L2 L3 S T7 Ja Jb P1 P2 W0] C] H. cbn [step] in H.
  destruct (nth_error (ws s) w) as [p|] eqn:Ew; [|discriminate H].
  destruct (nth_error (ts s) t) as [x0|] eqn:Et; [|discriminate H].
  destruct (ph x0) as [| |w'| | | | |] eqn:Ep; try discriminate H.
  destruct (alive_wpc p && Nat.eqb w' w) eqn:Eb; [|discriminate H].
  apply andb_true_iff in Eb. destruct Eb as [E1 E2]. apply Nat.eqb_eq in E2. subst w'.
  injection H as <-.
  pose proof (Forall_nth _ _ _ _ T Et) as Ht0. unfold tinv in Ht0. rewrite Ep in Ht0.
  destruct Ht0 as (Hr0 & Hs0 & Hst0 & Hrc0).
  assert (Hon : on_rt w x0 = true) by (unfold on_rt; rewrite Ep; apply Nat.eqb_refl).
  destruct Q as [Qn Qi].
  split.
  - constructor; cbn [conc sender q ws ts jp w_q w_ws w_ts]; auto.
    + apply Forall_upd; [exact T|]. unfold tinv. cbn. rewrite Hr0, Hs0, Hst0, Hrc0. repeat split.
    + split; [exact Qn|]. intros j Hj. destruct (Qi j Hj) as (x & Hx & Hp). exists x.
      assert (Hne : j <> t) by (intros ->; congruence).
      rewrite nth_upd_neq by exact Hne. split; assumption.
    + intros j x Hx Hp. apply nth_upd_cases in Hx. destruct Hx as [(-> & -> & _)|(Hne & Hx)];
        [discriminate Hp|eapply Q2; eauto].
    + intros j x v Hx Hp. apply nth_upd_cases in Hx. destruct Hx as [(-> & -> & _)|(Hne & Hx)];
        [discriminate Hp|eapply L2; eauto].
    + intros j x v Hx Hp. apply nth_upd_cases in Hx. destruct Hx as [(-> & -> & _)|(Hne & Hx)].
      * unfold on_rt in Hp. cbn in Hp. apply Nat.eqb_eq in Hp. subst v. eapply L3; eauto.
      * eapply L3; eauto.
    + intros Hc j x v Hx Hp. apply nth_upd_cases in Hx. destruct Hx as [(-> & -> & _)|(Hne & Hx)].
      * unfold on_rt in Hp. cbn in Hp. apply Nat.eqb_eq in Hp. subst v. eapply S; eauto.
      * eapply S; eauto.
    + intros Hc j x v Hx Hp. apply nth_upd_cases in Hx. destruct Hx as [(-> & -> & _)|(Hne & Hx)];
        [discriminate Hp|eapply P1; eauto].
    + intros j x Hx Hp. apply nth_upd_cases in Hx. destruct Hx as [(-> & -> & _)|(Hne & Hx)];
        [discriminate Hp|eapply P2; eauto].
    + intros _. apply W0. intros Hn. rewrite Hn in Et. destruct t; discriminate Et.
  - exact C.
Qed.

Lemma step_finish s w t ok s' : Inv s -> step s (EFinish w t ok) = Some s' -> Inv s'.
Proof.
  intros [[T Q Q2 L2 L3 S T7 Ja Jb P1 P2 W0] C] H. cbn [step] in H.
  destruct (nth_error (ws s) w) as [p|] eqn:Ew; [|discriminate H].
  destruct (nth_error (ts s) t) as [x0|] eqn:Et; [|discriminate H].
  destruct (ph x0) as [| | |w'| | | |] eqn:Ep; try discriminate H.
  destruct (alive_wpc p && Nat.eqb w' w) eqn:Eb; [|discriminate H].
  apply andb_true_iff in Eb. destruct Eb as [E1 E2]. apply Nat.eqb_eq in E2. subst w'.
  unfold alive_wpc in E1. apply negb_true_iff in E1.
  injection H as <-.
  pose proof (Forall_nth _ _ _ _ T Et) as Ht0. unfold tinv in Ht0. rewrite Ep in Ht0.
  destruct Ht0 as (Hr0 & Hs0 & Hst0 & Hrc0).
  assert (Hon : on_rt w x0 = true) by (unfold on_rt; rewrite Ep; apply Nat.eqb_refl).
  destruct (L3 _ _ _ Et Hon) as (p' & Hp' & Hrun). rewrite Ew in Hp'. injection Hp' as <-.
  set (ws' := match p with
              | WAwait t' => if Nat.eqb t' t then upd (ws s) w WRecv else ws s
              | _ => ws s
              end).
  (* the worker is still running afterwards; other workers are untouched *)
  assert (Hw_same : forall v, v <> w -> nth_error ws' v = nth_error (ws s) v).
  { intros v Hv. unfold ws'. destruct p; try reflexivity. destruct (Nat.eqb t0 t); [|reflexivity].
    apply nth_upd_neq. exact Hv. }
  assert (Hw_w : exists pn, nth_error ws' w = Some pn /\ running_wpc pn = true /\
                            (pn = p \/ (pn = WRecv /\ p = WAwait t))).
  { unfold ws'. destruct p; try (eexists; split; [exact Ew|split; [exact Hrun|left; reflexivity]]).
    destruct (Nat.eqb t0 t) eqn:E0.
    - apply Nat.eqb_eq in E0. subst t0. exists WRecv. split; [apply (nth_upd_eq _ _ _ _ Ew)|].
      split; [reflexivity|right; split; reflexivity].
    - eexists; split; [exact Ew|split; [exact Hrun|left; reflexivity]]. }
  destruct Hw_w as (pn & Hpn & Hpnr & Hpn_or).
  assert (Hpn_alive : is_dead pn = false) by (destruct pn; try reflexivity; discriminate Hpnr).
  destruct Q as [Qn Qi].
  split.
  - constructor; cbn [conc sender q ws ts jp w_q w_ws w_ts].
    + apply Forall_upd; [exact T|]. unfold tinv. destruct ok; cbn; rewrite Hr0, Hs0, Hst0; repeat split.
    + split; [exact Qn|]. intros j Hj. destruct (Qi j Hj) as (x & Hx & Hp). exists x.
      assert (Hne : j <> t) by (intros ->; congruence).
      rewrite nth_upd_neq by exact Hne. split; assumption.
    + intros j x Hx Hp. apply nth_upd_cases in Hx. destruct Hx as [(-> & -> & _)|(Hne & Hx)];
        [destruct ok; discriminate Hp|eapply Q2; eauto].
    + intros j x v Hx Hp. apply nth_upd_cases in Hx. destruct Hx as [(-> & -> & _)|(Hne & Hx)];
        [destruct ok; discriminate Hp|].
      pose proof (L2 _ _ _ Hx Hp) as Hv. destruct (Nat.eq_dec v w) as [->|Hnw].
      * rewrite Hpn. rewrite Ew in Hv. injection Hv as Hv.
        destruct Hpn_or as [->|[_ Hpa]]; [rewrite Hv; reflexivity|congruence].
      * rewrite Hw_same by exact Hnw. exact Hv.
    + intros j x v Hx Hp. apply nth_upd_cases in Hx. destruct Hx as [(-> & -> & _)|(Hne & Hx)];
        [destruct ok; discriminate Hp|].
      destruct (L3 _ _ _ Hx Hp) as (p0 & Hv & Hr). destruct (Nat.eq_dec v w) as [->|Hnw].
      * exists pn. split; assumption.
      * exists p0. rewrite Hw_same by exact Hnw. split; assumption.
    + intros Hc j x v Hx Hp. apply nth_upd_cases in Hx. destruct Hx as [(-> & -> & _)|(Hne & Hx)];
        [destruct ok; discriminate Hp|].
      pose proof (S Hc _ _ _ Hx Hp) as Hv. destruct (Nat.eq_dec v w) as [->|Hnw].
      * (* the awaited task is the only one on this runtime *)
        pose proof (S Hc _ _ _ Et Hon) as Hv2. rewrite Hv in Hv2. injection Hv2 as Hjt. congruence.
      * rewrite Hw_same by exact Hnw. exact Hv.
    + intros v Hv. apply T7 with (w := v). destruct (Nat.eq_dec v w) as [->|Hnw].
      * rewrite Hpn in Hv. destruct Hpn_or as [->|[-> _]]; [rewrite Ew; exact Hv|].
        destruct Hv as [Hv|Hv]; discriminate Hv.
      * rewrite Hw_same in Hv by exact Hnw. exact Hv.
    + exact Ja.
    + intros p0 Hj. destruct (Jb p0 Hj) as [Hd _]. unfold all_dead in Hd.
      pose proof (all_dead_nth _ _ _ Hd Ew) as Hx. congruence.
    + intros Hc j x v Hx Hp. apply nth_upd_cases in Hx. destruct Hx as [(-> & -> & _)|(Hne & Hx)];
        [destruct ok; discriminate Hp|].
      pose proof (P1 Hc _ _ _ Hx Hp) as Hv. destruct (Nat.eq_dec v w) as [->|Hnw].
      * rewrite Ew in Hv. injection Hv as ->. discriminate E1.
      * rewrite Hw_same by exact Hnw. exact Hv.
    + intros j x Hx Hp v p0 Hv. apply nth_upd_cases in Hx. destruct Hx as [(-> & -> & _)|(Hne & Hx)];
        [destruct ok; discriminate Hp|].
      pose proof (P2 _ _ Hx Hp _ _ Ew) as Hb. subst p. discriminate E1.
    + intros _ Hn. rewrite Hn in Hpn. destruct w; discriminate Hpn.
  - intros _ Hd. unfold all_dead in Hd. cbn [ws w_q w_ws w_ts] in Hd.
    rewrite (alive_not_all_dead _ _ _ Hpn Hpn_alive) in Hd. discriminate Hd.
Qed.

Lemma step_leave s w s' : Inv s -> step s (ELeave w) = Some s' -> Inv s'.
Proof.
  intros [[T Q Q2 L2 L3 S T7 Ja Jb P1 P2 W0] C] H. cbn [step] in H.
  destruct (nth_error (ws s) w) as [p|] eqn:Ew; [|discriminate H].
  destruct p; try discriminate H.
  destruct (q s) eqn:Eq; [|discriminate H].
  destruct (sender s) eqn:Es; [discriminate H|]. injection H as <-.
  split.
  - constructor; cbn [conc sender q ws ts jp w_q w_ws w_ts].
    + exact T.
    + rewrite Eq. exact Q.
    + rewrite Eq. exact Q2.
    + intros t x v Hx Hp. pose proof (L2 _ _ _ Hx Hp) as Hv.
      destruct (Nat.eq_dec v w) as [->|Hne]; [congruence|]. rewrite nth_upd_neq by exact Hne. exact Hv.
    + intros t x v Hx Hp. destruct (L3 _ _ _ Hx Hp) as (p & Hv & Hr).
      destruct (Nat.eq_dec v w) as [->|Hne].
      * eexists. split; [apply (nth_upd_eq _ _ _ _ Ew)|reflexivity].
      * exists p. rewrite nth_upd_neq by exact Hne. split; assumption.
    + intros Hc t x v Hx Hp. pose proof (S Hc _ _ _ Hx Hp) as Hv.
      destruct (Nat.eq_dec v w) as [->|Hne]; [congruence|]. rewrite nth_upd_neq by exact Hne. exact Hv.
    + intros v _. split; [exact Eq|exact Es].
    + rewrite Es. exact Ja.
    + intros p Hj. destruct (Jb p Hj) as [Hd _]. unfold all_dead in Hd.
      pose proof (all_dead_nth _ _ _ Hd Ew) as Hx. discriminate Hx.
    + intros Hc t x v Hx Hp. pose proof (P1 Hc _ _ _ Hx Hp) as Hv.
      destruct (Nat.eq_dec v w) as [->|Hne]; [congruence|]. rewrite nth_upd_neq by exact Hne. exact Hv.
    + intros t x Hx Hp v p Hv. pose proof (P2 _ _ Hx Hp _ _ Ew) as Hb. discriminate Hb.
    + intros _. eapply ws_nonempty_upd; eauto.
  - intros _ _. cbn. exact Eq.
Qed.

(* a worker ends (normally or by a panic): its unfinished tasks are dropped *)
Lemma worker_ends s w pold b :
  Inv s -> nth_error (ws s) w = Some pold ->
  (pold = WLeaving /\ b = false) \/ ((pold = WRecv \/ exists t, pold = WAwait t) /\ b = true) ->
  Inv (cleanup (w_ws (upd (ws s) w (WDead b)) (w_ts (map (cancel_on w) (ts s)) s))).
Proof.
  intros [[T Q Q2 L2 L3 S T7 Ja Jb P1 P2 W0] C] Ew Hold. apply cleanup_inv.
  assert (Hold_alive : is_dead pold = false).
  { destruct Hold as [[-> _]|[[->|(t & ->)] _]]; reflexivity. }
  assert (Hold_nospawn : forall t, pold <> WSpawn t).
  { intros t. destruct Hold as [[-> _]|[[->|(t' & ->)] _]]; discriminate. }
  destruct Q as [Qn Qi].
  constructor; cbn [conc sender q ws ts jp w_q w_ws w_ts].
  - rewrite Forall_forall in *. intros y Hy. apply in_map_iff in Hy.
    destruct Hy as (x & <- & Hx). apply co_tinv, T, Hx.
  - split; [exact Qn|]. intros t Ht. destruct (Qi t Ht) as (x & Hx & Hp).
    exists (cancel_on w x). split; [rewrite nth_error_map, Hx; reflexivity|].
    rewrite co_ph. unfold on_rt. rewrite Hp. reflexivity.
  - intros t y Hy Hp. apply nth_map_inv in Hy. destruct Hy as (x & Hx & ->).
    rewrite co_ph in Hp. destruct (on_rt w x); [discriminate Hp|]. eapply Q2; eauto.
  - intros t y v Hy Hp. apply nth_map_inv in Hy. destruct Hy as (x & Hx & ->).
    rewrite co_ph in Hp. destruct (on_rt w x); [discriminate Hp|].
    pose proof (L2 _ _ _ Hx Hp) as Hv. destruct (Nat.eq_dec v w) as [->|Hne].
    + rewrite Ew in Hv. injection Hv as Hv. exfalso. exact (Hold_nospawn _ Hv).
    + rewrite nth_upd_neq by exact Hne. exact Hv.
  - intros t y v Hy Hp. apply nth_map_inv in Hy. destruct Hy as (x & Hx & ->).
    apply co_on_rt in Hp. destruct Hp as [Hp Hnw].
    assert (Hne : v <> w) by (intros ->; congruence).
    destruct (L3 _ _ _ Hx Hp) as (p & Hv & Hr). exists p. rewrite nth_upd_neq by exact Hne.
    split; assumption.
  - intros Hc t y v Hy Hp. apply nth_map_inv in Hy. destruct Hy as (x & Hx & ->).
    apply co_on_rt in Hp. destruct Hp as [Hp Hnw].
    assert (Hne : v <> w) by (intros ->; congruence).
    rewrite nth_upd_neq by exact Hne. eapply S; eauto.
  - intros v Hv. destruct (Nat.eq_dec v w) as [->|Hne].
    + rewrite (nth_upd_eq _ _ _ _ Ew) in Hv.
      destruct Hold as [[-> ->]|[_ ->]].
      * apply T7 with (w := w). left. exact Ew.
      * destruct Hv as [Hv|Hv]; discriminate Hv.
    + rewrite nth_upd_neq in Hv by exact Hne. apply T7 with (w := v). exact Hv.
  - exact Ja.
  - intros p Hj. destruct (Jb p Hj) as [Hd _]. unfold all_dead in Hd.
    pose proof (all_dead_nth _ _ _ Hd Ew) as Hx. congruence.
  - intros Hc t y v Hy Hp. apply nth_map_inv in Hy. destruct Hy as (x & Hx & ->).
    rewrite co_ph in Hp. destruct (on_rt w x) eqn:Eo.
    + injection Hp as <-. rewrite (nth_upd_eq _ _ _ _ Ew).
      pose proof (S Hc _ _ _ Hx Eo) as Hv. rewrite Ew in Hv. injection Hv as ->.
      destruct Hold as [[Hx0 _]|[_ ->]]; [discriminate Hx0|reflexivity].
    + pose proof (P1 Hc _ _ _ Hx Hp) as Hv. destruct (Nat.eq_dec v w) as [->|Hne].
      * rewrite Ew in Hv. injection Hv as ->. discriminate Hold_alive.
      * rewrite nth_upd_neq by exact Hne. exact Hv.
  - intros t y Hy Hp v p Hv. apply nth_map_inv in Hy. destruct Hy as (x & Hx & ->).
    rewrite co_ph in Hp. destruct (on_rt w x); [discriminate Hp|].
    pose proof (P2 _ _ Hx Hp _ _ Ew) as Hb. subst pold. discriminate Hold_alive.
  - intros _. eapply ws_nonempty_upd; eauto.
Qed.

Lemma step_exit s w s' : Inv s -> step s (EExit w) = Some s' -> Inv s'.
Proof.
  intros Hi H. cbn [step] in H.
  destruct (nth_error (ws s) w) as [p|] eqn:Ew; [|discriminate H].
  destruct p; try discriminate H. injection H as <-.
  eapply worker_ends; [exact Hi|exact Ew|]. left. split; reflexivity.
Qed.

Lemma step_panic s w s' : Inv s -> step s (EPanic w) = Some s' -> Inv s'.
Proof.
  intros Hi H. cbn [step] in H.
  destruct (nth_error (ws s) w) as [p|] eqn:Ew; [|discriminate H].
  destruct p; try discriminate H; injection H as <-;
    (eapply worker_ends; [exact Hi|exact Ew|]); right; (split; [|reflexivity]).
  - left. reflexivity.
  - right. eexists. reflexivity.
Qed.

Lemma step_join_begin s s' : Inv s -> step s EJoinBegin = Some s' -> Inv s'.
Proof.
  intros [[T Q Q2 L2 L3 S T7 Ja Jb P1 P2 W0] C] H. cbn [step] in H.
  assert (Ej : jp s = JIdle) by (destruct (jp s); try discriminate H; reflexivity).
  rewrite Ej in H. injection H as <-. apply cleanup_inv.
  assert (Hs : sender s = true) by (apply Ja; exact Ej).
  constructor; cbn [conc sender q ws ts jp w_jp w_sender]; auto.
  - intros w Hw. destruct (T7 w Hw) as [_ Hx]. congruence.
  - split; intros Hx; discriminate Hx.
  - intros p Hx. discriminate Hx.
Qed.

Lemma step_join_return s p s' : Inv s -> step s (EJoinReturn p) = Some s' -> Inv s'.
Proof.
  intros [[T Q Q2 L2 L3 S T7 Ja Jb P1 P2 W0] C] H. cbn [step] in H.
  assert (Ej : jp s = JWaiting) by (destruct (jp s); try discriminate H; reflexivity).
  rewrite Ej in H.
  destruct (all_dead s && Bool.eqb p (existsb is_panicked (ws s))) eqn:E; [|discriminate H].
  apply andb_true_iff in E. destruct E as [Ed Ep]. apply Bool.eqb_prop in Ep.
  injection H as <-.
  split; [|exact C].
  constructor; cbn [conc sender q ws ts jp w_jp]; auto.
  - split; intros Hx; [discriminate Hx|]. apply Ja in Hx. congruence.
  - intros p0 Hx. injection Hx as <-. split; [exact Ed|exact Ep].
Qed.

Theorem step_inv s e s' : Inv s -> step s e = Some s' -> Inv s'.
Proof.
  intros Hi H. destruct e.
  - destruct ok; [eapply step_dispatch; eauto|].
    cbn [step] in H. destruct (jp s); try discriminate H.
    destruct (any_alive s); [discriminate H|]. injection H as <-. exact Hi.
  - eapply step_boot; eauto.
  - eapply step_recv; eauto.
  - eapply step_spawn; eauto.
  - eapply step_start; eauto.
  - eapply step_finish; eauto.
  - eapply step_leave; eauto.
  - eapply step_exit; eauto.
  - eapply step_panic; eauto.
  - eapply step_join_begin; eauto.
  - eapply step_join_return; eauto.
Qed.

Theorem steps_inv : forall es s s', Inv s -> steps s es = Some s' -> Inv s'.
Proof.
  induction es as [|e es IH]; intros s s' Hi Hs; cbn [steps] in Hs.
  - injection Hs as <-. exact Hi.
  - destruct (step s e) as [s1|] eqn:H1; [|discriminate].
    eapply IH; [eapply step_inv; eauto | exact Hs].
Qed.

Theorem reachable_inv c n es s : steps (init c n) es = Some s -> Inv s.
Proof. intros H. eapply steps_inv; [apply init_inv | exact H]. Qed.

(* ---------------------------------------------------------------------- *)
(* consequences                                                            *)

(* every accepted closure is received at most once, spawned at most once (by
   the worker that received it), called at most once *)
Theorem started_once c n es s t x :
  steps (init c n) es = Some s -> nth_error (ts s) t = Some x ->
  recvs x <= 1 /\ spawns x <= 1 /\ starts x <= 1 /\ spawns x <= recvs x /\ starts x <= spawns x.
Proof.
  intros H Hx. destruct (reachable_inv _ _ _ _ H) as [[T _ _ _ _ _ _ _ _ _ _ _] _].
  pose proof (Forall_nth _ _ _ _ T Hx) as Ht. unfold tinv in Ht.
  destruct (ph x); destruct Ht as (-> & -> & Hs & _); try rewrite Hs; lia.
Qed.

(* a task is polled only by the runtime it was spawned on *)
Theorem polled_by_owner s w t s' ok :
  (step s (EStart w t) = Some s' \/ step s (EFinish w t ok) = Some s') ->
  exists x, nth_error (ts s) t = Some x /\ on_rt w x = true.
Proof.
  intros [H|H]; cbn [step] in H;
    destruct (nth_error (ws s) w) as [p|]; try discriminate H;
    destruct (nth_error (ts s) t) as [x|] eqn:Et; try discriminate H;
    destruct (ph x) eqn:Ep; try discriminate H;
    destruct (alive_wpc p && Nat.eqb w0 w) eqn:E; try discriminate H;
    apply andb_true_iff in E; destruct E as [_ E];
    exists x; (split; [reflexivity|]); unfold on_rt; rewrite Ep; exact E.
Qed.

Lemma panicked_exists l w : nth_error l w = Some (WDead true) -> existsb is_panicked l = true.
Proof. intros H. apply existsb_exists. exists (WDead true). split; [eapply nth_error_In; eauto|reflexivity]. Qed.

(* once join has returned no receiver is left empty *)
Theorem result_or_cancel c n es s p t x :
  steps (init c n) es = Some s -> jp s = JReturned p -> nth_error (ts s) t = Some x ->
  rc x = RResult \/ rc x = RCanceled.
Proof.
  intros H Hj Hx. destruct (reachable_inv _ _ _ _ H) as [[T Q Q2 L2 L3 S T7 Ja Jb P1 P2 W0] C].
  destruct (Jb p Hj) as [Hd _].
  assert (Hs : sender s = false).
  { destruct (sender s) eqn:E; [|reflexivity]. assert (X : jp s = JIdle) by (apply Ja; reflexivity). congruence. }
  pose proof (C Hs Hd) as Hq.
  pose proof (Forall_nth _ _ _ _ T Hx) as Ht. unfold tinv in Ht.
  destruct (ph x) eqn:Ep.
  - pose proof (Q2 _ _ Hx Ep) as Hin. rewrite Hq in Hin. destruct Hin.
  - pose proof (L2 _ _ _ Hx Ep) as Hw. pose proof (all_dead_nth _ _ _ Hd Hw) as Hb. discriminate Hb.
  - assert (Ho : on_rt w x = true) by (unfold on_rt; rewrite Ep; apply Nat.eqb_refl).
    destruct (L3 _ _ _ Hx Ho) as (pw & Hw & Hr). pose proof (all_dead_nth _ _ _ Hd Hw) as Hb.
    destruct pw; discriminate.
  - assert (Ho : on_rt w x = true) by (unfold on_rt; rewrite Ep; apply Nat.eqb_refl).
    destruct (L3 _ _ _ Hx Ho) as (pw & Hw & Hr). pose proof (all_dead_nth _ _ _ Hd Hw) as Hb.
    destruct pw; discriminate.
  - left. apply Ht.
  - right. apply Ht.
  - right. apply Ht.
  - right. apply Ht.
Qed.

(* ... and if at least one worker left its loop normally, every accepted
   closure was received and spawned exactly once *)
Theorem started_exactly_once c n es s p w t x :
  steps (init c n) es = Some s -> jp s = JReturned p ->
  nth_error (ws s) w = Some (WDead false) -> nth_error (ts s) t = Some x ->
  recvs x = 1 /\ spawns x = 1.
Proof.
  intros H Hj Hw Hx. destruct (reachable_inv _ _ _ _ H) as [[T Q Q2 L2 L3 S T7 Ja Jb P1 P2 W0] C].
  destruct (Jb p Hj) as [Hd _]. destruct (T7 w (or_intror Hw)) as [Hq _].
  pose proof (Forall_nth _ _ _ _ T Hx) as Ht. unfold tinv in Ht.
  destruct (ph x) eqn:Ep; try (destruct Ht as (-> & -> & _); split; reflexivity).
  - pose proof (Q2 _ _ Hx Ep) as Hin. rewrite Hq in Hin. destruct Hin.
  - pose proof (L2 _ _ _ Hx Ep) as Hv. pose proof (all_dead_nth _ _ _ Hd Hv) as Hb. discriminate Hb.
  - pose proof (P2 _ _ Hx Ep _ _ Hw) as Hb. discriminate Hb.
Qed.

Lemma cleanup_conc s : conc (cleanup s) = conc s.
Proof. unfold cleanup. destruct (negb (sender s) && all_dead s); reflexivity. Qed.

Lemma step_conc s e s' : step s e = Some s' -> conc s' = conc s.
Proof.
  intros E. destruct e; cbn [step] in E;
    repeat match type of E with
           | context [match ?x with _ => _ end] => destruct x eqn:?; try discriminate E
           end;
    injection E as <-; rewrite ?cleanup_conc; cbn [conc w_q w_ws w_ts w_jp w_sender]; congruence.
Qed.

Lemma steps_conc : forall es s s', steps s es = Some s' -> conc s' = conc s.
Proof.
  induction es as [|e es IH]; intros s s' Hs; cbn [steps] in Hs.
  - injection Hs as <-. reflexivity.
  - destruct (step s e) as [s1|] eqn:E; [|discriminate].
    rewrite (IH _ _ Hs). eapply step_conc; eauto.
Qed.

(* sequential mode: a worker never has two unfinished tasks *)
Theorem sequential_no_overlap n es s w t1 t2 x1 x2 :
  steps (init false n) es = Some s ->
  nth_error (ts s) t1 = Some x1 -> nth_error (ts s) t2 = Some x2 ->
  on_rt w x1 = true -> on_rt w x2 = true -> t1 = t2.
Proof.
  intros H H1 H2 O1 O2. destruct (reachable_inv _ _ _ _ H) as [[T Q Q2 L2 L3 S T7 Ja Jb P1 P2 W0] C].
  assert (Hc : conc s = false) by (rewrite (steps_conc _ _ _ H); reflexivity).
  pose proof (S Hc _ _ _ H1 O1) as A1. pose proof (S Hc _ _ _ H2 O2) as A2. congruence.
Qed.

(* sequential mode: when join returns without re-raising a panic, every accepted
   closure ran to its end (its own panic included) and none was cancelled *)
Theorem sequential_all_finish n es s t x :
  steps (init false n) es = Some s -> jp s = JReturned false -> nth_error (ts s) t = Some x ->
  (exists w, ph x = TDone w /\ rc x = RResult) \/
  (exists w, ph x = TPanicked w /\ rc x = RCanceled).
Proof.
  intros H Hj Hx. destruct (reachable_inv _ _ _ _ H) as [[T Q Q2 L2 L3 S T7 Ja Jb P1 P2 W0] C].
  assert (Hc : conc s = false) by (rewrite (steps_conc _ _ _ H); reflexivity).
  destruct (Jb _ Hj) as [Hd Hp].
  assert (Hs : sender s = false).
  { destruct (sender s) eqn:E; [|reflexivity]. assert (X : jp s = JIdle) by (apply Ja; reflexivity). congruence. }
  pose proof (C Hs Hd) as Hq.
  pose proof (Forall_nth _ _ _ _ T Hx) as Ht. unfold tinv in Ht.
  destruct (ph x) eqn:Ep.
  - pose proof (Q2 _ _ Hx Ep) as Hin. rewrite Hq in Hin. destruct Hin.
  - pose proof (L2 _ _ _ Hx Ep) as Hw. pose proof (all_dead_nth _ _ _ Hd Hw) as Hb. discriminate Hb.
  - assert (Ho : on_rt w x = true) by (unfold on_rt; rewrite Ep; apply Nat.eqb_refl).
    destruct (L3 _ _ _ Hx Ho) as (pw & Hw & Hr). pose proof (all_dead_nth _ _ _ Hd Hw) as Hb.
    destruct pw; discriminate.
  - assert (Ho : on_rt w x = true) by (unfold on_rt; rewrite Ep; apply Nat.eqb_refl).
    destruct (L3 _ _ _ Hx Ho) as (pw & Hw & Hr). pose proof (all_dead_nth _ _ _ Hd Hw) as Hb.
    destruct pw; discriminate.
  - left. exists w. split; [reflexivity|apply Ht].
  - right. exists w. split; [reflexivity|apply Ht].
  - pose proof (P1 Hc _ _ _ Hx Ep) as Hw. rewrite (panicked_exists _ _ Hw) in Hp. discriminate Hp.
  - assert (Hne : ws s <> []).
    { apply W0. intros Hn. rewrite Hn in Hx. destruct t; discriminate Hx. }
    assert (H0 : exists p0, nth_error (ws s) 0 = Some p0).
    { destruct (ws s) as [|p0 l]; [congruence|]. exists p0. reflexivity. }
    destruct H0 as [p0 H0]. pose proof (P2 _ _ Hx Ep _ _ H0) as Hb. subst p0.
    rewrite (panicked_exists _ _ H0) in Hp. discriminate Hp.
Qed.

(* join returns only after every worker thread has ended, and re-raises a
   worker's panic *)
Theorem join_after_exit c n es s p s' :
  steps (init c n) es = Some s -> step s (EJoinReturn p) = Some s' ->
  all_dead s = true /\ (p = true <-> exists w, nth_error (ws s) w = Some (WDead true)) /\
  jp s' = JReturned p.
Proof.
  intros _ H. cbn [step] in H. destruct (jp s); try discriminate H.
  destruct (all_dead s && Bool.eqb p (existsb is_panicked (ws s))) eqn:E; [|discriminate H].
  apply andb_true_iff in E. destruct E as [Ed Ep]. apply Bool.eqb_prop in Ep.
  injection H as <-. split; [exact Ed|]. split; [|reflexivity].
  rewrite Ep. split.
  - intros Hx. apply existsb_exists in Hx. destruct Hx as (pw & Hin & Hpw).
    apply In_nth_error in Hin. destruct Hin as [w Hw]. exists w.
    destruct pw as [| | | | |b]; try discriminate Hpw. destruct b; [exact Hw|discriminate Hpw].
  - intros (w & Hw). eapply panicked_exists; eauto.
Qed.

Theorem joined_all_dead c n es s p :
  steps (init c n) es = Some s -> jp s = JReturned p ->
  all_dead s = true /\ p = existsb is_panicked (ws s).
Proof.
  intros H Hj. destruct (reachable_inv _ _ _ _ H) as [[T Q Q2 L2 L3 S T7 Ja Jb P1 P2 W0] C].
  exact (Jb p Hj).
Qed.

(* join consumes the dispatcher: nothing is accepted afterwards *)
Theorem no_dispatch_after_join s ok : jp s <> JIdle -> step s (EDispatch ok) = None.
Proof. intros H. cbn [step]. destruct (jp s); [congruence|reflexivity|reflexivity]. Qed.

(* a closure's panic (inside its future, or synchronously at its first poll
   before it returned one: both are the label EFinish _ _ false) stays in its
   task: no worker dies by it, the channel, the sender and every other task are
   untouched, so it can never be the panic that join re-raises *)
Theorem task_panic_confined s w t ok s' :
  step s (EFinish w t ok) = Some s' ->
  q s' = q s /\ sender s' = sender s /\ jp s' = jp s /\
  (forall u, u <> t -> nth_error (ts s') u = nth_error (ts s) u) /\
  (forall v p, nth_error (ws s') v = Some p -> is_dead p = true -> nth_error (ws s) v = Some p) /\
  existsb is_panicked (ws s') = existsb is_panicked (ws s).
Proof.
  intros H. cbn [step] in H.
  destruct (nth_error (ws s) w) as [p|] eqn:Ew; [|discriminate H].
  destruct (nth_error (ts s) t) as [x0|] eqn:Et; [|discriminate H].
  destruct (ph x0) as [| | |w'| | | |] eqn:Ep; try discriminate H.
  destruct (alive_wpc p && Nat.eqb w' w) eqn:Eb; [|discriminate H].
  apply andb_true_iff in Eb. destruct Eb as [E1 _].
  unfold alive_wpc in E1. apply negb_true_iff in E1.
  injection H as <-. cbn [q sender jp ts ws w_ws w_ts].
  split; [reflexivity|]. split; [reflexivity|]. split; [reflexivity|].
  split; [intros u Hu; apply nth_upd_neq; exact Hu|].
  assert (Hcase : (match p with
                   | WAwait t' => if Nat.eqb t' t then upd (ws s) w WRecv else ws s
                   | _ => ws s
                   end = ws s) \/
                  (match p with
                   | WAwait t' => if Nat.eqb t' t then upd (ws s) w WRecv else ws s
                   | _ => ws s
                   end = upd (ws s) w WRecv)).
  { destruct p; try (left; reflexivity). destruct (Nat.eqb t0 t); [right|left]; reflexivity. }
  destruct Hcase as [-> | ->]; [split; [intros v p0 Hv _; exact Hv|reflexivity]|].
  split.
  - intros v p0 Hv Hd. apply nth_upd_cases in Hv. destruct Hv as [(_ & -> & _)|(_ & Hv)];
      [discriminate Hd|exact Hv].
  - (* replacing a live worker state by WRecv changes nobody's panicked flag *)
    unfold upd. rewrite Ew.
    rewrite <- (firstn_skipn w (ws s)) at 3.
    assert (Hsk : skipn w (ws s) = p :: skipn (S w) (ws s)).
    { clear - Ew. revert w Ew. induction (ws s) as [|a l IH]; intros w Ew; destruct w; cbn in *;
        try discriminate; [injection Ew as ->; reflexivity|apply IH; exact Ew]. }
    rewrite Hsk, !existsb_app. cbn [existsb]. destruct p; try reflexivity. discriminate E1.
Qed.

(* none stranded: a task spawned on a runtime that still exists can be started,
   whatever else is pending on that runtime and without any further event from
   outside (no dispatch, no wake-up, no join is needed to enable it) *)
Theorem spawned_task_startable c n es s t x w :
  steps (init c n) es = Some s -> nth_error (ts s) t = Some x -> ph x = TSpawned w ->
  exists s', step s (EStart w t) = Some s' /\
             exists x', nth_error (ts s') t = Some x' /\ ph x' = TRunning w /\ starts x' = 1.
Proof.
  intros H Hx Hp. destruct (reachable_inv _ _ _ _ H) as [[T Q Q2 L2 L3 S T7 Ja Jb P1 P2 W0] C].
  assert (Ho : on_rt w x = true) by (unfold on_rt; rewrite Hp; apply Nat.eqb_refl).
  destruct (L3 _ _ _ Hx Ho) as (p & Hw & Hr).
  pose proof (Forall_nth _ _ _ _ T Hx) as Ht. unfold tinv in Ht. rewrite Hp in Ht.
  destruct Ht as (_ & _ & Hst & _).
  cbn [step]. rewrite Hw, Hx, Hp.
  assert (Ha : alive_wpc p = true) by (destruct p; try reflexivity; discriminate Hr).
  rewrite Ha, Nat.eqb_refl. cbn [andb]. eexists. split; [reflexivity|].
  cbn [ts w_ts]. eexists. split; [apply (nth_upd_eq _ _ _ _ Hx)|]. cbn. rewrite Hst.
  split; reflexivity.
Qed.
