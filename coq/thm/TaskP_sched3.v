(* generated layout: one invariant group / structural fact, one part of the labels (TaskThm.v) *)
From Compio.Model Require Import Base Task.
From Compio.Thm Require Import TaskThm.
Local Open Scope nat_scope.
Local Opaque Nat.ltb Nat.eqb Nat.leb.

Lemma sched_pres_3 s l s' : part l = 3 -> Gsched s -> step fixed s l = Some s' -> Gsched s'.
Proof.
  intros Hp. intros HI Hs. pres_start_part s l Hs Hp.
  all: destruct HI; constructor; cbn in *.
  all: try assumption.
  all: fin2.
Qed.
