(* AsyncifyThm.v — proofs about model/Asyncify.v (the blocking pool).
   Main device: an invariant [inv] preserved by every label of [step], lifted to
   every state reachable from [init l d] by any interleaving. *)
From Compio.Model Require Import Base Asyncify.

(* ---------------------------------------------------------------------- *)
(* lists *)

Lemma length_upd : forall A (l : list A) k x, length (upd l k x) = length l.
Proof. induction l; destruct k; simpl; intros; auto. Qed.

Lemma nth_error_upd_eq : forall A (l : list A) k x y,
  nth_error l k = Some y -> nth_error (upd l k x) k = Some x.
Proof. induction l; destruct k; simpl; intros; try discriminate; eauto. Qed.

Lemma nth_error_upd_ne : forall A (l : list A) k k' x,
  k <> k' -> nth_error (upd l k x) k' = nth_error l k'.
Proof.
  induction l; destruct k, k'; simpl; intros; auto; try congruence.
Qed.

Lemma sumf_upd : forall A (f : A -> nat) l k x y,
  nth_error l k = Some y -> sumf f (upd l k x) + f y = sumf f l + f x.
Proof.
  induction l; destruct k; simpl; intros; try discriminate.
  - inversion H; subst. lia.
  - specialize (IHl _ x _ H). lia.
Qed.

Lemma sumf_app : forall A (f : A -> nat) l l', sumf f (l ++ l') = sumf f l + sumf f l'.
Proof. induction l; simpl; intros; auto. rewrite IHl. lia. Qed.

Lemma sumf_repeat0 : forall A (f : A -> nat) x n, f x = 0 -> sumf f (repeat x n) = 0.
Proof. induction n; simpl; intros; auto. rewrite H, IHn; auto. Qed.

Lemma sumf_le : forall A (f g : A -> nat) l, (forall x, f x <= g x) -> sumf f l <= sumf g l.
Proof. induction l; simpl; intros; auto. specialize (H a) as Ha. specialize (IHl H). lia. Qed.

Lemma sumf_nth_le : forall A (f : A -> nat) l k y, nth_error l k = Some y -> f y <= sumf f l.
Proof.
  induction l; destruct k; simpl; intros; try discriminate.
  - inversion H; subst. lia.
  - specialize (IHl _ _ H). lia.
Qed.

Lemma sumf_pos_ex : forall A (f : A -> nat) l, 1 <= sumf f l ->
  exists k y, nth_error l k = Some y /\ 1 <= f y.
Proof.
  induction l; simpl; intros. lia.
  destruct (f a) eqn:E.
  - destruct (IHl H) as (k & y & H1 & H2). exists (S k), y. auto.
  - exists 0, a. simpl. split; auto. lia.
Qed.

Lemma existsb_false_nth : forall A (f : A -> bool) l k y,
  existsb f l = false -> nth_error l k = Some y -> f y = false.
Proof.
  induction l; destruct k; simpl; intros; try discriminate;
    apply orb_false_iff in H; destruct H.
  - inversion H0; subst; auto.
  - eauto.
Qed.

Lemma existsb_upd_false : forall A (f : A -> bool) l k x,
  existsb f l = false -> f x = false -> existsb f (upd l k x) = false.
Proof.
  induction l; destruct k; simpl; intros; auto;
    apply orb_false_iff in H; destruct H; apply orb_false_iff; auto.
Qed.

Lemma nth_error_app_last : forall A (l : list A) x, nth_error (l ++ [x]) (length l) = Some x.
Proof. intros. rewrite nth_error_app2 by lia. rewrite Nat.sub_diag. reflexivity. Qed.

Lemma Forall_upd : forall A (P : A -> Prop) l k x, Forall P l -> P x -> Forall P (upd l k x).
Proof.
  induction l; destruct k; simpl; intros; auto; inversion H; subst; constructor; auto.
Qed.

Lemma Forall_snoc : forall A (P : A -> Prop) l x, Forall P l -> P x -> Forall P (l ++ [x]).
Proof. intros. apply Forall_app. split; auto. Qed.

Lemma rw_le_hw : forall j p, rw j p <= hw j p.
Proof. destruct p; simpl; lia. Qed.

Lemma b2n_eqb_refl : forall j, b2n (j =? j) = 1.
Proof. intros. rewrite Nat.eqb_refl. reflexivity. Qed.

Lemma b2n_eqb_ne : forall j k, j <> k -> b2n (j =? k) = 0.
Proof. intros. apply Nat.eqb_neq in H. rewrite H. reflexivity. Qed.

Lemma b2n_le1 : forall b, b2n b <= 1.
Proof. destruct b; simpl; lia. Qed.

(* ---------------------------------------------------------------------- *)
(* the invariant of the repaired protocol *)

Definition new_d (p : dpc) : Prop :=
  match p with DSend _ | DSendWait _ => False | _ => True end.

Definition entry_ok (s : st) (e : nat * nat * bool) : Prop :=
  exists x, nth_error (jobs s) (snd (fst e)) = Some x /\ owner x = fst (fst e) /\ panics x = snd e.

Record inv (s : st) : Prop := mk_inv {
  inv_counter : counter s = alive s + reserved s;
  inv_limit : counter s <= limit s;
  inv_hold : forall j, j < length (jobs s) -> holders s j + delivered s j = 1;
  inv_fresh : forall j, length (jobs s) <= j -> holders s j = 0 /\ delivered s j = 0;
  inv_runs : forall j x, nth_error (jobs s) j = Some x -> runs x = running_j s j + delivered s j;
  inv_entries : Forall (entry_ok s) (completed s);
  inv_new_w : Forall (fun p => p <> WSpawned) (work s);
  inv_new_d : Forall new_d (disp s);
  inv_nopanic : 1 <= limit s -> Forall (fun p => p <> DPanicked) (disp s)
}.

Lemma inv_init : forall l d, inv (init l d).
Proof.
  intros. constructor; unfold init, alive, reserved, holders, delivered, running_j; simpl.
  - rewrite sumf_repeat0; auto.
  - lia.
  - intros; lia.
  - intros. rewrite sumf_repeat0; auto.
  - intros. destruct j; discriminate.
  - constructor.
  - constructor.
  - apply Forall_forall. intros x H. apply repeat_spec in H. subst. exact I.
  - intros _. apply Forall_forall. intros x H. apply repeat_spec in H. subst. discriminate.
Qed.

Ltac break_step H :=
  repeat match type of H with
  | context [match ?x with _ => _ end] => destruct x eqn:?; try discriminate
  end; inversion H; subst; clear H.

(* replace every [sumf f (upd l k x)] by its value relative to [sumf f l] *)
Ltac upd_facts :=
  repeat match goal with
  | |- context [sumf ?f (upd ?l ?k ?x)] =>
    match goal with
    | H : nth_error l k = Some ?y |- _ =>
      let E := fresh "E" in let v := fresh "v" in
      pose proof (sumf_upd _ f l k x y H) as E;
      set (v := sumf f (upd l k x)) in *; clearbody v
    end
  end.

Ltac eqb_cases :=
  repeat match goal with
  | H : context [?a =? ?b] |- _ => destruct (Nat.eqb_spec a b); subst
  | |- context [?a =? ?b] => destruct (Nat.eqb_spec a b); subst
  end.

Ltac unf := unfold alive, reserved, holders, delivered, running_j, running,
  set_d, set_w, set_counter, add_worker, add_job, set_jobs, add_completed in *; cbn [limit counter disp work jobs completed] in *.

Lemma entry_ok_mono : forall s s' e,
  (forall j x, nth_error (jobs s) j = Some x ->
     exists x', nth_error (jobs s') j = Some x' /\ owner x' = owner x /\ panics x' = panics x) ->
  entry_ok s e -> entry_ok s' e.
Proof.
  intros s s' e H (x & H1 & H2 & H3). destruct (H _ _ H1) as (x' & A & B & C).
  exists x'. repeat split; congruence.
Qed.

Ltac fin := unf; intros; upd_facts; rewrite ?sumf_app; simpl in *; eqb_cases; simpl in *; try lia.

Lemma step_counter : forall s e s', step s e = Some s' ->
  counter s = alive s + reserved s -> counter s <= limit s ->
  counter s' = alive s' + reserved s' /\ counter s' <= limit s'.
Proof.
  intros s e s' H Ic Il. unfold step, step_common in H.
  destruct e; break_step H; split; fin.
  all: try (apply Nat.ltb_lt in Heqb0; lia).
Qed.

Lemma nth_error_snoc_cases : forall A (l : list A) x j y,
  nth_error (l ++ [x]) j = Some y ->
  (j < length l /\ nth_error l j = Some y) \/ (j = length l /\ y = x).
Proof.
  intros. destruct (lt_dec j (length l)).
  - left. rewrite nth_error_app1 in H by auto. auto.
  - right. rewrite nth_error_app2 in H by lia.
    destruct (j - length l) eqn:E; simpl in H.
    + inversion H. split; auto. lia.
    + destruct n0; discriminate.
Qed.

Lemma step_hold : forall s e s', step s e = Some s' -> 1 <= limit s ->
  (forall j, j < length (jobs s) -> holders s j + delivered s j = 1) ->
  (forall j, length (jobs s) <= j -> holders s j = 0 /\ delivered s j = 0) ->
  (forall j, j < length (jobs s') -> holders s' j + delivered s' j = 1) /\
  (forall j, length (jobs s') <= j -> holders s' j = 0 /\ delivered s' j = 0).
Proof.
  intros s e s' H L Ih If. unfold step, step_common in H.
  destruct e; break_step H; split; unf; intros jj Hj;
    specialize (Ih jj); specialize (If jj);
    rewrite ?app_length, ?length_upd in *; simpl in *;
    upd_facts; rewrite ?sumf_app; unfold is_entry in *; simpl in *; eqb_cases; simpl in *; try lia.
Qed.

Lemma running_le_holders : forall s j, running_j s j <= holders s j.
Proof.
  intros. unfold running_j, holders.
  pose proof (sumf_le _ (rw j) (hw j) (work s) (rw_le_hw j)). lia.
Qed.

Lemma step_runs : forall s e s', step s e = Some s' ->
  (forall j, length (jobs s) <= j -> holders s j = 0 /\ delivered s j = 0) ->
  (forall j x, nth_error (jobs s) j = Some x -> runs x = running_j s j + delivered s j) ->
  (forall j x, nth_error (jobs s') j = Some x -> runs x = running_j s' j + delivered s' j).
Proof.
  intros s e s' H If Ir. unfold step, step_common in H.
  destruct e; break_step H; intros jj xx Hx; unf.
  - (* ECall *)
    apply nth_error_snoc_cases in Hx. destruct Hx as [[Hl Hx] | [Hl Hx]]; subst.
    + apply Ir; auto.
    + simpl. pose proof (running_le_holders s (length (jobs s))).
      destruct (If (length (jobs s)) (le_n _)). unfold running_j, holders, delivered in *. lia.
  - specialize (Ir _ _ Hx). fin.
  - specialize (Ir _ _ Hx). fin.
  - specialize (Ir _ _ Hx). fin.
  - specialize (Ir _ _ Hx). fin.
  - specialize (Ir _ _ Hx). fin.
  - specialize (Ir _ _ Hx). rewrite sumf_app. simpl. fin.
  - specialize (Ir _ _ Hx). fin.
  - (* EStart *)
    destruct (Nat.eq_dec j jj).
    + subst. erewrite nth_error_upd_eq in Hx by eauto. inversion Hx; subst. simpl.
      specialize (Ir _ _ Heqo0). fin.
    + rewrite nth_error_upd_ne in Hx by auto. specialize (Ir _ _ Hx). fin.
  - (* EEnd *)
    specialize (Ir _ _ Hx). rewrite sumf_app. unfold is_entry in *. fin.
  - specialize (Ir _ _ Hx). fin.
  - specialize (Ir _ _ Hx). fin.
  - specialize (Ir _ _ Hx). fin.
Qed.

Lemma step_limit : forall s e s', step s e = Some s' -> limit s' = limit s.
Proof.
  intros s e s' H. unfold step, step_common in H. destruct e; break_step H; reflexivity.
Qed.

Lemma step_jobs_mono : forall s e s', step s e = Some s' ->
  forall j x, nth_error (jobs s) j = Some x ->
  exists x', nth_error (jobs s') j = Some x' /\ owner x' = owner x /\ panics x' = panics x.
Proof.
  intros s e s' H. unfold step, step_common in H.
  destruct e; break_step H; intros jj xx Hx; unf; try (exists xx; auto; fail).
  - exists xx. split; auto. rewrite nth_error_app1; auto. apply nth_error_Some. congruence.
  - destruct (Nat.eq_dec j jj).
    + subst. exists (started xx). erewrite nth_error_upd_eq by eauto.
      rewrite Hx in Heqo0. inversion Heqo0; subst. auto.
    + exists xx. rewrite nth_error_upd_ne by auto. auto.
Qed.

Lemma step_entries : forall s e s', step s e = Some s' ->
  Forall (entry_ok s) (completed s) -> Forall (entry_ok s') (completed s').
Proof.
  intros s e s' H Ie.
  assert (M : Forall (entry_ok s') (completed s)).
  { eapply Forall_impl; [|exact Ie]. intros a. apply entry_ok_mono. eapply step_jobs_mono; eauto. }
  unfold step, step_common in H.
  destruct e; break_step H; unf; auto.
  apply Forall_snoc; auto. exists j0. simpl. auto.
Qed.

Lemma step_wf : forall s e s', step s e = Some s' -> 1 <= limit s ->
  Forall (fun p => p <> WSpawned) (work s) -> Forall new_d (disp s) ->
  Forall (fun p => p <> DPanicked) (disp s) ->
  Forall (fun p => p <> WSpawned) (work s') /\ Forall new_d (disp s') /\
  Forall (fun p => p <> DPanicked) (disp s').
Proof.
  intros s e s' H L Iw Id Ip. unfold step, step_common in H.
  destruct e; break_step H; unf; repeat split;
    try assumption;
    try (apply Forall_upd; [assumption | simpl; congruence || exact I]);
    try (apply Forall_snoc; [assumption | congruence]);
    eqb_cases; try lia.
Qed.
