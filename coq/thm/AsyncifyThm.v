(* AsyncifyThm.v — proofs about model/Asyncify.v (the blocking pool).
   Main device: an invariant [inv] preserved by every label of [step], lifted to
   every state reachable from [init l d] by any interleaving. *)
From Compio.Model Require Import Base Asyncify.

(* ---------------------------------------------------------------------- *)
(* lists *)

Lemma length_upd : forall A (l : list A) k x, length (upd l k x) = length l.
Proof. induction l; destruct k; simpl; intros; auto. Qed.

Lemma nth_error_upd_eq : forall A (l : list A) k x y,
  nth_error l k = Some y -> nth_error (upd l k x) k = Some x.
Proof. induction l; destruct k; simpl; intros; try discriminate; eauto. Qed.

Lemma nth_error_upd_ne : forall A (l : list A) k k' x,
  k <> k' -> nth_error (upd l k x) k' = nth_error l k'.
Proof.
  induction l; destruct k, k'; simpl; intros; auto; try congruence.
Qed.

Lemma sumf_upd : forall A (f : A -> nat) l k x y,
  nth_error l k = Some y -> sumf f (upd l k x) + f y = sumf f l + f x.
Proof.
  induction l; destruct k; simpl; intros; try discriminate.
  - inversion H; subst. lia.
  - specialize (IHl _ x _ H). lia.
Qed.

Lemma sumf_app : forall A (f : A -> nat) l l', sumf f (l ++ l') = sumf f l + sumf f l'.
Proof. induction l; simpl; intros; auto. rewrite IHl. lia. Qed.

Lemma sumf_repeat0 : forall A (f : A -> nat) x n, f x = 0 -> sumf f (repeat x n) = 0.
Proof. induction n; simpl; intros; auto. rewrite H, IHn; auto. Qed.

Lemma sumf_le : forall A (f g : A -> nat) l, (forall x, f x <= g x) -> sumf f l <= sumf g l.
Proof. induction l; simpl; intros; auto. specialize (H a) as Ha. specialize (IHl H). lia. Qed.

Lemma sumf_nth_le : forall A (f : A -> nat) l k y, nth_error l k = Some y -> f y <= sumf f l.
Proof.
  induction l; destruct k; simpl; intros; try discriminate.
  - inversion H; subst. lia.
  - specialize (IHl _ _ H). lia.
Qed.

Lemma sumf_pos_ex : forall A (f : A -> nat) l, 1 <= sumf f l ->
  exists k y, nth_error l k = Some y /\ 1 <= f y.
Proof.
  induction l; simpl; intros. lia.
  destruct (f a) eqn:E.
  - destruct (IHl H) as (k & y & H1 & H2). exists (S k), y. auto.
  - exists 0, a. simpl. split; auto. lia.
Qed.

Lemma existsb_false_nth : forall A (f : A -> bool) l k y,
  existsb f l = false -> nth_error l k = Some y -> f y = false.
Proof.
  induction l; destruct k; simpl; intros; try discriminate;
    apply orb_false_iff in H; destruct H.
  - inversion H0; subst; auto.
  - eauto.
Qed.

Lemma existsb_upd_false : forall A (f : A -> bool) l k x,
  existsb f l = false -> f x = false -> existsb f (upd l k x) = false.
Proof.
  induction l; destruct k; simpl; intros; auto;
    apply orb_false_iff in H; destruct H; apply orb_false_iff; auto.
Qed.

Lemma nth_error_app_last : forall A (l : list A) x, nth_error (l ++ [x]) (length l) = Some x.
Proof. intros. rewrite nth_error_app2 by lia. rewrite Nat.sub_diag. reflexivity. Qed.

Lemma Forall_upd : forall A (P : A -> Prop) l k x, Forall P l -> P x -> Forall P (upd l k x).
Proof.
  induction l; destruct k; simpl; intros; auto; inversion H; subst; constructor; auto.
Qed.

Lemma Forall_snoc : forall A (P : A -> Prop) l x, Forall P l -> P x -> Forall P (l ++ [x]).
Proof. intros. apply Forall_app. split; auto. Qed.

Lemma rw_le_hw : forall j p, rw j p <= hw j p.
Proof. destruct p; simpl; lia. Qed.

Lemma b2n_eqb_refl : forall j, b2n (j =? j) = 1.
Proof. intros. rewrite Nat.eqb_refl. reflexivity. Qed.

Lemma b2n_eqb_ne : forall j k, j <> k -> b2n (j =? k) = 0.
Proof. intros. apply Nat.eqb_neq in H. rewrite H. reflexivity. Qed.

Lemma b2n_le1 : forall b, b2n b <= 1.
Proof. destruct b; simpl; lia. Qed.

(* ---------------------------------------------------------------------- *)
(* the invariant of the repaired protocol *)

Definition new_d (p : dpc) : Prop :=
  match p with DSend _ | DSendWait _ => False | _ => True end.

Definition entry_ok (s : st) (e : nat * nat * bool) : Prop :=
  exists x, nth_error (jobs s) (snd (fst e)) = Some x /\ owner x = fst (fst e) /\ panics x = snd e.

Record inv (s : st) : Prop := mk_inv {
  inv_counter : counter s = alive s + reserved s;
  inv_limit : counter s <= limit s;
  inv_hold : forall j, j < length (jobs s) -> holders s j + delivered s j = 1;
  inv_fresh : forall j, length (jobs s) <= j -> holders s j = 0 /\ delivered s j = 0;
  inv_runs : forall j x, nth_error (jobs s) j = Some x -> runs x = running_j s j + delivered s j;
  inv_entries : Forall (entry_ok s) (completed s);
  inv_new_w : Forall (fun p => p <> WSpawned) (work s);
  inv_new_d : Forall new_d (disp s);
  inv_nopanic : Forall (fun p => p <> DPanicked) (disp s);
  inv_lim1 : 1 <= limit s
}.

Lemma inv_init : forall l d, 1 <= l -> inv (init l d).
Proof.
  intros l d L. constructor; unfold init, alive, reserved, holders, delivered, running_j; simpl.
  - rewrite sumf_repeat0; auto.
  - lia.
  - intros; lia.
  - intros. rewrite sumf_repeat0; auto.
  - intros. destruct j; discriminate.
  - constructor.
  - constructor.
  - apply Forall_forall. intros x H. apply repeat_spec in H. subst. exact I.
  - apply Forall_forall. intros x H. apply repeat_spec in H. subst. discriminate.
  - exact L.
Qed.

Ltac break_step H :=
  repeat match type of H with
  | context [match ?x with _ => _ end] => destruct x eqn:?; try discriminate
  end; inversion H; subst; clear H.

(* replace every [sumf f (upd l k x)] by its value relative to [sumf f l] *)
Ltac upd_facts :=
  repeat match goal with
  | |- context [sumf ?f (upd ?l ?k ?x)] =>
    match goal with
    | H : nth_error l k = Some ?y |- _ =>
      let E := fresh "E" in let v := fresh "v" in
      pose proof (sumf_upd _ f l k x y H) as E;
      set (v := sumf f (upd l k x)) in *; clearbody v
    end
  end.

Ltac eqb_cases :=
  repeat match goal with
  | H : context [?a =? ?b] |- _ => destruct (Nat.eqb_spec a b); subst
  | |- context [?a =? ?b] => destruct (Nat.eqb_spec a b); subst
  end.

Ltac unf := unfold alive, reserved, holders, delivered, running_j, running,
  sending, woken, set_d, set_w, set_counter, add_worker, add_job, set_jobs, add_completed, add_wake in *;
  cbn [limit counter disp work jobs completed wakes] in *.

Lemma entry_ok_mono : forall s s' e,
  (forall j x, nth_error (jobs s) j = Some x ->
     exists x', nth_error (jobs s') j = Some x' /\ owner x' = owner x /\ panics x' = panics x) ->
  entry_ok s e -> entry_ok s' e.
Proof.
  intros s s' e H (x & H1 & H2 & H3). destruct (H _ _ H1) as (x' & A & B & C).
  exists x'. repeat split; congruence.
Qed.

Ltac fin := unf; intros; upd_facts; rewrite ?sumf_app; simpl in *; eqb_cases; simpl in *; try lia.

Lemma step_counter : forall s e s', step s e = Some s' ->
  counter s = alive s + reserved s -> counter s <= limit s ->
  counter s' = alive s' + reserved s' /\ counter s' <= limit s'.
Proof.
  intros s e s' H Ic Il. unfold step, step_common in H.
  destruct e; break_step H; split; fin.
  all: try (apply Nat.ltb_lt in Heqb0; lia).
Qed.

Lemma nth_error_snoc_cases : forall A (l : list A) x j y,
  nth_error (l ++ [x]) j = Some y ->
  (j < length l /\ nth_error l j = Some y) \/ (j = length l /\ y = x).
Proof.
  intros. destruct (lt_dec j (length l)).
  - left. rewrite nth_error_app1 in H by auto. auto.
  - right. rewrite nth_error_app2 in H by lia.
    destruct (j - length l) eqn:E; simpl in H.
    + inversion H. split; auto. lia.
    + destruct n0; discriminate.
Qed.

Lemma step_hold : forall s e s', step s e = Some s' -> 1 <= limit s ->
  (forall j, j < length (jobs s) -> holders s j + delivered s j = 1) ->
  (forall j, length (jobs s) <= j -> holders s j = 0 /\ delivered s j = 0) ->
  (forall j, j < length (jobs s') -> holders s' j + delivered s' j = 1) /\
  (forall j, length (jobs s') <= j -> holders s' j = 0 /\ delivered s' j = 0).
Proof.
  intros s e s' H L Ih If. unfold step, step_common in H.
  destruct e; break_step H; split; unf; intros jj Hj;
    specialize (Ih jj); specialize (If jj);
    rewrite ?app_length, ?length_upd in *; simpl in *;
    upd_facts; rewrite ?sumf_app; unfold is_entry in *; simpl in *; eqb_cases; simpl in *; try lia.
Qed.

Lemma running_le_holders : forall s j, running_j s j <= holders s j.
Proof.
  intros. unfold running_j, holders.
  pose proof (sumf_le _ (rw j) (hw j) (work s) (rw_le_hw j)). lia.
Qed.

Lemma step_runs : forall s e s', step s e = Some s' ->
  (forall j, length (jobs s) <= j -> holders s j = 0 /\ delivered s j = 0) ->
  (forall j x, nth_error (jobs s) j = Some x -> runs x = running_j s j + delivered s j) ->
  (forall j x, nth_error (jobs s') j = Some x -> runs x = running_j s' j + delivered s' j).
Proof.
  intros s e s' H If Ir. unfold step, step_common in H.
  destruct e; break_step H; intros jj xx Hx; unf.
  - (* ECall *)
    apply nth_error_snoc_cases in Hx. destruct Hx as [[Hl Hx] | [Hl Hx]]; subst.
    + apply Ir; auto.
    + simpl. pose proof (running_le_holders s (length (jobs s))).
      destruct (If (length (jobs s)) (le_n _)). unfold running_j, holders, delivered in *. lia.
  - specialize (Ir _ _ Hx). fin.
  - specialize (Ir _ _ Hx). fin.
  - specialize (Ir _ _ Hx). fin.
  - specialize (Ir _ _ Hx). fin.
  - specialize (Ir _ _ Hx). fin.
  - specialize (Ir _ _ Hx). rewrite sumf_app. simpl. fin.
  - specialize (Ir _ _ Hx). fin.
  - specialize (Ir _ _ Hx). fin.
  - (* EStart *)
    destruct (Nat.eq_dec j jj).
    + subst. erewrite nth_error_upd_eq in Hx by eauto. inversion Hx; subst. simpl.
      specialize (Ir _ _ Heqo0). fin.
    + rewrite nth_error_upd_ne in Hx by auto. specialize (Ir _ _ Hx). fin.
  - (* EEnd *)
    specialize (Ir _ _ Hx). rewrite sumf_app. unfold is_entry in *. fin.
  - specialize (Ir _ _ Hx). fin.
  - specialize (Ir _ _ Hx). fin.
  - specialize (Ir _ _ Hx). fin.
  - specialize (Ir _ _ Hx). fin.
Qed.

Lemma step_limit : forall s e s', step s e = Some s' -> limit s' = limit s.
Proof.
  intros s e s' H. unfold step, step_common in H. destruct e; break_step H; reflexivity.
Qed.

Lemma step_jobs_mono : forall s e s', step s e = Some s' ->
  forall j x, nth_error (jobs s) j = Some x ->
  exists x', nth_error (jobs s') j = Some x' /\ owner x' = owner x /\ panics x' = panics x.
Proof.
  intros s e s' H. unfold step, step_common in H.
  destruct e; break_step H; intros jj xx Hx; unf; try (exists xx; auto; fail).
  - exists xx. split; auto. rewrite nth_error_app1; auto. apply nth_error_Some. congruence.
  - destruct (Nat.eq_dec j jj).
    + subst. exists (started xx). erewrite nth_error_upd_eq by eauto.
      rewrite Hx in Heqo0. inversion Heqo0; subst. auto.
    + exists xx. rewrite nth_error_upd_ne by auto. auto.
Qed.

Lemma step_entries : forall s e s', step s e = Some s' ->
  Forall (entry_ok s) (completed s) -> Forall (entry_ok s') (completed s').
Proof.
  intros s e s' H Ie.
  assert (M : Forall (entry_ok s') (completed s)).
  { eapply Forall_impl; [|exact Ie]. intros a. apply entry_ok_mono. eapply step_jobs_mono; eauto. }
  unfold step, step_common in H.
  destruct e; break_step H; unf; auto.
  apply Forall_snoc; auto. exists j0. simpl. auto.
Qed.

Lemma step_wf : forall s e s', step s e = Some s' -> 1 <= limit s ->
  Forall (fun p => p <> WSpawned) (work s) -> Forall new_d (disp s) ->
  Forall (fun p => p <> DPanicked) (disp s) ->
  Forall (fun p => p <> WSpawned) (work s') /\ Forall new_d (disp s') /\
  Forall (fun p => p <> DPanicked) (disp s').
Proof.
  intros s e s' H L Iw Id Ip. unfold step, step_common in H.
  destruct e; break_step H; unf; repeat split;
    try assumption;
    try (apply Forall_upd; [assumption | simpl; congruence || exact I]);
    try (apply Forall_snoc; [assumption | congruence]);
    eqb_cases; try lia.
Qed.

Lemma step_inv : forall s e s', step s e = Some s' -> inv s -> inv s'.
Proof.
  intros s e s' H [Ic Il Ih If Ir Ie Iw Id Ip L].
  destruct (step_counter _ _ _ H Ic Il) as [A B].
  destruct (step_hold _ _ _ H L Ih If) as [C D].
  destruct (step_wf _ _ _ H L Iw Id Ip) as (E & F & G).
  constructor; auto.
  - eapply step_runs; eauto.
  - eapply step_entries; eauto.
  - rewrite (step_limit _ _ _ H). exact L.
Qed.

Lemma steps_inv : forall es s s', steps s es = Some s' -> inv s -> inv s'.
Proof.
  induction es; simpl; intros s s' H I.
  - inversion H; subst; auto.
  - unfold steps in *. simpl in H. destruct (step s a) eqn:E; try discriminate.
    eapply IHes; eauto. eapply step_inv; eauto.
Qed.

Lemma reachable_inv : forall l d es s, 1 <= l -> steps (init l d) es = Some s -> inv s.
Proof. intros. eapply steps_inv; eauto. apply inv_init; auto. Qed.

(* ---------------------------------------------------------------------- *)
(* bounded: for every limit (0 included), any number of dispatchers *)

Lemma steps_limit : forall es s s', steps s es = Some s' -> limit s' = limit s.
Proof.
  induction es; unfold steps; simpl; intros s s' H.
  - inversion H; auto.
  - destruct (step s a) eqn:E; try discriminate.
    rewrite (IHes _ _ H). eapply step_limit; eauto.
Qed.

Lemma steps_counter : forall es s s', steps s es = Some s' ->
  counter s = alive s + reserved s -> counter s <= limit s ->
  counter s' = alive s' + reserved s' /\ counter s' <= limit s'.
Proof.
  induction es; unfold steps; simpl; intros s s' H A B.
  - inversion H; subst; auto.
  - destruct (step s a) eqn:E; try discriminate.
    destruct (step_counter _ _ _ E A B). eapply IHes; eauto.
Qed.

Lemma running_le_alive : forall s, running s <= alive s.
Proof. intros. apply sumf_le. destruct x; simpl; lia. Qed.

Lemma bounded : forall l d es s, steps (init l d) es = Some s ->
  counter s = alive s + reserved s /\ counter s <= l /\ alive s <= l /\ running s <= l.
Proof.
  intros l d es s H.
  destruct (steps_counter _ _ _ H) as [A B].
  - unfold init, alive, reserved; simpl. rewrite sumf_repeat0; auto.
  - simpl. lia.
  - rewrite (steps_limit _ _ _ H) in B. simpl in B.
    pose proof (running_le_alive s). lia.
Qed.

Lemma guard_never_underflows : forall l d es s w, steps (init l d) es = Some s ->
  nth_error (work s) w = Some WExiting ->
  1 <= counter s /\ exists s', step s (EGuardDrop w) = Some s'.
Proof.
  intros l d es s w H Hw. destruct (bounded _ _ _ _ H) as (A & _).
  pose proof (sumf_nth_le _ alive_w _ _ _ Hw) as P. simpl in P. unfold alive in A.
  split; [lia|]. unfold step, step_common. rewrite Hw.
  destruct (counter s); [lia | eauto].
Qed.

(* ---------------------------------------------------------------------- *)
(* exactly once *)

Lemma entry_of_delivered : forall j l, 1 <= sumf (is_entry j) l ->
  exists e, In e l /\ snd (fst e) = j.
Proof.
  intros j l H. destruct (sumf_pos_ex _ _ _ H) as (k & y & A & B).
  exists y. split; [eapply nth_error_In; eauto|].
  unfold is_entry in B. destruct (Nat.eqb_spec (snd (fst y)) j); auto. simpl in B. lia.
Qed.

Lemma exactly_once : forall l d es s j x, 1 <= l ->
  steps (init l d) es = Some s -> nth_error (jobs s) j = Some x ->
  holders s j + delivered s j = 1 /\
  runs x = running_j s j + delivered s j /\
  runs x <= 1 /\
  (delivered s j = 1 -> runs x = 1 /\ holders s j = 0 /\ In (owner x, j, panics x) (completed s)) /\
  (forall e, In e (completed s) -> snd (fst e) = j -> e = (owner x, j, panics x)).
Proof.
  intros l d es s j x L H Hx.
  destruct (reachable_inv _ _ _ _ L H) as [Ic Il Ih If Ir Ie Iw Id Ip _].
  assert (Hj : j < length (jobs s)) by (apply nth_error_Some; congruence).
  specialize (Ih _ Hj). specialize (Ir _ _ Hx).
  pose proof (running_le_holders s j) as R.
  assert (Q : forall e, In e (completed s) -> snd (fst e) = j -> e = (owner x, j, panics x)).
  { intros e He Hej. rewrite Forall_forall in Ie. destruct (Ie _ He) as (y & A & B & C).
    rewrite Hej in A. rewrite Hx in A. inversion A; subst.
    destruct e as [[a b] c]; simpl in *. congruence. }
  repeat split; auto; try lia.
  destruct (entry_of_delivered j (completed s)) as (e & He & Hej).
  { unfold delivered in H0. lia. }
  rewrite <- (Q _ He Hej). exact He.
Qed.

(* ---------------------------------------------------------------------- *)
(* a rejected dispatch hands the very closure back; the retry loop *)

Lemma hd_holder_unique : forall s j d p, inv s ->
  nth_error (disp s) d = Some p -> hd j p = 1 ->
  j < length (jobs s) /\ sumf (hw j) (work s) = 0 /\ delivered s j = 0 /\ holders s j = 1.
Proof.
  intros s j d p I Hd Hp. destruct I as [_ _ Ih If _ _ _ _ _ _].
  pose proof (sumf_nth_le _ (hd j) _ _ _ Hd) as P.
  destruct (lt_dec j (length (jobs s))).
  - specialize (Ih _ l). unfold holders in *. repeat split; auto; lia.
  - destruct (If j) as [A B]; [lia|]. unfold holders in A. lia.
Qed.

Lemma handed_back : forall l d es s dd s', 1 <= l ->
  steps (init l d) es = Some s -> step s (ECheckFail dd) = Some s' ->
  exists j x,
    nth_error (disp s) dd = Some (DFull j) /\ nth_error (disp s') dd = Some (DRejected j) /\
    limit s <= counter s /\
    jobs s' = jobs s /\ work s' = work s /\ completed s' = completed s /\ counter s' = counter s /\
    nth_error (jobs s') j = Some x /\ runs x = 0 /\ holders s' j = 1 /\ delivered s' j = 0.
Proof.
  intros l d es s dd s' L H Hs.
  pose proof (reachable_inv _ _ _ _ L H) as I.
  pose proof (step_inv _ _ _ Hs I) as I'.
  unfold step, step_common in Hs. break_step Hs.
  assert (Hd' : nth_error (disp (set_d s dd (DRejected j))) dd = Some (DRejected j)).
  { unfold set_d; simpl. eapply nth_error_upd_eq; eauto. }
  destruct (hd_holder_unique _ j _ _ I' Hd') as (A & B & C & D).
  { simpl. apply b2n_eqb_refl. }
  destruct (nth_error (jobs (set_d s dd (DRejected j))) j) as [x|] eqn:Hx.
  2:{ apply nth_error_None in Hx. lia. }
  exists j, x. apply Nat.leb_le in Heqb0.
  repeat split; auto.
  destruct I' as [_ _ _ _ Ir _ _ _ _ _]. specialize (Ir _ _ Hx).
  pose proof (sumf_le _ (rw j) (hw j) (work (set_d s dd (DRejected j))) (rw_le_hw j)).
  unfold running_j in Ir. lia.
Qed.

Lemma no_lost_job_on_retry : forall l d es s dd s1 s2, 1 <= l ->
  steps (init l d) es = Some s ->
  step s (ECheckFail dd) = Some s1 -> step s1 (ERetry dd) = Some s2 ->
  exists j x,
    nth_error (disp s) dd = Some (DFull j) /\ nth_error (disp s2) dd = Some (DTry j) /\
    jobs s2 = jobs s /\ work s2 = work s /\ completed s2 = completed s /\
    nth_error (jobs s2) j = Some x /\ runs x = 0 /\ holders s2 j = 1 /\ delivered s2 j = 0.
Proof.
  intros l d es s dd s1 s2 L H H1 H2.
  destruct (handed_back _ _ _ _ _ _ L H H1) as (j & x & A & B & _ & C & D & E & F & G & R & _ & _).
  pose proof (reachable_inv _ _ _ _ L H) as I.
  pose proof (step_inv _ _ _ H2 (step_inv _ _ _ H1 I)) as I2.
  unfold step, step_common in H2. rewrite B in H2. inversion H2; subst; clear H2.
  assert (Hd : nth_error (disp (set_d s1 dd (DTry j))) dd = Some (DTry j)).
  { unfold set_d; simpl. eapply nth_error_upd_eq; eauto. }
  destruct (hd_holder_unique _ j _ _ I2 Hd) as (P & Q & S & T).
  { simpl. apply b2n_eqb_refl. }
  exists j, x. unfold set_d in *; simpl in *. repeat split; auto; congruence.
Qed.

(* ---------------------------------------------------------------------- *)
(* after every worker retired, a later dispatch spawns a worker and the job runs *)

Lemma forallb_nth : forall A (f : A -> bool) l k y,
  forallb f l = true -> nth_error l k = Some y -> f y = true.
Proof.
  induction l; destruct k; simpl; intros; try discriminate;
    apply andb_true_iff in H; destruct H.
  - inversion H0; subst; auto.
  - eauto.
Qed.

Lemma sumf_zero_forallb : forall A (f : A -> nat) (g : A -> bool) l,
  (forall x, g x = true -> f x = 0) -> forallb g l = true -> sumf f l = 0.
Proof.
  induction l; simpl; intros; auto. apply andb_true_iff in H0. destruct H0.
  rewrite (H _ H0), IHl; auto.
Qed.

Lemma all_exited_no_recv : forall s, all_exited s = true -> any_recv s = false.
Proof.
  unfold all_exited, any_recv. intros s. induction (work s); simpl; intros; auto.
  apply andb_true_iff in H. destruct H. destruct a; try discriminate. simpl. auto.
Qed.

(* evaluation of single labels *)
Ltac ev_tac H := unfold step, step_common; rewrite H; reflexivity.

Lemma ev_Call : forall s d p, nth_error (disp s) d = Some DIdle ->
  step s (ECall d p) = Some (add_job (set_d s d (DTry (length (jobs s)))) (mk_job d p 0)).
Proof. intros s d p H. ev_tac H. Qed.

Lemma ev_TrySendFull : forall s d j, nth_error (disp s) d = Some (DTry j) -> any_recv s = false ->
  step s (ETrySendFull d) = Some (set_d s d (DFull j)).
Proof. intros s d j H R. unfold step, step_common. rewrite H, R. reflexivity. Qed.

Lemma ev_TrySendOk : forall s d w j, nth_error (disp s) d = Some (DTry j) ->
  nth_error (work s) w = Some WRecv ->
  step s (ETrySendOk d w) = Some (set_w (set_d s d DIdle) w (WRun j)).
Proof. intros s d w j H R. unfold step, step_common. rewrite H, R. reflexivity. Qed.

Lemma ev_CheckOk : forall s d j, nth_error (disp s) d = Some (DFull j) -> counter s < limit s ->
  step s (ECheckOk d) = Some (set_counter (set_d s d (DSpawn j)) (S (counter s))).
Proof.
  intros s d j H R. unfold step. rewrite H.
  destruct (limit s =? 0) eqn:E0. { apply Nat.eqb_eq in E0. lia. }
  destruct (counter s <? limit s) eqn:E1; auto. apply Nat.ltb_ge in E1. lia.
Qed.

Lemma ev_CheckFail : forall s d j, nth_error (disp s) d = Some (DFull j) ->
  1 <= limit s -> limit s <= counter s ->
  step s (ECheckFail d) = Some (set_d s d (DRejected j)).
Proof.
  intros s d j H L R. unfold step, step_common. rewrite H.
  destruct (limit s =? 0) eqn:E0. { apply Nat.eqb_eq in E0. lia. }
  destruct (limit s <=? counter s) eqn:E1; auto. apply Nat.leb_gt in E1. lia.
Qed.

Lemma ev_Spawn : forall s d j, nth_error (disp s) d = Some (DSpawn j) ->
  step s (ESpawn d) = Some (add_worker (set_d s d DIdle) (WRun j)).
Proof. intros s d j H. unfold step. rewrite H. reflexivity. Qed.

Lemma ev_Retry : forall s d j, nth_error (disp s) d = Some (DRejected j) ->
  step s (ERetry d) = Some (set_d s d (DTry j)).
Proof. intros s d j H. ev_tac H. Qed.

Lemma ev_Start : forall s w j x, nth_error (work s) w = Some (WRun j) ->
  nth_error (jobs s) j = Some x ->
  step s (EStart w) = Some (set_jobs (set_w s w (WRunning j)) (upd (jobs s) j (started x))).
Proof. intros s w j x H R. unfold step, step_common. rewrite H, R. reflexivity. Qed.

Lemma ev_End : forall s w j x, nth_error (work s) w = Some (WRunning j) ->
  nth_error (jobs s) j = Some x ->
  step s (EEnd w) = Some (add_completed (set_w s w (WSent (owner x) j)) (owner x, j, panics x)).
Proof. intros s w j x H R. unfold step, step_common. rewrite H, R. reflexivity. Qed.

Lemma ev_Wake : forall s w d j, nth_error (work s) w = Some (WSent d j) ->
  step s (EWake w) = Some (add_wake (set_w s w WLoop) (d, j)).
Proof. intros s w d j H. ev_tac H. Qed.

Lemma ev_RecvEnter : forall s w, nth_error (work s) w = Some WLoop ->
  step s (ERecvEnter w) = Some (set_w s w WRecv).
Proof. intros s w H. unfold step. rewrite H. reflexivity. Qed.

Lemma ev_Timeout : forall s w, nth_error (work s) w = Some WRecv ->
  step s (ETimeout w) = Some (set_w s w WExiting).
Proof. intros s w H. ev_tac H. Qed.

Lemma ev_GuardDrop : forall s w c, nth_error (work s) w = Some WExiting -> counter s = S c ->
  step s (EGuardDrop w) = Some (set_counter (set_w s w WExited) c).
Proof. intros s w c H R. unfold step, step_common. rewrite H, R. reflexivity. Qed.

Ltac fld := unfold add_job, set_d, set_w, set_counter, add_worker, set_jobs, add_completed, add_wake;
  cbn [limit counter disp work jobs completed wakes].

Lemma steps_cons : forall s e s1 es, step s e = Some s1 -> steps s (e :: es) = steps s1 es.
Proof. intros. unfold steps. simpl. rewrite H. reflexivity. Qed.

Lemma retire_then_run : forall l d es s dd p, 1 <= l ->
  steps (init l d) es = Some s ->
  all_exited s = true -> all_idle s = true -> dd < length (disp s) ->
  let j := length (jobs s) in
  let w := length (work s) in
  exists s1 s',
    step s (ECall dd p) = Some s1 /\
    (forall w', step s1 (ETrySendOk dd w') = None) /\
    steps s1 [ETrySendFull dd; ECheckOk dd; ESpawn dd; EStart w; EEnd w; EWake w] = Some s' /\
    length (work s') = S w /\ nth_error (work s') w = Some WLoop /\
    nth_error (jobs s') j = Some (mk_job dd p 1) /\
    completed s' = completed s ++ [(dd, j, p)] /\ wakes s' = wakes s ++ [(dd, j)].
Proof.
  intros l d es s dd p L H Hx Hi Hd j w.
  pose proof (reachable_inv _ _ _ _ L H) as I.
  destruct I as [Ic Il _ _ _ _ _ _ _ L1].
  assert (Hdd : nth_error (disp s) dd = Some DIdle).
  { destruct (nth_error (disp s) dd) eqn:E.
    - pose proof (forallb_nth _ _ _ _ _ Hi E). destruct d0; try discriminate; auto.
    - apply nth_error_None in E. lia. }
  assert (C0 : counter s = 0).
  { rewrite Ic. unfold alive, reserved.
    assert (A1 : sumf alive_w (work s) = 0).
    { eapply sumf_zero_forallb; [|exact Hx]. intros x Hxx. destruct x; simpl in *; congruence. }
    assert (A2 : sumf reserved_d (disp s) = 0).
    { eapply sumf_zero_forallb; [|exact Hi]. intros x Hxx. destruct x; simpl in *; congruence. }
    lia. }
  pose proof (all_exited_no_recv _ Hx) as NR.
  set (s1 := add_job (set_d s dd (DTry j)) (mk_job dd p 0)).
  set (s2 := set_d s1 dd (DFull j)).
  set (s3 := set_counter (set_d s2 dd (DSpawn j)) 1).
  set (s4 := add_worker (set_d s3 dd DIdle) (WRun j)).
  set (s5 := set_jobs (set_w s4 w (WRunning j)) (upd (jobs s4) j (started (mk_job dd p 0)))).
  set (s6 := add_completed (set_w s5 w (WSent dd j)) (dd, j, p)).
  set (s7 := add_wake (set_w s6 w WLoop) (dd, j)).
  assert (D1 : nth_error (disp s1) dd = Some (DTry j)).
  { unfold s1; fld. eapply nth_error_upd_eq; eauto. }
  assert (D2 : nth_error (disp s2) dd = Some (DFull j)).
  { unfold s2; fld. eapply nth_error_upd_eq; eauto. }
  assert (D3 : nth_error (disp s3) dd = Some (DSpawn j)).
  { unfold s3; fld. eapply nth_error_upd_eq; eauto. }
  assert (W4 : nth_error (work s4) w = Some (WRun j)).
  { unfold s4, s3, s2, s1; fld. apply nth_error_app_last. }
  assert (J4 : nth_error (jobs s4) j = Some (mk_job dd p 0)).
  { unfold s4, s3, s2, s1; fld. apply nth_error_app_last. }
  assert (W5 : nth_error (work s5) w = Some (WRunning j)).
  { unfold s5; fld. eapply nth_error_upd_eq; eauto. }
  assert (J5 : nth_error (jobs s5) j = Some (mk_job dd p 1)).
  { unfold s5; fld. eapply nth_error_upd_eq; eauto. }
  assert (W6 : nth_error (work s6) w = Some (WSent dd j)).
  { unfold s6; fld. eapply nth_error_upd_eq; eauto. }
  exists s1, s7.
  split. { apply ev_Call; auto. }
  split.
  { intros w'. unfold step, step_common. rewrite D1.
    replace (work s1) with (work s) by reflexivity.
    destruct (nth_error (work s) w') eqn:E; auto.
    pose proof (forallb_nth _ _ _ _ _ Hx E). destruct w0; try discriminate; auto. }
  split.
  { rewrite (steps_cons _ _ s2). 2:{ apply ev_TrySendFull; auto. }
    rewrite (steps_cons _ _ s3).
    2:{ unfold s3. replace 1 with (S (counter s2)) by (unfold s2, s1; fld; lia).
        apply ev_CheckOk; auto. unfold s2, s1; fld. lia. }
    rewrite (steps_cons _ _ s4). 2:{ apply ev_Spawn; auto. }
    rewrite (steps_cons _ _ s5). 2:{ unfold s5. apply ev_Start; auto. }
    rewrite (steps_cons _ _ s6). 2:{ unfold s6. apply (ev_End s5 w j (mk_job dd p 1)); auto. }
    rewrite (steps_cons _ _ s7). 2:{ unfold s7. apply ev_Wake; auto. }
    reflexivity. }
  split.
  { change (work s7) with (upd (upd (upd (work s ++ [WRun j]) w (WRunning j)) w (WSent dd j)) w WLoop).
    rewrite !length_upd, app_length. unfold w. simpl. lia. }
  split. { unfold s7; fld. eapply nth_error_upd_eq; eauto. }
  split. { exact J5. }
  split; reflexivity.
Qed.

(* ---------------------------------------------------------------------- *)
(* nothing is ever stuck: from every reachable state every unfinished job can
   still be brought to completion (so no reachable state has lost a job or
   left it with a thread that can never hand it on) *)

Definition can_finish (s : st) (j : nat) : Prop :=
  exists es s', steps s es = Some s' /\ delivered s' j = 1.

Lemma can_finish_step : forall s e s1 j, step s e = Some s1 -> can_finish s1 j -> can_finish s j.
Proof.
  intros s e s1 j H (es & s' & A & B). exists (e :: es), s'. split; auto.
  rewrite (steps_cons _ _ _ _ H). exact A.
Qed.

Lemma hw_holder_job : forall s j w p, inv s ->
  nth_error (work s) w = Some p -> hw j p = 1 ->
  (exists x, nth_error (jobs s) j = Some x) /\ delivered s j = 0.
Proof.
  intros s j w p I Hw Hp. destruct I as [_ _ Ih If _ _ _ _ _ _].
  pose proof (sumf_nth_le _ (hw j) _ _ _ Hw) as P.
  destruct (lt_dec j (length (jobs s))).
  - specialize (Ih _ l). unfold holders in *. split; [|lia].
    destruct (nth_error (jobs s) j) eqn:E; eauto. apply nth_error_None in E. lia.
  - destruct (If j) as [A B]; [lia|]. unfold holders in A. lia.
Qed.

Lemma fin_running : forall s w j, inv s -> nth_error (work s) w = Some (WRunning j) -> can_finish s j.
Proof.
  intros s w j I Hw.
  destruct (hw_holder_job s j w _ I Hw) as ((x & Hx) & D). { simpl. apply b2n_eqb_refl. }
  exists [EEnd w]. eexists. split.
  - rewrite (steps_cons _ _ _ _ (ev_End _ _ _ _ Hw Hx)). reflexivity.
  - unfold delivered in *; fld. rewrite sumf_app. unfold is_entry at 2. simpl.
    rewrite Nat.eqb_refl. simpl. lia.
Qed.

Lemma fin_run : forall s w j, inv s -> nth_error (work s) w = Some (WRun j) -> can_finish s j.
Proof.
  intros s w j I Hw.
  destruct (hw_holder_job s j w _ I Hw) as ((x & Hx) & D). { simpl. apply b2n_eqb_refl. }
  pose proof (ev_Start _ _ _ _ Hw Hx) as E.
  eapply can_finish_step; [exact E|].
  eapply fin_running with (w := w); [eapply step_inv; eauto|].
  fld. eapply nth_error_upd_eq; eauto.
Qed.

Lemma fin_spawn : forall s d j, inv s -> nth_error (disp s) d = Some (DSpawn j) -> can_finish s j.
Proof.
  intros s d j I Hd. pose proof (ev_Spawn _ _ _ Hd) as E.
  eapply can_finish_step; [exact E|].
  eapply fin_run with (w := length (work s)); [eapply step_inv; eauto|].
  fld. apply nth_error_app_last.
Qed.

Lemma fin_full_room : forall s d j, inv s -> nth_error (disp s) d = Some (DFull j) ->
  counter s < limit s -> can_finish s j.
Proof.
  intros s d j I Hd C. pose proof (ev_CheckOk _ _ _ Hd C) as E.
  eapply can_finish_step; [exact E|].
  eapply fin_spawn with (d := d); [eapply step_inv; eauto|].
  fld. eapply nth_error_upd_eq; eauto.
Qed.

(* the dispatcher is about to try_send *)
Lemma fin_try_recv : forall s d j w, inv s -> nth_error (disp s) d = Some (DTry j) ->
  nth_error (work s) w = Some WRecv -> can_finish s j.
Proof.
  intros s d j w I Hd Hw. pose proof (ev_TrySendOk _ _ _ _ Hd Hw) as E.
  eapply can_finish_step; [exact E|].
  eapply fin_run with (w := w); [eapply step_inv; eauto|].
  fld. eapply nth_error_upd_eq; eauto.
Qed.

Lemma fin_try_room : forall s d j, inv s -> nth_error (disp s) d = Some (DTry j) ->
  any_recv s = false -> counter s < limit s -> can_finish s j.
Proof.
  intros s d j I Hd R C. pose proof (ev_TrySendFull _ _ _ Hd R) as E.
  eapply can_finish_step; [exact E|].
  eapply fin_full_room with (d := d); [eapply step_inv; eauto| |exact C].
  fld. eapply nth_error_upd_eq; eauto.
Qed.

Lemma fin_try_loop : forall s d j w, inv s -> nth_error (disp s) d = Some (DTry j) ->
  nth_error (work s) w = Some WLoop -> can_finish s j.
Proof.
  intros s d j w I Hd Hw. pose proof (ev_RecvEnter _ _ Hw) as E.
  eapply can_finish_step; [exact E|].
  eapply fin_try_recv with (d := d) (w := w); [eapply step_inv; eauto|exact Hd|].
  fld. eapply nth_error_upd_eq; eauto.
Qed.

Lemma fin_try_sent : forall s d j w d' k, inv s -> nth_error (disp s) d = Some (DTry j) ->
  nth_error (work s) w = Some (WSent d' k) -> can_finish s j.
Proof.
  intros s d j w d' k I Hd Hw. pose proof (ev_Wake _ _ _ _ Hw) as E.
  eapply can_finish_step; [exact E|].
  eapply fin_try_loop with (d := d) (w := w); [eapply step_inv; eauto|exact Hd|].
  fld. eapply nth_error_upd_eq; eauto.
Qed.

Lemma fin_try_running : forall s d j w k, inv s -> nth_error (disp s) d = Some (DTry j) ->
  nth_error (work s) w = Some (WRunning k) -> can_finish s j.
Proof.
  intros s d j w k I Hd Hw.
  destruct (hw_holder_job s k w _ I Hw) as ((x & Hx) & _). { simpl. apply b2n_eqb_refl. }
  pose proof (ev_End _ _ _ _ Hw Hx) as E.
  eapply can_finish_step; [exact E|].
  eapply fin_try_sent with (d := d) (w := w); [eapply step_inv; eauto|exact Hd|].
  fld. eapply nth_error_upd_eq; eauto.
Qed.

Lemma fin_try_run : forall s d j w k, inv s -> nth_error (disp s) d = Some (DTry j) ->
  nth_error (work s) w = Some (WRun k) -> can_finish s j.
Proof.
  intros s d j w k I Hd Hw.
  destruct (hw_holder_job s k w _ I Hw) as ((x & Hx) & _). { simpl. apply b2n_eqb_refl. }
  pose proof (ev_Start _ _ _ _ Hw Hx) as E.
  eapply can_finish_step; [exact E|].
  eapply fin_try_running with (d := d) (w := w); [eapply step_inv; eauto|exact Hd|].
  fld. eapply nth_error_upd_eq; eauto.
Qed.

Lemma fin_try_exiting : forall s d j w, inv s -> nth_error (disp s) d = Some (DTry j) ->
  any_recv s = false -> nth_error (work s) w = Some WExiting -> can_finish s j.
Proof.
  intros s d j w I Hd R Hw.
  assert (C : exists c, counter s = S c).
  { destruct I as [Ic _ _ _ _ _ _ _ _ _].
    pose proof (sumf_nth_le _ alive_w _ _ _ Hw) as P. simpl in P. unfold alive in Ic.
    destruct (counter s); [lia | eauto]. }
  destruct C as (c & C).
  pose proof (ev_GuardDrop _ _ _ Hw C) as E.
  eapply can_finish_step; [exact E|].
  eapply fin_try_room with (d := d); [eapply step_inv; eauto|exact Hd| |].
  - unfold any_recv in *; fld. apply existsb_upd_false; auto.
  - destruct I as [_ Il _ _ _ _ _ _ _ _]. fld. lia.
Qed.

Lemma fin_try : forall s d j, inv s -> nth_error (disp s) d = Some (DTry j) -> can_finish s j.
Proof.
  intros s d j I Hd.
  destruct (any_recv s) eqn:R.
  { unfold any_recv in R. apply existsb_exists in R. destruct R as (p & Hin & Hp).
    apply In_nth_error in Hin. destruct Hin as (w & Hw). destruct p; try discriminate.
    eapply fin_try_recv; eauto. }
  destruct (lt_dec (counter s) (limit s)) as [C|C].
  { eapply fin_try_room; eauto. }
  assert (A : 1 <= alive s + reserved s).
  { destruct I as [Ic _ _ _ _ _ _ _ _ L1]. lia. }
  (* some worker is alive, or some dispatcher holds a reserved slot *)
  assert (W : forall w p, nth_error (work s) w = Some p -> alive_w p = 1 -> can_finish s j).
  { intros w p Hw Hp. destruct p; simpl in Hp; try lia.
    - destruct I as [_ _ _ _ _ _ Iw _ _ _]. rewrite Forall_forall in Iw.
      exfalso. apply (Iw WSpawned); auto. eapply nth_error_In; eauto.
    - eapply fin_try_run; eauto.
    - eapply fin_try_running; eauto.
    - eapply fin_try_sent; eauto.
    - eapply fin_try_loop; eauto.
    - pose proof (existsb_false_nth _ _ _ _ _ R Hw). discriminate.
    - eapply fin_try_exiting; eauto. }
  destruct (Nat.eq_dec (alive s) 0) as [A0|A0].
  - assert (R1 : 1 <= reserved s) by lia.
    destruct (sumf_pos_ex _ _ _ R1) as (d' & p & Hd' & Hp).
    destruct p; simpl in Hp; try lia.
    pose proof (ev_Spawn _ _ _ Hd') as E.
    eapply can_finish_step; [exact E|].
    assert (Hne : d' <> d) by (intro; subst; congruence).
    eapply fin_try_run with (d := d) (w := length (work s)); [eapply step_inv; eauto| |].
    + fld. rewrite nth_error_upd_ne by auto. exact Hd.
    + fld. apply nth_error_app_last.
  - assert (A1 : 1 <= alive s) by lia.
    destruct (sumf_pos_ex _ _ _ A1) as (w & p & Hw & Hp).
    eapply W; eauto. destruct p; simpl in *; lia.
Qed.

Lemma fin_rejected : forall s d j, inv s -> nth_error (disp s) d = Some (DRejected j) -> can_finish s j.
Proof.
  intros s d j I Hd. pose proof (ev_Retry _ _ _ Hd) as E.
  eapply can_finish_step; [exact E|].
  eapply fin_try with (d := d); [eapply step_inv; eauto|].
  fld. eapply nth_error_upd_eq; eauto.
Qed.

Lemma fin_full : forall s d j, inv s -> nth_error (disp s) d = Some (DFull j) -> can_finish s j.
Proof.
  intros s d j I Hd.
  destruct (lt_dec (counter s) (limit s)) as [C|C].
  { eapply fin_full_room; eauto. }
  assert (L1 : 1 <= limit s) by (destruct I; auto).
  pose proof (ev_CheckFail _ _ _ Hd L1 ltac:(lia)) as E.
  eapply can_finish_step; [exact E|].
  eapply fin_rejected with (d := d); [eapply step_inv; eauto|].
  fld. eapply nth_error_upd_eq; eauto.
Qed.

Lemma never_stuck : forall l d es s j, 1 <= l ->
  steps (init l d) es = Some s -> j < length (jobs s) -> delivered s j = 0 ->
  (forall dd, nth_error (disp s) dd <> Some (DFailed j)) ->
  exists es' s', steps s es' = Some s' /\ delivered s' j = 1.
Proof.
  intros l d es s j L H Hj D NF.
  pose proof (reachable_inv _ _ _ _ L H) as I.
  assert (Hh : holders s j = 1). { destruct I as [_ _ Ih _ _ _ _ _ _ _]. specialize (Ih _ Hj). lia. }
  unfold holders in Hh.
  change (can_finish s j).
  destruct (Nat.eq_dec (sumf (hd j) (disp s)) 0) as [Z|Z].
  - assert (P : 1 <= sumf (hw j) (work s)) by lia.
    destruct (sumf_pos_ex _ _ _ P) as (w & p & Hw & Hp).
    destruct p; simpl in Hp; try lia; destruct (Nat.eqb_spec j0 j); simpl in Hp; try lia; subst.
    + eapply fin_run; eauto.
    + eapply fin_running; eauto.
  - assert (P : 1 <= sumf (hd j) (disp s)) by lia.
    destruct (sumf_pos_ex _ _ _ P) as (dd & p & Hd & Hp).
    assert (ND : new_d p).
    { destruct I as [_ _ _ _ _ _ _ Id _ _]. rewrite Forall_forall in Id. apply Id. eapply nth_error_In; eauto. }
    destruct p; simpl in Hp, ND; try lia; try contradiction;
      destruct (Nat.eqb_spec j0 j); simpl in Hp; try lia; subst.
    + eapply fin_try; eauto.
    + eapply fin_full; eauto.
    + eapply fin_spawn; eauto.
    + eapply fin_rejected; eauto.
    + exfalso. eapply NF; eauto.
Qed.

(* ---------------------------------------------------------------------- *)
(* the protocol before the fixes: witnesses *)

(* D10: two dispatchers, limit 1 — both pass the limit check before either
   worker has counted itself in; two jobs run at once *)
Definition d10_trace : list ev :=
  [ECall 0 false; ECall 1 false; ETrySendFull 0; ETrySendFull 1;
   ECheckOk 0; ECheckOk 1; ESpawn 0; ESpawn 1; ESendBlock 0; ESendBlock 1;
   EWorkerInc 0; EWorkerInc 1; ERecvTake 0 0; ERecvTake 1 1; EStart 0; EStart 1].

Lemma old_bounded_refuted :
  exists s, steps_old (init 1 2) d10_trace = Some s /\
            limit s = 1 /\ running s = 2 /\ alive s = 2 /\ counter s = 2.
Proof. eexists. split; [vm_compute; reflexivity|]. vm_compute. auto. Qed.

(* a single dispatcher, limit 2 — a slowly starting worker is not counted yet
   when the next dispatch checks the limit: three workers alive *)
Definition d10_single_trace : list ev :=
  [ECall 0 false; ETrySendFull 0; ECheckOk 0; ESpawn 0; ESendBlock 0;
   EWorkerInc 0; ERecvTake 0 0; EStart 0;
   ECall 0 false; ETrySendFull 0; ECheckOk 0; ESpawn 0; ESendBlock 0;
   EEnd 0; EWake 0; ERecvTake 0 0; EStart 0;
   ECall 0 false; ETrySendFull 0; ECheckOk 0; ESpawn 0; ESendBlock 0;
   EWorkerInc 1; EWorkerInc 2; ERecvTake 1 0; EStart 1].

Lemma old_bounded_single_refuted :
  exists s, steps_old (init 2 1) d10_single_trace = Some s /\
            limit s = 2 /\ alive s = 3 /\ counter s = 3 /\ running s = 2.
Proof. eexists. split; [vm_compute; reflexivity|]. vm_compute. auto. Qed.

(* the hand-over window: the fresh worker times out and exits before the
   dispatcher reaches its blocking send; the dispatcher then waits forever *)
Definition handover_trace : list ev :=
  [ECall 0 false; ETrySendFull 0; ECheckOk 0; ESpawn 0;
   EWorkerInc 0; ERecvEnter 0; ETimeout 0; EGuardDrop 0; ESendBlock 0].

Lemma old_handover_stuck :
  exists s, steps_old (init 1 1) handover_trace = Some s /\
            disp s = [DSendWait 0] /\ work s = [WExited] /\
            delivered s 0 = 0 /\ running_j s 0 = 0 /\
            forall e, step_old s e = None.
Proof.
  eexists. split; [vm_compute; reflexivity|].
  split; [reflexivity|]. split; [reflexivity|]. split; [reflexivity|]. split; [reflexivity|].
  intros e. destruct e; cbn;
    repeat (match goal with
            | |- context [nth_error _ ?n] => is_var n; destruct n; cbn
            end); reflexivity.
Qed.

(* ---------------------------------------------------------------------- *)
(* every result placed in a completed channel is followed by a wake of that
   submitter's driver: send and wake are consecutive steps of the worker, the
   wake has no condition *)

Definition sent_ok (s : st) (p : wpc) : Prop :=
  match p with
  | WSent d k => exists x, nth_error (jobs s) k = Some x /\ owner x = d
  | _ => True
  end.

Definition wake_ok (s : st) (e : nat * nat) : Prop :=
  exists x, nth_error (jobs s) (snd e) = Some x /\ owner x = fst e.

Record winv (s : st) : Prop := mk_winv {
  w_count : forall j, delivered s j = sending s j + woken s j;
  w_sent : Forall (sent_ok s) (work s);
  w_wakes : Forall (wake_ok s) (wakes s);
  w_entries : Forall (entry_ok s) (completed s)
}.

Lemma winv_init : forall l d, winv (init l d).
Proof. intros. constructor; unfold init, delivered, sending, woken; simpl; auto. Qed.

Lemma sent_ok_mono : forall s s' p,
  (forall j x, nth_error (jobs s) j = Some x ->
     exists x', nth_error (jobs s') j = Some x' /\ owner x' = owner x /\ panics x' = panics x) ->
  sent_ok s p -> sent_ok s' p.
Proof.
  intros s s' p H. destruct p; simpl; auto. intros (x & A & B).
  destruct (H _ _ A) as (x' & A' & B' & _). exists x'. split; congruence.
Qed.

Lemma wake_ok_mono : forall s s' e,
  (forall j x, nth_error (jobs s) j = Some x ->
     exists x', nth_error (jobs s') j = Some x' /\ owner x' = owner x /\ panics x' = panics x) ->
  wake_ok s e -> wake_ok s' e.
Proof.
  intros s s' e H (x & A & B). destruct (H _ _ A) as (x' & A' & B' & _).
  exists x'. split; congruence.
Qed.

Lemma step_count_wake : forall s e s', step s e = Some s' ->
  (forall j, delivered s j = sending s j + woken s j) ->
  (forall j, delivered s' j = sending s' j + woken s' j).
Proof.
  intros s e s' H Iw. unfold step, step_common in H.
  destruct e; break_step H; intros jj; specialize (Iw jj); unf;
    upd_facts; rewrite ?sumf_app; unfold is_entry, is_wake in *; simpl in *; eqb_cases; simpl in *; try lia.
Qed.

Lemma step_winv : forall s e s', step s e = Some s' -> winv s -> winv s'.
Proof.
  intros s e s' H [Ic Is Iw Ie].
  pose proof (step_jobs_mono _ _ _ H) as M.
  assert (Is' : Forall (sent_ok s') (work s)).
  { eapply Forall_impl; [|exact Is]. intros a. apply sent_ok_mono; auto. }
  assert (Iw' : Forall (wake_ok s') (wakes s)).
  { eapply Forall_impl; [|exact Iw]. intros a. apply wake_ok_mono; auto. }
  constructor.
  - eapply step_count_wake; eauto.
  - clear Iw Iw' Ie Ic. unfold step, step_common in H.
    destruct e; break_step H; unf; auto;
      try (apply Forall_upd; [assumption | simpl; auto]);
      try (apply Forall_snoc; [assumption | simpl; auto]).
    (* EEnd: the closure wakes the driver of the submitter recorded in the job *)
    destruct (M _ _ Heqo0) as (x' & A & B & _). unf. exists x'. split; auto.
  - clear Is' Ie Ic. unfold step, step_common in H.
    destruct e; break_step H; unf; auto.
    apply Forall_snoc; auto.
    rewrite Forall_forall in Is. apply nth_error_In in Heqo. apply Is in Heqo. exact Heqo.
  - eapply step_entries; eauto.
Qed.

Lemma steps_winv : forall es s s', steps s es = Some s' -> winv s -> winv s'.
Proof.
  induction es; unfold steps; simpl; intros s s' H I.
  - inversion H; subst; auto.
  - destruct (step s a) eqn:E; try discriminate.
    eapply IHes; eauto. eapply step_winv; eauto.
Qed.

Lemma wake_of_count : forall j l, 1 <= sumf (is_wake j) l -> exists e, In e l /\ snd e = j.
Proof.
  intros j l H. destruct (sumf_pos_ex _ _ _ H) as (k & y & A & B).
  exists y. split; [eapply nth_error_In; eauto|].
  unfold is_wake in B. destruct (Nat.eqb_spec (snd y) j); auto. simpl in B. lia.
Qed.

Lemma every_result_wakes : forall l d es s dd j p,
  steps (init l d) es = Some s -> In (dd, j, p) (completed s) ->
  In (dd, j) (wakes s) \/
  exists w s', nth_error (work s) w = Some (WSent dd j) /\
               step s (EWake w) = Some s' /\ In (dd, j) (wakes s').
Proof.
  intros l d es s dd j p H Hin.
  destruct (steps_winv _ _ _ H (winv_init l d)) as [Ic Is Iw Ie].
  assert (Ho : exists x, nth_error (jobs s) j = Some x /\ owner x = dd).
  { rewrite Forall_forall in Ie. destruct (Ie _ Hin) as (x & A & B & _). simpl in *. eauto. }
  destruct Ho as (x & Hx & Hox).
  assert (D : 1 <= delivered s j).
  { apply In_nth_error in Hin. destruct Hin as (k & Hk).
    pose proof (sumf_nth_le _ (is_entry j) _ _ _ Hk) as P. unfold is_entry in P at 1. simpl in P.
    rewrite Nat.eqb_refl in P. exact P. }
  rewrite Ic in D.
  destruct (Nat.eq_dec (woken s j) 0) as [Z|Z].
  - right. assert (S1 : 1 <= sending s j) by lia.
    destruct (sumf_pos_ex _ _ _ S1) as (w & q & Hw & Hq).
    destruct q; simpl in Hq; try lia. destruct (Nat.eqb_spec j0 j); simpl in Hq; try lia. subst j0.
    assert (d0 = dd).
    { rewrite Forall_forall in Is. pose proof (Is _ (nth_error_In _ _ Hw)) as (y & A & B).
      simpl in *. congruence. }
    subst d0. exists w. eexists. split; [exact Hw|]. split; [apply ev_Wake; exact Hw|].
    fld. apply in_or_app. right. left. reflexivity.
  - left. destruct (wake_of_count j (wakes s)) as (e & He & Hej). { unfold woken in Z. lia. }
    rewrite Forall_forall in Iw. destruct (Iw _ He) as (y & A & B).
    destruct e as [a b]. simpl in *. subst. congruence.
Qed.

(* and never the other way round: a wake for job j is only issued after its
   result was sent *)
Lemma wake_after_send : forall l d es s dd j,
  steps (init l d) es = Some s -> In (dd, j) (wakes s) ->
  exists p, In (dd, j, p) (completed s).
Proof.
  intros l d es s dd j H Hin.
  destruct (steps_winv _ _ _ H (winv_init l d)) as [Ic Is Iw Ie].
  assert (W : 1 <= woken s j).
  { apply In_nth_error in Hin. destruct Hin as (k & Hk).
    pose proof (sumf_nth_le _ (is_wake j) _ _ _ Hk) as P. unfold is_wake in P at 1. simpl in P.
    rewrite Nat.eqb_refl in P. exact P. }
  destruct (entry_of_delivered j (completed s)) as (e & He & Hej). { specialize (Ic j). unfold delivered in Ic. lia. }
  rewrite Forall_forall in Ie, Iw.
  destruct (Ie _ He) as (x & A & B & _). destruct (Iw _ Hin) as (y & A' & B').
  destruct e as [[a b] c]. simpl in *. subst. exists c.
  rewrite A in A'. inversion A'; subst. exact He.
Qed.

(* ---------------------------------------------------------------------- *)
(* the OS refuses the thread when the pool must grow *)

Lemma spawn_failure_visible : forall l d es s dd s', 1 <= l ->
  steps (init l d) es = Some s -> step s (ESpawnFail dd) = Some s' ->
  exists j x,
    nth_error (disp s) dd = Some (DSpawn j) /\ nth_error (disp s') dd = Some (DFailed j) /\
    S (counter s') = counter s /\ counter s' = alive s' + reserved s' /\
    work s' = work s /\ jobs s' = jobs s /\ completed s' = completed s /\
    nth_error (jobs s') j = Some x /\ runs x = 0 /\ delivered s' j = 0 /\
    sumf (hw j) (work s') = 0.
Proof.
  intros l d es s dd s' L H Hs.
  pose proof (reachable_inv _ _ _ _ L H) as I.
  pose proof (step_inv _ _ _ Hs I) as I'.
  unfold step in Hs. break_step Hs.
  assert (Hd' : nth_error (disp (set_counter (set_d s dd (DFailed j)) n)) dd = Some (DFailed j)).
  { fld. eapply nth_error_upd_eq; eauto. }
  destruct (hd_holder_unique _ j _ _ I' Hd') as (A & B & C & D).
  { simpl. apply b2n_eqb_refl. }
  destruct (nth_error (jobs (set_counter (set_d s dd (DFailed j)) n)) j) as [x|] eqn:Hx.
  2:{ apply nth_error_None in Hx. lia. }
  exists j, x. repeat split; auto.
  - destruct I' as [Ic _ _ _ _ _ _ _ _ _]. exact Ic.
  - destruct I' as [_ _ _ _ Ir _ _ _ _ _]. specialize (Ir _ _ Hx).
    pose proof (sumf_le _ (rw j) (hw j) (work (set_counter (set_d s dd (DFailed j)) n)) (rw_le_hw j)).
    unfold running_j in Ir. lia.
Qed.

(* a dispatcher whose spawn failed never returns Ok for that call: it stays in
   DFailed whatever happens, and the job is never run or delivered *)
Lemma failed_stays_failed : forall s e s' dd j,
  nth_error (disp s) dd = Some (DFailed j) -> step s e = Some s' ->
  nth_error (disp s') dd = Some (DFailed j).
Proof.
  intros s e s' dd j Hd H. unfold step, step_common in H.
  destruct e; break_step H; fld; auto;
    try (destruct (Nat.eq_dec d dd) as [E|E];
         [subst; congruence | rewrite nth_error_upd_ne by auto; exact Hd]).
Qed.

Lemma failed_never_runs : forall l d es s dd j x, 1 <= l ->
  steps (init l d) es = Some s -> nth_error (disp s) dd = Some (DFailed j) ->
  nth_error (jobs s) j = Some x ->
  runs x = 0 /\ delivered s j = 0 /\ sumf (hw j) (work s) = 0.
Proof.
  intros l d es s dd j x L H Hd Hx.
  pose proof (reachable_inv _ _ _ _ L H) as I.
  destruct (hd_holder_unique _ j _ _ I Hd) as (A & B & C & D).
  { simpl. apply b2n_eqb_refl. }
  destruct I as [_ _ _ _ Ir _ _ _ _ _]. specialize (Ir _ _ Hx).
  pose proof (sumf_le _ (rw j) (hw j) (work s) (rw_le_hw j)). unfold running_j in Ir.
  repeat split; auto. lia.
Qed.
