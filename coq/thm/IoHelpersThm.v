(* IoHelpersThm.v — theorems about the C11 model (IoHelpers.v) *)
From Compio.Model Require Import Base IoHelpers.
From Compio.Thm Require Import ListFacts.

Definition wf (v : vec) : Prop := vlen v <= vcap v.

(* ---------------------------------------------------------------------- *)
(* the environment                                                         *)

Lemma reader_step_spec a capacity src r bs src' :
  reader_step a capacity src = (r, bs, src') ->
  exists k, bs = firstn k src /\ src' = skipn k src /\ k <= capacity /\ k <= length src /\
            length bs = k /\
            match r with RN k' => k' = k | RE _ => k = 0 end.
Proof.
  destruct a as [n|e|]; cbn [reader_step]; intros H; inversion H; subst; clear H.
  - exists (Nat.min n (Nat.min capacity (length src))).
    rewrite firstn_length. repeat split; lia.
  - exists 0. cbn. repeat split; lia.
  - exists 0. cbn. repeat split; lia.
Qed.

Lemma writer_step_spec a bs r out :
  writer_step a bs = (r, out) ->
  exists k, out = firstn k bs /\ k <= length bs /\ length out = k /\
            match r with RN k' => k' = k | RE _ => k = 0 end.
Proof.
  destruct a as [n|e|]; cbn [writer_step]; intros H; inversion H; subst; clear H.
  - exists (Nat.min n (length bs)). rewrite firstn_length. repeat split; lia.
  - exists 0. cbn. repeat split; lia.
  - exists 0. cbn. repeat split; lia.
Qed.

(* ---------------------------------------------------------------------- *)
(* slice_fill                                                              *)

Lemma slice_fill_cells v b bs : cells (slice_fill v b bs) = write_at (cells v) b bs.
Proof. reflexivity. Qed.

Lemma slice_fill_vlen v b bs :
  b <= vlen v -> vlen (slice_fill v b bs) = Nat.max (vlen v) (b + length bs).
Proof.
  intros H. unfold slice_fill; cbn [vlen].
  destruct (Nat.ltb_spec (vlen v - b) (length bs)); lia.
Qed.

Lemma slice_fill_vcap v b bs :
  b + length bs <= vcap v -> vcap (slice_fill v b bs) = vcap v.
Proof. intros H. unfold vcap. rewrite slice_fill_cells. apply write_at_length. exact H. Qed.

(* ---------------------------------------------------------------------- *)
(* read_exact                                                              *)

(* The loop invariant, for every schedule, payload, buffer and offset:
   the loop never panics; it consumes [n] bytes of the payload and places
   exactly those, in order, at [read, read+n); nothing else changes; the
   length only grows; success means the buffer is full. *)
Ltac fin :=
  repeat (first [assumption | reflexivity | match goal with |- _ /\ _ => split end]);
  try lia; intros;
  try match goal with H : _ = OOk _ |- _ => inversion H; subst end;
  repeat (first [assumption | reflexivity | match goal with |- _ /\ _ => split end]);
  try lia.

Lemma read_exact_loop_spec : forall sched src v read,
  read <= vlen v -> wf v ->
  exists o v' src' sched' n,
    read_exact_loop sched src v read = Ok (o, v', src', sched') /\
    n <= length src /\ src' = skipn n src /\
    read + n <= Nat.max read (vcap v) /\
    cells v' = write_at (cells v) read (firstn n src) /\
    vlen v' = Nat.max (vlen v) (read + n) /\
    (forall k, o = OOk k -> k = read + n /\ vcap v <= read + n).
Proof.
  unfold wf.
  induction sched as [|a sched IH]; intros src v read Hr Hwf; cbn [read_exact_loop].
  - destruct (Nat.leb_spec (vcap v) read).
    + exists (OOk read), v, src, [], 0. cbn [firstn skipn].
      rewrite write_at_nil by (unfold vcap in *; lia).
      fin.
    + destruct (Nat.ltb_spec (vlen v) read); [lia|].
      exists (OErr E_UNEXPECTED_EOF), v, src, [], 0. cbn [firstn skipn].
      rewrite write_at_nil by (unfold vcap in *; lia).
      fin.
  - destruct (Nat.leb_spec (vcap v) read).
    + exists (OOk read), v, src, (a :: sched), 0. cbn [firstn skipn].
      rewrite write_at_nil by (unfold vcap in *; lia).
      fin.
    + destruct (Nat.ltb_spec (vlen v) read); [lia|].
      destruct (reader_step a (vcap v - read) src) as [[r bs] src1] eqn:Hstep.
      destruct (reader_step_spec _ _ _ _ _ _ Hstep) as (k & Hbs & Hsrc1 & Hkc & Hks & Hlen & Hr').
      destruct r as [k'|e].
      * subst k'. destruct k as [|k].
        { exists (OErr E_UNEXPECTED_EOF), v, src1, sched, 0. cbn [firstn skipn] in *.
          rewrite write_at_nil by (unfold vcap in *; lia).
          fin. }
        { assert (Hcap : vcap (slice_fill v read bs) = vcap v)
            by (apply slice_fill_vcap; lia).
          assert (Hlen2 : vlen (slice_fill v read bs) = Nat.max (vlen v) (read + S k))
            by (rewrite slice_fill_vlen by lia; lia).
          destruct (IH src1 (slice_fill v read bs) (read + S k)) as
              (o & v' & src' & sched' & n & Hrun & Hn & Hs' & Hbound & Hcells & Hvlen & Hok);
            [lia | lia |].
          exists o, v', src', sched', (S k + n).
          rewrite Hrun. subst src1 bs.
          rewrite skipn_length in Hn.
          split; [reflexivity|]. split; [lia|].
          split; [rewrite Hs'; apply skipn_skipn'|].
          split; [lia|].
          split.
          { rewrite Hcells, slice_fill_cells.
            replace (read + S k) with (read + length (firstn (S k) src)) by lia.
            rewrite write_at_adjacent.
            - rewrite firstn_add_skipn. reflexivity.
            - rewrite !firstn_length, skipn_length. unfold vcap in *. lia. }
          split; [lia|].
          intros k0 E. destruct (Hok k0 E). lia. }
      * destruct (is_intr e).
        { subst bs src1. replace k with 0 in * by lia. cbn [skipn] in *.
          apply IH; assumption. }
        { exists (OErr e), v, src1, sched, 0. subst.
          cbn [firstn skipn]. rewrite write_at_nil by (unfold vcap in *; lia).
          fin. }
Qed.

(* read_exact: for every schedule, payload and buffer (any length <= capacity):
   no panic; the bytes consumed from the stream are exactly the bytes placed,
   in order, from offset 0; the rest of the allocation is untouched; on
   success the whole capacity has been filled with the first [cap] bytes. *)
Theorem read_exact_correct sched src v :
  wf v ->
  exists o v' src' sched' n,
    read_exact sched src v = Ok (o, v', src', sched') /\
    n <= length src /\ n <= vcap v /\ src' = skipn n src /\
    cells v' = firstn n src ++ skipn n (cells v) /\
    vlen v' = Nat.max (vlen v) n /\
    (forall k, o = OOk k -> n = vcap v /\ k = vcap v).
Proof.
  intros Hwf. unfold read_exact.
  destruct (read_exact_loop_spec sched src v 0) as
      (o & v' & src' & sched' & n & Hrun & Hn & Hs & Hb & Hc & Hl & Hok); [lia|exact Hwf|].
  exists o, v', src', sched', n. cbn [plus] in *.
  split; [exact Hrun|]. split; [exact Hn|]. split; [lia|]. split; [exact Hs|].
  split.
  - rewrite Hc, write_at_0. rewrite firstn_length. replace (Nat.min n (length src)) with n by lia.
    reflexivity.
  - split; [exact Hl|]. intros k E. destruct (Hok k E). lia.
Qed.

(* Interrupted is transparent: dropping every Interrupted answer from the
   schedule leaves outcome, buffer and consumption unchanged. *)
Definition not_intr (a : answer) : bool :=
  match a with AErr e => negb (is_intr e) | _ => true end.

Definition strip4 (r : R (outcome * vec * list byte * list answer)) :=
  match r with Ok (o, v, s, _) => Ok (o, v, s) | Panic c => Panic c end.

Theorem read_exact_interrupted_transparent : forall sched src v read,
  strip4 (read_exact_loop sched src v read) =
  strip4 (read_exact_loop (filter not_intr sched) src v read).
Proof.
  induction sched as [|a sched IH]; intros src v read; [reflexivity|].
  cbn [filter]. destruct (not_intr a) eqn:Hni.
  - cbn [read_exact_loop].
    destruct (Nat.leb (vcap v) read); [reflexivity|].
    destruct (Nat.ltb (vlen v) read); [reflexivity|].
    destruct (reader_step a (vcap v - read) src) as [[r bs] src1].
    destruct r as [[|k]|e]; try reflexivity; [apply IH|].
    destruct (is_intr e); [apply IH | reflexivity].
  - destruct a as [n|e|]; try discriminate. cbn [not_intr] in Hni.
    apply negb_false_iff in Hni.
    rewrite <- IH. cbn [read_exact_loop reader_step]. rewrite Hni.
    destruct (Nat.leb_spec (vcap v) read).
    + destruct sched; cbn [read_exact_loop];
        destruct (Nat.leb_spec (vcap v) read); try lia; reflexivity.
    + destruct (Nat.ltb (vlen v) read) eqn:E; [|reflexivity].
      destruct sched; cbn [read_exact_loop]; rewrite E;
        destruct (Nat.leb_spec (vcap v) read); try lia; reflexivity.
Qed.

(* ---------------------------------------------------------------------- *)
(* Vec helpers                                                             *)

Lemma vinit_length v : wf v -> length (vinit v) = vlen v.
Proof. unfold wf, vinit, vcap. intros H. rewrite firstn_length. lia. Qed.

Lemma vreserve_spec v add :
  wf v ->
  let v' := vreserve v add in
  wf v' /\ vlen v' = vlen v /\ vinit v' = vinit v /\ add <= vcap v' - vlen v' /\
  vcap v <= vcap v'.
Proof.
  intros Hwf. unfold vreserve. cbv zeta.
  destruct (Nat.leb_spec add (vcap v - vlen v)); [repeat split; auto; lia|].
  pose proof (vinit_length v Hwf) as Hl.
  unfold wf, vcap, vinit, grow_cap in *. cbn [cells vlen].
  rewrite app_length, repeat_length, Hl.
  repeat split; try lia.
  fold (vinit v). rewrite <- Hl at 1. unfold vinit.
  apply firstn_app_exact0. rewrite firstn_length. lia.
Qed.

Lemma vinit_slice_fill_end v bs :
  wf v -> vlen v + length bs <= vcap v ->
  vinit (slice_fill v (vlen v) bs) = vinit v ++ bs.
Proof.
  intros Hwf Hfit. unfold vinit. rewrite slice_fill_cells.
  rewrite slice_fill_vlen by lia.
  replace (Nat.max (vlen v) (vlen v + length bs)) with (vlen v + length bs) by lia.
  unfold write_at. unfold wf, vcap in *.
  rewrite firstn_app_exact by (rewrite firstn_length; lia).
  f_equal. apply firstn_app_exact0. reflexivity.
Qed.

Lemma vinit_slice_fill_0 v bs :
  vlen v = 0 -> vinit (slice_fill v 0 bs) = bs.
Proof.
  intros H0. unfold vinit. rewrite slice_fill_cells, slice_fill_vlen by lia.
  rewrite H0. cbn [plus Nat.max]. rewrite write_at_0. apply firstn_app_exact0. reflexivity.
Qed.

(* ---------------------------------------------------------------------- *)
(* read_to_end                                                             *)

Lemma read_to_end_loop_spec : forall sched src v start total,
  wf v -> vlen v = start + total ->
  exists o v' src' sched' n,
    read_to_end_loop sched src v start total = Ok (o, v', src', sched') /\
    n <= length src /\ src' = skipn n src /\ wf v' /\
    vinit v' = vinit v ++ firstn n src /\
    (forall k, o = OOk k -> k = total + n).
Proof.
  induction sched as [|a sched IH]; intros src v start total Hwf Hlen;
    cbn [read_to_end_loop].
  - set (v1 := if Nat.eqb (vlen v) (vcap v) then vreserve v (nn Consts.READ_TO_END_RESERVE) else v).
    assert (H1 : wf v1 /\ vlen v1 = vlen v /\ vinit v1 = vinit v).
    { unfold v1. destruct (Nat.eqb (vlen v) (vcap v)); [|auto].
      destruct (vreserve_spec v (nn Consts.READ_TO_END_RESERVE) Hwf) as (?&?&?&?&?); auto. }
    destruct H1 as (Hwf1 & Hl1 & Hi1).
    destruct (Nat.ltb_spec (vlen v1) (start + total)); [lia|].
    exists (OOk total), v1, src, [], 0. cbn [firstn skipn]. rewrite app_nil_r.
    fin.
  - set (v1 := if Nat.eqb (vlen v) (vcap v) then vreserve v (nn Consts.READ_TO_END_RESERVE) else v).
    assert (H1 : wf v1 /\ vlen v1 = vlen v /\ vinit v1 = vinit v).
    { unfold v1. destruct (Nat.eqb (vlen v) (vcap v)); [|auto].
      destruct (vreserve_spec v (nn Consts.READ_TO_END_RESERVE) Hwf) as (?&?&?&?&?); auto. }
    destruct H1 as (Hwf1 & Hl1 & Hi1).
    destruct (Nat.ltb_spec (vlen v1) (start + total)); [lia|].
    destruct (reader_step a (vcap v1 - (start + total)) src) as [[r bs] src1] eqn:Hstep.
    destruct (reader_step_spec _ _ _ _ _ _ Hstep) as (k & Hbs & Hsrc1 & Hkc & Hks & Hblen & Hr').
    destruct r as [k'|e].
    + subst k'. destruct k as [|k].
      { exists (OOk total), v1, src1, sched, 0. subst. cbn [firstn skipn]. rewrite app_nil_r. fin. }
      { assert (Est : start + total = vlen v1) by lia. rewrite Est in *.
        assert (Hfit : vlen v1 + length bs <= vcap v1) by (unfold wf in *; lia).
        destruct (IH src1 (slice_fill v1 (vlen v1) bs) start (total + S k)) as
            (o & v' & src' & sched' & n & Hrun & Hn & Hs' & Hwf' & Hinit & Hok).
        { unfold wf. rewrite slice_fill_vcap by lia. rewrite slice_fill_vlen by lia. lia. }
        { rewrite slice_fill_vlen by lia. lia. }
        exists o, v', src', sched', (S k + n). rewrite Hrun. subst src1 bs.
        rewrite skipn_length in Hn.
        split; [reflexivity|]. split; [lia|].
        split; [rewrite Hs'; apply skipn_skipn'|]. split; [exact Hwf'|].
        split.
        - rewrite Hinit, vinit_slice_fill_end by assumption.
          rewrite Hi1, <- app_assoc, firstn_add_skipn. reflexivity.
        - intros k0 E. rewrite (Hok k0 E). lia. }
    + destruct (is_intr e).
      { subst bs src1. replace k with 0 in * by lia. cbn [skipn] in *.
        destruct (IH src v1 start total Hwf1 ltac:(lia)) as
            (o & v' & src' & sched' & n & Hrun & Hrest).
        exists o, v', src', sched', n. rewrite Hrun, <- Hi1. split; [reflexivity|exact Hrest]. }
      { exists (OErr e), v1, src1, sched, 0. subst.
        cbn [firstn skipn]. rewrite app_nil_r. fin. }
Qed.

(* read_to_end appends: for every schedule and payload the initialised part of
   the result is the old content followed by exactly the bytes consumed from
   the stream, in order; the count reported on success is their number. *)
Theorem read_to_end_correct sched src v :
  wf v ->
  exists o v' src' sched' n,
    read_to_end sched src v = Ok (o, v', src', sched') /\
    n <= length src /\ src' = skipn n src /\ wf v' /\
    vinit v' = vinit v ++ firstn n src /\
    (forall k, o = OOk k -> k = n).
Proof.
  intros Hwf. unfold read_to_end.
  destruct (read_to_end_loop_spec sched src v (vlen v) 0 Hwf ltac:(lia)) as
      (o & v' & src' & sched' & n & H1 & H2 & H3 & H4 & H5 & H6).
  exists o, v', src', sched', n. cbn [plus] in H6. repeat split; auto.
Qed.

(* ---------------------------------------------------------------------- *)
(* write_all                                                               *)

Lemma sink_bytes_app l1 l2 : sink_bytes (l1 ++ l2) = sink_bytes l1 ++ sink_bytes l2.
Proof. unfold sink_bytes. apply flat_map_app. Qed.

Lemma write_all_loop_spec : forall sched data needle log,
  needle <= length data ->
  exists o log' sched' n,
    write_all_loop sched data needle log = (o, log', sched') /\
    needle + n <= length data /\
    sink_bytes log' = sink_bytes log ++ firstn n (skipn needle data) /\
    (forall k, o = OOk k -> needle + n = length data /\ k = length data).
Proof.
  induction sched as [|a sched IH]; intros data needle log Hn; cbn [write_all_loop].
  - destruct (Nat.leb_spec (length data) needle).
    + exists (OOk needle), log, [], 0. cbn [firstn]. rewrite app_nil_r. fin.
    + exists (OErr E_WRITE_ZERO), log, [], 0. cbn [firstn]. rewrite app_nil_r. fin.
  - destruct (Nat.leb_spec (length data) needle).
    + exists (OOk needle), log, (a :: sched), 0. cbn [firstn]. rewrite app_nil_r. fin.
    + destruct (writer_step a (skipn needle data)) as [r out] eqn:Hstep.
      destruct (writer_step_spec _ _ _ _ Hstep) as (k & Hout & Hk & Hlen & Hr).
      rewrite skipn_length in Hk.
      destruct r as [k'|e].
      * subst k'. destruct k as [|k].
        { exists (OErr E_WRITE_ZERO), log, sched, 0. cbn [firstn]. rewrite app_nil_r. fin. }
        { destruct (IH data (needle + S k) (log ++ [WBytes out]) ltac:(lia)) as
              (o & log' & sched' & n & Hrun & Hb & Hsink & Hok).
          exists o, log', sched', (S k + n). rewrite Hrun.
          split; [reflexivity|]. split; [lia|]. split.
          - rewrite Hsink, sink_bytes_app. cbn [sink_bytes flat_map]. rewrite app_nil_r.
            rewrite <- app_assoc. f_equal. subst out.
            rewrite <- (skipn_skipn' data (S k) needle). apply firstn_add_skipn.
          - intros k0 E. destruct (Hok k0 E). lia. }
      * destruct (is_intr e).
        { apply IH. lia. }
        { exists (OErr e), log, sched, 0. cbn [firstn]. rewrite app_nil_r. fin. }
Qed.

(* write_all: the sink receives a prefix of the data, in order, nothing twice;
   Ok means all of it. *)
Theorem write_all_correct sched data :
  exists o log sched' n,
    write_all sched data = (o, log, sched') /\ n <= length data /\
    sink_bytes log = firstn n data /\
    (forall k, o = OOk k -> n = length data /\ sink_bytes log = data).
Proof.
  unfold write_all.
  destruct (write_all_loop_spec sched data 0 [] ltac:(lia)) as (o & log & s' & n & H1 & H2 & H3 & H4).
  exists o, log, s', n. cbn [skipn sink_bytes flat_map app plus] in *.
  split; [exact H1|]. split; [exact H2|]. split; [exact H3|].
  intros k E. destruct (H4 k E) as [Hn _]. split; [exact Hn|].
  rewrite H3, Hn. apply firstn_all.
Qed.

(* ---------------------------------------------------------------------- *)
(* copy                                                                    *)

Lemma copy_loop_spec : forall rs src ws bsz total log,
  exists o src' log' n m,
    copy_loop rs src ws bsz total log = (o, src', log') /\
    n <= length src /\ src' = skipn n src /\ m <= n /\
    sink_bytes log' = sink_bytes log ++ firstn m src /\
    (forall k, o = OOk k ->
       m = n /\ k = total + n /\ exists l0, log' = l0 ++ [WFlush; WShutdown]).
Proof.
  induction rs as [|a rs IH]; intros src ws bsz total log; cbn [copy_loop].
  - exists (OOk total), src, (log ++ [WFlush; WShutdown]), 0, 0.
    rewrite sink_bytes_app. cbn. fin. exists log; reflexivity.
  - destruct (reader_step a bsz src) as [[r bs] src1] eqn:Hstep.
    destruct (reader_step_spec _ _ _ _ _ _ Hstep) as (k & Hbs & Hsrc1 & Hkc & Hks & Hblen & Hr').
    destruct r as [k'|e].
    + subst k'. destruct k as [|k].
      { exists (OOk total), src1, (log ++ [WFlush; WShutdown]), 0, 0.
        rewrite sink_bytes_app. subst. cbn. fin. exists log; reflexivity. }
      { destruct (write_all_loop_spec ws bs 0 log ltac:(lia)) as
            (ow & log1 & ws1 & nw & Hw & Hnw & Hsink & Hwok).
        rewrite Hw. cbn [skipn plus] in Hsink, Hnw, Hwok.
        destruct ow as [kw|e].
        - destruct (Hwok kw eq_refl) as [Hfull _].
          destruct (IH src1 ws1 bsz (total + S k) log1) as
              (o & src' & log' & n & m & Hrun & Hn & Hs' & Hm & Hsk & Hok).
          exists o, src', log', (S k + n), (S k + m). rewrite Hrun. subst src1 bs.
          rewrite skipn_length in Hn.
          split; [reflexivity|]. split; [lia|].
          split; [rewrite Hs'; apply skipn_skipn'|]. split; [lia|].
          split.
          + rewrite Hsk, Hsink, <- app_assoc. f_equal.
            rewrite firstn_all2 by lia. apply firstn_add_skipn.
          + intros k0 E. destruct (Hok k0 E) as (?&?&?). fin.
        - exists (OErr e), src1, log1, (S k), nw. subst src1 bs.
          split; [reflexivity|]. split; [lia|]. split; [reflexivity|]. split; [lia|].
          split.
          + rewrite Hsink. f_equal. rewrite firstn_firstn. f_equal. lia.
          + intros k0 E; inversion E. }
    + destruct (is_intr e).
      { subst. cbn [skipn]. apply IH. }
      { exists (OErr e), src1, log, 0, 0. subst.
        cbn [firstn skipn]. rewrite app_nil_r. fin. }
Qed.

(* copy: whatever the two schedules, the sink holds a prefix of the source in
   order, no byte twice, never more than was consumed; success means
   everything consumed was written, the count is exact, and the writer was
   flushed and shut down last. *)
Theorem copy_correct rs src ws bsz :
  exists o src' log n m,
    copy rs src ws bsz = (o, src', log) /\
    n <= length src /\ src' = skipn n src /\ m <= n /\
    sink_bytes log = firstn m src /\
    (forall k, o = OOk k -> m = n /\ k = n /\ exists l0, log = l0 ++ [WFlush; WShutdown]).
Proof.
  unfold copy. destruct (copy_loop_spec rs src ws bsz 0 []) as
      (o & src' & log & n & m & H1 & H2 & H3 & H4 & H5 & H6).
  exists o, src', log, n, m. cbn [sink_bytes flat_map app plus] in *. repeat split; auto; apply (H6 _ H).
Qed.

(* ---------------------------------------------------------------------- *)
(* Buffer, BufWriter                                                       *)

Definition bwf (b : buffer) : Prop :=
  bbegin b <= vlen (bvec b) /\ wf (bvec b).

Lemma buf_pending_length b : bwf b -> length (buf_pending b) = vlen (bvec b) - bbegin b.
Proof.
  intros [H1 H2]. unfold buf_pending. rewrite skipn_length, vinit_length by exact H2. reflexivity.
Qed.

Lemma buf_pending_nil b : bwf b -> buf_all_done b = true -> buf_pending b = [].
Proof.
  intros Hwf Hd. apply length_zero_iff_nil. rewrite buf_pending_length by exact Hwf.
  unfold buf_all_done in Hd. apply Nat.leb_le in Hd. lia.
Qed.

Lemma buf_reset_spec b : wf (bvec b) -> bwf (buf_reset b) /\ buf_pending (buf_reset b) = [] /\
  vcap (bvec (buf_reset b)) = vcap (bvec b) /\ vlen (bvec (buf_reset b)) = 0.
Proof.
  intros H. unfold bwf, buf_reset, buf_pending, vinit, wf, vclear, vcap in *. cbn. repeat split; lia.
Qed.

Lemma buf_advance_spec b k :
  bwf b -> k <= vlen (bvec b) - bbegin b ->
  exists b', buf_advance b k = Ok b' /\ bwf b' /\ bvec b' = bvec b /\
             buf_pending b' = skipn k (buf_pending b).
Proof.
  intros [H1 H2] Hk. unfold buf_advance, wf in *.
  destruct (Nat.ltb_spec (vcap (bvec b)) (bbegin b + k)); [lia|].
  destruct (Nat.ltb_spec (vlen (bvec b)) (bbegin b + k)); [lia|].
  eexists. split; [reflexivity|]. unfold bwf, buf_pending, wf; cbn [bvec bbegin].
  repeat split; try lia. apply eq_sym, skipn_skipn'.
Qed.

Lemma flush_to_loop_spec : forall ws b log,
  bwf b ->
  exists o b' log' ws',
    flush_to_loop ws b log = Ok (o, b', log', ws') /\ bwf b' /\
    vcap (bvec b') = vcap (bvec b) /\
    sink_bytes log' ++ buf_pending b' = sink_bytes log ++ buf_pending b /\
    (forall k, o = OOk k -> buf_pending b' = [] /\ vlen (bvec b') = 0).
Proof.
  induction ws as [|a ws IH]; intros b log Hwf; cbn [flush_to_loop].
  - exists (OErr E_WRITE_ZERO), b, log, []. fin.
  - destruct (writer_step a (buf_pending b)) as [r out] eqn:Hstep.
    destruct (writer_step_spec _ _ _ _ Hstep) as (k & Hout & Hk & Hlen & Hr).
    rewrite buf_pending_length in Hk by exact Hwf.
    destruct r as [k'|e].
    + subst k'. destruct k as [|k].
      { exists (OErr E_WRITE_ZERO), b, log, ws. fin. }
      { destruct (buf_advance_spec b (S k) Hwf Hk) as (b1 & Hadv & Hwf1 & Hvec & Hpend).
        rewrite Hadv. cbn [rbind].
        assert (Hsum : sink_bytes (log ++ [WBytes out]) ++ buf_pending b1 =
                       sink_bytes log ++ buf_pending b).
        { rewrite sink_bytes_app. cbn [sink_bytes flat_map]. rewrite app_nil_r, <- app_assoc.
          f_equal. rewrite Hpend, Hout. apply firstn_skipn. }
        destruct (buf_all_done b1) eqn:Hd.
        - destruct (buf_reset_spec b1 (proj2 Hwf1)) as (Hw & Hp & Hc & Hl).
          exists (OOk 0), (buf_reset b1), (log ++ [WBytes out]), ws.
          split; [reflexivity|]. split; [exact Hw|]. split; [congruence|].
          split; [|auto].
          rewrite Hp, <- Hsum, (buf_pending_nil b1 Hwf1 Hd). reflexivity.
        - destruct (IH b1 (log ++ [WBytes out]) Hwf1) as (o & b' & log' & ws' & Hrun & Hw & Hc & Hs & Hok).
          exists o, b', log', ws'. rewrite Hrun. split; [reflexivity|]. split; [exact Hw|].
          split; [congruence|]. split; [congruence|exact Hok]. }
    + exists (OErr e), b, log, ws. fin.
Qed.

Lemma flush_to_spec ws b log :
  bwf b ->
  exists o b' log' ws',
    flush_to ws b log = Ok (o, b', log', ws') /\ bwf b' /\
    vcap (bvec b') = vcap (bvec b) /\
    sink_bytes log' ++ buf_pending b' = sink_bytes log ++ buf_pending b /\
    (forall k, o = OOk k -> buf_pending b' = []).
Proof.
  intros Hwf. unfold flush_to. destruct (buf_all_done b) eqn:Hd.
  - exists (OOk 0), b, log, ws. fin. apply buf_pending_nil; assumption.
  - destruct (flush_to_loop_spec ws b log Hwf) as (o & b' & log' & ws' & H1 & H2 & H3 & H4 & H5).
    exists o, b', log', ws'. fin. eapply H5; reflexivity.
Qed.

Lemma bw_flush_if_needed_spec ws b log :
  bwf b ->
  exists o b' log' ws',
    bw_flush_if_needed ws b log = Ok (o, b', log', ws') /\ bwf b' /\
    vcap (bvec b') = vcap (bvec b) /\
    sink_bytes log' ++ buf_pending b' = sink_bytes log ++ buf_pending b.
Proof.
  intros Hwf. unfold bw_flush_if_needed, bw_flush_buf. destruct (buf_need_flush b).
  - destruct (flush_to_spec ws b log Hwf) as (o & b' & log' & ws' & H1 & H2 & H3 & H4 & H5).
    exists o, b', log', ws'. fin.
  - exists (OOk 0), b, log, ws. fin.
Qed.

(* BufWriter::write: no panic; an Ok(k) write has accepted exactly the first k
   bytes of the data, an Err write has accepted nothing; in both cases
   (bytes the inner writer saw) ++ (bytes still buffered) grows by exactly the
   accepted bytes: nothing lost, duplicated or reordered. *)
Theorem bw_write_spec ws b log data :
  bwf b ->
  exists o b' log' ws',
    bw_write ws b log data = Ok (o, b', log', ws') /\ bwf b' /\
    vcap (bvec b') = vcap (bvec b) /\
    match o with
    | OOk k => k <= length data /\
               sink_bytes log' ++ buf_pending b' =
               (sink_bytes log ++ buf_pending b) ++ firstn k data
    | OErr _ => sink_bytes log' ++ buf_pending b' = sink_bytes log ++ buf_pending b
    end.
Proof.
  intros Hwf. unfold bw_write.
  destruct (bw_flush_if_needed_spec ws b log Hwf) as (o1 & b1 & log1 & ws1 & H1 & Hwf1 & Hc1 & Hs1).
  rewrite H1. cbn [rbind]. destruct o1 as [k1|e1].
  2:{ exists (OErr e1), b1, log1, ws1. fin. }
  set (v := bvec b1).
  set (k := Nat.min (length data) (vcap v - vlen v)).
  set (b2 := if Nat.eqb k 0 then b1 else mkbuf (slice_fill v (vlen v) (firstn k data)) (bbegin b1)).
  assert (H2 : bwf b2 /\ vcap (bvec b2) = vcap v /\
               buf_pending b2 = buf_pending b1 ++ firstn k data).
  { unfold b2. destruct Hwf1 as [Hb Hw]. fold v in Hb, Hw.
    destruct (Nat.eqb_spec k 0) as [E|E].
    - rewrite E. cbn [firstn]. rewrite app_nil_r. fin. split; assumption.
    - assert (Hk : length (firstn k data) = k) by (rewrite firstn_length; lia).
      assert (Hfit : vlen v + length (firstn k data) <= vcap v) by (unfold wf in Hw; lia).
      unfold bwf, buf_pending, wf. cbn [bvec bbegin].
      rewrite slice_fill_vcap, slice_fill_vlen by lia.
      rewrite vinit_slice_fill_end by assumption.
      split; [lia|]. split; [reflexivity|].
      rewrite skipn_app, vinit_length by exact Hw.
      replace (bbegin b1 - vlen v) with 0 by lia. reflexivity. }
  destruct H2 as (Hwf2 & Hc2 & Hp2).
  destruct (bw_flush_if_needed_spec ws1 b2 log1 Hwf2) as (o3 & b3 & log3 & ws3 & H3 & Hwf3 & Hc3 & Hs3).
  rewrite H3. cbn [rbind].
  exists (OOk k), b3, log3, ws3. split; [reflexivity|]. split; [exact Hwf3|].
  split; [unfold v in *; congruence|]. split; [lia|].
  rewrite Hs3, Hp2, <- Hs1, app_assoc. reflexivity.
Qed.

Lemma bw_fill_spec b data :
  bwf b ->
  let '(b', k) := bw_fill b data in
  bwf b' /\ vcap (bvec b') = vcap (bvec b) /\ k <= length data /\
  buf_pending b' = buf_pending b ++ firstn k data /\
  (k < length data -> vlen (bvec b') = vcap (bvec b')).
Proof.
  intros Hwf. unfold bw_fill.
  set (v := bvec b).
  set (k := Nat.min (length data) (vcap v - vlen v)).
  destruct Hwf as [Hb Hw]. fold v in Hb, Hw.
  destruct (Nat.eqb_spec k 0) as [E|E].
  - rewrite E. cbn [firstn]. rewrite app_nil_r.
    split; [split; assumption|]. split; [reflexivity|]. split; [lia|]. split; [reflexivity|].
    intros Hlt. fold v. unfold wf in Hw. lia.
  - assert (Hk : length (firstn k data) = k) by (rewrite firstn_length; lia).
    assert (Hfit : vlen v + length (firstn k data) <= vcap v) by (unfold wf in Hw; lia).
    unfold bwf, buf_pending, wf. cbn [bvec bbegin].
    rewrite slice_fill_vcap, slice_fill_vlen by lia.
    rewrite vinit_slice_fill_end by assumption.
    split; [lia|]. split; [reflexivity|]. split; [lia|]. split.
    + rewrite skipn_app, vinit_length by exact Hw.
      replace (bbegin b - vlen v) with 0 by lia. reflexivity.
    + intros Hlt. rewrite Hk. lia.
Qed.

Lemma bw_fill_segs_spec segs : forall b,
  bwf b ->
  let '(b', k) := bw_fill_segs b segs in
  bwf b' /\ vcap (bvec b') = vcap (bvec b) /\ k <= length (concat segs) /\
  buf_pending b' = buf_pending b ++ firstn k (concat segs).
Proof.
  induction segs as [|d r IH]; intros b Hwf; cbn [bw_fill_segs concat].
  - cbn [firstn]. rewrite app_nil_r. split; [exact Hwf|]. split; [reflexivity|]. split; [cbn; lia|reflexivity].
  - pose proof (bw_fill_spec b d Hwf) as H. destruct (bw_fill b d) as [b1 k].
    destruct H as (Hwf1 & Hc1 & Hk1 & Hp1 & Hfull).
    destruct (Nat.eqb_spec (vlen (bvec b1)) (vcap (bvec b1))) as [E|E].
    + split; [exact Hwf1|]. split; [exact Hc1|]. split; [rewrite app_length; lia|].
      rewrite Hp1. f_equal. rewrite firstn_app. replace (k - length d) with 0 by lia.
      cbn [firstn]. rewrite app_nil_r. reflexivity.
    + assert (Hkd : k = length d) by (destruct (Nat.lt_ge_cases k (length d)); [specialize (Hfull ltac:(lia)); contradiction|lia]).
      specialize (IH b1 Hwf1). destruct (bw_fill_segs b1 r) as [b2 k2].
      destruct IH as (Hwf2 & Hc2 & Hk2 & Hp2).
      split; [exact Hwf2|]. split; [congruence|]. split; [rewrite app_length; lia|].
      rewrite Hp2, Hp1, <- app_assoc. f_equal.
      subst k. rewrite firstn_all. rewrite firstn_app.
      rewrite (firstn_all2 (n := length d + k2) d) by lia.
      replace (length d + k2 - length d) with k2 by lia. reflexivity.
Qed.

(* BufWriter::write_vectored: no panic; an Ok(k) write has accepted exactly the first k
   bytes of the concatenated segments BEHIND what was already buffered; nothing that was
   waiting in the buffer is overwritten, lost, duplicated or reordered. *)
Theorem bw_write_vectored_spec ws b log segs :
  bwf b ->
  exists o b' log' ws',
    bw_write_vectored ws b log segs = Ok (o, b', log', ws') /\ bwf b' /\
    vcap (bvec b') = vcap (bvec b) /\
    match o with
    | OOk k => k <= length (concat segs) /\
               sink_bytes log' ++ buf_pending b' =
               (sink_bytes log ++ buf_pending b) ++ firstn k (concat segs)
    | OErr _ => sink_bytes log' ++ buf_pending b' = sink_bytes log ++ buf_pending b
    end.
Proof.
  intros Hwf. unfold bw_write_vectored.
  destruct (bw_flush_if_needed_spec ws b log Hwf) as (o1 & b1 & log1 & ws1 & H1 & Hwf1 & Hc1 & Hs1).
  rewrite H1. cbn [rbind]. destruct o1 as [k1|e1].
  2:{ exists (OErr e1), b1, log1, ws1. fin. }
  pose proof (bw_fill_segs_spec segs b1 Hwf1) as H2.
  destruct (bw_fill_segs b1 segs) as [b2 k].
  destruct H2 as (Hwf2 & Hc2 & Hk2 & Hp2).
  destruct (bw_flush_if_needed_spec ws1 b2 log1 Hwf2) as (o3 & b3 & log3 & ws3 & H3 & Hwf3 & Hc3 & Hs3).
  rewrite H3. cbn [rbind].
  exists (OOk k), b3, log3, ws3. split; [reflexivity|]. split; [exact Hwf3|].
  split; [congruence|]. split; [exact Hk2|].
  rewrite Hs3, Hp2, <- Hs1, app_assoc. reflexivity.
Qed.

(* BufWriter::flush: nothing is lost or duplicated; Ok means the buffer is
   empty and the inner writer was flushed last; after an error the unsent
   bytes are still buffered (so that a retry sends them). *)
Theorem bw_flush_spec ws b log :
  bwf b ->
  exists o b' log' ws',
    bw_flush ws b log = Ok (o, b', log', ws') /\ bwf b' /\
    vcap (bvec b') = vcap (bvec b) /\
    sink_bytes log' ++ buf_pending b' = sink_bytes log ++ buf_pending b /\
    (forall k, o = OOk k -> buf_pending b' = [] /\ exists l0, log' = l0 ++ [WFlush]).
Proof.
  intros Hwf. unfold bw_flush.
  destruct (flush_to_spec ws b log Hwf) as (o & b' & log' & ws' & H1 & H2 & H3 & H4 & H5).
  rewrite H1. cbn [rbind]. destruct o as [k|e].
  - exists (OOk k), b', (log' ++ [WFlush]), ws'. split; [reflexivity|]. split; [exact H2|].
    split; [exact H3|]. split.
    + rewrite sink_bytes_app. cbn [sink_bytes flat_map app]. rewrite app_nil_r. exact H4.
    + intros k0 _. split; [apply (H5 k eq_refl)|]. exists log'. reflexivity.
  - exists (OErr e), b', log', ws'. fin.
Qed.

Lemma buf_with_capacity_wf cap : bwf (buf_with_capacity cap) /\ buf_pending (buf_with_capacity cap) = [].
Proof.
  unfold bwf, buf_with_capacity, buf_pending, vinit, wf, vcap. cbn. split; [lia|reflexivity].
Qed.

(* ---------------------------------------------------------------------- *)
(* BufReader                                                               *)

(* fill_buf never loses or reorders: (window ++ rest of the stream) is
   unchanged, whatever the inner reader answers. *)
Theorem br_fill_buf_spec rs src b :
  bwf b ->
  exists o b' src' rs',
    br_fill_buf rs src b = (o, b', src', rs') /\ bwf b' /\
    vcap (bvec b') = vcap (bvec b) /\
    buf_pending b' ++ src' = buf_pending b ++ src.
Proof.
  intros Hwf. unfold br_fill_buf.
  set (b0 := if buf_all_done b then buf_reset b else b).
  assert (H0 : bwf b0 /\ vcap (bvec b0) = vcap (bvec b) /\ buf_pending b0 = buf_pending b /\
               (vlen (bvec b0) = 0 -> bbegin b0 = 0)).
  { unfold b0. destruct (buf_all_done b) eqn:Hd.
    - destruct (buf_reset_spec b (proj2 Hwf)) as (?&?&?&?).
      rewrite (buf_pending_nil b Hwf Hd). fin.
    - pose proof Hwf as [? ?]. fin. }
  destruct H0 as (Hwf0 & Hc0 & Hp0 & Hz).
  destruct (Nat.eqb_spec (vlen (bvec b0)) 0) as [E|E].
  2:{ exists (OOk 0), b0, src, rs. fin. congruence. }
  assert (Hpn : buf_pending b0 = []).
  { apply length_zero_iff_nil. rewrite buf_pending_length by exact Hwf0. lia. }
  destruct rs as [|a rs].
  { exists (OOk 0), b0, src, []. fin. congruence. }
  destruct (reader_step a (vcap (bvec b0)) src) as [[r bs] src1] eqn:Hstep.
  destruct (reader_step_spec _ _ _ _ _ _ Hstep) as (k & Hbs & Hsrc1 & Hkc & Hks & Hblen & Hr').
  destruct r as [k'|e].
  - subst k'. destruct (Nat.eqb_spec k 0) as [Ek|Ek].
    + exists (OOk k), b0, src1, rs. subst. cbn [skipn]. fin. congruence.
    + exists (OOk k), (mkbuf (slice_fill (bvec b0) 0 bs) (bbegin b0)), src1, rs.
      split; [reflexivity|].
      destruct Hwf0 as [Hb Hw].
      unfold bwf, buf_pending, wf. cbn [bvec bbegin].
      rewrite slice_fill_vcap, slice_fill_vlen by lia.
      split; [lia|]. split; [congruence|].
      change (skipn (bbegin b) (vinit (bvec b))) with (buf_pending b).
      rewrite <- Hp0, Hpn. cbn [app]. rewrite (Hz E). cbn [skipn].
      rewrite vinit_slice_fill_0 by exact E. subst. apply firstn_skipn.
  - exists (OErr e), b0, src1, rs. subst. cbn [skipn]. fin. congruence.
Qed.

Lemma slice_to_vec_spec src v :
  wf v ->
  let '(k, v') := slice_to_vec src v in
  k = Nat.min (length src) (vcap v) /\
  cells v' = firstn k src ++ skipn k (cells v) /\
  vlen v' = Nat.max (vlen v) k /\ vcap v' = vcap v.
Proof.
  intros Hwf. unfold slice_to_vec.
  set (k := Nat.min (length src) (vcap v)).
  destruct (Nat.eqb_spec k 0) as [E|E].
  - rewrite E. cbn [firstn skipn app]. fin.
  - assert (Hl : length (firstn k src) = k) by (rewrite firstn_length; lia).
    rewrite slice_fill_cells, write_at_0, slice_fill_vlen, slice_fill_vcap, Hl by lia.
    fin.
Qed.

(* BufReader::read: no panic; the k bytes placed at the start of the
   destination are the next k bytes of (window ++ rest of the stream), and
   what remains is exactly the rest: a BufReader is the identity on streams. *)
Theorem br_read_spec rs src b dst :
  bwf b -> wf dst ->
  exists o b' src' rs' dst',
    br_read rs src b dst = Ok (o, b', src', rs', dst') /\ bwf b' /\
    vcap (bvec b') = vcap (bvec b) /\
    match o with
    | OOk k => cells dst' = firstn k (buf_pending b ++ src) ++ skipn k (cells dst) /\
               k <= vcap dst /\ vlen dst' = Nat.max (vlen dst) k /\
               buf_pending b' ++ src' = skipn k (buf_pending b ++ src)
    | OErr _ => dst' = dst /\ buf_pending b' ++ src' = buf_pending b ++ src
    end.
Proof.
  intros Hwf Hd. unfold br_read.
  destruct (br_fill_buf_spec rs src b Hwf) as (o & b1 & src1 & rs1 & H1 & Hwf1 & Hc1 & Hs1).
  rewrite H1. destruct o as [k0|e].
  2:{ exists (OErr e), b1, src1, rs1, dst. fin. }
  pose proof (slice_to_vec_spec (buf_pending b1) dst Hd) as Hcp.
  destruct (slice_to_vec (buf_pending b1) dst) as [k dst'].
  destruct Hcp as (Hk & Hcells & Hvl & Hvc).
  assert (Hkp : k <= vlen (bvec b1) - bbegin b1)
    by (rewrite <- buf_pending_length by exact Hwf1; lia).
  destruct (buf_advance_spec b1 k Hwf1 Hkp) as (b2 & Hadv & Hwf2 & Hvec & Hpend).
  rewrite Hadv. cbn [rbind].
  exists (OOk k), b2, src1, rs1, dst'. split; [reflexivity|]. split; [exact Hwf2|].
  split; [congruence|].
  assert (Hkl : k <= length (buf_pending b1)) by lia.
  rewrite <- Hs1. split; [|split; [lia|split; [exact Hvl|]]].
  - rewrite Hcells. f_equal. rewrite firstn_app.
    replace (k - length (buf_pending b1)) with 0 by lia. cbn [firstn]. rewrite app_nil_r. reflexivity.
  - rewrite Hpend, skipn_app. replace (k - length (buf_pending b1)) with 0 by lia. reflexivity.
Qed.

(* ---------------------------------------------------------------------- *)
(* Take                                                                    *)

(* Take::read: never delivers more than the limit; the k bytes delivered are
   the next k bytes of the stream, placed at the start of the destination;
   the limit decreases by exactly k; errors leave limit and buffer alone. *)
Theorem take_read_spec limit a src v :
  wf v ->
  let '(o, v', src', limit') := take_read limit a src v in
  match o with
  | OOk k => k <= limit /\ k <= vcap v /\ limit' = limit - k /\
             src' = skipn k src /\ k <= length src /\
             cells v' = firstn k src ++ skipn k (cells v) /\
             vlen v' = Nat.max (vlen v) k
  | OErr _ => v' = v /\ src' = src /\ limit' = limit
  end.
Proof.
  intros Hwf. unfold take_read.
  destruct (Nat.eqb_spec limit 0) as [E|E].
  { subst. cbn [firstn skipn app]. repeat split; lia. }
  destruct a as [a|].
  2:{ cbn [firstn skipn app]. repeat split; lia. }
  destruct (reader_step a (Nat.min limit (vcap v)) src) as [[r bs] src1] eqn:Hstep.
  destruct (reader_step_spec _ _ _ _ _ _ Hstep) as (k & Hbs & Hsrc1 & Hkc & Hks & Hlen & Hr).
  destruct r as [k'|e].
  - subst k'. destruct (Nat.eqb_spec k 0) as [Ek|Ek].
    + subst. cbn [firstn skipn app]. repeat split; lia.
    + rewrite slice_fill_cells, write_at_0, slice_fill_vlen by lia.
      rewrite Hlen. subst bs src1. cbn [plus]. repeat split; try lia.
  - subst. repeat split; reflexivity.
Qed.

(* ---------------------------------------------------------------------- *)
(* in-memory writers: Vec<u8> has file semantics                           *)

(* what a file holding [l] contains after pwrite(bs, pos): a hole is zero-filled *)
Definition file_write (l : list byte) (pos : nat) (bs : list byte) : list byte :=
  let l' := l ++ repeat 0%N (pos - length l) in
  firstn pos l' ++ bs ++ skipn (pos + length bs) l'.

Lemma vextend_spec v bs :
  wf v -> wf (vextend v bs) /\ vinit (vextend v bs) = vinit v ++ bs /\
          vlen (vextend v bs) = vlen v + length bs.
Proof.
  intros Hwf. unfold vextend.
  destruct (vreserve_spec v (length bs) Hwf) as (Hw1 & Hl1 & Hi1 & Hroom & _).
  set (v1 := vreserve v (length bs)) in *.
  assert (Hfit : vlen v1 + length bs <= vcap v1) by (unfold wf in Hw1; lia).
  assert (E : mkvec (write_at (cells v1) (vlen v1) bs) (vlen v1 + length bs)
              = slice_fill v1 (vlen v1) bs).
  { unfold slice_fill. f_equal. replace (vlen v1 - vlen v1) with 0 by lia.
    destruct (Nat.ltb_spec 0 (length bs)); lia. }
  rewrite E. split.
  - unfold wf. rewrite slice_fill_vcap, slice_fill_vlen by lia. lia.
  - split; [rewrite vinit_slice_fill_end by assumption; congruence|].
    rewrite slice_fill_vlen by lia. lia.
Qed.

Theorem vec_write_appends d bs :
  wf d -> let '(k, d') := vec_write d bs in
          k = length bs /\ wf d' /\ vinit d' = vinit d ++ bs.
Proof.
  intros Hwf. unfold vec_write. destruct (vextend_spec d bs Hwf) as (H1 & H2 & _). auto.
Qed.

Lemma fold_vextend_spec : forall bss d,
  wf d -> wf (fold_left vextend bss d) /\
          vinit (fold_left vextend bss d) = vinit d ++ concat bss.
Proof.
  induction bss as [|bs bss IH]; intros d Hwf; cbn [fold_left concat].
  - rewrite app_nil_r. auto.
  - destruct (vextend_spec d bs Hwf) as (H1 & H2 & _).
    destruct (IH (vextend d bs) H1) as (H3 & H4). split; [exact H3|].
    rewrite H4, H2, app_assoc. reflexivity.
Qed.

(* the vectored write is the sequential composition of the single writes:
   it appends the concatenation, for every destination and every list of
   buffers (no subtraction, no panic: the functions are total) *)
Theorem vec_write_vectored_is_concat d bss :
  wf d -> let '(k, d') := vec_write_vectored d bss in
          k = length (concat bss) /\ wf d' /\ vinit d' = vinit d ++ concat bss.
Proof.
  intros Hwf. unfold vec_write_vectored.
  destruct (vreserve_spec d (length (concat bss)) Hwf) as (Hw1 & _ & Hi1 & _).
  destruct (fold_vextend_spec bss _ Hw1) as (H1 & H2).
  split; [reflexivity|]. split; [exact H1|]. rewrite H2, Hi1. reflexivity.
Qed.

(* <[u8] as AsyncWriteAt>::write_at on a fixed slice: clamped, never grows *)
Theorem slice_write_at_spec dst bs pos :
  let '(n, d') := slice_write_at dst bs pos in
  length d' = length dst /\ n <= length bs /\
  n = Nat.min (length bs) (length dst - Nat.min pos (length dst)) /\
  d' = write_at dst (Nat.min pos (length dst)) (firstn n bs).
Proof.
  unfold slice_write_at. cbv zeta.
  set (p := Nat.min pos (length dst)). set (n := Nat.min (length bs) (length dst - p)).
  split; [|split; [lia|split; reflexivity]].
  apply write_at_length. rewrite firstn_length. lia.
Qed.

(* <[u8] as AsyncReadAt>::read_at: position clamped, never a panic *)
Theorem mem_read_at_spec this v pos :
  wf v ->
  let '(k, v') := mem_read_at this v pos in
  let s := skipn (Nat.min pos (length this)) this in
  k = Nat.min (length s) (vcap v) /\
  cells v' = firstn k s ++ skipn k (cells v) /\ vlen v' = Nat.max (vlen v) k.
Proof.
  intros Hwf. unfold mem_read_at.
  pose proof (slice_to_vec_spec (skipn (Nat.min pos (length this)) this) v Hwf) as H.
  destruct (slice_to_vec (skipn (Nat.min pos (length this)) this) v) as [k v'].
  destruct H as (H1 & H2 & H3 & _). auto.
Qed.

(* vectored in-memory read into fresh members: the members receive, in order,
   consecutive pieces of the source; their concatenation is its prefix *)
Lemma fill_members_spec : forall ms this,
  Forall (fun m => vlen m = 0) ms ->
  concat (map vinit (fill_members this ms)) = firstn (total_cap ms) this /\
  map vcap (fill_members this ms) = map vcap ms.
Proof.
  induction ms as [|m ms IH]; intros this Hf; cbn [fill_members map concat total_cap fold_right].
  - cbn. split; reflexivity.
  - inversion Hf as [|? ? Hm Hms]; subst.
    destruct (IH (skipn (Nat.min (length this) (vcap m)) this) Hms) as (IH1 & IH2).
    set (k := Nat.min (length this) (vcap m)) in *.
    fold (total_cap ms).
    destruct (Nat.eqb_spec k 0) as [E|E].
    + rewrite IH1, IH2. split; [|reflexivity].
      unfold vinit. rewrite Hm. cbn [firstn app]. rewrite E. cbn [skipn].
      assert (Hz : length this = 0 \/ vcap m = 0) by lia. destruct Hz as [Hz|Hz].
      * apply length_zero_iff_nil in Hz. subst. rewrite !firstn_nil. reflexivity.
      * rewrite Hz. reflexivity.
    + rewrite IH1, IH2. split.
      * unfold vinit at 1. cbn [cells vlen]. rewrite write_at_0.
        assert (Hl : length (firstn k this) = k) by (rewrite firstn_length; lia).
        rewrite <- Hl at 1. rewrite (firstn_app_exact0 _ _ _ eq_refl).
        destruct (Nat.lt_ge_cases (length this) (vcap m)) as [Hlt|Hge].
        -- replace k with (length this) by lia. rewrite skipn_all. rewrite firstn_nil, app_nil_r.
           rewrite firstn_all. rewrite firstn_all2 by lia. reflexivity.
        -- replace k with (vcap m) by lia. apply firstn_add_skipn.
      * f_equal. unfold vcap. cbn [cells]. apply write_at_length. cbn. rewrite firstn_length.
        unfold vcap in *. lia.
Qed.

(* ---------------------------------------------------------------------- *)
(* Vec<u8>::write_at / write_vectored_at = pwrite on a file                 *)

Lemma file_write_inside l pos bs :
  pos <= length l ->
  file_write l pos bs = firstn pos l ++ bs ++ skipn (pos + length bs) l.
Proof.
  intros H. unfold file_write. replace (pos - length l) with 0 by lia.
  cbn [repeat]. rewrite app_nil_r. reflexivity.
Qed.

Lemma file_write_beyond l pos bs :
  length l <= pos ->
  file_write l pos bs = l ++ repeat 0%N (pos - length l) ++ bs.
Proof.
  intros H. unfold file_write.
  set (l' := l ++ repeat 0%N (pos - length l)).
  assert (Hl : length l' = pos) by (unfold l'; rewrite app_length, repeat_length; lia).
  rewrite firstn_all2 by lia. rewrite skipn_all2 by lia. rewrite app_nil_r.
  unfold l'. rewrite <- app_assoc. reflexivity.
Qed.

Lemma firstn_write_at (c : list byte) off bs n :
  off + length bs <= n -> n <= length c ->
  firstn n (write_at c off bs) = write_at (firstn n c) off bs.
Proof.
  intros H1 H2. unfold write_at.
  rewrite firstn_firstn. replace (Nat.min off n) with off by lia.
  rewrite skipn_firstn_comm.
  assert (Hx : length (firstn off c) = off) by (rewrite firstn_length; lia).
  replace n with (off + (n - off)) at 1 by lia.
  rewrite (firstn_app_exact _ _ off (n - off) Hx). f_equal.
  replace (n - off) with (length bs + (n - (off + length bs))) by lia.
  rewrite (firstn_app_exact bs _ (length bs) _ eq_refl). reflexivity.
Qed.

Lemma overwrite_inside_spec d pos bs :
  wf d -> pos + length bs <= vlen d ->
  let d' := mkvec (write_at (cells d) pos bs) (vlen d) in
  wf d' /\ vinit d' = file_write (vinit d) pos bs /\ vlen d' = vlen d.
Proof.
  intros Hwf Hfit. cbv zeta. unfold wf, vcap, vinit in *. cbn [cells vlen].
  rewrite write_at_length by lia. split; [exact Hwf|]. split; [|reflexivity].
  rewrite firstn_write_at by lia.
  rewrite file_write_inside by (rewrite firstn_length; lia). reflexivity.
Qed.

(* one piece written at [pos <= len]: the loop body of write_vectored_at and
   the first branch of write_at (without the reserve) *)
Definition write_piece (d : vec) (bs : list byte) (pos : nat) : vec :=
  let n := Nat.min (length bs) (vlen d - pos) in
  if Nat.ltb n (length bs)
  then vextend (mkvec (write_at (cells d) pos (firstn n bs)) (vlen d)) (skipn n bs)
  else mkvec (write_at (cells d) pos bs) (vlen d).

Lemma write_piece_spec d bs pos :
  wf d -> pos <= vlen d ->
  wf (write_piece d bs pos) /\
  vinit (write_piece d bs pos) = file_write (vinit d) pos bs /\
  pos + length bs <= vlen (write_piece d bs pos).
Proof.
  intros Hwf Hpos. unfold write_piece.
  set (n := Nat.min (length bs) (vlen d - pos)).
  pose proof (vinit_length d Hwf) as Hil.
  destruct (Nat.ltb_spec n (length bs)) as [Hlt|Hge].
  - assert (Hn : n = vlen d - pos) by lia.
    assert (Hfl : length (firstn n bs) = n) by (rewrite firstn_length; lia).
    destruct (overwrite_inside_spec d pos (firstn n bs) Hwf ltac:(lia)) as (Hw2 & Hi2 & Hl2).
    set (d2 := mkvec (write_at (cells d) pos (firstn n bs)) (vlen d)) in *.
    destruct (vextend_spec d2 (skipn n bs) Hw2) as (Hw3 & Hi3 & Hl3).
    split; [exact Hw3|]. split.
    + rewrite Hi3, Hi2. rewrite !file_write_inside by lia.
      rewrite Hfl. rewrite (skipn_all2 (vinit d)) by lia.
      rewrite (skipn_all2 (vinit d)) by lia. rewrite !app_nil_r.
      rewrite <- app_assoc. rewrite firstn_skipn. reflexivity.
    + rewrite Hl3, Hl2, skipn_length. lia.
  - destruct (overwrite_inside_spec d pos bs Hwf ltac:(lia)) as (Hw2 & Hi2 & Hl2).
    split; [exact Hw2|]. split; [exact Hi2|]. rewrite Hl2. lia.
Qed.

(* Vec<u8>::write_at has file semantics for every position, inside, at the end
   or beyond the end (the hole is zero-filled); it never panics *)
Theorem vec_write_at_file d bs pos :
  wf d ->
  let '(k, d') := vec_write_at d bs pos in
  k = length bs /\ wf d' /\ vinit d' = file_write (vinit d) pos bs.
Proof.
  intros Hwf. unfold vec_write_at.
  pose proof (vinit_length d Hwf) as Hil.
  destruct (Nat.leb_spec pos (vlen d)) as [Hin|Hout].
  - set (n := Nat.min (length bs) (vlen d - pos)).
    destruct (Nat.ltb_spec n (length bs)) as [Hlt|Hge].
    + destruct (vreserve_spec d (length bs - n) Hwf) as (Hw1 & Hl1 & Hi1 & _).
      set (d1 := vreserve d (length bs - n)) in *.
      pose proof (write_piece_spec d1 bs pos Hw1 ltac:(lia)) as Hp.
      unfold write_piece in Hp. rewrite Hl1 in Hp. fold n in Hp.
      destruct (Nat.ltb_spec n (length bs)); [|lia].
      destruct Hp as (H1 & H2 & _). rewrite Hl1. rewrite Hi1 in H2. auto.
    + destruct (overwrite_inside_spec d pos bs Hwf ltac:(lia)) as (Hw2 & Hi2 & _). auto.
  - destruct (vreserve_spec d (pos - vlen d + length bs) Hwf) as (Hw1 & Hl1 & Hi1 & _).
    set (d1 := vreserve d (pos - vlen d + length bs)) in *.
    unfold vresize0.
    destruct (vextend_spec d1 (repeat 0%N (pos - vlen d1)) Hw1) as (Hw2 & Hi2 & _).
    destruct (vextend_spec _ bs Hw2) as (Hw3 & Hi3 & _).
    split; [reflexivity|]. split; [exact Hw3|].
    rewrite Hi3, Hi2, Hi1, Hl1. rewrite file_write_beyond by lia.
    rewrite Hil, <- app_assoc. reflexivity.
Qed.

Lemma file_write_seq l pos b1 b2 :
  pos <= length l ->
  file_write (file_write l pos b1) (pos + length b1) b2 = file_write l pos (b1 ++ b2).
Proof.
  intros H.
  rewrite (file_write_inside l pos b1 H).
  set (X := firstn pos l).
  assert (Hx : length X = pos) by (unfold X; rewrite firstn_length; lia).
  assert (Hxb : length (X ++ b1) = pos + length b1) by (rewrite app_length; lia).
  rewrite file_write_inside by (rewrite !app_length; lia).
  rewrite (file_write_inside l pos (b1 ++ b2) H). fold X.
  rewrite !(app_assoc X b1 (skipn (pos + length b1) l)).
  rewrite (firstn_app_exact0 _ _ _ Hxb).
  rewrite (skipn_app_exact _ _ _ (length b2) Hxb). rewrite skipn_skipn'.
  rewrite app_length, <- !app_assoc. do 3 f_equal. f_equal. lia.
Qed.

Lemma vec_write_vectored_at_loop_spec : forall bss d pos,
  wf d -> pos <= vlen d ->
  wf (vec_write_vectored_at_loop d bss pos) /\
  vinit (vec_write_vectored_at_loop d bss pos) = file_write (vinit d) pos (concat bss).
Proof.
  induction bss as [|bs bss IH]; intros d pos Hwf Hpos; cbn [vec_write_vectored_at_loop concat].
  - split; [exact Hwf|]. rewrite file_write_inside by (rewrite vinit_length by exact Hwf; lia).
    cbn [app length]. rewrite Nat.add_0_r. symmetry. apply firstn_skipn.
  - destruct (Nat.leb_spec pos (vlen d)); [|lia].
    pose proof (write_piece_spec d bs pos Hwf Hpos) as (Hw & Hi & Hl).
    unfold write_piece in Hw, Hi, Hl.
    destruct (IH _ (pos + length bs) Hw Hl) as (H1 & H2).
    split; [exact H1|]. rewrite H2, Hi.
    apply file_write_seq. rewrite vinit_length by exact Hwf. exact Hpos.
Qed.

(* Vec<u8>::write_vectored_at = write_at of the concatenation: the vectored
   form is the sequential composition of the single-buffer writes, for every
   destination, every position and every list of buffers; no panic *)
Theorem vec_write_vectored_at_file d bss pos :
  wf d ->
  let '(k, d') := vec_write_vectored_at d bss pos in
  k = length (concat bss) /\ wf d' /\ vinit d' = file_write (vinit d) pos (concat bss).
Proof.
  intros Hwf. unfold vec_write_vectored_at.
  pose proof (vinit_length d Hwf) as Hil.
  split; [reflexivity|].
  destruct (Nat.leb_spec pos (vlen d)) as [Hin|Hout].
  - destruct (vreserve_spec d (length (concat bss) - (vlen d - pos)) Hwf) as (Hw1 & Hl1 & Hi1 & _).
    destruct (vec_write_vectored_at_loop_spec bss _ pos Hw1 ltac:(lia)) as (H1 & H2).
    split; [exact H1|]. rewrite H2, Hi1. reflexivity.
  - destruct (vreserve_spec d (pos - vlen d + length (concat bss)) Hwf) as (Hw1 & Hl1 & Hi1 & _).
    set (d1 := vreserve d (pos - vlen d + length (concat bss))) in *.
    unfold vresize0.
    destruct (vextend_spec d1 (repeat 0%N (pos - vlen d1)) Hw1) as (Hw2 & Hi2 & Hl2).
    destruct (vec_write_vectored_at_loop_spec bss _ pos Hw2
                ltac:(rewrite Hl2, repeat_length; lia)) as (H1 & H2).
    split; [exact H1|]. rewrite H2, Hi2, Hi1, Hl1.
    rewrite file_write_inside by (rewrite app_length, repeat_length; lia).
    rewrite file_write_beyond by lia.
    assert (Hlen : length (vinit d ++ repeat 0%N (pos - vlen d)) = pos)
      by (rewrite app_length, repeat_length; lia).
    rewrite firstn_all2 by lia. rewrite skipn_all2 by lia.
    rewrite app_nil_r, Hil, <- app_assoc. reflexivity.
Qed.
