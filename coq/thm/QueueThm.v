(* QueueThm.v — the tick loop of Queue.v: what a tick runs, in which order. *)
From Compio.Model Require Import Base Queue.
Local Open Scope nat_scope.

Section Iter.
  Context {W : Type} (run : W -> nat -> W * list qop * bool).

  (* the list of tasks run only grows *)
  Lemma iter_ran_incl : forall fuel cur q w ran q' w' ran',
    iter run fuel cur q w ran = Ok (q', w', ran') -> incl ran ran'.
  Proof.
    induction fuel as [|f IH]; intros cur q w ran q' w' ran' H; cbn in H.
    - injection H as <- <- <-. apply incl_refl.
    - destruct cur as [c|]; [|injection H as <- <- <-; apply incl_refl].
      destruct (next_hot q c) as [nxt|]; cbn in H; [|discriminate].
      destruct (make_cold q c) as [q1|]; cbn in H; [|discriminate].
      destruct (take q1 c) as [q2|]; cbn in H; [|discriminate].
      destruct (run w c) as [[w1 ops] ready].
      destruct ready.
      + apply IH in H. intros x Hx. apply H. apply in_or_app. left; exact Hx.
      + destruct (reset (apply_ops q2 ops) c) as [q4|]; cbn in H; [|discriminate].
        apply IH in H. intros x Hx. apply H. apply in_or_app. left; exact Hx.
  Qed.

  (* a tick runs at most max_interval tasks *)
  Lemma iter_ran_length : forall fuel cur q w ran q' w' ran',
    iter run fuel cur q w ran = Ok (q', w', ran') -> length ran' <= length ran + fuel.
  Proof.
    induction fuel as [|f IH]; intros cur q w ran q' w' ran' H; cbn in H.
    - injection H as <- <- <-. lia.
    - destruct cur as [c|]; [|injection H as <- <- <-; lia].
      destruct (next_hot q c) as [nxt|]; cbn in H; [|discriminate].
      destruct (make_cold q c) as [q1|]; cbn in H; [|discriminate].
      destruct (take q1 c) as [q2|]; cbn in H; [|discriminate].
      destruct (run w c) as [[w1 ops] ready].
      destruct ready.
      + apply IH in H. rewrite app_length in H. cbn in H. lia.
      + destruct (reset (apply_ops q2 ops) c) as [q4|]; cbn in H; [|discriminate].
        apply IH in H. rewrite app_length in H. cbn in H. lia.
  Qed.

  (* the head of the hot list runs in this tick, whatever the tasks do *)
  Lemma tick_runs_head : forall mi q w x q' w' ran,
    1 <= mi -> nth_error (qhot q) 0 = Some x ->
    tick run mi q w = Ok (q', w', ran) -> In x ran /\ length ran <= mi.
  Proof.
    intros mi q w x q' w' ran Hmi Hx H. unfold tick in H.
    split; [|apply iter_ran_length in H; cbn in H; exact H].
    destruct mi as [|f]; [lia|].
    unfold hot_head in H. destruct (qhot q) as [|c t] eqn:Eh; [discriminate Hx|].
    cbn in Hx. injection Hx as ->. cbn [hd_error] in H. cbn [iter] in H.
    destruct (next_hot q x) as [nxt|]; cbn in H; [|discriminate].
    destruct (make_cold q x) as [q1|]; cbn in H; [|discriminate].
    destruct (take q1 x) as [q2|]; cbn in H; [|discriminate].
    destruct (run w x) as [[w1 ops] ready].
    destruct ready.
    - apply iter_ran_incl in H. apply H. left; reflexivity.
    - destruct (reset (apply_ops q2 ops) x) as [q4|]; cbn in H; [|discriminate].
      apply iter_ran_incl in H. apply H. left; reflexivity.
  Qed.
End Iter.
