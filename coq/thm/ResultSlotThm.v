(* ResultSlotThm.v — facts about the result slot / waker discipline (C02). *)
From Compio.Model Require Import Base ResultSlot.

Lemma set_waker_pending o w : set_waker (SPending o) w = SPending (Some w).
Proof.
  destruct o as [w0|]; cbn [set_waker]; [|reflexivity].
  destruct (N.eqb_spec w0 w) as [->|_]; reflexivity.
Qed.

Lemma set_wakers_pending ws : forall o, exists o', set_wakers (SPending o) ws = SPending o'.
Proof.
  induction ws as [|w ws IH]; intros o; cbn [set_wakers fold_left].
  - exists o. reflexivity.
  - rewrite set_waker_pending. apply IH.
Qed.

(* the stored waker is the one registered LAST, however many were registered before *)
Theorem set_wakers_last o ws w :
  set_wakers (SPending o) (ws ++ [w]) = SPending (Some w).
Proof.
  unfold set_wakers. rewrite fold_left_app. cbn [fold_left].
  destruct (set_wakers_pending ws o) as [o' H]. unfold set_wakers in H. rewrite H.
  apply set_waker_pending.
Qed.

(* ... and it is the one the completion invokes *)
Theorem completion_wakes_latest o ws w r :
  set_result (set_wakers (SPending o) (ws ++ [w])) r = Some (SReady r, Some w).
Proof. rewrite set_wakers_last. reflexivity. Qed.

(* registering a waker never disturbs a stored result *)
Theorem set_waker_keeps_result r w : set_waker (SReady r) w = SReady r.
Proof. reflexivity. Qed.

(* one result per operation, handed out once, and it is the value stored *)
Theorem result_exactly_once s r s' w :
  set_result s r = Some (s', w) ->
  (forall r', set_result s' r' = None) /\
  take_result s' = Some (STaken, r) /\
  take_result STaken = None /\
  (forall w', take_result (set_waker s' w') = Some (STaken, r)).
Proof.
  destruct s as [o|r0|]; cbn [set_result]; intros H; try discriminate.
  inversion H; subst. repeat split; reflexivity.
Qed.

(* nothing can be taken before the completion *)
Theorem take_pending_rejected o ws : take_result (set_wakers (SPending o) ws) = None.
Proof. destruct (set_wakers_pending ws o) as [o' ->]. reflexivity. Qed.

(* acceptor: after a completion on a slot holding waker w, the invocation of w is
   owed; no further driver-thread event is accepted before it is observed, and
   observing it discharges the debt *)
Theorem wake_is_owed s k r w :
  owed s = None -> lookup (slots s) k = SPending (Some w) ->
  exists s', wstep s 6 k r = Some s' /\ owed s' = Some w /\
    (forall kind key arg, wstrict kind = true -> wstep s' kind key arg = None) /\
    (exists s'', wstep s' 109 w 0 = Some s'' /\ owed s'' = None).
Proof.
  intros Ho Hl. unfold wstep at 1. cbn [N.eqb Pos.eqb]. rewrite Ho, Hl. cbn [set_result].
  eexists. split; [reflexivity|]. cbn [owed]. split; [reflexivity|]. split.
  - intros kind key arg Hk. unfold wstep. cbn [owed].
    destruct (N.eqb_spec kind 109) as [->|_]; [discriminate Hk|]. rewrite Hk. reflexivity.
  - unfold wstep. cbn [N.eqb Pos.eqb owed]. rewrite N.eqb_refl. eexists. split; reflexivity.
Qed.

(* a history that ends with a wake still owed is not accepted *)
Theorem owed_at_end_rejected l s :
  wreplay winit l (length l) 0 = inl s -> owed s <> None -> waccept l <> None.
Proof.
  intros H Ho. unfold waccept. rewrite H. destruct (owed s); [discriminate|contradiction].
Qed.

Example wakers_replaced_example :
  waccept [108; 0; 1;  108; 0; 2;  6; 0; 7;  109; 2; 0]%N = None /\
  waccept [108; 0; 1;  108; 0; 2;  6; 0; 7;  109; 1; 0]%N <> None /\
  waccept [108; 0; 1;  6; 0; 7;  101; 0; 1]%N <> None.
Proof. repeat split; vm_compute; discriminate. Qed.
