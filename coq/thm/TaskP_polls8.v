(* generated layout: one invariant group / structural fact, one part of the labels (TaskThm.v) *)
From Compio.Model Require Import Base Task.
From Compio.Thm Require Import TaskThm.
Local Open Scope nat_scope.
Local Opaque Nat.ltb Nat.eqb Nat.leb.

Lemma polls_only_exec_8 s l s' : part l = 8 -> step fixed s l = Some s' -> polls s' <> polls s -> l = EPollBegin.
Proof.
  intros Hp Hs. pres_start_part s l Hs Hp; cbn; intros Hne; try reflexivity; exfalso; apply Hne; reflexivity.
Qed.

