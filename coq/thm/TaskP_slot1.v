(* generated layout: one invariant group / structural fact, one part of the labels (TaskThm.v) *)
From Compio.Model Require Import Base Task.
From Compio.Thm Require Import TaskThm.
Local Open Scope nat_scope.
Local Opaque Nat.ltb Nat.eqb Nat.leb.

Lemma slot_pres_1 s l s' : part l = 1 -> Grc s -> Gres s -> Gcanc s -> Gslot s -> step fixed s l = Some s' -> Gslot s'.
Proof.
  intros Hp. intros HR HS HC HI Hs. pres_start_part s l Hs Hp.
  all: destruct HR; destruct HS; destruct HC; destruct HI; constructor; unf; cbn in *.
  all: try assumption.
  all: fin2.
Qed.
