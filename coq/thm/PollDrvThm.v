(* PollDrvThm.v — the per-descriptor queues of the polling driver (C01/C02/C05). *)
From Compio.Model Require Import Base PollDrv.

(* ---- association lists ---- *)
Lemma alookup_aremove_same {A} (m : list (nat * A)) k : alookup (aremove m k) k = None.
Proof.
  induction m as [|[k0 v] m IH]; cbn [aremove alookup]; [reflexivity|].
  destruct (Nat.eqb k0 k) eqn:E; [exact IH|]. cbn [alookup]. rewrite E. exact IH.
Qed.

Lemma alookup_aremove_other {A} (m : list (nat * A)) k k' :
  k' <> k -> alookup (aremove m k) k' = alookup m k'.
Proof.
  intros Hn. induction m as [|[k0 v] m IH]; cbn [aremove alookup]; [reflexivity|].
  destruct (Nat.eqb k0 k) eqn:E.
  - apply Nat.eqb_eq in E. subst k0.
    destruct (Nat.eqb k k') eqn:E2; [apply Nat.eqb_eq in E2; congruence|exact IH].
  - cbn [alookup]. destruct (Nat.eqb k0 k'); [reflexivity|exact IH].
Qed.

Lemma alookup_aset_same {A} (m : list (nat * A)) k v : alookup (aset m k v) k = Some v.
Proof. unfold aset. cbn [alookup]. rewrite Nat.eqb_refl. reflexivity. Qed.

Lemma alookup_aset_other {A} (m : list (nat * A)) k v k' :
  k' <> k -> alookup (aset m k v) k' = alookup m k'.
Proof.
  intros Hn. unfold aset. cbn [alookup].
  destruct (Nat.eqb k k') eqn:E; [apply Nat.eqb_eq in E; congruence|].
  apply alookup_aremove_other. exact Hn.
Qed.

(* ---- fd_ok only looks at the registry and the poller for that descriptor ---- *)
Lemma fd_ok_ext s1 s2 fd :
  alookup (reg s2) fd = alookup (reg s1) fd ->
  alookup (pol s2) fd = alookup (pol s1) fd ->
  fd_ok s1 fd -> fd_ok s2 fd.
Proof. unfold fd_ok. intros E1 E2 H. rewrite E1, E2. exact H. Qed.

Lemma get_q_set s fd q : get_q (set_reg s (aset (reg s) fd q)) fd = q.
Proof. unfold get_q, set_reg. cbn [reg]. rewrite alookup_aset_same. reflexivity. Qed.

Lemma push_nonempty q k d (fr : bool) :
  q_empty (if fr then push_front q k d else push_back q k d) = false.
Proof.
  destruct q as [r w]; destruct fr; destruct d; unfold q_empty, push_front, push_back; cbn [rq wq];
    try reflexivity; destruct r; destruct w; reflexivity.
Qed.

(* ---- each primitive establishes fd_ok at its descriptor, keeps it elsewhere ---- *)
Lemma arm_fd_ok s fd fd' q :
  alookup (reg s) fd = Some q -> q_empty q = false ->
  (fd' = fd \/ fd_ok s fd') -> fd_ok (fst (arm s fd)) fd'.
Proof.
  intros Hq Hne H. unfold arm. cbn [fst].
  destruct (Nat.eq_dec fd' fd) as [->|Hn].
  - unfold fd_ok, set_pol. cbn [reg pol]. rewrite Hq. split; [exact Hne|].
    rewrite alookup_aset_same. unfold get_q. rewrite Hq. reflexivity.
  - destruct H as [H|H]; [contradiction|].
    eapply fd_ok_ext; [| |exact H]; unfold set_pol; cbn [reg pol]; [reflexivity|].
    apply alookup_aset_other. exact Hn.
Qed.

Lemma submit_fd_ok s k fd d fr fd' :
  (fd' = fd \/ fd_ok s fd') -> fd_ok (fst (submit s k fd d fr)) fd'.
Proof.
  intros H. unfold submit.
  eapply arm_fd_ok.
  - unfold set_reg. cbn [reg]. apply alookup_aset_same.
  - apply push_nonempty.
  - destruct H as [H|H]; [left; exact H|].
    destruct (Nat.eq_dec fd' fd) as [->|Hn]; [left; reflexivity|right].
    eapply fd_ok_ext; [| |exact H]; unfold set_reg; cbn [reg pol]; [|reflexivity].
    apply alookup_aset_other. exact Hn.
Qed.

Lemma set_trk_fd_ok s t fd : fd_ok s fd -> fd_ok (set_trk s t) fd.
Proof. apply fd_ok_ext; reflexivity. Qed.

Lemma submit_all_fd_ok k fr args : forall s fd',
  (In fd' (map fst args) \/ fd_ok s fd') -> fd_ok (fst (submit_all s k args fr)) fd'.
Proof.
  induction args as [|[fd d] args IH]; intros s fd' H; cbn [submit_all].
  - destruct H as [[]|H]. exact H.
  - destruct (submit s k fd d fr) as [s1 c1] eqn:E1.
    destruct (submit_all s1 k args fr) as [s2 c2] eqn:E2. cbn [fst].
    change s2 with (fst (s2, c2)). rewrite <- E2.
    apply IH. cbn [map fst In] in H.
    destruct H as [[H|H]|H].
    + right. change s1 with (fst (s1, c1)). rewrite <- E1. apply submit_fd_ok. left. auto.
    + left. exact H.
    + right. change s1 with (fst (s1, c1)). rewrite <- E1. apply submit_fd_ok. right. exact H.
Qed.

Lemma push_arg_fd_ok s k fd d fd' :
  (fd' = fd \/ fd_ok s fd') -> fd_ok (fst (push_arg s k fd d)) fd'.
Proof.
  intros H. unfold push_arg. apply submit_fd_ok.
  destruct H as [H|H]; [left; exact H|right; apply set_trk_fd_ok; exact H].
Qed.

Lemma push_op_fd_ok k args : forall s fd',
  fd_ok s fd' -> fd_ok (fst (push_op s k args)) fd'.
Proof.
  induction args as [|[fd d] args IH]; intros s fd' H; cbn [push_op]; [exact H|].
  destruct (push_arg s k fd d) as [s1 c1] eqn:E1.
  destruct (push_op s1 k args) as [s2 c2] eqn:E2. cbn [fst].
  change s2 with (fst (s2, c2)). rewrite <- E2. apply IH.
  change s1 with (fst (s1, c1)). rewrite <- E1. apply push_arg_fd_ok. right. exact H.
Qed.

Lemma get_q_nonempty_lookup s fd :
  q_empty (get_q s fd) = false -> alookup (reg s) fd = Some (get_q s fd).
Proof.
  unfold get_q. destruct (alookup (reg s) fd) as [q|]; [reflexivity|].
  cbn. discriminate.
Qed.

Lemma renew_fd_ok s fd fd' :
  (fd' = fd \/ fd_ok s fd') -> fd_ok (fst (renew s fd)) fd'.
Proof.
  intros H. unfold renew. destruct (q_empty (get_q s fd)) eqn:E.
  - cbn [fst]. destruct (Nat.eq_dec fd' fd) as [->|Hn].
    + unfold fd_ok. cbn [reg pol]. rewrite !alookup_aremove_same. reflexivity.
    + destruct H as [H|H]; [contradiction|].
      eapply fd_ok_ext; [| |exact H]; cbn [reg pol]; apply alookup_aremove_other; exact Hn.
  - eapply arm_fd_ok; [apply get_q_nonempty_lookup; exact E|exact E|exact H].
Qed.

Lemma set_reg_fd_ok_other s fd q fd' :
  fd' <> fd -> fd_ok s fd' -> fd_ok (set_reg s (aset (reg s) fd q)) fd'.
Proof.
  intros Hn. apply fd_ok_ext; unfold set_reg; cbn [reg pol]; [|reflexivity].
  apply alookup_aset_other. exact Hn.
Qed.

Lemma remove_one_fd_ok s k fd fd' :
  fd_ok s fd' -> fd_ok (fst (remove_one s k fd)) fd'.
Proof.
  intros H. unfold remove_one. destruct (alookup (reg s) fd) as [q|]; [|exact H].
  apply renew_fd_ok. destruct (Nat.eq_dec fd' fd) as [->|Hn]; [left; reflexivity|right].
  apply set_reg_fd_ok_other; assumption.
Qed.

Lemma remove_all_fd_ok k fds : forall s fd',
  fd_ok s fd' -> fd_ok (fst (remove_all s k fds)) fd'.
Proof.
  induction fds as [|fd fds IH]; intros s fd' H; cbn [remove_all]; [exact H|].
  destruct (remove_one s k fd) as [s1 c1] eqn:E1.
  destruct (remove_all s1 k fds) as [s2 c2] eqn:E2. cbn [fst].
  change s2 with (fst (s2, c2)). rewrite <- E2. apply IH.
  change s1 with (fst (s1, c1)). rewrite <- E1. apply remove_one_fd_ok. exact H.
Qed.

(* p_pop disturbs only the event's descriptor *)
Lemma p_pop_fd_ok_other s fd r w fd' :
  fd' <> fd -> fd_ok s fd' -> fd_ok (fst (p_pop s fd r w)) fd'.
Proof.
  intros Hn H. unfold p_pop.
  set (s0 := set_pol s (aremove (pol s) fd)).
  assert (H0 : fd_ok s0 fd').
  { eapply fd_ok_ext; [| |exact H]; unfold s0, set_pol; cbn [reg pol]; [reflexivity|].
    apply alookup_aremove_other. exact Hn. }
  destruct (pop_interest (get_q s0 fd) r w) as [[[k d] q']|]; cbn [fst]; [|exact H0].
  apply set_trk_fd_ok. apply set_reg_fd_ok_other; assumption.
Qed.

Lemma p_operate_fd_ok s k ready fd' :
  fd_ok s fd' -> fd_ok (fst (fst (p_operate s k ready))) fd'.
Proof.
  intros H. unfold p_operate. destruct ready; cbn [fst]; [apply set_trk_fd_ok; exact H|].
  match goal with |- context [submit_all ?a ?b ?c ?d] =>
    destruct (submit_all a b c d) as [s2 c2] eqn:E2 end.
  cbn [fst]. change s2 with (fst (s2, c2)). rewrite <- E2.
  apply submit_all_fd_ok. right. apply set_trk_fd_ok. exact H.
Qed.

Lemma poll_one_fd_ok s fd r w ready fd' :
  (fd' = fd \/ fd_ok s fd') -> fd_ok (fst (fst (poll_one s fd r w ready))) fd'.
Proof.
  intros H. unfold poll_one.
  assert (Hp : fd' = fd \/ fd_ok (fst (p_pop s fd r w)) fd').
  { destruct (Nat.eq_dec fd' fd) as [->|Hn]; [left; reflexivity|right].
    destruct H as [H|H]; [contradiction|]. apply p_pop_fd_ok_other; assumption. }
  destruct (p_pop s fd r w) as [s1 [k|]]; cbn [fst] in Hp.
  - destruct (all_ready (tracks s1 k)).
    + destruct (p_operate s1 k ready) as [[s2 c1] dn] eqn:E2.
      destruct (renew s2 fd) as [s3 c2] eqn:E3. cbn [fst].
      change s3 with (fst (s3, c2)). rewrite <- E3. apply renew_fd_ok.
      destruct Hp as [Hp|Hp]; [left; exact Hp|right].
      change s2 with (fst (fst (s2, c1, dn))). rewrite <- E2. apply p_operate_fd_ok. exact Hp.
    + destruct (renew s1 fd) as [s2 c] eqn:E2. cbn [fst].
      change s2 with (fst (s2, c)). rewrite <- E2. apply renew_fd_ok. exact Hp.
  - destruct (renew s1 fd) as [s2 c] eqn:E2. cbn [fst].
    change s2 with (fst (s2, c)). rewrite <- E2. apply renew_fd_ok. exact Hp.
Qed.

(* ---- the invariant holds in every reachable state ---- *)
Lemma pinit_inv : PInv pinit.
Proof. intros fd. unfold fd_ok, pinit. reflexivity. Qed.

Theorem pstep_inv s o : PInv s -> PInv (pstep s o).
Proof.
  intros H fd'. destruct o as [k args|k fds|fd r w ready]; cbn [pstep].
  - apply push_op_fd_ok. apply H.
  - apply remove_all_fd_ok. apply H.
  - apply poll_one_fd_ok. right. apply H.
Qed.

Theorem reachable_pinv os : PInv (fold_left pstep os pinit).
Proof.
  assert (G : forall s, PInv s -> PInv (fold_left pstep os s)).
  { induction os as [|o os IH]; intros s H; cbn [fold_left]; [exact H|].
    apply IH. apply pstep_inv. exact H. }
  apply G. exact pinit_inv.
Qed.

(* what the invariant gives: a descriptor with waiting operations is armed (no lost
   readiness), for exactly the directions that have waiters, and the user data the
   poller holds is an operation that IS queued on that descriptor (never a stale or
   foreign one) *)
Theorem armed_iff_waiting s fd :
  PInv s ->
  match alookup (pol s) fd with
  | Some a =>
    let q := get_q s fd in
    (a_r a = true <-> rq q <> []) /\ (a_w a = true <-> wq q <> []) /\
    In (a_key a) (rq q ++ wq q)
  | None => rq (get_q s fd) = [] /\ wq (get_q s fd) = []
  end.
Proof.
  intros H. specialize (H fd). unfold fd_ok in H. unfold get_q.
  destruct (alookup (reg s) fd) as [q|].
  - destruct H as [Hne ->]. destruct q as [[|r0 r] [|w0 w]]; cbn in *;
      try discriminate; repeat split; intros; try discriminate; try congruence; auto.
    + right. apply in_or_app. right. left. reflexivity.
  - rewrite H. split; reflexivity.
Qed.

(* ---- order and spurious readiness (single-descriptor operations) ---------- *)

(* a readiness the head operation cannot use (operate answers Pending) leaves the
   queue, the tracking marks and the registration exactly as they were: the next
   readiness event will be recognised and attempted again, and the order of the
   waiters is unchanged *)
Theorem pending_attempt_is_identity s fd k rest w :
  alookup (reg s) fd = Some (mk_fdq (k :: rest) w) ->
  tracks s k = [mk_track fd Rd false] ->
  let s' := fst (fst (poll_one s fd true false false)) in
  get_q s' fd = mk_fdq (k :: rest) w /\
  tracks s' k = [mk_track fd Rd false] /\
  alookup (pol s') fd = Some (event_of (mk_fdq (k :: rest) w)) /\
  snd (poll_one s fd true false false) = None.
Proof.
  intros Hq Ht. cbv zeta.
  unfold poll_one, p_pop.
  assert (Hg : get_q (set_pol s (aremove (pol s) fd)) fd = mk_fdq (k :: rest) w).
  { unfold get_q, set_pol. cbn [reg]. rewrite Hq. reflexivity. }
  rewrite Hg. unfold pop_interest. cbn [rq wq].
  set (s1 := set_trk _ _).
  assert (Ht1 : tracks s1 k = [mk_track fd Rd true]).
  { unfold s1, tracks, set_trk, set_reg, set_pol. cbn [trk reg pol].
    rewrite alookup_aset_same. unfold tracks in Ht.
    destruct (alookup (trk s) k) as [t|]; [|discriminate]. subst t.
    cbn [mark map t_fd t_dir]. rewrite Nat.eqb_refl. reflexivity. }
  rewrite Ht1. cbn [all_ready forallb t_ready andb].
  unfold p_operate. rewrite Ht1. cbn [reset map t_fd t_dir submit_all].
  set (s2 := set_trk s1 _).
  assert (Hq2 : get_q s2 fd = mk_fdq rest w).
  { unfold s2, s1, get_q, set_trk, set_reg, set_pol. cbn [reg]. rewrite alookup_aset_same. reflexivity. }
  unfold submit. rewrite Hq2. unfold push_front. cbn [rq wq].
  set (s3 := set_reg s2 _).
  assert (Hq3 : get_q s3 fd = mk_fdq (k :: rest) w).
  { unfold s3, get_q, set_reg. cbn [reg]. rewrite alookup_aset_same. reflexivity. }
  unfold arm. rewrite Hq3.
  set (s4 := set_pol s3 _). cbn [app].
  assert (Hq4 : get_q s4 fd = mk_fdq (k :: rest) w) by exact Hq3.
  unfold renew. rewrite Hq4. cbn [q_empty rq wq]. unfold arm. rewrite Hq4.
  cbn [fst snd]. split; [exact Hq4|]. split; [|split; [|reflexivity]].
  - unfold tracks, set_pol, s4, s3, s2, set_trk, set_reg, set_pol. cbn [trk].
    rewrite alookup_aset_same. reflexivity.
  - unfold set_pol. cbn [pol]. rewrite alookup_aset_same. reflexivity.
Qed.

(* first come, first served per direction: a usable readiness completes the operation
   that was queued FIRST, and the others move up in their order *)
Theorem ready_completes_head s fd k rest w :
  alookup (reg s) fd = Some (mk_fdq (k :: rest) w) ->
  tracks s k = [mk_track fd Rd false] ->
  snd (poll_one s fd true false true) = Some k /\
  get_q (fst (fst (poll_one s fd true false true))) fd = mk_fdq rest w.
Proof.
  intros Hq Ht. unfold poll_one, p_pop.
  assert (Hg : get_q (set_pol s (aremove (pol s) fd)) fd = mk_fdq (k :: rest) w).
  { unfold get_q, set_pol. cbn [reg]. rewrite Hq. reflexivity. }
  rewrite Hg. unfold pop_interest. cbn [rq wq].
  set (s1 := set_trk _ _).
  assert (Ht1 : tracks s1 k = [mk_track fd Rd true]).
  { unfold s1, tracks, set_trk, set_reg, set_pol. cbn [trk reg pol].
    rewrite alookup_aset_same. unfold tracks in Ht.
    destruct (alookup (trk s) k) as [t|]; [|discriminate]. subst t.
    cbn [mark map t_fd t_dir]. rewrite Nat.eqb_refl. reflexivity. }
  rewrite Ht1. cbn [all_ready forallb t_ready andb]. unfold p_operate.
  set (s2 := set_trk s1 _).
  assert (Hq2 : get_q s2 fd = mk_fdq rest w).
  { unfold s2, s1, get_q, set_trk, set_reg, set_pol. cbn [reg]. rewrite alookup_aset_same. reflexivity. }
  clearbody s2. destruct (renew s2 fd) as [s3 c] eqn:E. cbn [fst snd]. split; [reflexivity|].
  unfold renew in E. rewrite Hq2 in E.
  destruct (q_empty (mk_fdq rest w)) eqn:Ee.
  - injection E as <- _. unfold get_q at 1. cbn [reg]. rewrite alookup_aremove_same.
    destruct rest; destruct w; cbn in Ee; try discriminate. reflexivity.
  - unfold arm in E. injection E as <- _. exact Hq2.
Qed.

(* cancelling one operation removes exactly it: the other waiters of the descriptor
   keep their relative order *)
Theorem remove_one_keeps_others s k fd q :
  alookup (reg s) fd = Some q ->
  let q' := get_q (fst (remove_one s k fd)) fd in
  rq q' = filter (fun x => negb (Nat.eqb x k)) (rq q) /\
  wq q' = filter (fun x => negb (Nat.eqb x k)) (wq q).
Proof.
  intros Hq. cbv zeta. unfold remove_one. rewrite Hq. unfold renew.
  rewrite get_q_set. destruct (q_empty (remove_key q k)) eqn:E.
  - cbn [fst]. unfold get_q. cbn [reg]. rewrite alookup_aremove_same. cbn [rq wq].
    unfold q_empty, remove_key in E. cbn [rq wq] in E.
    destruct (filter _ (rq q)), (filter _ (wq q)); try discriminate. split; reflexivity.
  - unfold arm. cbn [fst].
    assert (G : get_q (set_pol (set_reg s (aset (reg s) fd (remove_key q k)))
                  (aset (pol (set_reg s (aset (reg s) fd (remove_key q k)))) fd
                     (event_of (get_q (set_reg s (aset (reg s) fd (remove_key q k))) fd)))) fd
                = remove_key q k).
    { unfold get_q at 1. unfold set_pol, set_reg. cbn [reg].
      rewrite alookup_aset_same. reflexivity. }
    rewrite G. split; reflexivity.
Qed.

(* a descriptor nobody waits for is untouched by a cancellation *)
Theorem remove_one_absent s k fd :
  alookup (reg s) fd = None -> remove_one s k fd = (s, []).
Proof. intros H. unfold remove_one. rewrite H. reflexivity. Qed.
