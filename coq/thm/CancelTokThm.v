(* CancelTokThm.v — lemmas and proofs about model/CancelTok.v (runtime-level
   cancellation routes) and model/RunC05RT.v.  Pinned statements: prop/C05.v. *)
From Compio.Model Require Import Base CancelTok RunC05RT.
Local Open Scope nat_scope.

(* ---------------------------------------------------------------------- *)
(* list update                                                             *)

Lemma updl_length {A} (l : list A) i f : length (updl l i f) = length l.
Proof. revert i; induction l as [|x r IH]; intros [|i]; cbn; auto. Qed.

Lemma nth_error_updl_eq {A} (l : list A) i f :
  nth_error (updl l i f) i = option_map f (nth_error l i).
Proof. revert i; induction l as [|x r IH]; intros [|i]; cbn; auto. Qed.

Lemma nth_error_updl_neq {A} (l : list A) i j f :
  i <> j -> nth_error (updl l i f) j = nth_error l j.
Proof.
  revert i j; induction l as [|x r IH]; intros [|i] [|j] H; cbn; auto; try congruence.
Qed.

Lemma updl_updl_const {A} (l : list A) i (a b : A) :
  updl (updl l i (fun _ => a)) i (fun _ => b) = updl l i (fun _ => b).
Proof. revert i; induction l as [|x r IH]; intros [|i]; cbn; auto. f_equal; auto. Qed.

Lemma map_updl {A B} (g : A -> B) (l : list A) i f :
  (forall x, g (f x) = g x) -> map g (updl l i f) = map g l.
Proof.
  intros H. revert i; induction l as [|x r IH]; intros [|i]; cbn; auto.
  - rewrite H; auto.
  - f_equal; auto.
Qed.

(* ---------------------------------------------------------------------- *)
(* combinators as context transformers                                     *)

Lemma leaf_ext_tok f : forall e,
  e_tok (leaf_ext e f) = match innermost_tok f with Some t => Some t | None => e_tok e end.
Proof.
  induction f as [|t f IH|p f IH|t f IH|d f IH]; intros e; cbn; auto.
  - rewrite IH. cbn. destruct (innermost_tok f); auto.
  - rewrite IH. cbn. auto.
  - rewrite IH. cbn. destruct (innermost_tok f); auto.
Qed.

Lemma leaf_ext_pers f : forall e,
  e_pers (leaf_ext e f) = match innermost_pers f with Some p => Some p | None => e_pers e end.
Proof.
  induction f as [|t f IH|p f IH|t f IH|d f IH]; intros e; cbn; auto.
  - rewrite IH. cbn. auto.
  - rewrite IH. cbn. destruct (innermost_pers f); auto.
  - rewrite IH. cbn. auto.
Qed.

Definition fr (ts : tokst) : bool * list key := (fired ts, regs ts).
Definition proj (tl : list tokst) := map fr tl.

Lemma map_updl_at {A B} (g : A -> B) (l : list A) i f :
  (forall x, nth_error l i = Some x -> g (f x) = g x) -> map g (updl l i f) = map g l.
Proof.
  revert i; induction l as [|x r IH]; intros [|i] H; cbn; auto.
  - rewrite H; auto.
  - f_equal; apply IH; auto.
Qed.

Lemma ev_poll_fr id ts : fr (snd (ev_poll id ts)) = fr ts.
Proof. unfold ev_poll. destruct (l_find id (lst ts)) as [[|]|]; reflexivity. Qed.

Lemma ev_drop_fr id ts : fr (ev_drop id ts) = fr ts.
Proof.
  unfold ev_drop. destruct (l_find id (lst ts)) as [n|]; auto.
  destruct (n && (0 <? cnt ts)); auto. destruct (l_notify_first _); auto.
Qed.

Lemma ev_listen_fr id ts : fr (ev_listen id ts) = fr ts.
Proof. reflexivity. Qed.

Lemma ev_notify_all_fr ts : fr (ev_notify_all ts) = fr ts.
Proof. reflexivity. Qed.

Lemma proj_nth tl t : nth_error (proj tl) t = option_map fr (nth_error tl t).
Proof. unfold proj. apply nth_error_map. Qed.

Lemma drop_listeners_proj i f tl : proj (drop_listeners i f tl) = proj tl.
Proof.
  unfold drop_listeners. generalize (listeners f 0). intros l. revert tl.
  induction l as [|x l IH]; intros tl; cbn; auto.
  rewrite IH. apply map_updl_at. intros; apply ev_drop_fr.
Qed.

Lemma make_listeners_proj i f tl : proj (make_listeners i f tl) = proj tl.
Proof.
  unfold make_listeners. generalize (rev (listeners f 0)). intros l. revert tl.
  induction l as [|x l IH]; intros tl; cbn; auto.
  rewrite IH. apply map_updl_at. intros; apply ev_listen_fr.
Qed.

(* what a poll of the expression amounts to: either a notified fail-fast listener
   ends it before the operation is looked at, or the operation is polled with the
   context [leaf_ext e f] and a pending answer may be overridden by a timeout *)
Lemma poll_f_spec : forall f d e short eager i k tl k' tl' r,
  poll_f f d e short eager i k tl = (k', tl', r) ->
  (k' = k /\ proj tl' = proj tl /\ r = Ready RCancelled)
  \/ (exists r1, submit_poll (leaf_ext e f) eager i k tl = (k', tl', r1) /\
        (r = r1 \/ (r1 = Pending /\ r = Ready RElapsed))).
Proof.
  induction f as [|t f IH|p f IH|t f IH|dd f IH]; intros d e short eager i k tl k' tl' r H; cbn in H.
  - right. exists r. auto.
  - apply IH in H. exact H.
  - apply IH in H. exact H.
  - destruct (nth_error tl t) as [ts|] eqn:Ht.
    + destruct (ev_poll (i, d) ts) as [n ts'] eqn:Hp. destruct n.
      * inversion H; subst. left. split; auto. split; auto.
        apply map_updl_at. intros x Hx. rewrite Ht in Hx. inversion Hx; subst.
        pose proof (ev_poll_fr (i, d) x) as Hf. rewrite Hp in Hf. exact Hf.
      * apply IH in H. exact H.
    + apply IH in H. exact H.
  - destruct (poll_f f (S d) e short eager i k tl) as [[k1 tl1] r1] eqn:Hp.
    apply IH in Hp. destruct r1.
    + destruct (elapsed dd short); inversion H; subst.
      * destruct Hp as [(_ & _ & Hr)|(r0 & Hs & Hr)]; [discriminate|].
        right. exists r0. split; auto. right. destruct Hr as [Hr|[Hr _]]; subst; auto.
      * exact Hp.
    + inversion H; subst. exact Hp.
    + inversion H; subst. exact Hp.
Qed.

(* the context reaching the operation is determined by the nesting alone *)
Lemma poll_f_ext : forall f d e short eager i k tl k' tl' r,
  k_sub k = SIdle -> poll_f f d e short eager i k tl = (k', tl', r) ->
  k_sub k' <> SIdle -> k_ext k' = leaf_ext e f.
Proof.
  intros f d e short eager i k tl k' tl' r Hk H Hk'.
  apply poll_f_spec in H. destruct H as [(-> & _ & _)|(r1 & Hs & _)]; [congruence|].
  unfold submit_poll in Hs. rewrite Hk in Hs.
  destruct eager as [x|].
  - inversion Hs; subst. reflexivity.
  - destruct (e_tok (leaf_ext e f)) as [t|].
    + unfold register in Hs. destruct (nth_error tl t) as [ts|].
      * destruct (fired ts).
        -- unfold cancel_by_token, pop in Hs. cbn in Hs.
           destruct (k_flag k); [|destruct (k_res k)]; cbn in Hs;
           try destruct (k_res k); inversion Hs; subst; reflexivity.
        -- unfold pop in Hs. cbn in Hs. destruct (k_res k); inversion Hs; subst; reflexivity.
      * unfold pop in Hs. cbn in Hs. destruct (k_res k); inversion Hs; subst; reflexivity.
    + unfold pop in Hs. cbn in Hs. destruct (k_res k); inversion Hs; subst; reflexivity.
Qed.

Definition key_ok0 (f : fexp) (k : kst) : Prop :=
  (k_sub k = SIdle -> k_flag k = false /\ k_dc k = 0 /\ k_res k = None /\ k_infl k = false /\ k_reg k = false) /\
  (k_dc k = 0 \/ (k_dc k = 1 /\ k_flag k = true)) /\
  (k_sub k <> SIdle -> k_ext k = leaf_ext ext_default f) /\
  (k_infl k = true -> k_res k = None).

Definition key_ok (tk : task) : Prop :=
  key_ok0 (t_exp tk) (t_key tk) /\ (t_done tk = false -> k_sub (t_key tk) <> SDone).

Record Inv (s : sys) : Prop := mkInv {
  inv_regs : forall t fd rg i, nth_error (proj (toks s)) t = Some (fd, rg) -> In i rg ->
     fd = false /\ exists tk, nth_error (tasks s) i = Some tk /\ k_reg (t_key tk) = true
                              /\ e_tok (k_ext (t_key tk)) = Some t;
  inv_keys : forall i tk, nth_error (tasks s) i = Some tk -> key_ok tk;
  inv_cover : forall i tk t fd rg, nth_error (tasks s) i = Some tk -> k_reg (t_key tk) = true ->
     e_tok (k_ext (t_key tk)) = Some t -> nth_error (proj (toks s)) t = Some (fd, rg) ->
     In i rg \/ k_flag (t_key tk) = true;
  inv_panic : s_panic s = false
}.

(* how one task may change without touching any registration *)
Definition task_rel (a b : task) : Prop :=
  key_ok b /\
  (k_reg (t_key a) = true -> k_reg (t_key b) = true /\ k_ext (t_key b) = k_ext (t_key a)) /\
  (k_reg (t_key a) = false -> k_reg (t_key b) = true -> k_flag (t_key b) = true) /\
  (k_flag (t_key a) = true -> k_flag (t_key b) = true).

Lemma task_rel_eq a b :
  key_ok b -> k_reg (t_key b) = k_reg (t_key a) -> k_ext (t_key b) = k_ext (t_key a) ->
  (k_flag (t_key a) = true -> k_flag (t_key b) = true) -> task_rel a b.
Proof.
  intros H1 H2 H3 H4. unfold task_rel. split; [exact H1|]. split; [|split]; auto.
  - intros; split; congruence.
  - intros; congruence.
Qed.

Definition opt_rel (a b : option task) : Prop :=
  match a, b with
  | None, None => True
  | Some x, Some y => x = y \/ task_rel x y
  | None, Some y => key_ok y /\ k_reg (t_key y) = false
  | _, _ => False
  end.

Lemma Inv_frame s s' :
  Inv s -> (forall j, opt_rel (nth_error (tasks s) j) (nth_error (tasks s') j)) ->
  proj (toks s') = proj (toks s) -> s_panic s' = false -> Inv s'.
Proof.
  intros [I1 I2 I3 I4] Hr Hp Hq. constructor; auto.
  - intros t fd rg i Ht Hi. rewrite Hp in Ht. destruct (I1 t fd rg i Ht Hi) as (Hf & tk & Htk & Hreg & Hext).
    split; auto. specialize (Hr i). rewrite Htk in Hr. destruct (nth_error (tasks s') i) as [tk'|]; [|contradiction].
    exists tk'. split; auto. destruct Hr as [<-|(_ & Hr1 & _)]; auto.
    destruct (Hr1 Hreg) as (A & B). split; auto. rewrite B; auto.
  - intros i tk' Htk'. specialize (Hr i). rewrite Htk' in Hr.
    destruct (nth_error (tasks s) i) as [tk|] eqn:Htk; [|destruct Hr; auto].
    destruct Hr as [->|(Hk & _)]; auto. eapply I2; eauto.
  - intros i tk' t fd rg Htk' Hreg Hext Ht. rewrite Hp in Ht. specialize (Hr i). rewrite Htk' in Hr.
    destruct (nth_error (tasks s) i) as [tk|] eqn:Htk; [|destruct Hr; congruence].
    destruct Hr as [->|(_ & Hr1 & Hr2 & Hr3)].
    + eapply I3; eauto.
    + destruct (k_reg (t_key tk)) eqn:Hreg0.
      * destruct (Hr1 eq_refl) as (_ & B). rewrite B in Hext.
        destruct (I3 i tk t fd rg Htk Hreg0 Hext Ht) as [H|H]; auto.
      * right. auto.
Qed.

Lemma opt_rel_updl (l : list task) i f j :
  (forall tk, nth_error l i = Some tk -> f tk = tk \/ task_rel tk (f tk)) ->
  opt_rel (nth_error l j) (nth_error (updl l i f) j).
Proof.
  intros H. destruct (Nat.eq_dec i j) as [<-|Hn].
  - rewrite nth_error_updl_eq. destruct (nth_error l i) as [tk|]; cbn; auto.
    destruct (H tk eq_refl) as [->|Hr]; auto.
  - rewrite nth_error_updl_neq by auto. destruct (nth_error l j); cbn; auto.
Qed.

Lemma sub_eq_dec (a b : sub) : {a = b} + {a <> b}.
Proof. decide equality. Qed.

(* ---- the cancel primitives on one key --------------------------------- *)

Lemma cancel_by_token_spec k :
  let k' := cancel_by_token k in
  k_flag k' = true /\
  k_dc k' = (if negb (k_flag k) && k_infl k then S (k_dc k) else k_dc k) /\
  k_sub k' = k_sub k /\ k_res k' = k_res k /\ k_ext k' = k_ext k /\ k_live k' = k_live k /\
  k_infl k' = k_infl k /\ k_reg k' = k_reg k.
Proof.
  unfold cancel_by_token. destruct (k_flag k) eqn:Hf; cbn.
  - repeat split; auto.
  - destruct (k_infl k) eqn:Hi; cbn; repeat split; auto.
Qed.

Lemma cancel_by_token_idem k : cancel_by_token (cancel_by_token k) = cancel_by_token k.
Proof.
  unfold cancel_by_token at 1. destruct (cancel_by_token_spec k) as (Hf & _). cbv zeta in Hf. rewrite Hf. reflexivity.
Qed.

Lemma cancel_by_drop_spec k :
  let k' := cancel_by_drop k in
  k_flag k' = true /\
  k_dc k' = (if negb (k_flag k) && k_infl k then S (k_dc k) else k_dc k) /\
  k_sub k' = k_sub k /\ k_res k' = None /\ k_ext k' = k_ext k /\ k_live k' = false /\
  k_infl k' = k_infl k /\ k_reg k' = k_reg k.
Proof.
  unfold cancel_by_drop. destruct (k_flag k) eqn:Hf; cbn.
  - repeat split; auto.
  - destruct (k_infl k) eqn:Hi; cbn; repeat split; auto.
Qed.

Lemma drop_submit_spec k :
  let k' := drop_submit k in
  k_live k' = false /\ k_sub k' = k_sub k /\ k_ext k' = k_ext k /\ k_reg k' = k_reg k /\
  k_infl k' = k_infl k /\ (k_flag k = true -> k_flag k' = true) /\
  (k_sub k = SSubmitted ->
     k_flag k' = true /\ k_res k' = None /\
     k_dc k' = (if negb (k_flag k) && k_infl k then S (k_dc k) else k_dc k)) /\
  (k_sub k <> SSubmitted -> k_dc k' = k_dc k /\ k_flag k' = k_flag k /\ k_res k' = k_res k).
Proof.
  unfold drop_submit. destruct (k_sub k) eqn:Hs.
  - cbn. repeat split; auto; congruence.
  - destruct (cancel_by_drop_spec k) as (H1 & H2 & H3 & H4 & H5 & H6 & H7 & H8). cbv zeta in *.
    repeat split; auto; congruence.
  - cbn. repeat split; auto; congruence.
Qed.

(* ---- Submit::poll, case by case --------------------------------------- *)

Definition submitted (e : ext) (k : kst) : kst := set_infl true (set_sub SSubmitted (set_ext e k)).

Inductive sp_case (e : ext) (eager : option kres) (i : key) (k : kst) (tl : list tokst)
  : kst -> list tokst -> pollres -> Prop :=
| SpWait : k_sub k = SSubmitted -> k_res k = None -> sp_case e eager i k tl k tl Pending
| SpPop x : k_sub k = SSubmitted -> k_res k = Some x ->
    sp_case e eager i k tl (set_sub SDone (set_res None k)) tl (Ready (res_of x))
| SpEager x : k_sub k = SIdle -> eager = Some x ->
    sp_case e eager i k tl (set_sub SDone (set_ext e k)) tl (Ready (res_of x))
| SpPlain : k_sub k = SIdle -> eager = None -> e_tok e = None ->
    sp_case e eager i k tl (submitted e k) tl Pending
| SpNoTok t : k_sub k = SIdle -> eager = None -> e_tok e = Some t -> nth_error tl t = None ->
    sp_case e eager i k tl (submitted e k) tl Pending
| SpFired t ts : k_sub k = SIdle -> eager = None -> e_tok e = Some t -> nth_error tl t = Some ts ->
    fired ts = true ->
    sp_case e eager i k tl (cancel_by_token (set_reg true (submitted e k))) tl Pending
| SpReg t ts : k_sub k = SIdle -> eager = None -> e_tok e = Some t -> nth_error tl t = Some ts ->
    fired ts = false ->
    sp_case e eager i k tl (set_reg true (submitted e k)) (updl tl t (add_reg i)) Pending.

Lemma submit_poll_sp e eager i k tl k' tl' r :
  submit_poll e eager i k tl = (k', tl', r) -> k_sub k <> SDone ->
  (k_sub k = SIdle -> k_res k = None) ->
  sp_case e eager i k tl k' tl' r.
Proof.
  intros H Hd Hi. unfold submit_poll in H. destruct (k_sub k) eqn:Hs; [|unfold pop in H|congruence].
  - specialize (Hi eq_refl). destruct eager as [x|].
    + inversion H; subst. eapply SpEager; eauto.
    + destruct (e_tok e) as [t|] eqn:He.
      * unfold register in H. destruct (nth_error tl t) as [ts|] eqn:Ht.
        -- cbv zeta in H. destruct (fired ts) eqn:Hf.
           ++ destruct (cancel_by_token_spec (set_reg true (set_infl true (set_sub SSubmitted (set_ext e k)))))
                as (_ & _ & _ & Hr & _). cbv zeta in Hr. cbn in Hr.
              unfold pop in H. rewrite Hr, Hi in H. inversion H; subst. eapply SpFired; eauto.
           ++ unfold pop in H. cbn in H. rewrite Hi in H. inversion H; subst. eapply SpReg; eauto.
        -- unfold pop in H. cbn in H. rewrite Hi in H. inversion H; subst. eapply SpNoTok; eauto.
      * unfold pop in H. cbn in H. rewrite Hi in H. inversion H; subst. eapply SpPlain; eauto.
  - destruct (k_res k) as [x|] eqn:Hr; inversion H; subst.
    + eapply SpPop; eauto.
    + eapply SpWait; eauto.
Qed.

Lemma in_add_reg i j ts : In j (regs (add_reg i ts)) <-> j = i \/ In j (regs ts).
Proof.
  unfold add_reg; cbn. destruct (existsb (Nat.eqb i) (regs ts)) eqn:He.
  - split; auto. intros [->|H]; auto. apply existsb_exists in He. destruct He as (x & Hx & Hxe).
    apply Nat.eqb_eq in Hxe. subst; auto.
  - cbn. split; intros [H|H]; auto.
Qed.

Lemma proj_updl_nth tl t f t0 :
  nth_error (proj (updl tl t f)) t0 =
  if Nat.eqb t t0 then option_map (fun ts => fr (f ts)) (nth_error tl t0) else nth_error (proj tl) t0.
Proof.
  rewrite !proj_nth. destruct (Nat.eqb t t0) eqn:E.
  - apply Nat.eqb_eq in E; subst. rewrite nth_error_updl_eq. destruct (nth_error tl t0); reflexivity.
  - apply Nat.eqb_neq in E. rewrite nth_error_updl_neq; auto.
Qed.

Lemma Inv_register s s' i tk tk' t ts :
  Inv s -> nth_error (tasks s) i = Some tk -> k_reg (t_key tk) = false ->
  (forall j, j <> i -> nth_error (tasks s') j = nth_error (tasks s) j) ->
  nth_error (tasks s') i = Some tk' -> key_ok tk' -> k_reg (t_key tk') = true ->
  e_tok (k_ext (t_key tk')) = Some t ->
  nth_error (toks s) t = Some ts -> fired ts = false ->
  proj (toks s') = proj (updl (toks s) t (add_reg i)) -> s_panic s' = false -> Inv s'.
Proof.
  intros [I1 I2 I3 I4] Htk Hnr Hoth Htk' Hok Hreg Hext Hts Hf Hp Hq. constructor; auto.
  - intros t0 fd rg j Ht0 Hj. rewrite Hp, proj_updl_nth in Ht0.
    destruct (Nat.eqb t t0) eqn:E.
    + apply Nat.eqb_eq in E; subst t0. rewrite Hts in Ht0. cbn in Ht0. inversion Ht0; subst.
      split; auto. apply in_add_reg in Hj. destruct Hj as [->|Hj].
      * exists tk'. auto.
      * assert (Hpt : nth_error (proj (toks s)) t = Some (false, regs ts)).
        { rewrite proj_nth, Hts. cbn. unfold fr. rewrite Hf. reflexivity. }
        destruct (I1 t false (regs ts) j Hpt Hj) as (_ & tkj & Htkj & Hrj & Hej).
        destruct (Nat.eq_dec j i) as [->|Hn]; [congruence|].
        exists tkj. rewrite Hoth; auto.
    + destruct (I1 t0 fd rg j Ht0 Hj) as (Hfd & tkj & Htkj & Hrj & Hej). split; auto.
      destruct (Nat.eq_dec j i) as [->|Hn]; [congruence|]. exists tkj. rewrite Hoth; auto.
  - intros j tkj Htkj. destruct (Nat.eq_dec j i) as [->|Hn].
    + rewrite Htk' in Htkj. inversion Htkj; subst; auto.
    + rewrite Hoth in Htkj by auto. eapply I2; eauto.
  - intros j tkj t0 fd rg Htkj Hrj Hej Ht0. rewrite Hp, proj_updl_nth in Ht0.
    destruct (Nat.eq_dec j i) as [->|Hn].
    + rewrite Htk' in Htkj. inversion Htkj; subst tkj. rewrite Hext in Hej. inversion Hej; subst t0.
      rewrite Nat.eqb_refl, Hts in Ht0. cbn in Ht0. inversion Ht0; subst. left. apply in_add_reg; auto.
    + rewrite Hoth in Htkj by auto. destruct (Nat.eqb t t0) eqn:E.
      * apply Nat.eqb_eq in E; subst t0. rewrite Hts in Ht0. cbn in Ht0. inversion Ht0; subst.
        assert (Hpt : nth_error (proj (toks s)) t = Some (false, regs ts)).
        { rewrite proj_nth, Hts. cbn. unfold fr. rewrite Hf. reflexivity. }
        destruct (I3 j tkj t false (regs ts) Htkj Hrj Hej Hpt) as [H|H]; auto.
        left. apply in_add_reg; auto.
      * eapply I3; eauto.
Qed.

(* ---- key_ok of the successor keys -------------------------------------- *)

Ltac kfields := unfold submitted; cbn [k_sub k_flag k_res k_ext k_dc k_live k_infl k_reg
   set_sub set_flag set_res set_ext set_dc set_live set_infl set_reg t_key t_exp t_out t_gone t_short
   set_key set_out set_gone set_short t_done] in *.

Lemma key_ok0_drop f k : key_ok0 f k -> key_ok0 f (drop_submit k).
Proof.
  intros (H1 & H2 & H3 & H5).
  destruct (drop_submit_spec k) as (D1 & D2 & D3 & D4 & D5 & D6 & D7 & D8). cbv zeta in *.
  unfold key_ok0. repeat split.
  - rewrite D2 in H. destruct (H1 H) as (A1 & A2 & A3 & A4 & A5).
    assert (Hn : k_sub k <> SSubmitted) by congruence. destruct (D8 Hn) as (B1 & B2 & B3). congruence.
  - rewrite D2 in H. destruct (H1 H) as (A1 & A2 & A3 & A4 & A5).
    assert (Hn : k_sub k <> SSubmitted) by congruence. destruct (D8 Hn) as (B1 & B2 & B3). congruence.
  - rewrite D2 in H. destruct (H1 H) as (A1 & A2 & A3 & A4 & A5).
    assert (Hn : k_sub k <> SSubmitted) by congruence. destruct (D8 Hn) as (B1 & B2 & B3). congruence.
  - rewrite D2 in H. destruct (H1 H) as (A1 & A2 & A3 & A4 & A5). congruence.
  - rewrite D2 in H. destruct (H1 H) as (A1 & A2 & A3 & A4 & A5). congruence.
  - destruct (sub_eq_dec (k_sub k) SSubmitted) as [Hs|Hn].
    + destruct (D7 Hs) as (B1 & B2 & B3). rewrite B1, B3.
      destruct (k_flag k) eqn:Hf; cbn.
      * destruct H2 as [H2|[H2 _]]; auto.
      * destruct H2 as [H2|[_ H2]]; [|congruence]. destruct (k_infl k); auto.
    + destruct (D8 Hn) as (B1 & B2 & B3). rewrite B1, B2. auto.
  - rewrite D2, D3. auto.
  - rewrite D5. intros Hi. destruct (sub_eq_dec (k_sub k) SSubmitted) as [Hs|Hn].
    + apply D7; auto.
    + destruct (D8 Hn) as (_ & _ & B3). rewrite B3; auto.
Qed.

Lemma key_ok_intro f k sh o g :
  key_ok0 f k ->
  ((match o with Some _ => true | None => g end) = false -> k_sub k <> SDone) ->
  key_ok (mk_task f k sh o g).
Proof. intros H0 H4. split; auto. Qed.

Lemma key_ok_drop tk o g :
  key_ok0 (t_exp tk) (t_key tk) -> (match o with Some _ => true | None => g end) = true ->
  key_ok (mk_task (t_exp tk) (drop_submit (t_key tk)) (t_short tk) o g).
Proof.
  intros H0 Hd. apply key_ok_intro; [apply key_ok0_drop; auto|congruence].
Qed.

Lemma key_ok_init f : key_ok (mk_task f key_init false None false).
Proof. apply key_ok_intro; [unfold key_ok0; cbn; repeat split; auto; congruence|cbn; congruence]. Qed.

Lemma Inv_init n : Inv (sys_init n).
Proof.
  constructor; cbn; auto.
  - intros t fd rg i H Hi. unfold proj in H. rewrite nth_error_map in H.
    destruct (nth_error (repeat tok_init n) t) as [ts|] eqn:E; [|discriminate].
    apply nth_error_In, repeat_spec in E. subst. cbn in H. inversion H; subst. contradiction.
  - intros i tk H. destruct i; discriminate.
  - intros i tk t fd rg H. destruct i; discriminate.
Qed.

Lemma Inv_spawn f s : Inv s -> Inv (spawn f s).
Proof.
  intros HI. apply Inv_frame with (s := s); auto.
  - intros j. unfold spawn; cbn [tasks]. destruct (lt_dec j (length (tasks s))) as [Hl|Hl].
    + rewrite nth_error_app1 by auto. destruct (nth_error (tasks s) j); cbn; auto.
    + assert (Hn : nth_error (tasks s) j = None) by (apply nth_error_None; lia). rewrite Hn.
      rewrite nth_error_app2 by lia. destruct (j - length (tasks s)) as [|m] eqn:E; cbn.
      * split; [apply key_ok_init|reflexivity].
      * destruct m; cbn; auto.
  - unfold spawn; cbn [toks]. apply make_listeners_proj.
  - exact (inv_panic _ HI).
Qed.

Lemma Inv_elapse i s : Inv s -> Inv (elapse i s).
Proof.
  intros HI. apply Inv_frame with (s := s); [exact HI| |reflexivity|exact (inv_panic _ HI)].
  intros j. unfold elapse; cbn [tasks]. apply opt_rel_updl. intros tk Htk. right.
  pose proof (inv_keys s HI i tk Htk) as Hk. apply task_rel_eq; auto.
Qed.

Lemma Inv_complete i r s : Inv s -> Inv (complete i r s).
Proof.
  intros HI. apply Inv_frame with (s := s); [exact HI| |reflexivity|exact (inv_panic _ HI)].
  intros j. unfold complete, upd_key; cbn [tasks]. apply opt_rel_updl. intros tk Htk.
  destruct (k_infl (t_key tk)) eqn:Hi; [right|left; destruct tk; reflexivity].
  destruct (inv_keys s HI i tk Htk) as ((H1 & H2 & H3 & H5) & H4).
  destruct tk as [f k sh o g]. cbn in *.
  assert (Hs : k_sub k <> SIdle) by (intros Hs; destruct (H1 Hs) as (_ & _ & _ & A & _); congruence).
  apply task_rel_eq; cbn [t_key set_key]; [|destruct (k_live k); cbn; auto..].
  apply key_ok_intro; [unfold key_ok0|]; destruct (k_live k); cbn; auto; repeat split; auto; try tauto; try congruence.
Qed.

Lemma Inv_drop_task i s : Inv s -> Inv (drop_task i s).
Proof.
  intros HI. unfold drop_task. destruct (nth_error (tasks s) i) as [tk|] eqn:Htk; auto.
  destruct (t_done tk) eqn:Hd; auto.
  apply Inv_frame with (s := s); [exact HI| | |]; cbn [tasks toks s_panic].
  - intros j. apply opt_rel_updl. intros tk0 Htk0. rewrite Htk in Htk0. inversion Htk0; subst tk0. right.
    pose proof (inv_keys s HI i tk Htk) as Hk.
    destruct (drop_submit_spec (t_key tk)) as (D1 & D2 & D3 & D4 & D5 & D6 & D7 & D8). cbv zeta in *.
    apply task_rel_eq; cbn [t_key set_key set_gone]; auto.
    change (set_gone true (set_key (drop_submit (t_key tk)) tk))
      with (mk_task (t_exp tk) (drop_submit (t_key tk)) (t_short tk) (t_out tk) true).
    apply key_ok_drop; [apply Hk|]. destruct (t_out tk); auto.
  - apply drop_listeners_proj.
  - exact (inv_panic _ HI).
Qed.

Definition after_poll (s : sys) (i : key) (tk : task) (k' : kst) (tl' : list tokst) (r : pollres) : sys :=
  match r with
  | Pending => mk_sys (updl (tasks s) i (set_key k')) tl' (s_panic s)
  | Ready x => mk_sys (updl (tasks s) i (fun x0 => set_out (Some x) (set_key (drop_submit k') x0)))
                      (drop_listeners i (t_exp tk) tl') (s_panic s)
  | PollPanic => mk_sys (updl (tasks s) i (set_key k')) tl' true
  end.

Lemma poll_task_after eager i s tk :
  nth_error (tasks s) i = Some tk -> t_done tk = false ->
  poll_task eager i s =
  let '(k', tl', r) := poll_f (t_exp tk) 0 ext_default (t_short tk) eager i (t_key tk) (toks s) in
  after_poll s i tk k' tl' r.
Proof.
  intros Htk Hd. unfold poll_task. rewrite Htk, Hd.
  destruct (poll_f _ _ _ _ _ _ _ _) as [[k' tl'] r]. destruct r; reflexivity.
Qed.

(* the key relation a poll may establish without registering anything *)
Definition key_rel (k k' : kst) : Prop :=
  (k_reg k = true -> k_reg k' = true /\ k_ext k' = k_ext k) /\
  (k_reg k = false -> k_reg k' = true -> k_flag k' = true) /\
  (k_flag k = true -> k_flag k' = true).

Lemma key_rel_drop k k' : key_rel k k' -> key_rel k (drop_submit k').
Proof.
  intros (A & B & C). destruct (drop_submit_spec k') as (D1 & D2 & D3 & D4 & D5 & D6 & D7 & D8). cbv zeta in *.
  unfold key_rel. rewrite D3, D4. repeat split; auto; try (apply A; auto).
Qed.

Lemma Inv_after_poll_frame s i tk k' tl' r :
  Inv s -> nth_error (tasks s) i = Some tk -> t_done tk = false ->
  key_ok0 (t_exp tk) k' -> key_rel (t_key tk) k' -> proj tl' = proj (toks s) ->
  r <> PollPanic -> (r = Pending -> k_sub k' <> SDone) ->
  Inv (after_poll s i tk k' tl' r).
Proof.
  intros HI Htk Hd Hk0 Hrel Hpj Hnp Hpe.
  destruct r as [|x|]; [| |congruence]; cbn [after_poll].
  - apply Inv_frame with (s := s); [exact HI| |exact Hpj|exact (inv_panic _ HI)].
    intros j. cbn [tasks]. apply opt_rel_updl. intros tk0 Htk0. rewrite Htk in Htk0. inversion Htk0; subst tk0.
    right. destruct Hrel as (A & B & C). unfold task_rel. cbn [t_key set_key]. split; [|auto].
    destruct tk as [f k sh o g]. cbn in *. apply key_ok_intro; auto.
  - apply Inv_frame with (s := s); [exact HI| | |exact (inv_panic _ HI)].
    + intros j. cbn [tasks]. apply opt_rel_updl. intros tk0 Htk0. rewrite Htk in Htk0. inversion Htk0; subst tk0.
      right. destruct (key_rel_drop _ _ Hrel) as (A & B & C). unfold task_rel. cbn [t_key set_key set_out]. split; [|auto].
      change (set_out (Some x) (set_key (drop_submit k') tk))
        with (mk_task (t_exp (set_key k' tk)) (drop_submit (t_key (set_key k' tk))) (t_short tk) (Some x) (t_gone tk)).
      apply (key_ok_drop (set_key k' tk)); auto.
    + cbn [toks]. rewrite drop_listeners_proj. exact Hpj.
Qed.

Lemma key_ok0_submitted f k :
  key_ok0 f k -> k_sub k = SIdle -> key_ok0 f (submitted (leaf_ext ext_default f) k).
Proof.
  intros (H1 & H2 & H3 & H5) Hs. destruct (H1 Hs) as (A1 & A2 & A3 & A4 & A5).
  unfold key_ok0, submitted; cbn. repeat split; auto; congruence.
Qed.

Lemma Inv_poll_task eager i s : Inv s -> Inv (poll_task eager i s).
Proof.
  intros HI. destruct (nth_error (tasks s) i) as [tk|] eqn:Htk.
  2:{ unfold poll_task. rewrite Htk. exact HI. }
  destruct (t_done tk) eqn:Hd.
  1:{ unfold poll_task. rewrite Htk, Hd. exact HI. }
  rewrite (poll_task_after eager i s tk Htk Hd).
  destruct (poll_f _ _ _ _ _ _ _ _) as [[k' tl'] r] eqn:Hp.
  destruct (inv_keys s HI i tk Htk) as (Hk0 & Hk4). pose proof (Hk4 Hd) as Hnd.
  pose proof Hk0 as (H1 & H2 & H3 & H5).
  apply poll_f_spec in Hp. destruct Hp as [(-> & Hpj & ->)|(r1 & Hs & Hr)].
  - apply Inv_after_poll_frame; auto; try congruence.
    unfold key_rel. repeat split; auto; congruence.
  - apply submit_poll_sp in Hs; [|exact Hnd|intros Hi; apply H1; exact Hi].
    assert (Hr' : r <> PollPanic /\ (r1 <> Pending -> r = r1)).
    { destruct Hr as [->|[-> ->]]; split; try congruence; inversion Hs; congruence. }
    destruct Hr' as (Hnp & Hrr).
    inversion Hs; subst.
    + (* SpWait *) apply Inv_after_poll_frame; auto.
      unfold key_rel; repeat split; auto; congruence.
    + (* SpPop *) rewrite Hrr by congruence. apply Inv_after_poll_frame; auto; try congruence.
      * destruct Hk0 as (A1 & A2 & A3 & A5). unfold key_ok0; cbn. repeat split; auto; try congruence.
        intros _. apply A3. congruence.
      * unfold key_rel; cbn; repeat split; auto; congruence.
    + (* SpEager *) rewrite Hrr by congruence. destruct (H1 H) as (B1 & B2 & B3 & B4 & B5).
      apply Inv_after_poll_frame; auto; try congruence.
      * unfold key_ok0; cbn. repeat split; auto; congruence.
      * unfold key_rel; cbn; repeat split; auto; congruence.
    + (* SpPlain *) destruct (H1 H) as (B1 & B2 & B3 & B4 & B5).
      apply Inv_after_poll_frame; auto.
      * apply key_ok0_submitted; auto.
      * unfold key_rel, submitted; cbn; repeat split; auto; congruence.
      * intros _. unfold submitted; cbn. congruence.
    + (* SpNoTok *) destruct (H1 H) as (B1 & B2 & B3 & B4 & B5).
      apply Inv_after_poll_frame; auto.
      * apply key_ok0_submitted; auto.
      * unfold key_rel, submitted; cbn; repeat split; auto; congruence.
      * intros _. unfold submitted; cbn. congruence.
    + (* SpFired *) destruct (H1 H) as (B1 & B2 & B3 & B4 & B5).
      pose proof (key_ok0_submitted _ _ Hk0 H) as (C1 & C2 & C3 & C5).
      destruct (cancel_by_token_spec (set_reg true (submitted (leaf_ext ext_default (t_exp tk)) (t_key tk))))
        as (S1 & S2 & S3 & S4 & S5 & S6 & S7 & S8). cbv zeta in *.
      apply Inv_after_poll_frame; auto.
      * unfold key_ok0. rewrite S1, S2, S3, S4, S5, S7. unfold submitted; cbn. rewrite B1, B2. cbn.
        repeat split; auto; try congruence.
      * unfold key_rel. rewrite S1, S5, S8. repeat split; auto; congruence.
      * intros _. rewrite S3. unfold submitted; cbn. congruence.
    + (* SpReg *) destruct (H1 H) as (B1 & B2 & B3 & B4 & B5).
      pose proof (key_ok0_submitted _ _ Hk0 H) as Hsub.
      set (e := leaf_ext ext_default (t_exp tk)) in *.
      set (k1 := set_reg true (submitted e (t_key tk))).
      assert (Hk1 : key_ok0 (t_exp tk) k1).
      { destruct Hsub as (C1 & C2 & C3 & C5). unfold key_ok0, k1, submitted in *; cbn in *.
        repeat split; auto; congruence. }
      destruct r as [|x|]; [| |congruence]; cbn [after_poll].
      * eapply Inv_register with (i := i) (tk' := set_key k1 tk); eauto; cbn [tasks toks s_panic].
        -- intros j Hj. apply nth_error_updl_neq; auto.
        -- rewrite nth_error_updl_eq, Htk. reflexivity.
        -- destruct tk as [f k sh o g]. cbn in *. apply key_ok_intro; auto.
           intros _. unfold k1, submitted; cbn. congruence.
        -- exact (inv_panic _ HI).
      * eapply Inv_register with (i := i) (tk' := set_out (Some x) (set_key (drop_submit k1) tk)); eauto;
          cbn [tasks toks s_panic].
        -- intros j Hj. apply nth_error_updl_neq; auto.
        -- rewrite nth_error_updl_eq, Htk. reflexivity.
        -- change (set_out (Some x) (set_key (drop_submit k1) tk))
             with (mk_task (t_exp (set_key k1 tk)) (drop_submit (t_key (set_key k1 tk))) (t_short tk) (Some x) (t_gone tk)).
           apply (key_ok_drop (set_key k1 tk)); auto.
        -- cbn [t_key set_out set_key]. destruct (drop_submit_spec k1) as (_ & _ & _ & D4 & _). cbv zeta in D4. rewrite D4. reflexivity.
        -- cbn [t_key set_out set_key]. destruct (drop_submit_spec k1) as (_ & _ & D3 & _). cbv zeta in D3. rewrite D3. unfold k1, submitted; cbn. auto.
        -- apply drop_listeners_proj.
        -- exact (inv_panic _ HI).
Qed.

Definition mark (g : kst -> kst) (l : list key) (j : key) (tk : task) : task :=
  if existsb (Nat.eqb j) l then set_key (g (t_key tk)) tk else tk.

Lemma fold_upd_key g l : (forall k, g (g k) = g k) -> forall s,
  let s' := fold_left (fun s0 k => upd_key k g s0) l s in
  toks s' = toks s /\ s_panic s' = s_panic s /\
  forall j, nth_error (tasks s') j = option_map (mark g l j) (nth_error (tasks s) j).
Proof.
  intros Hg. induction l as [|k l IH]; intros s; cbn.
  - split; auto. split; auto. intros j. unfold mark; cbn. destruct (nth_error (tasks s) j); reflexivity.
  - destruct (IH (upd_key k g s)) as (A & B & C). cbv zeta in *. split; [rewrite A; reflexivity|].
    split; [rewrite B; reflexivity|]. intros j. rewrite C. unfold upd_key; cbn [tasks].
    destruct (Nat.eq_dec k j) as [->|Hn].
    + rewrite nth_error_updl_eq. destruct (nth_error (tasks s) j) as [tk|]; cbn; auto. f_equal.
      unfold mark. cbn. rewrite Nat.eqb_refl. cbn. destruct (existsb (Nat.eqb j) l); auto.
      destruct tk; cbn. rewrite Hg. reflexivity.
    + rewrite nth_error_updl_neq by auto. destruct (nth_error (tasks s) j) as [tk|]; cbn; auto. f_equal.
      unfold mark. cbn. assert (E : Nat.eqb j k = false) by (apply Nat.eqb_neq; auto). rewrite E. reflexivity.
Qed.

Lemma existsb_eqb_in j l : existsb (Nat.eqb j) l = true <-> In j l.
Proof.
  rewrite existsb_exists. split.
  - intros (x & Hx & He). apply Nat.eqb_eq in He. subst; auto.
  - intros H. exists j. split; auto. apply Nat.eqb_refl.
Qed.

Lemma key_ok0_cancel_by_token f k :
  key_ok0 f k -> k_sub k <> SIdle -> key_ok0 f (cancel_by_token k).
Proof.
  intros (H1 & H2 & H3 & H5) Hs.
  destruct (cancel_by_token_spec k) as (S1 & S2 & S3 & S4 & S5 & S6 & S7 & S8). cbv zeta in *.
  unfold key_ok0. rewrite S1, S2, S3, S4, S5, S7. repeat split; auto; try congruence.
  destruct (k_flag k) eqn:Hf; cbn; auto.
  destruct H2 as [H2|[_ H2]]; [|congruence]. destruct (k_infl k); auto.
Qed.

(* what CancelToken::cancel does, pointwise *)
Lemma fire_spec t s ts :
  nth_error (toks s) t = Some ts ->
  let s' := fire t s in
  s_panic s' = s_panic s /\
  toks s' = updl (toks s) t (fun _ =>
              if fired ts then ev_notify_all ts
              else mk_tok true [] (lst (ev_notify_all ts)) (cnt (ev_notify_all ts))) /\
  forall j, nth_error (tasks s') j =
            option_map (mark cancel_by_token (if fired ts then [] else regs ts) j) (nth_error (tasks s) j).
Proof.
  intros Ht. unfold fire. rewrite Ht. destruct (fired ts) eqn:Hf; cbn.
  - split; auto. split; auto. intros j. unfold mark; cbn. destruct (nth_error (tasks s) j); reflexivity.
  - match goal with |- context [fold_left ?F ?L ?S] =>
      destruct (fold_upd_key cancel_by_token L cancel_by_token_idem S) as (A & B & C) end.
    cbv zeta in *. rewrite A, B. cbn. split; auto.
Qed.

Lemma Inv_fire t s : Inv s -> Inv (fire t s).
Proof.
  intros HI. destruct (nth_error (toks s) t) as [ts|] eqn:Ht.
  2:{ unfold fire. rewrite Ht. exact HI. }
  destruct (fire_spec t s ts Ht) as (Hq & Htk & Hts). cbv zeta in *.
  destruct (fired ts) eqn:Hf.
  - apply Inv_frame with (s := s); [exact HI| | |rewrite Hq; exact (inv_panic _ HI)].
    + intros j. rewrite Hts. unfold mark; cbn. destruct (nth_error (tasks s) j); cbn; auto.
    + rewrite Htk. apply map_updl_at. intros x Hx. rewrite Ht in Hx. inversion Hx; subst. reflexivity.
  - destruct HI as [I1 I2 I3 I4]. constructor.
    + intros t0 fd rg i H0 Hi. rewrite Htk, proj_updl_nth in H0. destruct (Nat.eqb t t0) eqn:E.
      * rewrite Nat.eqb_eq in E. subst t0. rewrite Ht in H0. cbn in H0. inversion H0; subst. contradiction.
      * destruct (I1 t0 fd rg i H0 Hi) as (Hfd & tk & Hk & Hr & He). split; auto.
        rewrite Hts, Hk. cbn. eexists. split; [reflexivity|]. unfold mark.
        destruct (existsb (Nat.eqb i) (regs ts)); auto. cbn [t_key set_key].
        destruct (cancel_by_token_spec (t_key tk)) as (_ & _ & _ & _ & S5 & _ & _ & S8). cbv zeta in *.
        rewrite S5, S8. auto.
    + intros i tk' Hk'. rewrite Hts in Hk'. destruct (nth_error (tasks s) i) as [tk|] eqn:Hk; [|discriminate].
      cbn in Hk'. inversion Hk'; subst tk'. unfold mark. destruct (existsb (Nat.eqb i) (regs ts)) eqn:Hin.
      * apply existsb_eqb_in in Hin.
        assert (Hpt : nth_error (proj (toks s)) t = Some (false, regs ts)).
        { rewrite proj_nth, Ht. cbn. unfold fr. rewrite Hf. reflexivity. }
        destruct (I1 t false (regs ts) i Hpt Hin) as (_ & tk0 & Hk0 & Hr & He).
        rewrite Hk in Hk0. inversion Hk0; subst tk0.
        destruct (I2 i tk Hk) as (A0 & A4). pose proof A0 as (A1 & _).
        assert (Hs : k_sub (t_key tk) <> SIdle).
        { intros Hs. destruct (A1 Hs) as (_ & _ & _ & _ & B). congruence. }
        destruct tk as [f k sh o g]. cbn in *. apply key_ok_intro.
        -- apply key_ok0_cancel_by_token; auto.
        -- destruct (cancel_by_token_spec k) as (_ & _ & S3 & _). cbv zeta in S3. rewrite S3. exact A4.
      * apply I2 with (i := i); auto.
    + intros i tk' t0 fd rg Hk' Hr He H0. rewrite Hts in Hk'.
      destruct (nth_error (tasks s) i) as [tk|] eqn:Hk; [|discriminate]. cbn in Hk'. inversion Hk'; subst tk'.
      assert (Hr0 : k_reg (t_key tk) = true /\ e_tok (k_ext (t_key tk)) = Some t0).
      { unfold mark in Hr, He. destruct (existsb (Nat.eqb i) (regs ts)); auto. cbn [t_key set_key] in *.
        destruct (cancel_by_token_spec (t_key tk)) as (_ & _ & _ & _ & S5 & _ & _ & S8). cbv zeta in *.
        rewrite S8 in Hr. rewrite S5 in He. auto. }
      destruct Hr0 as (Hr0 & He0).
      assert (Hmono : k_flag (t_key tk) = true -> k_flag (t_key (mark cancel_by_token (regs ts) i tk)) = true).
      { intros Hfl. unfold mark. destruct (existsb (Nat.eqb i) (regs ts)); auto. cbn [t_key set_key].
        destruct (cancel_by_token_spec (t_key tk)) as (S1 & _). exact S1. }
      rewrite Htk, proj_updl_nth in H0. destruct (Nat.eqb t t0) eqn:E.
      * rewrite Nat.eqb_eq in E. subst t0. right.
        assert (Hpt : nth_error (proj (toks s)) t = Some (false, regs ts)).
        { rewrite proj_nth, Ht. cbn. unfold fr. rewrite Hf. reflexivity. }
        destruct (I3 i tk t false (regs ts) Hk Hr0 He0 Hpt) as [Hin|Hfl]; auto.
        apply existsb_eqb_in in Hin. unfold mark. rewrite Hin. cbn [t_key set_key].
        destruct (cancel_by_token_spec (t_key tk)) as (S1 & _). exact S1.
      * destruct (I3 i tk t0 fd rg Hk Hr0 He0 H0) as [Hin|Hfl]; auto.
    + rewrite Hq. exact I4.
Qed.

Lemma Inv_step s st : Inv s -> Inv (do_step s st).
Proof.
  intros HI. destruct st; cbn.
  - apply Inv_spawn; auto.
  - apply Inv_poll_task; auto.
  - apply Inv_fire; auto.
  - apply Inv_drop_task; auto.
  - apply Inv_complete; auto.
  - apply Inv_elapse; auto.
Qed.

Lemma Inv_steps l : forall s, Inv s -> Inv (do_steps s l).
Proof.
  induction l as [|st l IH]; intros s HI; cbn; auto. apply IH. apply Inv_step; auto.
Qed.

Lemma Inv_reach n l : Inv (do_steps (sys_init n) l).
Proof. apply Inv_steps. apply Inv_init. Qed.

Lemma reach_ext n l i tk :
  nth_error (tasks (do_steps (sys_init n) l)) i = Some tk -> k_reg (t_key tk) = true ->
  e_tok (k_ext (t_key tk)) = innermost_tok (t_exp tk).
Proof.
  intros Hk Hr. destruct (inv_keys _ (Inv_reach n l) i tk Hk) as ((A1 & _ & A3 & _) & _).
  assert (Hs : k_sub (t_key tk) <> SIdle).
  { intros Hs. destruct (A1 Hs) as (_ & _ & _ & _ & B). congruence. }
  rewrite (A3 Hs), leaf_ext_tok. cbn. destruct (innermost_tok (t_exp tk)); reflexivity.
Qed.

Theorem token_exact : forall ntok l t ts,
  let s := do_steps (sys_init ntok) l in
  nth_error (toks s) t = Some ts ->
  let s' := fire t s in
  (forall i tk, nth_error (tasks s) i = Some tk ->
     (In i (regs ts) ->
        fired ts = false /\ innermost_tok (t_exp tk) = Some t /\ k_reg (t_key tk) = true) /\
     (k_reg (t_key tk) = true -> innermost_tok (t_exp tk) = Some t -> k_flag (t_key tk) = false ->
        In i (regs ts))) /\
  (forall i, nth_error (tasks s') i =
     option_map (fun tk => if negb (fired ts) && existsb (Nat.eqb i) (regs ts)
                           then set_key (cancel_by_token (t_key tk)) tk else tk)
                (nth_error (tasks s) i)).
Proof.
  intros ntok l t ts s Ht s'. pose proof (Inv_reach ntok l) as HI. fold s in HI.
  assert (Hpt : nth_error (proj (toks s)) t = Some (fired ts, regs ts)).
  { rewrite proj_nth, Ht. reflexivity. }
  split.
  - intros i tk Hk. split.
    + intros Hin. destruct (inv_regs s HI t _ _ i Hpt Hin) as (Hf & tk0 & Hk0 & Hr & He).
      rewrite Hk in Hk0. inversion Hk0; subst tk0. split; auto. split; auto.
      rewrite <- (reach_ext ntok l i tk Hk Hr). exact He.
    + intros Hr Hi Hfl. assert (He : e_tok (k_ext (t_key tk)) = Some t).
      { rewrite (reach_ext ntok l i tk Hk Hr). exact Hi. }
      destruct (inv_cover s HI i tk t _ _ Hk Hr He Hpt) as [H|H]; auto. congruence.
  - intros i. destruct (fire_spec t s ts Ht) as (_ & _ & Hts). cbv zeta in Hts. unfold s'. rewrite Hts.
    destruct (nth_error (tasks s) i) as [tk|]; cbn; auto. f_equal. unfold mark.
    destruct (fired ts); cbn; auto.
Qed.

Lemma sp_case_fired e i k tl k' tl' r t ts :
  sp_case e None i k tl k' tl' r -> k_sub k = SIdle -> e_tok e = Some t ->
  nth_error tl t = Some ts -> fired ts = true ->
  k' = cancel_by_token (set_reg true (submitted e k)) /\ tl' = tl /\ r = Pending.
Proof.
  intros H Hs He Ht Hf. inversion H; subst; try congruence. auto.
Qed.

Theorem registered_after_fire : forall ntok l i tk t ts,
  let s := do_steps (sys_init ntok) l in
  nth_error (tasks s) i = Some tk -> t_done tk = false -> k_sub (t_key tk) = SIdle ->
  innermost_tok (t_exp tk) = Some t -> nth_error (toks s) t = Some ts -> fired ts = true ->
  let s' := poll_task None i s in
  exists tk', nth_error (tasks s') i = Some tk' /\ proj (toks s') = proj (toks s) /\
    ((t_out tk' = Some RCancelled /\ k_sub (t_key tk') = SIdle) \/
     (k_sub (t_key tk') = SSubmitted /\ k_flag (t_key tk') = true /\ k_dc (t_key tk') = 1 /\
      k_reg (t_key tk') = true /\ e_tok (k_ext (t_key tk')) = Some t)).
Proof.
  intros ntok l i tk t ts s Hk Hd Hs Hi Ht Hf s'. pose proof (Inv_reach ntok l) as HI. fold s in HI.
  destruct (inv_keys s HI i tk Hk) as (Hk0 & Hk4). pose proof Hk0 as (H1 & H2 & H3 & H5).
  destruct (H1 Hs) as (B1 & B2 & B3 & B4 & B5).
  unfold s'. rewrite (poll_task_after None i s tk Hk Hd).
  destruct (poll_f _ _ _ _ _ _ _ _) as [[k' tl'] r] eqn:Hp.
  apply poll_f_spec in Hp. destruct Hp as [(-> & Hpj & ->)|(r1 & Hsp & Hr)].
  - cbn [after_poll tasks toks]. rewrite nth_error_updl_eq, Hk. cbn. eexists. split; [reflexivity|].
    split; [rewrite drop_listeners_proj; exact Hpj|]. left. cbn. split; auto.
    destruct (drop_submit_spec (t_key tk)) as (_ & D2 & _). cbv zeta in D2. congruence.
  - apply submit_poll_sp in Hsp; [|congruence|auto].
    assert (He : e_tok (leaf_ext ext_default (t_exp tk)) = Some t).
    { rewrite leaf_ext_tok, Hi. reflexivity. }
    destruct (sp_case_fired _ _ _ _ _ _ _ _ _ Hsp Hs He Ht Hf) as (-> & -> & ->).
    {
      set (k1 := cancel_by_token (set_reg true (submitted (leaf_ext ext_default (t_exp tk)) (t_key tk)))) in *.
      assert (Hk1 : k_sub k1 = SSubmitted /\ k_flag k1 = true /\ k_dc k1 = 1 /\ k_reg k1 = true
                    /\ e_tok (k_ext k1) = Some t).
      { unfold k1.
        destruct (cancel_by_token_spec (set_reg true (submitted (leaf_ext ext_default (t_exp tk)) (t_key tk))))
          as (S1 & S2 & S3 & S4 & S5 & S6 & S7 & S8). cbv zeta in *.
        rewrite S1, S2, S3, S5, S8. unfold submitted; cbn. rewrite B1, B2. cbn. auto. }
      destruct Hk1 as (K1 & K2 & K3 & K4 & K5).
      destruct Hr as [->|[_ ->]]; cbn [after_poll tasks toks]; rewrite nth_error_updl_eq, Hk; cbn;
        (eexists; split; [reflexivity|]).
      * split; auto. right. cbn [t_key set_key]. auto.
      * split; [apply drop_listeners_proj|]. right. cbn [t_key set_key set_out].
        destruct (drop_submit_spec k1) as (_ & D2 & D3 & D4 & _ & _ & D7 & _). cbv zeta in *.
        destruct (D7 K1) as (E1 & _ & E3). rewrite D2, D3, D4, E1, E3, K2. cbn. auto. }
Qed.

Lemma filter_all_true (l : list (lid * bool)) :
  filter (fun x => negb (snd x)) (map (fun x => (fst x, true)) l) = [].
Proof. induction l; cbn; auto. Qed.

Lemma ev_notify_all_idem ts : ev_notify_all (ev_notify_all ts) = ev_notify_all ts.
Proof.
  unfold ev_notify_all; cbn. rewrite filter_all_true, map_map. cbn. rewrite Nat.add_0_r. reflexivity.
Qed.

Theorem cancel_idempotent : forall t s, fire t (fire t s) = fire t s.
Proof.
  intros t s. destruct (nth_error (toks s) t) as [ts|] eqn:Ht.
  2:{ unfold fire. rewrite Ht. rewrite Ht. reflexivity. }
  destruct (fire_spec t s ts Ht) as (Hq & Htk & Hts). cbv zeta in *.
  set (s1 := fire t s) in *.
  set (ts1 := if fired ts then ev_notify_all ts
              else mk_tok true [] (lst (ev_notify_all ts)) (cnt (ev_notify_all ts))) in *.
  assert (Ht1 : nth_error (toks s1) t = Some ts1).
  { rewrite Htk, nth_error_updl_eq, Ht. reflexivity. }
  assert (Hf1 : fired ts1 = true).
  { unfold ts1. destruct (fired ts) eqn:Hf; cbn; auto. }
  assert (Hn1 : ev_notify_all ts1 = ts1).
  { unfold ts1. destruct (fired ts); [apply ev_notify_all_idem|].
    unfold ev_notify_all at 1. cbn. rewrite filter_all_true, map_map. cbn. rewrite Nat.add_0_r. reflexivity. }
  unfold fire at 1. rewrite Ht1, Hf1, Hn1. rewrite Htk, updl_updl_const, <- Htk. destruct s1; reflexivity.
Qed.

(* a second cancel touches no operation and no registration *)
Theorem cancel_again_noop : forall t s ts,
  nth_error (toks s) t = Some ts -> fired ts = true ->
  tasks (fire t s) = tasks s /\ proj (toks (fire t s)) = proj (toks s) /\ s_panic (fire t s) = s_panic s.
Proof.
  intros t s ts Ht Hf. unfold fire. rewrite Ht, Hf. cbn. split; auto. split; auto.
  apply map_updl_at. intros x Hx. rewrite Ht in Hx. inversion Hx; subst. reflexivity.
Qed.

Theorem drop_cancels : forall s i tk,
  nth_error (tasks s) i = Some tk -> t_done tk = false ->
  let s' := drop_task i s in
  let k := t_key tk in
  (exists tk', nth_error (tasks s') i = Some tk' /\ t_gone tk' = true /\ k_live (t_key tk') = false /\
     let k' := t_key tk' in
     (k_sub k = SSubmitted -> k_flag k = false -> k_infl k = true ->
        k_dc k' = S (k_dc k) /\ k_flag k' = true) /\
     (k_sub k = SSubmitted -> k_flag k = true \/ k_infl k = false -> k_dc k' = k_dc k) /\
     (k_sub k <> SSubmitted -> k_dc k' = k_dc k /\ k_flag k' = k_flag k)) /\
  (forall j, j <> i -> nth_error (tasks s') j = nth_error (tasks s) j) /\
  proj (toks s') = proj (toks s).
Proof.
  intros s i tk Hk Hd s' k. unfold s', drop_task. rewrite Hk, Hd. cbn [tasks toks]. split; [|split].
  - rewrite nth_error_updl_eq, Hk. cbn. eexists. split; [reflexivity|]. cbn [t_gone t_key set_gone set_key].
    destruct (drop_submit_spec (t_key tk)) as (D1 & D2 & D3 & D4 & D5 & D6 & D7 & D8). cbv zeta in *.
    fold k in D1, D2, D3, D4, D5, D6, D7, D8 |- *.
    split; auto. split; auto. split; [|split].
    + intros Hs Hf Hi. destruct (D7 Hs) as (E1 & _ & E3). rewrite E3, Hf, Hi. auto.
    + intros Hs Hor. destruct (D7 Hs) as (_ & _ & E3). rewrite E3.
      destruct Hor as [Hf|Hi]; [rewrite Hf|rewrite Hi, andb_false_r]; reflexivity.
    + intros Hn. destruct (D8 Hn) as (E1 & E2 & _). auto.
  - intros j Hj. apply nth_error_updl_neq; auto.
  - apply drop_listeners_proj.
Qed.

Theorem at_most_one_driver_cancel : forall ntok l i tk,
  nth_error (tasks (do_steps (sys_init ntok) l)) i = Some tk ->
  k_dc (t_key tk) <= 1 /\ (k_dc (t_key tk) = 1 -> k_flag (t_key tk) = true) /\
  (k_sub (t_key tk) = SIdle -> k_dc (t_key tk) = 0).
Proof.
  intros ntok l i tk Hk. destruct (inv_keys _ (Inv_reach ntok l) i tk Hk) as ((A1 & A2 & _) & _).
  split; [|split].
  - destruct A2 as [->|[-> _]]; lia.
  - intros H. destruct A2 as [A|[_ A]]; auto. congruence.
  - intros Hs. apply A1; auto.
Qed.

Theorem no_poll_after_ready : forall ntok l, s_panic (do_steps (sys_init ntok) l) = false.
Proof. intros. apply inv_panic. apply Inv_reach. Qed.

Theorem timeout_is_drop : forall s i tk dd f eager k1 tl1,
  nth_error (tasks s) i = Some tk -> t_done tk = false -> t_exp tk = Timeout dd f ->
  elapsed dd (t_short tk) = true ->
  poll_f f 1 ext_default (t_short tk) eager i (t_key tk) (toks s) = (k1, tl1, Pending) ->
  let s' := poll_task eager i s in
  (* the state right after the inner future was polled, then the task dropped *)
  let s_in := mk_sys (updl (tasks s) i (set_key k1)) tl1 (s_panic s) in
  let s_dr := drop_task i s_in in
  (exists tk' tk'', nth_error (tasks s') i = Some tk' /\ nth_error (tasks s_dr) i = Some tk'' /\
      t_out tk' = Some RElapsed /\ t_key tk' = t_key tk'' /\ t_key tk' = drop_submit k1) /\
  toks s' = toks s_dr /\
  (forall j, j <> i -> nth_error (tasks s') j = nth_error (tasks s_dr) j).
Proof.
  intros s i tk dd f eager k1 tl1 Hk Hd He Hel Hp s' s_in s_dr.
  assert (Hd' : t_done (set_key k1 tk) = false) by (destruct tk; exact Hd).
  assert (Hdr : s_dr = mk_sys (updl (updl (tasks s) i (set_key k1)) i
                                 (fun x => set_gone true (set_key (drop_submit (t_key x)) x)))
                              (drop_listeners i (t_exp tk) tl1) (s_panic s)).
  { unfold s_dr, drop_task, s_in. cbn [tasks toks s_panic]. rewrite nth_error_updl_eq, Hk.
    cbn [option_map]. rewrite Hd'. reflexivity. }
  assert (Hs' : s' = mk_sys (updl (tasks s) i (fun x0 => set_out (Some RElapsed) (set_key (drop_submit k1) x0)))
                            (drop_listeners i (t_exp tk) tl1) (s_panic s)).
  { unfold s'. rewrite (poll_task_after eager i s tk Hk Hd). rewrite He. cbn [poll_f]. rewrite Hp, Hel.
    cbn [after_poll]. rewrite He. reflexivity. }
  rewrite Hdr, Hs'. cbn [tasks toks]. split; [|split].
  - rewrite !nth_error_updl_eq, Hk. cbn. do 2 eexists. split; [reflexivity|]. split; [reflexivity|]. cbn. auto.
  - reflexivity.
  - intros j Hj. rewrite !nth_error_updl_neq by auto. reflexivity.
Qed.

Theorem no_fabricated_success : forall f d e short eager i k tl k' tl',
  poll_f f d e short eager i k tl = (k', tl', Ready RData) ->
  eager = Some KData \/ k_res k = Some KData.
Proof.
  intros f d e short eager i k tl k' tl' H. apply poll_f_spec in H.
  destruct H as [(_ & _ & H)|(r1 & Hs & Hr)]; [discriminate|].
  destruct Hr as [<-|[_ Hr]]; [|discriminate].
  assert (Hres : forall x, res_of x = RData -> x = KData) by (intros [| |]; cbn; congruence).
  unfold submit_poll in Hs. destruct (k_sub k).
  - destruct eager as [x|].
    + inversion Hs. left. f_equal. auto.
    + right. destruct (e_tok (leaf_ext e f)) as [t|].
      * unfold register in Hs. destruct (nth_error tl t) as [ts|].
        -- cbv zeta in Hs. destruct (fired ts).
           ++ destruct (cancel_by_token_spec (set_reg true (set_infl true (set_sub SSubmitted (set_ext (leaf_ext e f) k)))))
                as (_ & _ & _ & S4 & _). cbv zeta in S4. cbn in S4.
              unfold pop in Hs. rewrite S4 in Hs. destruct (k_res k) as [x|]; inversion Hs. f_equal; auto.
           ++ unfold pop in Hs. cbn in Hs. destruct (k_res k) as [x|]; inversion Hs. f_equal; auto.
        -- unfold pop in Hs. cbn in Hs. destruct (k_res k) as [x|]; inversion Hs. f_equal; auto.
      * unfold pop in Hs. cbn in Hs. destruct (k_res k) as [x|]; inversion Hs. f_equal; auto.
  - right. unfold pop in Hs. destruct (k_res k) as [x|]; inversion Hs. f_equal; auto.
  - discriminate.
Qed.

Definition wf (n : nat) (h : hst) : Prop := h_sys h = do_steps (sys_init n) (h_log h).

Lemma wf_app n st h : wf n h -> wf n (app st h).
Proof.
  unfold wf, app; cbn. intros ->. unfold do_steps. rewrite fold_left_app. reflexivity.
Qed.

Lemma wf_set_meta n m h : wf n h -> wf n (set_meta m h).
Proof. unfold wf; cbn; auto. Qed.
Lemma wf_set_avail n a h : wf n h -> wf n (set_avail a h).
Proof. unfold wf; cbn; auto. Qed.
Lemma wf_set_runs n a h : wf n h -> wf n (set_runs a h).
Proof. unfold wf; cbn; auto. Qed.

Lemma wf_fold {A} n (f : hst -> A -> hst) (l : list A) :
  (forall h x, wf n h -> wf n (f h x)) -> forall h, wf n h -> wf n (fold_left f l h).
Proof. intros Hf. induction l; cbn; auto. Qed.

Lemma wf_consume n r h : wf n h -> wf n (consume r h).
Proof. intros H. unfold consume. destruct (kind_of h r) as [|[|[|[|?]]]]; auto; apply wf_set_avail; auto. Qed.

Lemma wf_poll_one n h i : wf n h -> wf n (poll_one h i).
Proof.
  intros H. unfold poll_one. destruct (nth_error _ _); auto. destruct (t_done _); auto.
  destruct (_ && _).
  - destruct (key_of _ _) as [k|]; [destruct (k_sub k)|]; try apply wf_consume; apply wf_app; auto.
  - apply wf_app; auto.
Qed.

Lemma wf_poll_all n h : wf n h -> wf n (poll_all h).
Proof. apply wf_fold. intros; apply wf_poll_one; auto. Qed.

Lemma wf_resolve_one n h i : wf n h -> wf n (resolve_one h i).
Proof.
  intros H. unfold resolve_one. destruct (key_of h i) as [k|]; auto. destruct (negb _); auto.
  destruct (h_poll h).
  - destruct (0 <? k_dc k); [apply wf_app; auto|]. destruct (ready _ _); auto.
    apply wf_consume, wf_app; auto.
  - destruct (match e_pers (k_ext k) with Some _ => _ | None => _ end); [apply wf_app; auto|].
    destruct (ready _ _); [apply wf_consume, wf_app; auto|]. destruct (0 <? k_dc k); auto. apply wf_app; auto.
Qed.

Lemma wf_resolve n h : wf n h -> wf n (resolve h).
Proof. apply wf_fold. intros; apply wf_resolve_one; auto. Qed.

Lemma wf_settle n fuel : forall h, wf n h -> wf n (settle fuel h).
Proof. induction fuel; cbn; auto. intros h H. apply IHfuel, wf_poll_all, wf_resolve; auto. Qed.

Lemma wf_run_rt n h : wf n h -> wf n (run_rt h).
Proof.
  intros H. unfold run_rt. apply wf_set_runs. apply wf_fold.
  { intros h0 x H0. unfold see_one. destruct (nth_error _ _); auto. destruct (nth_error _ _); auto.
    destruct (t_out _); auto. destruct (_ && _); try apply wf_set_meta; auto. }
  apply wf_settle, wf_poll_all. unfold elapse_all. apply wf_fold; [intros; apply wf_app; auto|].
  apply wf_poll_all, wf_resolve, wf_poll_all. apply wf_fold; auto.
  intros h0 x H0. unfold drop_one. destruct (nth_error _ _); auto. destruct (_ && _); auto.
  apply wf_set_meta, wf_app; auto.
Qed.

Lemma wf_exec_step n h p : wf n h -> wf n (exec_step h p).
Proof.
  intros H. destruct p; cbn [exec_step].
  - apply wf_set_meta, wf_app; auto.
  - apply wf_set_avail; auto.
  - apply wf_app; auto.
  - apply wf_set_meta; auto.
  - apply wf_run_rt; auto.
Qed.

(* every program of the correspondence check is executed as a run of the LTS *)
Theorem run_is_lts_run : forall poll kinds ntok ps,
  let h := run_prog poll kinds ntok ps in
  h_sys h = do_steps (sys_init ntok) (h_log h).
Proof.
  intros poll kinds ntok ps. unfold run_prog. apply wf_run_rt. apply wf_fold.
  - intros; apply wf_exec_step; auto.
  - reflexivity.
Qed.
