(* ListFacts.v — list segment lemmas used by the buffer and I/O proofs *)
From Compio.Model Require Import Base.

Lemma firstn_app_exact {A} (X Y : list A) n m :
  length X = n -> firstn (n + m) (X ++ Y) = X ++ firstn m Y.
Proof.
  intros <-. rewrite firstn_app.
  replace (length X + m - length X) with m by lia.
  rewrite firstn_all2 by lia. reflexivity.
Qed.

Lemma skipn_app_exact {A} (X Y : list A) n m :
  length X = n -> skipn (n + m) (X ++ Y) = skipn m Y.
Proof.
  intros <-. rewrite skipn_app.
  replace (length X + m - length X) with m by lia.
  rewrite skipn_all2 by lia. reflexivity.
Qed.

Lemma firstn_add_skipn {A} (l : list A) k n :
  firstn k l ++ firstn n (skipn k l) = firstn (k + n) l.
Proof.
  revert l; induction k as [|k IH]; intros l; [reflexivity|].
  destruct l as [|x l]; cbn [firstn skipn plus app].
  - rewrite firstn_nil. reflexivity.
  - rewrite IH. reflexivity.
Qed.

Lemma skipn_skipn' {A} (l : list A) a b : skipn a (skipn b l) = skipn (b + a) l.
Proof.
  revert l; induction b as [|b IH]; intros l; [reflexivity|].
  destruct l as [|x l]; cbn [skipn plus]; [apply skipn_nil | apply IH].
Qed.

Lemma firstn_app_exact0 {A} (X Y : list A) n : length X = n -> firstn n (X ++ Y) = X.
Proof.
  intros H. rewrite <- (Nat.add_0_r n). rewrite (firstn_app_exact X Y n 0 H).
  cbn [firstn]. apply app_nil_r.
Qed.

Lemma skipn_app_exact0 {A} (X Y : list A) n : length X = n -> skipn n (X ++ Y) = Y.
Proof.
  intros H. rewrite <- (Nat.add_0_r n). rewrite (skipn_app_exact X Y n 0 H). reflexivity.
Qed.

Lemma write_at_length (c : list byte) off bs :
  off + length bs <= length c -> length (write_at c off bs) = length c.
Proof.
  intros H. unfold write_at. rewrite !app_length, firstn_length, skipn_length. lia.
Qed.

Lemma write_at_nil (c : list byte) off : off <= length c -> write_at c off [] = c.
Proof.
  intros H. unfold write_at. cbn [length app]. rewrite Nat.add_0_r. apply firstn_skipn.
Qed.

Lemma write_at_adjacent (c : list byte) r b1 b2 :
  r + length b1 + length b2 <= length c ->
  write_at (write_at c r b1) (r + length b1) b2 = write_at c r (b1 ++ b2).
Proof.
  intros H. unfold write_at.
  set (X := firstn r c). set (Y := skipn (r + length b1) c).
  assert (Hx : length X = r) by (unfold X; rewrite firstn_length; lia).
  assert (E1 : firstn (r + length b1) (X ++ b1 ++ Y) = X ++ b1).
  { rewrite (firstn_app_exact X _ r (length b1) Hx).
    rewrite (firstn_app_exact0 b1 Y (length b1) eq_refl). reflexivity. }
  assert (E2 : skipn (r + length b1 + length b2) (X ++ b1 ++ Y) = skipn (length b2) Y).
  { rewrite <- Nat.add_assoc. rewrite (skipn_app_exact X _ r _ Hx).
    rewrite (skipn_app_exact b1 Y (length b1) _ eq_refl). reflexivity. }
  rewrite E1, E2. unfold Y. rewrite skipn_skipn'. rewrite app_length, <- !app_assoc.
  do 3 f_equal. f_equal. lia.
Qed.

Lemma write_at_firstn (c : list byte) off bs :
  off <= length c -> firstn off (write_at c off bs) = firstn off c.
Proof.
  intros H. unfold write_at. apply firstn_app_exact0. rewrite firstn_length; lia.
Qed.

Lemma write_at_skipn (c : list byte) off bs :
  off <= length c ->
  skipn (off + length bs) (write_at c off bs) = skipn (off + length bs) c.
Proof.
  intros H. unfold write_at.
  assert (Hx : length (firstn off c) = off) by (rewrite firstn_length; lia).
  rewrite (skipn_app_exact _ _ off (length bs) Hx).
  apply skipn_app_exact0. reflexivity.
Qed.

Lemma write_at_read_back (c : list byte) off bs :
  off <= length c -> sub_list (write_at c off bs) off (length bs) = bs.
Proof.
  intros H. unfold sub_list, write_at.
  assert (Hx : length (firstn off c) = off) by (rewrite firstn_length; lia).
  rewrite (skipn_app_exact0 _ _ off Hx). apply firstn_app_exact0. reflexivity.
Qed.

Lemma write_at_0 (c : list byte) bs :
  write_at c 0 bs = bs ++ skipn (length bs) c.
Proof. reflexivity. Qed.
