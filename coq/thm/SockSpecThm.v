(* SockSpecThm.v — proofs about model/SockSpec.v (C14). *)
From Compio.Model Require Import Base SockSpec.
From Compio.Thm Require Import ListFacts.

(* ====================================================================== *)
(* 1. the reference stream is a FIFO queue                                *)

Definition label_sent (l : label) : list byte :=
  match l with LSend data k => firstn k data | _ => [] end.

Lemma sent_of_cons l ls : sent_of (l :: ls) = label_sent l ++ sent_of ls.
Proof. destruct l; reflexivity. Qed.

Lemma sent_of_app l1 l2 : sent_of (l1 ++ l2) = sent_of l1 ++ sent_of l2.
Proof.
  induction l1 as [|l r IH]; [reflexivity|].
  cbn [app]. rewrite !sent_of_cons, IH, app_assoc. reflexivity.
Qed.

Lemma ref_step_conserve s l s' o :
  ref_step s l = Some (s', o) -> out_consumed o ++ sq s' = sq s ++ label_sent l.
Proof.
  destruct l as [data k| |cap k|k]; cbn [ref_step label_sent].
  - destruct (negb (sclosed s) && send_ok data k); [|discriminate].
    intros [= <- <-]. reflexivity.
  - intros [= <- <-]. cbn. symmetry. apply app_nil_r.
  - destruct (recv_ok s cap k); [|discriminate]. intros [= <- <-]. cbn [out_consumed sq].
    rewrite firstn_skipn. symmetry. apply app_nil_r.
  - destruct (k <=? length (sq s)); [|discriminate]. intros [= <- <-]. cbn [out_consumed sq].
    rewrite firstn_skipn. symmetry. apply app_nil_r.
Qed.

Lemma ref_run_cons s l r :
  ref_run s (l :: r) =
  match ref_step s l with
  | None => None
  | Some (s1, o) => match ref_run s1 r with None => None | Some (s2, os) => Some (s2, o :: os) end
  end.
Proof. reflexivity. Qed.

Lemma ref_run_conserve ls : forall s s' os,
  ref_run s ls = Some (s', os) -> consumed os ++ sq s' = sq s ++ sent_of ls.
Proof.
  induction ls as [|l r IH]; intros s s' os H.
  - cbn in H. injection H as <- <-. cbn. symmetry. apply app_nil_r.
  - rewrite ref_run_cons in H.
    destruct (ref_step s l) as [[s1 o]|] eqn:E; [|discriminate].
    destruct (ref_run s1 r) as [[s2 os2]|] eqn:E2; [|discriminate].
    injection H as <- <-.
    unfold consumed. cbn [flat_map]. fold (consumed os2).
    rewrite <- app_assoc, (IH _ _ _ E2), app_assoc, (ref_step_conserve _ _ _ _ E).
    rewrite sent_of_cons, app_assoc. reflexivity.
Qed.

Lemma ref_run_app l1 : forall l2 s,
  ref_run s (l1 ++ l2) =
  match ref_run s l1 with
  | None => None
  | Some (s1, os1) =>
    match ref_run s1 l2 with None => None | Some (s2, os2) => Some (s2, os1 ++ os2) end
  end.
Proof.
  induction l1 as [|l r IH]; intros l2 s.
  - cbn. destruct (ref_run s l2) as [[? ?]|]; reflexivity.
  - cbn [app]. rewrite !ref_run_cons. destruct (ref_step s l) as [[s1 o]|]; [|reflexivity].
    rewrite IH. destruct (ref_run s1 r) as [[s2 os]|]; [|reflexivity].
    destruct (ref_run s2 l2) as [[? ?]|]; reflexivity.
Qed.

Lemma consumed_app a b : consumed (a ++ b) = consumed a ++ consumed b.
Proof. unfold consumed. apply flat_map_app. Qed.
Lemma delivered_app a b : delivered (a ++ b) = delivered a ++ delivered b.
Proof. unfold delivered. apply flat_map_app. Qed.

(* without drops everything consumed was delivered *)
Lemma ref_run_no_drop ls : forall s s' os,
  ref_run s ls = Some (s', os) -> existsb is_drop ls = false -> delivered os = consumed os.
Proof.
  induction ls as [|l r IH]; intros s s' os H ND.
  - cbn in H. injection H as <- <-. reflexivity.
  - rewrite ref_run_cons in H.
    destruct (ref_step s l) as [[s1 o]|] eqn:E; [|discriminate].
    destruct (ref_run s1 r) as [[s2 os2]|] eqn:E2; [|discriminate].
    injection H as <- <-. cbn [existsb] in ND. apply orb_false_iff in ND as [ND1 ND2].
    unfold delivered, consumed. cbn [flat_map]. fold (delivered os2) (consumed os2).
    rewrite (IH _ _ _ E2 ND2). f_equal.
    destruct l; cbn in E, ND1; try discriminate.
    + destruct (negb (sclosed s) && send_ok data k); [|discriminate]. injection E as <- <-. reflexivity.
    + injection E as <- <-. reflexivity.
    + destruct (recv_ok s cap k); [|discriminate]. injection E as <- <-. reflexivity.
Qed.

(* end of stream *)
Lemma eof_step s cap s' o :
  ref_step s (LRecv cap 0) = Some (s', o) -> 0 < cap -> sq s = [] /\ sclosed s = true /\ s' = s /\ o = OBytes [].
Proof.
  cbn [ref_step]. unfold recv_ok. intros H Hc.
  destruct (0 <=? cap); cbn [andb] in H; [|discriminate].
  destruct (0 <=? length (sq s)); cbn [andb] in H; [|discriminate].
  cbn [Nat.leb orb] in H.
  destruct (cap =? 0) eqn:Ec; [apply Nat.eqb_eq in Ec; lia|]. cbn [orb] in H.
  destruct (length (sq s) =? 0) eqn:El; cbn [andb] in H; [|discriminate].
  destruct (sclosed s) eqn:Ecl; [|discriminate].
  apply Nat.eqb_eq in El. destruct (sq s) eqn:Eq; [|discriminate].
  injection H as <- <-. repeat split. destruct s; cbn in *. subst. reflexivity.
Qed.

Lemma closed_empty_stays ls : forall s s' os,
  sclosed s = true -> sq s = [] -> ref_run s ls = Some (s', os) ->
  sent_of ls = [] /\ consumed os = [] /\ sq s' = [] /\ sclosed s' = true.
Proof.
  induction ls as [|l r IH]; intros s s' os Hc Hq H.
  - cbn in H. injection H as <- <-. auto.
  - rewrite ref_run_cons in H.
    destruct (ref_step s l) as [[s1 o]|] eqn:E; [|discriminate].
    destruct (ref_run s1 r) as [[s2 os2]|] eqn:E2; [|discriminate].
    injection H as <- <-.
    assert (Hs1 : sclosed s1 = true /\ sq s1 = [] /\ out_consumed o = [] /\ label_sent l = []).
    { destruct l as [data k| |cap k|k]; cbn [ref_step] in E.
      - rewrite Hc in E. cbn in E. discriminate.
      - injection E as <- <-. cbn. auto.
      - destruct (recv_ok s cap k); [|discriminate]. injection E as <- <-. cbn.
        rewrite Hq, skipn_nil, firstn_nil. auto.
      - destruct (k <=? length (sq s)); [|discriminate]. injection E as <- <-. cbn.
        rewrite Hq, skipn_nil, firstn_nil. auto. }
    destruct Hs1 as (A & B & C & D).
    destruct (IH _ _ _ A B E2) as (I1 & I2 & I3 & I4).
    rewrite sent_of_cons, D, I1. unfold consumed. cbn [flat_map]. fold (consumed os2).
    rewrite C, I2. auto.
Qed.

Lemma sclosed_mono ls : forall s s' os,
  ref_run s ls = Some (s', os) -> sclosed s' = true -> sclosed s = true \/ In LShutdown ls.
Proof.
  induction ls as [|l r IH]; intros s s' os H Hc.
  - cbn in H. injection H as <- <-. auto.
  - rewrite ref_run_cons in H.
    destruct (ref_step s l) as [[s1 o]|] eqn:E; [|discriminate].
    destruct (ref_run s1 r) as [[s2 os2]|] eqn:E2; [|discriminate].
    injection H as <- <-.
    destruct (IH _ _ _ E2 Hc) as [H1|H1]; [|right; right; exact H1].
    destruct l as [data k| |cap k|k]; cbn [ref_step] in E.
    + destruct (negb (sclosed s) && send_ok data k); [|discriminate]. injection E as <- <-.
      cbn in H1. discriminate.
    + right. left. reflexivity.
    + destruct (recv_ok s cap k); [|discriminate]. injection E as <- <-. left. exact H1.
    + destruct (k <=? length (sq s)); [|discriminate]. injection E as <- <-. left. exact H1.
Qed.

(* ====================================================================== *)
(* 2. the receive result mapping                                          *)

Lemma canaries_cyc_length n : forall c, length (canaries_cyc c n) = n.
Proof. induction n as [|n IH]; intros c; cbn; [reflexivity|]. rewrite IH. reflexivity. Qed.

Lemma fresh_cap len cap : bcap (fresh len cap) = cap.
Proof. unfold bcap, fresh. cbn. apply canaries_cyc_length. Qed.

Lemma os_fill_cap b bs : length bs <= bcap b -> bcap (os_fill b bs) = bcap b.
Proof. intros H. unfold bcap, os_fill. cbn [bcells]. apply write_at_length. exact H. Qed.

Lemma os_fill_cells b bs : bcells (os_fill b bs) = bs ++ skipn (length bs) (bcells b).
Proof. reflexivity. Qed.

(* plain receive: count n, the first n bytes of the buffer are what the OS
   delivered, the rest of the allocation is untouched, the length only grows,
   the capacity is unchanged, no panic *)
Lemma glue_recv_spec b bs :
  length bs <= bcap b -> blen b <= bcap b ->
  exists b', glue_recv b bs (length bs) = Ok (length bs, b') /\
    visible (length bs, b') = bs /\
    bcells b' = bs ++ skipn (length bs) (bcells b) /\
    blen b' = Nat.max (blen b) (length bs) /\ bcap b' = bcap b.
Proof.
  intros Hc Hl. unfold glue_recv, advance_to.
  pose proof (os_fill_cap b bs Hc) as Hcap.
  change (blen (os_fill b bs)) with (blen b).
  destruct (blen b <? length bs) eqn:E.
  - apply Nat.ltb_lt in E. rewrite Hcap.
    destruct (length bs <=? bcap b) eqn:E2; [|apply Nat.leb_gt in E2; lia].
    cbn [rbind]. eexists. split; [reflexivity|]. unfold visible. cbn [fst snd bcells blen].
    rewrite os_fill_cells. repeat split.
    + apply firstn_app_exact0. reflexivity.
    + lia.
    + unfold bcap. cbn [bcells]. rewrite <- os_fill_cells. exact Hcap.
  - apply Nat.ltb_ge in E. cbn [rbind]. eexists. split; [reflexivity|].
    unfold visible. cbn [fst snd]. rewrite os_fill_cells. repeat split.
    + apply firstn_app_exact0. reflexivity.
    + cbn. lia.
    + exact Hcap.
Qed.

(* an answer larger than the capacity (only possible when the caller passes
   MSG_TRUNC as an input flag and the path does not clamp) is the abort of
   Vec::set_len beyond the capacity *)
Lemma glue_recv_beyond b bs n :
  bcap b < n -> length bs <= bcap b -> blen b <= bcap b -> glue_recv b bs n = Panic P_SET_LEN.
Proof.
  intros Hn Hc Hl. unfold glue_recv, advance_to.
  change (blen (os_fill b bs)) with (blen b). rewrite (os_fill_cap b bs Hc).
  destruct (blen b <? n) eqn:E; [|apply Nat.ltb_ge in E; lia].
  destruct (n <=? bcap b) eqn:E2; [apply Nat.leb_le in E2; lia|]. reflexivity.
Qed.

(* ---- vectored ---------------------------------------------------------- *)

Lemma scatter_blen ms : forall bs, map blen (scatter ms bs) = map blen ms.
Proof. induction ms as [|m r IH]; intros bs; cbn; [reflexivity|]. rewrite IH. reflexivity. Qed.

Lemma total_len_map ms : total_len ms = fold_right Nat.add 0 (map blen ms).
Proof. induction ms as [|m r IH]; cbn; [reflexivity|]. rewrite <- IH. reflexivity. Qed.

Lemma scatter_total_len ms bs : total_len (scatter ms bs) = total_len ms.
Proof. rewrite !total_len_map, scatter_blen. reflexivity. Qed.

Lemma fresh_members_len0 ms : Forall (fun m => blen m = 0) ms -> total_len ms = 0.
Proof.
  induction 1 as [|m r H _ IH]; [reflexivity|].
  change (total_len (m :: r)) with (blen m + total_len r). rewrite H, IH. reflexivity.
Qed.

Lemma flat_binit_len0 ms : Forall (fun m => blen m = 0) ms -> flat_map binit ms = [].
Proof.
  induction 1 as [|m r H _ IH]; cbn; [reflexivity|]. rewrite IH. unfold binit. rewrite H. reflexivity.
Qed.

Lemma scatter_len0 ms : forall bs,
  Forall (fun m => blen m = 0) ms -> Forall (fun m => blen m = 0) (scatter ms bs).
Proof.
  induction ms as [|m r IH]; intros bs H; cbn; [constructor|].
  inversion H as [|? ? H1 H2]; subst. constructor; [exact H1|]. apply IH. exact H2.
Qed.

(* the OS filled the (fresh) members in order with bs; spreading the count
   over the members by capacity exposes exactly bs, in order *)
Lemma vec_set_len_scatter ms : forall bs,
  Forall (fun m => blen m = 0) ms -> length bs <= total_cap ms ->
  flat_map binit (vec_set_len (scatter ms bs) (length bs)) = bs.
Proof.
  induction ms as [|m r IH]; intros bs F H.
  - cbn in *. destruct bs; [reflexivity|cbn in H; lia].
  - destruct (length bs =? 0) eqn:E0.
    + apply Nat.eqb_eq in E0. destruct bs; [|discriminate].
      change (vec_set_len (scatter (m :: r) []) (length (@nil byte))) with (scatter (m :: r) []).
      apply flat_binit_len0. apply scatter_len0. exact F.
    + apply Nat.eqb_neq in E0. inversion F as [|? ? F1 F2]; subst.
      cbn [scatter vec_set_len]. destruct (length bs =? 0) eqn:E1; [apply Nat.eqb_eq in E1; lia|].
      set (k := Nat.min (bcap m) (length bs)).
      assert (Hk : length (firstn k bs) = k) by (rewrite firstn_length; unfold k; lia).
      assert (Hcap : bcap (os_fill m (firstn k bs)) = bcap m).
      { apply os_fill_cap. rewrite Hk. unfold k. lia. }
      rewrite Hcap. fold k. cbn [flat_map].
      assert (Hd : binit (mkubuf (bcells (os_fill m (firstn k bs))) k) = firstn k bs).
      { unfold binit. cbn [blen bcells]. rewrite os_fill_cells. apply firstn_app_exact0. exact Hk. }
      rewrite Hd.
      assert (Hs : length (skipn k bs) = length bs - k) by apply skipn_length.
      rewrite <- Hs. rewrite IH.
      * apply firstn_skipn.
      * exact F2.
      * rewrite Hs. cbn [total_cap fold_right] in H. fold (total_cap r) in H. unfold k. lia.
Qed.

Lemma glue_recv_vectored_spec ms bs :
  Forall (fun m => blen m = 0) ms -> length bs <= total_cap ms ->
  fst (glue_recv_vectored ms bs (length bs)) = length bs /\
  visible_v (glue_recv_vectored ms bs (length bs)) = bs.
Proof.
  intros F H. unfold glue_recv_vectored, visible_v. cbn [fst snd].
  rewrite Nat.min_l by exact H. split; [reflexivity|].
  unfold advance_vec_to. rewrite scatter_total_len, (fresh_members_len0 ms F).
  destruct (0 <? length bs) eqn:E.
  - apply vec_set_len_scatter; assumption.
  - apply Nat.ltb_ge in E. destruct bs; [|cbn in E; lia].
    apply flat_binit_len0. apply scatter_len0. exact F.
Qed.

(* a count beyond the total capacity is clamped: never beyond the buffers *)
Lemma glue_recv_vectored_clamped ms bs n :
  fst (glue_recv_vectored ms bs n) <= total_cap ms.
Proof. unfold glue_recv_vectored. cbn [fst]. lia. Qed.

Lemma fresh_members caps : Forall (fun m => blen m = 0) (map (fresh 0) caps).
Proof. induction caps; cbn; constructor; [reflexivity|assumption]. Qed.

(* ---- managed ----------------------------------------------------------- *)
Lemma glue_managed_spec cap bs :
  length bs <= cap ->
  glue_managed cap bs (length bs) = match bs with [] => None | _ => Some bs end.
Proof.
  intros H. unfold glue_managed. destruct bs as [|x t]; [reflexivity|].
  cbn [length Nat.eqb]. rewrite Nat.min_l by exact H. f_equal.
  apply (firstn_all (x :: t)).
Qed.

Lemma managed_cap_le L len : managed_cap L len <= L.
Proof. unfold managed_cap. destruct (len =? 0); lia. Qed.

(* ====================================================================== *)
(* 3. the multishot loop                                                   *)

Definition recv_entry (x : label * outp) : Prop :=
  exists cap k bs, x = (LRecv cap k, OBytes bs) /\ length bs = k.

(* the non-empty chunks of a receive trace, in order *)
Fixpoint chunks (tr : list (label * outp)) : list (list byte) :=
  match tr with
  | [] => []
  | (LRecv _ k, OBytes bs) :: r => if k =? 0 then chunks r else bs :: chunks r
  | _ :: r => chunks r
  end.

Lemma chunks_app a b : chunks (a ++ b) = chunks a ++ chunks b.
Proof.
  induction a as [|[l o] r IH]; [reflexivity|]. cbn [app chunks].
  destruct l; try exact IH. destruct o; try exact IH.
  destruct (k =? 0); [exact IH|]. rewrite IH. reflexivity.
Qed.

Lemma recv_step s cap k s' o :
  ref_step s (LRecv cap k) = Some (s', o) ->
  o = OBytes (firstn k (sq s)) /\ k <= length (sq s) /\ k <= cap /\
  s' = mkstream (skipn k (sq s)) (sclosed s).
Proof.
  cbn [ref_step]. unfold recv_ok.
  destruct (k <=? cap) eqn:E1; cbn [andb]; [|discriminate].
  destruct (k <=? length (sq s)) eqn:E2; cbn [andb]; [|discriminate].
  destruct ((1 <=? k) || (cap =? 0) || ((length (sq s) =? 0) && sclosed s)); [|discriminate].
  intros [= <- <-]. apply Nat.leb_le in E1, E2. auto.
Qed.

Lemma take_session_run ks : forall cap fb s s1 cs tr,
  take_session s cap fb ks = Some (s1, cs, tr) ->
  ref_run s (map fst tr) = Some (s1, map snd tr) /\ Forall recv_entry tr.
Proof.
  induction ks as [|[k more] r IH]; intros cap fb s s1 cs tr H.
  - cbn in H. injection H as <- <- <-. split; [reflexivity|constructor].
  - cbn [take_session] in H.
    destruct (ref_step s (LRecv cap k)) as [[s' o]|] eqn:E; [|discriminate].
    destruct (take_session s' cap fb r) as [[[s2 cs'] tr']|] eqn:E2; [|discriminate].
    injection H as <- <- <-.
    destruct (IH _ _ _ _ _ _ E2) as [R F].
    cbn [map fst snd]. rewrite ref_run_cons, E, R. split; [reflexivity|].
    constructor; [|exact F].
    destruct (recv_step _ _ _ _ _ E) as (-> & Hk & _ & _).
    exists cap, k, (firstn k (sq s)). split; [reflexivity|]. rewrite firstn_length. lia.
Qed.

Lemma take_session_items ks : forall cap fb s s1 cs tr,
  shape_ok ks = true -> take_session s cap fb ks = Some (s1, cs, tr) ->
  stream_session (session_items cs) =
    (map IBuf (chunks tr), existsb (fun x => fst x =? 0) ks).
Proof.
  induction ks as [|[k more] r IH]; intros cap fb s s1 cs tr W H; [discriminate|].
  cbn [take_session] in H.
  destruct (ref_step s (LRecv cap k)) as [[s' o]|] eqn:E; [|discriminate].
  destruct (take_session s' cap fb r) as [[[s2 cs'] tr']|] eqn:E2; [|discriminate].
  injection H as <- <- <-.
  destruct (recv_step _ _ _ _ _ E) as (-> & Hk & _ & _).
  cbn [out_delivered chunks existsb fst].
  assert (Hlen : length (firstn k (sq s)) = k) by (rewrite firstn_length; lia).
  destruct r as [|p r'].
  - cbn in E2. injection E2 as <- <- <-. cbn [shape_ok] in W.
    cbn [existsb orb chunks map]. rewrite orb_false_r.
    destruct (k =? 0) eqn:E0.
    + cbn [session_items cqe_final]. destruct fb; reflexivity.
    + cbn [orb] in W. apply negb_true_iff in W. subst more.
      cbn [session_items cqe_final negb].
      destruct (firstn k (sq s)) as [|x t] eqn:Ef.
      * cbn in Hlen. apply Nat.eqb_neq in E0. lia.
      * reflexivity.
  - cbn [shape_ok] in W. apply andb_true_iff in W as [W W3]. apply andb_true_iff in W as [W1 W2].
    subst more. apply Nat.leb_le in W2.
    destruct (k =? 0) eqn:E0; [apply Nat.eqb_eq in E0; lia|].
    cbn [session_items cqe_final negb stream_session].
    rewrite (IH _ _ _ _ _ _ W3 E2).
    destruct (firstn k (sq s)) as [|x t] eqn:Ef; [cbn in Hlen; lia|].
    cbn [orb map]. reflexivity.
Qed.

Lemma forallb_pos_no_eof (ks : list (nat * bool)) :
  forallb (fun x => 1 <=? fst x) ks = true -> existsb (fun x => fst x =? 0) ks = false.
Proof.
  induction ks as [|[k m] r IH]; [reflexivity|]. cbn [forallb existsb fst].
  intros H. apply andb_true_iff in H as [H1 H2]. apply Nat.leb_le in H1.
  rewrite (IH H2). destruct (k =? 0) eqn:E; [apply Nat.eqb_eq in E; lia|reflexivity].
Qed.

Lemma take_sessions_run kss : forall cap fb s s1 css tr,
  take_sessions s cap fb kss = Some (s1, css, tr) ->
  ref_run s (map fst tr) = Some (s1, map snd tr) /\ Forall recv_entry tr.
Proof.
  induction kss as [|ks r IH]; intros cap fb s s1 css tr H.
  - cbn in H. injection H as <- <- <-. split; [reflexivity|constructor].
  - cbn [take_sessions] in H.
    destruct (take_session s cap fb ks) as [[[s' cs] tr1]|] eqn:E; [|discriminate].
    destruct (take_sessions s' cap fb r) as [[[s2 css'] tr2]|] eqn:E2; [|discriminate].
    injection H as <- <- <-.
    destruct (take_session_run _ _ _ _ _ _ _ E) as [R1 F1].
    destruct (IH _ _ _ _ _ _ E2) as [R2 F2].
    rewrite !map_app, ref_run_app, R1, R2. split; [reflexivity|].
    apply Forall_app. split; assumption.
Qed.

Lemma take_sessions_items kss : forall cap fb s s1 css tr,
  shapes_ok kss = true -> take_sessions s cap fb kss = Some (s1, css, tr) ->
  fst (multishot_stream css) = map IBuf (chunks tr).
Proof.
  induction kss as [|ks r IH]; intros cap fb s s1 css tr W H.
  - cbn in H. injection H as <- <- <-. reflexivity.
  - cbn [take_sessions] in H.
    destruct (take_session s cap fb ks) as [[[s' cs] tr1]|] eqn:E; [|discriminate].
    destruct (take_sessions s' cap fb r) as [[[s2 css'] tr2]|] eqn:E2; [|discriminate].
    injection H as <- <- <-.
    cbn [multishot_stream]. rewrite chunks_app, map_app.
    destruct r as [|ks2 r'].
    + cbn [shapes_ok] in W. cbn in E2. injection E2 as <- <- <-.
      rewrite (take_session_items _ _ _ _ _ _ _ W E). cbn [chunks map].
      destruct (existsb (fun x => fst x =? 0) ks); cbn [multishot_stream fst];
        rewrite ?app_nil_r; reflexivity.
    + cbn [shapes_ok] in W. apply andb_true_iff in W as [W W3]. apply andb_true_iff in W as [W1 W2].
      rewrite (take_session_items _ _ _ _ _ _ _ W1 E), (forallb_pos_no_eof _ W2).
      specialize (IH _ _ _ _ _ _ W3 E2).
      destruct (multishot_stream css') as [l2 e2]. cbn [fst] in *. rewrite IH. reflexivity.
Qed.

Lemma delivered_chunks tr :
  Forall recv_entry tr -> delivered (map snd tr) = concat (chunks tr).
Proof.
  induction 1 as [|x r (cap & k & bs & -> & Hl) _ IH]; [reflexivity|].
  cbn [map snd chunks]. unfold delivered. cbn [flat_map out_delivered]. fold (delivered (map snd r)).
  rewrite IH. destruct (k =? 0) eqn:E0; [|reflexivity].
  apply Nat.eqb_eq in E0. subst k. destruct bs; [reflexivity|discriminate].
Qed.

Lemma recv_entries_consumed tr :
  Forall recv_entry tr -> consumed (map snd tr) = delivered (map snd tr).
Proof.
  induction 1 as [|x r (cap & k & bs & -> & Hl) _ IH]; [reflexivity|].
  cbn [map snd]. unfold consumed, delivered. cbn [flat_map out_consumed out_delivered].
  fold (consumed (map snd r)) (delivered (map snd r)). rewrite IH. reflexivity.
Qed.

Lemma recv_entries_no_drop tr :
  Forall recv_entry tr -> existsb is_drop (map fst tr) = false.
Proof.
  induction 1 as [|x r (cap & k & bs & -> & Hl) _ IH]; [reflexivity|]. cbn. exact IH.
Qed.

(* early drop: the chunks behind the j-th item are consumed, not delivered *)
Lemma relabel_run tr : forall s s1 j,
  Forall recv_entry tr -> ref_run s (map fst tr) = Some (s1, map snd tr) ->
  ref_run s (map fst (relabel_drops j tr)) = Some (s1, map snd (relabel_drops j tr)).
Proof.
  induction tr as [|x r IH]; intros s s1 j F H; [exact H|].
  inversion F as [|? ? (cap & k & bs & -> & Hl) F2]; subst.
  cbn [map fst snd] in H. rewrite ref_run_cons in H.
  destruct (ref_step s (LRecv cap (length bs))) as [[s' o]|] eqn:E; [|discriminate].
  destruct (ref_run s' (map fst r)) as [[s2 os]|] eqn:E2; [|discriminate].
  injection H as -> -> ->.
  destruct (recv_step _ _ _ _ _ E) as (Ho & Hk & _ & Hs).
  cbn [relabel_drops].
  destruct (length bs =? 0) eqn:E0.
  - cbn [map fst snd]. rewrite ref_run_cons, E, (IH _ _ j F2 E2). reflexivity.
  - destruct j as [|j'].
    + cbn [map fst snd]. rewrite ref_run_cons. cbn [ref_step].
      destruct (length bs <=? length (sq s)) eqn:E3; [|apply Nat.leb_gt in E3; lia].
      rewrite <- Hs, (IH _ _ 0 F2 E2). injection Ho as Hb. rewrite <- Hb. reflexivity.
    + cbn [map fst snd]. rewrite ref_run_cons, E, (IH _ _ j' F2 E2). reflexivity.
Qed.

Lemma relabel_delivered tr : forall j,
  Forall recv_entry tr ->
  delivered (map snd (relabel_drops j tr)) = concat (firstn j (chunks tr)).
Proof.
  induction tr as [|x r IH]; intros j F; [destruct j; reflexivity|].
  inversion F as [|? ? (cap & k & bs & -> & Hl) F2]; subst.
  cbn [relabel_drops chunks]. destruct (length bs =? 0) eqn:E0.
  - cbn [map snd]. unfold delivered. cbn [flat_map out_delivered]. fold (delivered (map snd (relabel_drops j r))).
    rewrite (IH j F2). apply Nat.eqb_eq in E0. destruct bs; [reflexivity|discriminate].
  - destruct j as [|j']; cbn [map snd firstn concat]; unfold delivered; cbn [flat_map out_delivered].
    + fold (delivered (map snd (relabel_drops 0 r))). rewrite (IH 0 F2). reflexivity.
    + fold (delivered (map snd (relabel_drops j' r))). rewrite (IH j' F2). reflexivity.
Qed.

Lemma relabel_consumed tr : forall j,
  Forall recv_entry tr ->
  consumed (map snd (relabel_drops j tr)) = consumed (map snd tr).
Proof.
  induction tr as [|x r IH]; intros j F; [reflexivity|].
  inversion F as [|? ? (cap & k & bs & -> & Hl) F2]; subst.
  cbn [relabel_drops]. destruct (length bs =? 0).
  - cbn [map snd]. unfold consumed. cbn [flat_map]. fold (consumed (map snd (relabel_drops j r))) (consumed (map snd r)).
    rewrite (IH j F2). reflexivity.
  - destruct j as [|j']; cbn [map snd]; unfold consumed; cbn [flat_map out_consumed].
    + fold (consumed (map snd (relabel_drops 0 r))) (consumed (map snd r)). rewrite (IH 0 F2). reflexivity.
    + fold (consumed (map snd (relabel_drops j' r))) (consumed (map snd r)). rewrite (IH j' F2). reflexivity.
Qed.

Lemma items_bytes_map cs : items_bytes (map IBuf cs) = concat cs.
Proof. induction cs as [|c r IH]; [reflexivity|]. cbn. unfold items_bytes in IH. rewrite IH. reflexivity. Qed.

(* the multishot theorem proper, over the glue alone: for every schedule of
   CQEs that obeys the discipline, the stream yields the successive chunks the
   kernel took out of the socket, each once, in order *)
Lemma multishot_items_are_chunks kss cap fb s s1 css tr :
  shapes_ok kss = true -> take_sessions s cap fb kss = Some (s1, css, tr) ->
  items_bytes (fst (multishot_stream css)) = delivered (map snd tr) /\
  ref_run s (map fst tr) = Some (s1, map snd tr).
Proof.
  intros W H. destruct (take_sessions_run _ _ _ _ _ _ _ H) as [R F].
  rewrite (take_sessions_items _ _ _ _ _ _ _ W H), items_bytes_map, (delivered_chunks _ F).
  split; [reflexivity|exact R].
Qed.

(* ====================================================================== *)
(* 4. zero-copy send                                                       *)

Lemma zc_send_two_phase {B} (buf : B) cs :
  zc_wf cs = true ->
  exists r, zc_send buf cs = Some (Ok (r, buf, length cs)) /\
            match cs with ZC r0 _ :: _ => r = r0 | [] => False end.
Proof.
  destruct cs as [|[r m] [|[r2 m2] [|x t]]]; cbn; try discriminate.
  - destruct m; [discriminate|]. intros _. exists r. split; reflexivity.
  - destruct m; [|discriminate]. destruct m2; [discriminate|]. intros _. exists r. split; reflexivity.
  - destruct m; [|discriminate]. destruct m2; discriminate.
Qed.

(* a second F_MORE CQE (outside the kernel's contract) is the panic of
   Zerocopy::poll, not a silent early return of the buffer *)
Lemma zc_send_never_early {B} (buf : B) cs r b seen :
  zc_send buf cs = Some (Ok (r, b, seen)) ->
  b = buf /\ exists c, nth_error cs (seen - 1) = Some c /\ match c with ZC _ more => more = false end.
Proof.
  destruct cs as [|[r0 m] rest]; [discriminate|]. cbn [zc_send].
  destruct m; cbn [negb].
  - destruct rest as [|[r2 m2] t]; [discriminate|]. destruct m2; [discriminate|].
    intros [= <- <- <-]. split; [reflexivity|]. exists (ZC r2 false). split; reflexivity.
  - intros [= <- <- <-]. split; [reflexivity|]. exists (ZC r0 false). split; reflexivity.
Qed.

Lemma zc_cqes_wf k notif : zc_wf (zc_cqes k notif) = true.
Proof. destruct notif; reflexivity. Qed.

(* ====================================================================== *)
(* 5. every operation is a run of the reference queue                      *)

Definition sound (s s1 : stream) (ob : obs) (tr : list (label * outp)) : Prop :=
  ref_run s (map fst tr) = Some (s1, map snd tr) /\
  obs_bytes ob = delivered (map snd tr).

Lemma run_sop_sound s op s1 ob tr :
  run_sop s op = Some (s1, ob, tr) ->
  sound s s1 ob tr /\ existsb is_drop (map fst tr) = false /\
  sent_of (map fst tr) = firstn (sop_k op) (sop_offer op) /\
  (* the result is the accepted count and the buffer comes back unchanged *)
  match op with
  | SWrite b k | SWriteZc b k _ => ob = ObsSent k b
  | SWriteV ms k | SWriteZcV ms k _ => ob = ObsSentV k ms
  end.
Proof.
  unfold run_sop. destruct (ref_step s (LSend (sop_offer op) (sop_k op))) as [[s' o]|] eqn:E; [|discriminate].
  destruct (sop_obs op) as [ob'|] eqn:Eo; [|discriminate]. intros [= <- <- <-].
  assert (Ho : o = ONone).
  { cbn [ref_step] in E. destruct (negb (sclosed s) && send_ok (sop_offer op) (sop_k op)); [|discriminate].
    injection E as _ <-. reflexivity. }
  subst o. unfold sound. cbn [map fst snd]. rewrite ref_run_cons, E. cbn [ref_run].
  assert (Hob : obs_bytes ob' = [] /\
                match op with
                | SWrite b k | SWriteZc b k _ => ob' = ObsSent k b
                | SWriteV ms k | SWriteZcV ms k _ => ob' = ObsSentV k ms
                end).
  { destruct op as [b k|ms k|b k notif|ms k notif]; cbn [sop_obs] in Eo.
    - injection Eo as <-. split; reflexivity.
    - injection Eo as <-. split; reflexivity.
    - destruct notif; cbn in Eo; injection Eo as <-; split; reflexivity.
    - destruct notif; cbn in Eo; injection Eo as <-; split; reflexivity. }
  destruct Hob as [Hb Hr]. rewrite Hb. repeat split; try reflexivity.
  - cbn. apply app_nil_r.
  - exact Hr.
Qed.

Lemma run_rop_sound L s op s1 ob tr :
  run_rop L s op = Some (s1, ob, tr) -> rop_wf op = true ->
  sound s s1 ob tr /\ sent_of (map fst tr) = [] /\
  (match op with RMulti _ _ _ (Some _) => False | _ => True end ->
   existsb is_drop (map fst tr) = false).
Proof.
  intros H W. destruct op as [len cap k|caps k|len k|len fb kss take]; cbn [run_rop] in H.
  - (* plain *)
    destruct (ref_step s (LRecv cap k)) as [[s' o]|] eqn:E; [|discriminate].
    destruct (recv_step _ _ _ _ _ E) as (-> & Hk & Hc & _).
    cbn [out_delivered] in H. cbn [rop_wf] in W. apply Nat.leb_le in W.
    set (bs := firstn k (sq s)) in *.
    assert (Hl : length bs = k) by (unfold bs; rewrite firstn_length; lia).
    destruct (glue_recv_spec (fresh len cap) bs) as (b' & G & V & _).
    { rewrite fresh_cap. lia. }
    { rewrite fresh_cap. exact W. }
    rewrite Hl in G. rewrite G in H. injection H as <- <- <-.
    unfold sound. cbn [map fst snd]. rewrite ref_run_cons, E. cbn [ref_run obs_bytes].
    rewrite <- Hl at 1. rewrite V. unfold delivered. cbn. rewrite app_nil_r.
    repeat split; reflexivity.
  - (* vectored *)
    set (ms := map (fresh 0) caps) in *.
    destruct (ref_step s (LRecv (total_cap ms) k)) as [[s' o]|] eqn:E; [|discriminate].
    destruct (recv_step _ _ _ _ _ E) as (-> & Hk & Hc & _).
    cbn [out_delivered] in H.
    set (bs := firstn k (sq s)) in *.
    assert (Hl : length bs = k) by (unfold bs; rewrite firstn_length; lia).
    destruct (glue_recv_vectored ms bs k) as [n ms'] eqn:G. injection H as <- <- <-.
    destruct (glue_recv_vectored_spec ms bs (fresh_members caps)) as [_ V]; [lia|].
    rewrite Hl, G in V.
    unfold sound. cbn [map fst snd]. rewrite ref_run_cons, E. cbn [ref_run obs_bytes].
    rewrite V. unfold delivered. cbn. rewrite app_nil_r. repeat split; reflexivity.
  - (* managed *)
    destruct (ref_step s (LRecv (managed_cap L len) k)) as [[s' o]|] eqn:E; [|discriminate].
    destruct (recv_step _ _ _ _ _ E) as (-> & Hk & Hc & _).
    cbn [out_delivered] in H. injection H as <- <- <-.
    set (bs := firstn k (sq s)) in *.
    assert (Hl : length bs = k) by (unfold bs; rewrite firstn_length; lia).
    unfold sound. cbn [map fst snd]. rewrite ref_run_cons, E. cbn [ref_run obs_bytes].
    rewrite <- Hl at 1. rewrite glue_managed_spec by lia.
    unfold delivered. cbn. rewrite app_nil_r.
    repeat split; try reflexivity. destruct bs; reflexivity.
  - (* multishot *)
    cbn [rop_wf] in W.
    destruct (take_sessions s (managed_cap L len) fb kss) as [[[s' css] tr0]|] eqn:E; [|discriminate].
    destruct (take_sessions_run _ _ _ _ _ _ _ E) as [R F].
    pose proof (take_sessions_items _ _ _ _ _ _ _ W E) as I.
    destruct (multishot_stream css) as [l ended]. cbn [fst] in I. subst l.
    assert (Hsent : forall t, Forall recv_entry t -> sent_of (map fst t) = []).
    { induction 1 as [|x r (c & k & b & -> & _) _ IH]; [reflexivity|]. exact IH. }
    destruct take as [j|]; injection H as <- <- <-.
    + unfold sound. rewrite (relabel_run _ _ _ j F R). cbn [obs_bytes].
      rewrite firstn_map, items_bytes_map, (relabel_delivered _ j F).
      repeat split; try reflexivity.
      * (* sent_of of relabelled trace *)
        clear -F. revert j. induction F as [|x r (c & k & b & -> & _) _ IH]; intros j; [reflexivity|].
        cbn [relabel_drops]. destruct (k =? 0); [exact (IH j)|].
        destruct j; [exact (IH 0)|exact (IH j)].
      * intros [].
    + unfold sound. rewrite R. cbn [obs_bytes]. rewrite items_bytes_map, (delivered_chunks _ F).
      repeat split; try reflexivity.
      * apply Hsent. exact F.
      * intros _. apply recv_entries_no_drop. exact F.
Qed.

Lemma run_events_sound L es : forall s s1 os tr,
  run_events L s es = Some (s1, os, tr) -> forallb event_wf es = true ->
  ref_run s (map fst tr) = Some (s1, map snd tr) /\
  flat_map obs_bytes os = delivered (map snd tr) /\
  sent_of (map fst tr) = events_sent es /\
  (existsb early_drop es = false -> existsb is_drop (map fst tr) = false).
Proof.
  induction es as [|e r IH]; intros s s1 os tr H W.
  - cbn in H. injection H as <- <- <-. repeat split; reflexivity.
  - cbn [run_events] in H.
    destruct (run_event L s e) as [[[s' ob] tr1]|] eqn:E; [|discriminate].
    destruct (run_events L s' r) as [[[s2 os2] tr2]|] eqn:E2; [|discriminate].
    injection H as <- <- <-. cbn [forallb] in W. apply andb_true_iff in W as [W1 W2].
    destruct (IH _ _ _ _ E2 W2) as (R2 & B2 & S2 & D2).
    assert (H1 : sound s s' ob tr1 /\ sent_of (map fst tr1) = event_sent e /\
                 (early_drop e = false -> existsb is_drop (map fst tr1) = false)).
    { destruct e as [v op|v|v op]; cbn [run_event] in E.
      - destruct (run_sop_sound _ _ _ _ _ E) as (A & B & C & _). repeat split; try apply A; auto.
      - injection E as <- <- <-. unfold sound. repeat split; reflexivity.
      - cbn [event_wf] in W1. destruct (run_rop_sound _ _ _ _ _ _ E W1) as (A & B & C).
        repeat split; try apply A; auto.
        cbn [early_drop]. intros Hd. apply C. destruct op as [| | |? ? ? [j|]]; try exact I. discriminate. }
    destruct H1 as ((R1 & B1) & S1 & D1).
    rewrite !map_app, ref_run_app, R1, R2. cbn [flat_map]. rewrite B1, B2, delivered_app.
    rewrite sent_of_app, S1, S2. repeat split; try reflexivity.
    cbn [existsb]. intros Hd. apply orb_false_iff in Hd as [Hd1 Hd2].
    rewrite existsb_app, (D1 Hd1), (D2 Hd2). reflexivity.
Qed.

(* the stream theorem *)
Theorem stream_exact L es s' os tr :
  run_events L stream0 es = Some (s', os, tr) -> forallb event_wf es = true ->
  ref_run stream0 (map fst tr) = Some (s', map snd tr) /\
  flat_map obs_bytes os = delivered (map snd tr) /\
  consumed (map snd tr) ++ sq s' = events_sent es /\
  (existsb early_drop es = false -> flat_map obs_bytes os ++ sq s' = events_sent es).
Proof.
  intros H W. destruct (run_events_sound _ _ _ _ _ _ H W) as (R & B & S & D).
  pose proof (ref_run_conserve _ _ _ _ R) as C. cbn [sq stream0 app] in C. rewrite S in C.
  repeat split; try assumption.
  intros Hd. rewrite B, (ref_run_no_drop _ _ _ _ R (D Hd)). exact C.
Qed.

Lemma ref_run_length ls : forall s s' os, ref_run s ls = Some (s', os) -> length os = length ls.
Proof.
  induction ls as [|l r IH]; intros s s' os H.
  - cbn in H. injection H as _ <-. reflexivity.
  - rewrite ref_run_cons in H. destruct (ref_step s l) as [[sa o]|]; [|discriminate].
    destruct (ref_run sa r) as [[sb osb]|] eqn:Er; [|discriminate]. injection H as _ <-.
    cbn. f_equal. eapply IH. exact Er.
Qed.

(* end of stream is reported only after shutdown, when every byte ever
   accepted has been taken out of the queue; from then on nothing is sent and
   every receive is again end-of-stream *)
Theorem stream_eof ls1 cap ls2 s os :
  ref_run stream0 (ls1 ++ LRecv cap 0 :: ls2) = Some (s, os) -> 0 < cap ->
  In LShutdown ls1 /\
  consumed (firstn (length ls1) os) = sent_of ls1 /\
  sent_of ls2 = [] /\ consumed (skipn (length ls1) os) = [] /\ sq s = [].
Proof.
  intros H Hc. rewrite ref_run_app in H.
  destruct (ref_run stream0 ls1) as [[s1 os1]|] eqn:E1; [|discriminate].
  rewrite ref_run_cons in H.
  destruct (ref_step s1 (LRecv cap 0)) as [[s2 o]|] eqn:E; [|discriminate].
  destruct (ref_run s2 ls2) as [[s3 os3]|] eqn:E3; [|discriminate].
  injection H as <- <-.
  destruct (eof_step _ _ _ _ E Hc) as (Hq & Hcl & -> & ->).
  destruct (closed_empty_stays _ _ _ _ Hcl Hq E3) as (A & B & C & _).
  pose proof (ref_run_conserve _ _ _ _ E1) as K. rewrite Hq, app_nil_r in K. cbn [sq stream0 app] in K.
  pose proof (ref_run_length _ _ _ _ E1) as Hlen.
  rewrite <- Hlen, firstn_app_exact0, skipn_app_exact0 by reflexivity.
  split; [destruct (sclosed_mono _ _ _ _ E1 Hcl) as [X|X]; [discriminate X|exact X]|].
  split; [exact K|]. split; [exact A|]. split; [|exact C].
  unfold consumed. cbn [flat_map out_consumed]. fold (consumed os3). rewrite B. reflexivity.
Qed.

(* halves are the same socket *)
Lemma split_same L es : forall v s, run_events L s (map (retag v) es) = run_events L s es.
Proof.
  induction es as [|e r IH]; intros v s; [reflexivity|]. cbn [map run_events].
  assert (E : run_event L s (retag v e) = run_event L s e) by (destruct e; reflexivity).
  rewrite E. destruct (run_event L s e) as [[[s1 o] t]|]; [|reflexivity]. rewrite IH. reflexivity.
Qed.

(* multishot: an early drop never delivers a chunk twice and loses only what
   this reader had not observed *)
Theorem multishot_no_dup L s len fb kss take s1 ob tr :
  run_rop L s (RMulti len fb kss take) = Some (s1, ob, tr) -> shapes_ok kss = true ->
  exists cs : list (list byte),
    (* the kernel took these successive chunks out of the socket *)
    concat cs ++ sq s1 = sq s /\
    match take with
    | None => obs_bytes ob = concat cs
    | Some j => obs_bytes ob = concat (firstn j cs) /\
                consumed (map snd tr) = concat cs /\
                delivered (map snd tr) = concat (firstn j cs)
    end.
Proof.
  intros H W. cbn [run_rop] in H.
  destruct (take_sessions s (managed_cap L len) fb kss) as [[[s' css] tr0]|] eqn:E; [|discriminate].
  destruct (take_sessions_run _ _ _ _ _ _ _ E) as [R F].
  pose proof (take_sessions_items _ _ _ _ _ _ _ W E) as I.
  destruct (multishot_stream css) as [l ended]. cbn [fst] in I. subst l.
  exists (chunks tr0).
  pose proof (ref_run_conserve _ _ _ _ R) as K.
  assert (S0 : sent_of (map fst tr0) = []).
  { clear -F. induction F as [|x r (c & k & b & -> & _) _ IH]; [reflexivity|]. exact IH. }
  rewrite S0, app_nil_r, (recv_entries_consumed _ F), (delivered_chunks _ F) in K.
  destruct take as [j|]; injection H as <- <- <-.
  - split; [exact K|]. cbn [obs_bytes]. rewrite firstn_map, items_bytes_map.
    rewrite (relabel_consumed _ j F), (recv_entries_consumed _ F), (delivered_chunks _ F).
    rewrite (relabel_delivered _ j F). repeat split; reflexivity.
  - split; [exact K|]. cbn [obs_bytes]. apply items_bytes_map.
Qed.

(* ====================================================================== *)
(* 6. datagrams                                                            *)

Lemma advance_vec_scatter ms bs :
  Forall (fun m => blen m = 0) ms -> length bs <= total_cap ms ->
  flat_map binit (advance_vec_to (scatter ms bs) (length bs)) = bs.
Proof.
  intros F H. unfold advance_vec_to. rewrite scatter_total_len, (fresh_members_len0 ms F).
  destruct (0 <? length bs) eqn:E.
  - apply vec_set_len_scatter; assumption.
  - apply Nat.ltb_ge in E. destruct bs; [|cbn in E; lia].
    apply flat_binit_len0. apply scatter_len0. exact F.
Qed.

Lemma dg_bytes_len d cap : length (firstn cap (dpay d)) = Nat.min (length (dpay d)) cap.
Proof. rewrite firstn_length. lia. Qed.

(* recv_from into a Vec: one datagram, cut to the capacity and never beyond
   it, the rest of the allocation untouched, the source address preserved *)
Theorem dgram_recv_from d len cap clamp :
  len <= cap ->
  let n := Nat.min (length (dpay d)) cap in
  exists b',
    glue_recv_from (fresh len cap) (dg_answer d cap false) clamp = Ok (n, Some (dsrc d), b') /\
    visible (n, b') = firstn cap (dpay d) /\
    bcap b' = cap /\ blen b' = Nat.max len n /\
    skipn n (bcells b') = skipn n (bcells (fresh len cap)).
Proof.
  intros Hl n. unfold glue_recv_from, dg_answer. cbn [m_n m_bytes]. unfold map_addr. cbn [m_namelen m_name Nat.eqb].
  rewrite fresh_cap.
  assert (Hn : (if clamp then Nat.min n cap else n) = length (firstn cap (dpay d))).
  { rewrite dg_bytes_len. fold n. destruct clamp; unfold n; lia. }
  fold n. rewrite Hn.
  destruct (glue_recv_spec (fresh len cap) (firstn cap (dpay d))) as (b' & G & V & Cs & Ln & Cp).
  { rewrite fresh_cap, dg_bytes_len. lia. }
  { rewrite fresh_cap. exact Hl. }
  rewrite G. cbn [rbind fst snd]. rewrite dg_bytes_len in *. fold n in V, Ln, Cs |- *.
  exists b'. rewrite fresh_cap in Cp. repeat split; try assumption.
  rewrite Cs. apply skipn_app_exact0. unfold n. apply dg_bytes_len.
Qed.

(* recv_msg / recv_msg_vectored: the same, plus the truncation flag iff cut *)
Theorem dgram_recv_msg d caps :
  let ms := map (fresh 0) caps in
  let cap := total_cap ms in
  exists ms',
    glue_recv_msg ms (dg_answer d cap false) =
      (Nat.min (length (dpay d)) cap, 0, Some (dsrc d),
       (if cap <? length (dpay d) then MSG_TRUNC else 0%N), ms') /\
    flat_map binit ms' = firstn cap (dpay d).
Proof.
  intros ms cap. unfold glue_recv_msg, dg_answer. cbn [m_n m_bytes m_controllen m_flags].
  unfold map_addr. cbn [m_namelen m_name Nat.eqb].
  eexists. split; [reflexivity|].
  rewrite <- (dg_bytes_len d cap). apply advance_vec_scatter.
  - apply fresh_members.
  - rewrite dg_bytes_len. fold cap. lia.
Qed.

Theorem dgram_managed d cap :
  glue_recv_from_managed cap (dg_answer d cap false) =
  match dpay d with
  | [] => None
  | _ => Some (firstn cap (dpay d), Some (dsrc d), if cap <? length (dpay d) then MSG_TRUNC else 0%N)
  end \/ cap = 0.
Proof.
  destruct cap as [|c]; [right; reflexivity|left].
  unfold glue_recv_from_managed, dg_answer. cbn [m_n m_bytes m_flags].
  unfold map_addr. cbn [m_namelen m_name Nat.eqb].
  rewrite <- (dg_bytes_len d (S c)), glue_managed_spec by (rewrite dg_bytes_len; lia).
  destruct (dpay d) as [|x t]; reflexivity.
Qed.

Lemma dgram_one_per_recv d q cap a : dg_recv (d :: q) cap a = Some (dg_answer d cap a, q).
Proof. reflexivity. Qed.

(* with MSG_TRUNC as an INPUT flag the return value is the real length; the
   paths that do not clamp hand it to advance_to: set_len beyond the capacity *)
Lemma dgram_ask_len_unclamped d len cap :
  len <= cap -> cap < length (dpay d) ->
  glue_recv_from (fresh len cap) (dg_answer d cap true) false = Panic P_SET_LEN /\
  exists b', glue_recv_from (fresh len cap) (dg_answer d cap true) true = Ok (cap, Some (dsrc d), b').
Proof.
  intros Hl Hc. unfold glue_recv_from, dg_answer. cbn [m_n m_bytes]. split.
  - rewrite glue_recv_beyond; [reflexivity| | |].
    + rewrite fresh_cap. exact Hc.
    + rewrite fresh_cap, firstn_length. lia.
    + rewrite fresh_cap. exact Hl.
  - rewrite fresh_cap, Nat.min_r by lia.
    destruct (glue_recv_spec (fresh len cap) (firstn cap (dpay d))) as (b' & G & _).
    { rewrite fresh_cap, firstn_length. lia. }
    { rewrite fresh_cap. exact Hl. }
    rewrite firstn_length, Nat.min_l in G by lia. rewrite G. cbn [rbind]. eexists. reflexivity.
Qed.

(* io_uring multishot recvmsg buffer layout *)
Lemma mshot_data_is_payload hdr name ctrl payload clen :
  length hdr = MSHOT_HDR -> length name = MSHOT_NAME -> length ctrl = clen ->
  mshot_data clen (mshot_layout hdr name ctrl payload) = payload.
Proof.
  intros H1 H2 H3. unfold mshot_data, mshot_layout.
  rewrite <- Nat.add_assoc, (skipn_app_exact hdr _ MSHOT_HDR _ H1).
  rewrite (skipn_app_exact name _ MSHOT_NAME _ H2). apply skipn_app_exact0. exact H3.
Qed.

(* ====================================================================== *)
(* 7. accept                                                               *)

Lemma accepted_app a b : accepted (a ++ b) = accepted a ++ accepted b.
Proof. unfold accepted. apply flat_map_app. Qed.

(* the glue: for every schedule of CQEs obeying the discipline, every
   connection CQE becomes exactly one socket, in order *)
Lemma incoming_session_all cs :
  asession_wf cs = true -> accepted (incoming_session cs) = session_conns cs.
Proof.
  induction cs as [|a r IH]; [discriminate|]. cbn [asession_wf incoming_session].
  destruct r as [|a2 r'].
  - intros W. rewrite W. destruct a; reflexivity.
  - intros W. apply andb_true_iff in W as [W1 W2]. apply negb_true_iff in W1. rewrite W1.
    change (accepted (?x :: ?l)) with (aitem_conn x ++ accepted l).
    rewrite (IH W2). destruct a; reflexivity.
Qed.

Theorem incoming_exactly_once css :
  forallb asession_wf css = true ->
  accepted (incoming_stream css) = flat_map session_conns css.
Proof.
  induction css as [|cs r IH]; [reflexivity|]. cbn [forallb]. intros W.
  apply andb_true_iff in W as [W1 W2]. unfold incoming_stream. cbn [flat_map].
  fold (incoming_stream r). rewrite accepted_app, (incoming_session_all _ W1), (IH W2). reflexivity.
Qed.

Lemma serve_one_spec s : forall pending cs rest,
  serve_one pending s = Some (cs, rest) -> ashape_ok s = true ->
  session_conns cs ++ rest = pending /\ asession_wf cs = true.
Proof.
  induction s as [|m r IH]; intros pending cs rest H W; [discriminate|].
  destruct pending as [|c p]; [discriminate|]. cbn [serve_one] in H.
  destruct (serve_one p r) as [[cs' p2]|] eqn:E; [|discriminate]. injection H as <- <-.
  cbn [ashape_ok] in W. destruct r as [|m2 r'].
  - cbn in E. injection E as <- <-. split; [reflexivity|]. cbn. exact W.
  - apply andb_true_iff in W as [W1 W2]. subst m.
    destruct (IH _ _ _ E W2) as [A B]. split.
    + cbn [session_conns flat_map acqe_conn app]. fold (session_conns cs'). rewrite A. reflexivity.
    + destruct cs' as [|a t]; [discriminate|]. cbn [asession_wf acqe_final negb andb]. exact B.
Qed.

Lemma serve_accepts_spec shape : forall pending css rest,
  serve_accepts pending shape = Some (css, rest) -> forallb ashape_ok shape = true ->
  flat_map session_conns css ++ rest = pending /\ forallb asession_wf css = true.
Proof.
  induction shape as [|s r IH]; intros pending css rest H W.
  - cbn in H. injection H as <- <-. split; reflexivity.
  - cbn [serve_accepts] in H. destruct (serve_one pending s) as [[cs p1]|] eqn:E; [|discriminate].
    destruct (serve_accepts p1 r) as [[css' p2]|] eqn:E2; [|discriminate]. injection H as <- <-.
    cbn [forallb] in W. apply andb_true_iff in W as [W1 W2].
    destruct (serve_one_spec _ _ _ _ E W1) as [A B]. destruct (IH _ _ _ E2 W2) as [C D].
    split; [|cbn [forallb]; rewrite B, D; reflexivity].
    cbn [flat_map]. rewrite <- app_assoc, C. exact A.
Qed.

Lemma NoDup_app_left {A} (a b : list A) : NoDup (a ++ b) -> NoDup a.
Proof.
  induction a as [|x r IH]; intros H; [constructor|].
  inversion H as [|? ? Hn Hr]; subst. constructor.
  - intros Hin. apply Hn. apply in_or_app. left. exact Hin.
  - apply IH. exact Hr.
Qed.

(* single accept = submissions of one final CQE; multishot = F_MORE chains *)
Theorem accept_once pending shape css rest :
  serve_accepts pending shape = Some (css, rest) -> forallb ashape_ok shape = true ->
  accepted (incoming_stream css) ++ rest = pending /\
  (NoDup pending -> NoDup (accepted (incoming_stream css))) /\
  (* the consumer keeps j items and drops the stream: the others were accepted
     by the kernel and are closed with the operation, never handed out twice *)
  forall j, accepted (firstn j (incoming_stream css)) ++
            accepted (skipn j (incoming_stream css)) ++ rest = pending.
Proof.
  intros H W. destruct (serve_accepts_spec _ _ _ _ H W) as [A B].
  rewrite <- (incoming_exactly_once _ B) in A. split; [exact A|]. split.
  - intros ND. rewrite <- A in ND. eapply NoDup_app_left. exact ND.
  - intros j. rewrite app_assoc, <- accepted_app, firstn_skipn. exact A.
Qed.

(* ====================================================================== *)
(* 8. readiness: blocked operations of the polling driver                   *)

Lemma os_take_bounds k room want :
  1 <= room -> 1 <= want -> 1 <= os_take k room want /\ os_take k room want <= Nat.min room want.
Proof. unfold os_take. lia. Qed.

(* A send that found the send buffer full is blocked; as soon as the peer has
   READ something (and has sent NOTHING: its direction is empty and open) the
   poller reports the descriptor writable and the retried call completes. *)
Theorem blocked_send_resumes C q data k_os kd :
  length q = C -> data <> [] ->
  send_submit send_interest C q data k_os = (OpBlocked send_interest, q) /\
  (1 <= kd -> kd <= C ->
   forall k2, exists n,
     send_retry send_interest C (skipn kd q) [] false data k2
       = (OpDone n, skipn kd q ++ firstn n data) /\
     1 <= n /\ n <= Nat.min kd (length data)).
Proof.
  intros Hq Hd.
  assert (Hl : 1 <= length data) by (destruct data; [congruence|cbn; lia]).
  split.
  - unfold send_submit. rewrite Hq, Nat.sub_diag. cbn [Nat.eqb andb].
    destruct (length data =? 0) eqn:E; [apply Nat.eqb_eq in E; lia|reflexivity].
  - intros H1 H2 k2. unfold send_retry, fd_events.
    assert (Hs : length (skipn kd q) = C - kd) by (rewrite skipn_length; lia).
    rewrite Hs. destruct (C - kd <? C) eqn:E; [|apply Nat.ltb_ge in E; lia].
    cbn [length Nat.leb orb app existsb interest_eqb send_interest].
    unfold send_submit. rewrite Hs.
    replace (C - (C - kd)) with kd by lia.
    destruct (kd =? 0) eqn:E0; [apply Nat.eqb_eq in E0; lia|]. cbn [andb].
    destruct (length data =? 0) eqn:E1; [apply Nat.eqb_eq in E1; lia|].
    destruct (os_take_bounds k2 kd (length data) H1 Hl) as [A B].
    eexists. split; [reflexivity|]. split; assumption.
Qed.

(* the fault class: with the wrong interest the send stays blocked for every
   amount the peer reads, as long as the peer sends nothing *)
Lemma wrong_interest_stalls C q' data k :
  send_retry IReadable C q' [] false data k = (OpBlocked IReadable, q').
Proof.
  unfold send_retry, fd_events. cbn [length Nat.leb orb].
  destruct (length q' <? C); reflexivity.
Qed.

(* symmetric: a receive on an empty open socket is blocked and resumes when
   the peer has written, whatever the state of the other direction *)
Theorem blocked_recv_resumes C q_out bs cap k_os :
  1 <= cap -> bs <> [] ->
  recv_submit recv_interest [] false cap k_os = (OpBlocked recv_interest, [], []) /\
  forall k2, exists n,
    recv_retry recv_interest C q_out bs false cap k2 = (OpDone n, firstn n bs, skipn n bs) /\
    1 <= n /\ n <= Nat.min (length bs) cap.
Proof.
  intros Hc Hb.
  assert (Hl : 1 <= length bs) by (destruct bs; [congruence|cbn; lia]).
  split.
  - unfold recv_submit. cbn [length Nat.eqb negb andb].
    destruct (cap =? 0) eqn:E; [apply Nat.eqb_eq in E; lia|reflexivity].
  - intros k2. unfold recv_retry, fd_events.
    destruct (1 <=? length bs) eqn:E1; [|apply Nat.leb_gt in E1; lia]. cbn [orb].
    assert (Hex : existsb (interest_eqb recv_interest)
              ((if length q_out <? C then [IWritable] else []) ++ [IReadable]) = true).
    { rewrite existsb_app. cbn. apply orb_true_r. }
    rewrite Hex. unfold recv_submit.
    destruct (length bs =? 0) eqn:E2; [apply Nat.eqb_eq in E2; lia|]. cbn [andb].
    destruct (cap =? 0) eqn:E3; [apply Nat.eqb_eq in E3; lia|]. cbn [orb].
    destruct (os_take_bounds k2 (length bs) cap Hl Hc) as [A B].
    eexists. split; [reflexivity|]. split; assumption.
Qed.

(* ---- the whole transfer under back-pressure ----------------------------- *)
Lemma send_retry_shape i C q1 qi cl data k :
  (exists m, send_retry i C q1 qi cl data k = (OpDone m, q1 ++ firstn m data)) \/
  send_retry i C q1 qi cl data k = (OpBlocked i, q1).
Proof.
  unfold send_retry. destruct (existsb _ _); [|right; reflexivity].
  unfold send_submit. destruct ((C - length q1 =? 0) && negb (length data =? 0)); [right; reflexivity|].
  left. eexists. reflexivity.
Qed.

Lemma bp_run_conserve i C ks : forall q rem g qf rf,
  bp_run i C q rem ks = (g, qf, rf) -> g ++ qf ++ rf = q ++ rem.
Proof.
  induction ks as [|k r IH]; intros q rem g qf rf H.
  - cbn in H. injection H as <- <- <-. reflexivity.
  - cbn [bp_run] in H.
    set (n := Nat.min k (length q)) in *.
    destruct (match rem with
              | [] => (skipn n q, rem)
              | _ :: _ =>
                match send_retry i C (skipn n q) [] false rem (length rem) with
                | (OpDone m, q') => (q', skipn m rem)
                | (OpBlocked _, q') => (q', rem)
                end
              end) as [q2 rem2] eqn:E.
    destruct (bp_run i C q2 rem2 r) as [[g' qf'] rf'] eqn:E2. injection H as <- <- <-.
    rewrite <- app_assoc, (IH _ _ _ _ _ E2).
    assert (Hc : q2 ++ rem2 = skipn n q ++ rem).
    { destruct rem as [|x t]; [injection E as <- <-; reflexivity|].
      destruct (send_retry_shape i C (skipn n q) [] false (x :: t) (length (x :: t))) as [[m Hm]|Hm];
        rewrite Hm in E; injection E as <- <-; [|reflexivity].
      rewrite <- app_assoc, firstn_skipn. reflexivity. }
    rewrite Hc, app_assoc, firstn_skipn. reflexivity.
Qed.

Lemma bp_run_progress C ks : forall q rem g qf rf,
  1 <= C -> Forall (fun k => 1 <= k) ks ->
  length q <= C -> (rem <> [] -> q <> []) ->
  bp_run send_interest C q rem ks = (g, qf, rf) ->
  length qf + length rf <= (length q + length rem) - length ks.
Proof.
  induction ks as [|k r IH]; intros q rem g qf rf HC HF Hq Hinv H.
  - cbn in H. injection H as <- <- <-. cbn. lia.
  - inversion HF as [|? ? Hk HF2]; subst.
    cbn [bp_run] in H.
    set (n := Nat.min k (length q)) in *.
    destruct (match rem with
              | [] => (skipn n q, rem)
              | _ :: _ =>
                match send_retry send_interest C (skipn n q) [] false rem (length rem) with
                | (OpDone m, q') => (q', skipn m rem)
                | (OpBlocked _, q') => (q', rem)
                end
              end) as [q2 rem2] eqn:E.
    destruct (bp_run send_interest C q2 rem2 r) as [[g' qf'] rf'] eqn:E2. injection H as <- <- <-.
    assert (Hs : length (skipn n q) = length q - n) by apply skipn_length.
    (* the step keeps the invariants and takes n bytes out *)
    assert (Hstep : length q2 + length rem2 = length q + length rem - n /\
                    length q2 <= C /\ (rem2 <> [] -> q2 <> [])).
    { destruct rem as [|x t].
      - injection E as <- <-. rewrite Hs. cbn [length]. repeat split; try lia. congruence.
      - assert (Hqne : q <> []) by (apply Hinv; discriminate).
        assert (Hql : 1 <= length q) by (destruct q; [congruence|cbn; lia]).
        assert (Hn : 1 <= n) by (unfold n; lia).
        unfold send_retry, fd_events in E. rewrite Hs in E.
        destruct (length q - n <? C) eqn:Elt; [|apply Nat.ltb_ge in Elt; lia].
        cbn [length Nat.leb orb app existsb interest_eqb send_interest] in E.
        unfold send_submit in E. rewrite Hs in E.
        destruct (C - (length q - n) =? 0) eqn:E0; [apply Nat.eqb_eq in E0; lia|].
        cbn [andb] in E. cbn [length Nat.eqb] in E.
        set (m := os_take (S (length t)) (C - (length q - n)) (S (length t))) in *.
        destruct (os_take_bounds (S (length t)) (C - (length q - n)) (S (length t))) as [A B]; [lia|lia|].
        fold m in A, B. injection E as <- <-.
        rewrite !app_length, !firstn_length, !skipn_length. cbn [length].
        repeat split; try lia.
        intros _ Hnil. apply app_eq_nil in Hnil as [_ Hf].
        destruct m; [lia|]. discriminate Hf. }
    destruct Hstep as (S1 & S2 & S3).
    specialize (IH _ _ _ _ _ HC HF2 S2 S3 E2). cbn [length].
    destruct (length q) as [|lq] eqn:Elq.
    + (* q = [] hence rem = []: nothing left at all *)
      destruct rem as [|x t]; [cbn [length] in *; lia|].
      exfalso. apply Hinv; [discriminate|]. destruct q; [reflexivity|discriminate].
    + assert (1 <= n) by (unfold n; lia). lia.
Qed.

(* every send flavour is this loop; with the right interest everything the
   writer holds arrives, in order, although the peer never sends a byte *)
Theorem backpressure_delivers_all C q rem ks :
  1 <= C -> Forall (fun k => 1 <= k) ks ->
  length q <= C -> (rem <> [] -> q <> []) ->
  length q + length rem <= length ks ->
  bp_run send_interest C q rem ks = (q ++ rem, [], []).
Proof.
  intros HC HF Hq Hinv Hlen.
  destruct (bp_run send_interest C q rem ks) as [[g qf] rf] eqn:E.
  pose proof (bp_run_progress _ _ _ _ _ _ _ HC HF Hq Hinv E) as P.
  pose proof (bp_run_conserve _ _ _ _ _ _ _ _ E) as K.
  assert (qf = []) by (destruct qf; [reflexivity|cbn in P; lia]).
  assert (rf = []) by (destruct rf; [reflexivity|cbn in P; lia]).
  subst. rewrite !app_nil_r in K. subst g. reflexivity.
Qed.

(* with the wrong interest the writer keeps what did not fit, for ever *)
Theorem wrong_interest_never_delivers C ks : forall q rem,
  rem <> [] -> length q = C ->
  exists g qf, bp_run IReadable C q rem ks = (g, qf, rem).
Proof.
  induction ks as [|k r IH]; intros q rem Hr Hq.
  - eexists _, _. reflexivity.
  - cbn [bp_run]. destruct rem as [|x t]; [congruence|].
    rewrite wrong_interest_stalls.
    (* the queue only shrinks; the invariant needed is just rem <> [] *)
    revert IH. generalize (skipn (Nat.min k (length q)) q). intros q1 IH.
    assert (G : forall q0, exists g qf, bp_run IReadable C q0 (x :: t) r = (g, qf, x :: t)).
    { clear -Hr. induction r as [|k2 r2 IH2]; intros q0.
      - eexists _, _. reflexivity.
      - cbn [bp_run]. rewrite wrong_interest_stalls.
        destruct (IH2 (skipn (Nat.min k2 (length q0)) q0)) as (g & qf & E). rewrite E.
        eexists _, _. reflexivity. }
    destruct (G q1) as (g & qf & E). rewrite E. eexists _, _. reflexivity.
Qed.

(* ---- counts are a sound abstraction of the byte queue -------------------- *)
Theorem count_abstraction s l s' o :
  ref_step s l = Some (s', o) -> cstep (cabs s) (clabel_of l) = Some (cabs s').
Proof.
  destruct l as [data k| |cap k|k]; cbn [ref_step clabel_of cstep cabs cq cclosed].
  - unfold send_ok.
    destruct (negb (sclosed s)) eqn:Ec; cbn [andb]; [|discriminate].
    destruct (k <=? length data) eqn:E1; cbn [andb]; [|discriminate].
    destruct ((1 <=? k) || (length data =? 0)) eqn:E2; [|discriminate].
    intros [= <- <-]. apply Nat.leb_le in E1.
    assert (A : (N.of_nat k <=? N.of_nat (length data))%N = true) by (apply N.leb_le; lia).
    assert (B : ((1 <=? N.of_nat k)%N || (N.of_nat (length data) =? 0)%N) = true).
    { apply orb_true_iff in E2 as [E2|E2]; apply orb_true_iff.
      - left. apply Nat.leb_le in E2. apply N.leb_le. lia.
      - right. apply Nat.eqb_eq in E2. apply N.eqb_eq. lia. }
    rewrite A, B. cbn [andb]. unfold cabs. cbn [sq sclosed]. f_equal. f_equal.
    rewrite app_length, firstn_length. lia.
  - intros [= <- <-]. reflexivity.
  - unfold recv_ok.
    destruct (k <=? cap) eqn:E1; cbn [andb]; [|discriminate].
    destruct (k <=? length (sq s)) eqn:E2; cbn [andb]; [|discriminate].
    destruct ((1 <=? k) || (cap =? 0) || ((length (sq s) =? 0) && sclosed s)) eqn:E3; [|discriminate].
    intros [= <- <-]. apply Nat.leb_le in E1, E2.
    assert (A : (N.of_nat k <=? N.of_nat cap)%N = true) by (apply N.leb_le; lia).
    assert (B : (N.of_nat k <=? N.of_nat (length (sq s)))%N = true) by (apply N.leb_le; lia).
    assert (D : ((1 <=? N.of_nat k)%N || (N.of_nat cap =? 0)%N ||
                 ((N.of_nat (length (sq s)) =? 0)%N && sclosed s)) = true).
    { apply orb_true_iff in E3 as [E3|E3].
      - apply orb_true_iff in E3 as [E3|E3].
        + apply Nat.leb_le in E3. assert (X : (1 <=? N.of_nat k)%N = true) by (apply N.leb_le; lia).
          rewrite X. reflexivity.
        + apply Nat.eqb_eq in E3. assert (X : (N.of_nat cap =? 0)%N = true) by (apply N.eqb_eq; lia).
          rewrite X. apply orb_true_iff. left. apply orb_true_r.
      - apply andb_true_iff in E3 as [E3 E4]. apply Nat.eqb_eq in E3.
        assert (X : (N.of_nat (length (sq s)) =? 0)%N = true) by (apply N.eqb_eq; lia).
        rewrite X, E4. apply orb_true_r. }
    rewrite A, B, D. cbn [andb]. unfold cabs. cbn [sq sclosed]. f_equal. f_equal. rewrite skipn_length. lia.
  - destruct (k <=? length (sq s)) eqn:E; [|discriminate]. intros [= <- <-].
    apply Nat.leb_le in E.
    assert (A : (N.of_nat k <=? N.of_nat (length (sq s)))%N = true) by (apply N.leb_le; lia).
    rewrite A. unfold cabs. cbn [sq sclosed]. f_equal. f_equal. rewrite skipn_length. lia.
Qed.
