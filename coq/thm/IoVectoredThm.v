(* IoVectoredThm.v — read_vectored_exact over the default read_vectored
   (model/IoVectored.v on top of model/Buf.v). *)
From Compio.Model Require Import Base IoHelpers Buf IoVectored.
From Compio.Thm Require Import ListFacts BufThm IoHelpersThm.

(* ---------------------------------------------------------------------- *)
(* vocabulary                                                              *)

(* the guard: every member is a Vec<u8> with len <= capacity *)
Definition vec_member (m : root) : bool :=
  match rkind m with KVec => rlen m <=? rcap m | _ => false end.
Definition vec_members (ms : list root) : bool := forallb vec_member ms.

Definition vecwf (m : root) : Prop := rkind m = KVec /\ rlen m <= rcap m.

Definition flat_cells (ms : list root) : list byte := flat_map rcells ms.

(* [bs] written at position [r] of the concatenated capacities; the member
   that holds the position records max(len, end of the written range) *)
Fixpoint fill_at (ms : list root) (r : nat) (bs : list byte) : list root :=
  match ms with
  | [] => []
  | m :: t =>
    if r <? rcap m
    then mkroot (rkind m) (write_at (rcells m) r bs) (Nat.max (rlen m) (r + length bs)) (rlim m) :: t
    else m :: fill_at t (r - rcap m) bs
  end.

(* position [r] of the concatenated capacities lies inside the initialised
   bytes: every member before it is full, the member holding it has len >= offset *)
Fixpoint pos_ok (ms : list root) (r : nat) : Prop :=
  match ms with
  | [] => True
  | m :: t => if r <? rcap m then r <= rlen m else rlen m = rcap m /\ pos_ok t (r - rcap m)
  end.

(* capacity left in the member that holds position [r] *)
Fixpoint room_at (ms : list root) (r : nat) : nat :=
  match ms with
  | [] => 0
  | m :: t => if r <? rcap m then rcap m - r else room_at t (r - rcap m)
  end.

Lemma vec_members_wf ms : vec_members ms = true -> Forall vecwf ms.
Proof.
  induction ms as [|m t IH]; cbn [vec_members forallb]; intros H; [constructor|].
  apply andb_prop in H. destruct H as [Hm Ht]. constructor; [|apply IH; exact Ht].
  unfold vec_member in Hm. unfold vecwf. destruct (rkind m); try discriminate.
  split; [reflexivity|]. apply Nat.leb_le. exact Hm.
Qed.

Lemma wf_vec_members ms : Forall vecwf ms -> vec_members ms = true.
Proof.
  induction 1 as [|m t [K L] _ IH]; cbn [vec_members forallb]; [reflexivity|].
  apply andb_true_intro. split; [|exact IH]. unfold vec_member. rewrite K. apply Nat.leb_le. exact L.
Qed.

Lemma vec_rcap m : rkind m = KVec -> rcap m = length (rcells m).
Proof. intros K. unfold rcap. rewrite K. reflexivity. Qed.

Lemma vecwf_rwf m : vecwf m -> rwf m.
Proof. intros [K L]. split; [exact L|]. rewrite K. discriminate. Qed.

(* ---------------------------------------------------------------------- *)
(* list facts                                                              *)

Lemma write_at_app_l (c1 c2 : list byte) r bs :
  r + length bs <= length c1 -> write_at (c1 ++ c2) r bs = write_at c1 r bs ++ c2.
Proof.
  intros H. unfold write_at.
  rewrite firstn_app, skipn_app.
  replace (r - length c1) with 0 by lia.
  replace (r + length bs - length c1) with 0 by lia.
  cbn [firstn skipn]. rewrite app_nil_r, <- !app_assoc. reflexivity.
Qed.

Lemma write_at_app_r (c1 c2 : list byte) r bs :
  length c1 <= r -> write_at (c1 ++ c2) r bs = c1 ++ write_at c2 (r - length c1) bs.
Proof.
  intros H. unfold write_at.
  rewrite firstn_app, skipn_app.
  rewrite (firstn_all2 c1) by lia. rewrite (skipn_all2 c1) by lia.
  rewrite <- app_assoc. cbn [app]. do 4 f_equal. lia.
Qed.

(* ---------------------------------------------------------------------- *)
(* fill_at                                                                 *)

Lemma fill_at_member_cap m r bs len :
  rkind m = KVec -> r + length bs <= rcap m ->
  rcap (mkroot (rkind m) (write_at (rcells m) r bs) len (rlim m)) = rcap m.
Proof.
  intros K H. apply rcap_same; [reflexivity| |reflexivity]. cbn [rcells].
  apply write_at_length. rewrite <- (vec_rcap m K). exact H.
Qed.

Lemma fill_at_props ms : forall r bs,
  Forall vecwf ms -> pos_ok ms r -> r < total_capacity ms -> length bs <= room_at ms r ->
  map rcap (fill_at ms r bs) = map rcap ms /\
  flat_cells (fill_at ms r bs) = write_at (flat_cells ms) r bs /\
  pos_ok (fill_at ms r bs) (r + length bs) /\
  Forall vecwf (fill_at ms r bs) /\
  Forall2 (fun m m' => rlen m <= rlen m') ms (fill_at ms r bs).
Proof.
  induction ms as [|m t IH]; intros r bs Hwf Hpos Hr Hroom.
  - cbn in Hr. lia.
  - inversion Hwf as [|? ? [K L] Ht]; subst.
    cbn [fill_at pos_ok room_at total_capacity fold_right flat_cells flat_map map] in *.
    fold (total_capacity t) in Hr. fold (flat_cells t).
    destruct (Nat.ltb_spec r (rcap m)) as [Hlt|Hge].
    + assert (Hfit : r + length bs <= rcap m) by lia.
      pose proof (fill_at_member_cap m r bs (Nat.max (rlen m) (r + length bs)) K Hfit) as Hc.
      cbn [map flat_cells flat_map]. fold (flat_cells t). rewrite Hc. cbn [rcells].
      split; [reflexivity|].
      split; [symmetry; apply write_at_app_l; rewrite <- (vec_rcap m K); exact Hfit|].
      split.
      { cbn [pos_ok]. rewrite Hc. cbn [rlen].
        destruct (Nat.ltb_spec (r + length bs) (rcap m)) as [H1|H1]; [lia|].
        split; [lia|]. replace (r + length bs - rcap m) with 0 by lia.
        clear -Ht. destruct t as [|x t']; [exact I|]. cbn [pos_ok].
        inversion Ht as [|? ? [_ Lx] _]; subst.
        destruct (Nat.ltb_spec 0 (rcap x)); [lia|]. split; [lia|].
        rewrite Nat.sub_0_l.
        (* the following members of capacity 0 are trivially full *)
        revert Ht. clear. intros Ht. inversion Ht as [|? ? _ Ht']; subst. clear Ht.
        induction t' as [|y t'' IHt]; [exact I|]. cbn [pos_ok].
        inversion Ht' as [|? ? [_ Ly] Ht'']; subst.
        destruct (Nat.ltb_spec 0 (rcap y)); [lia|]. split; [lia|]. rewrite Nat.sub_0_l.
        apply IHt. exact Ht''. }
      split.
      { constructor; [|exact Ht]. split; [exact K|]. rewrite Hc. cbn [rlen]. lia. }
      constructor; [cbn [rlen]; lia|].
      clear. induction t; constructor; auto.
    + destruct Hpos as [Hfull Hpos'].
      destruct (IH (r - rcap m) bs Ht Hpos' ltac:(lia) Hroom) as (A & B & C & D & E).
      cbn [map flat_cells flat_map]. fold (flat_cells (fill_at t (r - rcap m) bs)).
      split; [rewrite A; reflexivity|].
      split; [rewrite B; symmetry; rewrite write_at_app_r by (rewrite <- (vec_rcap m K); exact Hge);
              rewrite <- (vec_rcap m K); reflexivity|].
      split.
      { cbn [pos_ok]. destruct (Nat.ltb_spec (r + length bs) (rcap m)); [lia|].
        split; [exact Hfull|]. replace (r + length bs - rcap m) with (r - rcap m + length bs) by lia.
        exact C. }
      split; [constructor; [split; assumption|exact D]|].
      constructor; [lia|exact E].
Qed.

Lemma pos_ok_total ms : pos_ok ms (total_capacity ms) -> Forall (fun m => rlen m = rcap m) ms.
Proof.
  induction ms as [|m t IH]; cbn [pos_ok total_capacity fold_right]; intros H; [constructor|].
  fold (total_capacity t) in H.
  destruct (Nat.ltb_spec (rcap m + total_capacity t) (rcap m)); [lia|].
  destruct H as [Hf Hp]. constructor; [exact Hf|]. apply IH.
  replace (rcap m + total_capacity t - rcap m) with (total_capacity t) in Hp by lia. exact Hp.
Qed.

Lemma pos_ok_0 ms : Forall vecwf ms -> pos_ok ms 0.
Proof.
  induction 1 as [|m t [K L] _ IH]; cbn [pos_ok]; [exact I|].
  destruct (Nat.ltb_spec 0 (rcap m)); [lia|]. split; [lia|]. rewrite Nat.sub_0_l. exact IH.
Qed.

Lemma room_at_pos ms : forall r, r < total_capacity ms -> 0 < room_at ms r.
Proof.
  induction ms as [|m t IH]; intros r H; cbn [room_at total_capacity fold_right] in *; [lia|].
  fold (total_capacity t) in H.
  destruct (Nat.ltb_spec r (rcap m)); [lia|]. apply IH. lia.
Qed.

Lemma room_at_le ms : forall r, r + room_at ms r <= Nat.max r (total_capacity ms).
Proof.
  induction ms as [|m t IH]; intros r; cbn [room_at total_capacity fold_right]; [lia|].
  fold (total_capacity t).
  destruct (Nat.ltb_spec r (rcap m)); [lia|]. specialize (IH (r - rcap m)). lia.
Qed.

Lemma map_rcap_total ms ms' : map rcap ms' = map rcap ms -> total_capacity ms' = total_capacity ms.
Proof.
  revert ms'. induction ms as [|m t IH]; intros [|m' t'] H; cbn in *; try discriminate; [reflexivity|].
  inversion H as [[H1 H2]]. fold (total_capacity t'). fold (total_capacity t).
  rewrite (IH t' H2), H1. reflexivity.
Qed.

(* ---------------------------------------------------------------------- *)
(* the view slice_mut(r) and the iterator over it                          *)

Lemma pos_split ms : forall r,
  Forall vecwf ms -> pos_ok ms r -> r < total_capacity ms ->
  exists pre m post off,
    ms = pre ++ m :: post /\ Forall (fun x => rlen x = rcap x) pre /\ Forall vecwf pre /\
    vecwf m /\ r = total_capacity pre + off /\ off < rcap m /\ off <= rlen m /\
    room_at ms r = rcap m - off /\
    (forall bs, fill_at ms r bs =
       pre ++ mkroot (rkind m) (write_at (rcells m) off bs) (Nat.max (rlen m) (off + length bs)) (rlim m)
           :: post).
Proof.
  induction ms as [|m t IH]; intros r Hwf Hpos Hr.
  - cbn in Hr. lia.
  - inversion Hwf as [|? ? Hm Ht]; subst.
    cbn [pos_ok total_capacity fold_right room_at fill_at] in *. fold (total_capacity t) in Hr.
    destruct (Nat.ltb_spec r (rcap m)) as [Hlt|Hge].
    + exists [], m, t, r. cbn. repeat split; auto; apply Hm.
    + destruct Hpos as [Hfull Hpos'].
      destruct (IH (r - rcap m) Ht Hpos' ltac:(lia)) as (pre & x & post & off & E & F & W & X & R & O1 & O2 & RA & FA).
      exists (m :: pre), x, post, off. subst t.
      split; [reflexivity|]. split; [constructor; assumption|]. split; [constructor; assumption|].
      split; [exact X|]. cbn [total_capacity fold_right]. fold (total_capacity pre).
      split; [lia|]. split; [exact O1|]. split; [exact O2|]. split; [exact RA|].
      intros bs. rewrite FA. reflexivity.
Qed.

Lemma map_vr_len_uninit ms : forall i, map vr_len (uninit_ranges i ms) = map rcap ms.
Proof. induction ms as [|m t IH]; intros i; cbn; [reflexivity|]. rewrite IH. reflexivity. Qed.

Lemma skip_count_split pre : forall m post off i,
  off < rcap m ->
  skip_count (map rcap (pre ++ m :: post)) (total_capacity pre + off) i = (i + length pre, off).
Proof.
  induction pre as [|x pre IH]; intros m post off i Hoff; cbn [app map skip_count total_capacity fold_right length].
  - cbn [Nat.add]. destruct (Nat.ltb_spec off (rcap m)); [|lia]. f_equal. lia.
  - fold (total_capacity pre).
    destruct (Nat.ltb_spec (rcap x + total_capacity pre + off) (rcap x)); [lia|].
    replace (rcap x + total_capacity pre + off - rcap x) with (total_capacity pre + off) by lia.
    rewrite (IH m post off (S i) Hoff). f_equal. lia.
Qed.

Lemma skipn_init_ranges pre : forall l i,
  skipn (length pre) (init_ranges i (pre ++ l)) = init_ranges (i + length pre) l.
Proof.
  induction pre as [|x pre IH]; intros l i; cbn [length app init_ranges skipn].
  - rewrite Nat.add_0_r. reflexivity.
  - rewrite IH. f_equal. lia.
Qed.

Lemma skipn_uninit_ranges pre : forall l i,
  skipn (length pre) (uninit_ranges i (pre ++ l)) = uninit_ranges (i + length pre) l.
Proof.
  induction pre as [|x pre IH]; intros l i; cbn [length app uninit_ranges skipn].
  - rewrite Nat.add_0_r. reflexivity.
  - rewrite IH. f_equal. lia.
Qed.

Lemma view_ranges pre m post r off :
  off <= rlen m -> off <= rcap m ->
  iter_slice (WSl WBase r (length pre) off) (pre ++ m :: post)
    = Ok ((length pre, off, rlen m - off) :: init_ranges (S (length pre)) post) /\
  iter_uninit (WSl WBase r (length pre) off) (pre ++ m :: post)
    = Ok ((length pre, off, rcap m - off) :: uninit_ranges (S (length pre)) post).
Proof.
  intros H1 H2. cbn [iter_slice iter_uninit rbind].
  rewrite skipn_init_ranges, skipn_uninit_ranges. cbn [init_ranges uninit_ranges cut_first Nat.add].
  destruct (Nat.leb_spec off (rlen m)); [|lia]. destruct (Nat.leb_spec off (rcap m)); [|lia].
  split; reflexivity.
Qed.

(* default_set_len passes over full Vec members unchanged *)
Lemma default_set_len_full pre : forall l n,
  Forall vecwf pre -> Forall (fun x => rlen x = rcap x) pre -> total_capacity pre < n ->
  default_set_len (pre ++ l) n
  = let! l' := default_set_len l (n - total_capacity pre) in Ok (pre ++ l').
Proof.
  induction pre as [|x pre IH]; intros l n Hwf Hfull Hn; cbn [app total_capacity fold_right].
  - rewrite Nat.sub_0_r. destruct (default_set_len l n); reflexivity.
  - fold (total_capacity pre). cbn [total_capacity fold_right] in Hn. fold (total_capacity pre) in Hn.
    inversion Hwf as [|? ? Hx Hwf']; subst. inversion Hfull as [|? ? Hfx Hfull']; subst.
    cbn [default_set_len]. destruct (Nat.eqb_spec n 0) as [|_]; [lia|].
    rewrite Nat.min_l by lia.
    rewrite (root_set_len_ge x (rcap x) (vecwf_rwf x Hx)) by lia. cbn [rbind].
    assert (Hwx : with_len x (rcap x) = x) by (rewrite <- Hfx; apply with_len_same).
    rewrite Hwx. rewrite (IH l (n - rcap x) Hwf' Hfull') by lia.
    replace (n - rcap x - total_capacity pre) with (n - (rcap x + total_capacity pre)) by lia.
    destruct (default_set_len l (n - (rcap x + total_capacity pre))); reflexivity.
Qed.

(* one call of the default read_vectored on slice_mut(r), at a position inside
   the initialised bytes: the reader is offered exactly the room left in the
   member holding the position, and its bytes land there *)
Lemma read_step ms r oa src :
  Forall vecwf ms -> pos_ok ms r -> r < total_capacity ms ->
  exists w,
    mk_vslice true WBase r ms = Ok w /\
    default_read_vectored w oa src ms =
      match oa with
      | None => Ok (Some (RN 0), ms, src)
      | Some a =>
        match reader_step a (room_at ms r) src with
        | (RN O, _, src') => Ok (Some (RN 0), ms, src')
        | (RN k, bs, src') => Ok (Some (RN k), fill_at ms r bs, src')
        | (RE e, _, src') => Ok (Some (RE e), ms, src')
        end
      end.
Proof.
  intros Hwf Hpos Hr.
  destruct (pos_split ms r Hwf Hpos Hr) as (pre & m & post & off & -> & Hfull & Hwpre & Hm & -> & O1 & O2 & RA & FA).
  pose proof Hm as [Km Lm].
  exists (WSl WBase (total_capacity pre + off) (length pre) off). split.
  { unfold mk_vslice. cbn [iter_uninit rbind]. rewrite map_vr_len_uninit.
    rewrite (skip_count_split pre m post off 0 O1). reflexivity. }
  set (w := WSl WBase (total_capacity pre + off) (length pre) off).
  (* the iterator over the view: index 0 is the member holding the position *)
  assert (VR : forall m', rlen m' = rlen m \/ off <= rlen m' -> rcap m' = rcap m ->
     iter_slice w (pre ++ m' :: post) = Ok ((length pre, off, rlen m' - off) :: init_ranges (S (length pre)) post) /\
     iter_uninit w (pre ++ m' :: post) = Ok ((length pre, off, rcap m' - off) :: uninit_ranges (S (length pre)) post)).
  { intros m' Hl Hc. apply view_ranges; lia. }
  destruct (VR m (or_introl eq_refl) eq_refl) as [IS IU].
  unfold default_read_vectored, viter_new. rewrite IS. cbn [rbind length Nat.eqb].
  set (it := mkiter 0 (S (length (init_ranges (S (length pre)) post))) 0 0).
  assert (AU : forall m', rlen m' = rlen m \/ off <= rlen m' -> rcap m' = rcap m ->
     i_as_uninit w VBase (it, pre ++ m' :: post) = Ok (off, rcap m' - off) /\
     viter_uninit w it (pre ++ m' :: post) = Ok (length pre, off, rcap m' - off) /\
     i_as_init w VBase (it, pre ++ m' :: post) = Ok (off, rlen m' - off)).
  { intros m' Hl Hc. destruct (VR m' Hl Hc) as [IS' IU'].
    unfold i_as_uninit, i_as_init. cbn [as_uninit as_init]. unfold i_base_uninit, i_base_init, viter_uninit, viter_init.
    cbn [fst snd]. rewrite IS', IU'. cbn [rbind it it_index it_filled nth_error fst snd Nat.leb].
    rewrite Nat.add_0_r, Nat.sub_0_r. repeat split; reflexivity. }
  destruct (AU m (or_introl eq_refl) eq_refl) as (AU1 & AU2 & AU3).
  cbn [it_len it viter_seek]. fold it. rewrite AU1. cbn [rbind snd].
  destruct (Nat.ltb_spec 0 (rcap m - off)) as [_|]; [|lia].
  cbn [rbind]. rewrite RA.
  destruct oa as [a|]; [|reflexivity].
  destruct (reader_step a (rcap m - off) src) as [[rr bs] src1] eqn:Hstep.
  destruct (reader_step_spec _ _ _ _ _ _ Hstep) as (k & Hbs & Hsrc1 & Hkc & Hks & Hlen & Hr').
  destruct rr as [k'|e]; [|reflexivity]. subst k'.
  destruct k as [|k0]; [reflexivity|]. set (k := S k0) in *.
  (* the fill: write, then advance_to(k) *)
  unfold i_fill. rewrite AU1. cbn [rbind fst snd]. rewrite AU2. cbn [rbind fst snd].
  rewrite write_member_app.
  set (m1 := root_write off bs m).
  assert (Hfit : off + length bs <= rcap m) by lia.
  destruct (root_write_props m off bs Hfit) as (W1 & W2 & W3). fold m1 in W1, W2, W3.
  destruct (AU m1 (or_introl W1) W2) as (_ & _ & AI1).
  unfold i_advance_to, advance_to, buf_len. unfold i_as_init in AI1. rewrite AI1. cbn [rbind snd].
  rewrite FA. rewrite W1, Hlen.
  destruct (Nat.ltb_spec (rlen m - off) k) as [Hlt|Hge].
  - cbn [set_len]. unfold viter_set_len. cbn [vset_len container_set_len it it_tf w Nat.add].
    rewrite (default_set_len_full pre (m1 :: post) (total_capacity pre + off + k) Hwpre Hfull) by lia.
    replace (total_capacity pre + off + k - total_capacity pre) with (off + k) by lia.
    cbn [default_set_len]. destruct (Nat.eqb_spec (off + k) 0) as [|_]; [lia|].
    rewrite W2. rewrite Nat.min_r by lia.
    assert (Hm1 : rwf m1) by (split; [lia|rewrite W3, Km; discriminate]).
    rewrite (root_set_len_ge m1 (off + k) Hm1) by lia. cbn [rbind].
    rewrite Nat.sub_diag, default_set_len_0. cbn [rbind snd].
    assert (E : with_len m1 (off + k)
                = mkroot (rkind m) (write_at (rcells m) off bs) (Nat.max (rlen m) (off + k)) (rlim m))
      by (unfold with_len, m1, root_write, with_cells; cbn; f_equal; lia).
    rewrite E. reflexivity.
  - cbn [snd].
    assert (E : m1 = mkroot (rkind m) (write_at (rcells m) off bs) (Nat.max (rlen m) (off + k)) (rlim m))
      by (unfold m1, root_write, with_cells; f_equal; lia).
    rewrite E. reflexivity.
Qed.

(* ---------------------------------------------------------------------- *)
(* the loop                                                                *)

Lemma flat_len ms : Forall vecwf ms -> length (flat_cells ms) = total_capacity ms.
Proof.
  induction 1 as [|m t [K L] _ IH]; cbn [flat_cells flat_map total_capacity fold_right]; [reflexivity|].
  fold (flat_cells t). fold (total_capacity t). rewrite app_length, IH, (vec_rcap m K). reflexivity.
Qed.

Lemma Forall2_le_refl ms : Forall2 (fun m m' : root => rlen m <= rlen m') ms ms.
Proof. induction ms; constructor; auto. Qed.

Lemma Forall2_le_trans a : forall b c,
  Forall2 (fun m m' : root => rlen m <= rlen m') a b ->
  Forall2 (fun m m' : root => rlen m <= rlen m') b c ->
  Forall2 (fun m m' : root => rlen m <= rlen m') a c.
Proof.
  induction a as [|x a IH]; intros b c H1 H2; inversion H1; subst; inversion H2; subst; constructor.
  - lia.
  - eapply IH; eassumption.
Qed.

Lemma rve_loop_correct : forall sched src ms len read,
  Forall vecwf ms -> pos_ok ms read -> len = total_capacity ms -> read <= len ->
  exists o ms' src' sched' n,
    rve_loop sched src ms len read = Ok (o, ms', src', sched') /\
    n <= length src /\ read + n <= len /\ src' = skipn n src /\
    map rcap ms' = map rcap ms /\
    flat_cells ms' = write_at (flat_cells ms) read (firstn n src) /\
    pos_ok ms' (read + n) /\ Forall vecwf ms' /\
    Forall2 (fun m m' => rlen m <= rlen m') ms ms' /\
    (forall k, o = OOk k -> read + n = len /\ k = len).
Proof.
  induction sched as [|a sched IH]; intros src ms len read Hwf Hpos Hlen Hrl;
    pose proof (flat_len ms Hwf) as Hflat.
  - (* script exhausted *)
    cbn [rve_loop]. destruct (Nat.leb_spec len read) as [Hdone|Hmore].
    + exists (OOk read), ms, src, [], 0. cbn [firstn skipn]. rewrite Nat.add_0_r.
      rewrite write_at_nil by lia.
      repeat split; auto using Forall2_le_refl; try lia; inversion H; lia.
    + destruct (read_step ms read None src Hwf Hpos ltac:(lia)) as (w & E1 & E2).
      rewrite E1. cbn [rbind]. rewrite E2. cbn [rbind].
      exists (OErr E_UNEXPECTED_EOF), ms, src, [], 0. cbn [firstn skipn]. rewrite Nat.add_0_r.
      rewrite write_at_nil by lia.
      repeat split; auto using Forall2_le_refl; try lia; discriminate.
  - cbn [rve_loop]. destruct (Nat.leb_spec len read) as [Hdone|Hmore].
    + exists (OOk read), ms, src, (a :: sched), 0. cbn [firstn skipn]. rewrite Nat.add_0_r.
      rewrite write_at_nil by lia.
      repeat split; auto using Forall2_le_refl; try lia; inversion H; lia.
    + destruct (read_step ms read (Some a) src Hwf Hpos ltac:(lia)) as (w & E1 & E2).
      rewrite E1. cbn [rbind]. rewrite E2.
      destruct (reader_step a (room_at ms read) src) as [[rr bs] src1] eqn:Hstep.
      destruct (reader_step_spec _ _ _ _ _ _ Hstep) as (k & Hbs & Hsrc1 & Hkc & Hks & Hbl & Hr').
      destruct rr as [k'|e].
      * subst k'. destruct k as [|k0].
        { cbn [rbind]. exists (OErr E_UNEXPECTED_EOF), ms, src1, sched, 0.
          subst src1. cbn [firstn skipn]. rewrite Nat.add_0_r. rewrite write_at_nil by lia.
          repeat split; auto using Forall2_le_refl; try lia; discriminate. }
        set (k := S k0) in *. cbn [rbind].
        pose proof (room_at_le ms read) as Hroom.
        destruct (fill_at_props ms read bs Hwf Hpos ltac:(lia) ltac:(lia)) as (A & B & C & D & F).
        rewrite Hbl in C.
        pose proof (map_rcap_total _ _ A) as Htc.
        destruct (IH src1 (fill_at ms read bs) len (read + k) D C ltac:(lia) ltac:(lia))
          as (o & ms' & src' & sched' & n1 & R & N1 & N2 & S1 & M1 & FC & P1 & W1 & L1 & O1).
        change (match k with 0 => _ | S _ => rve_loop sched src1 (fill_at ms read bs) len (read + k) end)
          with (rve_loop sched src1 (fill_at ms read bs) len (read + k)).
        rewrite R. subst src1. rewrite skipn_length in N1.
        exists o, ms', src', sched', (k + n1).
        split; [reflexivity|]. split; [lia|]. split; [lia|].
        split; [rewrite S1; apply skipn_skipn'|].
        split; [congruence|]. split.
        { rewrite FC, B, Hbs. rewrite <- (firstn_add_skipn src k n1).
          assert (Hk : length (firstn k src) = k) by (rewrite firstn_length; lia).
          rewrite <- Hk at 2. apply write_at_adjacent.
          rewrite Hk, firstn_length, skipn_length. lia. }
        split; [rewrite Nat.add_assoc; exact P1|]. split; [exact W1|].
        split; [eapply Forall2_le_trans; eassumption|].
        intros kk Hk. destruct (O1 kk Hk). lia.
      * rewrite Hr' in Hsrc1. cbn [skipn] in Hsrc1. subst src1. cbn [rbind].
        destruct (is_intr e).
        { destruct (IH src ms len read Hwf Hpos Hlen Hrl)
            as (o & ms' & src' & sched' & n1 & R & REST).
          exists o, ms', src', sched', n1. split; [exact R|exact REST]. }
        exists (OErr e), ms, src, sched, 0. cbn [firstn skipn]. rewrite Nat.add_0_r.
        rewrite write_at_nil by lia.
        repeat split; auto using Forall2_le_refl; try lia; discriminate.
Qed.

Theorem read_vectored_exact_correct sched src ms :
  vec_members ms = true ->
  exists o ms' src' sched' n,
    read_vectored_exact sched src ms = Ok (o, ms', src', sched') /\
    n <= length src /\ n <= total_capacity ms /\ src' = skipn n src /\
    map rcap ms' = map rcap ms /\
    flat_cells ms' = firstn n src ++ skipn n (flat_cells ms) /\
    pos_ok ms' n /\ vec_members ms' = true /\
    Forall2 (fun m m' => rlen m <= rlen m') ms ms' /\
    (forall k, o = OOk k ->
       n = total_capacity ms /\ k = n /\ Forall (fun m => rlen m = rcap m) ms').
Proof.
  intros Hg. pose proof (vec_members_wf ms Hg) as Hwf.
  destruct (rve_loop_correct sched src ms (total_capacity ms) 0 Hwf (pos_ok_0 ms Hwf) eq_refl ltac:(lia))
    as (o & ms' & src' & sched' & n & R & N1 & N2 & S1 & M1 & FC & P1 & W1 & L1 & O1).
  cbn [Nat.add] in *.
  exists o, ms', src', sched', n. unfold read_vectored_exact.
  split; [exact R|]. split; [exact N1|]. split; [exact N2|]. split; [exact S1|]. split; [exact M1|].
  split.
  { rewrite FC, write_at_0. rewrite firstn_length. rewrite Nat.min_l by lia. reflexivity. }
  split; [exact P1|]. split; [apply wf_vec_members; exact W1|]. split; [exact L1|].
  intros k Hk. destruct (O1 k Hk) as [Hn Hkk]. split; [exact Hn|]. split; [lia|].
  apply pos_ok_total. rewrite (map_rcap_total _ _ M1), <- Hn. exact P1.
Qed.
