(* DriverKeysThm.v — invariants of the operation-storage LTS (DriverKeys.v),
   proved for every reachable state, i.e. for every accepted history of any
   length, over any number of operations. *)
From Compio.Model Require Import Base DriverKeys.

Definition b2n (b : bool) : nat := if b then 1 else 0.

(* the reference-count equation and its companions *)
Definition kinv (x : kst) : Prop :=
  (freed x = true -> rc x = 0) /\
  (freed x = false ->
     rc x = user x + b2n (leaked x) + b2n (frozen x) + queued x + chan x
            + b2n (entry x) + b2n (hold x)) /\
  (in_kernel x = true -> leaked x = true /\ freed x = false) /\
  results x <= 1.

Definition Inv (s : st) : Prop := Forall kinv (keys s).

Ltac kcrush :=
  unfold kinv, live, needs_free, dec, settle, release_n, release_chan, touch, b2n in *;
  cbn [rc user leaked in_kernel frozen queued chan entry results cancelled freed hold
       w_rc w_user w_leaked w_in_kernel w_frozen w_queued w_chan w_entry w_results
       w_cancelled w_freed w_hold negb andb orb] in *.

Ltac kbools :=
  repeat match goal with
         | b : bool |- _ => destruct b
         end.

Ltac ksolve :=
  kcrush; intros;
  repeat match goal with
         | H : _ /\ _ |- _ => destruct H
         | H : Some _ = Some _ |- _ => inversion H; subst; clear H
         | H : None = Some _ |- _ => discriminate H
         end;
  try discriminate;
  kcrush;
  repeat match goal with
         | H : ?a = ?a -> _ |- _ => specialize (H eq_refl)
         | H : false = true -> _ |- _ => clear H
         | H : true = false -> _ |- _ => clear H
         | H : _ /\ _ |- _ => destruct H
         end;
  repeat split; intros; try discriminate; try lia; auto.

(* ---------------------------------------------------------------------- *)
(* list update                                                             *)

Lemma in_firstn {A} (x : A) n l : In x (firstn n l) -> In x l.
Proof.
  revert l; induction n as [|n IH]; intros l H; [destruct H|].
  destruct l as [|a l]; [destruct H|]. cbn in H. destruct H as [->|H]; [left; reflexivity|right; auto].
Qed.

Lemma in_skipn {A} (x : A) n l : In x (skipn n l) -> In x l.
Proof.
  revert l; induction n as [|n IH]; intros l H; [exact H|].
  destruct l as [|a l]; [destruct H|]. cbn in H. right; auto.
Qed.

Lemma upd_Forall (P : kst -> Prop) l k x y :
  Forall P l -> nth_error l k = Some x -> P y -> Forall P (upd l k (fun _ => y)).
Proof.
  intros Hl Hk Hy. unfold upd. rewrite Hk.
  apply Forall_app. split.
  - apply Forall_forall. intros z Hz. rewrite Forall_forall in Hl. apply Hl.
    eapply in_firstn; eauto.
  - constructor; [exact Hy|]. apply Forall_forall. intros z Hz.
    rewrite Forall_forall in Hl. apply Hl. eapply in_skipn; eauto.
Qed.

Lemma nth_error_Forall (P : kst -> Prop) l k x :
  Forall P l -> nth_error l k = Some x -> P x.
Proof. intros Hl Hk. rewrite Forall_forall in Hl. apply Hl. eapply nth_error_In; eauto. Qed.

Lemma with_key_inv s k f s' :
  Inv s -> with_key s k f = Some s' ->
  (forall x y, kinv x -> f x = Some y -> kinv y) ->
  Inv s'.
Proof.
  unfold Inv, with_key. intros Hi Hw Hf.
  destruct (nth_error (keys s) k) as [x|] eqn:Hk; [|discriminate].
  destruct (f x) as [y|] eqn:Hfx; [|discriminate].
  inversion Hw; subst; clear Hw. cbn [keys set_keys].
  eapply upd_Forall; eauto. eapply Hf; eauto. eapply nth_error_Forall; eauto.
Qed.

Lemma with_key_inv' s k f s' (Q : kst -> Prop) :
  Inv s -> Forall Q (keys s) -> with_key s k f = Some s' ->
  (forall x y, kinv x -> Q x -> f x = Some y -> kinv y) ->
  Inv s'.
Proof.
  unfold Inv, with_key. intros Hi HQ Hw Hf.
  destruct (nth_error (keys s) k) as [x|] eqn:Hk; [|discriminate].
  destruct (f x) as [y|] eqn:Hfx; [|discriminate].
  inversion Hw; subst; clear Hw. cbn [keys set_keys].
  eapply upd_Forall; eauto.
  eapply Hf; eauto; eapply nth_error_Forall; eauto.
Qed.

Definition settled (x : kst) : Prop := freed x = false -> hold x = false.

Lemma settle_all_settled s : Forall settled (keys (settle_all s)).
Proof.
  unfold settle_all. cbn [keys set_keys]. apply Forall_forall. intros y Hy.
  apply in_map_iff in Hy. destruct Hy as (x & <- & _).
  destruct x as [rc0 us lk ik fr qu ch en re ca fd ho].
  unfold settled, settle, live, release_n. cbn. destruct ho, fd; cbn; auto.
Qed.

Lemma map_inv (g : kst -> kst) l :
  Forall kinv l -> (forall x, kinv x -> kinv (g x)) -> Forall kinv (map g l).
Proof.
  intros Hl Hg. induction Hl; cbn [map]; constructor; auto.
Qed.

Lemma settle_kinv x : kinv x -> kinv (settle x).
Proof.
  destruct x as [rc0 us lk ik fr qu ch en re ca fd ho].
  intros H. unfold settle. kcrush. kbools; ksolve.
Qed.

Lemma settle_all_inv s : Inv s -> Inv (settle_all s).
Proof.
  unfold Inv, settle_all. cbn [keys set_keys]. intros H. apply map_inv; [exact H|].
  apply settle_kinv.
Qed.

Lemma release_chan_kinv x : kinv x -> kinv (release_chan x).
Proof.
  destruct x as [rc0 us lk ik fr qu ch en re ca fd ho].
  intros H. unfold release_chan. kcrush. kbools; ksolve.
Qed.

(* ---------------------------------------------------------------------- *)
(* every step preserves the invariant                                      *)

Lemma init_inv u : Inv (init u).
Proof. unfold Inv, init. cbn. constructor. Qed.

Lemma new_key_kinv : kinv new_key.
Proof. unfold new_key. ksolve. Qed.

Theorem step_inv s e s' : Inv s -> step s e = Some s' -> Inv s'.
Proof.
  intros Hi0 Hs. unfold step in Hs.
  set (s1 := if user_ev e then settle_all s else s) in *.
  assert (Hi : Inv s1).
  { unfold s1. destruct (user_ev e); [apply settle_all_inv|]; exact Hi0. }
  assert (Hu : user_ev e = true -> Forall settled (keys s1)).
  { unfold s1. intros ->. apply settle_all_settled. }
  clearbody s1. clear Hi0 s.
  destruct (strict_ev e && blocked s1); [discriminate|].
  destruct e.
  - (* EKeyNew *)
    destruct (Nat.eqb k (length (keys s1))); [|discriminate].
    inversion Hs; subst. unfold Inv in *. cbn [keys set_keys].
    apply Forall_app. split; [exact Hi|]. constructor; [apply new_key_kinv|constructor].
  - (* EKeyFree *)
    eapply with_key_inv; eauto. intros x y Hx. cbv beta zeta.
    pose proof (settle_kinv x Hx) as Hsx. revert Hsx.
    generalize (settle x). clear Hx x. intros x Hx.
    destruct x as [rc0 us lk ik fr qu ch en re ca fd ho]. kcrush.
    destruct rc0 as [|rc0]; kbools; cbn; ksolve.
  - (* ESubmit *)
    eapply with_key_inv; eauto. intros x y Hx.
    destruct x as [rc0 us lk ik fr qu ch en re ca fd ho]. kcrush.
    destruct (uring s1), (ring_open s1); kbools; cbn; ksolve.
  - (* ECqeMore *)
    eapply with_key_inv; eauto. intros x y Hx.
    destruct x as [rc0 us lk ik fr qu ch en re ca fd ho]. kcrush. kbools; cbn; ksolve.
  - (* ECqeFinal *)
    eapply with_key_inv; eauto. intros x y Hx.
    destruct x as [rc0 us lk ik fr qu ch en re ca fd ho]. kcrush.
    destruct fd, en; cbn; try discriminate.
    destruct lk, ik; cbn; try ksolve;
      (destruct ch as [|ch]; cbn; [destruct qu as [|qu]; cbn; ksolve | ksolve]).
  - (* ESetResult *)
    eapply with_key_inv; eauto. intros x y Hx.
    destruct x as [rc0 us lk ik fr qu ch en re ca fd ho]. kcrush.
    destruct fd; cbn; try discriminate.
    destruct re as [|re]; cbn; try discriminate.
    destruct en; cbn.
    + destruct rc0; [discriminate|]. kbools; ksolve.
    + kbools; ksolve.
  - (* ERingClosed *)
    destruct (dropping s1 && ring_open s1 && uring s1); [|discriminate].
    inversion Hs; subst. unfold Inv in *. cbn [keys].
    apply map_inv; [exact Hi|]. intros x Hx.
    destruct x as [rc0 us lk ik fr qu ch en re ca fd ho]. kcrush. kbools; cbn; ksolve.
  - (* EDropBegin *)
    destruct (dropping s1); [discriminate|].
    destruct (uring s1).
    + inversion Hs; subst. exact Hi.
    + inversion Hs; subst. unfold Inv in *. cbn [keys].
      apply map_inv; [exact Hi|]. intros x Hx.
      destruct x as [rc0 us lk ik fr qu ch en re ca fd ho]. kcrush.
      destruct (any_frozen s1); kbools; cbn; ksolve.
  - (* EDropDrain *)
    destruct (negb (dropping s1 && ring_open s1)); [discriminate|].
    eapply with_key_inv; eauto. intros x y Hx.
    destruct x as [rc0 us lk ik fr qu ch en re ca fd ho]. kcrush.
    destruct fd, lk; cbn; try discriminate. destruct rc0; [discriminate|]. kbools; ksolve.
  - (* EDropEnd *)
    destruct (dropping s1 && negb (ring_open s1) &&
              negb (existsb (fun x => leaked x && negb (freed x)) (keys s1))); [|discriminate].
    inversion Hs; subst. unfold Inv in *. cbn [keys].
    destruct (any_frozen s1); [exact Hi|].
    apply map_inv; [exact Hi|]. apply release_chan_kinv.
  - (* ECancelPush *)
    eapply with_key_inv; eauto. intros x y Hx.
    destruct x as [rc0 us lk ik fr qu ch en re ca fd ho]. kcrush. kbools; cbn; ksolve.
  - (* EBlockingDispatch *)
    eapply with_key_inv; eauto. intros x y Hx.
    destruct x as [rc0 us lk ik fr qu ch en re ca fd ho]. kcrush. kbools; cbn; ksolve.
  - (* EBlockingStart *)
    eapply with_key_inv; eauto. intros x y Hx.
    destruct x as [rc0 us lk ik fr qu ch en re ca fd ho]. kcrush. kbools; cbn; ksolve.
  - (* EBlockingEnd *)
    destruct (gone s1).
    + destruct (with_key s1 k
                  (fun x => if live x && frozen x then dec (w_frozen false x) else None))
        as [s2|] eqn:Hw; [|discriminate].
      assert (Hi2 : Inv s2).
      { eapply with_key_inv; eauto. intros x y Hx.
        destruct x as [rc0 us lk ik fr qu ch en re ca fd ho]. kcrush.
        destruct fd, fr; cbn; try discriminate. destruct rc0; [discriminate|]. kbools; ksolve. }
      inversion Hs; subst. destruct (any_frozen s2); [exact Hi2|].
      unfold Inv in *. cbn [keys set_keys]. apply map_inv; [exact Hi2|]. apply release_chan_kinv.
    + eapply with_key_inv; eauto. intros x y Hx.
      destruct x as [rc0 us lk ik fr qu ch en re ca fd ho]. kcrush. kbools; cbn; ksolve.
  - (* EPollQueue *)
    eapply with_key_inv; eauto. intros x y Hx.
    destruct x as [rc0 us lk ik fr qu ch en re ca fd ho]. kcrush.
    destruct (uring s1); kbools; cbn; ksolve.
  - (* EPollCancel *)
    eapply with_key_inv; eauto. intros x y Hx.
    destruct x as [rc0 us lk ik fr qu ch en re ca fd ho]. kcrush.
    destruct fd; cbn; try discriminate.
    destruct qu as [|qu]; cbn; kbools; ksolve.
  - (* EPollEvent *)
    eapply with_key_inv; eauto. intros x y Hx.
    destruct x as [rc0 us lk ik fr qu ch en re ca fd ho]. kcrush. kbools; cbn; ksolve.
  - (* EPollArm *)
    eapply with_key_inv; eauto. intros x y Hx.
    destruct x as [rc0 us lk ik fr qu ch en re ca fd ho]. kcrush. kbools; cbn; ksolve.
  - (* EUserPop *)
    eapply with_key_inv; eauto. intros x y Hx.
    destruct x as [rc0 us lk ik fr qu ch en re ca fd ho]. kcrush.
    destruct fd; cbn; try discriminate.
    destruct us as [|us]; cbn; try discriminate.
    destruct ready.
    + destruct rc0 as [|[|rc0]]; cbn; try discriminate.
      destruct re as [|re]; cbn; try discriminate. kbools; ksolve.
    + destruct re as [|re]; cbn; try discriminate. kbools; ksolve.
  - (* EUserDrop *)
    eapply with_key_inv; eauto. intros x y Hx.
    destruct x as [rc0 us lk ik fr qu ch en re ca fd ho]. kcrush.
    destruct fd; cbn; try discriminate.
    destruct us as [|us]; cbn; try discriminate.
    destruct rc0; [discriminate|]. kbools; ksolve.
  - (* EUserCancel *)
    eapply (with_key_inv' _ _ _ _ settled); [exact Hi | apply Hu; reflexivity | exact Hs |].
    intros x y Hx Hq.
    destruct x as [rc0 us lk ik fr qu ch en re ca fd ho]. unfold settled in Hq. kcrush.
    destruct fd; cbn; try discriminate.
    destruct us as [|us]; cbn; try discriminate.
    kbools; ksolve.
  - (* EUserToken *)
    eapply with_key_inv; eauto. intros x y Hx.
    destruct x as [rc0 us lk ik fr qu ch en re ca fd ho]. kcrush. kbools; cbn; ksolve.
  - (* EUserPushReady *)
    eapply with_key_inv; eauto. intros x y Hx.
    destruct x as [rc0 us lk ik fr qu ch en re ca fd ho]. kcrush.
    destruct fd; cbn; try discriminate.
    destruct us as [|us]; cbn; try discriminate.
    destruct rc0 as [|[|rc0]]; cbn; try discriminate.
    destruct re as [|re]; cbn; try discriminate. kbools; ksolve.
  - (* EOther *)
    inversion Hs; subst. exact Hi.
Qed.

(* ---------------------------------------------------------------------- *)
(* reachable states                                                        *)

Fixpoint steps (s : st) (es : list ev) : option st :=
  match es with
  | [] => Some s
  | e :: r => match step s e with Some s' => steps s' r | None => None end
  end.

Lemma replay_steps : forall es s i s', replay s es i = inl s' <-> steps s es = Some s'.
Proof.
  induction es as [|e es IH]; intros s i s'; cbn [replay steps].
  - split; intros H; inversion H; reflexivity.
  - destruct (step s e) as [s1|]; [apply IH|]. split; intros H; discriminate H.
Qed.

Theorem steps_inv : forall es s s', Inv s -> steps s es = Some s' -> Inv s'.
Proof.
  induction es as [|e es IH]; intros s s' Hi Hs; cbn [steps] in Hs.
  - inversion Hs; subst; exact Hi.
  - destruct (step s e) as [s1|] eqn:H1; [|discriminate].
    eapply IH; [eapply step_inv; eauto | exact Hs].
Qed.

Theorem reachable_inv u es s : steps (init u) es = Some s -> Inv s.
Proof. intros H. eapply steps_inv; [apply init_inv | exact H]. Qed.

(* C01: in every reachable state, the storage of an operation the kernel
   still owns is allocated and referenced (by the ref leaked into user_data) *)
Theorem alive_while_in_kernel u es s k x :
  steps (init u) es = Some s ->
  nth_error (keys s) k = Some x -> in_kernel x = true ->
  freed x = false /\ leaked x = true /\ 1 <= rc x.
Proof.
  intros Hs Hk Hin. pose proof (reachable_inv _ _ _ Hs) as Hi.
  pose proof (nth_error_Forall _ _ _ _ Hi Hk) as (H1 & H2 & H3 & H4).
  destruct (H3 Hin) as [Hl Hf]. split; [exact Hf|]. split; [exact Hl|].
  rewrite (H2 Hf), Hl. cbn [b2n]. lia.
Qed.

(* ... and therefore a history that frees it is never accepted, whatever the
   handles, tokens and the user did before *)
Theorem free_while_in_kernel_rejected u es s k x :
  steps (init u) es = Some s ->
  nth_error (keys s) k = Some x -> in_kernel x = true ->
  step s (EKeyFree k) = None.
Proof.
  intros Hs Hk Hin.
  destruct (alive_while_in_kernel _ _ _ _ _ Hs Hk Hin) as (Hf & Hl & Hrc).
  pose proof (reachable_inv _ _ _ Hs) as Hi.
  pose proof (nth_error_Forall _ _ _ _ Hi Hk) as (H1 & H2 & H3 & H4).
  unfold step. cbn [user_ev strict_ev andb]. unfold with_key. rewrite Hk.
  specialize (H2 Hf).
  destruct x as [rc0 us lk ik fr qu ch en re ca fd ho].
  cbn [rc user leaked in_kernel frozen queued chan entry results freed hold] in *. subst.
  unfold settle, needs_free, live, release_n, b2n in *.
  cbn [rc user leaked in_kernel frozen queued chan entry results cancelled freed hold
       w_rc w_hold negb andb] in *.
  destruct ho; cbn [rc user leaked in_kernel frozen queued chan entry results cancelled freed hold
       w_rc w_hold negb andb];
    match goal with |- context [Nat.eqb ?n 0] => destruct (Nat.eqb_spec n 0) as [E|E]; [lia|] end;
    reflexivity.
Qed.

(* C01: released exactly once — a free is accepted only for allocated storage
   whose count reached zero, marks it freed, and a second free is rejected *)
Theorem free_once s k s' :
  step s (EKeyFree k) = Some s' ->
  exists x x', nth_error (keys s) k = Some x /\ freed x = false /\
               nth_error (keys s') k = Some x' /\ freed x' = true /\
               step s' (EKeyFree k) = None.
Proof.
  unfold step at 1. cbn [user_ev strict_ev andb]. unfold with_key.
  destruct (nth_error (keys s) k) as [x|] eqn:Hk; [|discriminate].
  destruct (needs_free (settle x) && negb (in_kernel (settle x) && ring_open s)
            && negb (frozen (settle x))) eqn:Hc; [|discriminate].
  intros H; inversion H; subst; clear H.
  assert (Hlive : freed x = false).
  { destruct x as [rc0 us lk ik fr qu ch en re ca fd ho]. unfold settle, needs_free, live, release_n in Hc.
    cbn in Hc. destruct fd; [|reflexivity]. destruct ho; cbn in Hc;
    rewrite ?andb_false_r in Hc; cbn in Hc; discriminate. }
  assert (Hk' : nth_error (upd (keys s) k (fun _ => w_freed true (settle x))) k
                = Some (w_freed true (settle x))).
  { unfold upd. rewrite Hk. rewrite nth_error_app2; rewrite firstn_length.
    - assert (k < length (keys s)) by (apply nth_error_Some; congruence).
      replace (k - Nat.min k (length (keys s))) with 0 by lia. reflexivity.
    - assert (k < length (keys s)) by (apply nth_error_Some; congruence). lia. }
  exists x, (w_freed true (settle x)). cbn [keys set_keys].
  split; [reflexivity|]. split; [exact Hlive|]. split; [exact Hk'|]. split; [reflexivity|].
  unfold step. cbn [user_ev strict_ev andb]. unfold with_key. cbn [keys set_keys]. rewrite Hk'.
  destruct (settle x) as [rc0 us lk ik fr qu ch en re ca fd ho].
  unfold settle, needs_free, live. cbn. rewrite !andb_false_r. reflexivity.
Qed.

(* C01: no use after free — every event at which the driver touches the
   operation storage is rejected once the storage is freed *)
Definition touches (e : ev) (k : nat) : Prop :=
  e = ECqeMore k \/ e = ECqeFinal k \/ e = ESetResult k \/ e = ESubmit k \/
  (exists ok, e = ECancelPush k ok) \/ e = EBlockingDispatch k \/
  e = EBlockingStart k \/ e = EPollQueue k \/ e = EPollCancel k \/ e = EDropDrain k \/
  e = EPollEvent k \/ e = EPollArm k.

Theorem no_use_after_free s e k x :
  touches e k -> nth_error (keys s) k = Some x -> freed x = true -> step s e = None.
Proof.
  intros Ht Hk Hf. unfold step.
  destruct (strict_ev e && blocked (if user_ev e then settle_all s else s)); [reflexivity|].
  destruct Ht as [->|[->|[->|[->|[[ok ->]|[->|[->|[->|[->|[->|[->| ->]]]]]]]]]]];
    cbn [user_ev]; unfold with_key, touch, live; rewrite ?Hk, ?Hf; cbn [negb andb orb];
    try reflexivity.
  - destruct (negb (dropping s && ring_open s)); reflexivity.
Qed.

(* C02: exactly once — in every reachable state an operation has at most one
   stored result, and a second set_result is rejected *)
Theorem result_at_most_once u es s k x :
  steps (init u) es = Some s -> nth_error (keys s) k = Some x -> results x <= 1.
Proof.
  intros Hs Hk. pose proof (reachable_inv _ _ _ Hs) as Hi.
  apply (nth_error_Forall _ _ _ _ Hi Hk).
Qed.

Theorem second_result_rejected s k x :
  nth_error (keys s) k = Some x -> 0 < results x -> step s (ESetResult k) = None.
Proof.
  intros Hk Hr. unfold step. cbn [user_ev strict_ev andb].
  destruct (blocked s); [reflexivity|]. unfold with_key. rewrite Hk.
  destruct (Nat.ltb_spec 0 (results x)); [|lia]. rewrite orb_true_r. reflexivity.
Qed.

(* ---------------------------------------------------------------------- *)
(* locality (C05): an event about operation k leaves every other operation's
   record untouched                                                        *)

Lemma nth_firstn_lt {A} (l : list A) k j : j < k -> nth_error (firstn k l) j = nth_error l j.
Proof.
  revert l j; induction k as [|k IH]; intros l j H; [lia|].
  destruct l as [|a l]; [destruct j; reflexivity|]. destruct j as [|j]; [reflexivity|].
  cbn [firstn nth_error]. apply IH. lia.
Qed.

Lemma nth_skipn_add {A} (l : list A) n j : nth_error (skipn n l) j = nth_error l (n + j).
Proof.
  revert l; induction n as [|n IH]; intros l; [reflexivity|].
  destruct l as [|a l]; [destruct j; reflexivity|]. cbn [skipn plus nth_error]. apply IH.
Qed.

Lemma upd_other l k j (y : kst) : j <> k -> nth_error (upd l k (fun _ => y)) j = nth_error l j.
Proof.
  intros Hjk. unfold upd. destruct (nth_error l k) as [x|] eqn:Hk; [|reflexivity].
  assert (Hlt : k < length l) by (apply nth_error_Some; congruence).
  destruct (Nat.lt_ge_cases j k) as [Hlt'|Hge].
  - rewrite nth_error_app1 by (rewrite firstn_length; lia).
    apply nth_firstn_lt. exact Hlt'.
  - rewrite nth_error_app2 by (rewrite firstn_length; lia).
    rewrite firstn_length. replace (Nat.min k (length l)) with k by lia.
    destruct (j - k) as [|d] eqn:Hd; [lia|]. cbn [nth_error].
    rewrite nth_skipn_add. f_equal. lia.
Qed.

Lemma with_key_other s k f s' j :
  with_key s k f = Some s' -> j <> k -> nth_error (keys s') j = nth_error (keys s) j.
Proof.
  unfold with_key. intros H Hjk.
  destruct (nth_error (keys s) k) as [x|]; [|discriminate].
  destruct (f x) as [y|]; [|discriminate]. inversion H; subst. cbn [keys set_keys].
  apply upd_other. exact Hjk.
Qed.

Definition cancel_ev (e : ev) (k : nat) : Prop :=
  (exists ok, e = ECancelPush k ok) \/ e = EPollCancel k.

Theorem cancel_is_local s e k s' j :
  cancel_ev e k -> step s e = Some s' -> j <> k ->
  nth_error (keys s') j = nth_error (keys s) j /\
  ring_open s' = ring_open s /\ dropping s' = dropping s.
Proof.
  intros Hc Hs Hjk. unfold step in Hs.
  destruct Hc as [[ok ->]| ->]; cbn [user_ev strict_ev andb] in Hs;
    destruct (blocked s); try discriminate.
  - split; [eapply with_key_other; eauto|].
    unfold with_key in Hs. destruct (nth_error (keys s) k); [|discriminate].
    destruct (touch k0); [|discriminate]. inversion Hs; subst. split; reflexivity.
  - split; [eapply with_key_other; eauto|].
    unfold with_key in Hs. destruct (nth_error (keys s) k) as [x|]; [|discriminate].
    match type of Hs with match ?f with _ => _ end = _ => destruct f end; [|discriminate].
    inversion Hs; subst. split; reflexivity.
Qed.

(* ---------------------------------------------------------------------- *)
(* the submission queue and its overflow loop (C02, C05)                   *)

Definition sq_all (q : sqst) : list nat := submitted q ++ sq q.

Lemma sq_push_raw_spec cap q x :
  sq_all (sq_push_raw cap q x) = sq_all q ++ [x] /\
  (1 <= cap -> length (sq q) <= cap -> length (sq (sq_push_raw cap q x)) <= cap).
Proof.
  unfold sq_push_raw, sq_all. destruct (Nat.ltb_spec (length (sq q)) cap); cbn [sq submitted].
  - split; [rewrite app_assoc; reflexivity|]. intros _ _. rewrite app_length. cbn. lia.
  - split; [reflexivity|]. intros. cbn. lia.
Qed.

(* for every capacity >= 1 and every sequence of pushes (operation entries and
   cancel requests alike), nothing is lost, duplicated or reordered, and the
   queue never exceeds its capacity *)
Theorem sq_overflow_lossless cap xs :
  1 <= cap ->
  let q := fold_left (sq_push_raw cap) xs (mk_sq [] []) in
  sq_all q = xs /\ length (sq q) <= cap.
Proof.
  intros Hcap.
  assert (H : forall q0, length (sq q0) <= cap ->
            sq_all (fold_left (sq_push_raw cap) xs q0) = sq_all q0 ++ xs /\
            length (sq (fold_left (sq_push_raw cap) xs q0)) <= cap).
  { induction xs as [|x xs IH]; intros q0 Hq0; cbn [fold_left].
    - rewrite app_nil_r. split; [reflexivity|exact Hq0].
    - destruct (sq_push_raw_spec cap q0 x) as [Ha Hl].
      destruct (IH (sq_push_raw cap q0 x) (Hl Hcap Hq0)) as [IH1 IH2].
      rewrite IH1, Ha, <- app_assoc. split; [reflexivity|exact IH2]. }
  cbv zeta. destruct (H (mk_sq [] []) ltac:(cbn; lia)) as [H1 H2]. split; [exact H1|exact H2].
Qed.

Theorem sq_flush_submits_all q : sq (sq_flush q) = [] /\ submitted (sq_flush q) = sq_all q.
Proof. split; reflexivity. Qed.

(* the cancel path before the fix (a bare push that gives up on a full queue)
   loses the request: witness *)
Lemma sq_push_bare_loses :
  exists cap q x, 1 <= cap /\ length (sq q) <= cap /\
    snd (sq_push_bare cap q x) = false /\ ~ In x (sq_all (fst (sq_push_bare cap q x))).
Proof.
  exists 1, (mk_sq [7] []), 9. cbn. split; [lia|]. split; [lia|]. split; [reflexivity|].
  intros [H|H]; [discriminate H|exact H].
Qed.

(* C01 (zero-copy) / C02: the buffer travels inside the operation storage and
   only take_result hands it back; that is impossible while the kernel owns
   the operation (before the final / notification completion) *)
Theorem pop_while_in_kernel_rejected u es s k x :
  steps (init u) es = Some s ->
  nth_error (keys s) k = Some x -> in_kernel x = true ->
  step s (EUserPop k true) = None /\ step s (EUserPushReady k) = None.
Proof.
  intros Hs Hk Hin.
  pose proof (reachable_inv _ _ _ Hs) as Hi.
  assert (Hi' : Inv (settle_all s)) by (apply settle_all_inv; exact Hi).
  unfold step. cbn [user_ev strict_ev andb].
  destruct (blocked (settle_all s)); [split; reflexivity|].
  unfold with_key, settle_all. cbn [keys set_keys].
  rewrite nth_error_map, Hk. cbn [option_map].
  pose proof (nth_error_Forall _ _ _ _ Hi Hk) as Hx.
  pose proof (settle_kinv x Hx) as (H1 & H2 & H3 & H4).
  assert (Hin' : in_kernel (settle x) = true).
  { destruct x as [rc0 us lk ik fr qu ch en re ca fd ho]. unfold settle, live, release_n.
    cbn in *. destruct ho, fd; cbn; exact Hin. }
  destruct (H3 Hin') as [Hl Hf]. specialize (H2 Hf). rewrite Hl in H2. cbn [b2n] in H2.
  unfold live. rewrite Hf. cbn [negb orb andb].
  split.
  - destruct (Nat.eqb_spec (user (settle x)) 0); [reflexivity|].
    destruct (Nat.eqb_spec (rc (settle x)) 1); [lia|]. reflexivity.
  - destruct (Nat.ltb_spec 0 (user (settle x))); [|reflexivity].
    destruct (Nat.eqb_spec (rc (settle x)) 1); [lia|]. reflexivity.
Qed.
