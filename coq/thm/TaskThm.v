(* TaskThm.v — invariants of the task LTS (model/Task.v), proved for every
   state reachable by ANY interleaving of labels of the current code ([fixed]),
   refutations for the four earlier code versions, and the layout tie of the
   state word to the constants generated from state.rs. *)
From Compio.Model Require Import Base Task.
From Compio.Gen Require Consts.
Local Open Scope nat_scope.


(* ---------------------------------------------------------------------- *)
(* layout tie: the seven flag masks are distinct single bits below RC_UNIT,
   RC_UNIT = 2^RC_SHIFT, the initial word is TASK_INIT + n * RC_UNIT, and the
   record operations are the bit operations of state.rs on the flag part     *)

Definition flag_masks : list N :=
  [Consts.SCHEDULED; Consts.SCHEDULING; Consts.NOT_SETTING_WAKER; Consts.HAS_WAKER;
   Consts.COMPLETED; Consts.HAS_RESULT; Consts.NOT_CANCELLED].

Fixpoint pairwise_disjoint (l : list N) : bool :=
  match l with
  | [] => true
  | m :: r => forallb (fun k => N.eqb (N.land m k) 0) r && pairwise_disjoint r
  end.

Lemma flags_layout :
  pairwise_disjoint flag_masks = true
  /\ forallb (fun m => N.ltb 0 m && N.ltb m Consts.RC_UNIT) flag_masks = true
  /\ Consts.RC_UNIT = N.shiftl 1 Consts.RC_SHIFT
  /\ forallb (fun m => N.eqb (N.land m Consts.RC_UNIT) 0) flag_masks = true.
Proof. vm_compute. repeat split; reflexivity. Qed.

Lemma init_word_layout : forall n,
  encode (init_word n) = (Consts.TASK_INIT + Consts.RC_UNIT * N.of_nat n)%N.
Proof. intro n. unfold encode, flags_N, init_word. cbn [scheduled scheduling nsw has_waker completed has_result not_cancelled count bN]. reflexivity. Qed.

Definition flag_word (a b c d e f g : bool) : word := mkw a b c d e f g 0.

(* on every combination of the seven flags: decode . encode = id and every
   read-modify-write of state.rs is the corresponding record operation *)
Lemma flag_ops_layout : forall a b c d e f g,
  let x := flag_word a b c d e f g in
  decode (encode x) = x
  /\ decode (fetch_or (encode x) (N.lor Consts.SCHEDULED Consts.SCHEDULING)) = start_scheduling x
  /\ decode (fetch_and_not (encode x) Consts.SCHEDULING) = finish_scheduling x
  /\ decode (fetch_and_not (encode x) Consts.SCHEDULED) = unschedule x
  /\ decode (fetch_and_not (encode x) Consts.NOT_CANCELLED) = set_cancelled x
  /\ decode (fetch_or (encode x) (N.lor Consts.COMPLETED Consts.HAS_RESULT)) = finish_running x
  /\ decode (fetch_and_not (encode x) Consts.NOT_SETTING_WAKER) = start_setting_waker x
  /\ decode (fetch_or (encode x) (N.lor Consts.NOT_SETTING_WAKER Consts.HAS_WAKER)) = finish_setting_waker true x
  /\ decode (fetch_or (encode x) Consts.NOT_SETTING_WAKER) = finish_setting_waker false x
  /\ decode (fetch_and_not (encode x) (N.lor Consts.HAS_WAKER Consts.NOT_CANCELLED)) = set_dropped x
  /\ decode (fetch_and_not (encode x) Consts.HAS_RESULT) = set_has_result false x
  /\ decode (fetch_or (encode x) Consts.HAS_WAKER) = set_has_waker true x.
Proof. intros a b c d e f g. destruct a, b, c, d, e, f, g; vm_compute; repeat split; reflexivity. Qed.

(* the reference count sits above the flags: adding k * RC_UNIT changes no flag
   and adds k to the decoded count *)
Lemma count_layout : forall a b c d e f g k,
  decode (encode (flag_word a b c d e f g) + Consts.RC_UNIT * N.of_nat k)%N
  = w_count k (flag_word a b c d e f g).
Proof.
  intros a b c d e f g k.
  assert (HU : Consts.RC_UNIT = (2 ^ 7)%N) by reflexivity.
  assert (HS : Consts.RC_SHIFT = 7%N) by reflexivity.
  set (x := flag_word a b c d e f g).
  assert (Hlt : (encode x < 2 ^ 7)%N) by (subst x; destruct a, b, c, d, e, f, g; vm_compute; reflexivity).
  assert (Hland : forall a0 m, (m < 2 ^ 7)%N -> N.land a0 m = N.land (a0 mod 2 ^ 7) m).
  { intros a0 m Hm. rewrite <- (N.land_ones a0 7). rewrite <- N.land_assoc. f_equal.
    rewrite N.land_comm, N.land_ones. symmetry. apply N.mod_small. exact Hm. }
  assert (Hbit : forall m, In m flag_masks ->
            bit_set (encode x + Consts.RC_UNIT * N.of_nat k) m = bit_set (encode x) m).
  { intros m Hm. unfold bit_set. f_equal. f_equal.
    assert (Hm' : (m < 2 ^ 7)%N) by (cbn in Hm; intuition (subst m; reflexivity)).
    rewrite (Hland _ m Hm'). rewrite HU, (N.mul_comm (2 ^ 7)).
    rewrite N.mod_add by discriminate. rewrite (N.mod_small _ _ Hlt). reflexivity. }
  unfold decode. 
  rewrite !Hbit by (cbn; tauto).
  assert (Hd : decode (encode x) = x) by (subst x; destruct a, b, c, d, e, f, g; vm_compute; reflexivity).
  unfold decode in Hd. 
  rewrite HS, HU. rewrite N.shiftr_div_pow2.
  rewrite (N.mul_comm (2 ^ 7)), N.div_add by discriminate.
  rewrite (N.div_small _ _ Hlt). cbn [N.add]. rewrite Nat2N.id.
  injection Hd as H1 H2 H3 H4 H5 H6 H7 _.
  subst x. unfold flag_word, w_count in *. cbn [scheduled scheduling nsw has_waker completed has_result not_cancelled count] in *.
  rewrite H1, H2, H3, H4, H5, H6, H7. reflexivity.
Qed.

(* ---------------------------------------------------------------------- *)
Definition b2n (b : bool) : nat := if b then 1 else 0.

Definition is_HGone (h : hpc) : bool := match h with HGone => true | _ => false end.
Definition is_FDone (f : fpc) : bool := match f with FDone => true | _ => false end.
Definition e_past (e : epc) : bool :=
  match e with EIdle | ERun _ | EPolling | EWrite _ | EFinish | EWake _ | EDropSet _ => false | _ => true end.
Definition e_prefinish (e : epc) : bool :=
  match e with EIdle | ERun _ | EPolling | EWrite _ | EFinish => true | _ => false end.
Definition e_nulled (e : epc) : bool :=
  match e with EDropFut _ _ _ | EDropWk _ _ | EWait | EDec | EGone => true | _ => false end.
Definition e_win (e : epc) : bool :=
  match e with EDropNull _ _ true | EDropFut _ _ true | EDropWk _ true => true | _ => false end.
Definition e_passed (e : epc) : bool := match e with EDec | EGone => true | _ => false end.
Definition h_crit (h : hpc) : bool :=
  match h with HCrit _ _ _ | HFinF _ _ | HWrite _ | HFinT => true | _ => false end.
Definition h_inpoll (h : hpc) : bool :=
  match h with HTop _ _ | HTake | HCrit _ _ _ | HFinF _ _ | HWrite _ | HFinT => true | _ => false end.
Definition h_unc (h : hpc) : bool :=
  match h with
  | HIdle | HTop _ _ | HCrit _ _ _ | HFinF _ _ | HWrite _ | HFinT | HCan _ _ | HCanSet _ | HCanClr => true
  | _ => false
  end.
Definition h_holdsres (h : hpc) : bool := match h with HTake | HCanDrop => true | _ => false end.
Definition h_own (h : hpc) : bool :=
  match h with HCan _ SSpin => false | HCan _ _ => true | _ => false end.
Definition h_hold (h : hpc) : bool := match h with HCan _ SHold => true | _ => false end.
Definition f_early (f : fpc) : bool := match f with FNone | FRes _ _ => true | _ => false end.
Definition f_slotgone (f : fpc) : bool := match f with FDealloc | FDone => true | _ => false end.

Definition st0 (s : st) : Prop :=
  stor s = SFuture /\ fdrops s = 0 /\ completed (wd s) = false /\ has_result (wd s) = false
  /\ rtakes s + rdrops s = 0.
Definition st1 (s : st) : Prop :=
  stor s = SEmpty /\ fdrops s = 1 /\ completed (wd s) = false /\ has_result (wd s) = false
  /\ rtakes s + rdrops s = 0.
Definition st2 (s : st) : Prop :=
  is_res (stor s) = true /\ fdrops s = 1 /\ completed (wd s) = false /\ has_result (wd s) = false
  /\ rtakes s + rdrops s = 0.
Definition resphase (s : st) : Prop :=
  (has_result (wd s) = true ->
     if f_early (fp s)
     then is_res (stor s) = true /\ rtakes s + rdrops s = 0 /\ h_holdsres (hp s) = false
     else stor s = SEmpty /\ rtakes s + rdrops s = 1)
  /\ (has_result (wd s) = false ->
     if h_holdsres (hp s)
     then is_res (stor s) = true /\ rtakes s + rdrops s = 0
     else stor s = SEmpty /\ rtakes s + rdrops s = 1).
Definition st3 (s : st) : Prop :=
  fdrops s = 1 /\ completed (wd s) = true /\ resphase s.

Definition stage_ok (s : st) : Prop :=
  match ep s with
  | EIdle | EPolling => st0 s
  | ERun c => c = false /\ st0 s
  | EWrite _ => st1 s
  | EFinish => st2 s
  | EWake _ => st3 s
  | EDropSet _ => if completed (wd s) then st3 s else st0 s
  | EDropNull _ c _ | EDropFut _ c _ =>
      c = completed (wd s) /\ (if completed (wd s) then st3 s else st0 s)
  | EDropWk _ _ | EWait | EDec | EGone => if completed (wd s) then st3 s else st1 s
  end.

Definition slot_ok (s : st) : Prop :=
  match hp s with
  | HWrite k => slot s = k /\ e_win (ep s) = false
  | HFinT => slot s = true /\ e_win (ep s) = false
  | HCrit r c k =>
      slot s = (k || e_win (ep s)) /\ (has_waker (wd s) = true -> k = true)
      /\ (e_win (ep s) = true -> c = true /\ k = false)
  | HFinF _ k =>
      slot s = (k || e_win (ep s)) /\ (has_waker (wd s) = true -> k = true)
      /\ (e_win (ep s) = true -> k = false)
  | _ => if f_slotgone (fp s) then slot s = false
         else slot s = (has_waker (wd s) || e_win (ep s))
  end.

Definition wake_ok (s : st) : Prop :=
  match ep s with
  | EWake true =>
      has_waker (wd s) = true /\
      match hp s with
      | HWrite _ | HFinT => False
      | HCrit r c _ => r = true \/ c = true
      | _ => True
      end
  | _ => True
  end.



Record Grc (s : st) : Prop := mkGrc {
  i_rc : count (wd s) = b2n (negb (is_EGone (ep s))) + b2n (negb (is_HGone (hp s)))
                        + lw s + wi s + we s + ws s + wl s + wh s + wf s;
  i_fp : is_FNone (fp s) = Nat.ltb 0 (count (wd s));
  i_alloc : alloc s = negb (is_FDone (fp s));
  i_dealloc : deallocs s = b2n (is_FDone (fp s))
}.

Record Gres (s : st) : Prop := mkGres {
  i_fpr : match fp s with FRes r _ => r = has_result (wd s) | _ => True end;
  i_stage : stage_ok s;
  i_unc : completed (wd s) = true -> h_unc (hp s) = true -> has_result (wd s) = true;
  i_hsnap : match hp s with
            | HTop true _ | HCanClr => has_result (wd s) = true
            | HTake | HCanDrop => completed (wd s) = true
            | _ => True
            end
}.

Record Gslot (s : st) : Prop := mkGslot {
  i_fpk : match fp s with FRes _ k | FWk k => k = has_waker (wd s) | _ => True end;
  i_nsw : nsw (wd s) = negb (h_crit (hp s));
  i_slot : slot_ok s;
  i_win : e_win (ep s) = true -> has_waker (wd s) = false;
  i_wake : wake_ok s
}.

Record Gpend (s : st) : Prop := mkGpend {
  i_pend0 : h_inpoll (hp s) = true -> hlast s = None;
  i_pend1 : hlast s = Some PPending -> e_prefinish (ep s) = true -> has_waker (wd s) = true;
  i_pend2 : completed (wd s) = true -> hlast s = Some PPending ->
            woken s = true \/ ep s = EWake true
}.

Record Gsched (s : st) : Prop := mkGsched {
  i_own : we s + wl s + wh s + wf s + b2n (h_own (hp s)) = b2n (scheduling (wd s));
  i_passed : e_passed (ep s) = true -> wh s = 0 /\ h_hold (hp s) = false;
  i_nulled : e_nulled (ep s) = true -> shnull s = true;
  i_freed : shfreed s = true -> ep s = EGone
}.

Record Gcanc (s : st) : Prop := mkGcanc {
  i_past : e_past (ep s) = true -> not_cancelled (wd s) = false;
  i_canc : not_cancelled (wd s) = false -> hcanc s = true \/ e_past (ep s) = true;
  i_hdrop : hdropped s = true -> not_cancelled (wd s) = false;
  i_hc : match hp s with
         | HCan _ _ | HCanSet _ => hcanc s = true
         | HCanClr | HCanDrop => hcanc s = true /\ not_cancelled (wd s) = false
         | _ => True
         end
}.

Ltac unf := unfold stage_ok, slot_ok, wake_ok, st0, st1, st2, st3, resphase in *.


Local Opaque Nat.ltb Nat.eqb Nat.leb.

Ltac upreds :=
  unfold is_EIdle, is_EGone, is_HIdle, is_HGone, is_FNone, is_FDone, is_res, is_fut, is_empty,
         e_past, e_prefinish, e_nulled, e_win, e_passed, h_crit, h_inpoll, h_unc, h_holdsres,
         h_own, h_hold, f_early, f_slotgone, cancelled, home_user, b2n in *.

Ltac bool_hyps :=
  repeat match goal with
  | H : _ && _ = true |- _ => apply andb_prop in H; destruct H
  | H : _ || _ = false |- _ => apply orb_false_elim in H; destruct H
  | H : _ && _ = false |- _ => apply andb_false_iff in H; destruct H
  | H : _ || _ = true |- _ => apply orb_true_iff in H; destruct H
  | H : negb _ = true |- _ => apply negb_true_iff in H
  | H : negb _ = false |- _ => apply negb_false_iff in H
  | H : (_ <? _) = true |- _ => apply Nat.ltb_lt in H
  | H : (_ <? _) = false |- _ => apply Nat.ltb_ge in H
  | H : (_ =? _) = true |- _ => apply Nat.eqb_eq in H
  | H : (_ =? _) = false |- _ => apply Nat.eqb_neq in H
  | H : true = false |- _ => discriminate H
  | H : false = true |- _ => discriminate H
  | H : _ /\ _ |- _ => destruct H
  end.

Ltac dvars :=
  repeat (match goal with
          | |- context[match ?v with _ => _ end] => is_var v; destruct v
          | H : context[match ?v with _ => _ end] |- _ => is_var v; destruct v
          | |- context[if ?v then _ else _] => is_var v; destruct v
          | H : context[if ?v then _ else _] |- _ => is_var v; destruct v
          | |- context[?a =? ?b] => destruct (Nat.eqb_spec a b)
          | H : context[?a =? ?b] |- _ => destruct (Nat.eqb_spec a b)
          | |- context[?a <? ?b] => destruct (Nat.ltb_spec a b)
          | H : context[?a <? ?b] |- _ => destruct (Nat.ltb_spec a b)
          end; cbn in *; try discriminate; try tauto).

Ltac fin := bool_hyps; intuition (try discriminate; try congruence; try lia).

Ltac dstate s :=
  destruct s as [x ep0 hp0 fp0 stor0 slot0 shnull0 shfreed0 alloc0 tearing0 hot0 synq0 lw0 wi0 we0 ws0 wl0 wh0 wf0
                   polls0 fdrops0 rtakes0 rdrops0 deallocs0 wakes0 hlast0 woken0 hcanc0 hdropped0 detached0 bad0];
  destruct x as [sch sng nsw0 hw cmp hr nc cnt].

(* reduce [step fixed s l = Some s'] for a concrete label: destruct what the guards look at *)
Ltac guards Hs :=
  repeat match type of Hs with
         | context[match ?v with _ => _ end] => is_var v; destruct v; cbn in Hs; try discriminate Hs
         | context[if ?v then _ else _] => is_var v; destruct v; cbn in Hs; try discriminate Hs
         | context[if ?c then _ else _] => let E := fresh "E" in destruct c eqn:E; cbn in Hs; try discriminate Hs
         | context[match ?c with _ => _ end] => let E := fresh "E" in destruct c eqn:E; cbn in Hs; try discriminate Hs
         end.



(* guard facts: which constructor a pc is *)
Ltac gfacts :=
  unfold is_EIdle, is_EGone, is_HIdle, home_user, cancelled in *|-; cbn in *|-;
  repeat (bool_hyps;
          match goal with
          | H : match ?v with _ => _ end = true |- _ => is_var v; destruct v; cbn in *|-; try discriminate H
          | H : match ?v with _ => _ end = false |- _ => is_var v; destruct v; cbn in *|-; try discriminate H
          end).

(* replace a boolean comparison by its two cases everywhere *)
Ltac case_ltb a b :=
  let c := fresh "c" in let Hc := fresh "Hc" in
  pose proof (Nat.ltb_spec a b) as Hc; set (c := a <? b) in *; clearbody c; destruct Hc.
Ltac case_eqb a b :=
  let c := fresh "c" in let Hc := fresh "Hc" in
  pose proof (Nat.eqb_spec a b) as Hc; set (c := a =? b) in *; clearbody c; destruct Hc.

(* destruct only what the GOAL branches on *)
Ltac dgoal :=
  repeat (match goal with
          | |- context[match ?v with _ => _ end] => is_var v; destruct v
          | |- context[if ?v then _ else _] => is_var v; destruct v
          | |- context[?a && _] => is_var a; destruct a
          | |- context[_ && ?a] => is_var a; destruct a
          | |- context[?a || _] => is_var a; destruct a
          | |- context[_ || ?a] => is_var a; destruct a
          | |- context[negb ?a] => is_var a; destruct a
          | |- context[?a =? ?b] => case_eqb a b
          | |- context[?a <? ?b] => case_ltb a b
          end; cbn in *; try discriminate; try tauto).
Ltac dhyp_arith :=
  repeat match goal with
         | H : context[?a =? ?b] |- _ => case_eqb a b
         | H : context[?a <? ?b] |- _ => case_ltb a b
         end.
Ltac pfacts :=
  repeat match goal with
         | H : is_FNone ?f = _ |- _ => is_var f; destruct f; cbn in *; try discriminate H
         | H : is_FDone ?f = _ |- _ => is_var f; destruct f; cbn in *; try discriminate H
         end.
Ltac b2n_cases :=
  repeat match goal with
         | H : context[b2n ?b] |- _ => is_var b; destruct b; cbn in *
         | |- context[b2n ?b] => is_var b; destruct b; cbn in *
         end.
Ltac close := solve [intuition (try discriminate; try congruence; try lia)
                   | intuition (rewrite ?orb_false_r, ?orb_true_r, ?andb_true_r, ?andb_false_r in *;
                                subst; cbn in *; try discriminate; try congruence; try lia)
                   | intuition (repeat match goal with
                                       | H : _ = true |- _ => progress (rewrite H)
                                       | H : _ = false |- _ => progress (rewrite H)
                                       end; cbn; try reflexivity; try congruence; try lia)].

(* everybody is gone once the count is 0 *)
Ltac gone_facts :=
  match goal with
  | H1 : ?cnt = b2n (negb (is_EGone ?e)) + b2n (negb (is_HGone ?h)) + _ + _ + _ + _ + _ + _ + _,
    H2 : false = (0 <? ?cnt) |- _ =>
      is_var e; is_var h;
      let He := fresh "He" in
      assert (He : is_EGone e = true /\ is_HGone h = true)
        by (symmetry in H2; apply Nat.ltb_ge in H2; destruct e; destruct h; cbn in *;
            first [split; reflexivity | exfalso; lia]);
      destruct He as [He ?]; destruct e; try discriminate He; destruct h; try discriminate; cbn in *
  end.

(* case analysis on the boolean facts about a program counter that is still a variable *)
Ltac case_atoms :=
  repeat match goal with
         | H : context[?p ?v] |- _ =>
             is_var v;
             lazymatch type of H with true = _ => fail | false = _ => fail | _ => idtac end;
             match type of v with epc => idtac | hpc => idtac | fpc => idtac end;
             match type of (p v) with bool => idtac end;
             let c := fresh "c" in let E := fresh "Ec" in
             remember (p v) as c eqn:E in *; destruct c
         | |- context[?p ?v] =>
             is_var v;
             match type of v with epc => idtac | hpc => idtac | fpc => idtac end;
             match type of (p v) with bool => idtac end;
             let c := fresh "c" in let E := fresh "Ec" in
             remember (p v) as c eqn:E in *; destruct c
         end.

Ltac pc_cases :=
  repeat match goal with
         | v : epc |- _ => destruct v
         | v : hpc |- _ => destruct v
         | v : fpc |- _ => destruct v
         | v : spc |- _ => destruct v
         end; cbn in *.

Ltac prem_cases :=
  repeat match goal with
         | H : ?b = true -> _ |- _ => is_var b; destruct b; cbn in *
         | H : ?b = false -> _ |- _ => is_var b; destruct b; cbn in *
         end.
Ltac pres_facts :=
  repeat match goal with
         | H : Some (pres_of ?b) = Some PPending |- _ => destruct b; discriminate H
         end.
Ltac fin2 := try gone_facts; intros; pres_facts; unfold finish_setting_waker, cancelled, implb in *; cbn in *; bool_hyps; dgoal; dhyp_arith; bool_hyps; cbn in *;
             first [ close
                   | pfacts; cbn in *; first [ close
                   | b2n_cases; first [ close
                   | prem_cases; bool_hyps; close
                   | case_atoms; cbn in *; bool_hyps; close
                   | upreds; cbn in *; dvars; close
                   | case_atoms; cbn in *; bool_hyps; upreds; pc_cases; bool_hyps; dgoal; close ] ] ].

Ltac label_cases l :=
  destruct l;
  try match goal with a : sact |- _ => destruct a end;
  try match goal with o : outcome |- _ => destruct o end.

Ltac open_step Hs :=
  unfold step in Hs;
  let A := fresh "A" in let EA := fresh "EA" in
  remember nat_arith as A eqn:EA in Hs;
  vm_compute in Hs; subst A; cbn [altb aeqb apred nat_arith] in Hs.

(* common start of a preservation lemma: s is destructed, the step equation solved for s' *)
Ltac pres_start s l Hs :=
  dstate s; label_cases l; open_step Hs; guards Hs; injection Hs as <-; gfacts.


(* the labels in eight parts (one proof file per group and part) *)
Definition part (l : label) : nat :=
  match thread_of l, exec_label l with
  | THome, true => 1
  | TFinal, _ => 1
  | THome, false => match l with LPoll _ => 2 | _ => 8 end
  | THandle, _ => 3
  | TWaker, _ => match l with WSched (ARetry | AEarly | ALoad) => 5 | WSched APush => 6 | WSched _ => 7 | _ => 4 end
  end.

Ltac pres_start_part s l Hs Hp :=
  dstate s; label_cases l; try discriminate Hp; clear Hp;
  open_step Hs; guards Hs; injection Hs as <-; gfacts.
