(* FragWakeThm.v — tie of the AwakeFlag operations of model/Wake.v to the code
   of compio-driver/src/sys/driver/mod.rs as translated by tools/rs2v.py
   (gen/Frag.v): `set`, `reset`, `wake` as they stand in the source now are the
   flag transitions the LTS uses, and the cfg(compio_verif) variants of `reset`
   and `wake` (which only add events) compute exactly what the production
   variants compute. *)
From Compio.Model Require Import Base Wake RsSem.
From Compio.Gen Require Consts Frag.
Local Open Scope N_scope.

Theorem awake_flag_tie : forall f : N,
  Frag.awake_set f = (Consts.AWAKE_AWAKE, tt)
  /\ Frag.awake_reset f = (Consts.AWAKE_IDLE, has_notified f)
  /\ Frag.awake_wake f = (fl_wake f, negb (fl_idle f))
  /\ Frag.awake_reset_hooked f = Frag.awake_reset f
  /\ Frag.awake_wake_hooked f = Frag.awake_wake f.
Proof. intro f. repeat split. Qed.

(* the three values are distinct, NOTIFIED is one bit that AWAKE does not
   contain, and IDLE is the zero the `!= 0` test of `wake` relies on *)
Theorem awake_flag_values :
  Consts.AWAKE_IDLE = 0 /\ N.land Consts.AWAKE_AWAKE Consts.AWAKE_NOTIFIED = 0
  /\ Consts.AWAKE_AWAKE <> 0 /\ Consts.AWAKE_NOTIFIED <> 0
  /\ (forall f, f < 4 -> fl_wake f < 4)
  /\ (forall f, has_notified (fl_wake f) = true).
Proof.
  repeat split; try discriminate.
  - intros f Hf. unfold fl_wake. change Consts.AWAKE_NOTIFIED with 1.
    assert (H : f = 0 \/ f = 1 \/ f = 2 \/ f = 3) by lia.
    destruct H as [->|[->|[->| ->]]]; vm_compute; reflexivity.
  - intro f. unfold has_notified, fl_wake. rewrite N.land_lor_distr_l.
    change (N.land Consts.AWAKE_NOTIFIED Consts.AWAKE_NOTIFIED) with 1.
    destruct (N.land f Consts.AWAKE_NOTIFIED); reflexivity.
Qed.
