(* FragWakeThm.v — tie of the AwakeFlag operations of model/Wake.v to the code
   of compio-driver/src/sys/driver/mod.rs as translated by tools/rs2v.py
   (gen/Frag.v): `set`, `reset`, `wake` as they stand in the source now are the
   flag transitions the LTS uses, and the cfg(compio_verif) variants of `reset`
   and `wake` (which only add events) compute exactly what the production
   variants compute. *)
From Compio.Model Require Import Base Wake RsSem.
From Compio.Gen Require Consts Frag.
Local Open Scope N_scope.

Theorem awake_flag_tie : forall f : N,
  Frag.awake_set f = (Consts.AWAKE_AWAKE, tt)
  /\ Frag.awake_reset f = (Consts.AWAKE_IDLE, has_notified f)
  /\ Frag.awake_wake f = (fl_wake f, negb (fl_idle f))
  /\ Frag.awake_reset_hooked f = Frag.awake_reset f
  /\ Frag.awake_wake_hooked f = Frag.awake_wake f.
Proof. intro f. repeat split. Qed.

(* the three values are distinct, NOTIFIED is one bit that AWAKE does not
   contain, and IDLE is the zero the `!= 0` test of `wake` relies on *)
Theorem awake_flag_values :
  Consts.AWAKE_IDLE = 0 /\ N.land Consts.AWAKE_AWAKE Consts.AWAKE_NOTIFIED = 0
  /\ Consts.AWAKE_AWAKE <> 0 /\ Consts.AWAKE_NOTIFIED <> 0
  /\ (forall f, f < 4 -> fl_wake f < 4)
  /\ (forall f, has_notified (fl_wake f) = true).
Proof.
  repeat split; try discriminate.
  - intros f Hf. unfold fl_wake. change Consts.AWAKE_NOTIFIED with 1.
    assert (H : f = 0 \/ f = 1 \/ f = 2 \/ f = 3) by lia.
    destruct H as [->|[->|[->| ->]]]; vm_compute; reflexivity.
  - intro f. unfold has_notified, fl_wake. rewrite N.land_lor_distr_l.
    change (N.land Consts.AWAKE_NOTIFIED Consts.AWAKE_NOTIFIED) with 1.
    destruct (N.land f Consts.AWAKE_NOTIFIED); reflexivity.
Qed.

(* ---- io_uring poll_entries: how a completion is classified ------------------------------- *)
From Compio.Model Require DriverKeys.

(* the NOTIFY completion the kernel posts: with MORE the multishot poll lives on, without it
   the poll has ended *)
Definition notify_cqe (more : bool) : cqe := if more then CNotify else CFinal.

(* the condition under which poll_entries sets NEED_PUSH_NOTIFIER, as the source has it now, is
   the model's: exactly the final (MORE-less) NOTIFY completion makes the driver arm the
   notifier again, and every NOTIFY completion clears the eventfd *)
Theorem notify_rearm_tie : forall more a,
  need_push (apply_cqe (notify_cqe more) a) = (Frag.iour_notify_rearm more || need_push a)%bool
  /\ efd (apply_cqe (notify_cqe more) a) = 0%nat.
Proof. intros more a. destruct more; split; reflexivity. Qed.

(* an operation's completion is handled as non-final (result pushed to the multishot queue, the
   key stays in in_flight, the leaked reference stays with the kernel) exactly when the source's
   condition holds, otherwise as the final one (in_flight.remove + Entry::notify) *)
Theorem cqe_class_tie : forall more k,
  (if Frag.iour_cqe_more more then DriverKeys.ECqeMore k else DriverKeys.ECqeFinal k)
  = (if more then DriverKeys.ECqeMore k else DriverKeys.ECqeFinal k).
Proof. intros more k. reflexivity. Qed.

(* ---- Proactor::cancel_token (compio-driver/src/lib.rs) ---------------------------------------- *)
(* the driver is asked to cancel exactly when the operation was neither cancelled before nor has
   its result already: firing a token twice, or after completion, never reaches the driver *)
Theorem cancel_token_guard_tie : forall was_cancelled has_result : bool,
  Frag.cancel_token_skips was_cancelled has_result = (was_cancelled || has_result)%bool
  /\ (Frag.cancel_token_skips was_cancelled has_result = false <-> was_cancelled = false /\ has_result = false).
Proof. intros [] []; cbn; repeat split; try discriminate; intros [? ?]; discriminate. Qed.

(* ---- Runtime::block_on_at (compio-runtime/src/lib.rs): when the loop blocks in the driver ------ *)
(* in block_on mode (no external loop), at the point where the driver is entered with a wait
   requested: the runtime thread goes to its blocking wait exactly when the source's decision
   (`if remaining_tasks { poll_with(Some(ZERO)) } else { poll() }`) says "block" for the model's
   remaining_tasks flag *)
Theorem block_on_wait_tie : forall v s,
  pc (r s) = REnter -> ext (c s) = false -> nw (r s) = true ->
  exists s', rt_step v s = Some s' /\
    (pc (r s') = RWait <-> Frag.block_on_blocks (rem (r s)) = true).
Proof.
  intros v s Hp He Hn. unfold rt_step. rewrite Hp. cbv zeta. rewrite He, Hn.
  unfold Frag.block_on_blocks. cbv zeta.
  destruct (rem (r s)) eqn:Hr; cbn [negb andb].
  - destruct (uring (c s) && true && isnil (cq (d (s_d (submit (d s)) s))))%bool;
      eexists; (split; [reflexivity|]); cbn; split; intro H; discriminate.
  - eexists. split; [reflexivity|]. cbn. split; reflexivity.
Qed.
