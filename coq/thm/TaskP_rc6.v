(* generated layout: one invariant group / structural fact, one part of the labels (TaskThm.v) *)
From Compio.Model Require Import Base Task.
From Compio.Thm Require Import TaskThm.
Local Open Scope nat_scope.
Local Opaque Nat.ltb Nat.eqb Nat.leb.

Lemma rc_pres_6 s l s' : part l = 6 -> Grc s -> step fixed s l = Some s' -> Grc s'.
Proof.
  intros Hp. intros HI Hs. pres_start_part s l Hs Hp.
  all: destruct HI; constructor; cbn in *.
  all: try assumption.
  all: fin2.
Qed.
