(* FragCompatThm.v — source ties (gen/Frag.v, tools/rs2v.py) of the limit logic of
   compio-io's SyncWriteBuf / SyncReadBuf and of Drop for SharedFd. *)
From Compio.Model Require Import Base IoHelpers Compat SharedFd RsSem.
From Compio.Gen Require Consts Frag.
From Compio.Thm Require Import SharedFdThm.
Local Open Scope nat_scope.

(* ---- SyncWriteBuf::write: the translated accept rule decides the model's write ---- *)
Theorem wr_write_tie : forall h data,
  wtaken h = false ->
  (buf_need_flush (wb h) && negb (Nat.eqb (vlen (bvec (wb h))) 0)) = false ->
  wr_write h data =
    let b := wb h in
    let! a := Frag.sync_write_accept (vlen (bvec b) - bbegin b) (length data) (wmax h) in
    match a with
    | None => Ok (OErr E_WOULD_BLOCK, h)
    | Some k => Ok (OOk k, set_wb h (mkbuf (vextend (bvec b) (firstn k data)) (bbegin b)))
    end.
Proof.
  intros h data Ht Hf. unfold wr_write, Frag.sync_write_accept. rewrite Ht, Hf. cbv zeta.
  destruct (Nat.ltb (wmax h) (vlen (bvec (wb h)) - bbegin (wb h) + length data)).
  - destruct (usub (wmax h) (vlen (bvec (wb h)) - bbegin (wb h))) as [sp|c]; cbn [rbind]; [|reflexivity].
    destruct (Nat.eqb sp 0); reflexivity.
  - cbn [rbind]. rewrite firstn_all. reflexivity.
Qed.

(* ---- SyncReadBuf::fill_read_buf: the translated limit test is the model's ---------- *)
Theorem rd_limit_tie : forall h,
  reof h = false ->
  let b := buf_compact_to (rb h) (rbase h) (rmax h) in
  (Frag.sync_read_limit_hit (vlen (bvec b)) (rmax h) = true ->
     rd_fill_prepare h = (Some (OErr E_OUT_OF_MEMORY), set_rb h b))
  /\ (Frag.sync_read_limit_hit (vlen (bvec b)) (rmax h) = false ->
     fst (rd_fill_prepare h) = None).
Proof.
  intros h He. cbv zeta. unfold rd_fill_prepare, Frag.sync_read_limit_hit. rewrite He.
  split; intro H; rewrite H; reflexivity.
Qed.

(* ---- Drop for SharedFd: the two reads of the model's dropper decide what the
        translated condition decides when nothing runs between them ------------------- *)
Theorem fd_drop_tie : forall s i,
  nth_error (droppers s) i = Some DCount ->
  exists s1, drop_step s i = Some s1 /\ strong s1 = strong s /\ waits s1 = waits s /\
    (Nat.eqb (strong s) 2 = false ->
       nth_error (droppers s1) i = Some DDec /\ Frag.fd_drop_wakes (strong s) (waits s) = false) /\
    (Nat.eqb (strong s) 2 = true ->
       nth_error (droppers s1) i = Some DWaits /\
       exists s2, drop_step s1 i = Some s2 /\
         nth_error (droppers s2) i = Some (if Frag.fd_drop_wakes (strong s) (waits s) then DWake else DDec)).
Proof.
  intros s i Hd. unfold drop_step at 1. rewrite Hd. eexists. split; [reflexivity|].
  split; [reflexivity|]. split; [reflexivity|]. unfold Frag.fd_drop_wakes.
  cbn [droppers set_droppers]. rewrite (nth_upd_same _ _ _ _ Hd).
  split; intro E; rewrite E.
  - split; reflexivity.
  - split; [reflexivity|]. unfold drop_step. cbn [droppers set_droppers strong waits].
    rewrite (nth_upd_same _ _ _ _ Hd). eexists. split; [reflexivity|].
    cbn [droppers set_droppers]. erewrite nth_upd_same by (apply (nth_upd_same _ _ _ _ Hd)).
    cbn [andb]. reflexivity.
Qed.
