(* FileSpecThm.v — theorems about the file reference and compio's I/O glue
   (model/FileSpec.v).  The buffer-view facts come from C10 (thm/BufThm.v). *)
From Compio.Model Require Import Base Buf PipeSpec FileSpec.
From Compio.Thm Require Import ListFacts BufThm.

(* ---------------------------------------------------------------------- *)
(* small list facts                                                        *)

Lemma repeat_b_length b n : length (repeat_b b n) = n.
Proof. induction n as [|n IH]; cbn [repeat_b length]; [reflexivity|now rewrite IH]. Qed.

Lemma zeros_length n : length (zeros n) = n.
Proof. apply repeat_b_length. Qed.

Lemma pad_to_length f n : length (pad_to f n) = Nat.max (length f) n.
Proof. unfold pad_to. rewrite app_length, zeros_length. lia. Qed.

Lemma pad_to_id f n : n <= length f -> pad_to f n = f.
Proof.
  intros H. unfold pad_to. replace (n - length f) with 0 by lia. cbn [zeros repeat_b].
  apply app_nil_r.
Qed.

Lemma sub_list_length (f : list byte) off len :
  length (sub_list f off len) = Nat.min len (length f - off).
Proof. unfold sub_list. rewrite firstn_length, skipn_length. reflexivity. Qed.

Lemma sub_list_beyond (f : list byte) off len : length f <= off -> sub_list f off len = [].
Proof. intros H. unfold sub_list. rewrite skipn_all2 by exact H. apply firstn_nil. Qed.

Lemma sub_list_split (f : list byte) off a b :
  sub_list f off (a + b) = sub_list f off a ++ sub_list f (off + a) b.
Proof.
  unfold sub_list. rewrite <- (firstn_add_skipn (skipn off f) a b).
  rewrite skipn_skipn'. reflexivity.
Qed.

(* writing at or before the end: the general adjacency law (may extend) *)
Lemma write_at_app (c : list byte) off a b :
  off <= length c ->
  write_at (write_at c off a) (off + length a) b = write_at c off (a ++ b).
Proof.
  intros H. unfold write_at.
  set (X := firstn off c).
  assert (Hx : length X = off) by (unfold X; rewrite firstn_length; lia).
  set (Y := skipn (off + length a) c).
  assert (E1 : firstn (off + length a) (X ++ a ++ Y) = X ++ a).
  { rewrite (firstn_app_exact X _ off (length a) Hx).
    rewrite (firstn_app_exact0 a Y (length a) eq_refl). reflexivity. }
  assert (E2 : skipn (off + length a + length b) (X ++ a ++ Y) = skipn (length b) Y).
  { rewrite <- Nat.add_assoc. rewrite (skipn_app_exact X _ off _ Hx).
    rewrite (skipn_app_exact a Y (length a) _ eq_refl). reflexivity. }
  rewrite E1, E2. unfold Y. rewrite skipn_skipn'. rewrite app_length, <- !app_assoc.
  do 3 f_equal. f_equal. lia.
Qed.

Lemma write_at_len_max (c : list byte) off d :
  off <= length c -> length (write_at c off d) = Nat.max (length c) (off + length d).
Proof.
  intros H. unfold write_at. rewrite !app_length, firstn_length, skipn_length. lia.
Qed.

(* ---------------------------------------------------------------------- *)
(* laws of the reference file                                              *)

Lemma pread_length f off len : length (pread f off len) = Nat.min len (length f - off).
Proof. apply sub_list_length. Qed.

Lemma pread_beyond_eof f off len : length f <= off -> pread f off len = [].
Proof. apply sub_list_beyond. Qed.

Lemma pread_zero f off : pread f off 0 = [].
Proof. reflexivity. Qed.

Lemma pwrite_nil f off : pwrite f off [] = f.
Proof. reflexivity. Qed.

Lemma pwrite_cons f off x d :
  pwrite f off (x :: d) = write_at (pad_to f off) off (x :: d).
Proof. reflexivity. Qed.

Lemma pwrite_length f off d :
  d <> [] -> length (pwrite f off d) = Nat.max (length f) (off + length d).
Proof.
  intros Hd. destruct d as [|x d]; [contradiction|]. rewrite pwrite_cons.
  rewrite write_at_len_max by (rewrite pad_to_length; lia). rewrite pad_to_length. lia.
Qed.

(* what was written is read back *)
Lemma pread_pwrite f off d : pread (pwrite f off d) off (length d) = d.
Proof.
  destruct d as [|x d]; [reflexivity|]. rewrite pwrite_cons. unfold pread.
  apply write_at_read_back. rewrite pad_to_length. lia.
Qed.

(* a write beyond the end zero-fills the hole *)
Lemma pwrite_hole f off d :
  d <> [] -> length f <= off -> pwrite f off d = f ++ zeros (off - length f) ++ d.
Proof.
  intros Hd H. destruct d as [|x d]; [contradiction|]. rewrite pwrite_cons.
  unfold write_at, pad_to.
  assert (L : length (f ++ zeros (off - length f)) = off)
    by (rewrite app_length, zeros_length; lia).
  rewrite (firstn_all2 (f ++ zeros (off - length f))) by lia.
  rewrite skipn_all2 by lia. rewrite app_nil_r, <- app_assoc. reflexivity.
Qed.

(* a write inside the file changes nothing outside its range *)
Lemma pwrite_inside f off d :
  off + length d <= length f ->
  pwrite f off d = firstn off f ++ d ++ skipn (off + length d) f.
Proof.
  intros H. destruct d as [|x d].
  - cbn [pwrite length app]. rewrite Nat.add_0_r. symmetry. apply firstn_skipn.
  - rewrite pwrite_cons. rewrite pad_to_id by lia. reflexivity.
Qed.

Lemma pwrite_before f off x d :
  firstn off (pwrite f off (x :: d)) = pad_to (firstn off f) off.
Proof.
  rewrite pwrite_cons. rewrite write_at_firstn by (rewrite pad_to_length; lia).
  unfold pad_to. destruct (Nat.le_gt_cases off (length f)) as [H|H].
  - rewrite firstn_length.
    replace (off - length f) with 0 by lia.
    replace (off - Nat.min off (length f)) with 0 by lia.
    cbn [zeros repeat_b]. now rewrite !app_nil_r.
  - rewrite firstn_app. rewrite !(firstn_all2 f) by lia.
    rewrite (firstn_all2 (zeros _)) by (rewrite zeros_length; lia). reflexivity.
Qed.

Lemma pwrite_after f off x d :
  skipn (off + length (x :: d)) (pwrite f off (x :: d)) = skipn (off + length (x :: d)) f.
Proof.
  rewrite pwrite_cons. rewrite write_at_skipn by (rewrite pad_to_length; lia).
  unfold pad_to. rewrite skipn_app.
  destruct (Nat.le_gt_cases off (length f)) as [H|H].
  - replace (off - length f) with 0 by lia. cbn [zeros repeat_b]. rewrite skipn_nil.
    apply app_nil_r.
  - rewrite (skipn_all2 f) by lia.
    rewrite skipn_all2 by (rewrite zeros_length; cbn [length]; lia). reflexivity.
Qed.

(* two adjacent writes are one write of the concatenation *)
Lemma pwrite_app f off a b :
  pwrite (pwrite f off a) (off + length a) b = pwrite f off (a ++ b).
Proof.
  destruct a as [|x a].
  - cbn [pwrite length app]. now rewrite Nat.add_0_r.
  - destruct b as [|y b]; [now rewrite app_nil_r|].
    change ((x :: a) ++ y :: b) with (x :: (a ++ y :: b)).
    rewrite (pwrite_cons f off x a), (pwrite_cons f off x (a ++ y :: b)).
    rewrite pwrite_cons.
    rewrite pad_to_id by (rewrite write_at_len_max by (rewrite pad_to_length; lia); lia).
    apply (write_at_app (pad_to f off) off (x :: a) (y :: b)). rewrite pad_to_length. lia.
Qed.

(* ftruncate *)
Lemma ftruncate_length f n : length (ftruncate f n) = n.
Proof. unfold ftruncate. rewrite app_length, firstn_length, zeros_length. lia. Qed.

Lemma ftruncate_shrink f n : n <= length f -> ftruncate f n = firstn n f.
Proof.
  intros H. unfold ftruncate. replace (n - length f) with 0 by lia. apply app_nil_r.
Qed.

Lemma ftruncate_extend f n : length f <= n -> ftruncate f n = f ++ zeros (n - length f).
Proof. intros H. unfold ftruncate. now rewrite firstn_all2 by lia. Qed.

Lemma ftruncate_same f : ftruncate f (length f) = f.
Proof. rewrite ftruncate_shrink by lia. apply firstn_all. Qed.

Lemma ftruncate_prefix f n : firstn (Nat.min n (length f)) (ftruncate f n) = firstn (Nat.min n (length f)) f.
Proof.
  unfold ftruncate. rewrite firstn_app. rewrite firstn_length.
  replace (Nat.min n (length f) - Nat.min n (length f)) with 0 by lia.
  cbn [firstn]. rewrite app_nil_r. rewrite firstn_firstn.
  f_equal. lia.
Qed.

Lemma repeat_b_nth b n i : i < n -> nth i (repeat_b b n) 1%N = b.
Proof.
  revert i; induction n as [|n IH]; intros i H; [lia|].
  destruct i as [|i]; cbn [repeat_b nth]; [reflexivity|apply IH; lia].
Qed.

(* the extension reads as zeros *)
Lemma ftruncate_zero_fill f n i :
  length f <= i -> i < n -> nth i (ftruncate f n) 1%N = 0%N.
Proof.
  intros H1 H2. rewrite ftruncate_extend by lia. rewrite app_nth2 by lia.
  apply repeat_b_nth. lia.
Qed.

Lemma firstn_repeat_b b j k : j <= k -> firstn j (repeat_b b k) = repeat_b b j.
Proof.
  revert k; induction j as [|j IH]; intros k H; [reflexivity|].
  destruct k as [|k]; [lia|]. cbn [repeat_b firstn]. f_equal. apply IH. lia.
Qed.

Lemma ftruncate_twice f n m : m <= n -> ftruncate (ftruncate f n) m = ftruncate f m.
Proof.
  intros H. rewrite (ftruncate_shrink (ftruncate f n) m) by (rewrite ftruncate_length; lia).
  unfold ftruncate. rewrite firstn_app, firstn_firstn, firstn_length.
  replace (Nat.min m n) with m by lia.
  destruct (Nat.le_gt_cases m (length f)) as [Hm|Hm].
  - replace (m - Nat.min n (length f)) with 0 by lia. replace (m - length f) with 0 by lia.
    reflexivity.
  - replace (Nat.min n (length f)) with (length f) by lia. f_equal.
    unfold zeros. apply firstn_repeat_b. lia.
Qed.

(* sequential forms *)
Lemma seq_read_twice f pos a b :
  let '(d1, p1) := seq_read f pos a in
  let '(d2, p2) := seq_read f p1 b in
  length d1 = a -> d1 ++ d2 = pread f pos (a + b) /\ p2 = pos + length (d1 ++ d2).
Proof.
  unfold seq_read. intros L. unfold pread in *. rewrite L.
  split; [symmetry; apply sub_list_split|]. rewrite app_length, L. lia.
Qed.

Lemma seq_write_append f pos d :
  d <> [] -> seq_write f pos true d = (f ++ d, length f + length d).
Proof.
  intros Hd. destruct d as [|x d]; [contradiction|]. unfold seq_write, write_pos.
  f_equal. rewrite pwrite_hole by (try discriminate; lia).
  replace (length f - length f) with 0 by lia. reflexivity.
Qed.

Lemma seq_write_cursor f pos d :
  d <> [] -> seq_write f pos false d = (pwrite f pos d, pos + length d).
Proof. intros Hd. destruct d; [contradiction|reflexivity]. Qed.

Lemma seq_write_empty f pos app : seq_write f pos app [] = (f, pos).
Proof. reflexivity. Qed.

(* ---------------------------------------------------------------------- *)
(* vectored = sequential composition                                       *)

Lemma pread_short_is_eof f off c :
  length (pread f off c) < c -> length f <= off + length (pread f off c).
Proof. rewrite pread_length. lia. Qed.

Lemma preadv_at_eof f off caps :
  length f <= off -> concat (preadv f off caps) = [].
Proof.
  revert off; induction caps as [|c r IH]; intros off H; [reflexivity|].
  cbn [preadv concat]. rewrite (pread_beyond_eof f off c H). cbn [length app].
  rewrite Nat.add_0_r. apply IH. exact H.
Qed.

Theorem preadv_is_pread f caps : forall off,
  concat (preadv f off caps) = pread f off (sum_nat caps).
Proof.
  induction caps as [|c r IH]; intros off; [reflexivity|].
  cbn [preadv concat sum_nat fold_right]. fold (sum_nat r).
  unfold pread at 2. rewrite sub_list_split. fold (pread f off c). f_equal.
  destruct (Nat.eq_dec (length (pread f off c)) c) as [E|E].
  - rewrite E. apply IH.
  - assert (Hlt : length (pread f off c) < c) by (pose proof (pread_length f off c); lia).
    pose proof (pread_short_is_eof f off c Hlt) as Heof.
    rewrite preadv_at_eof by exact Heof.
    symmetry. apply sub_list_beyond. lia.
Qed.

Theorem pwritev_is_pwrite ds : forall f off,
  pwritev f off ds = pwrite f off (concat ds).
Proof.
  induction ds as [|d r IH]; intros f off; [reflexivity|].
  cbn [pwritev concat]. rewrite IH. apply pwrite_app.
Qed.

(* the split of a flat answer over member capacities (what the kernel's readv
   does with the iovecs) *)
Fixpoint chunks (caps : list nat) (bs : list byte) : list (list byte) :=
  match caps with
  | [] => []
  | c :: r => firstn c bs :: chunks r (skipn c bs)
  end.

Lemma chunks_concat caps : forall bs,
  length bs <= sum_nat caps -> concat (chunks caps bs) = bs.
Proof.
  induction caps as [|c r IH]; intros bs H.
  - cbn [sum_nat fold_right] in H. destruct bs; [reflexivity|cbn in H; lia].
  - cbn [chunks concat]. rewrite IH.
    + apply firstn_skipn.
    + rewrite skipn_length. cbn [sum_nat fold_right] in H. fold (sum_nat r) in H. lia.
Qed.

Lemma chunks_nil caps : concat (chunks caps []) = [].
Proof.
  induction caps as [|c r IH]; [reflexivity|].
  cbn [chunks concat]. rewrite firstn_nil, skipn_nil. exact IH.
Qed.

Lemma all_nil_concat (l : list (list byte)) : concat l = [] -> Forall (fun x => x = []) l.
Proof.
  induction l as [|x l IH]; intros H; [constructor|].
  cbn [concat] in H. apply app_eq_nil in H. destruct H as [H1 H2].
  constructor; [exact H1|apply IH; exact H2].
Qed.

Lemma chunks_of_nil caps : chunks caps [] = map (fun _ => []) caps.
Proof.
  induction caps as [|c r IH]; [reflexivity|].
  cbn [chunks map]. rewrite firstn_nil, skipn_nil, IH. reflexivity.
Qed.

Lemma preadv_eof_all_nil f off caps :
  length f <= off -> preadv f off caps = map (fun _ => []) caps.
Proof.
  revert off; induction caps as [|c r IH]; intros off H; [reflexivity|].
  cbn [preadv map]. rewrite (pread_beyond_eof f off c H). cbn [length].
  rewrite Nat.add_0_r. f_equal. apply IH. exact H.
Qed.

(* every member receives exactly what a single read of its capacity at the
   running offset receives *)
Theorem chunks_of_preadv f caps : forall off,
  chunks caps (concat (preadv f off caps)) = preadv f off caps.
Proof.
  induction caps as [|c r IH]; intros off; [reflexivity|].
  cbn [preadv concat chunks].
  set (d := pread f off c).
  destruct (Nat.eq_dec (length d) c) as [E|E].
  - rewrite (firstn_app_exact0 d _ c E), (skipn_app_exact0 d _ c E). f_equal. apply IH.
  - assert (Hlt : length d < c) by (pose proof (pread_length f off c); unfold d in *; lia).
    pose proof (pread_short_is_eof f off c Hlt) as Heof. fold d in Heof.
    rewrite (preadv_at_eof f (off + length d) r Heof). rewrite app_nil_r.
    rewrite firstn_all2 by lia. rewrite skipn_all2 by lia.
    rewrite chunks_of_nil. f_equal. symmetry. apply preadv_eof_all_nil. exact Heof.
Qed.

(* ---------------------------------------------------------------------- *)
(* the glue                                                                *)

Definition untouched_outside (old new : list byte) (o n : nat) : Prop :=
  firstn o new = firstn o old /\ skipn (o + n) new = skipn (o + n) old /\
  length new = length old.

(* single-buffer read: for every buffer shape and every OS answer that fits the
   offered window *)
Theorem glue_read_correct r v os :
  rwf r -> wf v r -> ~ uninit_filled v r ->
  exists o c,
    offer_read v r = Ok (o, c) /\ o + c <= rcap r /\
    (length (os c) <= c ->
     exists r',
       glue_read v r os = Ok (length (os c), r') /\
       rkind r' = rkind r /\
       rcells r' = write_at (rcells r) o (os c) /\
       sub_list (rcells r') o (length (os c)) = os c /\
       untouched_outside (rcells r) (rcells r') o (length (os c)) /\
       rlen r' = Nat.max (rlen r) (o + length (os c)) /\
       rwf r').
Proof.
  intros Hr Hw Hn.
  destruct (view_contract r v Hr Hw Hn) as (o & l & c & EI & EU & Hlc & Hoc & Hol & Hlen).
  exists o, c. unfold offer_read. split; [exact EU|]. split; [exact Hoc|].
  intros Hfit.
  destruct (fill_visible r v (os c) o l c Hr Hw Hn EI EU Hfit)
    as (r' & F & K & C & L & _ & Hr' & _).
  exists r'. unfold glue_read, offer_read. rewrite EU. cbn [rbind snd]. rewrite F. cbn [rbind].
  split; [reflexivity|]. split; [exact K|]. split; [exact C|].
  pose proof (rcap_le_cells r) as Hcells.
  assert (Ho : o <= length (rcells r)) by lia.
  split; [rewrite C; apply write_at_read_back; exact Ho|].
  split; [|split; [exact L|exact Hr']].
  rewrite C. unfold untouched_outside. split; [apply write_at_firstn; exact Ho|].
  split; [apply write_at_skipn; exact Ho|].
  apply write_at_length. lia.
Qed.

(* a plain Vec (the shape File::read_at is normally given): the whole capacity
   from offset 0 is offered, whatever the length *)
Lemma offer_read_vec r : offer_read VBase r = Ok (0, rcap r).
Proof. reflexivity. Qed.

Lemma offer_write_vec r : offer_write VBase r = Ok (0, rlen r).
Proof. reflexivity. Qed.

(* reading spare capacity: `buf.uninit()` offers exactly [len, cap) *)
Lemma offer_read_uninit r :
  rlen r <= rcap r ->
  offer_read (VUninit VBase (rlen r)) r = Ok (rlen r, rcap r - rlen r).
Proof.
  intros H. unfold offer_read, r_as_uninit.
  assert (EL : buf_len root_init (VUninit VBase (rlen r)) r = Ok 0).
  { unfold buf_len. cbn [as_init root_init rbind sub_range].
    rewrite Nat.min_id, Nat.leb_refl. cbn [rbind snd]. now rewrite Nat.sub_diag. }
  cbn [as_uninit]. rewrite EL. cbn [rbind root_uninit sub_range].
  rewrite Nat.min_id. destruct (Nat.leb_spec (rlen r) (rcap r)) as [_|]; [|lia].
  cbn [rbind Nat.leb]. rewrite Nat.add_0_r, Nat.sub_0_r, Nat.add_0_l. reflexivity.
Qed.

(* single-buffer write: only initialised bytes are handed to the OS, the
   initialised window of the view, and nothing about the buffer changes *)
Theorem glue_write_correct r v :
  rwf r -> wf v r -> ~ uninit_filled v r ->
  exists o l,
    offer_write v r = Ok (o, l) /\ o + l <= rlen r /\
    write_payload v r = Ok (sub_list (rcells r) o l) /\
    length (sub_list (rcells r) o l) = l.
Proof.
  intros Hr Hw Hn.
  destruct (view_contract r v Hr Hw Hn) as (o & l & c & EI & EU & Hlc & Hoc & Hol & Hlen).
  exists o, l. unfold write_payload, offer_write. rewrite EI. cbn [rbind fst snd].
  split; [reflexivity|]. split; [exact Hol|]. split; [reflexivity|].
  rewrite sub_list_length. pose proof (rcap_le_cells r). lia.
Qed.

Lemma write_payload_vec r : write_payload VBase r = Ok (firstn (rlen r) (rcells r)).
Proof. reflexivity. Qed.

(* reading the reference file through the glue *)
Theorem glue_read_file r v f off :
  rwf r -> wf v r -> ~ uninit_filled v r ->
  exists o c r',
    offer_read v r = Ok (o, c) /\
    glue_read v r (fun k => pread f off k) = Ok (Nat.min c (length f - off), r') /\
    rcells r' = write_at (rcells r) o (pread f off c) /\
    rlen r' = Nat.max (rlen r) (o + Nat.min c (length f - off)).
Proof.
  intros Hr Hw Hn.
  destruct (glue_read_correct r v (fun k => pread f off k) Hr Hw Hn) as (o & c & EO & Hoc & H).
  assert (Hfit : length (pread f off c) <= c) by (rewrite pread_length; lia).
  destruct (H Hfit) as (r' & G & _ & C & _ & _ & L & _).
  exists o, c, r'. rewrite pread_length in G, L. auto.
Qed.

(* vectored read: every member's whole capacity is offered, the answer is
   distributed in order, lengths follow vspec (max(old, chunk)); outside C10's
   known class of member layouts *)
Lemma sum_nat_caps ms : sum_nat (voffer_read ms) = tcap ms.
Proof.
  unfold voffer_read, sum_nat, tcap. induction ms as [|m r IH]; [reflexivity|].
  cbn [map fold_right]. now rewrite IH.
Qed.

Theorem glue_readv_correct ms os :
  Forall rwf ms -> ~ vec_known ms ->
  length (os (voffer_read ms)) <= sum_nat (voffer_read ms) ->
  glue_readv ms os = Ok (length (os (voffer_read ms)), vspec ms (os (voffer_read ms))) /\
  Forall rwf (vspec ms (os (voffer_read ms))).
Proof.
  intros Hwf Hk Hfit. rewrite sum_nat_caps in Hfit.
  destruct (vfill_not_known ms (os (voffer_read ms)) Hwf Hk Hfit) as (F & W & _ & _).
  unfold glue_readv. rewrite F. cbn [rbind]. split; [reflexivity|exact W].
Qed.

(* vspec written out member by member: the member's chunk at offset 0, the rest
   of its cells untouched, its length max(old, chunk length) *)
Lemma vspec_members ms : forall bs,
  Forall2 (fun m' mc =>
             rcells m' = write_at (rcells (fst mc)) 0 (snd mc) /\
             rlen m' = Nat.max (rlen (fst mc)) (length (snd mc)) /\
             rkind m' = rkind (fst mc))
          (vspec ms bs) (combine ms (chunks (map rcap ms) bs)).
Proof.
  induction ms as [|m r IH]; intros bs; [constructor|].
  cbn [vspec map chunks combine]. constructor; [|apply IH].
  cbn [fst snd rcells rlen rkind]. split; [reflexivity|]. split; [|reflexivity].
  rewrite firstn_length. rewrite (Nat.min_comm (rcap m)). reflexivity.
Qed.

(* vectored write: the concatenation of the initialised parts *)
Lemma voffer_write_lengths ms :
  Forall rwf ms -> map (@length byte) (voffer_write ms) = map rlen ms.
Proof.
  intros H. unfold voffer_write. rewrite map_map. apply map_ext_in.
  intros m Hin. rewrite Forall_forall in H. destruct (H m Hin) as [Hl _].
  rewrite firstn_length. pose proof (rcap_le_cells m). lia.
Qed.

(* ---------------------------------------------------------------------- *)
(* one mapping for the three drivers                                       *)

Theorem driver_read_independent d1 d2 v r os :
  driver_read d1 v r os = driver_read d2 v r os.
Proof. destruct d1, d2; reflexivity. Qed.

(* the result is a function of the OS answer to the offered length only *)
Theorem glue_read_answer_only v r os1 os2 :
  (forall o c, offer_read v r = Ok (o, c) -> os1 c = os2 c) ->
  glue_read v r os1 = glue_read v r os2.
Proof.
  intros H. unfold glue_read. destruct (offer_read v r) as [[o c]|code] eqn:E; [|reflexivity].
  cbn [rbind snd]. rewrite (H o c eq_refl). reflexivity.
Qed.

Theorem glue_readv_answer_only ms os1 os2 :
  os1 (voffer_read ms) = os2 (voffer_read ms) -> glue_readv ms os1 = glue_readv ms os2.
Proof. intros H. unfold glue_readv. rewrite H. reflexivity. Qed.

(* the io_uring SQE length: never more than the buffer, exact below 4 GiB *)
Theorem sqe_len_le d n : (sqe_len d n <= n)%N.
Proof.
  destruct d; cbn [sqe_len]; try apply N.le_refl.
  unfold clamp_u32. destruct (N.leb_spec n U32_MAX); [apply N.le_refl|].
  apply N.lt_le_incl. assumption.
Qed.

Theorem sqe_len_exact d n : (n <= U32_MAX)%N -> sqe_len d n = n.
Proof.
  intros H. destruct d; cbn [sqe_len]; try reflexivity.
  unfold clamp_u32. destruct (N.leb_spec n U32_MAX); [reflexivity|].
  exfalso. apply (N.lt_irrefl n). eapply N.le_lt_trans; eassumption.
Qed.

Theorem sqe_len_clamped n : (U32_MAX < n)%N -> sqe_len DIoUring n = U32_MAX.
Proof.
  intros H. cbn [sqe_len]. unfold clamp_u32. destruct (N.leb_spec n U32_MAX); [|reflexivity].
  exfalso. apply (N.lt_irrefl n). eapply N.le_lt_trans; eassumption.
Qed.

(* ---------------------------------------------------------------------- *)
(* open options                                                            *)

Definition custom_of (append : bool) : N := if append then O_APPEND else 0%N.

(* compio's composition = std's, for every combination of the five options,
   with O_APPEND passed through custom_flags (std strips the access-mode bits of
   custom flags, compio's setter has done it already) *)
Theorem open_flags_match_std r w t c cn ap :
  open_flags (mkopts r w t c cn (strip_accmode (custom_of ap))) =
  std_open_flags r w false t c cn (custom_of ap).
Proof. destruct r, w, t, c, cn, ap; reflexivity. Qed.

(* with write access, custom O_APPEND gives the same flag word as std's own
   `append(true)` *)
Theorem open_flags_append_is_std_append r t c cn :
  (t && negb cn = false)%bool ->
  open_flags (mkopts r true t c cn O_APPEND) = std_open_flags r true true t c cn 0%N.
Proof. destruct r, t, c, cn; cbn; intros H; try discriminate H; reflexivity. Qed.

Lemma access_mode_err o :
  (exists a, get_access_mode o = Rok a) \/
  (get_access_mode o = Rerr E_INVALID_INPUT /\ oo_read o = false /\ oo_write o = false).
Proof.
  unfold get_access_mode. destruct (oo_read o), (oo_write o);
    [left; eexists; reflexivity|left; eexists; reflexivity|left; eexists; reflexivity|].
  right. repeat split.
Qed.

Lemma access_mode_ok o a :
  get_access_mode o = Rok a -> oo_read o = true \/ oo_write o = true.
Proof.
  unfold get_access_mode. destruct (oo_read o), (oo_write o); intros H;
    [left|left|right|discriminate H]; reflexivity.
Qed.

Lemma creation_mode_err o :
  (exists c, get_creation_mode o = Rok c /\
             (negb (oo_write o) && (oo_truncate o || oo_create o || oo_create_new o))%bool = false) \/
  (get_creation_mode o = Rerr E_INVALID_INPUT /\
   (negb (oo_write o) && (oo_truncate o || oo_create o || oo_create_new o))%bool = true).
Proof.
  unfold get_creation_mode.
  destruct (negb (oo_write o) && (oo_truncate o || oo_create o || oo_create_new o))%bool.
  - right. split; reflexivity.
  - left. eexists. split; reflexivity.
Qed.

Theorem open_flags_error o :
  (exists fl, open_flags o = Rok fl) \/ open_flags o = Rerr E_INVALID_INPUT.
Proof.
  unfold open_flags.
  destruct (access_mode_err o) as [[a EA]|[EA _]]; rewrite EA; [|right; reflexivity].
  destruct (creation_mode_err o) as [[c [EC _]]|[EC _]]; rewrite EC;
    [left; eexists; reflexivity|right; reflexivity].
Qed.

Theorem open_flags_invalid_iff o :
  open_flags o = Rerr E_INVALID_INPUT <->
  (oo_read o = false /\ oo_write o = false) \/
  (oo_write o = false /\ (oo_truncate o || oo_create o || oo_create_new o) = true).
Proof.
  unfold open_flags.
  destruct (access_mode_err o) as [[a EA]|[EA [Hr Hw]]]; rewrite EA.
  - destruct (creation_mode_err o) as [[c [EC Hc]]|[EC Hc]]; rewrite EC.
    + split; [intros H; discriminate H|].
      intros [[Hr Hw]|[Hw Ht]].
      * destruct (access_mode_ok o a EA) as [H|H]; congruence.
      * rewrite Hw, Ht in Hc. discriminate Hc.
    + split; [|reflexivity]. intros _. right.
      apply andb_true_iff in Hc. destruct Hc as [Hw Ht].
      apply negb_true_iff in Hw. split; assumption.
  - split; [|reflexivity]. intros _. left. split; assumption.
Qed.

(* what the flag word means to the kernel, for the two custom values in use *)
Theorem open_flags_decode r w t c cn ap fl :
  open_flags (mkopts r w t c cn (custom_of ap)) = Rok fl ->
  has_flag fl O_CREAT = (c || cn)%bool /\
  has_flag fl O_EXCL = cn /\
  has_flag fl O_TRUNC = (t && negb cn)%bool /\
  has_flag fl O_APPEND = ap /\
  has_flag fl O_CLOEXEC = true /\
  N.land fl O_ACCMODE = (if r then if w then O_RDWR else O_RDONLY else O_WRONLY).
Proof.
  destruct r, w, t, c, cn, ap; cbn; intros H; try discriminate H;
    injection H as <-; repeat split; reflexivity.
Qed.

(* ---------------------------------------------------------------------- *)
(* the creation mode                                                       *)

Lemma open_request_mode o m fl m' :
  open_request o m = Rok (fl, m') -> m' = m /\ open_flags o = Rok fl.
Proof.
  unfold open_request. destruct (open_flags o) as [f|e]; intros H; inversion H; subst.
  split; reflexivity.
Qed.

Lemma open_request_total o m :
  (exists fl, open_request o m = Rok (fl, m)) \/ open_request o m = Rerr E_INVALID_INPUT.
Proof.
  unfold open_request. destruct (open_flags_error o) as [[fl E]|E]; rewrite E;
    [left; eexists; reflexivity|right; reflexivity].
Qed.

Lemma get_inode_fresh nodes0 l x :
  get_inode (mkfs nodes0 (l ++ [x])) (length l) = x.
Proof.
  unfold get_inode. cbn [inodes]. rewrite app_nth2 by lia. rewrite Nat.sub_diag. reflexivity.
Qed.

(* O_TMPFILE: a successful open yields an unnamed regular file whose mode is
   mode & ~umask; the name space is unchanged *)
Theorem tmpfile_mode fs p fl m seq fs' h :
  has_flag fl O_TMPFILE_BIT = true ->
  fs_open fs p fl m seq = (fs', Rok h) ->
  exists i, hk h = HFile i /\ h_perm fs' h = created_mode m /\ nodes fs' = nodes fs /\
            idata (get_inode fs' i) = [].
Proof.
  intros HT. unfold fs_open. rewrite HT.
  destruct (negb (has_flag fl O_DIRECTORY) || has_flag fl O_CREAT
            || negb (negb (N.land fl O_ACCMODE =? O_RDONLY)%N))%bool; [intros H; discriminate H|].
  destruct (resolve fs p (negb (has_flag fl O_NOFOLLOW))) as [q|e]; [|intros H; discriminate H].
  destruct (kind_at fs q); try (intros H; discriminate H).
  unfold create_anon. intros H. inversion H; subst. clear H.
  eexists. split; [reflexivity|]. unfold h_perm. cbn [hk].
  rewrite get_inode_fresh. cbn [imode idata nodes]. repeat split.
Qed.

(* O_CREAT | O_EXCL: the file the call creates gets mode & ~umask *)
Theorem create_new_mode fs p fl m seq fs' h :
  has_flag fl O_TMPFILE_BIT = false -> has_flag fl O_CREAT = true -> has_flag fl O_EXCL = true ->
  fs_open fs p fl m seq = (fs', Rok h) ->
  h_perm fs' h = created_mode m.
Proof.
  intros HT HC HE. unfold fs_open. rewrite HT, HC, HE. cbn [andb].
  destruct (has_flag fl O_DIRECTORY); [intros H; discriminate H|].
  destruct (resolve fs p false) as [q|e]; [|intros H; discriminate H].
  destruct (kind_at fs q); try (intros H; discriminate H).
  unfold create_file. intros H. inversion H; subst. clear H.
  unfold h_perm. cbn [hk]. rewrite get_inode_fresh. reflexivity.
Qed.

Lemma created_mode_umask m : N.land (created_mode m) UMASK = 0%N.
Proof.
  unfold created_mode. apply N.bits_inj. intros k.
  rewrite N.land_spec, N.ldiff_spec, N.bits_0.
  destruct (N.testbit UMASK k); [rewrite andb_false_r|rewrite andb_false_r]; reflexivity.
Qed.

(* which of compio's flag words make the kernel consume the mode *)
Theorem mode_consumed_iff r w t c cn (tmp : bool) fl :
  open_flags (mkopts r w t c cn (if tmp then O_TMPFILE else 0%N)) = Rok fl ->
  mode_consumed fl = (c || cn || tmp)%bool.
Proof.
  destruct r, w, t, c, cn, tmp; vm_compute; intros H; try discriminate H;
    injection H as <-; reflexivity.
Qed.

(* ---------------------------------------------------------------------- *)
(* create_dir_all: the "already a directory" check follows symbolic links   *)

Lemma walk_nofollow_exists fuel fs : forall cur rest q,
  walk fuel fs cur rest true = Rok q -> kind_at fs q = KDir ->
  exists q', walk fuel fs cur rest false = Rok q' /\ kind_at fs q' <> KNone.
Proof.
  induction fuel as [|fuel IH]; intros cur rest q H K; [discriminate H|].
  cbn [walk] in *. destruct rest as [|c rest'].
  - inversion H; subst. exists q. split; [reflexivity|]. rewrite K. discriminate.
  - destruct (kind_at fs cur) eqn:KC; try discriminate H.
    destruct (lookup (nodes fs) (cur ++ (c :: nil))) as [[|i|t]|] eqn:L.
    + apply (IH _ _ _ H K).
    + apply (IH _ _ _ H K).
    + destruct rest' as [|c' rest''].
      * exists (cur ++ (c :: nil)). split; [reflexivity|].
        unfold kind_at. destruct (cur ++ (c :: nil)) eqn:E; [destruct cur; discriminate E|].
        rewrite L. discriminate.
      * apply (IH _ _ _ H K).
    + apply (IH _ _ _ H K).
Qed.

Lemma resolve_nofollow_exists fs p q :
  resolve fs p true = Rok q -> kind_at fs q = KDir ->
  exists q', resolve fs p false = Rok q' /\ kind_at fs q' <> KNone.
Proof. unfold resolve. generalize WALK_FUEL. intros n. apply walk_nofollow_exists. Qed.

Lemma mkdir_exists fs p q' :
  resolve fs p false = Rok q' -> kind_at fs q' <> KNone ->
  fs_mkdir fs p = (fs, Rerr E_ALREADY_EXISTS).
Proof.
  intros R' K'. unfold fs_mkdir. rewrite R'.
  destruct (kind_at fs q'); try reflexivity. contradiction.
Qed.

Lemma mkdir_all_when_exists fuel fs p e :
  p <> [] -> fs_mkdir fs p = (fs, Rerr e) -> (e =? E_NOT_FOUND)%N = false ->
  fs_is_dir fs p = true -> fs_mkdir_all (S fuel) fs p = (fs, Rok tt).
Proof.
  intros Hp M E D. destruct p as [|c p']; [contradiction|].
  cbn [fs_mkdir_all]. rewrite M, E, D. reflexivity.
Qed.

Lemma is_dir_inv fs p :
  fs_is_dir fs p = true -> exists q, resolve fs p true = Rok q /\ kind_at fs q = KDir.
Proof.
  unfold fs_is_dir. destruct (resolve fs p true) as [q|e]; [|intros H; discriminate H].
  destruct (kind_at fs q) eqn:K; intros H; try discriminate H. exists q. split; [reflexivity|exact K].
Qed.

Theorem mkdir_all_existing_dir fuel fs p :
  p <> [] -> fs_is_dir fs p = true -> fs_mkdir_all (S fuel) fs p = (fs, Rok tt).
Proof.
  intros Hp Hd. destruct (is_dir_inv fs p Hd) as (q & R & K).
  destruct (resolve_nofollow_exists fs p q R K) as (q' & R' & K').
  apply (mkdir_all_when_exists fuel fs p E_ALREADY_EXISTS Hp (mkdir_exists fs p q' R' K')
           eq_refl Hd).
Qed.
