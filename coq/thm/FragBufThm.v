(* FragBufThm.v — tie of the slice arithmetic of model/Buf.v to the code of
   compio-buf/src/slice.rs as translated by tools/rs2v.py (gen/Frag.v). *)
From Compio.Model Require Import Base Buf RsSem.
From Compio.Gen Require Consts Frag.
Local Open Scope nat_scope.

(* Slice<Slice<T>>::flatten as the source has it now is the model's flatten_view *)
Theorem flatten_tie : forall v0 lb le sb se,
  flatten_view (VSlice (VSlice v0 lb le) sb se)
  = Some (VSlice v0 (fst (Frag.slice_flatten lb le sb se)) (snd (Frag.slice_flatten lb le sb se))).
Proof. intros v0 lb le sb se. destruct se, le; reflexivity. Qed.

(* the window a slice layer cuts out of the initialised range (end_or_len) and
   out of the writable range (end_or_cap) is the model's sub_range *)
Theorem sub_range_tie : forall o l b e,
  sub_range (o, l) b e
  = (if b <=? Frag.slice_end_or_len l e then Ok (o + b, Frag.slice_end_or_len l e - b) else Panic P_SLICE_INDEX)
  /\ Frag.slice_end_or_cap l e = Frag.slice_end_or_len l e
  /\ Frag.slice_end_or_len l e <= l.
Proof.
  intros o l b e. unfold Frag.slice_end_or_len, Frag.slice_end_or_cap, sub_range. cbv zeta.
  repeat split. apply Nat.le_min_r.
Qed.
