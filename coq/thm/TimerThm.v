(* TimerThm.v — lemmas and proofs about model/Timer.v (property C09). *)
From Compio.Model Require Import Base Timer.
From Coq Require Import Sorted.

Local Open Scope Z_scope.

(* ---------------------------------------------------------------------- *)
(* key order                                                               *)

Definition key_lt (a b : key) : Prop :=
  kdl a < kdl b \/ (kdl a = kdl b /\ (kgen a < kgen b)%N).

Lemma key_ltb_spec : forall a b, key_ltb a b = true <-> key_lt a b.
Proof.
  intros a b. unfold key_ltb, key_lt.
  rewrite orb_true_iff, andb_true_iff, Z.ltb_lt, Z.eqb_eq, N.ltb_lt. tauto.
Qed.

Lemma key_eqb_spec : forall a b, key_eqb a b = true <-> a = b.
Proof.
  intros [da ga] [db gb]. unfold key_eqb. cbn [kdl kgen].
  rewrite andb_true_iff, Z.eqb_eq, N.eqb_eq. split.
  - intros [-> ->]. reflexivity.
  - intros H. inversion H. auto.
Qed.

Lemma key_eqb_refl : forall a, key_eqb a a = true.
Proof. intros a. apply key_eqb_spec. reflexivity. Qed.

Lemma key_eqb_neq : forall a b, a <> b -> key_eqb a b = false.
Proof.
  intros a b H. destruct (key_eqb a b) eqn:E; [|reflexivity].
  apply key_eqb_spec in E. contradiction.
Qed.

Lemma key_eqb_sym : forall a b, key_eqb a b = key_eqb b a.
Proof.
  intros a b. destruct (key_eqb a b) eqn:E.
  - apply key_eqb_spec in E. subst. symmetry. apply key_eqb_refl.
  - destruct (key_eqb b a) eqn:E2; [|reflexivity].
    apply key_eqb_spec in E2. subst. rewrite key_eqb_refl in E. discriminate.
Qed.

Lemma key_lt_trans : forall a b c, key_lt a b -> key_lt b c -> key_lt a c.
Proof. unfold key_lt. intros a b c H1 H2. lia. Qed.

Lemma key_lt_irrefl : forall a, ~ key_lt a a.
Proof. unfold key_lt. intros a H. lia. Qed.

Lemma key_ltb_false : forall a b, key_ltb a b = false -> a = b \/ key_lt b a.
Proof.
  intros [da ga] [db gb] H.
  destruct (key_ltb (mkkey da ga) (mkkey db gb)) eqn:E; [discriminate|].
  assert (N : ~ key_lt (mkkey da ga) (mkkey db gb)).
  { intros K. apply key_ltb_spec in K. congruence. }
  unfold key_lt in *. cbn [kdl kgen] in *.
  destruct (Z.eq_dec da db) as [->|Hd].
  - destruct (N.eq_dec ga gb) as [->|Hg]; [left; reflexivity|right; lia].
  - right. lia.
Qed.

(* ---------------------------------------------------------------------- *)
(* sorted association lists                                                *)

Definition keys_of (m : list entry) : list key := map fst m.
Definition sorted (m : list entry) : Prop := StronglySorted key_lt (keys_of m).

Lemma sorted_nil : sorted [].
Proof. constructor. Qed.

Lemma sorted_cons_inv : forall k v m,
  sorted ((k, v) :: m) -> sorted m /\ Forall (key_lt k) (keys_of m).
Proof. intros k v m H. inversion H; subst. split; assumption. Qed.

Lemma sorted_cons : forall k v m,
  sorted m -> Forall (key_lt k) (keys_of m) -> sorted ((k, v) :: m).
Proof. intros. constructor; assumption. Qed.

Lemma sorted_not_in_head : forall k v m, sorted ((k, v) :: m) -> ~ In k (keys_of m).
Proof.
  intros k v m H Hin. apply sorted_cons_inv in H as [_ F].
  rewrite Forall_forall in F. apply (key_lt_irrefl k). auto.
Qed.

Lemma sorted_NoDup : forall m, sorted m -> NoDup (keys_of m).
Proof.
  induction m as [|[k v] m IH]; intros H; cbn; constructor.
  - eapply sorted_not_in_head; eauto.
  - apply IH. apply sorted_cons_inv in H. tauto.
Qed.

Lemma map_mem_In : forall k m, map_mem k m = true <-> In k (keys_of m).
Proof.
  induction m as [|[k' v'] m IH]; cbn.
  - split; [discriminate|tauto].
  - rewrite orb_true_iff, IH, key_eqb_spec. split; intros [H|H]; auto.
Qed.

Lemma is_completed_iff : forall k w, is_completed k w = true <-> ~ In k (keys_of (wmap w)).
Proof.
  intros k w. unfold is_completed. rewrite negb_true_iff, <- map_mem_In.
  destruct (map_mem k (wmap w)); split; intros; congruence.
Qed.

Lemma is_completed_false_iff : forall k w, is_completed k w = false <-> In k (keys_of (wmap w)).
Proof.
  intros k w. unfold is_completed. rewrite negb_false_iff. apply map_mem_In.
Qed.

(* ---- map_insert ------------------------------------------------------- *)

Lemma map_insert_In : forall k v m e,
  sorted m -> ~ In k (keys_of m) ->
  (In e (map_insert k v m) <-> e = (k, v) \/ In e m).
Proof.
  induction m as [|[k' v'] m IH]; intros e Hs Hn; cbn.
  - intuition (subst; auto).
  - destruct (key_ltb k k') eqn:L.
    + cbn. intuition (subst; auto).
    + destruct (key_eqb k k') eqn:E.
      * apply key_eqb_spec in E. subst. exfalso. apply Hn. cbn. auto.
      * cbn. rewrite IH.
        -- intuition (subst; auto).
        -- apply sorted_cons_inv in Hs. tauto.
        -- intros H. apply Hn. cbn. auto.
Qed.

Lemma map_insert_keys : forall k v m k0,
  In k0 (keys_of (map_insert k v m)) <-> k0 = k \/ In k0 (keys_of m).
Proof.
  induction m as [|[k' v'] m IH]; intros k0; cbn.
  - split; intros [H|H]; auto.
  - destruct (key_ltb k k') eqn:L; [cbn; split; intros H; intuition auto|].
    destruct (key_eqb k k') eqn:E.
    + apply key_eqb_spec in E. subst. cbn. split; intros H; intuition auto.
    + cbn. rewrite IH. split; intros H; intuition auto.
Qed.

Lemma map_insert_sorted : forall k v m, sorted m -> sorted (map_insert k v m).
Proof.
  induction m as [|[k' v'] m IH]; intros Hs; cbn.
  - apply sorted_cons; [apply sorted_nil|constructor].
  - destruct (key_ltb k k') eqn:L.
    + apply key_ltb_spec in L. apply sorted_cons; [assumption|].
      cbn. constructor; [assumption|].
      apply sorted_cons_inv in Hs as [_ F].
      eapply Forall_impl; [|exact F]. intros a Ha. eapply key_lt_trans; eauto.
    + destruct (key_eqb k k') eqn:E.
      * apply key_eqb_spec in E. subst.
        apply sorted_cons_inv in Hs as [Hs F]. apply sorted_cons; assumption.
      * apply key_ltb_false in L as [->|L]; [rewrite key_eqb_refl in E; discriminate|].
        pose proof (sorted_cons_inv _ _ _ Hs) as [Hs' F].
        apply sorted_cons; [apply IH; assumption|].
        rewrite Forall_forall in *. intros a Ha.
        apply map_insert_keys in Ha as [->|Ha]; auto.
Qed.

(* ---- map_remove ------------------------------------------------------- *)

Lemma map_remove_In : forall k m e,
  sorted m -> (In e (map_remove k m) <-> fst e <> k /\ In e m).
Proof.
  induction m as [|[k' v'] m IH]; intros e Hs; cbn.
  - tauto.
  - pose proof (sorted_cons_inv _ _ _ Hs) as [Hs' F].
    destruct (key_eqb k k') eqn:E.
    + apply key_eqb_spec in E. subst k'. split.
      * intros H. split; [|auto]. intros Hk.
        eapply sorted_not_in_head; [exact Hs|]. apply in_map_iff. exists e. auto.
      * intros [Hne [H|H]]; [subst e; cbn in Hne; congruence|assumption].
    + cbn. rewrite IH by assumption. split.
      * intros [H|H]; [subst e; cbn; split; [|auto]|tauto].
        intros Hk. subst k'. rewrite key_eqb_refl in E. discriminate.
      * tauto.
Qed.

Lemma map_remove_keys : forall k m k0,
  sorted m -> (In k0 (keys_of (map_remove k m)) <-> k0 <> k /\ In k0 (keys_of m)).
Proof.
  intros k m k0 Hs. unfold keys_of. rewrite !in_map_iff. split.
  - intros [e [<- H]]. apply map_remove_In in H; [|assumption]. destruct H. split; [assumption|].
    exists e. auto.
  - intros [Hne [e [<- H]]]. exists e. split; [reflexivity|]. apply map_remove_In; auto.
Qed.

Lemma map_remove_notin : forall k m, ~ In k (keys_of m) -> map_remove k m = m.
Proof.
  induction m as [|[k' v'] m IH]; intros Hn; cbn; [reflexivity|].
  destruct (key_eqb k k') eqn:E.
  - apply key_eqb_spec in E. subst. exfalso. apply Hn. cbn. auto.
  - f_equal. apply IH. intros H. apply Hn. cbn. auto.
Qed.

Lemma map_remove_sorted : forall k m, sorted m -> sorted (map_remove k m).
Proof.
  induction m as [|[k' v'] m IH]; intros Hs; cbn; [assumption|].
  pose proof (sorted_cons_inv _ _ _ Hs) as [Hs' F].
  destruct (key_eqb k k'); [assumption|].
  apply sorted_cons; [auto|].
  rewrite Forall_forall in *. intros a Ha. apply map_remove_keys in Ha; [|assumption]. apply F. tauto.
Qed.

(* ---- map_set ---------------------------------------------------------- *)

Lemma map_set_keys : forall k v m, keys_of (map_set k v m) = keys_of m.
Proof.
  induction m as [|[k' v'] m IH]; cbn; [reflexivity|].
  destruct (key_eqb k k'); cbn; [reflexivity|]. f_equal. exact IH.
Qed.

Lemma map_set_sorted : forall k v m, sorted m -> sorted (map_set k v m).
Proof. intros. unfold sorted. rewrite map_set_keys. assumption. Qed.

Lemma map_set_In : forall k v m e,
  sorted m ->
  (In e (map_set k v m) <->
   (fst e <> k /\ In e m) \/ (e = (k, v) /\ In k (keys_of m))).
Proof.
  induction m as [|[k' v'] m IH]; intros e Hs; cbn.
  - tauto.
  - pose proof (sorted_cons_inv _ _ _ Hs) as [Hs' F].
    destruct (key_eqb k k') eqn:E.
    + apply key_eqb_spec in E. subst k'. cbn. split.
      * intros [H|H]; [right; split; auto|].
        left. split; [|auto]. intros Hk.
        eapply sorted_not_in_head; [exact Hs|]. apply in_map_iff. exists e. auto.
      * intros [[Hne [H|H]]|[H _]]; [subst e; cbn in Hne; congruence|auto|auto].
    + cbn. rewrite IH by assumption. split.
      * intros [H|[H|H]]; [|tauto|tauto].
        subst e. left. cbn. split; [|auto]. intros Hk. subst k'. rewrite key_eqb_refl in E. discriminate.
      * intros [[Hne [H|H]]|[H [Hk|Hk]]]; [auto|tauto| |tauto].
        subst k'. rewrite key_eqb_refl in E. discriminate.
Qed.

(* ---- split_lt --------------------------------------------------------- *)

Lemma split_lt_filter : forall s m,
  sorted m ->
  split_lt s m = (filter (fun e => key_ltb (fst e) s) m,
                  filter (fun e => negb (key_ltb (fst e) s)) m).
Proof.
  induction m as [|[k v] m IH]; intros Hs; cbn [split_lt filter fst]; [reflexivity|].
  pose proof (sorted_cons_inv _ _ _ Hs) as [Hs' F].
  destruct (key_ltb k s) eqn:L; cbn [negb].
  - rewrite IH by assumption. reflexivity.
  - (* everything after k is >= s as well *)
    assert (A : forall e, In e m -> key_ltb (fst e) s = false).
    { intros e He. destruct (key_ltb (fst e) s) eqn:L2; [|reflexivity].
      apply key_ltb_spec in L2. rewrite Forall_forall in F.
      assert (Hk : key_lt k (fst e)) by (apply F; apply in_map; assumption).
      assert (K : key_lt k s) by (eapply key_lt_trans; eauto).
      apply key_ltb_spec in K. congruence. }
    f_equal.
    + clear - A. induction m as [|e m IH]; cbn; [reflexivity|].
      rewrite (A e) by (cbn; auto). apply IH. intros. apply A. cbn. auto.
    + f_equal. clear - A. induction m as [|e m IH]; cbn; [reflexivity|].
      rewrite (A e) by (cbn; auto). cbn. f_equal. apply IH. intros. apply A. cbn. auto.
Qed.

Lemma filter_sorted : forall p m, sorted m -> sorted (filter p m).
Proof.
  induction m as [|[k v] m IH]; intros Hs; cbn; [assumption|].
  pose proof (sorted_cons_inv _ _ _ Hs) as [Hs' F].
  destruct (p (k, v)); [|auto].
  apply sorted_cons; [auto|].
  rewrite Forall_forall in *. intros a Ha. apply F.
  unfold keys_of in *. apply in_map_iff in Ha as [e [<- He]]. apply filter_In in He as [He _].
  apply in_map. assumption.
Qed.

(* ---------------------------------------------------------------------- *)
(* well-formed wheels: what every reachable TimerRuntime satisfies          *)

Record wf (w : wheel) : Prop := mkwf {
  wf_sorted : sorted (wmap w);
  wf_gen : Forall (fun k => (kgen k < wgen w)%N) (keys_of (wmap w));
  wf_max : (wgen w <= U64_MAX)%N }.

Lemma wf_new : wf wheel_new.
Proof.
  constructor; cbn.
  - apply sorted_nil.
  - constructor.
  - unfold U64_MAX. lia.
Qed.

Lemma wf_gen_lt : forall w k, wf w -> In k (keys_of (wmap w)) -> (kgen k < wgen w)%N.
Proof. intros w k [_ G _] H. rewrite Forall_forall in G. auto. Qed.

Lemma wf_NoDup : forall w, wf w -> NoDup (keys_of (wmap w)).
Proof. intros w [S _ _]. apply sorted_NoDup. assumption. Qed.

(* the key a new timer gets is not in the wheel, whatever its deadline *)
Lemma fresh_key : forall w d, wf w -> ~ In (mkkey d (wgen w)) (keys_of (wmap w)).
Proof.
  intros w d W H. apply (wf_gen_lt w _ W) in H. cbn in H. lia.
Qed.

Lemma insert_spec : forall now d w,
  wf w ->
  (d <= now /\ insert now d w = Ok (None, w)) \/
  (now < d /\ wgen w = U64_MAX /\ insert now d w = Panic P_OTHER) \/
  (now < d /\ wgen w <> U64_MAX /\
   insert now d w = Ok (Some (mkkey d (wgen w)),
                        mkwheel (wgen w + 1)%N (map_insert (mkkey d (wgen w)) None (wmap w)))).
Proof.
  intros now d w W. unfold insert.
  destruct (d <=? now) eqn:E.
  - left. apply Z.leb_le in E. auto.
  - apply Z.leb_gt in E. right.
    destruct (wgen w =? U64_MAX)%N eqn:G.
    + left. apply N.eqb_eq in G. auto.
    + right. apply N.eqb_neq in G. auto.
Qed.

Lemma insert_wf : forall now d w k w',
  wf w -> insert now d w = Ok (k, w') -> wf w'.
Proof.
  intros now d w k w' W H.
  destruct (insert_spec now d w W) as [[_ E]|[[_ [_ E]]|[_ [G E]]]]; rewrite E in H; inversion H; subst.
  - assumption.
  - destruct W as [S F M]. constructor; cbn [wmap wgen].
    + apply map_insert_sorted. assumption.
    + rewrite Forall_forall in *. intros a Ha. apply map_insert_keys in Ha as [->|Ha].
      * cbn. lia.
      * specialize (F a Ha). lia.
    + lia.
Qed.

Lemma update_waker_wf : forall k wk w, wf w -> wf (update_waker k wk w).
Proof.
  intros k wk w [S F M]. constructor; cbn [update_waker wmap wgen].
  - apply map_set_sorted. assumption.
  - rewrite map_set_keys. assumption.
  - assumption.
Qed.

Lemma cancel_wf : forall k w, wf w -> wf (cancel k w).
Proof.
  intros k w [S F M]. constructor; cbn [cancel wmap wgen].
  - apply map_remove_sorted. assumption.
  - rewrite Forall_forall in *. intros a Ha. apply map_remove_keys in Ha; [|assumption]. apply F. tauto.
  - assumption.
Qed.

(* under wf no key has generation u64::MAX, so the split key (now, MAX) cuts
   exactly at "deadline <= now" *)
Lemma split_key_cut : forall w now e,
  wf w -> In e (wmap w) -> key_ltb (fst e) (mkkey now U64_MAX) = (kdl (fst e) <=? now).
Proof.
  intros w now e W He.
  assert (G : (kgen (fst e) < U64_MAX)%N).
  { pose proof (wf_gen_lt w (fst e) W (in_map fst _ _ He)). destruct W as [_ _ M]. lia. }
  unfold key_ltb. cbn [kdl kgen].
  destruct (kdl (fst e) <? now) eqn:A, (kdl (fst e) =? now) eqn:B, (kgen (fst e) <? U64_MAX)%N eqn:C,
    (kdl (fst e) <=? now) eqn:D; cbn; try reflexivity;
  rewrite ?Z.ltb_lt, ?Z.ltb_ge, ?Z.eqb_eq, ?Z.eqb_neq, ?N.ltb_lt, ?N.ltb_ge, ?Z.leb_le, ?Z.leb_gt in *; lia.
Qed.

Definition due (now : Z) (e : entry) : bool := kdl (fst e) <=? now.
Definition not_due (now : Z) (e : entry) : bool := now <? kdl (fst e).

Lemma filter_ext_in_ : forall {A} (f g : A -> bool) l,
  (forall a, In a l -> f a = g a) -> filter f l = filter g l.
Proof.
  induction l as [|a l IH]; intros H; cbn; [reflexivity|].
  rewrite (H a) by (cbn; auto). rewrite IH; [reflexivity|]. intros. apply H. cbn. auto.
Qed.

Lemma wake_spec : forall now w,
  wf w ->
  wake now w = (wakers_of (filter (due now) (wmap w)),
                mkwheel (wgen w) (filter (not_due now) (wmap w))).
Proof.
  intros now w W. unfold wake.
  assert (E : split_lt (mkkey now U64_MAX) (wmap w)
              = (filter (due now) (wmap w), filter (not_due now) (wmap w))).
  { rewrite split_lt_filter by (destruct W; assumption).
    f_equal; apply filter_ext_in_; intros e He.
    - unfold due. apply (split_key_cut w); assumption.
    - unfold not_due. rewrite (split_key_cut w now e W He).
      destruct (kdl (fst e) <=? now) eqn:A, (now <? kdl (fst e)) eqn:B; cbn; try reflexivity;
      rewrite ?Z.leb_le, ?Z.leb_gt, ?Z.ltb_lt, ?Z.ltb_ge in *; lia. }
  destruct w as [g m]; cbn [wmap wgen] in *.
  destruct m as [|e0 m0]; [reflexivity|]. rewrite E. reflexivity.
Qed.

Lemma wake_wf : forall now w ws w', wf w -> wake now w = (ws, w') -> wf w'.
Proof.
  intros now w ws w' W H. rewrite wake_spec in H by assumption. inversion H; subst.
  destruct W as [S F M]. constructor; cbn [wmap wgen].
  - apply filter_sorted. assumption.
  - rewrite Forall_forall in *. intros a Ha. apply F.
    unfold keys_of in *. apply in_map_iff in Ha as [e [<- He]]. apply filter_In in He as [He _].
    apply in_map. assumption.
  - assumption.
Qed.

Lemma poll_timer_wf : forall k wk w b w', wf w -> poll_timer k wk w = (b, w') -> wf w'.
Proof.
  intros k wk w b w' W H. unfold poll_timer in H.
  destruct (is_completed k w); inversion H; subst; [assumption|apply update_waker_wf; assumption].
Qed.

Lemma step_wf : forall w o u w', wf w -> step w o = Ok (u, w') -> wf w'.
Proof.
  intros w o u w' W H. destruct o; cbn [step] in H.
  - destruct (insert now d w) as [[k w1]|c] eqn:E; cbn in H; [|discriminate].
    inversion H; subst. eapply insert_wf; eauto.
  - inversion H; subst. apply update_waker_wf. assumption.
  - inversion H; subst. apply cancel_wf. assumption.
  - inversion H; subst. assumption.
  - destruct (wake now w) as [ws w1] eqn:E. inversion H; subst. eapply wake_wf; eauto.
  - destruct (poll_timer k wk w) as [b w1] eqn:E. inversion H; subst. eapply poll_timer_wf; eauto.
Qed.

Lemma run_cons : forall w o r outs w',
  run w (o :: r) = Ok (outs, w') ->
  exists u w1 us, step w o = Ok (u, w1) /\ run w1 r = Ok (us, w') /\ outs = u :: us.
Proof.
  intros w o r outs w' H. cbn [run] in H.
  destruct (step w o) as [[u w1]|c] eqn:E1; cbn in H; [|discriminate].
  destruct (run w1 r) as [[us w2]|c] eqn:E2; cbn in H; [|discriminate].
  inversion H; subst. exists u, w1, us. auto.
Qed.

Lemma run_wf : forall ops w outs w', wf w -> run w ops = Ok (outs, w') -> wf w'.
Proof.
  induction ops as [|o r IH]; intros w outs w' W H.
  - cbn in H. inversion H; subst. assumption.
  - apply run_cons in H as (u & w1 & us & Hs & Hr & _).
    eapply IH; [|exact Hr]. eapply step_wf; eauto.
Qed.

(* ---------------------------------------------------------------------- *)
(* how one step changes the presence of a key                               *)

Lemma filter_keys_In : forall p m k,
  In k (keys_of (filter p m)) -> In k (keys_of m).
Proof.
  intros p m k H. unfold keys_of in *. apply in_map_iff in H as [e [<- He]].
  apply filter_In in He as [He _]. apply in_map. assumption.
Qed.

(* a key stays unless it is cancelled or a wake at/after its deadline runs *)
Lemma step_keeps : forall w o u w' k,
  wf w -> step w o = Ok (u, w') -> In k (keys_of (wmap w)) ->
  o <> OCancel k ->
  (forall now, o = OWake now -> now < kdl k) ->
  In k (keys_of (wmap w')).
Proof.
  intros w o u w' k W H Hin Hc Hw. destruct o; cbn [step] in H.
  - destruct (insert_spec now d w W) as [[_ E]|[[_ [_ E]]|[_ [G E]]]]; rewrite E in H; cbn in H;
      inversion H; subst; [assumption|].
    cbn [wmap]. apply map_insert_keys. auto.
  - inversion H; subst. cbn [update_waker wmap]. rewrite map_set_keys. assumption.
  - inversion H; subst. cbn [cancel wmap]. apply map_remove_keys; [destruct W; assumption|].
    split; [|assumption]. intros ->. apply Hc. reflexivity.
  - inversion H; subst. assumption.
  - rewrite wake_spec in H by assumption. inversion H; subst. cbn [wmap].
    specialize (Hw now eq_refl).
    unfold keys_of in *. apply in_map_iff in Hin as [e [<- He]]. apply in_map.
    apply filter_In. split; [assumption|]. unfold not_due. apply Z.ltb_lt. assumption.
  - unfold poll_timer in H. destruct (is_completed k0 w); inversion H; subst; [assumption|].
    cbn [update_waker wmap]. rewrite map_set_keys. assumption.
Qed.

(* a key that is absent and older than the counter never comes back *)
Lemma step_stays_absent : forall w o u w' k,
  wf w -> step w o = Ok (u, w') -> ~ In k (keys_of (wmap w)) -> (kgen k < wgen w)%N ->
  ~ In k (keys_of (wmap w')) /\ (kgen k < wgen w')%N.
Proof.
  intros w o u w' k W H Hn Hg. destruct o; cbn [step] in H.
  - destruct (insert_spec now d w W) as [[_ E]|[[_ [_ E]]|[_ [G E]]]]; rewrite E in H; cbn in H;
      inversion H; subst; [auto|].
    cbn [wmap wgen]. split; [|lia]. intros Hin. apply map_insert_keys in Hin as [->|Hin]; [|auto].
    cbn in Hg. lia.
  - inversion H; subst. cbn [update_waker wmap wgen]. rewrite map_set_keys. auto.
  - inversion H; subst. cbn [cancel wmap wgen]. split; [|assumption].
    intros Hin. apply map_remove_keys in Hin; [|destruct W; assumption]. tauto.
  - inversion H; subst. auto.
  - rewrite wake_spec in H by assumption. inversion H; subst. cbn [wmap wgen]. split; [|assumption].
    intros Hin. apply filter_keys_In in Hin. auto.
  - unfold poll_timer in H. destruct (is_completed k0 w); inversion H; subst; [auto|].
    cbn [update_waker wmap wgen]. rewrite map_set_keys. auto.
Qed.

Lemma key_eq_dec : forall a b : key, {a = b} + {a <> b}.
Proof.
  intros a b. destruct (key_eqb a b) eqn:E.
  - left. apply key_eqb_spec. assumption.
  - right. intros ->. rewrite key_eqb_refl in E. discriminate.
Qed.

Lemma op_eq_cancel_or_not : forall o k, o = OCancel k \/ o <> OCancel k.
Proof.
  intros o k. destruct o; try (right; discriminate).
  destruct (key_eq_dec k0 k) as [->|N]; [left; reflexivity|right; congruence].
Qed.

Lemma op_wake_due_or_not : forall o k,
  (exists now, o = OWake now /\ kdl k <= now) \/ (forall now, o = OWake now -> now < kdl k).
Proof.
  intros o k. destruct o; try (right; intros; discriminate).
  destruct (Z_le_gt_dec (kdl k) now) as [L|G].
  - left. exists now. auto.
  - right. intros n E. inversion E; subst. lia.
Qed.

(* ---------------------------------------------------------------------- *)
(* C09_never_early                                                         *)

Lemma never_early_run : forall ops w outs w' k,
  wf w -> In k (keys_of (wmap w)) -> run w ops = Ok (outs, w') ->
  ~ In k (keys_of (wmap w')) ->
  In (OCancel k) ops \/ exists now, In (OWake now) ops /\ kdl k <= now.
Proof.
  induction ops as [|o r IH]; intros w outs w' k W Hin H Hout.
  - cbn in H. inversion H; subst. contradiction.
  - apply run_cons in H as (u & w1 & us & Hs & Hr & _).
    destruct (op_eq_cancel_or_not o k) as [->|Hc]; [left; cbn; auto|].
    destruct (op_wake_due_or_not o k) as [[now [-> Hd]]|Hw]; [right; exists now; cbn; auto|].
    assert (Hin1 : In k (keys_of (wmap w1))) by (eapply step_keeps; eauto).
    assert (W1 : wf w1) by (eapply step_wf; eauto).
    destruct (IH w1 us w' k W1 Hin1 Hr Hout) as [A|[now [A B]]].
    + left. cbn. auto.
    + right. exists now. cbn. auto.
Qed.

(* a reported completion is exactly absence from the wheel *)
Lemma poll_timer_ready : forall k wk w,
  fst (poll_timer k wk w) = is_completed k w.
Proof. intros. unfold poll_timer. destruct (is_completed k w); reflexivity. Qed.

Theorem never_early : forall ops w outs w' k wk,
  wf w -> In k (keys_of (wmap w)) -> run w ops = Ok (outs, w') ->
  fst (poll_timer k wk w') = true ->
  In (OCancel k) ops \/ exists now, In (OWake now) ops /\ kdl k <= now.
Proof.
  intros ops w outs w' k wk W Hin H Hp. rewrite poll_timer_ready in Hp.
  apply is_completed_iff in Hp. eapply never_early_run; eauto.
Qed.

(* a Sleep that is ready without ever entering the wheel had its deadline
   reached when it was created *)
Lemma never_early_at_creation : forall now d w w',
  sleep_new now d w = Ok (None, w') -> d <= now /\ w' = w.
Proof.
  intros now d w w' H. unfold sleep_new, insert in H.
  destruct (d <=? now) eqn:E.
  - apply Z.leb_le in E. inversion H. auto.
  - destruct (wgen w =? U64_MAX)%N; inversion H.
Qed.

(* ---------------------------------------------------------------------- *)
(* C09_always_fires                                                        *)

Lemma last_reg_app : forall k ops1 ops2 s,
  last_reg k s (ops1 ++ ops2) = last_reg k (last_reg k s ops1) ops2.
Proof.
  induction ops1 as [|o r IH]; intros ops2 s; [reflexivity|].
  destruct o; cbn [last_reg app]; apply IH.
Qed.

(* while a timer is neither cancelled nor due at a wake, its entry stays in the
   wheel and carries the waker registered last *)
Lemma run_tracks_entry : forall ops w outs w' k s0,
  wf w -> In (k, s0) (wmap w) -> run w ops = Ok (outs, w') ->
  ~ In (OCancel k) ops ->
  (forall now, In (OWake now) ops -> now < kdl k) ->
  In (k, last_reg k s0 ops) (wmap w').
Proof.
  induction ops as [|o r IH]; intros w outs w' k s0 W Hin H Hc Hw.
  - cbn in H. inversion H; subst. assumption.
  - apply run_cons in H as (u & w1 & us & Hs & Hr & _).
    assert (W1 : wf w1) by (eapply step_wf; eauto).
    assert (S : sorted (wmap w)) by (destruct W; assumption).
    assert (Hk : In k (keys_of (wmap w))) by (apply (in_map fst) in Hin; exact Hin).
    assert (Hc' : ~ In (OCancel k) r) by (intros A; apply Hc; cbn; auto).
    assert (Hw' : forall now, In (OWake now) r -> now < kdl k) by (intros n A; apply Hw; cbn; auto).
    destruct o; cbn [step] in Hs; cbn [last_reg].
    + (* insert: the new key is another one *)
      destruct (insert_spec now d w W) as [[_ E]|[[_ [_ E]]|[_ [G E]]]]; rewrite E in Hs; cbn in Hs;
        inversion Hs; subst; [eapply IH; eauto|].
      eapply IH; eauto. cbn [wmap].
      apply map_insert_In; [assumption|apply fresh_key; assumption|]. auto.
    + (* update_waker *)
      inversion Hs; subst. eapply IH; eauto. cbn [update_waker wmap].
      apply map_set_In; [assumption|].
      destruct (key_eqb k k0) eqn:E.
      * apply key_eqb_spec in E. subst k0. right. auto.
      * left. cbn. split; [|assumption]. intros ->. rewrite key_eqb_refl in E. discriminate.
    + (* cancel of another key *)
      inversion Hs; subst. eapply IH; eauto. cbn [cancel wmap].
      apply map_remove_In; [assumption|]. cbn. split; [|assumption].
      intros ->. apply Hc. cbn. auto.
    + inversion Hs; subst. eapply IH; eauto.
    + (* wake before the deadline *)
      rewrite wake_spec in Hs by assumption. inversion Hs; subst. eapply IH; eauto. cbn [wmap].
      apply filter_In. split; [assumption|]. unfold not_due. cbn. apply Z.ltb_lt. apply Hw. cbn. auto.
    + (* poll *)
      unfold poll_timer in Hs. destruct (is_completed k0 w) eqn:C.
      * inversion Hs; subst.
        assert (k <> k0).
        { intros ->. apply is_completed_iff in C. contradiction. }
        rewrite key_eqb_neq by assumption. eapply IH; eauto.
      * inversion Hs; subst. eapply IH; eauto. cbn [update_waker wmap].
        apply map_set_In; [assumption|].
        destruct (key_eqb k k0) eqn:E.
        -- apply key_eqb_spec in E. subst k0. right. auto.
        -- left. cbn. split; [|assumption]. intros ->. rewrite key_eqb_refl in E. discriminate.
Qed.

Lemma wakers_of_app : forall a b, wakers_of (a ++ b) = wakers_of a ++ wakers_of b.
Proof.
  induction a as [|[k [wk|]] a IH]; intros b; cbn; [reflexivity| |]; rewrite IH; reflexivity.
Qed.

Lemma wakers_of_one : forall k s, wakers_of [(k, s)] = opt_list s.
Proof. intros k [wk|]; reflexivity. Qed.

Lemma NoDup_split_notin : forall (l1 l2 : list entry) k s,
  NoDup (keys_of (l1 ++ (k, s) :: l2)) -> ~ In k (keys_of l1) /\ ~ In k (keys_of l2).
Proof.
  intros l1 l2 k s H. unfold keys_of in *. rewrite map_app in H. cbn in H.
  apply NoDup_remove_2 in H. rewrite in_app_iff in H. tauto.
Qed.

(* one wake on a well-formed wheel: the due timer goes, its waker is invoked
   exactly once, at its place in deadline order *)
Lemma wake_fires : forall w now k s ws w',
  wf w -> In (k, s) (wmap w) -> kdl k <= now -> wake now w = (ws, w') ->
  is_completed k w' = true /\
  exists l1 l2,
    filter (due now) (wmap w) = l1 ++ (k, s) :: l2 /\
    ~ In k (keys_of l1) /\ ~ In k (keys_of l2) /\
    ws = wakers_of l1 ++ opt_list s ++ wakers_of l2.
Proof.
  intros w now k s ws w' W Hin Hd H. rewrite wake_spec in H by assumption. inversion H; subst. split.
  - apply is_completed_iff. cbn [wmap]. intros A.
    unfold keys_of in A. apply in_map_iff in A as [e [Ek He]]. apply filter_In in He as [He Hn].
    unfold not_due in Hn. apply Z.ltb_lt in Hn. rewrite Ek in Hn. lia.
  - assert (F : In (k, s) (filter (due now) (wmap w))).
    { apply filter_In. split; [assumption|]. unfold due. cbn. apply Z.leb_le. assumption. }
    apply in_split in F as [l1 [l2 E]]. exists l1, l2. rewrite E.
    assert (ND : NoDup (keys_of (l1 ++ (k, s) :: l2))).
    { rewrite <- E. apply sorted_NoDup. apply filter_sorted. destruct W; assumption. }
    apply NoDup_split_notin in ND as [N1 N2].
    repeat split; try assumption.
    rewrite wakers_of_app. change ((k, s) :: l2) with ([(k, s)] ++ l2).
    rewrite wakers_of_app, wakers_of_one. reflexivity.
Qed.

Theorem always_fires : forall ops w outs w1 k s0 now ws w2,
  wf w -> In (k, s0) (wmap w) ->
  run w ops = Ok (outs, w1) ->
  ~ In (OCancel k) ops ->
  (forall now', In (OWake now') ops -> now' < kdl k) ->
  kdl k <= now ->
  wake now w1 = (ws, w2) ->
  is_completed k w2 = true /\
  exists l1 l2,
    filter (due now) (wmap w1) = l1 ++ (k, last_reg k s0 ops) :: l2 /\
    ~ In k (keys_of l1) /\ ~ In k (keys_of l2) /\
    ws = wakers_of l1 ++ opt_list (last_reg k s0 ops) ++ wakers_of l2.
Proof.
  intros ops w outs w1 k s0 now ws w2 W Hin H Hc Hw Hd Hk.
  eapply wake_fires; eauto.
  - eapply run_wf; eauto.
  - eapply run_tracks_entry; eauto.
Qed.

(* once completed, completed for good: keys are never handed out twice *)
Theorem completed_for_good : forall ops w outs w' k,
  wf w -> (kgen k < wgen w)%N -> is_completed k w = true ->
  run w ops = Ok (outs, w') -> is_completed k w' = true.
Proof.
  induction ops as [|o r IH]; intros w outs w' k W G C H.
  - cbn in H. inversion H; subst. assumption.
  - apply run_cons in H as (u & w1 & us & Hs & Hr & _).
    apply is_completed_iff in C.
    destruct (step_stays_absent w o u w1 k W Hs C G) as [C1 G1].
    eapply IH; [eapply step_wf; eauto|exact G1|apply is_completed_iff; exact C1|exact Hr].
Qed.

(* ---------------------------------------------------------------------- *)
(* C09_no_stranding                                                        *)

Theorem wake_exact : forall w now ws w',
  wf w -> wake now w = (ws, w') ->
  NoDup (keys_of (wmap w)) /\
  wmap w' = filter (not_due now) (wmap w) /\
  ws = wakers_of (filter (due now) (wmap w)) /\
  wgen w' = wgen w /\ wf w'.
Proof.
  intros w now ws w' W H. pose proof (wake_wf now w ws w' W H) as W'.
  rewrite wake_spec in H by assumption. inversion H; subst.
  split; [apply wf_NoDup; assumption|].
  split; [reflexivity|]. split; [reflexivity|]. split; [reflexivity|].
  exact W'.
Qed.

Theorem insert_unique : forall w now d k w',
  wf w -> insert now d w = Ok (Some k, w') ->
  now < d /\ kdl k = d /\ ~ In k (keys_of (wmap w)) /\ wf w' /\
  (forall e, In e (wmap w') <-> e = (k, None) \/ In e (wmap w)).
Proof.
  intros w now d k w' W H. pose proof (insert_wf now d w _ w' W H) as W'.
  destruct (insert_spec now d w W) as [[_ E]|[[_ [_ E]]|[L [G E]]]]; rewrite E in H; inversion H; subst.
  split; [assumption|]. split; [reflexivity|]. split; [apply fresh_key; assumption|].
  split; [assumption|].
  intros e. cbn [wmap]. apply map_insert_In; [destruct W; assumption|apply fresh_key; assumption].
Qed.

(* ---------------------------------------------------------------------- *)
(* C09_sleep_bound                                                         *)

Lemma sorted_head_min : forall k v m k',
  sorted ((k, v) :: m) -> In k' (keys_of ((k, v) :: m)) -> kdl k <= kdl k'.
Proof.
  intros k v m k' S H. cbn in H. destruct H as [<-|H]; [lia|].
  apply sorted_cons_inv in S as [_ F]. rewrite Forall_forall in F.
  specialize (F k' H). unfold key_lt in F. lia.
Qed.

Theorem sleep_bound : forall w now,
  wf w ->
  (min_timeout now w = None <-> wmap w = []) /\
  (forall t, min_timeout now w = Some t ->
     0 <= t /\
     exists k, In k (keys_of (wmap w)) /\ t = Z.max 0 (kdl k - now) /\
               forall k', In k' (keys_of (wmap w)) -> kdl k <= kdl k').
Proof.
  intros w now W. unfold min_timeout. destruct (wmap w) as [|[k v] m] eqn:E.
  - split; [tauto|]. intros t H. discriminate.
  - assert (S : sorted (wmap w)) by (destruct W; assumption). rewrite E in S.
    split; [split; discriminate|]. intros t H. inversion H; subst. split; [lia|].
    exists k. split; [cbn; auto|]. split; [reflexivity|].
    intros k' Hk. eapply sorted_head_min; [exact S|exact Hk].
Qed.

(* the block_on loop fragment: poll_with(min_timeout); wake *)
Theorem idle_loop : forall w now1 now2 mt ws w',
  wf w -> rt_poll now1 now2 w = (mt, ws, w') ->
  mt = min_timeout now1 w /\ wake now2 w = (ws, w') /\
  (forall t, mt = Some t -> now1 + t <= now2 ->
     forall k, In k (keys_of (wmap w)) ->
       (forall k', In k' (keys_of (wmap w)) -> kdl k <= kdl k') ->
       is_completed k w' = true).
Proof.
  intros w now1 now2 mt ws w' W H. unfold rt_poll in H.
  destruct (wake now2 w) as [ws0 w0] eqn:E. inversion H; subst. repeat split.
  intros t Ht Hle k Hin Hmin.
  destruct (sleep_bound w now1 W) as [_ B]. destruct (B t Ht) as [_ [k0 [Hk0 [Et _]]]].
  assert (kdl k <= now2) by (specialize (Hmin k0 Hk0); lia).
  unfold keys_of in Hin. apply in_map_iff in Hin as [[k1 s] [Ek He]]. cbn in Ek. subst k1.
  eapply wake_fires; eauto.
Qed.

(* ---------------------------------------------------------------------- *)
(* C09_drop_clean                                                          *)

(* two sorted association lists with the same entries are the same list *)
Lemma sorted_ext : forall a b : list entry,
  sorted a -> sorted b -> (forall e, In e a <-> In e b) -> a = b.
Proof.
  induction a as [|[ka va] a IH]; intros b Sa Sb H.
  - destruct b as [|e b]; [reflexivity|]. exfalso. apply (H e). cbn. auto.
  - destruct b as [|[kb vb] b]; [exfalso; apply (H (ka, va)); cbn; auto|].
    pose proof (sorted_cons_inv _ _ _ Sa) as [Sa' Fa].
    pose proof (sorted_cons_inv _ _ _ Sb) as [Sb' Fb].
    rewrite Forall_forall in Fa, Fb.
    assert (E : (ka, va) = (kb, vb)).
    { assert (A : In (ka, va) ((kb, vb) :: b)) by (apply H; cbn; auto).
      assert (B : In (kb, vb) ((ka, va) :: a)) by (apply H; cbn; auto).
      destruct A as [A|A]; [congruence|]. destruct B as [B|B]; [congruence|].
      exfalso. apply (key_lt_irrefl ka). eapply key_lt_trans.
      - apply Fa. apply (in_map fst) in B. exact B.
      - apply Fb. apply (in_map fst) in A. exact A. }
    inversion E; subst kb vb. f_equal. apply IH; try assumption.
    intros e. split; intros He.
    + assert (A : In e ((ka, va) :: b)) by (apply H; cbn; auto).
      destruct A as [A|A]; [|assumption]. subst e. exfalso.
      eapply sorted_not_in_head; [exact Sa|]. apply (in_map fst) in He. exact He.
    + assert (A : In e ((ka, va) :: a)) by (apply H; cbn; auto).
      destruct A as [A|A]; [|assumption]. subst e. exfalso.
      eapply sorted_not_in_head; [exact Sb|]. apply (in_map fst) in He. exact He.
Qed.

Definition sim (k : key) (wa wb : wheel) : Prop :=
  wgen wb = wgen wa /\ wmap wb = map_remove k (wmap wa).

Lemma sim_wf : forall k wa wb, wf wa -> sim k wa wb -> wf wb.
Proof.
  intros k wa wb W [G M]. pose proof (cancel_wf k wa W) as C.
  destruct C as [S F X]. cbn [cancel wmap wgen] in *.
  constructor; rewrite ?M, ?G; assumption.
Qed.

Lemma step_gen_mono : forall w o u w', step w o = Ok (u, w') -> (wgen w <= wgen w')%N.
Proof.
  intros w o u w' H. destruct o; cbn [step] in H.
  - unfold insert in H. destruct (d <=? now); [inversion H; lia|].
    destruct (wgen w =? U64_MAX)%N; cbn in H; inversion H; subst; cbn; lia.
  - inversion H; subst; cbn; lia.
  - inversion H; subst; cbn; lia.
  - inversion H; subst; lia.
  - unfold wake in H. destruct (wmap w); [inversion H; lia|].
    destruct (split_lt _ _). inversion H; subst; cbn; lia.
  - unfold poll_timer in H. destruct (is_completed k w); inversion H; subst; cbn; lia.
Qed.

Lemma remove_insert_comm : forall k k' v m,
  sorted m -> k <> k' -> ~ In k' (keys_of m) ->
  map_insert k' v (map_remove k m) = map_remove k (map_insert k' v m).
Proof.
  intros k k' v m S N F.
  assert (F' : ~ In k' (keys_of (map_remove k m))).
  { intros A. apply map_remove_keys in A; [|assumption]. tauto. }
  apply sorted_ext.
  - apply map_insert_sorted, map_remove_sorted. assumption.
  - apply map_remove_sorted, map_insert_sorted. assumption.
  - intros e. rewrite map_insert_In by (try apply map_remove_sorted; assumption).
    rewrite map_remove_In by assumption.
    rewrite map_remove_In by (apply map_insert_sorted; assumption).
    rewrite map_insert_In by assumption.
    split.
    + intros [->|[A B]]; [cbn; split; [congruence|auto]|auto].
    + intros [A [->|B]]; auto.
Qed.

Lemma remove_set_comm : forall k k0 v m,
  sorted m -> k <> k0 ->
  map_set k0 v (map_remove k m) = map_remove k (map_set k0 v m).
Proof.
  intros k k0 v m S N. apply sorted_ext.
  - apply map_set_sorted, map_remove_sorted. assumption.
  - apply map_remove_sorted, map_set_sorted. assumption.
  - intros e. rewrite map_set_In by (apply map_remove_sorted; assumption).
    rewrite map_remove_In by assumption.
    rewrite map_remove_In by (apply map_set_sorted; assumption).
    rewrite map_set_In by assumption.
    rewrite map_remove_keys by assumption.
    split.
    + intros [[A [B C]]|[-> [B C]]]; [tauto|]. cbn. split; [congruence|]. right. auto.
    + intros [A [[B C]|[-> C]]]; [tauto|]. right. split; [reflexivity|]. split; [congruence|assumption].
Qed.

Lemma remove_set_same : forall k v m,
  sorted m -> map_remove k (map_set k v m) = map_remove k m.
Proof.
  intros k v m S. apply sorted_ext.
  - apply map_remove_sorted, map_set_sorted. assumption.
  - apply map_remove_sorted. assumption.
  - intros e. rewrite map_remove_In by (apply map_set_sorted; assumption).
    rewrite map_set_In by assumption. rewrite map_remove_In by assumption.
    split.
    + intros [A [[B C]|[-> C]]]; [tauto|]. cbn in A. congruence.
    + intros [A B]. tauto.
Qed.

Lemma remove_remove_comm : forall k k0 m,
  sorted m -> map_remove k0 (map_remove k m) = map_remove k (map_remove k0 m).
Proof.
  intros k k0 m S. apply sorted_ext.
  - apply map_remove_sorted, map_remove_sorted. assumption.
  - apply map_remove_sorted, map_remove_sorted. assumption.
  - intros e. rewrite !map_remove_In by (try apply map_remove_sorted; assumption). tauto.
Qed.

Lemma remove_idem : forall k m, sorted m -> map_remove k (map_remove k m) = map_remove k m.
Proof.
  intros k m S. apply map_remove_notin. intros A. apply map_remove_keys in A; [|assumption]. tauto.
Qed.

Lemma remove_filter_comm : forall k p m,
  sorted m -> filter p (map_remove k m) = map_remove k (filter p m).
Proof.
  intros k p m S. apply sorted_ext.
  - apply filter_sorted, map_remove_sorted. assumption.
  - apply map_remove_sorted, filter_sorted. assumption.
  - intros e. rewrite filter_In. rewrite map_remove_In by assumption.
    rewrite map_remove_In by (apply filter_sorted; assumption). rewrite filter_In. tauto.
Qed.

Lemma remove_insert_fresh : forall k v m,
  sorted m -> ~ In k (keys_of m) -> map_remove k (map_insert k v m) = m.
Proof.
  intros k v m S F. apply sorted_ext.
  - apply map_remove_sorted, map_insert_sorted. assumption.
  - assumption.
  - intros e. rewrite map_remove_In by (apply map_insert_sorted; assumption).
    rewrite map_insert_In by assumption. split.
    + intros [A [->|B]]; [cbn in A; congruence|assumption].
    + intros A. split; [|auto]. intros <-. apply F. apply (in_map fst) in A. exact A.
Qed.

Lemma sim_completed : forall k wa wb k0,
  wf wa -> sim k wa wb -> k <> k0 -> is_completed k0 wb = is_completed k0 wa.
Proof.
  intros k wa wb k0 W [G M] N.
  destruct (is_completed k0 wa) eqn:A.
  - apply is_completed_iff. apply is_completed_iff in A. rewrite M. intros B.
    apply map_remove_keys in B; [|destruct W; assumption]. tauto.
  - apply is_completed_false_iff. apply is_completed_false_iff in A. rewrite M.
    apply map_remove_keys; [destruct W; assumption|]. split; [congruence|assumption].
Qed.

(* an operation that does not name k does the same to both wheels *)
Lemma sim_step : forall k wa wb o u wa',
  wf wa -> sim k wa wb -> (kgen k < wgen wa)%N -> names k o = false ->
  step wa o = Ok (u, wa') ->
  exists u' wb', step wb o = Ok (u', wb') /\ sim k wa' wb'.
Proof.
  intros k wa wb o u wa' W Sm G Nm H.
  pose proof (sim_wf k wa wb W Sm) as Wb.
  assert (S : sorted (wmap wa)) by (destruct W; assumption).
  destruct Sm as [Eg Em].
  destruct o; cbn [step names] in *.
  - (* insert *)
    destruct (insert_spec now d wa W) as [[L E]|[[_ [_ E]]|[L [X E]]]]; rewrite E in H; cbn in H;
      inversion H; subst.
    + destruct (insert_spec now d wb Wb) as [[_ E2]|[[L2 _]|[L2 _]]]; [|lia|lia].
      rewrite E2. cbn. eexists _, _. split; [reflexivity|]. split; assumption.
    + destruct (insert_spec now d wb Wb) as [[L2 _]|[[_ [X2 _]]|[_ [_ E2]]]]; [lia|congruence|].
      rewrite E2. cbn. eexists _, _. split; [reflexivity|]. split; cbn [wgen wmap]; [congruence|].
      rewrite Eg, Em. apply remove_insert_comm; [assumption| |apply fresh_key; assumption].
      intros ->. cbn in G. lia.
  - (* update_waker of another key *)
    inversion H; subst. eexists _, _. split; [reflexivity|]. split; cbn [update_waker wgen wmap]; [assumption|].
    rewrite Em. apply remove_set_comm; [assumption|]. intros ->. rewrite key_eqb_refl in Nm. discriminate.
  - (* cancel of another key *)
    inversion H; subst. eexists _, _. split; [reflexivity|]. split; cbn [cancel wgen wmap]; [assumption|].
    rewrite Em. apply remove_remove_comm. assumption.
  - inversion H; subst. eexists _, _. split; [reflexivity|]. split; assumption.
  - (* wake *)
    rewrite wake_spec in H by assumption. inversion H; subst.
    rewrite wake_spec by assumption. eexists _, _. split; [reflexivity|].
    split; cbn [wgen wmap]; [assumption|]. rewrite Em. apply remove_filter_comm. assumption.
  - (* poll of another key *)
    assert (N : k <> k0) by (intros ->; rewrite key_eqb_refl in Nm; discriminate).
    unfold poll_timer in *. rewrite (sim_completed k wa wb k0 W (conj Eg Em) N).
    destruct (is_completed k0 wa); inversion H; subst; eexists _, _; (split; [reflexivity|]).
    + split; assumption.
    + split; cbn [update_waker wgen wmap]; [assumption|]. rewrite Em. apply remove_set_comm; assumption.
Qed.

(* an operation of the timer's owner is invisible to the wheel without it *)
Lemma sim_own : forall k wa wb o u wa',
  wf wa -> sim k wa wb -> names k o = true -> step wa o = Ok (u, wa') -> sim k wa' wb.
Proof.
  intros k wa wb o u wa' W [Eg Em] Nm H.
  assert (S : sorted (wmap wa)) by (destruct W; assumption).
  destruct o; cbn [step names] in *; try discriminate.
  - apply key_eqb_spec in Nm. subst k0. inversion H; subst.
    split; cbn [update_waker wgen wmap]; [assumption|]. rewrite remove_set_same; assumption.
  - apply key_eqb_spec in Nm. subst k0. inversion H; subst.
    split; cbn [cancel wgen wmap]; [assumption|]. rewrite remove_idem; assumption.
  - apply key_eqb_spec in Nm. subst k0. unfold poll_timer in H.
    destruct (is_completed k wa); inversion H; subst; [split; assumption|].
    split; cbn [update_waker wgen wmap]; [assumption|]. rewrite remove_set_same; assumption.
Qed.

Lemma drop_clean_run : forall ops k wa wb outs wa',
  wf wa -> sim k wa wb -> (kgen k < wgen wa)%N -> run wa ops = Ok (outs, wa') ->
  exists outs' wb', run wb (erase k ops) = Ok (outs', wb') /\ sim k wa' wb'.
Proof.
  induction ops as [|o r IH]; intros k wa wb outs wa' W Sm G H.
  - cbn in H. inversion H; subst. exists [], wb. split; [reflexivity|assumption].
  - apply run_cons in H as (u & w1 & us & Hs & Hr & _).
    assert (W1 : wf w1) by (eapply step_wf; eauto).
    assert (G1 : (kgen k < wgen w1)%N) by (pose proof (step_gen_mono _ _ _ _ Hs); lia).
    unfold erase. cbn [filter]. fold (erase k r).
    destruct (names k o) eqn:Nm; cbn [negb].
    + apply (IH k w1 wb us wa' W1 (sim_own k wa wb o u w1 W Sm Nm Hs) G1 Hr).
    + destruct (sim_step k wa wb o u w1 W Sm G Nm Hs) as (u' & wb1 & Hs' & Sm1).
      destruct (IH k w1 wb1 us wa' W1 Sm1 G1 Hr) as (outs' & wb' & Hr' & Sm').
      exists (u' :: outs'), wb'. split; [|assumption].
      cbn [run]. rewrite Hs'. cbn. rewrite Hr'. reflexivity.
Qed.

Theorem drop_clean : forall w now d k w1 ops outs w2,
  wf w -> insert now d w = Ok (Some k, w1) -> run w1 ops = Ok (outs, w2) ->
  exists outs', run (bump w) (erase k ops) = Ok (outs', cancel k w2).
Proof.
  intros w now d k w1 ops outs w2 W Hi Hr.
  destruct (insert_unique w now d k w1 W Hi) as (_ & _ & F & W1 & _).
  destruct (insert_spec now d w W) as [[_ E]|[[_ [_ E]]|[_ [X E]]]]; rewrite E in Hi; inversion Hi; subst.
  assert (Sm : sim (mkkey d (wgen w))
                 (mkwheel (wgen w + 1)%N (map_insert (mkkey d (wgen w)) None (wmap w))) (bump w)).
  { split; cbn [bump wgen wmap]; [reflexivity|].
    symmetry. apply remove_insert_fresh; [destruct W; assumption|assumption]. }
  destruct (drop_clean_run ops _ _ _ outs w2 W1 Sm ltac:(cbn; lia) Hr) as (outs' & wb' & Hr' & [Eg Em]).
  exists outs'. rewrite Hr'. f_equal. f_equal. destruct wb' as [g m]. cbn in *. subst. reflexivity.
Qed.

(* ---------------------------------------------------------------------- *)
(* C09_timeout                                                             *)

(* what the Timeout's environment has done to its sleep so far *)
Definition tinv (s : sleep) (d : Z) (expired : bool) (w : wheel) : Prop :=
  wf w /\
  match s with
  | None => expired = true
  | Some k => kdl k = d /\ (kgen k < wgen w)%N /\
              (In k (keys_of (wmap w)) <-> expired = false)
  end.

Definition expires (d : Z) (o : op) : bool :=
  match o with OWake now => d <=? now | _ => false end.

Lemma timeout_spec_op : forall expired d o r,
  timeout_spec expired d (TOp o :: r) = timeout_spec (expired || expires d o) d r.
Proof.
  intros expired d o r. destruct o; cbn [timeout_spec expires]; rewrite ?orb_false_r; reflexivity.
Qed.

Lemma tinv_step : forall s d expired w o u w',
  tinv s d expired w -> (forall k, s = Some k -> o <> OCancel k) ->
  step w o = Ok (u, w') -> tinv s d (expired || expires d o) w'.
Proof.
  intros s d expired w o u w' [W I] Hc H.
  assert (W' : wf w') by (eapply step_wf; eauto).
  split; [assumption|]. destruct s as [k|].
  - destruct I as [Ed [G I]]. split; [assumption|].
    pose proof (step_gen_mono _ _ _ _ H) as Mono. split; [lia|].
    destruct expired; cbn [orb].
    + (* already expired: stays absent *)
      assert (A : ~ In k (keys_of (wmap w))) by (intros A; apply I in A; discriminate).
      destruct (step_stays_absent w o u w' k W H A G) as [A' _]. split; [tauto|discriminate].
    + assert (A : In k (keys_of (wmap w))) by (apply I; reflexivity).
      destruct (op_wake_due_or_not o k) as [[now [-> Hd]]|Hw].
      * (* the wake that expires it *)
        cbn [expires]. rewrite Ed in Hd. apply Z.leb_le in Hd. rewrite Hd.
        split; [|discriminate]. intros B. exfalso.
        cbn [step] in H. rewrite wake_spec in H by assumption. inversion H; subst. cbn [wmap] in B.
        unfold keys_of in B. apply in_map_iff in B as [e [Ek He]]. apply filter_In in He as [_ Hn].
        unfold not_due in Hn. apply Z.ltb_lt in Hn. apply Z.leb_le in Hd. rewrite Ek in Hn. lia.
      * assert (X : expires d o = false).
        { destruct o; try reflexivity. cbn [expires]. apply Z.leb_gt. rewrite <- Ed. apply Hw. reflexivity. }
        rewrite X. split; [reflexivity|]. intros _.
        apply (step_keeps w o u w' k W H A (Hc k eq_refl) Hw).
  - subst. reflexivity.
Qed.

Lemma timeout_drive_spec : forall evs s d expired w res w',
  tinv s d expired w ->
  (forall k, s = Some k -> ~ In (TOp (OCancel k)) evs) ->
  timeout_drive s w evs = Ok (res, w') ->
  res = timeout_spec expired d evs /\
  (res <> TPending -> forall k, s = Some k -> is_completed k w' = true).
Proof.
  induction evs as [|ev r IH]; intros s d expired w res w' Inv Hc H.
  - cbn in H. inversion H; subst. split; [reflexivity|]. intros N. congruence.
  - assert (Hc' : forall k, s = Some k -> ~ In (TOp (OCancel k)) r).
    { intros k Es A. apply (Hc k Es). cbn. auto. }
    destruct ev as [rdy wk|o].
    + cbn [timeout_drive timeout_spec] in *. unfold timeout_poll in H.
      assert (Drop : forall k, s = Some k -> is_completed k (sleep_drop s w) = true).
      { intros k ->. cbn [sleep_drop]. apply is_completed_iff. cbn [cancel wmap]. intros A.
        apply map_remove_keys in A; [|destruct Inv as [[S _ _] _]; assumption]. tauto. }
      destruct rdy.
      * inversion H; subst. split; [reflexivity|]. intros _. exact Drop.
      * destruct s as [k|]; cbn [sleep_poll] in H.
        -- destruct Inv as [W [Ed [G I]]]. unfold poll_timer in H.
           destruct (is_completed k w) eqn:C.
           ++ inversion H; subst. apply is_completed_iff in C.
              destruct expired; [|exfalso; apply C; apply I; reflexivity].
              split; [reflexivity|]. intros _. exact Drop.
           ++ apply is_completed_false_iff in C.
              destruct expired; [apply I in C; discriminate|].
              eapply IH; [|exact Hc'|exact H].
              split; [apply update_waker_wf; assumption|].
              split; [assumption|]. cbn [update_waker wgen wmap]. rewrite map_set_keys. tauto.
        -- destruct Inv as [W I]. subst expired. inversion H; subst.
           split; [reflexivity|]. intros _ k E. discriminate.
    + rewrite timeout_spec_op. cbn [timeout_drive] in H.
      destruct (step w o) as [[u w1]|c] eqn:Hs; cbn in H; [|discriminate].
      eapply IH; [|exact Hc'|exact H].
      eapply tinv_step; eauto.
      intros k Es ->. apply (Hc k Es). cbn. auto.
Qed.

Theorem timeout_correct : forall w now d s w1 evs res w2,
  wf w -> sleep_new now d w = Ok (s, w1) ->
  (forall k, s = Some k -> ~ In (TOp (OCancel k)) evs) ->
  timeout_drive s w1 evs = Ok (res, w2) ->
  res = timeout_spec (d <=? now) d evs /\
  (res <> TPending -> forall k, s = Some k -> is_completed k w2 = true).
Proof.
  intros w now d s w1 evs res w2 W Hn Hc H.
  eapply timeout_drive_spec; [|exact Hc|exact H].
  unfold sleep_new in Hn. pose proof (insert_wf now d w s w1 W Hn) as W1.
  split; [assumption|].
  destruct (insert_spec now d w W) as [[L E]|[[_ [_ E]]|[L [X E]]]]; rewrite E in Hn; inversion Hn; subst.
  - apply Z.leb_le. assumption.
  - cbn [kdl kgen wgen wmap]. split; [reflexivity|]. split; [lia|].
    assert (F : (d <=? now) = false) by (apply Z.leb_gt; assumption). rewrite F.
    split; [reflexivity|]. intros _. apply map_insert_keys. auto.
Qed.

(* the result stated on the sequence of polls alone *)
Lemma timeout_spec_ok_iff : forall evs expired d,
  timeout_spec expired d evs = TOk <->
  exists pre wk post,
    evs = pre ++ TPoll true wk :: post /\
    (forall b wk', In (TPoll b wk') pre -> b = false) /\
    (* every earlier poll happened before the deadline was reached *)
    (forall p1 wk' p2, pre = p1 ++ TPoll false wk' :: p2 ->
       expired = false /\ forall now, In (TOp (OWake now)) p1 -> now < d).
Proof.
  induction evs as [|ev r IH]; intros expired d.
  - cbn. split; [discriminate|]. intros (pre & wk & post & E & _). destruct pre; discriminate.
  - destruct ev as [rdy wk|o].
    + cbn [timeout_spec]. destruct rdy.
      * split; [intros _|reflexivity]. exists [], wk, r. split; [reflexivity|]. split.
        -- intros b wk' [].
        -- intros p1 wk' p2 E. destruct p1; discriminate.
      * destruct expired.
        -- split; [discriminate|]. intros (pre & wk0 & post & E & A & B).
           destruct pre as [|e pre]; [cbn in E; inversion E|].
           cbn in E. inversion E; subst e.
           destruct (B [] wk pre eq_refl) as [X _]. discriminate.
        -- rewrite IH. split.
           ++ intros (pre & wk0 & post & E & A & B). exists (TPoll false wk :: pre), wk0, post.
              split; [cbn; congruence|]. split.
              ** intros b wk' [X|X]; [inversion X; reflexivity|eauto].
              ** intros p1 wk' p2 E2. destruct p1 as [|e p1]; cbn in E2.
                 --- split; [reflexivity|]. intros now [].
                 --- inversion E2; subst. destruct (B p1 wk' p2 eq_refl) as [_ Y].
                     split; [reflexivity|]. intros now [X|X]; [discriminate|auto].
           ++ intros (pre & wk0 & post & E & A & B).
              destruct pre as [|e pre]; [cbn in E; inversion E|].
              cbn in E. inversion E; subst e. exists pre, wk0, post.
              split; [reflexivity|]. split; [intros; eapply A; cbn; eauto|].
              intros p1 wk' p2 E2. subst pre.
              destruct (B (TPoll false wk :: p1) wk' p2 eq_refl) as [_ Y].
              split; [reflexivity|]. intros now X. apply Y. cbn. auto.
    + rewrite timeout_spec_op, IH. split.
      * intros (pre & wk0 & post & E & A & B). exists (TOp o :: pre), wk0, post.
        split; [cbn; congruence|]. split.
        -- intros b wk' [X|X]; [discriminate|eauto].
        -- intros p1 wk' p2 E2. destruct p1 as [|e p1]; cbn in E2; [discriminate|].
           inversion E2; subst. destruct (B p1 wk' p2 eq_refl) as [X Y].
           apply orb_false_iff in X as [X1 X2]. split; [assumption|].
           intros now [Z|Z]; [|auto]. inversion Z; subst. cbn [expires] in X2. apply Z.leb_gt in X2. lia.
      * intros (pre & wk0 & post & E & A & B).
        destruct pre as [|e pre]; [cbn in E; inversion E|].
        cbn in E. inversion E; subst e. exists pre, wk0, post.
        split; [reflexivity|]. split; [intros; eapply A; cbn; eauto|].
        intros p1 wk' p2 E2. subst pre.
        destruct (B (TOp o :: p1) wk' p2 eq_refl) as [X Y].
        split.
        -- apply orb_false_iff. split; [assumption|].
           destruct o; try reflexivity. cbn [expires]. apply Z.leb_gt. apply Y. cbn. auto.
        -- intros now Z. apply Y. cbn. auto.
Qed.

(* ---------------------------------------------------------------------- *)
(* C09_interval_aligned                                                    *)

Lemma dur_of_u128_id : forall n, 0 <= n < DUR_LIMIT -> dur_of_u128 n = n.
Proof.
  intros n [L H]. unfold dur_of_u128, DUR_LIMIT, NANOS_PER_SEC, TWO64, TWO32 in *.
  assert (Q : 0 <= n / 1000000000 < 18446744073709551616).
  { split; [apply Z.div_pos; lia|apply Z.div_lt_upper_bound; lia]. }
  assert (M : 0 <= n mod 1000000000 < 1000000000) by (apply Z.mod_pos_bound; lia).
  rewrite (Z.mod_small (n / 1000000000)) by lia.
  rewrite (Z.mod_small (n mod 1000000000)) by lia.
  pose proof (Z.div_mod n 1000000000). lia.
Qed.

Theorem interval_aligned : forall start period now,
  0 < period < DUR_LIMIT -> start <= now ->
  exists k, 0 < k /\ interval_next start period now = start + k * period /\
            now < interval_next start period now <= now + period.
Proof.
  intros start period now [P L] H. unfold interval_next.
  rewrite Z.max_r by lia.
  assert (M : 0 <= (now - start) mod period < period) by (apply Z.mod_pos_bound; lia).
  rewrite dur_of_u128_id by lia.
  exists ((now - start) / period + 1).
  assert (D : 0 <= (now - start) / period) by (apply Z.div_pos; lia).
  pose proof (Z.div_mod (now - start) period). nia.
Qed.

Theorem tick_aligned : forall iv now,
  0 < iperiod iv < DUR_LIMIT ->
  (first_ticked iv = true -> istart iv <= now) ->
  exists k, 0 <= k /\ tick_deadline iv now = istart iv + k * iperiod iv /\
            (first_ticked iv = true ->
             now < tick_deadline iv now <= now + iperiod iv).
Proof.
  intros iv now P H. unfold tick_deadline. destruct (first_ticked iv).
  - destruct (interval_aligned (istart iv) (iperiod iv) now P (H eq_refl)) as [k [K [E B]]].
    exists k. split; [lia|]. split; [assumption|]. intros _. assumption.
  - exists 0. split; [lia|]. split; [lia|]. discriminate.
Qed.

(* ---------------------------------------------------------------------- *)
(* C09_wake_after_every_poll: the wheel is woken after every driver poll    *)

Theorem wake_after_every_poll : forall rem ans now1 now2 w,
  ans <> DError ->
  loop_iter rem ans now1 now2 w =
    Ok (if rem then Some 0 else min_timeout now1 w, fst (wake now2 w), snd (wake now2 w)) /\
  poll_with ans now2 w = Ok (wake now2 w).
Proof.
  intros rem ans now1 now2 w N. unfold loop_iter, poll_with.
  destruct ans; try congruence; cbn; destruct (wake now2 w); split; reflexivity.
Qed.

Lemma loop_iter_inv : forall rem ans now1 now2 w t ws w',
  loop_iter rem ans now1 now2 w = Ok (t, ws, w') ->
  ans <> DError /\ wake now2 w = (ws, w') /\
  t = (if rem then Some 0 else min_timeout now1 w).
Proof.
  intros rem ans now1 now2 w t ws w' H. unfold loop_iter, poll_with in H.
  destruct ans; cbn in H; try discriminate;
    destruct (wake now2 w) as [ws0 w0]; inversion H; subst;
    (split; [discriminate|split; reflexivity]).
Qed.

(* a loop of any length, whatever the driver answered each time, is the
   program of its wakes *)
Lemma loop_run_as_ops : forall ts w wss w',
  loop_run w ts = Ok (wss, w') ->
  run w (turn_ops ts) = Ok (map UWoken wss, w').
Proof.
  induction ts as [|[[[rem ans] n1] n2] r IH]; intros w wss w' H.
  - cbn in H. inversion H; subst. reflexivity.
  - cbn [loop_run] in H.
    destruct (loop_iter rem ans n1 n2 w) as [[[t ws] w1]|c] eqn:E; cbn in H; [|discriminate].
    destruct (loop_run w1 r) as [[wss1 w2]|c] eqn:E2; cbn in H; [|discriminate].
    inversion H; subst. apply loop_iter_inv in E as (_ & E & _).
    cbn [turn_ops map snd run step]. rewrite E. cbn.
    fold (turn_ops r). rewrite (IH _ _ _ E2). reflexivity.
Qed.

Lemma last_reg_turns : forall k s ts, last_reg k s (turn_ops ts) = s.
Proof. induction ts as [|t r IH]; cbn; [reflexivity|exact IH]. Qed.

Lemma in_turn_ops : forall o ts, In o (turn_ops ts) -> exists t, In t ts /\ o = OWake (snd t).
Proof.
  intros o ts H. unfold turn_ops in H. apply in_map_iff in H as [t [E I]]. exists t. auto.
Qed.

Theorem always_fires_any_answer : forall ts w wss w1 k s0 rem ans n1 n2,
  wf w -> In (k, s0) (wmap w) ->
  loop_run w ts = Ok (wss, w1) ->
  (forall t, In t ts -> snd t < kdl k) ->
  ans <> DError -> kdl k <= n2 ->
  exists t ws w2,
    loop_iter rem ans n1 n2 w1 = Ok (t, ws, w2) /\
    is_completed k w2 = true /\
    exists l1 l2,
      filter (due n2) (wmap w1) = l1 ++ (k, s0) :: l2 /\
      ~ In k (keys_of l1) /\ ~ In k (keys_of l2) /\
      ws = wakers_of l1 ++ opt_list s0 ++ wakers_of l2.
Proof.
  intros ts w wss w1 k s0 rem ans n1 n2 W Hin Hr Hlt Na Hd.
  apply loop_run_as_ops in Hr.
  destruct (wake_after_every_poll rem ans n1 n2 w1 Na) as [E _].
  destruct (wake n2 w1) as [ws w2] eqn:Ew. cbn [fst snd] in E.
  exists (if rem then Some 0 else min_timeout n1 w1), ws, w2. split; [exact E|].
  assert (A := always_fires (turn_ops ts) w (map UWoken wss) w1 k s0 n2 ws w2 W Hin Hr).
  rewrite last_reg_turns in A. apply A; try assumption.
  - intros X. apply in_turn_ops in X as [t [_ X]]. discriminate.
  - intros now' X. apply in_turn_ops in X as [t [It X]]. inversion X; subst. apply Hlt. assumption.
Qed.

(* ---------------------------------------------------------------------- *)
(* C09_interval_first_tick_cancel_safe                                      *)

Lemma ticked_after : forall iv (c : bool),
  first_ticked (if c then tick_done iv else iv) = first_ticked iv || c /\
  istart (if c then tick_done iv else iv) = istart iv /\
  iperiod (if c then tick_done iv else iv) = iperiod iv.
Proof.
  intros iv [|]; cbn; [rewrite orb_true_r|rewrite orb_false_r]; repeat split.
Qed.

Lemma iv_run_aligned : forall evs iv,
  0 < iperiod iv < DUR_LIMIT -> clocked (first_ticked iv) (istart iv) evs ->
  Forall (fun d => exists k, 0 <= k /\ d = istart iv + k * iperiod iv) (iv_run iv evs).
Proof.
  induction evs as [|[now c] r IH]; intros iv P C; cbn [iv_run]; constructor.
  - destruct C as [C _]. destruct (tick_aligned iv now P C) as [k [K [E _]]]. exists k. auto.
  - destruct C as [_ C]. destruct (ticked_after iv c) as (F & S & Pe).
    specialize (IH (if c then tick_done iv else iv)).
    rewrite F, S, Pe in IH. apply IH; assumption.
Qed.

Lemma iv_run_cancelled_prefix : forall pre iv now c post,
  first_ticked iv = false ->
  (forall e, In e pre -> iv_completed e = false) ->
  firstn (S (length pre)) (iv_run iv (pre ++ IvTick now c :: post))
  = repeat (istart iv) (S (length pre)).
Proof.
  induction pre as [|[n0 c0] pre IH]; intros iv now c post F H.
  - cbn. unfold tick_deadline. rewrite F. reflexivity.
  - assert (c0 = false) by (apply (H (IvTick n0 c0)); cbn; auto). subst c0.
    cbn [app iv_run length]. cbn [firstn repeat]. f_equal.
    + unfold tick_deadline. rewrite F. reflexivity.
    + apply IH; [assumption|]. intros e He. apply H. cbn. auto.
Qed.

Theorem interval_first_tick_cancel_safe : forall iv evs,
  0 < iperiod iv < DUR_LIMIT -> first_ticked iv = false ->
  clocked false (istart iv) evs ->
  Forall (fun d => exists k, 0 <= k /\ d = istart iv + k * iperiod iv) (iv_run iv evs) /\
  (forall pre now c post,
     evs = pre ++ IvTick now c :: post ->
     (forall e, In e pre -> iv_completed e = false) ->
     firstn (S (length pre)) (iv_run iv evs) = repeat (istart iv) (S (length pre))).
Proof.
  intros iv evs P F C. split.
  - apply iv_run_aligned; [assumption|]. rewrite F. assumption.
  - intros pre now c post -> H. apply iv_run_cancelled_prefix; assumption.
Qed.

(* ---------------------------------------------------------------------- *)
(* after ANY driver answer every expired timer has been woken               *)

Lemma wakers_of_In : forall k wk m, In (k, Some wk) m -> In wk (wakers_of m).
Proof.
  induction m as [|[k' [wk'|]] m IH]; cbn; intros H; [contradiction| |].
  - destruct H as [H|H]; [inversion H; auto|auto].
  - destruct H as [H|H]; [discriminate|auto].
Qed.

Theorem poll_wakes_all_expired : forall ans now w,
  wf w -> ans <> DError ->
  exists ws w',
    poll_with ans now w = Ok (ws, w') /\ wf w' /\
    (forall k s, In (k, s) (wmap w) -> kdl k <= now ->
       is_completed k w' = true /\ forall wk, s = Some wk -> In wk ws) /\
    (forall k, In k (keys_of (wmap w')) -> now < kdl k) /\
    (forall e, In e (wmap w) -> now < kdl (fst e) -> In e (wmap w')).
Proof.
  intros ans now w W N.
  destruct (wake_after_every_poll true ans now now w N) as [_ E].
  destruct (wake now w) as [ws w'] eqn:Ew. exists ws, w'. split; [exact E|].
  split; [eapply wake_wf; eauto|].
  pose proof Ew as Ew2. rewrite wake_spec in Ew2 by assumption. inversion Ew2; subst. clear Ew2.
  split; [|split].
  - intros k s Hin Hd. split.
    + destruct (wake_fires w now k s _ _ W Hin Hd Ew) as [C _]. exact C.
    + intros wk ->. apply (wakers_of_In k). apply filter_In. split; [assumption|].
      unfold due. cbn. apply Z.leb_le. assumption.
  - intros k Hk. cbn [wmap] in Hk. unfold keys_of in Hk. apply in_map_iff in Hk as [e [<- He]].
    apply filter_In in He as [_ Hn]. unfold not_due in Hn. apply Z.ltb_lt. assumption.
  - intros e He Hlt. cbn [wmap]. apply filter_In. split; [assumption|].
    unfold not_due. apply Z.ltb_lt. assumption.
Qed.

(* the counter-model: however often the driver is polled, as long as every
   poll finds a completion nothing is ever woken *)
Lemma timeout_only_stuck : forall ts w,
  (forall t, In t ts -> fst t = DOk \/ fst t = DInterrupted) ->
  timeout_only_run w ts = Ok (map (fun _ => []) ts, w).
Proof.
  induction ts as [|[ans now] r IH]; intros w H; [reflexivity|].
  cbn [timeout_only_run map].
  assert (A : ans = DOk \/ ans = DInterrupted) by (apply (H (ans, now)); cbn; auto).
  assert (E : poll_with_timeout_only ans now w = Ok ([], w)) by (destruct A; subst; reflexivity).
  rewrite E. cbn. rewrite IH by (intros t Ht; apply H; cbn; auto). reflexivity.
Qed.
