(* SharedFdThm.v — proofs about model/SharedFd.v (C06). *)
From Compio.Model Require Import Base SharedFd.

(* ---------------------------------------------------------------------- *)
(* list facts                                                              *)

Fixpoint sumf {A} (f : A -> nat) (l : list A) : nat :=
  match l with [] => 0 | x :: r => f x + sumf f r end.

Lemma sumf_app {A} (f : A -> nat) l1 l2 : sumf f (l1 ++ l2) = sumf f l1 + sumf f l2.
Proof. induction l1 as [|a l1 IH]; cbn [sumf app]; [reflexivity|]. rewrite IH. lia. Qed.

Lemma upd_split {A} (l1 l2 : list A) x g :
  upd (l1 ++ x :: l2) (length l1) g = l1 ++ g x :: l2.
Proof.
  unfold upd. rewrite nth_error_app2, Nat.sub_diag by lia. cbn [nth_error].
  rewrite firstn_app, Nat.sub_diag, firstn_all. cbn [firstn]. rewrite app_nil_r.
  rewrite skipn_app. rewrite skipn_all2 by lia.
  replace (S (length l1) - length l1) with 1 by lia. reflexivity.
Qed.

Lemma sumf_upd {A} (f : A -> nat) g l k x :
  nth_error l k = Some x -> sumf f (upd l k g) + f x = sumf f l + f (g x).
Proof.
  intros H. apply nth_error_split in H. destruct H as (l1 & l2 & -> & <-).
  rewrite upd_split, !sumf_app. cbn [sumf]. lia.
Qed.

Lemma upd_none {A} (l : list A) k g : nth_error l k = None -> upd l k g = l.
Proof. intros H. unfold upd. rewrite H. reflexivity. Qed.

Lemma nth_upd_same {A} (l : list A) k g x :
  nth_error l k = Some x -> nth_error (upd l k g) k = Some (g x).
Proof.
  intros H. apply nth_error_split in H. destruct H as (l1 & l2 & -> & <-).
  rewrite upd_split. rewrite nth_error_app2, Nat.sub_diag by lia. reflexivity.
Qed.

Lemma nth_upd_other {A} (l : list A) k j g :
  j <> k -> nth_error (upd l k g) j = nth_error l j.
Proof.
  intros Hjk. destruct (nth_error l k) as [x|] eqn:Hk; [|rewrite upd_none by exact Hk; reflexivity].
  apply nth_error_split in Hk. destruct Hk as (l1 & l2 & -> & <-).
  rewrite upd_split.
  destruct (Nat.lt_ge_cases j (length l1)) as [Hlt|Hge].
  - rewrite !nth_error_app1 by lia. reflexivity.
  - rewrite !nth_error_app2 by lia.
    destruct (j - length l1) as [|m] eqn:Hm; [lia|]. reflexivity.
Qed.

Lemma nth_upd_inv {A} (l : list A) k j g y :
  nth_error (upd l k g) j = Some y ->
  (j = k /\ exists x, nth_error l k = Some x /\ y = g x) \/ (j <> k /\ nth_error l j = Some y).
Proof.
  intros H. destruct (Nat.eq_dec j k) as [->|Hne].
  - left. split; [reflexivity|].
    destruct (nth_error l k) as [x|] eqn:Hk.
    + rewrite (nth_upd_same l k g x Hk) in H. inversion H. eauto.
    + rewrite upd_none in H by exact Hk. congruence.
  - right. split; [exact Hne|]. rewrite nth_upd_other in H by exact Hne. exact H.
Qed.

Lemma upd_length {A} (l : list A) k g : length (upd l k g) = length l.
Proof.
  destruct (nth_error l k) as [x|] eqn:Hk; [|rewrite upd_none by exact Hk; reflexivity].
  apply nth_error_split in Hk. destruct Hk as (l1 & l2 & -> & <-).
  rewrite upd_split, !app_length. reflexivity.
Qed.

Lemma nth_last {A} (l : list A) x : nth_error (l ++ [x]) (length l) = Some x.
Proof. rewrite nth_error_app2, Nat.sub_diag by lia. reflexivity. Qed.

Lemma upd_last {A} (l : list A) x g : upd (l ++ [x]) (length l) g = l ++ [g x].
Proof. apply upd_split. Qed.

Lemma sumf_zero_forallb {A} (f : A -> nat) (p : A -> bool) l :
  (forall x, p x = true -> f x = 0) -> forallb p l = true -> sumf f l = 0.
Proof.
  intros Hp. induction l as [|a l IH]; cbn [forallb sumf]; [reflexivity|].
  intros H. apply andb_true_iff in H. destruct H as [Ha Hl]. rewrite (Hp a Ha), (IH Hl). reflexivity.
Qed.

Lemma sumf_zero_forallb_inv {A} (f : A -> nat) (p : A -> bool) l :
  (forall x, f x = 0 -> p x = true) -> sumf f l = 0 -> forallb p l = true.
Proof.
  intros Hp. induction l as [|a l IH]; cbn [forallb sumf]; [reflexivity|].
  intros H. rewrite (Hp a) by lia. rewrite IH by lia. reflexivity.
Qed.

Lemma sumf_pos_existsb {A} (f : A -> nat) (p : A -> bool) l :
  (forall x, p x = true -> 1 <= f x) -> existsb p l = true -> 1 <= sumf f l.
Proof.
  intros Hp. induction l as [|a l IH]; cbn [existsb sumf]; [discriminate|].
  intros H. apply orb_true_iff in H. destruct H as [Ha|Hl].
  - specialize (Hp a Ha). lia.
  - specialize (IH Hl). lia.
Qed.

Lemma sumf_nth_le {A} (f : A -> nat) l k x : nth_error l k = Some x -> f x <= sumf f l.
Proof.
  intros H. apply nth_error_split in H. destruct H as (l1 & l2 & -> & _).
  rewrite sumf_app. cbn [sumf]. lia.
Qed.

Lemma sumf_le {A} (f h : A -> nat) l : (forall x, f x <= h x) -> sumf f l <= sumf h l.
Proof.
  intros Hp. induction l as [|a l IH]; cbn [sumf]; [lia|]. specialize (Hp a). lia.
Qed.

(* ---------------------------------------------------------------------- *)
(* the reference-count invariant (every interleaving: the SYNC scheduler)   *)

Definition hc (x : closer) : nat := if holds (pc x) then 1 else 0.
Definition oc (x : closer) : nat := if owns (pc x) then 1 else 0.
Definition wn (x : closer) : nat := if winner x then 1 else 0.
Definition np (x : closer) : nat := if is_pending (pc x) then 1 else 0.
Definition ld (d : dpc) : nat := if dlive d then 1 else 0.
(* the closer got the descriptor (and whatever happened to it afterwards) *)
Definition gonepc (p : cpc) : bool :=
  match p with CSome | CClosing | CClosed | CCancelled | CDone => true | _ => false end.
Definition gp (x : closer) : nat := if gonepc (pc x) then 1 else 0.
Definition sh (f : fdst) : nat := match f with FShared => 1 | _ => 0 end.
Definition mv (f : fdst) : nat := match f with FMoved => 1 | _ => 0 end.
Definition cl (f : fdst) : nat := match f with FClosed => 1 | _ => 0 end.

Record Inv (g : cfg) (s : st) : Prop := mkInv {
  i_count : strong s = handles s + ops s + forgotten s + sumf hc (closers s) + sumf ld (droppers s);
  i_fd0 : strong s = 0 -> sh (fd s) = 0;
  i_fd1 : 1 <= strong s -> sh (fd s) = 1;
  i_closes : closes s = cl (fd s);
  i_own_le : sumf oc (closers s) <= mv (fd s);
  i_own_ge : cancelled_close_closes g = true -> mv (fd s) <= sumf oc (closers s);
  i_forg : unpolled_close_drops g = true -> forgotten s = 0;
  i_gone : 1 <= sumf gp (closers s) -> strong s = 0
}.

Lemma inv_init g : Inv g init.
Proof. constructor; cbn; intros; lia. Qed.

Ltac upd_facts :=
  repeat match goal with
  | H : nth_error ?l ?k = Some ?x |- context [sumf ?f (upd ?l ?k ?g)] =>
      lazymatch goal with
      | _ : sumf f (upd l k g) + f x = sumf f l + f (g x) |- _ => fail
      | _ => pose proof (sumf_upd f g l k x H)
      end
  end.

Ltac crunch :=
  unfold hc, oc, wn, np, ld, gp, w_pc in *;
  cbn [pc cf winner holds owns is_pending dlive gonepc sh mv cl negb] in *;
  repeat match goal with
  | H : pc ?x = _ |- _ => rewrite H in *
  end;
  cbn [pc cf winner holds owns is_pending dlive gonepc sh mv cl negb] in *.

Ltac inv_goal :=
  constructor;
  cbn [strong waits waker wwoken fd closes handles ops forgotten closers droppers
       set_closers set_droppers set_wwoken spawn_drop];
  rewrite ?sumf_app; cbn [sumf];
  upd_facts; crunch; intros;
  repeat match goal with
  | Hi : ?P -> _, Hp : ?P |- _ => specialize (Hi Hp)
  end;
  try lia; try (auto; fail); try congruence.

Lemma do_dec_inv g s s1 i d :
  Inv g s -> nth_error (droppers s) i = Some d -> dlive d = true -> do_dec s = Some s1 ->
  Inv g (set_droppers s1 (upd (droppers s1) i (fun _ => DDone))).
Proof.
  intros [Hc H0 H1 Hcl Hle Hge Hf Hgo] Hi Hd Hdec. unfold do_dec in Hdec.
  assert (Hld : ld d = 1) by (unfold ld; rewrite Hd; reflexivity).
  pose proof (sumf_nth_le ld _ _ _ Hi) as Hsum.
  destruct (strong s) as [|[|n]] eqn:Hs; [discriminate| |].
  - destruct (fd s) eqn:Hfd; try discriminate. inversion Hdec; subst s1; clear Hdec.
    inv_goal.
  - inversion Hdec; subst s1; clear Hdec. inv_goal.
Qed.

Lemma step_inv g s l s' : Inv g s -> step g s l = Some s' -> Inv g s'.
Proof.
  intros HI H. pose proof HI as [Hc H0 H1 Hcl Hle Hge Hf Hgo].
  destruct l; cbn [step] in H.
  - (* clone *) destruct (handles s) eqn:Hh; [discriminate|]. inversion H; subst s'. inv_goal.
  - (* op start *) destruct (handles s) eqn:Hh; [discriminate|]. inversion H; subst s'. inv_goal.
  - (* op finish *) destruct (ops s) eqn:Ho; [discriminate|]. inversion H; subst s'. inv_goal.
  - (* drop handle *) destruct (handles s) eqn:Hh; [discriminate|]. inversion H; subst s'. inv_goal.
  - (* Drop step *)
    unfold drop_step in H. destruct (nth_error (droppers s) i) as [d|] eqn:Hi; [|discriminate].
    destruct d; try discriminate.
    + inversion H; subst s'. destruct (strong s =? 2); inv_goal.
    + inversion H; subst s'. destruct (waits s); inv_goal.
    + inversion H; subst s'. unfold do_wake. destruct (waker s); inv_goal.
    + destruct (do_dec s) as [s1|] eqn:Hd; [|discriminate]. inversion H; subst s'.
      eapply do_dec_inv; eauto.
  - (* take *) destruct (handles s) eqn:Hh; [discriminate|]. inversion H; subst s'.
    destruct close; inv_goal.
  - (* poll step *)
    unfold poll_step in H. destruct (nth_error (closers s) c) as [x|] eqn:Hx; [|discriminate].
    destruct (pc x) eqn:Hpc; try discriminate.
    + inversion H; subst s'. unfold first_poll. destruct (waits s); [destruct (closer_release_wakes g)|]; inv_goal.
    + inversion H; subst s'. unfold first_poll. destruct (waits s); [destruct (closer_release_wakes g)|]; inv_goal.
    + inversion H; subst s'. unfold try_unwrap. destruct (strong s =? 1) eqn:E.
      * apply Nat.eqb_eq in E. inv_goal. all: destruct (fd s); cbn in *; lia.
      * inv_goal.
    + inversion H; subst s'. inv_goal.
    + inversion H; subst s'. unfold try_unwrap. destruct (strong s =? 1) eqn:E.
      * apply Nat.eqb_eq in E. inv_goal. all: destruct (fd s); cbn in *; lia.
      * inv_goal.
    + inversion H; subst s'. inv_goal.
    + destruct (cf x); [|discriminate]. inversion H; subst s'. inv_goal.
    + inversion H; subst s'. inv_goal.
    + inversion H; subst s'. inv_goal.
  - (* future dropped *)
    unfold fut_drop in H. destruct (nth_error (closers s) c) as [x|] eqn:Hx; [|discriminate].
    destruct (pc x) eqn:Hpc; try discriminate.
    + destruct (unpolled_close_drops g) eqn:Hu; inversion H; subst s'; inv_goal.
    + inversion H; subst s'. destruct (closer_release_wakes g); inv_goal.
    + inversion H; subst s'. destruct (closer_release_wakes g); inv_goal.
    + inversion H; subst s'. inv_goal.
    + inversion H; subst s'. inv_goal.
  - (* owner drops T *)
    destruct (nth_error (closers s) c) as [x|] eqn:Hx; [|discriminate].
    destruct (pc x) eqn:Hpc; try discriminate. destruct (cf x); [discriminate|].
    inversion H; subst s'. unfold close_fd. pose proof (sumf_nth_le oc _ _ _ Hx). inv_goal.
    all: destruct (fd s); cbn in *; lia.
  - (* close op runs *)
    destruct (nth_error (closers s) c) as [x|] eqn:Hx; [|discriminate].
    destruct (pc x) eqn:Hpc; try discriminate; inversion H; subst s'; unfold close_fd;
      pose proof (sumf_nth_le oc _ _ _ Hx); inv_goal; destruct (fd s); cbn in *; lia.
  - (* close op cancelled *)
    destruct (nth_error (closers s) c) as [x|] eqn:Hx; [|discriminate].
    destruct (pc x) eqn:Hpc; try discriminate.
    destruct (cancelled_close_closes g) eqn:Hcc; inversion H; subst s'; unfold close_fd;
      pose proof (sumf_nth_le oc _ _ _ Hx); inv_goal; try (destruct (fd s); cbn in *; lia).
  - (* try_unwrap *)
    destruct (handles s) eqn:Hh; [discriminate|]. destruct (strong s =? 1) eqn:E.
    + apply Nat.eqb_eq in E. inversion H; subst s'. inv_goal. all: destruct (fd s); cbn in *; lia.
    + inversion H; subst s'. exact HI.
Qed.

Lemma steps_inv g ls : forall s s', Inv g s -> steps g s ls = Some s' -> Inv g s'.
Proof.
  induction ls as [|l r IH]; cbn [steps]; intros s s' HI H.
  - inversion H; subst; exact HI.
  - destruct (step g s l) as [s1|] eqn:E; [|discriminate]. eapply IH; [|exact H]. eapply step_inv; eauto.
Qed.

Lemma reachable_inv g ls s : steps g init ls = Some s -> Inv g s.
Proof. apply steps_inv, inv_init. Qed.

(* ---------------------------------------------------------------------- *)
(* consequences (hold for every interleaving and every setting of [cfg])   *)

Lemma fd_cases f : (sh f = 1 /\ mv f = 0 /\ cl f = 0 /\ f = FShared)
                   \/ (sh f = 0 /\ mv f = 1 /\ cl f = 0 /\ f = FMoved)
                   \/ (sh f = 0 /\ mv f = 0 /\ cl f = 1 /\ f = FClosed).
Proof. destruct f; cbn; tauto. Qed.

Theorem closed_once g ls s :
  steps g init ls = Some s -> closes s <= 1 /\ (closes s = 1 <-> fd s = FClosed).
Proof.
  intros H. apply reachable_inv in H. destruct H as [_ _ _ Hcl _ _ _ _]. rewrite Hcl.
  destruct (fd s); cbn; split; try lia; split; intros; try lia; try reflexivity; discriminate.
Qed.

Lemma quiescent_sums s :
  quiescent s = true ->
  handles s = 0 /\ ops s = 0 /\ sumf ld (droppers s) = 0 /\ sumf hc (closers s) = 0 /\ sumf oc (closers s) = 0.
Proof.
  unfold quiescent. intros H. repeat (apply andb_true_iff in H; destruct H as [H ?]).
  apply Nat.eqb_eq in H. apply Nat.eqb_eq in H2. repeat split; try assumption.
  - eapply sumf_zero_forallb; [|eassumption]. intros d. unfold ld. destruct d; cbn; congruence.
  - eapply sumf_zero_forallb; [|eassumption]. intros x. unfold hc. destruct (pc x); cbn; congruence.
  - eapply sumf_zero_forallb; [|eassumption]. intros x. unfold oc. destruct (pc x); cbn; congruence.
Qed.

Theorem closed_at_quiescence g ls s :
  unpolled_close_drops g = true -> cancelled_close_closes g = true ->
  steps g init ls = Some s -> quiescent s = true -> closes s = 1 /\ fd s = FClosed.
Proof.
  intros Hu Hcc H Hq. apply reachable_inv in H. destruct H as [Hc H0 H1 Hcl Hle Hge Hf Hgo].
  apply quiescent_sums in Hq. destruct Hq as (Hh & Ho & Hd & Hhc & Hoc).
  specialize (Hge Hcc). specialize (Hf Hu).
  destruct (fd_cases (fd s)) as [(A & B & C & E)|[(A & B & C & E)|(A & B & C & E)]]; rewrite Hcl; try lia.
  rewrite E. cbn. split; reflexivity.
Qed.

(* the descriptor has left the Shared (closed, or moved out by try_unwrap)
   only when nobody holds a reference: no handle, no operation in flight, no
   future, no Drop in progress *)
Theorem not_while_in_flight g ls s :
  steps g init ls = Some s -> fd s <> FShared ->
  strong s = 0 /\ ops s = 0 /\ handles s = 0 /\ sumf hc (closers s) = 0 /\ sumf ld (droppers s) = 0.
Proof.
  intros H Hfd. apply reachable_inv in H. destruct H as [Hc H0 H1 Hcl Hle Hge Hf Hgo].
  assert (strong s = 0).
  { destruct (strong s) eqn:E; [reflexivity|]. assert (sh (fd s) = 1) by (apply H1; lia).
    destruct (fd s); cbn in *; try lia. congruence. }
  lia.
Qed.

(* try_unwrap of the closer succeeds exactly when it is the only owner *)
Theorem unwrap_iff_unique g ls s c x :
  steps g init ls = Some s -> nth_error (closers s) c = Some x -> (pc x = CTry1 \/ pc x = CTry2) ->
  exists s' x', step g s (LPoll c) = Some s' /\ nth_error (closers s') c = Some x' /\
    (pc x' = CSome <->
       handles s = 0 /\ ops s = 0 /\ forgotten s = 0 /\ sumf ld (droppers s) = 0 /\ sumf hc (closers s) = 1) /\
    (pc x' = CSome -> fd s' = FMoved /\ strong s' = 0 /\ closes s' = 0) /\
    (pc x' <> CSome -> strong s' = strong s /\ fd s' = fd s /\ (pc x' = CReg \/ pc x' = CPending)).
Proof.
  intros H Hx Hpc. apply reachable_inv in H. destruct H as [Hc H0 H1 Hcl Hle Hge Hf Hgo].
  assert (Hhx : hc x = 1) by (unfold hc; destruct Hpc as [-> | ->]; reflexivity).
  pose proof (sumf_nth_le hc _ _ _ Hx) as Hsum.
  cbn [step]. unfold poll_step. rewrite Hx.
  assert (Hcase : forall fail, (fail = CReg \/ fail = CPending) ->
     exists x', nth_error (closers (try_unwrap s c fail)) c = Some x' /\
       (pc x' = CSome <-> strong s = 1) /\
       (pc x' = CSome -> fd (try_unwrap s c fail) = FMoved /\ strong (try_unwrap s c fail) = 0
                         /\ closes (try_unwrap s c fail) = closes s) /\
       (pc x' <> CSome -> strong (try_unwrap s c fail) = strong s /\ fd (try_unwrap s c fail) = fd s /\ pc x' = fail)).
  { intros fail Hfail. unfold try_unwrap. destruct (strong s =? 1) eqn:E.
    - apply Nat.eqb_eq in E. eexists. cbn [closers]. split; [apply nth_upd_same; exact Hx|].
      cbn [w_pc pc strong fd closes]. repeat split; intros; try tauto; try congruence.
    - apply Nat.eqb_neq in E. eexists. cbn [closers set_closers]. split; [apply nth_upd_same; exact Hx|].
      cbn [w_pc pc strong fd closes set_closers].
      repeat split; intros; try tauto; try congruence; destruct Hfail; subst; try discriminate. }
  assert (Hclz : strong s = 1 -> closes s = 0).
  { intros E. assert (sh (fd s) = 1) by (apply H1; lia). rewrite Hcl. destruct (fd s); cbn in *; lia. }
  destruct Hpc as [Hp | Hp]; rewrite Hp.
  - destruct (Hcase CReg (or_introl eq_refl)) as (x' & A & B & C & D).
    exists (try_unwrap s c CReg), x'. split; [reflexivity|]. split; [exact A|]. split; [|split].
    + rewrite B. lia.
    + intros E. destruct (C E) as (? & ? & ?). rewrite B in E. repeat split; try assumption. rewrite H3. auto.
    + intros E. destruct (D E) as (? & ? & ?). repeat split; auto.
  - destruct (Hcase CPending (or_intror eq_refl)) as (x' & A & B & C & D).
    exists (try_unwrap s c CPending), x'. split; [reflexivity|]. split; [exact A|]. split; [|split].
    + rewrite B. lia.
    + intros E. destruct (C E) as (? & ? & ?). rewrite B in E. repeat split; try assumption. rewrite H3. auto.
    + intros E. destruct (D E) as (? & ? & ?). repeat split; auto.
Qed.

(* at most one take() is ever waiting; every later one finds waits = true,
   returns None and degrades to a release of its reference *)
Definition waitingpc (p : cpc) : bool :=
  match p with CTry1 | CReg | CTry2 | CPending => true | _ => false end.
Definition wp (x : closer) : nat := if waitingpc (pc x) then 1 else 0.

Definition WInv (s : st) : Prop := sumf wp (closers s) <= (if waits s then 1 else 0).

Lemma winv_step g s l s' : WInv s -> step g s l = Some s' -> WInv s'.
Proof.
  unfold WInv. intros HW H.
  destruct l; cbn [step] in H.
  - destruct (handles s); [discriminate|]. inversion H; subst s'. exact HW.
  - destruct (handles s); [discriminate|]. inversion H; subst s'. exact HW.
  - destruct (ops s); [discriminate|]. inversion H; subst s'. exact HW.
  - destruct (handles s); [discriminate|]. inversion H; subst s'. exact HW.
  - unfold drop_step in H. destruct (nth_error (droppers s) i) as [d|]; [|discriminate].
    destruct d; try discriminate; try (inversion H; subst s'; exact HW).
    + inversion H; subst s'. unfold do_wake. destruct (waker s); exact HW.
    + unfold do_dec in H. destruct (strong s) as [|[|n]]; try discriminate.
      * destruct (fd s); try discriminate. inversion H; subst s'. exact HW.
      * inversion H; subst s'. exact HW.
  - destruct (handles s); [discriminate|]. inversion H; subst s'. cbn [closers waits].
    rewrite sumf_app. cbn [sumf]. unfold wp at 2. destruct close; cbn; lia.
  - unfold poll_step in H. destruct (nth_error (closers s) c) as [x|] eqn:Hx; [|discriminate].
    pose proof (sumf_nth_le wp _ _ _ Hx) as Hle.
    destruct (pc x) eqn:Hpc; try discriminate.
    1,2: inversion H; subst s'; unfold first_poll; destruct (waits s) eqn:Hw;
         cbn [closers waits set_closers spawn_drop set_droppers]; upd_facts;
         unfold wp, w_pc in *; cbn [pc] in *; rewrite ?Hpc, ?Hw in *; cbn in *; lia.
    1,3: inversion H; subst s'; unfold try_unwrap; destruct (strong s =? 1);
         cbn [closers waits set_closers]; upd_facts;
         unfold wp, w_pc in *; cbn [pc] in *; rewrite ?Hpc in *; cbn in *; lia.
    1,2: inversion H; subst s'; cbn [closers waits set_closers set_wwoken]; upd_facts;
         unfold wp, w_pc in *; cbn [pc] in *; rewrite ?Hpc in *; cbn in *; lia.
    + destruct (cf x); [|discriminate]. inversion H; subst s'; cbn [closers waits set_closers]; upd_facts;
         unfold wp, w_pc in *; cbn [pc] in *; rewrite ?Hpc in *; cbn in *; lia.
    + inversion H; subst s'. exact HW.
    + inversion H; subst s'; cbn [closers waits set_closers set_wwoken]; upd_facts;
         unfold wp, w_pc in *; cbn [pc] in *; rewrite ?Hpc in *; cbn in *; lia.
  - unfold fut_drop in H. destruct (nth_error (closers s) c) as [x|] eqn:Hx; [|discriminate].
    destruct (pc x) eqn:Hpc; try discriminate.
    + destruct (unpolled_close_drops g); inversion H; subst s';
        cbn [closers waits set_closers spawn_drop set_droppers]; upd_facts;
        unfold wp, w_pc in *; cbn [pc] in *; rewrite ?Hpc in *; cbn in *; lia.
    + inversion H; subst s'; cbn [closers waits set_closers spawn_drop set_droppers]; upd_facts;
        unfold wp, w_pc in *; cbn [pc] in *; rewrite ?Hpc in *; cbn in *; lia.
    + inversion H; subst s'; cbn [closers waits set_closers spawn_drop set_droppers]; upd_facts;
        unfold wp, w_pc in *; cbn [pc] in *; rewrite ?Hpc in *; cbn in *; lia.
    + inversion H; subst s'; cbn [closers waits set_closers]; upd_facts;
        unfold wp, w_pc in *; cbn [pc] in *; rewrite ?Hpc in *; cbn in *; lia.
    + inversion H; subst s'; cbn [closers waits set_closers]; upd_facts;
        unfold wp, w_pc in *; cbn [pc] in *; rewrite ?Hpc in *; cbn in *; lia.
  - destruct (nth_error (closers s) c) as [x|] eqn:Hx; [|discriminate].
    destruct (pc x) eqn:Hpc; try discriminate. destruct (cf x); [discriminate|].
    inversion H; subst s'; unfold close_fd; cbn [closers waits]; upd_facts;
      unfold wp, w_pc in *; cbn [pc] in *; rewrite ?Hpc in *; cbn in *; lia.
  - destruct (nth_error (closers s) c) as [x|] eqn:Hx; [|discriminate].
    destruct (pc x) eqn:Hpc; try discriminate;
    inversion H; subst s'; unfold close_fd; cbn [closers waits]; upd_facts;
      unfold wp, w_pc in *; cbn [pc] in *; rewrite ?Hpc in *; cbn in *; lia.
  - destruct (nth_error (closers s) c) as [x|] eqn:Hx; [|discriminate].
    destruct (pc x) eqn:Hpc; try discriminate.
    destruct (cancelled_close_closes g); inversion H; subst s'; unfold close_fd; cbn [closers waits set_closers]; upd_facts;
      unfold wp, w_pc in *; cbn [pc] in *; rewrite ?Hpc in *; cbn in *; lia.
  - destruct (handles s); [discriminate|]. destruct (strong s =? 1); inversion H; subst s'; [|exact HW].
    cbn [closers waits]. rewrite sumf_app. cbn. lia.
Qed.

Lemma winv_steps g ls : forall s s', WInv s -> steps g s ls = Some s' -> WInv s'.
Proof.
  induction ls as [|l r IH]; cbn [steps]; intros s s' HI H.
  - inversion H; subst; exact HI.
  - destruct (step g s l) as [s1|] eqn:E; [|discriminate]. eapply IH; [|exact H]. eapply winv_step; eauto.
Qed.

Theorem single_waiter g ls s :
  steps g init ls = Some s ->
  sumf wp (closers s) <= 1 /\ (1 <= sumf wp (closers s) -> waits s = true).
Proof.
  intros H. assert (HW : WInv s) by (eapply winv_steps; [|exact H]; unfold WInv; cbn; lia).
  unfold WInv in HW. destruct (waits s); split; intros; try lia; reflexivity.
Qed.

Theorem second_closer_none g s c x :
  nth_error (closers s) c = Some x -> (pc x = CCreated \/ pc x = CUnpolled) -> waits s = true ->
  exists s' x', step g s (LPoll c) = Some s' /\ nth_error (closers s') c = Some x' /\ pc x' = CGone /\
    droppers s' = droppers s ++ [if closer_release_wakes g then DCount else DDec] /\
    strong s' = strong s /\ fd s' = fd s /\ closes s' = closes s.
Proof.
  intros Hx Hpc Hw. cbn [step]. unfold poll_step. rewrite Hx.
  assert (E : (match pc x with
               | CUnpolled | CCreated => Some (first_poll g s c)
               | CTry1 => Some (try_unwrap s c CReg)
               | CReg => Some (mk_st (strong s) (waits s) true (wwoken s) (fd s) (closes s) (handles s) (ops s) (forgotten s)
                                     (upd (closers s) c (w_pc CTry2)) (droppers s))
               | CTry2 => Some (try_unwrap s c CPending)
               | CPending => Some (set_wwoken (set_closers s (upd (closers s) c (w_pc CTry1))) false)
               | CSome => if cf x then Some (set_closers s (upd (closers s) c (w_pc CClosing))) else None
               | CClosing => Some (set_wwoken s false)
               | CClosed => Some (set_wwoken (set_closers s (upd (closers s) c (w_pc CDone))) false)
               | _ => None
               end) = Some (first_poll g s c)) by (destruct Hpc as [-> | ->]; reflexivity).
  rewrite E. unfold first_poll. rewrite Hw.
  eexists. eexists. split; [reflexivity|].
  cbn [closers droppers strong fd closes spawn_drop set_droppers set_closers].
  split; [apply nth_upd_same; exact Hx|]. cbn [w_pc pc].
  destruct (closer_release_wakes g); cbn [negb]; repeat split; reflexivity.
Qed.

(* ---------------------------------------------------------------------- *)
(* the unsync scheduler                                                    *)

Lemma saturate_steps g k l : forall s, exists ls, steps g s ls = Some (saturate g k l s).
Proof.
  induction k as [|k IH]; intros s; cbn [saturate].
  - exists []. reflexivity.
  - destruct (step g s l) as [s1|] eqn:E.
    + destruct (IH s1) as [ls H]. exists (l :: ls). cbn [steps]. rewrite E. exact H.
    + exists []. reflexivity.
Qed.

Lemma poll_run_steps g k c : forall s, exists ls, steps g s ls = Some (poll_run g k c s).
Proof.
  induction k as [|k IH]; intros s; cbn [poll_run].
  - exists []. reflexivity.
  - destruct (step g s (LPoll c)) as [s1|] eqn:E; [|exists []; reflexivity].
    destruct (nth_error (closers s1) c) as [x|].
    + destruct (returns x).
      * exists [LPoll c]. cbn [steps]. rewrite E. reflexivity.
      * destruct (IH s1) as [ls H]. exists (LPoll c :: ls). cbn [steps]. rewrite E. exact H.
    + exists [LPoll c]. cbn [steps]. rewrite E. reflexivity.
Qed.

Lemma steps_app g l1 : forall s s1 l2 s2,
  steps g s l1 = Some s1 -> steps g s1 l2 = Some s2 -> steps g s (l1 ++ l2) = Some s2.
Proof.
  induction l1 as [|l r IH]; cbn [steps app]; intros s s1 l2 s2 H1 H2.
  - inversion H1; subst. exact H2.
  - destruct (step g s l); [|discriminate]. eapply IH; eauto.
Qed.

(* every run of the unsync scheduler is a run of the fine-grained relation *)
Lemma ustep_steps g s l s' : ustep g s l = Some s' -> exists ls, steps g s ls = Some s'.
Proof.
  assert (Hfin : forall lab s1, step g s lab = Some s1 ->
                 exists ls, steps g s ls = Some (finish_drops g s1)).
  { intros lab s1 H1. destruct (saturate_steps g 4 (LDrop (length (droppers s1) - 1)) s1) as [ls Hls].
    exists (lab :: ls). cbn [steps]. rewrite H1. exact Hls. }
  assert (Hone : forall lab, step g s lab = Some s' -> exists ls, steps g s ls = Some s').
  { intros lab H1. exists [lab]. cbn [steps]. rewrite H1. reflexivity. }
  destruct l; cbn [ustep]; intros H; eauto.
  - destruct (step g s LOpFinish) as [s1|] eqn:E; [|discriminate]. inversion H; subst. eauto.
  - destruct (step g s LDropHandle) as [s1|] eqn:E; [|discriminate]. inversion H; subst. eauto.
  - destruct (pollable s c); [|discriminate]. inversion H; subst.
    destruct (poll_run_steps g 6 c s) as [l1 H1].
    destruct (saturate_steps g 4 (LDrop (length (droppers (poll_run g 6 c s)) - 1)) (poll_run g 6 c s)) as [l2 H2].
    exists (l1 ++ l2). eapply steps_app; eauto.
  - destruct (step g s (LFutDrop c)) as [s1|] eqn:E; [|discriminate]. inversion H; subst. eauto.
Qed.

Lemma usteps_steps g ls : forall s s', usteps g s ls = Some s' -> exists fs, steps g s fs = Some s'.
Proof.
  induction ls as [|l r IH]; cbn [usteps]; intros s s' H.
  - inversion H; subst. exists []. reflexivity.
  - destruct (ustep g s l) as [s1|] eqn:E; [|discriminate].
    destruct (ustep_steps _ _ _ _ E) as [l1 H1]. destruct (IH _ _ H) as [l2 H2].
    exists (l1 ++ l2). eapply steps_app; eauto.
Qed.

(* a Drop for SharedFd run to its end *)
Ltac dnorm :=
  unfold set_droppers;
  cbn [strong waits waker wwoken fd closes handles ops forgotten closers droppers];
  rewrite ?upd_last.
Ltac dstep :=
  unfold drop_step at 1; cbn [droppers]; rewrite nth_last; dnorm.

Lemma drop_run g n w wk ww f c h o fg cs ds :
  1 <= n -> (n = 1 -> f = FShared) ->
  finish_drops g (mk_st n w wk ww f c h o fg cs (ds ++ [DCount])) =
  mk_st (n - 1) w (if (n =? 2) && w then false else wk) (if (n =? 2) && w then ww || wk else ww)
        (if n =? 1 then FClosed else f) (if n =? 1 then S c else c) h o fg cs (ds ++ [DDone]).
Proof.
  intros Hn Hf. unfold finish_drops. cbn [droppers]. rewrite app_length. cbn [length].
  replace (length ds + 1 - 1) with (length ds) by lia.
  cbn [saturate step]. dstep.
  destruct (n =? 2) eqn:E2.
  - apply Nat.eqb_eq in E2. subst n. cbn [andb]. dstep.
    destruct w.
    + dstep. unfold do_wake. cbn [waker].
      destruct wk; dnorm; dstep; unfold do_dec; dnorm; cbn [Nat.eqb Nat.sub];
        rewrite ?orb_true_r, ?orb_false_r; reflexivity.
    + dstep. unfold do_dec. dnorm. unfold drop_step. cbn [droppers]. rewrite nth_last.
      cbn [Nat.eqb Nat.sub]. reflexivity.
  - cbn [andb]. dstep. unfold do_dec. cbn [strong fd].
    destruct n as [|[|n]]; [lia| |].
    + rewrite (Hf eq_refl). dnorm. unfold drop_step. cbn [droppers]. rewrite nth_last. reflexivity.
    + dnorm. unfold drop_step. cbn [droppers]. rewrite nth_last.
      cbn [Nat.eqb Nat.sub] in *. destruct n; [discriminate|]. reflexivity.
Qed.

Definition nd (d : dpc) : bool := negb (dlive d).

Lemma all_done_last ds :
  forallb nd ds = true -> ds = [] \/ exists ds', ds = ds' ++ [DDone].
Proof.
  induction ds as [|a l _] using rev_ind; [left; reflexivity|].
  intros H. rewrite forallb_app in H. apply andb_true_iff in H. destruct H as [_ H].
  cbn in H. right. exists l. destruct a; cbn in H; try discriminate. reflexivity.
Qed.

Lemma finish_drops_idle g s : forallb nd (droppers s) = true -> finish_drops g s = s.
Proof.
  intros H. unfold finish_drops. destruct (all_done_last _ H) as [E | [ds E]]; rewrite E.
  - cbn [length Nat.sub saturate step]. unfold drop_step. rewrite E. reflexivity.
  - rewrite app_length. cbn [length]. replace (length ds + 1 - 1) with (length ds) by lia.
    cbn [saturate step]. unfold drop_step. rewrite E, nth_last. reflexivity.
Qed.

Lemma upd_upd {A} (l : list A) k f g : upd (upd l k f) k g = upd l k (fun x => g (f x)).
Proof.
  destruct (nth_error l k) as [x|] eqn:Hk.
  - apply nth_error_split in Hk. destruct Hk as (l1 & l2 & -> & <-). rewrite !upd_split. reflexivity.
  - rewrite (upd_none l k f Hk), (upd_none l k g Hk), (upd_none l k _ Hk). reflexivity.
Qed.

Lemma upd_const {A} (l : list A) k F x : nth_error l k = Some x -> upd l k F = upd l k (fun _ => F x).
Proof. intros H. unfold upd. rewrite H. reflexivity. Qed.

(* one poll of closer c up to its return, in closed form *)
Definition poll_tail (s : st) (c : nat) (x : closer) (wt ww' wi : bool) : st :=
  if strong s =? 1 then
    mk_st 0 wt (waker s) ww' FMoved (closes s) (handles s) (ops s) (forgotten s)
          (upd (closers s) c (fun _ => mk_closer (if cf x then CClosing else CSome) (cf x) wi)) (droppers s)
  else
    mk_st (strong s) wt true ww' (fd s) (closes s) (handles s) (ops s) (forgotten s)
          (upd (closers s) c (fun _ => mk_closer CPending (cf x) wi)) (droppers s).

Definition poll_result (g : cfg) (s : st) (c : nat) (x : closer) : st :=
  match pc x with
  | CUnpolled | CCreated =>
    if waits s then
      spawn_drop (negb (closer_release_wakes g))
                 (set_closers s (upd (closers s) c (fun _ => mk_closer CGone (cf x) (winner x))))
    else poll_tail s c x true false true
  | CPending => poll_tail s c x (waits s) false (winner x)
  | CClosing => set_wwoken s false
  | CClosed => set_wwoken (set_closers s (upd (closers s) c (fun _ => mk_closer CDone (cf x) (winner x)))) false
  | _ => s
  end.

Ltac pnorm :=
  unfold set_closers, set_wwoken, spawn_drop, set_droppers, try_unwrap, first_poll, w_pc;
  cbn [strong waits waker wwoken fd closes handles ops forgotten closers droppers pc cf winner].

(* execute one LPoll step of closer c whose entry is known through Hx *)
Ltac pstep Hx :=
  cbn [poll_run step]; unfold poll_step at 1; cbn [closers];
  first [rewrite (nth_upd_same _ _ _ _ Hx) | rewrite Hx];
  cbn [pc cf winner]; pnorm; rewrite ?upd_upd; cbn [pc cf winner].

(* look at the closer after the step: does the poll return? *)
Ltac pret Hx :=
  cbn [closers]; first [rewrite (nth_upd_same _ _ _ _ Hx) | rewrite Hx];
  unfold returns; cbn [pc cf winner negb].

Lemma poll_tail_run g k n w w0 wk ww ww0 f cl h o fg cs dr c x wi :
  nth_error cs c = Some x ->
  poll_run g (S (S (S (S k)))) c
    (mk_st n w wk ww f cl h o fg (upd cs c (fun _ => mk_closer CTry1 (cf x) wi)) dr) =
  poll_tail (mk_st n w0 wk ww0 f cl h o fg cs dr) c x w ww wi.
Proof.
  intros Hx. unfold poll_tail. cbn [strong waits waker wwoken fd closes handles ops forgotten closers droppers].
  pstep Hx. destruct (n =? 1) eqn:E.
  - pnorm. rewrite ?upd_upd. pret Hx.
    destruct (cf x) eqn:Ecf; cbn [negb].
    + pstep Hx. pret Hx. reflexivity.
    + reflexivity.
  - pnorm. rewrite ?upd_upd. pret Hx.
    pstep Hx. pret Hx.
    pstep Hx. rewrite E. pnorm. rewrite ?upd_upd. pret Hx. reflexivity.
Qed.

Lemma poll_run_spec g s c x :
  nth_error (closers s) c = Some x -> pollable s c = true ->
  poll_run g 6 c s = poll_result g s c x.
Proof.
  intros Hx Hp. unfold pollable in Hp. rewrite Hx in Hp.
  destruct s as [n w wk ww f cl h o fg cs dr]. cbn [closers] in Hx.
  unfold poll_result. cbn [strong waits waker wwoken fd closes handles ops forgotten closers droppers].
  destruct (pc x) eqn:Hpc; try discriminate.
  - (* CUnpolled *)
    pstep Hx. rewrite Hpc. pnorm. destruct w.
    + pnorm. pret Hx. rewrite (upd_const _ _ _ _ Hx). reflexivity.
    + pnorm. pret Hx. rewrite (upd_const _ _ _ _ Hx). apply (poll_tail_run g 1). exact Hx.
  - (* CCreated *)
    pstep Hx. rewrite Hpc. pnorm. destruct w.
    + pnorm. pret Hx. rewrite (upd_const _ _ _ _ Hx). reflexivity.
    + pnorm. pret Hx. rewrite (upd_const _ _ _ _ Hx). apply (poll_tail_run g 1). exact Hx.
  - (* CPending *)
    pstep Hx. rewrite Hpc. pnorm. pret Hx.
    rewrite (upd_const _ _ _ _ Hx). apply (poll_tail_run g 1). exact Hx.
  - (* CClosing *)
    pstep Hx. rewrite Hpc. pnorm. pret Hx. rewrite Hpc. reflexivity.
  - (* CClosed *)
    pstep Hx. rewrite Hpc. pnorm. pret Hx.
    rewrite (upd_const _ _ _ _ Hx). reflexivity.
Qed.

(* ---- the waiting closer is woken (unsync scheduler) -------------------- *)

Lemma np_le_hc x : np x <= hc x.
Proof. unfold np, hc. destruct (pc x); cbn; lia. Qed.
Lemma np_le_wp x : np x <= wp x.
Proof. unfold np, wp. destruct (pc x); cbn; lia. Qed.

Lemma strong0_no_pending g s : Inv g s -> strong s = 0 -> sumf np (closers s) = 0.
Proof.
  intros [Hc _ _ _ _ _ _ _] H0. pose proof (sumf_le np hc (closers s) np_le_hc). lia.
Qed.

Lemma pending_waits s : WInv s -> 1 <= sumf np (closers s) -> waits s = true.
Proof.
  unfold WInv. intros HW H. pose proof (sumf_le np wp (closers s) np_le_wp).
  destruct (waits s); [reflexivity|lia].
Qed.

Record UInv (g : cfg) (s : st) : Prop := mkU {
  u_inv : Inv g s;
  u_w : WInv s;
  u_done : forallb nd (droppers s) = true;
  u_reg : 1 <= sumf np (closers s) -> waker s = true \/ wwoken s = true;
  u_woken : 1 <= sumf np (closers s) -> strong s = 1 -> wwoken s = true
}.

Lemma uinv_init g : UInv g init.
Proof. constructor; [apply inv_init|unfold WInv; cbn; lia|reflexivity|cbn; lia|cbn; lia]. Qed.

(* the post-state of a macro step whose Shared is gone satisfies the wake part trivially *)
Lemma uinv_strong0 g s :
  Inv g s -> WInv s -> forallb nd (droppers s) = true -> strong s = 0 -> UInv g s.
Proof.
  intros HI HW Hd H0. pose proof (strong0_no_pending g s HI H0).
  constructor; auto; intros; lia.
Qed.

Lemma drop_fin_U g s1 ds :
  droppers s1 = ds ++ [DCount] -> forallb nd ds = true -> Inv g s1 -> WInv s1 ->
  (1 <= sumf np (closers s1) -> waker s1 = true \/ wwoken s1 = true) ->
  forallb nd (droppers (finish_drops g s1)) = true /\
  (1 <= sumf np (closers (finish_drops g s1)) ->
     waker (finish_drops g s1) = true \/ wwoken (finish_drops g s1) = true) /\
  (1 <= sumf np (closers (finish_drops g s1)) -> strong (finish_drops g s1) = 1 ->
     wwoken (finish_drops g s1) = true).
Proof.
  intros Hdr Hds HI HW Hreg.
  pose proof (pending_waits s1 HW) as Hwaits.
  destruct HI as [Hc H0 H1 Hcl Hle Hge Hf Hgo].
  destruct s1 as [n w wk ww f c h o fg cs dr]. cbn [droppers] in Hdr. subst dr.
  cbn [strong waits waker wwoken fd closes handles ops forgotten closers droppers] in *.
  rewrite sumf_app in Hc. cbn in Hc.
  assert (Hn : 1 <= n) by lia.
  assert (Hfd : n = 1 -> f = FShared).
  { intros E. assert (sh f = 1) by (apply H1; lia). destruct f; cbn in *; try lia. reflexivity. }
  clear Hc H0 H1 Hgo.
  rewrite (drop_run g n w wk ww f c h o fg cs ds Hn Hfd).
  cbn [strong waits waker wwoken fd closes handles ops forgotten closers droppers].
  split; [|split].
  - rewrite forallb_app, Hds. reflexivity.
  - intros Hp. specialize (Hreg Hp). specialize (Hwaits Hp). subst w.
    destruct (n =? 2); cbn [andb]; [|exact Hreg].
    right. destruct Hreg as [-> | ->]; [apply orb_true_r|reflexivity].
  - intros Hp E. specialize (Hreg Hp). specialize (Hwaits Hp). subst w.
    assert (n = 2) by lia. subst n. cbn [Nat.eqb andb].
    destruct Hreg as [-> | ->]; [apply orb_true_r|reflexivity].
Qed.

Lemma ustep_inv g s l s' : Inv g s -> ustep g s l = Some s' -> Inv g s'.
Proof. intros HI H. destruct (ustep_steps _ _ _ _ H) as [ls Hls]. eapply steps_inv; eauto. Qed.
Lemma ustep_winv g s l s' : WInv s -> ustep g s l = Some s' -> WInv s'.
Proof. intros HI H. destruct (ustep_steps _ _ _ _ H) as [ls Hls]. eapply winv_steps; eauto. Qed.

Lemma nd_app_count ds : forallb nd ds = true -> forallb nd (ds ++ [DCount]) = false.
Proof. intros H. rewrite forallb_app, H. reflexivity. Qed.

(* a macro step = fine step [lab] that starts a Drop for SharedFd, run to its end *)
Lemma spawned_U g s lab s1 :
  UInv g s -> step g s lab = Some s1 ->
  droppers s1 = droppers s ++ [DCount] ->
  waker s1 = waker s -> wwoken s1 = wwoken s -> sumf np (closers s1) <= sumf np (closers s) ->
  Inv g (finish_drops g s1) -> WInv (finish_drops g s1) ->
  UInv g (finish_drops g s1).
Proof.
  intros [HI HW Hd Hreg Hwok] Hstep Hdr Hwk Hww Hnp HI' HW'.
  assert (HI1 : Inv g s1) by exact (step_inv g s lab s1 HI Hstep).
  assert (HW1 : WInv s1) by exact (winv_step g s lab s1 HW Hstep).
  assert (Hpre : 1 <= sumf np (closers s1) -> waker s1 = true \/ wwoken s1 = true).
  { intros Hp. rewrite Hwk, Hww. apply Hreg. lia. }
  destruct (drop_fin_U g s1 (droppers s) Hdr Hd HI1 HW1 Hpre) as (A & B & C).
  constructor; assumption.
Qed.

Lemma ustep_poll_eq g s c :
  ustep g s (UPoll c) = if pollable s c then Some (finish_drops g (poll_run g 6 c s)) else None.
Proof. reflexivity. Qed.

Theorem ustep_uinv g s l s' :
  closer_release_wakes g = true -> UInv g s -> ustep g s l = Some s' -> UInv g s'.
Proof.
  intros Hflag HU H.
  assert (HI' : Inv g s') by (eapply ustep_inv; [apply HU|exact H]).
  assert (HW' : WInv s') by (eapply ustep_winv; [apply HU|exact H]).
  pose proof HU as [HI HW Hd Hreg Hwok].
  pose proof HI as [Hc H0 H1 Hcl Hle Hge Hf Hgo].
  destruct l;
    match type of H with
    | ustep _ _ (UPoll _) = _ => rewrite ustep_poll_eq in H
    | _ => unfold ustep in H
    end.
  - (* clone *)
    cbn [step] in H. destruct (handles s) eqn:Hh; [discriminate|]. inversion H; subst s'.
    constructor; auto; cbn [strong waker wwoken closers]; intros; auto. lia.
  - (* op start *)
    cbn [step] in H. destruct (handles s) eqn:Hh; [discriminate|]. inversion H; subst s'.
    constructor; auto; cbn [strong waker wwoken closers]; intros; auto. lia.
  - (* op finish *)
    destruct (step g s LOpFinish) as [s1|] eqn:E; [|discriminate]. inversion H; subst s'.
    eapply spawned_U; eauto; cbn [step] in E; destruct (ops s); try discriminate; inversion E; subst s1;
      cbn; auto.
  - (* drop handle *)
    destruct (step g s LDropHandle) as [s1|] eqn:E; [|discriminate]. inversion H; subst s'.
    eapply spawned_U; eauto; cbn [step] in E; destruct (handles s); try discriminate; inversion E; subst s1;
      cbn; auto.
  - (* take *)
    cbn [step] in H. destruct (handles s) eqn:Hh; [discriminate|]. inversion H; subst s'.
    constructor; auto; cbn [strong waker wwoken closers droppers] in *; rewrite sumf_app;
      destruct close; cbn; rewrite ?Nat.add_0_r; auto.
  - (* poll *)
    destruct (pollable s c) eqn:Hp; [|discriminate].
    assert (Es : finish_drops g (poll_run g 6 c s) = s') by (clear - H; congruence).
    clear H. subst s'.
    pose proof Hp as Hp'. unfold pollable in Hp'.
    destruct (nth_error (closers s) c) as [x|] eqn:Hx; [|discriminate].
    rewrite (poll_run_spec g s c x Hx Hp) in *.
    assert (Hstepc : exists s1, step g s (LPoll c) = Some s1).
    { cbn [step]. unfold poll_step. rewrite Hx. destruct (pc x); try discriminate; eauto. }
    unfold poll_result in *.
    assert (Htail : forall wt ww' wi,
              Inv g (finish_drops g (poll_tail s c x wt ww' wi)) ->
              WInv (finish_drops g (poll_tail s c x wt ww' wi)) ->
              np x = 0 \/ ww' = false ->
              UInv g (finish_drops g (poll_tail s c x wt ww' wi))).
    { intros wt ww' wi. unfold poll_tail. destruct (strong s =? 1) eqn:E1.
      - rewrite finish_drops_idle by exact Hd. intros A B _. apply uinv_strong0; auto.
      - rewrite finish_drops_idle by exact Hd. intros A B Hx0. apply Nat.eqb_neq in E1.
        constructor; auto; cbn [strong waker wwoken closers]; intros; try (left; reflexivity); try lia. }
    destruct (pc x) eqn:Hpc; try discriminate.
    + (* CUnpolled *)
      destruct (waits s) eqn:Ewt.
      * rewrite Hflag in *. cbn [negb] in *.
        destruct Hstepc as [s1 Hs1]. pose proof Hs1 as Hs1'. cbn [step] in Hs1'. unfold poll_step in Hs1'.
        rewrite Hx, Hpc in Hs1'. unfold first_poll in Hs1'. rewrite Ewt, Hflag in Hs1'. cbn [negb] in Hs1'.
        rewrite (upd_const _ _ _ _ Hx) in Hs1'. unfold w_pc in Hs1'. inversion Hs1'. clear Hs1'.
        rewrite H2 in *.
        eapply spawned_U; eauto; subst s1; cbn [droppers waker wwoken closers spawn_drop set_droppers set_closers]; auto.
        pose proof (sumf_upd np (fun _ => mk_closer CGone (cf x) (winner x)) _ _ _ Hx) as Hs.
        unfold np in *. rewrite Hpc in Hs. cbn in Hs. lia.
      * apply Htail; auto.
    + (* CCreated *)
      destruct (waits s) eqn:Ewt.
      * rewrite Hflag in *. cbn [negb] in *.
        destruct Hstepc as [s1 Hs1]. pose proof Hs1 as Hs1'. cbn [step] in Hs1'. unfold poll_step in Hs1'.
        rewrite Hx, Hpc in Hs1'. unfold first_poll in Hs1'. rewrite Ewt, Hflag in Hs1'. cbn [negb] in Hs1'.
        rewrite (upd_const _ _ _ _ Hx) in Hs1'. unfold w_pc in Hs1'. inversion Hs1'. clear Hs1'.
        rewrite H2 in *.
        eapply spawned_U; eauto; subst s1; cbn [droppers waker wwoken closers spawn_drop set_droppers set_closers]; auto.
        pose proof (sumf_upd np (fun _ => mk_closer CGone (cf x) (winner x)) _ _ _ Hx) as Hs.
        unfold np in *. rewrite Hpc in Hs. cbn in Hs. lia.
      * apply Htail; auto.
    + (* CPending *)
      apply Htail; auto.
    + (* CClosing *)
      rewrite finish_drops_idle in * by exact Hd.
      assert (strong s = 0).
      { apply Hgo. pose proof (sumf_nth_le gp _ _ _ Hx) as Hg. unfold gp in Hg at 1. rewrite Hpc in Hg. exact Hg. }
      apply uinv_strong0; auto.
    + (* CClosed *)
      rewrite finish_drops_idle in * by exact Hd.
      assert (strong s = 0).
      { apply Hgo. pose proof (sumf_nth_le gp _ _ _ Hx) as Hg. unfold gp in Hg at 1. rewrite Hpc in Hg. exact Hg. }
      apply uinv_strong0; auto.
  - (* future dropped *)
    destruct (step g s (LFutDrop c)) as [s1|] eqn:E; [|discriminate]. inversion H; subst s'. clear H.
    pose proof E as E'. cbn [step] in E'. unfold fut_drop in E'.
    destruct (nth_error (closers s) c) as [x|] eqn:Hx; [|discriminate].
    assert (Hnpx : forall p, sumf np (upd (closers s) c (w_pc p)) <= sumf np (closers s) + (if is_pending p then 1 else 0)).
    { intros p. pose proof (sumf_upd np (w_pc p) _ _ _ Hx) as Hs.
      assert (np (w_pc p x) = if is_pending p then 1 else 0) by reflexivity. lia. }
    destruct (pc x) eqn:Hpc; try discriminate.
    + (* CUnpolled *)
      destruct (unpolled_close_drops g) eqn:Eu.
      * inversion E'. rewrite H2 in *.
        eapply spawned_U; eauto; subst s1; cbn [droppers waker wwoken closers spawn_drop set_droppers set_closers]; auto.
        specialize (Hnpx CGone). cbn in Hnpx. lia.
      * inversion E'. rewrite H2 in *. rewrite finish_drops_idle in * by (subst s1; exact Hd).
        subst s1. specialize (Hnpx CGone). cbn in Hnpx.
        constructor; auto; cbn [strong waker wwoken closers set_closers] in *; intros;
          [apply Hreg; lia|apply Hwok; [lia|assumption]].
    + (* CCreated *)
      rewrite Hflag in E'. cbn [negb] in E'. inversion E'. rewrite H2 in *.
      eapply spawned_U; eauto; subst s1; cbn [droppers waker wwoken closers spawn_drop set_droppers set_closers]; auto.
      specialize (Hnpx CGone). cbn in Hnpx. lia.
    + (* CPending *)
      rewrite Hflag in E'. cbn [negb] in E'. inversion E'. rewrite H2 in *.
      eapply spawned_U; eauto; subst s1; cbn [droppers waker wwoken closers spawn_drop set_droppers set_closers]; auto.
      specialize (Hnpx CGone). cbn in Hnpx. lia.
    + (* CClosing *)
      inversion E'. rewrite H2 in *. rewrite finish_drops_idle in * by (subst s1; exact Hd).
      subst s1. specialize (Hnpx CCancelled). cbn in Hnpx.
      constructor; auto; cbn [strong waker wwoken closers set_closers] in *; intros;
        [apply Hreg; lia|apply Hwok; [lia|assumption]].
    + (* CClosed *)
      inversion E'. rewrite H2 in *. rewrite finish_drops_idle in * by (subst s1; exact Hd).
      subst s1. specialize (Hnpx CDone). cbn in Hnpx.
      constructor; auto; cbn [strong waker wwoken closers set_closers] in *; intros;
        [apply Hreg; lia|apply Hwok; [lia|assumption]].
  - (* owner drop *)
    cbn [step] in H. destruct (nth_error (closers s) c) as [x|] eqn:Hx; [|discriminate].
    destruct (pc x) eqn:Hpc; try discriminate. destruct (cf x); [discriminate|]. inversion H; subst s'.
    assert (strong s = 0).
    { apply Hgo. pose proof (sumf_nth_le gp _ _ _ Hx) as Hg. unfold gp in Hg at 1. rewrite Hpc in Hg. exact Hg. }
    apply uinv_strong0; auto.
  - (* close op runs *)
    cbn [step] in H. destruct (nth_error (closers s) c) as [x|] eqn:Hx; [|discriminate].
    assert (Hs0 : gonepc (pc x) = true -> strong s = 0).
    { intros Eg. apply Hgo. pose proof (sumf_nth_le gp _ _ _ Hx) as Hg. unfold gp in Hg at 1. rewrite Eg in Hg. exact Hg. }
    destruct (pc x) eqn:Hpc; try discriminate; inversion H; subst s'; apply uinv_strong0; auto; apply Hs0; reflexivity.
  - (* close op cancelled *)
    cbn [step] in H. destruct (nth_error (closers s) c) as [x|] eqn:Hx; [|discriminate].
    assert (Hs0 : gonepc (pc x) = true -> strong s = 0).
    { intros Eg. apply Hgo. pose proof (sumf_nth_le gp _ _ _ Hx) as Hg. unfold gp in Hg at 1. rewrite Eg in Hg. exact Hg. }
    destruct (pc x) eqn:Hpc; try discriminate.
    destruct (cancelled_close_closes g); inversion H; subst s'; apply uinv_strong0; auto; apply Hs0; reflexivity.
  - (* try_unwrap *)
    cbn [step] in H. destruct (handles s) eqn:Hh; [discriminate|].
    destruct (strong s =? 1) eqn:E1; inversion H; subst s'; [|exact HU].
    apply uinv_strong0; auto.
Qed.

Lemma usteps_uinv g ls : forall s s',
  closer_release_wakes g = true -> UInv g s -> usteps g s ls = Some s' -> UInv g s'.
Proof.
  induction ls as [|l r IH]; cbn [usteps]; intros s s' Hf HU H.
  - inversion H; subst; exact HU.
  - destruct (ustep g s l) as [s1|] eqn:E; [|discriminate]. eapply IH; [exact Hf| |exact H].
    eapply ustep_uinv; eauto.
Qed.

Lemma reachable_uinv g ls s :
  closer_release_wakes g = true -> usteps g init ls = Some s -> UInv g s.
Proof. intros Hf H. eapply usteps_uinv; [exact Hf|apply uinv_init|exact H]. Qed.

Lemma pending_count s :
  existsb (fun x => is_pending (pc x)) (closers s) = true -> 1 <= sumf np (closers s).
Proof.
  apply sumf_pos_existsb. intros x Hx. unfold np. rewrite Hx. lia.
Qed.

(* unsync: once the waiting closer is the only owner its wake-up is pending *)
Theorem closer_woken g ls s :
  closer_release_wakes g = true -> usteps g init ls = Some s ->
  existsb (fun x => is_pending (pc x)) (closers s) = true -> strong s = 1 -> wwoken s = true.
Proof.
  intros Hf H Hp E. destruct (reachable_uinv g ls s Hf H) as [_ _ _ _ Hw].
  apply Hw; [apply pending_count; exact Hp|exact E].
Qed.

Theorem never_stranded g ls s :
  closer_release_wakes g = true -> usteps g init ls = Some s -> stranded s = false.
Proof.
  intros Hf H. destruct (stranded s) eqn:E; [|reflexivity]. unfold stranded in E.
  repeat (apply andb_true_iff in E; destruct E as [E ?]).
  apply Nat.eqb_eq in H3. rewrite (closer_woken g ls s Hf H E H3) in H4. discriminate.
Qed.

(* ... and the poll that follows obtains the descriptor *)
Theorem unique_poll_ready g ls s c x :
  closer_release_wakes g = true -> usteps g init ls = Some s ->
  nth_error (closers s) c = Some x -> pc x = CPending -> strong s = 1 ->
  exists s' x', ustep g s (UPoll c) = Some s' /\ nth_error (closers s') c = Some x' /\
                pc x' = (if cf x then CClosing else CSome) /\ fd s' = FMoved /\ strong s' = 0 /\
                closes s' = 0.
Proof.
  intros Hf H Hx Hpc E. destruct (reachable_uinv g ls s Hf H) as [HI _ Hd _ _].
  assert (Hp : pollable s c = true) by (unfold pollable; rewrite Hx, Hpc; reflexivity).
  rewrite ustep_poll_eq, Hp. rewrite (poll_run_spec g s c x Hx Hp).
  unfold poll_result. rewrite Hpc. unfold poll_tail. rewrite E. cbn [Nat.eqb].
  rewrite finish_drops_idle by exact Hd.
  eexists. eexists. split; [reflexivity|]. cbn [closers fd strong closes].
  split; [apply nth_upd_same; exact Hx|]. cbn [pc]. repeat split.
  destruct HI as [_ _ H1 Hcl _ _ _ _]. assert (sh (fd s) = 1) by (apply H1; lia).
  rewrite Hcl. destruct (fd s); cbn in *; lia.
Qed.

(* never forgotten (the handle inside an unpolled close() future is dropped) *)
Theorem never_forgotten g ls s :
  unpolled_close_drops g = true -> steps g init ls = Some s -> forgotten s = 0.
Proof. intros Hu H. apply reachable_inv in H. destruct H. auto. Qed.

(* ---------------------------------------------------------------------- *)
(* Part 2: descriptor-producing operations, by exhaustive reflection        *)

Definition allb (f : bool -> bool) : bool := f true && f false.
Lemma allb_spec f : allb f = true -> forall b, f b = true.
Proof. unfold allb. intros H b. apply andb_true_iff in H. destruct H, b; assumption. Qed.

Definition all_pf (f : pfut -> bool) : bool := f PIdle && f PSubmitted && f PDropped && f PTaken.
Lemma all_pf_spec f : all_pf f = true -> forall x, f x = true.
Proof. unfold all_pf. intros H x. repeat (apply andb_true_iff in H; destruct H as [H ?]). destruct x; assumption. Qed.

Definition all_pk (f : pkern -> bool) : bool :=
  f KNone && f KQueued && f KInFlight && f KDoneOk && f KDoneErr && f KReaped.
Lemma all_pk_spec f : all_pk f = true -> forall x, f x = true.
Proof. unfold all_pk. intros H x. repeat (apply andb_true_iff in H; destruct H as [H ?]). destruct x; assumption. Qed.

Definition all_pd (f : pfd -> bool) : bool :=
  f PNone && f PKernel && f POp && f PCaller && f PClosed && f PLost.
Lemma all_pd_spec f : all_pd f = true -> forall x, f x = true.
Proof. unfold all_pd. intros H x. repeat (apply andb_true_iff in H; destruct H as [H ?]). destruct x; assumption. Qed.

Definition all_pl (f : plabel -> bool) : bool :=
  f PPoll && f PFutDrop && f PReady && f PDrive && f PCallerDrop && f PDriverDrop.
Lemma all_pl_spec f : all_pl f = true -> forall x, f x = true.
Proof. unfold all_pl. intros H x. repeat (apply andb_true_iff in H; destruct H as [H ?]). destruct x; assumption. Qed.

Definition all_pst (f : pst -> bool) : bool :=
  allb (fun a => allb (fun b => all_pf (fun c => all_pk (fun d => all_pd (fun e =>
  allb (fun r => allb (fun q => allb (fun u => allb (fun v => allb (fun w =>
    f (mk_pst a b c d e r q u v w))))))))))).
Lemma all_pst_spec f : all_pst f = true -> forall s, f s = true.
Proof.
  unfold all_pst. intros H [a b c d e r q u v w].
  pose proof (allb_spec _ H a) as H1. cbv beta in H1.
  pose proof (allb_spec _ H1 b) as H2. cbv beta in H2.
  pose proof (all_pf_spec _ H2 c) as H3. cbv beta in H3.
  pose proof (all_pk_spec _ H3 d) as H4. cbv beta in H4.
  pose proof (all_pd_spec _ H4 e) as H5. cbv beta in H5.
  pose proof (allb_spec _ H5 r) as H6. cbv beta in H6.
  pose proof (allb_spec _ H6 q) as H7. cbv beta in H7.
  pose proof (allb_spec _ H7 u) as H8. cbv beta in H8.
  pose proof (allb_spec _ H8 v) as H9. cbv beta in H9.
  exact (allb_spec _ H9 w).
Qed.

Definition pk_pending (k : pkern) : bool :=
  match k with KQueued | KInFlight | KDoneOk | KDoneErr => true | _ => false end.

(* the bookkeeping invariant of a producing operation *)
Definition pinv (s : pst) : bool :=
  (* a lost descriptor only through the io_uring Driver::drop drain *)
  (match pd s with PLost => uring s && negb (drain_adopts s) && negb (driver_alive s) | _ => true end)
  (* a descriptor only the kernel's completion names: the completion will be processed *)
  && (match pd s with PKernel => match pk s with KDoneOk => drv_ref s && driver_alive s | _ => false end | _ => true end)
  (* no completion carries a descriptor unless it is the PKernel one *)
  && (match pk s with KDoneOk => match pd s with PKernel => true | _ => false end | _ => true end)
  (* an adopted descriptor lives in storage somebody still references *)
  && (match pd s with POp => user_ref s || drv_ref s | _ => true end)
  && (match pd s with PCaller => match pf s with PTaken => true | _ => false end | _ => true end)
  && (implb (user_ref s) (match pf s with PSubmitted => true | _ => false end))
  && (implb (drv_ref s) (pk_pending (pk s)))
  && (implb (pk_pending (pk s)) (drv_ref s))
  && (implb (negb (driver_alive s)) (negb (pk_pending (pk s))))
  && (match pf s with PIdle => match pk s with KNone => match pd s with PNone => true | _ => false end | _ => false end | _ => true end)
  (* the polling driver completes a request inside the driver: no unreaped completion *)
  && (implb (negb (uring s)) (match pk s with KNone | KInFlight | KReaped => true | _ => false end))
  && (match pf s with PSubmitted => user_ref s | _ => true end).

Lemma pinv_init ur ad rdy : pinv (pinit ur ad rdy) = true.
Proof. destruct ur, ad, rdy; reflexivity. Qed.

Lemma pstep_pinv_all :
  all_pst (fun s => implb (pinv s)
     (all_pl (fun l => match pstep s l with Some s' => pinv s' | None => true end))) = true.
Proof. vm_compute. reflexivity. Qed.

Lemma pstep_pinv s l s' : pinv s = true -> pstep s l = Some s' -> pinv s' = true.
Proof.
  intros HI H. pose proof (all_pst_spec _ pstep_pinv_all s) as A. cbv beta in A.
  rewrite HI in A. cbn [implb] in A. pose proof (all_pl_spec _ A l) as B. cbv beta in B.
  rewrite H in B. exact B.
Qed.

Lemma psteps_pinv ls : forall s s', pinv s = true -> psteps s ls = Some s' -> pinv s' = true.
Proof.
  induction ls as [|l r IH]; cbn [psteps]; intros s s' HI H.
  - inversion H; subst; exact HI.
  - destruct (pstep s l) as [s1|] eqn:E; [|discriminate]. eapply IH; [|exact H]. eapply pstep_pinv; eauto.
Qed.

(* what the invariant says about a single state *)
Definition pgood (s : pst) : bool :=
  (* lost only by the known route *)
  (match pd s with PLost => uring s && negb (drain_adopts s) && negb (driver_alive s) | _ => true end)
  (* settled: the descriptor, if one was made, is closed (or lost by the known route) *)
  && (implb (p_settled s) (match pd s with PNone | PClosed | PLost => true | _ => false end))
  (* open and not held by the program: the driver still has the means to deal with it *)
  && (match pd s with
      | PKernel => match pk s with KDoneOk => driver_alive s | _ => false end
      | POp => user_ref s || drv_ref s
      | _ => true
      end).

Lemma pinv_pgood_all : all_pst (fun s => implb (pinv s) (pgood s)) = true.
Proof. vm_compute. reflexivity. Qed.

Theorem produced_fd ur ad rdy ls s :
  psteps (pinit ur ad rdy) ls = Some s -> pgood s = true.
Proof.
  intros H. pose proof (psteps_pinv ls _ _ (pinv_init ur ad rdy) H) as HI.
  pose proof (all_pst_spec _ pinv_pgood_all s) as A. cbv beta in A. rewrite HI in A. exact A.
Qed.

(* the driver kind and the drain behaviour are parameters of a run *)
Lemma pstep_cfg_all :
  all_pst (fun s0 => all_pl (fun l =>
    match pstep s0 l with
    | Some s1 => Bool.eqb (uring s1) (uring s0) && Bool.eqb (drain_adopts s1) (drain_adopts s0)
    | None => true
    end)) = true.
Proof. vm_compute. reflexivity. Qed.

Lemma pstep_cfg s0 l s1 :
  pstep s0 l = Some s1 -> uring s1 = uring s0 /\ drain_adopts s1 = drain_adopts s0.
Proof.
  intros Hs. pose proof (all_pst_spec _ pstep_cfg_all s0) as A. cbv beta in A.
  pose proof (all_pl_spec _ A l) as B. cbv beta in B. rewrite Hs in B.
  apply andb_true_iff in B. destruct B as [B1 B2]. apply eqb_prop in B1. apply eqb_prop in B2. auto.
Qed.

Lemma psteps_cfg ls : forall s0 s,
  psteps s0 ls = Some s -> uring s = uring s0 /\ drain_adopts s = drain_adopts s0.
Proof.
  induction ls as [|l r IH]; cbn [psteps]; intros s0 s H.
  - inversion H; subst. auto.
  - destruct (pstep s0 l) as [s1|] eqn:E; [|discriminate].
    destruct (pstep_cfg _ _ _ E) as [A B]. destruct (IH _ _ H) as [C D]. split; congruence.
Qed.

(* while the driver lives, and on the polling driver always, nothing is lost *)
Theorem produced_fd_not_lost ur ad rdy ls s :
  psteps (pinit ur ad rdy) ls = Some s ->
  pd s = PLost -> ur = true /\ ad = false /\ driver_alive s = false.
Proof.
  intros H E. pose proof (produced_fd _ _ _ _ _ H) as G. unfold pgood in G.
  rewrite E in G. repeat (apply andb_true_iff in G; destruct G as [G ?]).
  destruct (psteps_cfg _ _ _ H) as [Hu Ha]. cbn [pinit uring drain_adopts] in Hu, Ha.
  rewrite Hu in G. rewrite Ha in H3.
  destruct ad; [discriminate|]. destruct (driver_alive s); [discriminate|]. auto.
Qed.

(* ---------------------------------------------------------------------- *)
(* Part 3: multishot accept                                                 *)

Definition mk_live (k : mkern) : bool := match k with MKNone => false | _ => true end.

Record MInv (s : mst) : Prop := mkMInv {
  mi_sum : accepted s = cq s + queue s + held s + mclosed s + mlost s;
  mi_drv : m_drv s = mk_live (mk s);
  mi_queue : 1 <= queue s -> m_user s = true \/ m_drv s = true;
  mi_lost : 1 <= mlost s -> m_uring s = true /\ m_alive s = false;
  mi_cq : 1 <= cq s -> m_uring s = true /\ m_alive s = true /\ mk s = MKArmed;
  mi_dead : m_alive s = false -> mk s = MKNone /\ cq s = 0 /\ m_cancel s = false;
  mi_user : m_user s = true -> ms s = MPolled /\ m_alive s = true;
  mi_cancel : m_cancel s = true -> m_uring s = true /\ m_user s = false /\ (mk s = MKQueued \/ mk s = MKArmed);
  mi_final : mk s <> MKFinal;
  mi_poll : m_uring s = false -> cq s = 0 /\ mk s <> MKQueued /\ queue s + (if mk_live (mk s) then 1 else 0) <= 1;
  mi_orphan : m_drv s = true -> m_user s = true \/ ms s = MDropped
}.

Lemma minv_init ur : MInv (minit ur).
Proof. constructor; cbn; intros; try lia; try discriminate; auto; try (split; discriminate); try (repeat split; try lia; discriminate). Qed.

Ltac msolve :=
  constructor;
  cbn [m_uring ms mk backlog cq queue held mclosed mlost accepted m_cancel m_user m_drv m_alive mk_live] in *;
  intros; subst;
  repeat match goal with
  | H : ?a = ?a -> _ |- _ => specialize (H eq_refl)
  | H : ?P -> _, H' : ?P |- _ => specialize (H H')
  | H : _ /\ _ |- _ => destruct H
  | H : _ \/ _ |- _ => destruct H
  end;
  try lia; try discriminate; try congruence;
  try (repeat split; try lia; try discriminate; try congruence; auto; fail);
  try tauto.

Lemma mstep_inv s l s' : MInv s -> mstep s l = Some s' -> MInv s'.
Proof.
  intros HI H. destruct s as [ur st k b c q h cl lo ac cn us dr al].
  destruct HI as [Hs Hd Hq Hl Hc Hdead Hu Hcn Hf Hp Ho].
  cbn [m_uring ms mk backlog cq queue held mclosed mlost accepted m_cancel m_user m_drv m_alive mk_live] in *.
  destruct l; cbn [mstep m_uring ms mk backlog cq queue held mclosed mlost accepted m_cancel m_user m_drv m_alive negb] in H.
  - (* poll *)
    destruct al; cbn [negb] in H; [|discriminate].
    destruct st; try discriminate; destruct us; destruct ur; try destruct q; try destruct b;
      inversion H; subst s'; destruct k; msolve.
  - (* drop *)
    destruct st; try discriminate; destruct ur; unfold msettle in H;
      cbn [m_uring ms mk backlog cq queue held mclosed mlost accepted m_cancel m_user m_drv m_alive negb andb] in H;
      destruct dr, us, al, k; cbn [negb andb] in H; inversion H; subst s'; msolve.
  - (* connect *)
    unfold kaccept in H.
    cbn [m_uring ms mk backlog cq queue held mclosed mlost accepted m_cancel m_user m_drv m_alive] in H.
    destruct k, ur, al; inversion H; subst s'; msolve.
  - (* drive *)
    destruct al; cbn [negb] in H; [|discriminate].
    destruct ur.
    + unfold kaccept, msettle in H.
      destruct k; cbn [m_uring ms mk backlog cq queue held mclosed mlost accepted m_cancel m_user m_drv m_alive negb andb] in H;
        destruct cn; cbn [andb negb] in H;
        cbn [m_uring ms mk backlog cq queue held mclosed mlost accepted m_cancel m_user m_drv m_alive negb andb] in H;
        destruct us, dr; cbn [negb andb] in H; inversion H; subst s'; msolve.
    + unfold msettle in H. destruct k; try (inversion H; subst s'; msolve; fail).
      destruct b; [inversion H; subst s'; msolve|].
      cbn [m_uring ms mk backlog cq queue held mclosed mlost accepted m_cancel m_user m_drv m_alive negb andb] in H.
      destruct us; cbn [negb andb] in H; inversion H; subst s'; msolve.
  - (* user drop *)
    destruct h; [discriminate|]. inversion H; subst s'. msolve.
  - (* driver drop *)
    destruct al; cbn [negb] in H; [|discriminate].
    destruct st; try discriminate; unfold msettle in H;
      cbn [m_uring ms mk backlog cq queue held mclosed mlost accepted m_cancel m_user m_drv m_alive negb andb] in H;
      destruct us; cbn [negb andb] in H; inversion H; subst s'; destruct lo, c, ur, k; msolve.
Qed.

Lemma msteps_inv ls : forall s s', MInv s -> msteps s ls = Some s' -> MInv s'.
Proof.
  induction ls as [|l r IH]; cbn [msteps]; intros s s' HI H.
  - inversion H; subst; exact HI.
  - destruct (mstep s l) as [s1|] eqn:E; [|discriminate]. eapply IH; [|exact H]. eapply mstep_inv; eauto.
Qed.

Theorem multishot_queued_closed ur ls s :
  msteps (minit ur) ls = Some s ->
  accepted s = cq s + queue s + held s + mclosed s + mlost s /\
  (1 <= queue s -> m_user s = true \/ m_drv s = true) /\
  (m_user s = false -> m_drv s = false -> queue s = 0) /\
  (1 <= mlost s -> m_uring s = true /\ m_alive s = false) /\
  (m_settled s = true ->
     cq s = 0 /\ queue s = 0 /\ held s = 0 /\ accepted s = mclosed s + mlost s).
Proof.
  intros H. pose proof (msteps_inv ls _ _ (minv_init ur) H) as [Hs Hd Hq Hl Hc Hdead Hu Hcn Hf Hp Ho].
  split; [exact Hs|]. split; [exact Hq|]. split.
  { intros A B. destruct (queue s) eqn:E; [reflexivity|]. destruct Hq as [X|X]; [lia| |]; congruence. }
  split; [exact Hl|].
  unfold m_settled. intros Hset. repeat (apply andb_true_iff in Hset; destruct Hset as [Hset ?]).
  apply Nat.eqb_eq in H1.
  assert (Hms : ms s = MDropped) by (destruct (ms s); try discriminate; reflexivity).
  assert (Hus : m_user s = false).
  { destruct (m_user s) eqn:E; [|reflexivity]. destruct (Hu eq_refl) as [X _]. congruence. }
  assert (Hk : mk s = MKNone /\ cq s = 0).
  { apply orb_true_iff in H0. destruct H0 as [A|A].
    - destruct (m_alive s); [discriminate|]. destruct (Hdead eq_refl) as (X & Y & _). auto.
    - apply andb_true_iff in A. destruct A as [A B]. apply Nat.eqb_eq in B.
      destruct (mk s); try discriminate. auto. }
  destruct Hk as [Hk Hcq]. rewrite Hk in Hd. cbn in Hd.
  assert (Hqz : queue s = 0).
  { destruct (queue s) eqn:E; [reflexivity|]. destruct Hq as [X|X]; [lia| |]; congruence. }
  repeat split; try assumption. lia.
Qed.

(* drop the stream, one driver turn: nothing produced so far is left unowned *)
Theorem multishot_drop_then_turn ur ls s s1 s2 :
  msteps (minit ur) ls = Some s -> mstep s MDrop = Some s1 -> mstep s1 MDrive = Some s2 ->
  cq s2 = 0 /\ queue s2 = 0 /\ mlost s2 = 0 /\ accepted s2 = held s2 + mclosed s2.
Proof.
  intros H H1 H2.
  pose proof (msteps_inv ls _ _ (minv_init ur) H) as HI.
  pose proof (mstep_inv _ _ _ HI H1) as HI1. pose proof (mstep_inv _ _ _ HI1 H2) as HI2.
  destruct HI2 as [Hs2 Hd2 Hq2 Hl2 Hc2 Hdead2 Hu2 Hcn2 Hf2 Hp2 Ho2].
  destruct s as [ur0 st k b c q h cl lo ac cn us dr al].
  destruct HI as [Hs Hd Hq Hl Hc Hdead Hu Hcn Hf Hp Ho].
  cbn [m_uring ms mk backlog cq queue held mclosed mlost accepted m_cancel m_user m_drv m_alive mk_live] in *.
  cbn [mstep m_uring ms mk backlog cq queue held mclosed mlost accepted m_cancel m_user m_drv m_alive negb] in H1.
  assert (Hal : al = true).
  { destruct al; [reflexivity|]. destruct st; try discriminate; destruct ur0; unfold msettle in H1;
      cbn [m_uring ms mk backlog cq queue held mclosed mlost accepted m_cancel m_user m_drv m_alive negb andb] in H1;
      destruct dr, us, k; cbn [negb andb] in H1; inversion H1; subst s1; cbn in H2; discriminate. }
  subst al.
  assert (Hlo : lo = 0) by (destruct lo; [reflexivity|]; destruct Hl as [_ X]; [lia|discriminate]).
  subst lo.
  destruct st; try discriminate; destruct ur0; unfold msettle in H1;
    cbn [m_uring ms mk backlog cq queue held mclosed mlost accepted m_cancel m_user m_drv m_alive negb andb] in H1;
    destruct dr, us, k; cbn [negb andb] in H1; inversion H1; subst s1; clear H1;
    try (exfalso; first [congruence | discriminate | (destruct (Hu eq_refl); discriminate)
                         | (destruct (Hcn eq_refl) as (_ & X & _); discriminate)
                         | (destruct (Ho eq_refl); discriminate)
                         | (destruct (Hcn eq_refl) as (_ & _ & [X|X]); discriminate)]);
    cbn [mstep kaccept msettle m_uring ms mk backlog cq queue held mclosed mlost accepted m_cancel m_user m_drv m_alive negb andb] in H2;
    try destruct cn; try destruct b;
    cbn [mstep kaccept msettle m_uring ms mk backlog cq queue held mclosed mlost accepted m_cancel m_user m_drv m_alive negb andb] in H2;
    inversion H2; subst s2;
    cbn [m_uring ms mk backlog cq queue held mclosed mlost accepted m_cancel m_user m_drv m_alive mk_live] in *;
    repeat split; try lia;
    try (destruct q; [lia|]; destruct Hq as [X|X]; [lia|discriminate|discriminate]).
Qed.

(* ---------------------------------------------------------------------- *)
(* Part 1b: the waker that is woken is the one of the latest Pending poll   *)

Lemma pend_back_upd l c p c' :
  p <> CPending ->
  option_map pc (nth_error (upd l c (w_pc p)) c') = Some CPending ->
  option_map pc (nth_error l c') = Some CPending.
Proof.
  intros Hp H. destruct (nth_error (upd l c (w_pc p)) c') as [y|] eqn:E; [|discriminate].
  apply nth_upd_inv in E. destruct E as [(-> & x & Hx & ->)|(Hne & E)].
  - cbn in H. congruence.
  - rewrite E. exact H.
Qed.

Lemma pend_back_updf l c (f : closer -> closer) c' :
  (forall x, pc (f x) <> CPending) ->
  option_map pc (nth_error (upd l c f) c') = Some CPending ->
  option_map pc (nth_error l c') = Some CPending.
Proof.
  intros Hp H. destruct (nth_error (upd l c f) c') as [y|] eqn:E; [|discriminate].
  apply nth_upd_inv in E. destruct E as [(-> & x & Hx & ->)|(Hne & E)].
  - cbn in H. exfalso. apply (Hp x). congruence.
  - rewrite E. exact H.
Qed.

Lemma pend_back_app l x c' :
  pc x <> CPending ->
  option_map pc (nth_error (l ++ [x]) c') = Some CPending ->
  option_map pc (nth_error l c') = Some CPending.
Proof.
  intros Hp H. destruct (Nat.lt_ge_cases c' (length l)) as [Hlt|Hge].
  - rewrite nth_error_app1 in H by exact Hlt. exact H.
  - rewrite nth_error_app2 in H by exact Hge. destruct (c' - length l) as [|[|m]]; cbn in H; try discriminate.
    congruence.
Qed.

(* effect of running the Drop that was started last *)
Lemma finish_flags g s1 ds :
  Inv g s1 -> droppers s1 = ds ++ [DCount] ->
  closers (finish_drops g s1) = closers s1 /\
  strong (finish_drops g s1) = strong s1 - 1 /\
  (waker (finish_drops g s1) = true -> waker s1 = true) /\
  (wwoken (finish_drops g s1) = true ->
     wwoken s1 = true \/ (waker s1 = true /\ waker (finish_drops g s1) = false)).
Proof.
  intros [Hc H0 H1 Hcl Hle Hge Hf Hgo] Hdr.
  destruct s1 as [n w wk ww f c h o fg cs dr]. cbn [droppers] in Hdr. subst dr.
  cbn [strong waits waker wwoken fd closes handles ops forgotten closers droppers] in *.
  rewrite sumf_app in Hc. cbn in Hc.
  assert (Hn : 1 <= n) by lia.
  assert (Hfd : n = 1 -> f = FShared).
  { intros E. assert (sh f = 1) by (apply H1; lia). destruct f; cbn in *; try lia. reflexivity. }
  rewrite (drop_run g n w wk ww f c h o fg cs ds Hn Hfd).
  cbn [strong waits waker wwoken fd closes handles ops forgotten closers droppers].
  repeat split.
  - destruct ((n =? 2) && w); [discriminate|auto].
  - destruct ((n =? 2) && w); [|auto]. destruct ww, wk; cbn; auto; discriminate.
Qed.

(* what a macro step other than a poll does to the flags and to the set of Pending closers *)
Lemma ustep_effect g s l s' :
  closer_release_wakes g = true -> UInv g s -> ustep g s l = Some s' ->
  (forall c, l <> UPoll c) ->
  (forall c, pc_at s' c = Some CPending -> pc_at s c = Some CPending) /\
  (waker s' = true -> waker s = true) /\
  (wwoken s' = true -> wwoken s = true \/ (waker s = true /\ waker s' = false) \/ strong s' = 0).
Proof.
  intros Hflag HU H Hnp.
  pose proof HU as [HI HW Hd Hreg Hwok].
  pose proof HI as [Hc H0 H1 Hcl Hle Hge Hf Hgo].
  unfold pc_at.
  assert (Hspawn : forall lab s1,
     step g s lab = Some s1 -> droppers s1 = droppers s ++ [DCount] ->
     waker s1 = waker s -> wwoken s1 = wwoken s ->
     (forall c, option_map pc (nth_error (closers s1) c) = Some CPending ->
                option_map pc (nth_error (closers s) c) = Some CPending) ->
     (forall c, option_map pc (nth_error (closers (finish_drops g s1)) c) = Some CPending ->
                option_map pc (nth_error (closers s) c) = Some CPending) /\
     (waker (finish_drops g s1) = true -> waker s = true) /\
     (wwoken (finish_drops g s1) = true ->
        wwoken s = true \/ (waker s = true /\ waker (finish_drops g s1) = false) \/ strong (finish_drops g s1) = 0)).
  { intros lab s1 Hs Hdr Hwk Hww Hcl1.
    pose proof (step_inv g s lab s1 HI Hs) as HI1.
    destruct (finish_flags g s1 (droppers s) HI1 Hdr) as (A & B & C & D).
    rewrite A, <- Hwk, <- Hww. split; [exact Hcl1|]. split; [exact C|].
    intros E. destruct (D E) as [X|X]; auto. }
  destruct l; unfold ustep in H; try (exfalso; eapply Hnp; reflexivity).
  - (* clone *) cbn [step] in H. destruct (handles s); [discriminate|]. inversion H; subst s'. cbn; auto.
  - (* op start *) cbn [step] in H. destruct (handles s); [discriminate|]. inversion H; subst s'. cbn; auto.
  - (* op finish *)
    destruct (step g s LOpFinish) as [s1|] eqn:E; [|discriminate]. inversion H; subst s'.
    eapply Hspawn; eauto; cbn [step] in E; destruct (ops s); try discriminate; inversion E; subst s1; cbn; auto.
  - (* drop handle *)
    destruct (step g s LDropHandle) as [s1|] eqn:E; [|discriminate]. inversion H; subst s'.
    eapply Hspawn; eauto; cbn [step] in E; destruct (handles s); try discriminate; inversion E; subst s1; cbn; auto.
  - (* take *)
    cbn [step] in H. destruct (handles s); [discriminate|]. inversion H; subst s'.
    cbn [closers waker wwoken strong]. split; [|auto].
    intros c Hp. eapply pend_back_app; [|exact Hp]. destruct close; cbn; discriminate.
  - (* future dropped *)
    destruct (step g s (LFutDrop c)) as [s1|] eqn:E; [|discriminate]. inversion H; subst s'. clear H.
    pose proof E as E'. cbn [step] in E'. unfold fut_drop in E'.
    destruct (nth_error (closers s) c) as [x|] eqn:Hx; [|discriminate].
    assert (Hback : forall p, p <> CPending -> forall c',
              option_map pc (nth_error (upd (closers s) c (w_pc p)) c') = Some CPending ->
              option_map pc (nth_error (closers s) c') = Some CPending).
    { intros p Hp c'. apply pend_back_upd. exact Hp. }
    destruct (pc x) eqn:Hpc; try discriminate.
    + destruct (unpolled_close_drops g).
      * inversion E'. rewrite H2 in *.
        eapply Hspawn; eauto; subst s1; cbn [droppers waker wwoken closers spawn_drop set_droppers set_closers]; auto.
        apply Hback. discriminate.
      * inversion E'. rewrite H2 in *. rewrite finish_drops_idle by (subst s1; exact Hd).
        subst s1. cbn [closers waker wwoken strong set_closers]. split; [apply Hback; discriminate|auto].
    + rewrite Hflag in E'. cbn [negb] in E'. inversion E'. rewrite H2 in *.
      eapply Hspawn; eauto; subst s1; cbn [droppers waker wwoken closers spawn_drop set_droppers set_closers]; auto.
      apply Hback. discriminate.
    + rewrite Hflag in E'. cbn [negb] in E'. inversion E'. rewrite H2 in *.
      eapply Hspawn; eauto; subst s1; cbn [droppers waker wwoken closers spawn_drop set_droppers set_closers]; auto.
      apply Hback. discriminate.
    + inversion E'. rewrite H2 in *. rewrite finish_drops_idle by (subst s1; exact Hd).
      subst s1. cbn [closers waker wwoken strong set_closers]. split; [apply Hback; discriminate|auto].
    + inversion E'. rewrite H2 in *. rewrite finish_drops_idle by (subst s1; exact Hd).
      subst s1. cbn [closers waker wwoken strong set_closers]. split; [apply Hback; discriminate|auto].
  - (* owner drop *)
    cbn [step] in H. destruct (nth_error (closers s) c) as [x|] eqn:Hx; [|discriminate].
    destruct (pc x) eqn:Hpc; try discriminate. destruct (cf x); [discriminate|]. inversion H; subst s'.
    unfold close_fd. cbn [closers waker wwoken strong]. rewrite orb_false_r.
    split; [intros c'; apply pend_back_upd; discriminate|auto].
  - (* close op runs *)
    cbn [step] in H. destruct (nth_error (closers s) c) as [x|] eqn:Hx; [|discriminate].
    assert (Hs0 : gonepc (pc x) = true -> strong s = 0).
    { intros Eg. apply Hgo. pose proof (sumf_nth_le gp _ _ _ Hx) as Hg. unfold gp in Hg at 1. rewrite Eg in Hg. exact Hg. }
    destruct (pc x) eqn:Hpc; try discriminate; inversion H; subst s'; unfold close_fd;
      cbn [closers waker wwoken strong];
      (split; [intros c'; apply pend_back_upd; discriminate|]); split; auto;
      intros _; right; right; apply Hs0; reflexivity.
  - (* close op cancelled *)
    cbn [step] in H. destruct (nth_error (closers s) c) as [x|] eqn:Hx; [|discriminate].
    destruct (pc x) eqn:Hpc; try discriminate.
    destruct (cancelled_close_closes g); inversion H; subst s'; unfold close_fd;
      cbn [closers waker wwoken strong set_closers]; rewrite ?orb_false_r;
      (split; [intros c'; apply pend_back_upd; discriminate|auto]).
  - (* try_unwrap *)
    cbn [step] in H. destruct (handles s); [discriminate|].
    destruct (strong s =? 1); inversion H; subst s'; [|auto].
    cbn [closers waker wwoken strong]. split; [|auto].
    intros c Hp. eapply pend_back_app; [|exact Hp]. cbn. discriminate.
Qed.

Lemma pc_at_upd_other s cs c0 f c :
  c <> c0 -> closers s = cs -> option_map pc (nth_error (upd cs c0 f) c) = option_map pc (nth_error cs c).
Proof. intros Hne _. rewrite nth_upd_other by exact Hne. reflexivity. Qed.

(* what one poll (macro step) of closer c0 does *)
Lemma upoll_effect g s c0 s' :
  closer_release_wakes g = true -> UInv g s -> ustep g s (UPoll c0) = Some s' ->
  (forall c, c <> c0 -> pc_at s' c = Some CPending -> pc_at s c = Some CPending) /\
  (pc_at s' c0 = Some CPending -> waker s' = true /\ wwoken s' = false) /\
  (pc_at s' c0 <> Some CPending ->
     (waker s' = true -> waker s = true) /\
     (wwoken s' = true -> wwoken s = true \/ (waker s = true /\ waker s' = false) \/ strong s' = 0)).
Proof.
  intros Hflag HU H.
  pose proof HU as [HI HW Hd Hreg Hwok].
  pose proof HI as [Hc H0 H1 Hcl Hle Hge Hf Hgo].
  rewrite ustep_poll_eq in H. destruct (pollable s c0) eqn:Hp; [|discriminate].
  assert (Es : finish_drops g (poll_run g 6 c0 s) = s') by (clear - H; congruence).
  clear H. subst s'.
  pose proof Hp as Hp'. unfold pollable in Hp'.
  destruct (nth_error (closers s) c0) as [x|] eqn:Hx; [|discriminate].
  rewrite (poll_run_spec g s c0 x Hx Hp).
  unfold pc_at.
  assert (Hoth : forall F c, c <> c0 ->
            option_map pc (nth_error (upd (closers s) c0 F) c) = Some CPending ->
            option_map pc (nth_error (closers s) c) = Some CPending).
  { intros F c Hne E. rewrite nth_upd_other in E by exact Hne. exact E. }
  assert (Hat : forall F, nth_error (upd (closers s) c0 F) c0 = Some (F x)).
  { intros F. apply nth_upd_same. exact Hx. }
  assert (Htail : forall wt wi,
     let r := finish_drops g (poll_tail s c0 x wt false wi) in
     (forall c, c <> c0 -> option_map pc (nth_error (closers r) c) = Some CPending ->
                option_map pc (nth_error (closers s) c) = Some CPending) /\
     (option_map pc (nth_error (closers r) c0) = Some CPending -> waker r = true /\ wwoken r = false) /\
     (option_map pc (nth_error (closers r) c0) <> Some CPending ->
        (waker r = true -> waker s = true) /\
        (wwoken r = true -> wwoken s = true \/ (waker s = true /\ waker r = false) \/ strong r = 0))).
  { intros wt wi. unfold poll_tail. destruct (strong s =? 1) eqn:E1; cbn zeta;
      rewrite finish_drops_idle by exact Hd; cbn [closers waker wwoken strong].
    - split; [intros c Hne; apply Hoth; exact Hne|]. rewrite Hat. cbn [option_map pc]. split.
      + destruct (cf x); discriminate.
      + intros _. split; [auto|]. intros _. right; right; reflexivity.
    - split; [intros c Hne; apply Hoth; exact Hne|]. rewrite Hat. cbn [option_map pc]. split.
      + intros _. split; reflexivity.
      + intros A. exfalso. apply A. reflexivity. }
  unfold poll_result.
  destruct (pc x) eqn:Hpc; try discriminate.
  - (* CUnpolled *)
    destruct (waits s) eqn:Ewt; [|apply Htail].
    rewrite Hflag. cbn [negb].
    assert (Hs1 : step g s (LPoll c0) = Some (spawn_drop false (set_closers s
              (upd (closers s) c0 (fun _ => mk_closer CGone (cf x) (winner x)))))).
    { cbn [step]. unfold poll_step. rewrite Hx, Hpc. unfold first_poll. rewrite Ewt, Hflag. cbn [negb].
      rewrite (upd_const _ _ _ _ Hx). reflexivity. }
    pose proof (step_inv g s _ _ HI Hs1) as HI1.
    destruct (finish_flags g _ (droppers s) HI1 eq_refl) as (A & B & C & D).
    rewrite A. cbn [closers waker wwoken spawn_drop set_droppers set_closers] in *.
    split; [intros c Hne; apply Hoth; exact Hne|]. rewrite Hat. cbn [option_map pc]. split; [discriminate|].
    intros _. split; [exact C|]. intros E. destruct (D E) as [X|X]; auto.
  - (* CCreated *)
    destruct (waits s) eqn:Ewt; [|apply Htail].
    rewrite Hflag. cbn [negb].
    assert (Hs1 : step g s (LPoll c0) = Some (spawn_drop false (set_closers s
              (upd (closers s) c0 (fun _ => mk_closer CGone (cf x) (winner x)))))).
    { cbn [step]. unfold poll_step. rewrite Hx, Hpc. unfold first_poll. rewrite Ewt, Hflag. cbn [negb].
      rewrite (upd_const _ _ _ _ Hx). reflexivity. }
    pose proof (step_inv g s _ _ HI Hs1) as HI1.
    destruct (finish_flags g _ (droppers s) HI1 eq_refl) as (A & B & C & D).
    rewrite A. cbn [closers waker wwoken spawn_drop set_droppers set_closers] in *.
    split; [intros c Hne; apply Hoth; exact Hne|]. rewrite Hat. cbn [option_map pc]. split; [discriminate|].
    intros _. split; [exact C|]. intros E. destruct (D E) as [X|X]; auto.
  - (* CPending *) apply Htail.
  - (* CClosing *)
    rewrite finish_drops_idle by exact Hd. cbn [closers waker wwoken strong set_wwoken].
    split; [auto|]. rewrite Hx. cbn [option_map]. rewrite Hpc. split; [discriminate|].
    intros _. split; [auto|discriminate].
  - (* CClosed *)
    rewrite finish_drops_idle by exact Hd. cbn [closers waker wwoken strong set_wwoken set_closers].
    split; [intros c Hne; apply Hoth; exact Hne|]. rewrite Hat. cbn [option_map pc]. split; [discriminate|].
    intros _. split; [auto|discriminate].
Qed.

Lemma two_waiting (l : list closer) c1 c2 x1 x2 :
  c1 <> c2 -> nth_error l c1 = Some x1 -> nth_error l c2 = Some x2 ->
  wp x1 = 1 -> wp x2 = 1 -> 2 <= sumf wp l.
Proof.
  revert c1 c2. induction l as [|a l IH]; intros c1 c2 Hne H1 H2 W1 W2.
  - destruct c1; discriminate.
  - destruct c1 as [|c1], c2 as [|c2]; cbn [nth_error sumf] in *.
    + congruence.
    + inversion H1; subst a. pose proof (sumf_nth_le wp _ _ _ H2). lia.
    + inversion H2; subst a. pose proof (sumf_nth_le wp _ _ _ H1). lia.
    + assert (c1 <> c2) by congruence. specialize (IH c1 c2 H H1 H2 W1 W2). lia.
Qed.

Record JInv (g : cfg) (ws : wst) : Prop := mkJ {
  j_u : UInv g (base ws);
  j_slot : forall c, pc_at (base ws) c = Some CPending -> waker (base ws) = true -> slot ws = (c, lgen ws c);
  j_wok : forall c, pc_at (base ws) c = Some CPending -> wwoken (base ws) = true -> wok ws = (c, lgen ws c)
}.

Lemma jinv_init g : JInv g winit.
Proof. constructor; [apply uinv_init|cbn; discriminate|cbn; discriminate]. Qed.

Lemma pending_strong g s c : Inv g s -> pc_at s c = Some CPending -> 1 <= strong s.
Proof.
  intros HI Hp. unfold pc_at in Hp. destruct (nth_error (closers s) c) as [x|] eqn:Hx; [|discriminate].
  cbn in Hp. pose proof (sumf_nth_le hc _ _ _ Hx) as Hle. unfold hc in Hle at 1.
  assert (pc x = CPending) by congruence. rewrite H in Hle. cbn in Hle.
  destruct HI as [Hc _ _ _ _ _ _ _]. lia.
Qed.

Theorem wustep_jinv g ws l ws' :
  closer_release_wakes g = true -> JInv g ws -> wustep g ws l = Some ws' -> JInv g ws'.
Proof.
  intros Hflag [HU J1 J2] H. destruct l as [ul|c]; cbn [wustep] in H.
  2:{ destruct (pc_at (base ws) c) as [[]|]; try discriminate; inversion H; subst ws';
        constructor; cbn [base slot wok lgen]; auto. }
  destruct (ustep g (base ws) ul) as [b'|] eqn:E; [|discriminate].
  pose proof (ustep_uinv g _ _ _ Hflag HU E) as HU'.
  pose proof HU' as [HI' HW' _ _ _].
  inversion H; subst ws'; clear H.
  assert (Hnop : forall c, pc_at b' c = Some CPending -> strong b' = 0 -> False).
  { intros c Hp E0. pose proof (pending_strong g b' c HI' Hp). lia. }
  destruct (match ul with UPoll c => Some c | _ => None end) as [c0|] eqn:Hul.
  - (* a poll *)
    destruct ul; try discriminate. inversion Hul; subst c0.
    destruct (upoll_effect g _ _ _ Hflag HU E) as (Q1 & Q2 & Q3).
    constructor; cbn [base slot wok lgen]; [exact HU'| |].
    + intros c0 Hp Hw. destruct (Nat.eq_dec c0 c) as [->|Hne].
      * rewrite Hp. unfold fset. rewrite Nat.eqb_refl. reflexivity.
      * destruct (pc_at b' c) as [[]|] eqn:Hc;
          try (destruct Q3 as [Q3a Q3b]; [discriminate|]; unfold fset;
               rewrite (proj2 (Nat.eqb_neq c0 c) Hne); apply J1; [apply Q1; assumption|auto]).
        exfalso. unfold pc_at in Hp, Hc.
        destruct (nth_error (closers b') c0) as [x0|] eqn:E0; [|discriminate].
        destruct (nth_error (closers b') c) as [x1|] eqn:E1; [|discriminate].
        cbn in Hp, Hc. assert (wp x0 = 1) by (unfold wp; replace (pc x0) with CPending by congruence; reflexivity).
        assert (wp x1 = 1) by (unfold wp; replace (pc x1) with CPending by congruence; reflexivity).
        pose proof (two_waiting _ _ _ _ _ Hne E0 E1 H H0). unfold WInv in HW'. destruct (waits b'); lia.
    + intros c0 Hp Hw. destruct (Nat.eq_dec c0 c) as [->|Hne].
      * destruct (Q2 Hp) as [_ X]. congruence.
      * destruct (pc_at b' c) as [[]|] eqn:Hc;
          try (destruct Q3 as [Q3a Q3b]; [discriminate|]; unfold fset;
               rewrite (proj2 (Nat.eqb_neq c0 c) Hne);
               destruct (Q3b Hw) as [X|[[X Y]|X]];
               [ rewrite (J2 c0 (Q1 c0 Hne Hp) X);
                 destruct (waker (base ws) && negb (waker b')) eqn:Ew;
                 [apply andb_true_iff in Ew; destruct Ew as [Ew _]; rewrite <- (J2 c0 (Q1 c0 Hne Hp) X);
                  rewrite (J1 c0 (Q1 c0 Hne Hp) Ew); symmetry; apply J2; [apply Q1; assumption|exact X]
                 |reflexivity]
               | rewrite X, Y; cbn [andb negb]; apply J1; [apply Q1; assumption|exact X]
               | exfalso; eapply Hnop; eauto ]).
        destruct (Q2 eq_refl) as [_ X]. congruence.
  - (* not a poll *)
    assert (Hnp : forall c, ul <> UPoll c) by (intros c Ec; subst ul; discriminate).
    destruct (ustep_effect g _ _ _ Hflag HU E Hnp) as (F1 & F2 & F3).
    destruct HU as [HI HWb Hdb Hregb Hwokb].
    assert (Hgone0 : forall c0 c, pc_at (base ws) c0 = Some CClosing -> pc_at b' c = Some CPending -> False).
    { intros c0 c Ec Hp.
      assert (strong (base ws) = 0).
      { destruct HI as [_ _ _ _ _ _ _ Hgo]. apply Hgo. unfold pc_at in Ec.
        destruct (nth_error (closers (base ws)) c0) as [x|] eqn:Hx; [|discriminate].
        pose proof (sumf_nth_le gp _ _ _ Hx) as Hg. unfold gp in Hg at 1. cbn in Ec.
        replace (pc x) with CClosing in Hg by congruence. exact Hg. }
      pose proof (pending_strong g (base ws) c HI (F1 c Hp)). lia. }
    destruct ul; try discriminate;
      (constructor; cbn [base slot wok lgen]; [exact HU'| |];
       [ intros c' Hp Hw; apply J1; auto
       | intros c' Hp Hw;
         destruct (F3 Hw) as [X|[[X Y]|X]];
         [ destruct (waker (base ws) && negb (waker b')) eqn:Ew;
           [ apply andb_true_iff in Ew; destruct Ew as [Ew _]; apply J1; auto
           | try (apply J2; auto; fail);
             match goal with
             | |- context [pc_at (base ws) ?c0] =>
                 destruct (pc_at (base ws) c0) as [[]|] eqn:Ec; try (apply J2; auto; fail);
                 exfalso; eapply Hgone0; eauto
             end ]
         | rewrite X, Y; cbn [andb negb]; apply J1; auto
         | exfalso; eapply Hnop; eauto ] ]).
Qed.

Lemma wusteps_jinv g ls : forall ws ws',
  closer_release_wakes g = true -> JInv g ws -> wusteps g ws ls = Some ws' -> JInv g ws'.
Proof.
  induction ls as [|l r IH]; cbn [wusteps]; intros ws ws' Hf HJ H.
  - inversion H; subst; exact HJ.
  - destruct (wustep g ws l) as [w1|] eqn:E; [|discriminate]. eapply IH; [exact Hf| |exact H].
    eapply wustep_jinv; eauto.
Qed.

(* after any sequence of polls under changing wakers, the release that leaves a
   Pending closer as the only owner has woken the waker of its latest poll *)
Theorem latest_waker_woken g ls ws c :
  closer_release_wakes g = true -> wusteps g winit ls = Some ws ->
  pc_at (base ws) c = Some CPending -> strong (base ws) = 1 ->
  wwoken (base ws) = true /\ wok ws = (c, lgen ws c).
Proof.
  intros Hf H Hp E. destruct (wusteps_jinv g ls _ _ Hf (jinv_init g) H) as [HU J1 J2].
  assert (Hw : wwoken (base ws) = true).
  { destruct HU as [_ _ _ _ Hwok]. apply Hwok; [|exact E].
    unfold pc_at in Hp. destruct (nth_error (closers (base ws)) c) as [x|] eqn:Hx; [|discriminate].
    pose proof (sumf_nth_le np _ _ _ Hx) as Hle. unfold np in Hle at 1. cbn in Hp.
    replace (pc x) with CPending in Hle by congruence. exact Hle. }
  split; [exact Hw|]. apply J2; assumption.
Qed.

(* the generation recorded for a closer is the waker of its latest poll *)
Lemma wustep_poll_lgen g ws c ws' :
  wustep g ws (WU (UPoll c)) = Some ws' -> lgen ws' c = gen ws c /\ gen ws' = gen ws.
Proof.
  cbn [wustep]. destruct (ustep g (base ws) (UPoll c)); [|discriminate]. intros H. inversion H; subst ws'.
  cbn [lgen gen]. unfold fset. rewrite Nat.eqb_refl. auto.
Qed.
