(* FragTaskThm.v — tie of the task state word of model/Task.v to the code of
   compio-executor/src/task/state.rs as translated by tools/rs2v.py
   (gen/Frag.v): every read-modify-write method of `State` and every predicate
   of `Snapshot`, as it stands in the source now, is the corresponding record
   operation of the model, for every word whose reference count fits the 57
   bits the code gives it. *)
From Compio.Model Require Import Base Task RsSem.
From Compio.Gen Require Consts Frag.
From Compio.Thm Require Import TaskThm.
Local Open Scope N_scope.

Definition small (x : word) : Prop := N.of_nat (count x) < 2 ^ 57.

Lemma flags_lt x : flags_N x < 2 ^ 7.
Proof. destruct x as [a b c d e f g k]. destruct a, b, c, d, e, f, g; vm_compute; reflexivity. Qed.

Lemma split_uniq n F K : F < 2 ^ 7 -> n mod 2 ^ 7 = F -> n / 2 ^ 7 = K -> n = F + 2 ^ 7 * K.
Proof. intros _ H1 H2. rewrite (N.div_mod' n (2 ^ 7)). rewrite H1, H2. apply N.add_comm. Qed.

Lemma low_mod F K : F < 2 ^ 7 -> (F + 2 ^ 7 * K) mod 2 ^ 7 = F.
Proof. intro H. rewrite (N.mul_comm (2 ^ 7)), N.mod_add by discriminate. apply N.mod_small, H. Qed.

Lemma low_div F K : F < 2 ^ 7 -> (F + 2 ^ 7 * K) / 2 ^ 7 = K.
Proof. intro H. rewrite (N.mul_comm (2 ^ 7)), N.div_add by discriminate. rewrite (N.div_small _ _ H). reflexivity. Qed.

Lemma lor_split F K M : F < 2 ^ 7 -> M < 2 ^ 7 -> N.lor (F + 2 ^ 7 * K) M = N.lor F M + 2 ^ 7 * K.
Proof.
  intros HF HM. apply split_uniq.
  - destruct (N.eq_dec (N.lor F M) 0) as [E|E]; [rewrite E; reflexivity|].
    apply N.log2_lt_pow2; [apply N.neq_0_lt_0, E|]. rewrite N.log2_lor.
    apply N.max_lub_lt.
    + destruct (N.eq_dec F 0) as [->|E']; [reflexivity|]. apply N.log2_lt_pow2; [apply N.neq_0_lt_0, E'|exact HF].
    + destruct (N.eq_dec M 0) as [->|E']; [reflexivity|]. apply N.log2_lt_pow2; [apply N.neq_0_lt_0, E'|exact HM].
  - rewrite <- !N.land_ones. rewrite N.land_lor_distr_l. rewrite !N.land_ones.
    rewrite (low_mod F K HF). rewrite (N.mod_small M) by exact HM. reflexivity.
  - rewrite <- !N.shiftr_div_pow2. rewrite N.shiftr_lor. rewrite !N.shiftr_div_pow2.
    rewrite (low_div F K HF). rewrite (N.div_small M) by exact HM. apply N.lor_0_r.
Qed.

Lemma lnot_high M : M < 2 ^ 7 -> N.shiftr (N.lnot M 64) 7 = N.ones 57.
Proof.
  intro HM. unfold N.lnot. rewrite N.shiftr_lxor. rewrite (N.shiftr_div_pow2 M), (N.div_small M) by exact HM.
  rewrite N.lxor_0_l. vm_compute. reflexivity.
Qed.

Lemma landnot_split F K M : F < 2 ^ 7 -> M < 2 ^ 7 -> K < 2 ^ 57 ->
  N.land (F + 2 ^ 7 * K) (not_w 64 M) = N.land F (not_w 64 M) + 2 ^ 7 * K.
Proof.
  intros HF HM HK. unfold not_w. apply split_uniq.
  - destruct (N.eq_dec (N.land F (N.lnot M 64)) 0) as [E|E]; [rewrite E; reflexivity|].
    apply N.log2_lt_pow2; [apply N.neq_0_lt_0, E|].
    eapply N.le_lt_trans; [apply N.log2_land|].
    apply N.min_lt_iff. left.
    destruct (N.eq_dec F 0) as [->|E']; [reflexivity|]. apply N.log2_lt_pow2; [apply N.neq_0_lt_0, E'|exact HF].
  - rewrite <- !N.land_ones.
    rewrite <- N.land_assoc, (N.land_comm (N.lnot M 64)), N.land_assoc.
    rewrite !N.land_ones. rewrite (low_mod F K HF). reflexivity.
  - rewrite <- !N.shiftr_div_pow2. rewrite N.shiftr_land. rewrite (lnot_high M HM).
    rewrite N.land_ones. rewrite N.shiftr_div_pow2. rewrite (low_div F K HF). apply N.mod_small, HK.
Qed.

(* ---------------------------------------------------------------------- *)
(* the read-modify-write methods of State                                   *)

Local Ltac flags_case x :=
  destruct x as [a b c d e f g k];
  destruct a, b, c, d, e, f, g; reflexivity.

Local Ltac rc_norm := change Consts.RC_UNIT with (2 ^ 7).

Lemma or_tie x M x' : M < 2 ^ 7 -> N.lor (flags_N x) M = flags_N x' -> count x' = count x ->
  N.lor (encode x) M = encode x'.
Proof.
  intros HM HF HC. unfold encode. rc_norm. rewrite lor_split by (exact HM || apply flags_lt).
  rewrite HF, HC. reflexivity.
Qed.

Lemma andnot_tie x M x' : small x -> M < 2 ^ 7 -> N.land (flags_N x) (not_w 64 M) = flags_N x' -> count x' = count x ->
  N.land (encode x) (not_w 64 M) = encode x'.
Proof.
  intros HS HM HF HC. unfold encode. rc_norm. rewrite landnot_split by (exact HM || apply flags_lt || exact HS).
  rewrite HF, HC. reflexivity.
Qed.

Theorem tie_start_scheduling x :
  Frag.st_start_scheduling (encode x) = (encode (start_scheduling x), encode x).
Proof. unfold Frag.st_start_scheduling. f_equal. apply or_tie; [reflexivity| flags_case x | reflexivity]. Qed.

Theorem tie_finish_running x :
  Frag.st_finish_running (encode x) = (encode (finish_running x), encode x).
Proof. unfold Frag.st_finish_running. f_equal. apply or_tie; [reflexivity| flags_case x | reflexivity]. Qed.

Theorem tie_finish_setting_waker b x :
  Frag.st_finish_setting_waker b (encode x) = (encode (finish_setting_waker b x), encode x).
Proof. unfold Frag.st_finish_setting_waker. destruct b; cbn iota; f_equal; apply or_tie; [reflexivity| flags_case x | reflexivity | reflexivity | flags_case x | reflexivity]. Qed.

Theorem tie_finish_scheduling x : small x ->
  Frag.st_finish_scheduling (encode x) = (encode (finish_scheduling x), tt).
Proof. intro HS. unfold Frag.st_finish_scheduling. f_equal. apply andnot_tie; [exact HS | reflexivity | flags_case x | reflexivity]. Qed.

Theorem tie_unschedule x : small x ->
  Frag.st_unschedule (encode x) = (encode (unschedule x), encode x).
Proof. intro HS. unfold Frag.st_unschedule. f_equal. apply andnot_tie; [exact HS | reflexivity | flags_case x | reflexivity]. Qed.

Theorem tie_set_cancelled x : small x ->
  Frag.st_set_cancelled (encode x) = (encode (set_cancelled x), encode x).
Proof. intro HS. unfold Frag.st_set_cancelled. f_equal. apply andnot_tie; [exact HS | reflexivity | flags_case x | reflexivity]. Qed.

Theorem tie_start_setting_waker x : small x ->
  Frag.st_start_setting_waker (encode x) = (encode (start_setting_waker x), encode x).
Proof. intro HS. unfold Frag.st_start_setting_waker. f_equal. apply andnot_tie; [exact HS | reflexivity | flags_case x | reflexivity]. Qed.

Theorem tie_set_dropped x : small x ->
  Frag.st_set_dropped (encode x) = (encode (set_dropped x), encode x).
Proof.
  intro HS. unfold Frag.st_set_dropped. cbv zeta.
  replace (N.land (not_w 64 Consts.HAS_WAKER) (not_w 64 Consts.NOT_CANCELLED))
    with (not_w 64 (N.lor Consts.HAS_WAKER Consts.NOT_CANCELLED)) by (vm_compute; reflexivity).
  f_equal. apply andnot_tie; [exact HS | reflexivity | flags_case x | reflexivity].
Qed.

Theorem tie_set_has_result b x : small x ->
  Frag.st_set_has_result b (encode x) = (encode (set_has_result b x), tt).
Proof.
  intro HS. unfold Frag.st_set_has_result. destruct b; cbv zeta iota; f_equal.
  - apply or_tie; [reflexivity| flags_case x | reflexivity].
  - apply andnot_tie; [exact HS | reflexivity | flags_case x | reflexivity].
Qed.

Theorem tie_set_has_waker b x : small x ->
  Frag.st_set_has_waker b (encode x) = (encode (set_has_waker b x), tt).
Proof.
  intro HS. unfold Frag.st_set_has_waker. destruct b; cbv zeta iota; f_equal.
  - apply or_tie; [reflexivity| flags_case x | reflexivity].
  - apply andnot_tie; [exact HS | reflexivity | flags_case x | reflexivity].
Qed.

Theorem tie_inc x : Frag.st_inc (encode x) = (encode (inc_w x), encode x).
Proof.
  unfold Frag.st_inc. cbv zeta. f_equal. unfold encode, inc_w. destruct x as [a b c d e f g k].
  unfold flags_N. cbn [scheduled scheduling nsw has_waker completed has_result not_cancelled count w_count].
  rewrite Nat2N.inj_succ. rewrite N.mul_succ_r. rewrite N.add_assoc. reflexivity.
Qed.

Theorem tie_dec x : (1 <= count x)%nat ->
  Frag.st_dec (encode x) = (encode (dec_w nat_arith x), encode x).
Proof.
  intro H. unfold Frag.st_dec. cbv zeta. f_equal. unfold encode, dec_w. destruct x as [a b c d e f g k].
  unfold flags_N. cbn [scheduled scheduling nsw has_waker completed has_result not_cancelled count w_count apred nat_arith] in *.
  destruct k as [|k]; [inversion H|]. cbn [Nat.pred]. rewrite Nat2N.inj_succ. rewrite N.mul_succ_r.
  rewrite N.add_assoc. apply N.add_sub.
Qed.

(* ---------------------------------------------------------------------- *)
(* the predicates of Snapshot                                               *)

Lemma land_low A M : M < 2 ^ 7 -> N.land A M = N.land (A mod 2 ^ 7) M.
Proof.
  intro HM. rewrite <- (N.land_ones A 7). rewrite <- N.land_assoc. f_equal.
  rewrite N.land_comm, N.land_ones. symmetry. apply N.mod_small. exact HM.
Qed.

Lemma flagbit_split x M : M < 2 ^ 7 -> N.land (encode x) M = N.land (flags_N x) M.
Proof.
  intro HM. rewrite (land_low (encode x) M HM). unfold encode. rc_norm.
  rewrite (low_mod _ _ (flags_lt x)). reflexivity.
Qed.

Local Ltac snap_case x :=
  rewrite flagbit_split by reflexivity; destruct x as [a b c d e f g k];
  destruct a, b, c, d, e, f, g; reflexivity.

Theorem tie_snapshot x :
  Frag.snap_is_scheduled (encode x) = scheduled x
  /\ Frag.snap_is_scheduling (encode x) = scheduling x
  /\ Frag.snap_is_completed (encode x) = completed x
  /\ Frag.snap_is_cancelled (encode x) = cancelled x
  /\ Frag.snap_is_setting_waker (encode x) = negb (nsw x)
  /\ Frag.snap_has_waker (encode x) = has_waker x
  /\ Frag.snap_has_result (encode x) = has_result x
  /\ Frag.snap_count (encode x) = N.of_nat (count x).
Proof.
  unfold Frag.snap_is_scheduled, Frag.snap_is_scheduling, Frag.snap_is_completed, Frag.snap_is_cancelled,
    Frag.snap_is_setting_waker, Frag.snap_has_waker, Frag.snap_has_result, Frag.snap_count.
  repeat split; try (snap_case x).
  change Consts.RC_SHIFT with 7. rewrite N.shiftr_div_pow2. unfold encode. rc_norm. apply low_div, flags_lt.
Qed.

(* the word the code stores always fits a usize while the count does *)
Lemma encode_lt x : small x -> encode x < 2 ^ 64.
Proof.
  intro HS. unfold encode, small in *. rc_norm. pose proof (flags_lt x).
  assert (2 ^ 7 * N.of_nat (count x) <= 2 ^ 7 * (2 ^ 57 - 1)) by (apply N.mul_le_mono_l; lia).
  change (2 ^ 64) with (2 ^ 7 * (2 ^ 57 - 1) + 2 ^ 7). lia.
Qed.

Theorem state_methods_tie : forall x, small x ->
  Frag.st_start_scheduling (encode x) = (encode (start_scheduling x), encode x)
  /\ Frag.st_finish_scheduling (encode x) = (encode (finish_scheduling x), tt)
  /\ Frag.st_unschedule (encode x) = (encode (unschedule x), encode x)
  /\ Frag.st_set_cancelled (encode x) = (encode (set_cancelled x), encode x)
  /\ Frag.st_finish_running (encode x) = (encode (finish_running x), encode x)
  /\ Frag.st_start_setting_waker (encode x) = (encode (start_setting_waker x), encode x)
  /\ (forall b, Frag.st_finish_setting_waker b (encode x) = (encode (finish_setting_waker b x), encode x))
  /\ Frag.st_set_dropped (encode x) = (encode (set_dropped x), encode x)
  /\ (forall b, Frag.st_set_has_result b (encode x) = (encode (set_has_result b x), tt))
  /\ (forall b, Frag.st_set_has_waker b (encode x) = (encode (set_has_waker b x), tt))
  /\ Frag.st_inc (encode x) = (encode (inc_w x), encode x)
  /\ ((1 <= count x)%nat -> Frag.st_dec (encode x) = (encode (dec_w nat_arith x), encode x))
  /\ encode x < 2 ^ 64.
Proof.
  intros x HS.
  split; [apply tie_start_scheduling|].
  split; [apply tie_finish_scheduling, HS|].
  split; [apply tie_unschedule, HS|].
  split; [apply tie_set_cancelled, HS|].
  split; [apply tie_finish_running|].
  split; [apply tie_start_setting_waker, HS|].
  split; [intro b; apply tie_finish_setting_waker|].
  split; [apply tie_set_dropped, HS|].
  split; [intro b; apply tie_set_has_result, HS|].
  split; [intro b; apply tie_set_has_waker, HS|].
  split; [apply tie_inc|].
  split; [apply tie_dec|].
  apply encode_lt, HS.
Qed.
