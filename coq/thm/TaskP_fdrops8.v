(* generated layout: one invariant group / structural fact, one part of the labels (TaskThm.v) *)
From Compio.Model Require Import Base Task.
From Compio.Thm Require Import TaskThm.
Local Open Scope nat_scope.
Local Opaque Nat.ltb Nat.eqb Nat.leb.

Lemma fdrops_only_exec_8 s l s' : part l = 8 -> step fixed s l = Some s' -> fdrops s' <> fdrops s ->
  exec_label l = true /\ thread_of l = THome.
Proof.
  intros Hp Hs. pres_start_part s l Hs Hp; cbn; intros Hne; try (split; reflexivity); exfalso; apply Hne; reflexivity.
Qed.
