(* WakeAcceptThm.v — the driver-level acceptor (model/RunC03.v, [dstep]) is the
   restriction of the LTS of model/Wake.v to the driver-level variables: every
   run of the LTS, projected to the hook events its steps emit (in the order of
   the atomic operations), is accepted, and the acceptor's state stays the
   projection of the LTS state. *)
From Compio.Model Require Import Base Wake RunC03.
From Compio.Gen Require Import Consts.
From Compio.Thm Require Import WakeThm.
Local Open Scope nat_scope.

Definition tid (i : nat) : N := N.of_nat (S i).

(* the hook events a step emits: (kind, thread, arg) *)
Definition enter_arg (s : st) : N :=
  let blk := nw (r s) && negb (rem (r s)) && negb (ext (c s)) in
  let want := if uring (c s) then (if nw (r s) then 1 else 0)%N else 0%N in
  (2 * want + (if blk then 1 else 0))%N.

Definition events (s : st) (l : label) : list (N * N * N) :=
  let f := flag (d s) in
  match l with
  | LR =>
    match pc (r s) with
    | RReset | RFlushReset => [(21%N, 0%N, f)]
    | RArm => if need_push (d s) then [(25%N, 0%N, 0%N)] else []
    | RFlushArm => if uring (c s) && need_push (d s) then [(25%N, 0%N, 0%N)] else []
    | REnter =>
      (27%N, 0%N, enter_arg s) ::
      (if nw (r s) && negb (rem (r s)) && negb (ext (c s)) then [] else [(28%N, 0%N, 0%N)])
    | RFlushSubmit => [(27%N, 0%N, 0%N); (28%N, 0%N, 0%N)]
    | RWait => [(28%N, 0%N, 0%N)]
    | RSetAwake1 | RSetAwake2 => [(20%N, 0%N, 0%N)]
    | RClear =>
      match todo (r s) with
      | CNotify :: _ => [(24%N, 0%N, 0%N)]
      | CFinal :: _ => [(26%N, 0%N, 0%N); (24%N, 0%N, 0%N)]
      | _ => []
      end
    | _ => []
    end
  | LTimeout => match pc (r s) with RWait => [(28%N, 0%N, 0%N)] | _ => [] end
  | LLocal _ => (22%N, 0%N, f) :: (if fl_idle f then [(23%N, 0%N, 0%N)] else [])
  | LW i =>
    match nth_error (wk s) i with
    | Some w =>
      match wp w with
      | WFetch _ => [(22%N, tid i, f)]
      | WWrite _ => [(23%N, tid i, 0%N)]
      | _ => []
      end
    | None => []
    end
  | _ => []
  end.

Definition ph_rel (s : st) (ph : dphase) : Prop :=
  let u := uring (c s) in
  match pc (r s) with
  | RArm => ph = P1 /\ u = true
  | REnter => ph = P1 \/ (ph = P2 /\ u = true)
  | RWait => ph = P3
  | RSetAwake1 => ph = P4
  | RPollEntries | RClear => ph = P5 /\ u = true
  | RSetAwake2 => ph = P5
  | RFlushSubmit => (between_calls u ph = true \/ ph = F1) /\ u = true
  | RFlushReset => if u then ph = F3 else between_calls u ph = true
  | _ => between_calls u ph = true
  end.

Record Rel (s : st) (x : dst) : Prop := mk_rel {
  r_flag : dflag x = flag (d s);
  r_need : dneed x = need_push (d s);
  r_nw : (pc (r s) = RArm \/ pc (r s) = REnter \/ pc (r s) = RWait) -> dnw x = nw (r s);
  r_ph : ph_rel s (dph x);
  r_nodup : NoDup (owing x);
  r_zero : mem 0 (owing x) = false;
  r_owing : forall i, mem (tid i) (owing x) = true <->
                      (exists w, nth_error (wk s) i = Some w /\ is_write (wp w) = true)
}.

Lemma mem_in x l : mem x l = true <-> In x l.
Proof.
  unfold mem. rewrite existsb_exists. split.
  - intros (y & Hy & E). apply N.eqb_eq in E. subst. exact Hy.
  - intros H. exists x. split; [exact H|apply N.eqb_refl].
Qed.

Lemma mem_remove1_neq x y l : x <> y -> mem x (remove1 y l) = mem x l.
Proof.
  intros Hne. induction l as [|a l IH]; [reflexivity|]. cbn [remove1].
  destruct (N.eqb y a) eqn:E.
  - apply N.eqb_eq in E. subst a. cbn [mem existsb].
    destruct (N.eqb x y) eqn:E2; [apply N.eqb_eq in E2; contradiction|reflexivity].
  - unfold mem in *. cbn [existsb]. rewrite IH. reflexivity.
Qed.

Lemma mem_remove1_same y l : NoDup l -> mem y (remove1 y l) = false.
Proof.
  intros Hnd. induction Hnd as [|a l Hni Hnd IH]; [reflexivity|]. cbn [remove1].
  destruct (N.eqb y a) eqn:E.
  - apply N.eqb_eq in E. subst a. destruct (mem y l) eqn:Hm; [|reflexivity].
    apply mem_in in Hm. contradiction.
  - unfold mem in *. cbn [existsb]. rewrite E, IH. reflexivity.
Qed.

Lemma in_remove1 x y l : In x (remove1 y l) -> In x l.
Proof.
  induction l as [|a l IH]; [auto|]. cbn [remove1]. destruct (N.eqb y a).
  - intros H. right. exact H.
  - intros [H|H]; [left; exact H|right; auto].
Qed.

Lemma nodup_remove1 y l : NoDup l -> NoDup (remove1 y l).
Proof.
  intros Hnd. induction Hnd as [|a l Hni Hnd IH]; [constructor|]. cbn [remove1].
  destruct (N.eqb y a); [exact Hnd|]. constructor; [|exact IH].
  intros H. apply Hni. eapply in_remove1; eauto.
Qed.

Lemma tid_inj i j : tid i = tid j -> i = j.
Proof. unfold tid. intros H. apply Nat2N.inj in H. lia. Qed.
Lemma tid_nz i : tid i <> 0%N.
Proof. unfold tid. lia. Qed.

(* writers of the thread list after a [seen]-only change *)
Lemma writer_map g ws i :
  (forall w, wp (g w) = wp w) ->
  (exists w, nth_error (map g ws) i = Some w /\ is_write (wp w) = true) <->
  (exists w, nth_error ws i = Some w /\ is_write (wp w) = true).
Proof.
  intros Hg. split.
  - intros (w & Hn & Hw). apply nth_error_map_inv in Hn. destruct Hn as (w0 & Hn0 & ->).
    exists w0. rewrite Hg in Hw. auto.
  - intros (w & Hn & Hw). exists (g w). split; [apply map_nth_error; exact Hn|rewrite Hg; exact Hw].
Qed.

(* a frame: the thread list keeps its writers, flag / need / phase as stated *)
Lemma rel_frame s s' x x' :
  dflag x' = flag (d s') -> dneed x' = need_push (d s') ->
  ((pc (r s') = RArm \/ pc (r s') = REnter \/ pc (r s') = RWait) -> dnw x' = nw (r s')) ->
  ph_rel s' (dph x') -> owing x' = owing x ->
  (forall i, (exists w, nth_error (wk s') i = Some w /\ is_write (wp w) = true) <->
             (exists w, nth_error (wk s) i = Some w /\ is_write (wp w) = true)) ->
  Rel s x -> Rel s' x'.
Proof.
  intros Hf Hn Hnw Hp Ho Hw [R1 R2 R3 R4 R5 R6 R7].
  constructor; auto; rewrite ?Ho; auto.
  intros i. rewrite Hw. apply R7.
Qed.

Ltac drel H := destruct H as [R_flag R_need R_nw R_ph R_nodup R_zero R_owing].
Ltac dx x := destruct x as [xf xn xp xw xo xk].

Lemma wk_same_writers s s' : wk s' = wk s ->
  forall i, (exists w, nth_error (wk s') i = Some w /\ is_write (wp w) = true) <->
            (exists w, nth_error (wk s) i = Some w /\ is_write (wp w) = true).
Proof. intros ->. tauto. Qed.

Lemma sim_rt s x s' :
  Inv s -> Rel s x -> rt_step current s = Some s' ->
  exists x', dsteps (uring (c s)) x (events s LR) = Some x' /\ Rel s' x'.
Proof.
  intros [H1 _ _] HR Hs. pose proof (i_need _ H1) as Hneed. clear H1.
  drel HR. dx x. dst s. unfold events, ph_rel, enter_arg in *. red_all.
  cbn [dflag dneed dph dnw owing] in *. subst xf xn.
  destruct p.
  all: unfold rt_step in Hs; red_all.
  all: unfold arm, submit, return_ok, do_reset, apply_cqe, ready, current in Hs; red_all;
       cbn [v_flush_arms isnil] in Hs.
  all: try (destruct ur, ex, nw0, rm).
  all: split_hs Hs; try discriminate; inv_some Hs.
  all: try (destruct np; [solve [cbn [np_pc] in Hneed; specialize (Hneed eq_refl eq_refl); discriminate Hneed]|]).
  all: try cbn [between_calls negb] in R_ph.
  all: repeat match goal with
              | H : _ /\ _ |- _ => destruct H
              | H : _ \/ _ |- _ => destruct H
              | H : ?v = _ |- _ => is_var v; match type of v with dphase => subst v end
              end; try discriminate.
  all: try match goal with H : between_calls _ ?v = true |- _ => is_var v; destruct v; try discriminate H end.
  all: try (specialize (R_nw ltac:(auto)); cbn [nw r] in R_nw; match type of R_nw with ?v = _ => subst v end).
  all: cbn [dsteps dstep N.eqb Pos.eqb andb orb negb between_calls enter_arg N.mul N.add N.div N.odd
            dflag dneed dph dnw owing nwakes isnil];
       rewrite ?N.eqb_refl; cbn [andb orb negb];
       repeat match goal with H : between_calls _ _ = true |- _ => rewrite H end;
       cbn [andb orb negb].
  all: try (eexists; split; [reflexivity|];
            constructor; unfold ph_rel; red_all;
            cbn [dflag dneed dph dnw owing nw r between_calls negb]; auto;
            try (intros [HH|[HH|HH]]; discriminate);
            try (intros i; rewrite ?writer_map by (apply consume_main_wp || apply consume_task_wp); apply R_owing);
            fail).
Qed.

Lemma sim_kernel s x l s' :
  (l = LKNotify \/ l = LKOther \/ l = LKTerm \/ l = LSkip) -> Rel s x -> step s l = Some s' ->
  exists x', dsteps (uring (c s)) x (events s l) = Some x' /\ Rel s' x'.
Proof.
  intros Hl HR Hs. exists x. drel HR. dst s. unfold step, step_v in Hs. red_all.
  destruct Hl as [->|[->|[->| ->]]]; cbn [events]; (split; [reflexivity|]).
  - destruct (_ && _); [|discriminate]. inv_some Hs.
    constructor; unfold ph_rel in *; red_all; auto.
  - inv_some Hs. constructor; unfold ph_rel in *; red_all; auto.
  - destruct (_ && _); [|discriminate]. inv_some Hs.
    constructor; unfold ph_rel in *; red_all; auto.
  - destruct p; try discriminate. destruct ur; [discriminate|]. inv_some Hs.
    constructor; unfold ph_rel in *; red_all; auto.
    + intros [H|[H|H]]; discriminate.
    + cbn [between_calls negb]. rewrite R_ph. reflexivity.
Qed.

Lemma sim_timeout s x s' :
  Rel s x -> rt_timeout s = Some s' ->
  exists x', dsteps (uring (c s)) x (events s LTimeout) = Some x' /\ Rel s' x'.
Proof.
  intros HR Hs. drel HR. dx x. dst s. unfold rt_timeout, return_ok in Hs.
  unfold events, ph_rel in *. red_all. cbn [dflag dneed dph dnw owing] in *. subst xf xn.
  destruct p; try discriminate.
  - (* RExtWait *)
    inv_some Hs. eexists. split; [reflexivity|].
    constructor; unfold ph_rel; red_all; cbn [dflag dneed dph dnw owing]; auto.
    intros [H|[H|H]]; discriminate.
  - (* RWait *)
    subst xp. cbn [dsteps dstep N.eqb Pos.eqb andb negb dph].
    destruct ur; inv_some Hs; (eexists; split; [reflexivity|]);
      constructor; unfold ph_rel; red_all; cbn [dflag dneed dph dnw owing between_calls]; auto;
      intros [H|[H|H]]; discriminate.
Qed.

Lemma mem_cons x y l : mem x (y :: l) = N.eqb x y || mem x l.
Proof. reflexivity. Qed.

Lemma tid_eqb_neq i j : i <> j -> N.eqb (tid j) (tid i) = false.
Proof.
  intros H. destruct (N.eqb (tid j) (tid i)) eqn:E; [|reflexivity].
  apply N.eqb_eq in E. apply tid_inj in E. congruence.
Qed.

Lemma sim_local s x t s' :
  Rel s x -> rt_local current t s = Some s' ->
  exists x', dsteps (uring (c s)) x (events s (LLocal t)) = Some x' /\ Rel s' x'.
Proof.
  intros HR Hs. drel HR. dx x. dst s. unfold rt_local, local_notify, local_point in Hs.
  cbn [v_local_wakes current] in Hs.
  unfold events, ph_rel in *. red_all. cbn [dflag dneed dph dnw owing] in *. subst xf xn.
  assert (Hz : mem 0 xo = false) by exact R_zero.
  destruct p; cbn [andb] in Hs; try discriminate; try (destruct ex; cbn [andb] in Hs; try discriminate);
    destruct (Nat.ltb t (length sc)); try discriminate;
    destruct (fl_idle fl) eqn:Hidle; inv_some Hs;
    cbn [dsteps dstep N.eqb Pos.eqb andb negb dflag dneed dph dnw owing nwakes];
    rewrite N.eqb_refl, Hz; cbn [andb negb]; rewrite ?Hidle;
    cbn [dsteps dstep mem existsb N.eqb orb remove1 dflag dneed dph dnw owing nwakes];
    (eexists; split; [reflexivity|]);
    constructor; unfold ph_rel; red_all; cbn [dflag dneed dph dnw owing]; auto;
    intros [H|[H|H]]; discriminate.
Qed.

(* thread i moves between two program points that are not the notifier write *)
Lemma rel_thread s s' x i w w1 :
  c s' = c s -> r s' = r s -> d s' = d s ->
  nth_error (wk s) i = Some w -> wk s' = upd (wk s) i w1 ->
  is_write (wp w) = false -> is_write (wp w1) = false ->
  Rel s x -> Rel s' x.
Proof.
  intros Hc Hr Hd Hn Hw Ho Hn1 HR. drel HR.
  constructor; unfold ph_rel in *; rewrite ?Hc, ?Hr, ?Hd; auto.
  intros j. rewrite (R_owing j), Hw. destruct (Nat.eq_dec i j) as [->|Hne].
  - split; intros (w' & Hn' & Hw').
    + rewrite Hn in Hn'. inversion Hn'; subst. congruence.
    + rewrite nth_error_upd_eq in Hn' by (eapply nth_error_lt; eauto). inversion Hn'; subst. congruence.
  - rewrite nth_error_upd_neq by exact Hne. tauto.
Qed.

Lemma not_writer_mem s x i w :
  Rel s x -> nth_error (wk s) i = Some w -> is_write (wp w) = false -> mem (tid i) (owing x) = false.
Proof.
  intros HR Hn Hw. destruct (mem (tid i) (owing x)) eqn:E; [|reflexivity].
  apply (r_owing _ _ HR) in E. destruct E as (w' & Hn' & Hw'). rewrite Hn in Hn'.
  inversion Hn'; subst. congruence.
Qed.

Lemma sim_fetch s x i w k :
  Rel s x -> nth_error (wk s) i = Some w -> wp w = WFetch k ->
  exists x',
    dsteps (uring (c s)) x [(22%N, tid i, flag (d s))] = Some x' /\
    Rel (set_w (s_d (d_flag (fl_wake (flag (d s))) (d s)) s) i
           (w_wp (if fl_idle (flag (d s)) then WWrite k else after k) w)) x'.
Proof.
  intros HR Hn Hwp.
  assert (Hm : mem (tid i) (owing x) = false).
  { eapply not_writer_mem; eauto. rewrite Hwp. reflexivity. }
  pose proof HR as HR0. drel HR. dx x. cbn [dflag dneed dph dnw owing] in *. subst xf.
  cbn [dsteps dstep N.eqb Pos.eqb dflag dneed dph dnw owing nwakes].
  rewrite N.eqb_refl, Hm. cbn [andb negb].
  eexists. split; [reflexivity|].
  set (f := flag (d s)) in *.
  constructor; unfold ph_rel in *; cbn [dflag dneed dph dnw owing c d r wk set_w s_wk s_d d_flag flag need_push]; auto.
  - destruct (fl_idle f); [|exact R_nodup]. constructor; [|exact R_nodup].
    intros Hin. apply mem_in in Hin. congruence.
  - destruct (fl_idle f); [|exact R_zero]. rewrite mem_cons, R_zero.
    destruct (N.eqb 0 (tid i)) eqn:E; [apply N.eqb_eq in E; exfalso; eapply tid_nz; eauto|reflexivity].
  - intros j. destruct (Nat.eq_dec i j) as [<-|Hne].
    + rewrite nth_error_upd_eq by (eapply nth_error_lt; eauto).
      destruct (fl_idle f).
      * rewrite mem_cons, N.eqb_refl. cbn [orb]. split; [intros _|reflexivity].
        eexists. split; [reflexivity|reflexivity].
      * rewrite Hm. split; [discriminate|]. intros (w' & Hw' & Hx). inversion Hw'; subst.
        cbn [wp w_wp] in Hx. rewrite after_not_write in Hx. discriminate.
    + rewrite nth_error_upd_neq by exact Hne. rewrite <- (R_owing j).
      destruct (fl_idle f); [|tauto]. rewrite mem_cons, (tid_eqb_neq i j Hne). cbn [orb]. tauto.
Qed.

Lemma sim_write s x i w k :
  Rel s x -> nth_error (wk s) i = Some w -> wp w = WWrite k ->
  exists x',
    dsteps (uring (c s)) x [(23%N, tid i, 0%N)] = Some x' /\
    Rel (set_w (s_d (d_efd (notify_efd (c s) (efd (d s))) (d s)) s) i (w_wp (after k) w)) x'.
Proof.
  intros HR Hn Hwp.
  assert (Hm : mem (tid i) (owing x) = true).
  { apply (r_owing _ _ HR). exists w. rewrite Hwp. auto. }
  drel HR. dx x. cbn [dflag dneed dph dnw owing] in *.
  cbn [dsteps dstep N.eqb Pos.eqb dflag dneed dph dnw owing nwakes]. rewrite Hm.
  eexists. split; [reflexivity|].
  constructor; unfold ph_rel in *; cbn [dflag dneed dph dnw owing c d r wk set_w s_wk s_d d_efd flag need_push]; auto.
  - apply nodup_remove1. exact R_nodup.
  - rewrite mem_remove1_neq; [exact R_zero|]. intros E. eapply tid_nz. symmetry. exact E.
  - intros j. destruct (Nat.eq_dec i j) as [<-|Hne].
    + rewrite nth_error_upd_eq by (eapply nth_error_lt; eauto).
      rewrite mem_remove1_same by exact R_nodup. split; [discriminate|].
      intros (w' & Hw' & Hx). inversion Hw'; subst. cbn [wp w_wp] in Hx.
      rewrite after_not_write in Hx. discriminate.
    + rewrite nth_error_upd_neq by exact Hne. rewrite <- (R_owing j).
      rewrite mem_remove1_neq; [tauto|]. intros E. apply tid_inj in E. congruence.
Qed.

Lemma sim_w s x i s' :
  Rel s x -> w_step current s i = Some s' ->
  exists x', dsteps (uring (c s)) x (events s (LW i)) = Some x' /\ Rel s' x'.
Proof.
  intros HR Hs. unfold w_step in Hs. unfold events.
  destruct (nth_error (wk s) i) as [w|] eqn:Hn; [|discriminate].
  destruct (wp w) eqn:Hwp; destruct (tgt w) as [t|] eqn:Htg; try discriminate.
  all: try (
    (* no event: the thread moves between non-writing points *)
    exists x; split; [reflexivity|];
    repeat match type of Hs with
           | context [match ?y with _ => _ end] => destruct y eqn:?
           | context [if ?b then _ else _] => destruct b eqn:?
           end; try discriminate; inv_some Hs; try exact HR;
    (eapply (rel_thread s _ x i w); try reflexivity; eauto;
     rewrite ?Hwp; cbn [wp w_wp is_write]; try reflexivity;
     repeat match goal with |- context [if ?b then _ else _] => destruct b end; reflexivity); fail).
  all: inv_some Hs.
  - eapply sim_fetch; eauto.
  - eapply sim_fetch; eauto.
  - eapply sim_write; eauto.
  - eapply sim_write; eauto.
Qed.

Theorem acceptor_simulates s x l s' :
  Inv s -> Rel s x -> step s l = Some s' ->
  exists x', dsteps (uring (c s)) x (events s l) = Some x' /\ Rel s' x'.
Proof.
  intros Hi HR Hs. destruct l.
  - apply sim_rt; auto.
  - apply sim_timeout; auto.
  - apply (sim_kernel s x LSkip); auto.
  - apply sim_local; auto.
  - apply (sim_kernel s x LKNotify); auto.
  - apply (sim_kernel s x LKOther); auto.
  - apply (sim_kernel s x LKTerm); auto.
  - apply sim_w; auto.
Qed.

Fixpoint trace (s : st) (ls : list label) : list (N * N * N) :=
  match ls with
  | [] => []
  | l :: rest =>
    events s l ++ match step s l with Some s' => trace s' rest | None => [] end
  end.

Lemma dsteps_app u x e1 e2 :
  dsteps u x (e1 ++ e2) = match dsteps u x e1 with Some x' => dsteps u x' e2 | None => None end.
Proof.
  revert x. induction e1 as [|[[k th] a] e1 IH]; intros x; [reflexivity|].
  cbn [app dsteps]. destruct (dstep u x k th a); [apply IH|reflexivity].
Qed.

Theorem run_accepted ls : forall s x s',
  Inv s -> Rel s x -> steps s ls = Some s' ->
  exists x', dsteps (uring (c s)) x (trace s ls) = Some x' /\ Rel s' x'.
Proof.
  induction ls as [|l ls IH]; intros s x s' Hi HR Hs.
  - cbn in Hs. inv_some Hs. exists x. split; [reflexivity|exact HR].
  - unfold steps in Hs. cbn [steps_v] in Hs. cbn [trace]. fold (step s l).
    destruct (step_v current s l) as [s1|] eqn:E; [|discriminate].
    change (step_v current s l) with (step s l) in E. rewrite E.
    destruct (acceptor_simulates s x l s1 Hi HR E) as (x1 & Hd & HR1).
    rewrite dsteps_app, Hd.
    assert (Hc : uring (c s1) = uring (c s)) by (rewrite (step_cfg _ _ _ E); reflexivity).
    rewrite <- Hc. apply IH; auto. eapply inv_step; eauto.
Qed.

Lemma rel_init cf n tg : Rel (init cf n tg) dinit.
Proof.
  constructor; cbn; auto.
  - constructor.
  - intros i. split; [discriminate|]. intros (w & Hn & Hw).
    apply nth_error_init_wk in Hn. rewrite Hn in Hw. discriminate.
Qed.

(* every run of the LTS from an initial state, projected to its hook events,
   is accepted by the driver-level acceptor *)
Theorem reachable_accepted cf n tg ls s :
  targets_ok n tg -> steps (init cf n tg) ls = Some s ->
  exists x, dsteps (uring cf) dinit (trace (init cf n tg) ls) = Some x /\ Rel s x.
Proof.
  intros Hok Hs. apply (run_accepted ls (init cf n tg) dinit s); auto.
  - apply init_inv. exact Hok.
  - apply rel_init.
Qed.

Theorem model_runs_accepted cf n tg ls s :
  targets_ok n tg -> steps (init cf n tg) ls = Some s ->
  exists x, dsteps (uring cf) dinit (trace (init cf n tg) ls) = Some x /\
            dflag x = flag (d s) /\ dneed x = need_push (d s) /\
            (forall i, mem (tid i) (owing x) = true <->
                       exists w, nth_error (wk s) i = Some w /\ is_write (wp w) = true).
Proof.
  intros Hok Hs. destruct (reachable_accepted cf n tg ls s Hok Hs) as (x & Hd & HR).
  exists x. split; [exact Hd|]. destruct HR. auto.
Qed.
