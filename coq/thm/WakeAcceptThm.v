(* WakeAcceptThm.v — the driver-level acceptor (model/RunC03.v, [dstep]) is the
   restriction of the LTS of model/Wake.v to the driver-level variables: every
   run of the LTS, projected to the hook events its steps emit (in the order of
   the atomic operations), is accepted, and the acceptor's state stays the
   projection of the LTS state. *)
From Compio.Model Require Import Base Wake RunC03.
From Compio.Gen Require Import Consts.
From Compio.Thm Require Import WakeThm.
Local Open Scope nat_scope.

Definition tid (i : nat) : N := N.of_nat (S i).

(* the hook events a step emits: (kind, thread, arg) *)
Definition enter_arg (s : st) : N :=
  let blk := nw (r s) && negb (rem (r s)) && negb (ext (c s)) in
  let want := if uring (c s) then (if nw (r s) then 1 else 0)%N else 0%N in
  (2 * want + (if blk then 1 else 0))%N.

Definition events (s : st) (l : label) : list (N * N * N) :=
  let f := flag (d s) in
  match l with
  | LR =>
    match pc (r s) with
    | RReset | RFlushReset => [(21%N, 0%N, f)]
    | RArm => if need_push (d s) then [(25%N, 0%N, 0%N)] else []
    | RFlushArm => if uring (c s) && need_push (d s) then [(25%N, 0%N, 0%N)] else []
    | REnter =>
      (27%N, 0%N, enter_arg s) ::
      (if nw (r s) && negb (rem (r s)) && negb (ext (c s)) then [] else [(28%N, 0%N, 0%N)])
    | RFlushSubmit => [(27%N, 0%N, 0%N); (28%N, 0%N, 0%N)]
    | RWait => [(28%N, 0%N, 0%N)]
    | RSetAwake1 | RSetAwake2 => [(20%N, 0%N, 0%N)]
    | RClear =>
      match todo (r s) with
      | CNotify :: _ => [(24%N, 0%N, 0%N)]
      | CFinal :: _ => [(26%N, 0%N, 0%N); (24%N, 0%N, 0%N)]
      | _ => []
      end
    | _ => []
    end
  | LTimeout => match pc (r s) with RWait => [(28%N, 0%N, 0%N)] | _ => [] end
  | LLocal _ => (22%N, 0%N, f) :: (if fl_idle f then [(23%N, 0%N, 0%N)] else [])
  | LW i =>
    match nth_error (wk s) i with
    | Some w =>
      match wp w with
      | WFetch _ => [(22%N, tid i, f)]
      | WWrite _ => [(23%N, tid i, 0%N)]
      | _ => []
      end
    | None => []
    end
  | _ => []
  end.

Definition ph_rel (s : st) (ph : dphase) : Prop :=
  let u := uring (c s) in
  match pc (r s) with
  | RArm => ph = P1 /\ u = true
  | REnter => ph = P1 \/ (ph = P2 /\ u = true)
  | RWait => ph = P3
  | RSetAwake1 => ph = P4
  | RPollEntries | RClear => ph = P5 /\ u = true
  | RSetAwake2 => ph = P5
  | RFlushSubmit => (between_calls u ph = true \/ ph = F1) /\ u = true
  | RFlushReset => if u then ph = F3 else between_calls u ph = true
  | _ => between_calls u ph = true
  end.

Record Rel (s : st) (x : dst) : Prop := mk_rel {
  r_flag : dflag x = flag (d s);
  r_need : dneed x = need_push (d s);
  r_nw : (pc (r s) = RArm \/ pc (r s) = REnter \/ pc (r s) = RWait) -> dnw x = nw (r s);
  r_ph : ph_rel s (dph x);
  r_nodup : NoDup (owing x);
  r_zero : mem 0 (owing x) = false;
  r_owing : forall i, mem (tid i) (owing x) = true <->
                      (exists w, nth_error (wk s) i = Some w /\ is_write (wp w) = true)
}.

Lemma mem_in x l : mem x l = true <-> In x l.
Proof.
  unfold mem. rewrite existsb_exists. split.
  - intros (y & Hy & E). apply N.eqb_eq in E. subst. exact Hy.
  - intros H. exists x. split; [exact H|apply N.eqb_refl].
Qed.

Lemma mem_remove1_neq x y l : x <> y -> mem x (remove1 y l) = mem x l.
Proof.
  intros Hne. induction l as [|a l IH]; [reflexivity|]. cbn [remove1].
  destruct (N.eqb y a) eqn:E.
  - apply N.eqb_eq in E. subst a. cbn [mem existsb].
    destruct (N.eqb x y) eqn:E2; [apply N.eqb_eq in E2; contradiction|reflexivity].
  - unfold mem in *. cbn [existsb]. rewrite IH. reflexivity.
Qed.

Lemma mem_remove1_same y l : NoDup l -> mem y (remove1 y l) = false.
Proof.
  intros Hnd. induction Hnd as [|a l Hni Hnd IH]; [reflexivity|]. cbn [remove1].
  destruct (N.eqb y a) eqn:E.
  - apply N.eqb_eq in E. subst a. destruct (mem y l) eqn:Hm; [|reflexivity].
    apply mem_in in Hm. contradiction.
  - unfold mem in *. cbn [existsb]. rewrite E, IH. reflexivity.
Qed.

Lemma in_remove1 x y l : In x (remove1 y l) -> In x l.
Proof.
  induction l as [|a l IH]; [auto|]. cbn [remove1]. destruct (N.eqb y a).
  - intros H. right. exact H.
  - intros [H|H]; [left; exact H|right; auto].
Qed.

Lemma nodup_remove1 y l : NoDup l -> NoDup (remove1 y l).
Proof.
  intros Hnd. induction Hnd as [|a l Hni Hnd IH]; [constructor|]. cbn [remove1].
  destruct (N.eqb y a); [exact Hnd|]. constructor; [|exact IH].
  intros H. apply Hni. eapply in_remove1; eauto.
Qed.

Lemma tid_inj i j : tid i = tid j -> i = j.
Proof. unfold tid. intros H. apply Nat2N.inj in H. lia. Qed.
Lemma tid_nz i : tid i <> 0%N.
Proof. unfold tid. lia. Qed.

(* writers of the thread list after a [seen]-only change *)
Lemma writer_map g ws i :
  (forall w, wp (g w) = wp w) ->
  (exists w, nth_error (map g ws) i = Some w /\ is_write (wp w) = true) <->
  (exists w, nth_error ws i = Some w /\ is_write (wp w) = true).
Proof.
  intros Hg. split.
  - intros (w & Hn & Hw). apply nth_error_map_inv in Hn. destruct Hn as (w0 & Hn0 & ->).
    exists w0. rewrite Hg in Hw. auto.
  - intros (w & Hn & Hw). exists (g w). split; [apply map_nth_error; exact Hn|rewrite Hg; exact Hw].
Qed.

(* a frame: the thread list keeps its writers, flag / need / phase as stated *)
Lemma rel_frame s s' x x' :
  dflag x' = flag (d s') -> dneed x' = need_push (d s') ->
  ((pc (r s') = RArm \/ pc (r s') = REnter \/ pc (r s') = RWait) -> dnw x' = nw (r s')) ->
  ph_rel s' (dph x') -> owing x' = owing x ->
  (forall i, (exists w, nth_error (wk s') i = Some w /\ is_write (wp w) = true) <->
             (exists w, nth_error (wk s) i = Some w /\ is_write (wp w) = true)) ->
  Rel s x -> Rel s' x'.
Proof.
  intros Hf Hn Hnw Hp Ho Hw [R1 R2 R3 R4 R5 R6 R7].
  constructor; auto; rewrite ?Ho; auto.
  intros i. rewrite Hw. apply R7.
Qed.
