(* ActorThm.v — invariants of the actor LTS (model/Actor.v), proved for every
   reachable state, i.e. over all interleavings of any number of sending /
   stopping threads with the actor task; the registry invariants; the routing
   theorem of ProcessGroup::send. *)
From Compio.Model Require Import Base Actor.

(* ---------------------------------------------------------------------- *)
(* small facts                                                             *)

Lemma beh_eqb_eq a b : beh_eqb a b = true -> a = b.
Proof. destruct a, b; cbn; intros H; try discriminate; reflexivity. Qed.

Lemma msg_eqb_eq a b : msg_eqb a b = true -> a = b.
Proof.
  destruct a as [i c x], b as [j d y]. unfold msg_eqb. cbn [mid mcall mbeh].
  intros H. apply andb_true_iff in H. destruct H as [H Hb].
  apply andb_true_iff in H. destruct H as [Hi Hc].
  apply Nat.eqb_eq in Hi. apply Bool.eqb_prop in Hc. apply beh_eqb_eq in Hb. subst. reflexivity.
Qed.

Lemma msg_eqb_refl a : msg_eqb a a = true.
Proof.
  destruct a as [i c x]. unfold msg_eqb. cbn [mid mcall mbeh].
  rewrite Nat.eqb_refl, Bool.eqb_reflx. destruct x; reflexivity.
Qed.

Lemma remove1_spec m l p : remove1 m l = Some p -> In m l /\ incl p l.
Proof.
  revert p; induction l as [|x l IH]; intros p H; cbn [remove1] in H; [discriminate|].
  destruct (msg_eqb m x) eqn:E.
  - inversion H; subst. apply msg_eqb_eq in E. subst. split; [left; reflexivity|].
    intros y Hy. right. exact Hy.
  - destruct (remove1 m l) as [r|]; [|discriminate]. inversion H; subst.
    destruct (IH r eq_refl) as [Hin Hinc]. split; [right; exact Hin|].
    intros y [->|Hy]; [left; reflexivity|right; apply Hinc; exact Hy].
Qed.

Lemma incl_trans' {A} (a b c : list A) : incl a b -> incl b c -> incl a c.
Proof. intros H1 H2 x Hx. apply H2, H1, Hx. Qed.

(* ---------------------------------------------------------------------- *)
(* Part 1: the invariant of one actor (current code: step = step_gen true)  *)

Definition shape (s : ast) : Prop :=
  match pc s with
  | PPreStart => tr s = [] /\ handled s = []
  | PStartAck | PPostStart => tr s = [LPreStart true] /\ handled s = []
  | PSelStop | PSelMsg | PHandling _ =>
    tr s = LPreStart true :: LPostStart true :: map LHandle (handled s)
  | PBeginStop _ | PPreStop _ => started_shape (tr s) (handled s)
  | PDrain (CPostStop _) | PDropRx (CPostStop _) | PPostStop _ =>
    exists t a, tr s = t ++ [LPreStop a] /\ started_shape t (handled s)
  | PGone (FExit _) =>
    exists t a b, tr s = t ++ [LPreStop a; LPostStop b] /\ started_shape t (handled s)
  | PDrain (CFin FStartFailed) | PDropRx (CFin FStartFailed) | PGone FStartFailed =>
    tr s = [LPreStart false] /\ handled s = []
  | PDrain (CFin FCancelled) | PDropRx (CFin FCancelled) | PGone FCancelled =>
    cancelled_shape (tr s) (handled s)
  | PDrain (CFin (FExit _)) | PDropRx (CFin (FExit _)) => False
  end.

Record Inv (s : ast) : Prop := mk_Inv {
  iA : accepted s = handled s ++ drained s ++ queue s;
  iB : pre_drain (pc s) = true -> drained s = [] /\ late s = [];
  iC : match pc s with
       | PHandling m => handled s = released s ++ [m]
       | _ => released s = handled s ++ drained s
       end;
  iD : shape s;
  iK : rx s = negb (post_drop (pc s));
  iL : pre_drain (pc s) = false -> queue s = late s;
  iJ1 : stopping s = true -> incl (passed s) (overlap s);
  iJ2 : finishing (pc s) = true -> stopping s = true /\ incl (late s) (overlap s)
}.

Lemma init_inv c : Inv (init c).
Proof.
  constructor; cbn; auto; try discriminate.
Qed.

Ltac brk H :=
  repeat match type of H with
         | context [match ?x with _ => _ end] => destruct x eqn:?; try discriminate H
         | context [if ?b then _ else _] => destruct b eqn:?; try discriminate H
         end.

Ltac fin_lists :=
  repeat match goal with
         | H : _ /\ _ |- _ => destruct H
         | H : true = true -> _ |- _ => specialize (H eq_refl)
         | H : ?a = ?a -> _ |- _ => specialize (H eq_refl)
         end;
  subst; cbn [app] in *; repeat rewrite app_nil_r in *; repeat rewrite <- app_assoc in *;
  cbn [app] in *.

Theorem step_inv s e s' : Inv s -> step s e = Some s' -> Inv s'.
Proof.
  intros [A B C D K L J1 J2] H.
  destruct s as [cp qu sl st rxx p pa sw ac ha dr re ov la t].
  unfold shape in D. cbn [cap queue slot stopping rx pc passed swapped accepted handled drained
                          released overlap late tr] in *.
  unfold step, step_gen in H.
  destruct e;
    unfold log, set_stopping, closed, w_queue, w_slot, w_rx, w_pc, w_passed, w_swapped, w_accepted, w_handled,
           w_drained, w_released, w_late, w_tr, in_drop_window, drop_receiver in H;
    cbn [cap queue slot stopping rx pc passed swapped accepted handled drained
         released overlap late tr] in H.
  - (* ESendClosed *)
    brk H. injection H as <-. constructor; assumption.
  - (* ESendPass *)
    brk H. injection H as <-.
    apply orb_false_iff in Heqb. destruct Heqb as [Hst _].
    constructor; cbn; auto. rewrite Hst. intros Hx; discriminate Hx.
  - (* ESendPush *)
    destruct (remove1 m pa) as [pa'|] eqn:Hrm; [|discriminate].
    destruct (remove1_spec _ _ _ Hrm) as [Hin Hinc].
    destruct r.
    + (* Ok *)
      destruct (rxx && Nat.ltb (length qu) cp) eqn:Hc; [|discriminate].
      apply andb_true_iff in Hc. destruct Hc as [Hrx _].
      injection H as <-.
      constructor; cbn [cap queue slot stopping rx pc passed swapped accepted handled drained
                        released overlap late tr].
      * rewrite A. rewrite <- !app_assoc. reflexivity.
      * intros Hp. destruct (B Hp) as [-> ->]. split; [reflexivity|].
        destruct p; cbn in Hp; try discriminate; reflexivity.
      * exact C.
      * exact D.
      * exact K.
      * intros Hp. rewrite (L Hp).
        destruct p; cbn in Hp; try discriminate; cbn in K; try congruence; try reflexivity.
      * intros Hs. eapply incl_trans'; [exact Hinc | apply J1; exact Hs].
      * intros Hf. destruct (J2 Hf) as [Hs Hl]. split; [exact Hs|].
        destruct p; cbn in Hf; try discriminate; cbn; try exact Hl.
        intros y Hy. apply in_app_or in Hy. destruct Hy as [Hy|[<-|[]]]; [apply Hl; exact Hy|].
        apply (J1 Hs). exact Hin.
    + (* Full *)
      brk H. injection H as <-.
      constructor; cbn; auto. intros Hs. eapply incl_trans'; [exact Hinc | apply J1; exact Hs].
    + (* Closed *)
      brk H. injection H as <-.
      constructor; cbn; auto. intros Hs. eapply incl_trans'; [exact Hinc | apply J1; exact Hs].
  - (* EStopNoop *)
    brk H. injection H as <-. constructor; assumption.
  - (* EStopSwap *)
    brk H. injection H as <-.
    constructor; cbn; auto.
    + intros _. apply incl_refl.
    + intros Hf. destruct (J2 Hf) as [Hs _]. discriminate Hs.
  - (* EStopPush *)
    brk H; injection H as <-; constructor; cbn; auto.
  - (* EPreStart *)
    destruct p; try discriminate. injection H as <-. destruct D as [-> ->].
    destruct ok; constructor; cbn; auto; try (intros Hx; discriminate Hx).
  - (* EStartAck *)
    destruct p; try discriminate. injection H as <-. destruct D as [-> ->].
    destruct delivered; constructor; cbn; auto; try (intros Hx; discriminate Hx).
    left. split; reflexivity.
  - (* EPostStart *)
    destruct p; try discriminate. injection H as <-. destruct D as [-> ->].
    destruct ok; constructor; cbn; auto; try (intros Hx; discriminate Hx).
    right. left. split; reflexivity.
  - (* ESelStop *)
    brk H; injection H as <-; constructor; cbn; auto; try (intros Hx; discriminate Hx).
    right. right. exact D.
  - (* ESelMsg *)
    destruct p; try discriminate.
    destruct qu as [|x q], m as [m|]; try discriminate.
    + injection H as <-. constructor; cbn; auto.
    + destruct (msg_eqb m x); [|discriminate]. injection H as <-.
      destruct (B eq_refl) as [-> ->].
      constructor; cbn [cap queue slot stopping rx pc passed swapped accepted handled drained
                        released overlap late tr]; auto.
      * rewrite A. cbn [app]. rewrite <- app_assoc. reflexivity.
      * rewrite C. rewrite app_nil_r. reflexivity.
      * unfold shape. cbn [pc tr handled]. rewrite D, map_app. reflexivity.
      * intros Hx; discriminate Hx.
  - (* EHandled *)
    destruct p; try discriminate. destruct (msg_eqb m m0); [|discriminate].
    injection H as <-. destruct (B eq_refl) as [-> ->].
    assert (Hc : re ++ [m0] = ha ++ []) by (rewrite app_nil_r; symmetry; exact C).
    destruct (mbeh m0); constructor; cbn; auto; try (intros Hx; discriminate Hx);
      right; right; exact D.
  - (* EBeginStop *)
    destruct p; try discriminate. injection H as <-.
    constructor; cbn; auto.
    + intros _. destruct st; [apply J1; reflexivity | apply incl_refl].
    + intros _. split; [reflexivity|]. destruct (B eq_refl) as [_ ->]. intros y [].
  - (* EPreStop *)
    destruct p; try discriminate. injection H as <-.
    destruct (J2 eq_refl) as [Hs Hl].
    constructor; cbn; auto.
    exists t, ok. split; [reflexivity | exact D].
  - (* EDrain *)
    destruct p; try discriminate. injection H as <-.
    destruct (B eq_refl) as [-> ->].
    constructor; cbn; auto.
    + rewrite A. cbn [app]. rewrite app_nil_r. reflexivity.
    + rewrite C. rewrite app_nil_r. reflexivity.
  - (* EDropRx *)
    destruct p; try discriminate. injection H as <-.
    destruct k as [x|f]; constructor; cbn; auto;
      try (intros Hx; discriminate Hx).
    + destruct f; cbn in *; auto. destruct D.
    + destruct f; cbn in *; auto; try (intros Hx; discriminate Hx).
  - (* EPostStop *)
    destruct p; try discriminate. injection H as <-.
    constructor; cbn; auto.
    destruct D as (t0 & a & -> & Hsh). exists t0, a, ok. split; [|exact Hsh].
    rewrite <- app_assoc. reflexivity.
  - (* ECancel *)
    destruct p; try discriminate; injection H as <-.
    + (* PPreStart *) destruct D as [-> ->].
      constructor; cbn; auto; try (intros Hx; discriminate Hx).
      left. split; reflexivity.
    + (* PPostStart *) destruct D as [-> ->].
      constructor; cbn; auto; try (intros Hx; discriminate Hx).
      right. left. left. split; reflexivity.
    + (* PSelStop *)
      constructor; cbn; auto; try (intros Hx; discriminate Hx).
      right. left. right. right. exact D.
    + (* PSelMsg *)
      constructor; cbn; auto; try (intros Hx; discriminate Hx).
      right. left. right. right. exact D.
    + (* PHandling *)
      destruct (B eq_refl) as [-> ->].
      constructor; cbn; auto; try (intros Hx; discriminate Hx).
      * rewrite app_nil_r. symmetry. exact C.
      * right. left. right. right. exact D.
    + (* PPreStop *)
      constructor; cbn; auto; try (intros Hx; discriminate Hx).
      right. left. exact D.
    + (* PPostStop *)
      constructor; cbn; auto; try (intros Hx; discriminate Hx).
      destruct D as (t0 & a & -> & Hsh). right. right. exists t0, a. split; [reflexivity|exact Hsh].
Qed.

Theorem steps_inv : forall es s s', Inv s -> steps s es = Some s' -> Inv s'.
Proof.
  induction es as [|e es IH]; intros s s' Hi Hs; cbn [steps steps_gen] in Hs.
  - inversion Hs; subst; exact Hi.
  - unfold steps in Hs. cbn [steps_gen] in Hs. fold step in Hs.
    destruct (step s e) as [s1|] eqn:H1; [|discriminate].
    eapply IH; [eapply step_inv; eauto | exact Hs].
Qed.

Theorem reachable_inv c es s : steps (init c) es = Some s -> Inv s.
Proof. intros H. eapply steps_inv; [apply init_inv | exact H]. Qed.

(* ---------------------------------------------------------------------- *)
(* consequences: serial FIFO handling                                       *)

(* the accepted sequence is, in order: what was handled, what the receiver
   dropped when the actor ended, what is still queued; while the actor runs
   nothing has been dropped; at most one handler is in progress (the program
   counter holds it) and everything handled before it is finished *)
Theorem serial_fifo c es s :
  steps (init c) es = Some s ->
  accepted s = handled s ++ drained s ++ queue s /\
  (pre_drain (pc s) = true -> drained s = []) /\
  match pc s with
  | PHandling m => handled s = released s ++ [m]
  | _ => released s = handled s ++ drained s
  end.
Proof.
  intros H. destruct (reachable_inv _ _ _ H) as [A B C D K L J1 J2].
  split; [exact A|]. split; [|exact C]. intros Hp. destruct (B Hp) as [Hd _]. exact Hd.
Qed.

(* no message is skipped or reordered: when the run loop polls a non-empty
   message channel the only thing the actor task can do (short of being
   cancelled) is to start the handler of the oldest queued message *)
Theorem next_is_head s m q e s' :
  pc s = PSelMsg -> queue s = m :: q -> actor_ev e = true -> step s e = Some s' ->
  e = ECancel \/
  (e = ESelMsg (Some m) /\ handled s' = handled s ++ [m] /\ queue s' = q /\ pc s' = PHandling m).
Proof.
  intros Hp Hq Ha H. destruct s as [cp qu sl st rxx p pa sw ac ha dr re ov la t].
  cbn [pc queue] in Hp, Hq. subst p qu.
  unfold step, step_gen in H.
  destruct e; cbn in Ha; try discriminate Ha; cbn in H; try discriminate H.
  - destruct m0 as [m0|]; [|discriminate].
    destruct (msg_eqb m0 m) eqn:E; [|discriminate]. apply msg_eqb_eq in E. subst m0.
    injection H as <-. right. cbn. repeat split; reflexivity.
  - left. reflexivity.
Qed.

(* one at a time: while a handler runs, the actor task can only finish it *)
Theorem handler_exclusive s x e s' :
  pc s = PHandling x -> actor_ev e = true -> step s e = Some s' ->
  e = ECancel \/ (e = EHandled x /\ released s' = released s ++ [x]).
Proof.
  intros Hp Ha H. destruct s as [cp qu sl st rxx p pa sw ac ha dr re ov la t].
  cbn [pc] in Hp. subst p. unfold step, step_gen in H.
  destruct e; cbn in Ha; try discriminate Ha; cbn in H; try discriminate H.
  - destruct (msg_eqb m x) eqn:E; [|discriminate]. apply msg_eqb_eq in E. subst m.
    injection H as <-. right. split; reflexivity.
  - left. reflexivity.
Qed.

(* everything accepted is handled unless the actor stops or fails first: an
   actor waiting in its run loop with an empty channel has handled everything
   it ever accepted; and at the moment it takes the stop request (or a handler
   fails) the handled sequence plus the queue is the accepted sequence *)
Theorem idle_all_handled c es s :
  steps (init c) es = Some s ->
  (pc s = PSelStop \/ pc s = PSelMsg) -> queue s = [] ->
  handled s = accepted s /\ released s = accepted s.
Proof.
  intros H Hp Hq. destruct (reachable_inv _ _ _ H) as [A B C D K L J1 J2].
  assert (Hpd : pre_drain (pc s) = true) by (destruct Hp as [-> | ->]; reflexivity).
  destruct (B Hpd) as [Hd _]. rewrite Hd, Hq in A. rewrite app_nil_r in A.
  split; [symmetry; exact A|].
  destruct Hp as [Hp|Hp]; rewrite Hp in C; rewrite C, Hd, app_nil_r; symmetry; exact A.
Qed.

Theorem stop_point_prefix c es s s' :
  steps (init c) es = Some s -> step s (ESelStop true) = Some s' ->
  accepted s' = handled s' ++ queue s' /\ handled s' = handled s.
Proof.
  intros H Hs. destruct (reachable_inv _ _ _ H) as [A B C D K L J1 J2].
  destruct s as [cp qu sl st rxx p pa sw ac ha dr re ov la t].
  unfold step, step_gen in Hs. cbn in Hs. destruct p; try discriminate Hs.
  destruct sl; [|discriminate]. injection Hs as <-. cbn in *.
  destruct (B eq_refl) as [-> _]. split; [exact A | reflexivity].
Qed.

(* ---------------------------------------------------------------------- *)
(* lifecycle order                                                          *)

Theorem lifecycle_shape c es s : steps (init c) es = Some s -> shape s.
Proof. intros H. exact (iD _ (reachable_inv _ _ _ H)). Qed.

Theorem lifecycle_gone c es s f :
  steps (init c) es = Some s -> pc s = PGone f ->
  match f with
  | FStartFailed => tr s = [LPreStart false] /\ handled s = []
  | FExit _ => exists t a b, tr s = t ++ [LPreStop a; LPostStop b] /\ started_shape t (handled s)
  | FCancelled => cancelled_shape (tr s) (handled s)
  end.
Proof.
  intros H Hp. pose proof (lifecycle_shape _ _ _ H) as D. unfold shape in D. rewrite Hp in D.
  destruct f; exact D.
Qed.

(* handlers run only between a successful post_start and pre_stop *)
Theorem handlers_inside_loop s m s' :
  step s (ESelMsg (Some m)) = Some s' -> pc s = PSelMsg /\ pc s' = PHandling m.
Proof.
  intros H. destruct s as [cp qu sl st rxx p pa sw ac ha dr re ov la t].
  unfold step, step_gen in H. cbn in H. destruct p; try discriminate H.
  destruct qu as [|x q]; [discriminate|].
  destruct (msg_eqb m x) eqn:E; [|discriminate]. apply msg_eqb_eq in E. subst x.
  injection H as <-. split; reflexivity.
Qed.

(* ---------------------------------------------------------------------- *)
(* calls are answered                                                       *)

Theorem gone_closed c es s :
  steps (init c) es = Some s -> is_gone s = true ->
  rx s = false /\ closed s = true /\ forall m, step s (ESendPass m) = None.
Proof.
  intros H Hg. destruct (reachable_inv _ _ _ H) as [A B C D K L J1 J2].
  unfold is_gone in Hg. destruct (pc s) eqn:Hp; try discriminate Hg.
  cbn in K. split; [exact K|]. assert (Hc : closed s = true).
  { unfold closed. rewrite K. apply orb_true_r. }
  split; [exact Hc|]. intros m. unfold step, step_gen. rewrite Hc. reflexivity.
Qed.

(* once the actor is gone every accepted message had its reply port used or
   dropped (the caller sees the reply or NoReply), except those that slipped in
   between the receiver's drain and its disconnection *)
Theorem call_answered c es s :
  steps (init c) es = Some s -> is_gone s = true ->
  forall m, In m (accepted s) -> In m (released s) \/ In m (late s).
Proof.
  intros H Hg m Hm. destruct (reachable_inv _ _ _ H) as [A B C D K L J1 J2].
  unfold is_gone in Hg. destruct (pc s) eqn:Hp; try discriminate Hg.
  rewrite <- (L eq_refl). rewrite C. rewrite A in Hm.
  apply in_app_or in Hm. destruct Hm as [Hm|Hm]; [left; apply in_or_app; left; exact Hm|].
  apply in_app_or in Hm. destruct Hm as [Hm|Hm]; [left; apply in_or_app; right; exact Hm|].
  right. exact Hm.
Qed.

(* ... and on the exit paths that go through finish() (stop, handler or hook
   failure, dropped spawner) such a late message comes from a send that was
   between its closed-check and its push at the moment the mailbox closed *)
Theorem late_only_overlap c es s x :
  steps (init c) es = Some s -> (pc s = PPostStop x \/ pc s = PGone (FExit x)) ->
  incl (late s) (overlap s).
Proof.
  intros H Hp. destruct (reachable_inv _ _ _ H) as [A B C D K L J1 J2].
  assert (Hf : finishing (pc s) = true) by (destruct Hp as [-> | ->]; reflexivity).
  destruct (J2 Hf) as [_ Hl]. exact Hl.
Qed.

Corollary call_answered_quiet c es s x :
  steps (init c) es = Some s -> pc s = PGone (FExit x) -> overlap s = [] ->
  forall m, In m (accepted s) -> In m (released s).
Proof.
  intros H Hp Ho m Hm.
  assert (Hg : is_gone s = true) by (unfold is_gone; rewrite Hp; reflexivity).
  destruct (call_answered _ _ _ H Hg m Hm) as [Hr|Hl]; [exact Hr|].
  pose proof (late_only_overlap _ _ _ x H (or_intror Hp)) as Hi.
  apply Hi in Hl. rewrite Ho in Hl. destruct Hl.
Qed.
