(* ActorThm.v — invariants of the actor LTS (model/Actor.v), proved for every
   reachable state, i.e. over all interleavings of any number of sending /
   stopping threads with the actor task; the registry invariants; the routing
   theorem of ProcessGroup::send. *)
From Compio.Model Require Import Base Actor.

(* ---------------------------------------------------------------------- *)
(* small facts                                                             *)

Lemma beh_eqb_eq a b : beh_eqb a b = true -> a = b.
Proof. destruct a, b; cbn; intros H; try discriminate; reflexivity. Qed.

Lemma msg_eqb_eq a b : msg_eqb a b = true -> a = b.
Proof.
  destruct a as [i c x], b as [j d y]. unfold msg_eqb. cbn [mid mcall mbeh].
  intros H. apply andb_true_iff in H. destruct H as [H Hb].
  apply andb_true_iff in H. destruct H as [Hi Hc].
  apply Nat.eqb_eq in Hi. apply Bool.eqb_prop in Hc. apply beh_eqb_eq in Hb. subst. reflexivity.
Qed.

Lemma msg_eqb_refl a : msg_eqb a a = true.
Proof.
  destruct a as [i c x]. unfold msg_eqb. cbn [mid mcall mbeh].
  rewrite Nat.eqb_refl, Bool.eqb_reflx. destruct x; reflexivity.
Qed.

Lemma remove1_spec m l p : remove1 m l = Some p -> In m l /\ incl p l.
Proof.
  revert p; induction l as [|x l IH]; intros p H; cbn [remove1] in H; [discriminate|].
  destruct (msg_eqb m x) eqn:E.
  - inversion H; subst. apply msg_eqb_eq in E. subst. split; [left; reflexivity|].
    intros y Hy. right. exact Hy.
  - destruct (remove1 m l) as [r|]; [|discriminate]. inversion H; subst.
    destruct (IH r eq_refl) as [Hin Hinc]. split; [right; exact Hin|].
    intros y [->|Hy]; [left; reflexivity|right; apply Hinc; exact Hy].
Qed.

Lemma incl_trans' {A} (a b c : list A) : incl a b -> incl b c -> incl a c.
Proof. intros H1 H2 x Hx. apply H2, H1, Hx. Qed.

(* ---------------------------------------------------------------------- *)
(* Part 1: the invariant of one actor (current code: step = step_gen true)  *)

Definition shape (s : ast) : Prop :=
  match pc s with
  | PPreStart => tr s = [] /\ handled s = []
  | PStartAck | PPostStart => tr s = [LPreStart true] /\ handled s = []
  | PSelStop | PSelMsg | PHandling _ =>
    tr s = LPreStart true :: LPostStart true :: map LHandle (handled s)
  | PBeginStop _ | PPreStop _ => started_shape (tr s) (handled s)
  | PDrain (CPostStop _) | PDropRx (CPostStop _) | PPostStop _ =>
    exists t a, tr s = t ++ [LPreStop a] /\ started_shape t (handled s)
  | PGone (FExit _) =>
    exists t a b, tr s = t ++ [LPreStop a; LPostStop b] /\ started_shape t (handled s)
  | PDrain (CFin FStartFailed) | PDropRx (CFin FStartFailed) | PGone FStartFailed =>
    tr s = [LPreStart false] /\ handled s = []
  | PDrain (CFin FCancelled) | PDropRx (CFin FCancelled) | PGone FCancelled =>
    cancelled_shape (tr s) (handled s)
  | PDrain (CFin (FExit _)) | PDropRx (CFin (FExit _)) => False
  end.

Record Inv (s : ast) : Prop := mk_Inv {
  iA : accepted s = handled s ++ drained s ++ queue s;
  iB : pre_drain (pc s) = true -> drained s = [] /\ late s = [];
  iC : match pc s with
       | PHandling m => handled s = released s ++ [m]
       | _ => released s = handled s ++ drained s
       end;
  iD : shape s;
  iK : rx s = negb (post_drop (pc s));
  iL : pre_drain (pc s) = false -> queue s = late s;
  iJ1 : stopping s = true -> incl (passed s) (overlap s);
  iJ2 : finishing (pc s) = true -> stopping s = true /\ incl (late s) (overlap s)
}.

Lemma init_inv c : Inv (init c).
Proof.
  constructor; cbn; auto; try discriminate.
Qed.

Ltac brk H :=
  repeat match type of H with
         | context [match ?x with _ => _ end] => destruct x eqn:?; try discriminate H
         | context [if ?b then _ else _] => destruct b eqn:?; try discriminate H
         end.

Ltac fin_lists :=
  repeat match goal with
         | H : _ /\ _ |- _ => destruct H
         | H : true = true -> _ |- _ => specialize (H eq_refl)
         | H : ?a = ?a -> _ |- _ => specialize (H eq_refl)
         end;
  subst; cbn [app] in *; repeat rewrite app_nil_r in *; repeat rewrite <- app_assoc in *;
  cbn [app] in *.

Theorem step_inv s e s' : Inv s -> step s e = Some s' -> Inv s'.
Proof.
  intros [A B C D K L J1 J2] H.
  destruct s as [cp qu sl st rxx p pa sw ac ha dr re ov la t].
  unfold shape in D. cbn [cap queue slot stopping rx pc passed swapped accepted handled drained
                          released overlap late tr] in *.
  unfold step, step_gen in H.
  destruct e;
    unfold log, set_stopping, closed, w_queue, w_slot, w_rx, w_pc, w_passed, w_swapped, w_accepted, w_handled,
           w_drained, w_released, w_late, w_tr, in_drop_window, drop_receiver in H;
    cbn [cap queue slot stopping rx pc passed swapped accepted handled drained
         released overlap late tr] in H.
  - (* ESendClosed *)
    brk H. injection H as <-. constructor; assumption.
  - (* ESendPass *)
    brk H. injection H as <-.
    apply orb_false_iff in Heqb. destruct Heqb as [Hst _].
    constructor; cbn; auto. rewrite Hst. intros Hx; discriminate Hx.
  - (* ESendPush *)
    destruct (remove1 m pa) as [pa'|] eqn:Hrm; [|discriminate].
    destruct (remove1_spec _ _ _ Hrm) as [Hin Hinc].
    destruct r.
    + (* Ok *)
      destruct (rxx && Nat.ltb (length qu) cp) eqn:Hc; [|discriminate].
      apply andb_true_iff in Hc. destruct Hc as [Hrx _].
      injection H as <-.
      constructor; cbn [cap queue slot stopping rx pc passed swapped accepted handled drained
                        released overlap late tr].
      * rewrite A. rewrite <- !app_assoc. reflexivity.
      * intros Hp. destruct (B Hp) as [-> ->]. split; [reflexivity|].
        destruct p; cbn in Hp; try discriminate; reflexivity.
      * exact C.
      * exact D.
      * exact K.
      * intros Hp. rewrite (L Hp).
        destruct p; cbn in Hp; try discriminate; cbn in K; try congruence; try reflexivity.
      * intros Hs. eapply incl_trans'; [exact Hinc | apply J1; exact Hs].
      * intros Hf. destruct (J2 Hf) as [Hs Hl]. split; [exact Hs|].
        destruct p; cbn in Hf; try discriminate; cbn; try exact Hl.
        intros y Hy. apply in_app_or in Hy. destruct Hy as [Hy|[<-|[]]]; [apply Hl; exact Hy|].
        apply (J1 Hs). exact Hin.
    + (* Full *)
      brk H. injection H as <-.
      constructor; cbn; auto. intros Hs. eapply incl_trans'; [exact Hinc | apply J1; exact Hs].
    + (* Closed *)
      brk H. injection H as <-.
      constructor; cbn; auto. intros Hs. eapply incl_trans'; [exact Hinc | apply J1; exact Hs].
  - (* EStopNoop *)
    brk H. injection H as <-. constructor; assumption.
  - (* EStopSwap *)
    brk H. injection H as <-.
    constructor; cbn; auto.
    + intros _. apply incl_refl.
    + intros Hf. destruct (J2 Hf) as [Hs _]. discriminate Hs.
  - (* EStopPush *)
    brk H; injection H as <-; constructor; cbn; auto.
  - (* EPreStart *)
    destruct p; try discriminate. injection H as <-. destruct D as [-> ->].
    destruct ok; constructor; cbn; auto; try (intros Hx; discriminate Hx).
  - (* EStartAck *)
    destruct p; try discriminate. injection H as <-. destruct D as [-> ->].
    destruct delivered; constructor; cbn; auto; try (intros Hx; discriminate Hx).
    left. split; reflexivity.
  - (* EPostStart *)
    destruct p; try discriminate. injection H as <-. destruct D as [-> ->].
    destruct ok; constructor; cbn; auto; try (intros Hx; discriminate Hx).
    right. left. split; reflexivity.
  - (* ESelStop *)
    brk H; injection H as <-; constructor; cbn; auto; try (intros Hx; discriminate Hx).
    right. right. exact D.
  - (* ESelMsg *)
    destruct p; try discriminate.
    destruct qu as [|x q], m as [m|]; try discriminate.
    + injection H as <-. constructor; cbn; auto.
    + destruct (msg_eqb m x); [|discriminate]. injection H as <-.
      destruct (B eq_refl) as [-> ->].
      constructor; cbn [cap queue slot stopping rx pc passed swapped accepted handled drained
                        released overlap late tr]; auto.
      * rewrite A. cbn [app]. rewrite <- app_assoc. reflexivity.
      * rewrite C. rewrite app_nil_r. reflexivity.
      * unfold shape. cbn [pc tr handled]. rewrite D, map_app. reflexivity.
      * intros Hx; discriminate Hx.
  - (* EHandled *)
    destruct p; try discriminate. destruct (msg_eqb m m0); [|discriminate].
    injection H as <-. destruct (B eq_refl) as [-> ->].
    assert (Hc : re ++ [m0] = ha ++ []) by (rewrite app_nil_r; symmetry; exact C).
    destruct (mbeh m0); constructor; cbn; auto; try (intros Hx; discriminate Hx);
      right; right; exact D.
  - (* EBeginStop *)
    destruct p; try discriminate. injection H as <-.
    constructor; cbn; auto.
    + intros _. destruct st; [apply J1; reflexivity | apply incl_refl].
    + intros _. split; [reflexivity|]. destruct (B eq_refl) as [_ ->]. intros y [].
  - (* EPreStop *)
    destruct p; try discriminate. injection H as <-.
    destruct (J2 eq_refl) as [Hs Hl].
    constructor; cbn; auto.
    exists t, ok. split; [reflexivity | exact D].
  - (* EDrain *)
    destruct p; try discriminate. injection H as <-.
    destruct (B eq_refl) as [-> ->].
    constructor; cbn; auto.
    + rewrite A. cbn [app]. rewrite app_nil_r. reflexivity.
    + rewrite C. rewrite app_nil_r. reflexivity.
  - (* EDropRx *)
    destruct p; try discriminate. injection H as <-.
    destruct k as [x|f]; constructor; cbn; auto;
      try (intros Hx; discriminate Hx).
    + destruct f; cbn in *; auto. destruct D.
    + destruct f; cbn in *; auto. intros Hx; discriminate Hx.
  - (* EPostStop *)
    destruct p; try discriminate. injection H as <-.
    constructor; cbn; auto.
    destruct D as (t0 & a & -> & Hsh). exists t0, a, ok. split; [|exact Hsh].
    rewrite <- app_assoc. reflexivity.
  - (* ECancel *)
    destruct p; try discriminate; injection H as <-.
    + (* PPreStart *) destruct D as [-> ->].
      constructor; cbn; auto; try (intros Hx; discriminate Hx).
      left. split; reflexivity.
    + (* PPostStart *) destruct D as [-> ->].
      constructor; cbn; auto; try (intros Hx; discriminate Hx).
      right. left. left. split; reflexivity.
    + (* PSelStop *)
      constructor; cbn; auto; try (intros Hx; discriminate Hx).
      right. left. right. right. exact D.
    + (* PSelMsg *)
      constructor; cbn; auto; try (intros Hx; discriminate Hx).
      right. left. right. right. exact D.
    + (* PHandling *)
      destruct (B eq_refl) as [-> ->].
      constructor; cbn; auto; try (intros Hx; discriminate Hx).
      * rewrite app_nil_r. symmetry. exact C.
      * right. left. right. right. exact D.
    + (* PPreStop *)
      constructor; cbn; auto; try (intros Hx; discriminate Hx).
      right. left. exact D.
    + (* PPostStop *)
      constructor; cbn; auto; try (intros Hx; discriminate Hx).
      destruct D as (t0 & a & -> & Hsh). right. right. exists t0, a. split; [reflexivity|exact Hsh].
Qed.

Theorem steps_inv : forall es s s', Inv s -> steps s es = Some s' -> Inv s'.
Proof.
  induction es as [|e es IH]; intros s s' Hi Hs; cbn [steps steps_gen] in Hs.
  - inversion Hs; subst; exact Hi.
  - unfold steps in Hs. cbn [steps_gen] in Hs. fold step in Hs.
    destruct (step s e) as [s1|] eqn:H1; [|discriminate].
    eapply IH; [eapply step_inv; eauto | exact Hs].
Qed.

Theorem reachable_inv c es s : steps (init c) es = Some s -> Inv s.
Proof. intros H. eapply steps_inv; [apply init_inv | exact H]. Qed.
