(* ActorThm.v — invariants of the actor LTS (model/Actor.v), proved for every
   reachable state, i.e. over all interleavings of any number of sending /
   stopping threads with the actor task; the registry invariants; the routing
   theorem of ProcessGroup::send. *)
From Coq Require Import Permutation.
From Compio.Model Require Import Base Actor.

(* ---------------------------------------------------------------------- *)
(* small facts                                                             *)

Lemma beh_eqb_eq a b : beh_eqb a b = true -> a = b.
Proof. destruct a, b; cbn; intros H; try discriminate; reflexivity. Qed.

Lemma msg_eqb_eq a b : msg_eqb a b = true -> a = b.
Proof.
  destruct a as [i c x], b as [j d y]. unfold msg_eqb. cbn [mid mcall mbeh].
  intros H. apply andb_true_iff in H. destruct H as [H Hb].
  apply andb_true_iff in H. destruct H as [Hi Hc].
  apply Nat.eqb_eq in Hi. apply Bool.eqb_prop in Hc. apply beh_eqb_eq in Hb. subst. reflexivity.
Qed.

Lemma msg_eqb_refl a : msg_eqb a a = true.
Proof.
  destruct a as [i c x]. unfold msg_eqb. cbn [mid mcall mbeh].
  rewrite Nat.eqb_refl, Bool.eqb_reflx. destruct x; reflexivity.
Qed.

Lemma remove1_spec m l p : remove1 m l = Some p -> In m l /\ incl p l.
Proof.
  revert p; induction l as [|x l IH]; intros p H; cbn [remove1] in H; [discriminate|].
  destruct (msg_eqb m x) eqn:E.
  - inversion H; subst. apply msg_eqb_eq in E. subst. split; [left; reflexivity|].
    intros y Hy. right. exact Hy.
  - destruct (remove1 m l) as [r|]; [|discriminate]. inversion H; subst.
    destruct (IH r eq_refl) as [Hin Hinc]. split; [right; exact Hin|].
    intros y [->|Hy]; [left; reflexivity|right; apply Hinc; exact Hy].
Qed.

Lemma incl_trans' {A} (a b c : list A) : incl a b -> incl b c -> incl a c.
Proof. intros H1 H2 x Hx. apply H2, H1, Hx. Qed.

(* ---------------------------------------------------------------------- *)
(* Part 1: the invariant of one actor (current code: step = step_gen true)  *)

Definition shape (s : ast) : Prop :=
  match pc s with
  | PPreStart => tr s = [] /\ handled s = []
  | PStartAck | PPostStart => tr s = [LPreStart true] /\ handled s = []
  | PSelStop | PSelMsg | PHandling _ =>
    tr s = LPreStart true :: LPostStart true :: map LHandle (handled s)
  | PBeginStop _ | PPreStop _ => started_shape (tr s) (handled s)
  | PDrain (CPostStop _) | PDropRx (CPostStop _) | PPostStop _ =>
    exists t a, tr s = t ++ [LPreStop a] /\ started_shape t (handled s)
  | PGone (FExit _) =>
    exists t a b, tr s = t ++ [LPreStop a; LPostStop b] /\ started_shape t (handled s)
  | PDrain (CFin FStartFailed) | PDropRx (CFin FStartFailed) | PGone FStartFailed =>
    tr s = [LPreStart false] /\ handled s = []
  | PDrain (CFin FCancelled) | PDropRx (CFin FCancelled) | PGone FCancelled =>
    cancelled_shape (tr s) (handled s)
  | PDrain (CFin (FExit _)) | PDropRx (CFin (FExit _)) => False
  end.

Record Inv (s : ast) : Prop := mk_Inv {
  iA : accepted s = handled s ++ drained s ++ queue s;
  iB : pre_drain (pc s) = true -> drained s = [] /\ late s = [];
  iC : match pc s with
       | PHandling m => handled s = released s ++ [m]
       | _ => released s = handled s ++ drained s
       end;
  iD : shape s;
  iK : rx s = negb (post_drop (pc s));
  iL : pre_drain (pc s) = false -> queue s = late s;
  iJ1 : stopping s = true -> incl (passed s) (overlap s);
  iJ2 : finishing (pc s) = true -> stopping s = true /\ incl (late s) (overlap s)
}.

Lemma init_inv c : Inv (init c).
Proof.
  constructor; cbn; auto; try discriminate.
Qed.

Ltac brk H :=
  repeat match type of H with
         | context [match ?x with _ => _ end] => destruct x eqn:?; try discriminate H
         | context [if ?b then _ else _] => destruct b eqn:?; try discriminate H
         end.

Ltac fin_lists :=
  repeat match goal with
         | H : _ /\ _ |- _ => destruct H
         | H : true = true -> _ |- _ => specialize (H eq_refl)
         | H : ?a = ?a -> _ |- _ => specialize (H eq_refl)
         end;
  subst; cbn [app] in *; repeat rewrite app_nil_r in *; repeat rewrite <- app_assoc in *;
  cbn [app] in *.

Theorem step_inv s e s' : Inv s -> step s e = Some s' -> Inv s'.
Proof.
  intros [A B C D K L J1 J2] H.
  destruct s as [cp qu sl st rxx p pa sw ac ha dr re fi ov la t].
  unfold shape in D. cbn [cap queue slot stopping rx pc passed swapped accepted handled drained
                          released finished overlap late tr] in *.
  unfold step, step_gen in H.
  destruct e;
    unfold log, set_stopping, closed, w_queue, w_slot, w_rx, w_pc, w_passed, w_swapped, w_accepted, w_handled,
           w_drained, w_released, w_finished, w_late, w_tr, in_drop_window, drop_receiver in H;
    cbn [cap queue slot stopping rx pc passed swapped accepted handled drained
         released finished overlap late tr] in H.
  - (* ESendClosed *)
    brk H. injection H as <-. constructor; assumption.
  - (* ESendPass *)
    brk H. injection H as <-.
    apply orb_false_iff in Heqb. destruct Heqb as [Hst _].
    constructor; cbn; auto. rewrite Hst. intros Hx; discriminate Hx.
  - (* ESendPush *)
    destruct (remove1 m pa) as [pa'|] eqn:Hrm; [|discriminate].
    destruct (remove1_spec _ _ _ Hrm) as [Hin Hinc].
    destruct r.
    + (* Ok *)
      destruct (rxx && Nat.ltb (length qu) cp) eqn:Hc; [|discriminate].
      apply andb_true_iff in Hc. destruct Hc as [Hrx _].
      injection H as <-.
      constructor; cbn [cap queue slot stopping rx pc passed swapped accepted handled drained
                        released finished overlap late tr].
      * rewrite A. rewrite <- !app_assoc. reflexivity.
      * intros Hp. destruct (B Hp) as [-> ->]. split; [reflexivity|].
        destruct p; cbn in Hp; try discriminate; reflexivity.
      * exact C.
      * exact D.
      * exact K.
      * intros Hp. rewrite (L Hp).
        destruct p; cbn in Hp; try discriminate; cbn in K; try congruence; try reflexivity.
      * intros Hs. eapply incl_trans'; [exact Hinc | apply J1; exact Hs].
      * intros Hf. destruct (J2 Hf) as [Hs Hl]. split; [exact Hs|].
        destruct p; cbn in Hf; try discriminate; cbn; try exact Hl.
        intros y Hy. apply in_app_or in Hy. destruct Hy as [Hy|[<-|[]]]; [apply Hl; exact Hy|].
        apply (J1 Hs). exact Hin.
    + (* Full *)
      brk H. injection H as <-.
      constructor; cbn; auto. intros Hs. eapply incl_trans'; [exact Hinc | apply J1; exact Hs].
    + (* Closed *)
      brk H. injection H as <-.
      constructor; cbn; auto. intros Hs. eapply incl_trans'; [exact Hinc | apply J1; exact Hs].
  - (* EStopNoop *)
    brk H. injection H as <-. constructor; assumption.
  - (* EStopSwap *)
    brk H. injection H as <-.
    constructor; cbn; auto.
    + intros _. apply incl_refl.
    + intros Hf. destruct (J2 Hf) as [Hs _]. discriminate Hs.
  - (* EStopPush *)
    brk H; injection H as <-; constructor; cbn; auto.
  - (* EPreStart *)
    destruct p; try discriminate. injection H as <-. destruct D as [-> ->].
    destruct ok; constructor; cbn; auto; try (intros Hx; discriminate Hx).
  - (* EStartAck *)
    destruct p; try discriminate. injection H as <-. destruct D as [-> ->].
    destruct delivered; constructor; cbn; auto; try (intros Hx; discriminate Hx).
    left. split; reflexivity.
  - (* EPostStart *)
    destruct p; try discriminate. injection H as <-. destruct D as [-> ->].
    destruct ok; constructor; cbn; auto; try (intros Hx; discriminate Hx).
    right. left. split; reflexivity.
  - (* ESelStop *)
    brk H; injection H as <-; constructor; cbn; auto; try (intros Hx; discriminate Hx).
    right. right. exact D.
  - (* ESelMsg *)
    destruct p; try discriminate.
    destruct qu as [|x q], m as [m|]; try discriminate.
    + injection H as <-. constructor; cbn; auto.
    + destruct (msg_eqb m x); [|discriminate]. injection H as <-.
      destruct (B eq_refl) as [-> ->].
      constructor; cbn [cap queue slot stopping rx pc passed swapped accepted handled drained
                        released finished overlap late tr]; auto.
      * rewrite A. cbn [app]. rewrite <- app_assoc. reflexivity.
      * rewrite C. rewrite app_nil_r. reflexivity.
      * unfold shape. cbn [pc tr handled]. rewrite D, map_app. reflexivity.
      * intros Hx; discriminate Hx.
  - (* EHandled *)
    destruct p; try discriminate. destruct (msg_eqb m m0); [|discriminate].
    injection H as <-. destruct (B eq_refl) as [-> ->].
    assert (Hc : re ++ [m0] = ha ++ []) by (rewrite app_nil_r; symmetry; exact C).
    destruct (mbeh m0); constructor; cbn; auto; try (intros Hx; discriminate Hx);
      right; right; exact D.
  - (* EBeginStop *)
    destruct p; try discriminate. injection H as <-.
    constructor; cbn; auto.
    + intros _. destruct st; [apply J1; reflexivity | apply incl_refl].
    + intros _. split; [reflexivity|]. destruct (B eq_refl) as [_ ->]. intros y [].
  - (* EPreStop *)
    destruct p; try discriminate. injection H as <-.
    destruct (J2 eq_refl) as [Hs Hl].
    constructor; cbn; auto.
    exists t, ok. split; [reflexivity | exact D].
  - (* EDrain *)
    destruct p; try discriminate. injection H as <-.
    destruct (B eq_refl) as [-> ->].
    constructor; cbn; auto.
    + rewrite A. cbn [app]. rewrite app_nil_r. reflexivity.
    + rewrite C. rewrite app_nil_r. reflexivity.
  - (* EDropRx *)
    destruct p; try discriminate. injection H as <-.
    destruct k as [x|f]; constructor; cbn; auto;
      try (intros Hx; discriminate Hx).
    + destruct f; cbn in *; auto. destruct D.
    + destruct f; cbn in *; auto; try (intros Hx; discriminate Hx).
  - (* EPostStop *)
    destruct p; try discriminate. injection H as <-.
    constructor; cbn; auto.
    destruct D as (t0 & a & -> & Hsh). exists t0, a, ok. split; [|exact Hsh].
    rewrite <- app_assoc. reflexivity.
  - (* ECancel *)
    destruct p; try discriminate; injection H as <-.
    + (* PPreStart *) destruct D as [-> ->].
      constructor; cbn; auto; try (intros Hx; discriminate Hx).
      left. split; reflexivity.
    + (* PPostStart *) destruct D as [-> ->].
      constructor; cbn; auto; try (intros Hx; discriminate Hx).
      right. left. left. split; reflexivity.
    + (* PSelStop *)
      constructor; cbn; auto; try (intros Hx; discriminate Hx).
      right. left. right. right. exact D.
    + (* PSelMsg *)
      constructor; cbn; auto; try (intros Hx; discriminate Hx).
      right. left. right. right. exact D.
    + (* PHandling *)
      destruct (B eq_refl) as [-> ->].
      constructor; cbn; auto; try (intros Hx; discriminate Hx).
      * rewrite app_nil_r. symmetry. exact C.
      * right. left. right. right. exact D.
    + (* PPreStop *)
      constructor; cbn; auto; try (intros Hx; discriminate Hx).
      right. left. exact D.
    + (* PPostStop *)
      constructor; cbn; auto; try (intros Hx; discriminate Hx).
      destruct D as (t0 & a & -> & Hsh). right. right. exists t0, a. split; [reflexivity|exact Hsh].
Qed.

Theorem steps_inv : forall es s s', Inv s -> steps s es = Some s' -> Inv s'.
Proof.
  induction es as [|e es IH]; intros s s' Hi Hs; cbn [steps steps_gen] in Hs.
  - inversion Hs; subst; exact Hi.
  - unfold steps in Hs. cbn [steps_gen] in Hs. fold step in Hs.
    destruct (step s e) as [s1|] eqn:H1; [|discriminate].
    eapply IH; [eapply step_inv; eauto | exact Hs].
Qed.

Theorem reachable_inv c es s : steps (init c) es = Some s -> Inv s.
Proof. intros H. eapply steps_inv; [apply init_inv | exact H]. Qed.

(* ---------------------------------------------------------------------- *)
(* consequences: serial FIFO handling                                       *)

(* the accepted sequence is, in order: what was handled, what the receiver
   dropped when the actor ended, what is still queued; while the actor runs
   nothing has been dropped; at most one handler is in progress (the program
   counter holds it) and everything handled before it is finished *)
Theorem serial_fifo c es s :
  steps (init c) es = Some s ->
  accepted s = handled s ++ drained s ++ queue s /\
  (pre_drain (pc s) = true -> drained s = []) /\
  match pc s with
  | PHandling m => handled s = released s ++ [m]
  | _ => released s = handled s ++ drained s
  end.
Proof.
  intros H. destruct (reachable_inv _ _ _ H) as [A B C D K L J1 J2].
  split; [exact A|]. split; [|exact C]. intros Hp. destruct (B Hp) as [Hd _]. exact Hd.
Qed.

(* no message is skipped or reordered: when the run loop polls a non-empty
   message channel the only thing the actor task can do (short of being
   cancelled) is to start the handler of the oldest queued message *)
Theorem next_is_head s m q e s' :
  pc s = PSelMsg -> queue s = m :: q -> actor_ev e = true -> step s e = Some s' ->
  e = ECancel \/
  (e = ESelMsg (Some m) /\ handled s' = handled s ++ [m] /\ queue s' = q /\ pc s' = PHandling m).
Proof.
  intros Hp Hq Ha H. destruct s as [cp qu sl st rxx p pa sw ac ha dr re fi ov la t].
  cbn [pc queue] in Hp, Hq. subst p qu.
  unfold step, step_gen in H.
  destruct e; cbn in Ha; try discriminate Ha; cbn in H; try discriminate H.
  - destruct m0 as [m0|]; [|discriminate].
    destruct (msg_eqb m0 m) eqn:E; [|discriminate]. apply msg_eqb_eq in E. subst m0.
    injection H as <-. right. cbn. repeat split; reflexivity.
  - left. reflexivity.
Qed.

(* one at a time: while a handler runs, the actor task can only finish it *)
Theorem handler_exclusive s x e s' :
  pc s = PHandling x -> actor_ev e = true -> step s e = Some s' ->
  e = ECancel \/ (e = EHandled x /\ released s' = released s ++ [x]).
Proof.
  intros Hp Ha H. destruct s as [cp qu sl st rxx p pa sw ac ha dr re fi ov la t].
  cbn [pc] in Hp. subst p. unfold step, step_gen in H.
  destruct e; cbn in Ha; try discriminate Ha; cbn in H; try discriminate H.
  - destruct (msg_eqb m x) eqn:E; [|discriminate]. apply msg_eqb_eq in E. subst m.
    injection H as <-. right. split; reflexivity.
  - left. reflexivity.
Qed.

(* everything accepted is handled unless the actor stops or fails first: an
   actor waiting in its run loop with an empty channel has handled everything
   it ever accepted; and at the moment it takes the stop request (or a handler
   fails) the handled sequence plus the queue is the accepted sequence *)
Theorem idle_all_handled c es s :
  steps (init c) es = Some s ->
  (pc s = PSelStop \/ pc s = PSelMsg) -> queue s = [] ->
  handled s = accepted s /\ released s = accepted s.
Proof.
  intros H Hp Hq. destruct (reachable_inv _ _ _ H) as [A B C D K L J1 J2].
  assert (Hpd : pre_drain (pc s) = true) by (destruct Hp as [-> | ->]; reflexivity).
  destruct (B Hpd) as [Hd _]. rewrite Hd, Hq in A. rewrite app_nil_r in A.
  split; [symmetry; exact A|].
  destruct Hp as [Hp|Hp]; rewrite Hp in C; rewrite C, Hd, app_nil_r; symmetry; exact A.
Qed.

Theorem stop_point_prefix c es s s' :
  steps (init c) es = Some s -> step s (ESelStop true) = Some s' ->
  accepted s' = handled s' ++ queue s' /\ handled s' = handled s.
Proof.
  intros H Hs. destruct (reachable_inv _ _ _ H) as [A B C D K L J1 J2].
  destruct s as [cp qu sl st rxx p pa sw ac ha dr re fi ov la t].
  unfold step, step_gen in Hs. cbn in Hs. destruct p; try discriminate Hs.
  destruct sl; [|discriminate]. injection Hs as <-. cbn in *.
  destruct (B eq_refl) as [-> _]. split; [exact A | reflexivity].
Qed.

(* ---------------------------------------------------------------------- *)
(* lifecycle order                                                          *)

Theorem lifecycle_shape c es s : steps (init c) es = Some s -> shape s.
Proof. intros H. exact (iD _ (reachable_inv _ _ _ H)). Qed.

Theorem lifecycle_gone c es s f :
  steps (init c) es = Some s -> pc s = PGone f ->
  match f with
  | FStartFailed => tr s = [LPreStart false] /\ handled s = []
  | FExit _ => exists t a b, tr s = t ++ [LPreStop a; LPostStop b] /\ started_shape t (handled s)
  | FCancelled => cancelled_shape (tr s) (handled s)
  end.
Proof.
  intros H Hp. pose proof (lifecycle_shape _ _ _ H) as D. unfold shape in D. rewrite Hp in D.
  destruct f; exact D.
Qed.

(* handlers run only between a successful post_start and pre_stop *)
Theorem handlers_inside_loop s m s' :
  step s (ESelMsg (Some m)) = Some s' -> pc s = PSelMsg /\ pc s' = PHandling m.
Proof.
  intros H. destruct s as [cp qu sl st rxx p pa sw ac ha dr re fi ov la t].
  unfold step, step_gen in H. cbn in H. destruct p; try discriminate H.
  destruct qu as [|x q]; [discriminate|].
  destruct (msg_eqb m x) eqn:E; [|discriminate]. apply msg_eqb_eq in E. subst x.
  injection H as <-. split; reflexivity.
Qed.

(* ---------------------------------------------------------------------- *)
(* calls are answered                                                       *)

Theorem gone_closed c es s :
  steps (init c) es = Some s -> is_gone s = true ->
  rx s = false /\ closed s = true /\ forall m, step s (ESendPass m) = None.
Proof.
  intros H Hg. destruct (reachable_inv _ _ _ H) as [A B C D K L J1 J2].
  unfold is_gone in Hg. destruct (pc s) eqn:Hp; try discriminate Hg.
  cbn in K. split; [exact K|]. assert (Hc : closed s = true).
  { unfold closed. rewrite K. apply orb_true_r. }
  split; [exact Hc|]. intros m. unfold step, step_gen. rewrite Hc. reflexivity.
Qed.

(* once the actor is gone every accepted message had its reply port used or
   dropped (the caller sees the reply or NoReply), except those that slipped in
   between the receiver's drain and its disconnection *)
Theorem call_answered c es s :
  steps (init c) es = Some s -> is_gone s = true ->
  forall m, In m (accepted s) -> In m (released s) \/ In m (late s).
Proof.
  intros H Hg m Hm. destruct (reachable_inv _ _ _ H) as [A B C D K L J1 J2].
  unfold is_gone in Hg. destruct (pc s) eqn:Hp; try discriminate Hg.
  rewrite <- (L eq_refl). rewrite C. rewrite A in Hm.
  apply in_app_or in Hm. destruct Hm as [Hm|Hm]; [left; apply in_or_app; left; exact Hm|].
  apply in_app_or in Hm. destruct Hm as [Hm|Hm]; [left; apply in_or_app; right; exact Hm|].
  right. exact Hm.
Qed.

(* ... and on the exit paths that go through finish() (stop, handler or hook
   failure, dropped spawner) such a late message comes from a send that was
   between its closed-check and its push at the moment the mailbox closed *)
Theorem late_only_overlap c es s x :
  steps (init c) es = Some s -> (pc s = PPostStop x \/ pc s = PGone (FExit x)) ->
  incl (late s) (overlap s).
Proof.
  intros H Hp. destruct (reachable_inv _ _ _ H) as [A B C D K L J1 J2].
  assert (Hf : finishing (pc s) = true) by (destruct Hp as [-> | ->]; reflexivity).
  destruct (J2 Hf) as [_ Hl]. exact Hl.
Qed.

Corollary call_answered_quiet c es s x :
  steps (init c) es = Some s -> pc s = PGone (FExit x) -> overlap s = [] ->
  forall m, In m (accepted s) -> In m (released s).
Proof.
  intros H Hp Ho m Hm.
  assert (Hg : is_gone s = true) by (unfold is_gone; rewrite Hp; reflexivity).
  destruct (call_answered _ _ _ H Hg m Hm) as [Hr|Hl]; [exact Hr|].
  pose proof (late_only_overlap _ _ _ x H (or_intror Hp)) as Hi.
  apply Hi in Hl. rewrite Ho in Hl. destruct Hl.
Qed.

(* ---------------------------------------------------------------------- *)
(* Part 2: the registry                                                     *)

Lemma tfind_app n t m v :
  tfind n (t ++ [(m, v)]) =
  match tfind n t with Some x => Some x | None => if Nat.eqb m n then Some v else None end.
Proof.
  induction t as [|[k w] t IH]; cbn [tfind app].
  - reflexivity.
  - destruct (Nat.eqb k n); [reflexivity|exact IH].
Qed.

Lemma tfind_tset n m v t :
  tfind n (tset m v t) =
  if Nat.eqb m n then match tfind m t with Some _ => Some v | None => None end else tfind n t.
Proof.
  induction t as [|[k w] t IH]; cbn [tfind tset].
  - destruct (Nat.eqb m n); reflexivity.
  - destruct (Nat.eqb k m) eqn:Ekm.
    + apply Nat.eqb_eq in Ekm. subst k. cbn [tfind].
      destruct (Nat.eqb m n) eqn:Emn; reflexivity.
    + cbn [tfind]. destruct (Nat.eqb k n) eqn:Ekn.
      * apply Nat.eqb_eq in Ekn. subst k.
        destruct (Nat.eqb m n) eqn:Emn; [|reflexivity].
        apply Nat.eqb_eq in Emn. subst m. rewrite Nat.eqb_refl in Ekm. discriminate.
      * exact IH.
Qed.

Lemma tfind_tremove n m t :
  tfind n (tremove m t) = if Nat.eqb m n then None else tfind n t.
Proof.
  induction t as [|[k w] t IH]; cbn [tfind tremove].
  - destruct (Nat.eqb m n); reflexivity.
  - destruct (Nat.eqb k m) eqn:Ekm.
    + apply Nat.eqb_eq in Ekm. subst k. rewrite IH.
      destruct (Nat.eqb m n); reflexivity.
    + cbn [tfind]. destruct (Nat.eqb k n) eqn:Ekn; [|exact IH].
      apply Nat.eqb_eq in Ekn. subst k.
      destruct (Nat.eqb m n) eqn:Emn; [|reflexivity].
      apply Nat.eqb_eq in Emn. subst m. rewrite Nat.eqb_refl in Ekm. discriminate.
Qed.

Lemma kfind_app a k b n :
  kfind a (k ++ [(b, n)]) =
  match kfind a k with Some x => Some x | None => if Nat.eqb b a then Some n else None end.
Proof.
  induction k as [|[c m] k IH]; cbn [kfind app].
  - reflexivity.
  - destruct (Nat.eqb c a); [reflexivity|exact IH].
Qed.

Lemma kfind_kremove a b k :
  kfind a (kremove b k) = if Nat.eqb b a then None else kfind a k.
Proof.
  induction k as [|[c m] k IH]; cbn [kfind kremove].
  - destruct (Nat.eqb b a); reflexivity.
  - destruct (Nat.eqb c b) eqn:Ecb.
    + apply Nat.eqb_eq in Ecb. subst c. rewrite IH. destruct (Nat.eqb b a); reflexivity.
    + cbn [kfind]. destruct (Nat.eqb c a) eqn:Eca; [|exact IH].
      apply Nat.eqb_eq in Eca. subst c.
      destruct (Nat.eqb b a) eqn:Eba; [|reflexivity].
      apply Nat.eqb_eq in Eba. subst b. rewrite Nat.eqb_refl in Ecb. discriminate.
Qed.

(* holds a n: spawn attempt a holds the Registration of name n *)
Definition holds (r : rst) (a n : nat) : Prop := kfind a (tokens r) = Some n.

Record RInv (r : rst) : Prop := mk_RInv {
  (* a name is held by at most one attempt *)
  rU : forall a b n, holds r a n -> holds r b n -> a = b;
  (* the name of every token is in the table, reserved or activated by its holder *)
  rH : forall a n, holds r a n ->
         tfind n (table r) = Some None \/ tfind n (table r) = Some (Some a);
  (* every table entry belongs to a token *)
  rE : forall n v, tfind n (table r) = Some v -> exists a, holds r a n
}.

Lemma rinit_inv : RInv rinit.
Proof. constructor; unfold holds; cbn; intros; discriminate. Qed.

Theorem rstep_inv r e r' : RInv r -> rstep r e = Some r' -> RInv r'.
Proof.
  intros [U Hh E] H. unfold holds in *. destruct e as [a n ok|a|a|n res]; cbn [rstep] in H.
  - (* reserve *)
    destruct (kfind a (tokens r)) eqn:Ka; [discriminate|].
    destruct (tfind n (table r)) eqn:Tn.
    + destruct ok; [discriminate|]. injection H as <-. constructor; assumption.
    + destruct ok; [|discriminate]. injection H as <-.
      constructor; unfold holds; cbn [tokens table].
      * intros x y m Hx Hy. rewrite kfind_app in Hx, Hy.
        destruct (kfind x (tokens r)) eqn:Kx, (kfind y (tokens r)) eqn:Ky.
        -- injection Hx as ->. injection Hy as ->. eapply U; eauto.
        -- injection Hx as ->. destruct (Nat.eqb a y) eqn:Ey; [|discriminate].
           injection Hy as ->. destruct (Hh _ _ Kx) as [T|T]; rewrite T in Tn; discriminate.
        -- injection Hy as ->. destruct (Nat.eqb a x) eqn:Ex; [|discriminate].
           injection Hx as ->. destruct (Hh _ _ Ky) as [T|T]; rewrite T in Tn; discriminate.
        -- destruct (Nat.eqb a x) eqn:Ex; [|discriminate].
           destruct (Nat.eqb a y) eqn:Ey; [|discriminate].
           apply Nat.eqb_eq in Ex, Ey. congruence.
      * intros x m Hx. rewrite kfind_app in Hx. rewrite tfind_app.
        destruct (kfind x (tokens r)) eqn:Kx.
        -- injection Hx as ->. destruct (Hh _ _ Kx) as [T|T]; rewrite T; [left|right]; reflexivity.
        -- destruct (Nat.eqb a x) eqn:Ex; [|discriminate]. injection Hx as ->.
           rewrite Tn, Nat.eqb_refl. left. reflexivity.
      * intros m v Hm. rewrite tfind_app in Hm.
        destruct (tfind m (table r)) eqn:Tm.
        -- destruct (E _ _ Tm) as [x Hx]. exists x. rewrite kfind_app, Hx. reflexivity.
        -- destruct (Nat.eqb n m) eqn:Enm; [|discriminate]. apply Nat.eqb_eq in Enm. subst m.
           exists a. rewrite kfind_app, Ka, Nat.eqb_refl. reflexivity.
  - (* activate *)
    destruct (kfind a (tokens r)) as [n|] eqn:Ka; [|discriminate].
    destruct (tfind n (table r)) eqn:Tn; [|discriminate]. injection H as <-.
    constructor; unfold holds; cbn [tokens table].
    + exact U.
    + intros x m Hx. rewrite tfind_tset. destruct (Nat.eqb n m) eqn:Enm.
      * apply Nat.eqb_eq in Enm. subst m. rewrite Tn. right.
        rewrite (U _ _ _ Hx Ka). reflexivity.
      * apply Hh. exact Hx.
    + intros m v Hm. rewrite tfind_tset in Hm. destruct (Nat.eqb n m) eqn:Enm.
      * apply Nat.eqb_eq in Enm. subst m. exists a. exact Ka.
      * eapply E; eauto.
  - (* release *)
    destruct (kfind a (tokens r)) as [n|] eqn:Ka; [|discriminate]. injection H as <-.
    constructor; unfold holds; cbn [tokens table].
    + intros x y m Hx Hy. rewrite kfind_kremove in Hx, Hy.
      destruct (Nat.eqb a x); [discriminate|]. destruct (Nat.eqb a y); [discriminate|].
      eapply U; eauto.
    + intros x m Hx. rewrite kfind_kremove in Hx. rewrite tfind_tremove.
      destruct (Nat.eqb a x) eqn:Eax; [discriminate|].
      destruct (Nat.eqb n m) eqn:Enm.
      * apply Nat.eqb_eq in Enm. subst m. rewrite (U _ _ _ Hx Ka), Nat.eqb_refl in Eax.
        discriminate.
      * apply Hh. exact Hx.
    + intros m v Hm. rewrite tfind_tremove in Hm.
      destruct (Nat.eqb n m) eqn:Enm; [discriminate|].
      destruct (E _ _ Hm) as [x Hx]. exists x. rewrite kfind_kremove.
      destruct (Nat.eqb a x) eqn:Eax; [|exact Hx].
      apply Nat.eqb_eq in Eax. subst x. rewrite Ka in Hx. injection Hx as ->.
      rewrite Nat.eqb_refl in Enm. discriminate.
  - (* lookup *)
    destruct (lookup r n), res; try discriminate.
    + destruct (Nat.eqb n0 n1); [|discriminate]. injection H as <-. constructor; assumption.
    + injection H as <-. constructor; assumption.
Qed.

Theorem rsteps_inv : forall es r r', RInv r -> rsteps r es = Some r' -> RInv r'.
Proof.
  induction es as [|e es IH]; intros r r' Hi Hs; cbn [rsteps] in Hs.
  - injection Hs as <-. exact Hi.
  - destruct (rstep r e) as [r1|] eqn:H1; [|discriminate].
    eapply IH; [eapply rstep_inv; eauto | exact Hs].
Qed.

Theorem rreachable_inv es r : rsteps rinit es = Some r -> RInv r.
Proof. intros H. eapply rsteps_inv; [apply rinit_inv | exact H]. Qed.

(* a name maps to at most one live actor, and a lookup only ever returns the
   actor that holds the name *)
Theorem names_unique es r a b n :
  rsteps rinit es = Some r -> holds r a n -> holds r b n -> a = b.
Proof. intros H. exact (rU _ (rreachable_inv _ _ H) a b n). Qed.

Theorem lookup_is_holder es r n a :
  rsteps rinit es = Some r -> lookup r n = Some a -> holds r a n.
Proof.
  intros H Hl. destruct (rreachable_inv _ _ H) as [U Hh E]. unfold lookup in Hl.
  destruct (tfind n (table r)) as [[x|]|] eqn:Tn; try discriminate. injection Hl as ->.
  destruct (E _ _ Tn) as [b Hb]. destruct (Hh _ _ Hb) as [T|T]; rewrite T in Tn; try discriminate.
  injection Tn as ->. exact Hb.
Qed.

(* invisible until start-up succeeded: a name becomes visible only by the
   activation step of its holder (after pre_start returned Ok) *)
Theorem visible_only_by_activation r e r' n a :
  rstep r e = Some r' -> lookup r' n = Some a -> lookup r n = Some a \/ e = RActivate a.
Proof.
  intros H Hl. unfold lookup in *. destruct e as [x m ok|x|x|m res]; cbn [rstep] in H.
  - destruct (kfind x (tokens r)); [discriminate|].
    destruct (tfind m (table r)) eqn:Tm.
    + destruct ok; [discriminate|]. injection H as <-. left. exact Hl.
    + destruct ok; [|discriminate]. injection H as <-. cbn [table] in Hl.
      rewrite tfind_app in Hl. destruct (tfind n (table r)) as [v|]; [left; exact Hl|].
      destruct (Nat.eqb m n); discriminate.
  - destruct (kfind x (tokens r)) as [m|] eqn:Kx; [|discriminate].
    destruct (tfind m (table r)) eqn:Tm; [|discriminate]. injection H as <-.
    cbn [table] in Hl. rewrite tfind_tset in Hl. destruct (Nat.eqb m n) eqn:Emn.
    + rewrite Tm in Hl. injection Hl as ->. right. reflexivity.
    + left. exact Hl.
  - destruct (kfind x (tokens r)) as [m|]; [|discriminate]. injection H as <-.
    cbn [table] in Hl. rewrite tfind_tremove in Hl.
    destruct (Nat.eqb m n); [discriminate|]. left. exact Hl.
  - fold (lookup r m) in H. destruct (lookup r m), res; try discriminate.
    + destruct (Nat.eqb n0 n1); [|discriminate]. injection H as <-. left. exact Hl.
    + injection H as <-. left. exact Hl.
Qed.

Theorem reserved_is_invisible r a n r' :
  rstep r (RReserve a n true) = Some r' -> lookup r' n = None /\ holds r' a n.
Proof.
  intros H. cbn [rstep] in H. destruct (kfind a (tokens r)) eqn:Ka; [discriminate|].
  destruct (tfind n (table r)) eqn:Tn; [discriminate|]. injection H as <-.
  unfold lookup, holds. cbn [table tokens]. rewrite tfind_app, Tn, Nat.eqb_refl.
  split; [reflexivity|]. rewrite kfind_app, Ka, Nat.eqb_refl. reflexivity.
Qed.

(* free again after exit or failed start (both drop the Registration) *)
Theorem released_is_free r a n r' :
  holds r a n -> rstep r (RRelease a) = Some r' ->
  lookup r' n = None /\ kfind a (tokens r') = None /\
  (forall b, kfind b (tokens r') = None ->
             exists r'', rstep r' (RReserve b n true) = Some r'').
Proof.
  intros Ha Hs. unfold holds in Ha. cbn [rstep] in Hs. rewrite Ha in Hs.
  injection Hs as <-. unfold lookup. cbn [table tokens].
  rewrite tfind_tremove, Nat.eqb_refl. split; [reflexivity|].
  split; [rewrite kfind_kremove, Nat.eqb_refl; reflexivity|].
  intros b Hb. cbn [rstep tokens table]. rewrite Hb, tfind_tremove, Nat.eqb_refl.
  eexists. reflexivity.
Qed.

(* the release is always possible for a holder, and activation never hits the
   "registration disappeared" panic *)
Theorem holder_can_activate es r a n :
  rsteps rinit es = Some r -> holds r a n ->
  exists r', rstep r (RActivate a) = Some r' /\ lookup r' n = Some a.
Proof.
  intros H Ha. destruct (rreachable_inv _ _ H) as [U Hh E]. unfold holds in Ha.
  cbn [rstep]. rewrite Ha. destruct (Hh _ _ Ha) as [T|T]; rewrite T;
    (eexists; split; [reflexivity|]); unfold lookup; cbn [table];
    rewrite tfind_tset, Nat.eqb_refl, T; reflexivity.
Qed.

(* ---------------------------------------------------------------------- *)
(* Part 3: ProcessGroup::send                                               *)

Definition rot (idx : nat) (ms : list nat) : list nat := skipn idx ms ++ firstn idx ms.

Lemma skipn_nth_cons (ms : list nat) idx :
  idx < length ms -> skipn idx ms = nth idx ms 0 :: skipn (S idx) ms.
Proof.
  revert idx; induction ms as [|x ms IH]; intros idx H; cbn [length] in H; [lia|].
  destruct idx as [|idx]; [reflexivity|]. cbn [skipn nth]. apply IH. lia.
Qed.

Lemma firstn_S_snoc (ms : list nat) idx :
  idx < length ms -> firstn (S idx) ms = firstn idx ms ++ [nth idx ms 0].
Proof.
  revert idx; induction ms as [|x ms IH]; intros idx H; cbn [length] in H; [lia|].
  destruct idx as [|idx]; [reflexivity|]. cbn [firstn nth app]. f_equal. apply IH. lia.
Qed.

Lemma rot_head ms idx :
  idx < length ms -> rot idx ms = nth idx ms 0 :: (skipn (S idx) ms ++ firstn idx ms).
Proof. intros H. unfold rot. rewrite (skipn_nth_cons _ _ H). reflexivity. Qed.

Lemma rot_step_full ms idx :
  idx < length ms ->
  rot ((idx + 1) mod length ms) ms = (skipn (S idx) ms ++ firstn idx ms) ++ [nth idx ms 0].
Proof.
  intros H. unfold rot. destruct (Nat.eq_dec (S idx) (length ms)) as [E|E].
  - replace (idx + 1) with (length ms) by lia. rewrite Nat.mod_same by lia.
    change (skipn 0 ms) with ms. change (firstn 0 ms) with (@nil nat). rewrite app_nil_r.
    rewrite E. rewrite skipn_all. cbn [app].
    rewrite <- (firstn_S_snoc _ _ H), E, firstn_all. reflexivity.
  - rewrite Nat.mod_small by lia. replace (idx + 1) with (S idx) by lia.
    rewrite (firstn_S_snoc _ _ H). rewrite app_assoc. reflexivity.
Qed.

Lemma remove_at_length ms idx : idx < length ms -> length (remove_at idx ms) = length ms - 1.
Proof.
  intros H. unfold remove_at. rewrite app_length, firstn_length, skipn_length. lia.
Qed.

Lemma rot_step_closed ms idx :
  idx < length ms -> remove_at idx ms <> [] ->
  rot (idx mod length (remove_at idx ms)) (remove_at idx ms) = skipn (S idx) ms ++ firstn idx ms.
Proof.
  intros H Hne. pose proof (remove_at_length _ _ H) as Hl.
  assert (Hpos : length (remove_at idx ms) <> 0).
  { destruct (remove_at idx ms); [congruence|cbn; lia]. }
  assert (Hf : length (firstn idx ms) = idx) by (rewrite firstn_length; lia).
  unfold rot. destruct (Nat.eq_dec (S idx) (length ms)) as [E|E].
  - replace (length (remove_at idx ms)) with idx by lia. rewrite Nat.mod_same by lia.
    change (skipn 0 (remove_at idx ms)) with (remove_at idx ms).
    change (firstn 0 (remove_at idx ms)) with (@nil nat). rewrite app_nil_r. unfold remove_at.
    rewrite E, skipn_all. rewrite app_nil_r. reflexivity.
  - rewrite Nat.mod_small by lia. unfold remove_at.
    rewrite <- (Nat.add_0_r idx) at 1.
    rewrite skipn_app, Hf. replace (idx + 0 - idx) with 0 by lia. cbn [skipn].
    rewrite Nat.add_0_r. rewrite skipn_all2 by lia. cbn [app].
    rewrite firstn_app, Hf. replace (idx - idx) with 0 by lia. cbn [firstn].
    rewrite app_nil_r. rewrite firstn_all2 by lia. reflexivity.
Qed.

Lemma rot_In ms idx j : In j (rot idx ms) <-> In j ms.
Proof.
  unfold rot. rewrite <- (firstn_skipn idx ms) at 3. rewrite !in_app_iff. tauto.
Qed.

Lemma remove_at_In ms idx j :
  idx < length ms -> NoDup ms ->
  (In j (remove_at idx ms) <-> In j ms /\ j <> nth idx ms 0).
Proof.
  intros H Hn. rewrite <- (firstn_skipn idx ms) in Hn.
  rewrite (skipn_nth_cons _ _ H) in Hn.
  pose proof (NoDup_remove_2 _ _ _ Hn) as Hnot.
  unfold remove_at. rewrite <- (firstn_skipn idx ms) at 3.
  rewrite (skipn_nth_cons _ _ H). rewrite !in_app_iff. cbn [In].
  rewrite in_app_iff in Hnot. split.
  - intros Hj. split; [tauto|]. intros ->. tauto.
  - intros [[Hj|[Hj|Hj]] Hne]; [left; exact Hj | congruence | right; exact Hj].
Qed.

Lemma remove_at_NoDup ms idx : idx < length ms -> NoDup ms -> NoDup (remove_at idx ms).
Proof.
  intros H Hn. rewrite <- (firstn_skipn idx ms) in Hn.
  rewrite (skipn_nth_cons _ _ H) in Hn. apply NoDup_remove_1 in Hn. exact Hn.
Qed.

(* the loop visits the members in cyclic order starting at idx: U = the
   members not yet tried (in the order they will be tried), F = those that were
   full.  V = what this run of the loop tries. *)
Lemma gloop_spec out : forall att ms idx sawf tried U F,
  NoDup ms -> (ms <> [] -> idx < length ms) -> rot idx ms = U ++ F -> length U = att ->
  forall r ms' tried', gloop out att ms idx sawf tried = (r, ms', tried') ->
  exists V W, U = V ++ W /\ tried' = tried ++ V /\ NoDup ms' /\
    (forall j, In j ms' <-> In j ms /\ ~ (In j V /\ out j = MClosed)) /\
    match r with
    | GDelivered i => exists V0, V = V0 ++ [i] /\ out i = MOk /\ forall j, In j V0 -> out j <> MOk
    | GBack f => W = [] /\ (forall j, In j V -> out j <> MOk) /\
                 (f = true <-> sawf = true \/ exists j, In j V /\ out j = MFull)
    end.
Proof.
  induction att as [|att IH]; intros ms idx sawf tried U F Hn Hidx Hrot HU r ms' tried' H;
    cbn [gloop] in H.
  - injection H as <- <- <-. destruct U; [|discriminate HU].
    exists [], []. split; [reflexivity|]. split; [rewrite app_nil_r; reflexivity|].
    split; [exact Hn|]. split; [intros j; cbn; tauto|].
    split; [reflexivity|]. split; [intros j []|].
    split; [intros ->; left; reflexivity | intros [Hs|(j & [] & _)]; exact Hs].
  - destruct U as [|i U']; [discriminate HU|]. injection HU as HU.
    destruct ms as [|m0 ms0] eqn:Ems.
    { unfold rot in Hrot. rewrite skipn_nil, firstn_nil in Hrot. discriminate Hrot. }
    rewrite <- Ems in *. assert (Hne : ms <> []) by (rewrite Ems; discriminate).
    specialize (Hidx Hne). rewrite (rot_head _ _ Hidx) in Hrot.
    injection Hrot as Hi Hrest.
    change (match ms with [] => [] | _ :: l => skipn idx l end) with (skipn (S idx) ms) in Hrest.
    rewrite Hi in *.
    destruct (out i) eqn:Eo.
    + (* delivered *)
      injection H as <- <- <-. exists [i], U'. split; [reflexivity|]. split; [reflexivity|].
      split; [exact Hn|]. split.
      { intros j. split; [intros Hj; split; [exact Hj|]|intros [Hj _]; exact Hj].
        intros [[<-|[]] Hc]. congruence. }
      exists []. split; [reflexivity|]. split; [exact Eo|]. intros j [].
    + (* full *)
      assert (Hrot' : rot ((idx + 1) mod length ms) ms = U' ++ (F ++ [i])).
      { rewrite (rot_step_full _ _ Hidx), Hi, Hrest, app_assoc. reflexivity. }
      assert (Hidx' : ms <> [] -> (idx + 1) mod length ms < length ms).
      { intros _. apply Nat.mod_upper_bound. lia. }
      destruct (IH ms _ true (tried ++ [i]) U' (F ++ [i]) Hn Hidx' Hrot' HU _ _ _ H)
        as (V & W & HV & Ht & Hn' & Hms & Hr).
      exists (i :: V), W. split; [cbn [app]; rewrite HV; reflexivity|].
      split; [rewrite Ht, <- app_assoc; reflexivity|]. split; [exact Hn'|]. split.
      { intros j. rewrite Hms. cbn [In]. split; intros [Hj Hc]; (split; [exact Hj|]).
        - intros [[<-|Hv] Hcl]; [congruence|]. apply Hc. split; assumption.
        - intros [Hv Hcl]. apply Hc. split; [right; exact Hv | exact Hcl]. }
      destruct r as [d|f].
      * destruct Hr as (V0 & -> & Hd & Hall). exists (i :: V0). split; [reflexivity|].
        split; [exact Hd|]. intros j [<-|Hj]; [congruence|apply Hall; exact Hj].
      * destruct Hr as (-> & Hall & Hf). split; [reflexivity|].
        split; [intros j [<-|Hj]; [congruence|apply Hall; exact Hj]|].
        rewrite Hf. split.
        -- intros [_|(j & Hj & Hfj)]; right; [exists i; split; [left; reflexivity|exact Eo]|].
           exists j. split; [right; exact Hj|exact Hfj].
        -- intros _. left. reflexivity.
    + (* closed: the member is evicted *)
      set (ms1 := remove_at idx ms) in *.
      assert (Hn1 : NoDup ms1) by (apply remove_at_NoDup; assumption).
      assert (Hin1 : forall j, In j ms1 <-> In j ms /\ j <> i).
      { intros j. unfold ms1. rewrite (remove_at_In _ _ j Hidx Hn), Hi. reflexivity. }
      assert (Hgo : exists V W, U' = V ++ W /\ tried' = (tried ++ [i]) ++ V /\ NoDup ms' /\
                (forall j, In j ms' <-> In j ms1 /\ ~ (In j V /\ out j = MClosed)) /\
                match r with
                | GDelivered d => exists V0, V = V0 ++ [d] /\ out d = MOk /\
                                             forall j, In j V0 -> out j <> MOk
                | GBack f => W = [] /\ (forall j, In j V -> out j <> MOk) /\
                             (f = true <-> sawf = true \/ exists j, In j V /\ out j = MFull)
                end).
      { destruct ms1 as [|m1 ms1'] eqn:E1.
        - (* nobody left *)
          assert (HU' : U' = []).
          { assert (Hl : length (remove_at idx ms) = 0) by (fold ms1; rewrite E1; reflexivity).
            rewrite (remove_at_length _ _ Hidx) in Hl.
            assert (Hlen : length (skipn (S idx) ms ++ firstn idx ms) = 0).
            { rewrite app_length, skipn_length, firstn_length. lia. }
            rewrite Hrest in Hlen. destruct U'; [reflexivity|cbn in Hlen; lia]. }
          subst U'. cbn [length] in HU. subst att. cbn [gloop] in H. injection H as <- <- <-.
          exists [], []. split; [reflexivity|]. split; [rewrite app_nil_r; reflexivity|].
          split; [constructor|]. split; [intros j; cbn; tauto|].
          split; [reflexivity|]. split; [intros j []|].
          split; [intros ->; left; reflexivity | intros [Hs|(j & [] & _)]; exact Hs].
        - rewrite <- E1 in *. assert (Hne1 : ms1 <> []) by (rewrite E1; discriminate).
          assert (Hrot' : rot (idx mod length ms1) ms1 = U' ++ F).
          { unfold ms1. rewrite (rot_step_closed _ _ Hidx Hne1). exact Hrest. }
          assert (Hidx' : ms1 <> [] -> idx mod length ms1 < length ms1).
          { intros _. apply Nat.mod_upper_bound. destruct ms1; [congruence|cbn; lia]. }
          exact (IH ms1 _ sawf (tried ++ [i]) U' F Hn1 Hidx' Hrot' HU _ _ _ H). }
      destruct Hgo as (V & W & HV & Ht & Hn' & Hms & Hr).
      exists (i :: V), W. split; [cbn [app]; rewrite HV; reflexivity|].
      split; [rewrite Ht, <- app_assoc; reflexivity|]. split; [exact Hn'|]. split.
      { intros j. rewrite Hms, Hin1. cbn [In]. split.
        - intros [[Hj Hnej] Hc]. split; [exact Hj|]. intros [[Hx|Hv] Hcl]; [congruence|].
          apply Hc. split; assumption.
        - intros [Hj Hc]. split; [split; [exact Hj|]|].
          + intros ->. apply Hc. split; [left; reflexivity|exact Eo].
          + intros [Hv Hcl]. apply Hc. split; [right; exact Hv|exact Hcl]. }
      destruct r as [d|f].
      * destruct Hr as (V0 & -> & Hd & Hall). exists (i :: V0). split; [reflexivity|].
        split; [exact Hd|]. intros j [<-|Hj]; [congruence|apply Hall; exact Hj].
      * destruct Hr as (-> & Hall & Hf). split; [reflexivity|].
        split; [intros j [<-|Hj]; [congruence|apply Hall; exact Hj]|].
        rewrite Hf. split.
        -- intros [Hs|(j & Hj & Hfj)]; [left; exact Hs|right].
           exists j. split; [right; exact Hj|exact Hfj].
        -- intros [Hs|(j & [<-|Hj] & Hfj)]; [left; exact Hs|congruence|right].
           exists j. split; assumption.
Qed.

Lemma rot_length ms idx : length (rot idx ms) = length ms.
Proof.
  unfold rot. rewrite app_length, Nat.add_comm, <- app_length, firstn_skipn. reflexivity.
Qed.

Lemma rot_NoDup ms idx : NoDup ms -> NoDup (rot idx ms).
Proof.
  intros H. unfold rot. rewrite <- (firstn_skipn idx ms) in H.
  eapply Permutation_NoDup; [apply Permutation_app_comm | exact H].
Qed.

Lemma NoDup_app_l {A} (a b : list A) : NoDup (a ++ b) -> NoDup a.
Proof.
  induction a as [|x a IH]; intros H; [constructor|]. cbn [app] in H.
  inversion H as [|? ? Hx Hr]; subst. constructor; [|apply IH; exact Hr].
  intros Hin. apply Hx. apply in_or_app. left. exact Hin.
Qed.

(* the routing theorem: for every member list without duplicates, every cursor
   and every behaviour of the members *)
Theorem group_route out ms cursor r ms' cur' tried :
  NoDup ms -> gsend out ms cursor = (r, ms', cur', tried) ->
  length tried <= length ms /\ NoDup tried /\ incl tried ms /\ NoDup ms' /\
  (forall j, In j ms' <-> In j ms /\ ~ (In j tried /\ out j = MClosed)) /\
  match r with
  | GDelivered i =>
    In i ms /\ out i = MOk /\
    exists before, tried = before ++ [i] /\ forall j, In j before -> out j <> MOk
  | GBack full =>
    (forall j, In j ms -> out j <> MOk) /\ (forall j, In j ms -> In j tried) /\
    (full = true <-> exists j, In j ms /\ out j = MFull)
  end.
Proof.
  intros Hn H. unfold gsend in H. destruct ms as [|m0 ms0] eqn:Ems.
  - injection H as <- <- <- <-. split; [cbn; lia|]. split; [constructor|].
    split; [intros j []|]. split; [constructor|]. split; [intros j; cbn; tauto|].
    split; [intros j []|]. split; [intros j []|].
    split; [discriminate | intros (j & [] & _)].
  - rewrite <- Ems in *. assert (Hne : ms <> []) by (rewrite Ems; discriminate).
    assert (Hlen : length ms <> 0) by (rewrite Ems; cbn; lia).
    destruct (gloop out (length ms) ms (cursor mod length ms) false []) as [[r0 ms1] tr1] eqn:Hg.
    injection H as <- <- <- <-.
    assert (Hidx : ms <> [] -> cursor mod length ms < length ms).
    { intros _. apply Nat.mod_upper_bound. exact Hlen. }
    destruct (gloop_spec out (length ms) ms _ false [] (rot (cursor mod length ms) ms) []
                Hn Hidx (eq_sym (app_nil_r _)) (rot_length _ _) _ _ _ Hg)
      as (V & W & HU & Ht & Hn' & Hms & Hr).
    cbn [app] in Ht. subst tr1.
    pose proof (rot_NoDup ms (cursor mod length ms) Hn) as HnU. rewrite HU in HnU.
    assert (HinV : forall j, In j V -> In j ms).
    { intros j Hj. apply (rot_In ms (cursor mod length ms)). rewrite HU.
      apply in_or_app. left. exact Hj. }
    split.
    { rewrite <- (rot_length ms (cursor mod length ms)), HU, app_length. lia. }
    split; [eapply NoDup_app_l; exact HnU|]. split; [exact HinV|]. split; [exact Hn'|].
    split; [exact Hms|]. destruct r0 as [i|f].
    + destruct Hr as (V0 & -> & Hd & Hall). split.
      { apply HinV. apply in_or_app. right. left. reflexivity. }
      split; [exact Hd|]. exists V0. split; [reflexivity|exact Hall].
    + destruct Hr as (-> & Hall & Hf). rewrite app_nil_r in HU.
      assert (Hall' : forall j, In j ms -> In j V).
      { intros j Hj. rewrite <- HU. apply rot_In. exact Hj. }
      split; [intros j Hj; apply Hall, Hall'; exact Hj|]. split; [exact Hall'|].
      rewrite Hf. split.
      * intros [Hx|(j & Hj & Hfj)]; [discriminate|]. exists j. split; [apply HinV; exact Hj|exact Hfj].
      * intros (j & Hj & Hfj). right. exists j. split; [apply Hall'; exact Hj|exact Hfj].
Qed.

(* the four name facts of C19 in one statement about every reachable registry *)
Theorem names_summary es r :
  rsteps rinit es = Some r ->
  (forall a b n, kfind a (tokens r) = Some n -> kfind b (tokens r) = Some n -> a = b) /\
  (forall n a, lookup r n = Some a -> kfind a (tokens r) = Some n) /\
  (forall a n, kfind a (tokens r) = Some n ->
     (lookup r n = None \/ lookup r n = Some a) /\
     exists r', rstep r (RActivate a) = Some r' /\ lookup r' n = Some a) /\
  (forall a n r', kfind a (tokens r) = Some n -> rstep r (RRelease a) = Some r' ->
     lookup r' n = None /\
     forall b, kfind b (tokens r') = None -> exists r'', rstep r' (RReserve b n true) = Some r'').
Proof.
  intros H. split; [intros a b n; apply (names_unique _ _ _ _ _ H)|].
  split; [intros n a; apply (lookup_is_holder _ _ _ _ H)|]. split.
  - intros a n Ha. split; [|exact (holder_can_activate _ _ _ _ H Ha)].
    destruct (rreachable_inv _ _ H) as [U Hh E]. unfold lookup.
    destruct (Hh _ _ Ha) as [T|T]; rewrite T; [left|right]; reflexivity.
  - intros a n r' Ha Hs. destruct (released_is_free _ _ _ _ Ha Hs) as (H1 & _ & H3).
    split; assumption.
Qed.

(* ---------------------------------------------------------------------- *)
(* the order inside finish(): the mailbox is closed, drained and disconnected
   BEFORE post_stop starts: while post_stop has not finished, every accepted
   message already had its reply port used or dropped (late pushes excepted),
   so a caller of a queued call has its error and post_stop may wait for it *)
Theorem queued_calls_released_before_post_stop c es s x :
  steps (init c) es = Some s -> pc s = PPostStop x ->
  rx s = false /\ closed s = true /\ queue s = late s /\
  (exists t a, tr s = t ++ [LPreStop a] /\ started_shape t (handled s)) /\
  forall m, In m (accepted s) -> In m (released s) \/ In m (late s).
Proof.
  intros H Hp. destruct (reachable_inv _ _ _ H) as [A B C D K L J1 J2].
  rewrite Hp in K. cbn in K.
  split; [exact K|]. split; [unfold closed; rewrite K; apply orb_true_r|].
  assert (Hq : queue s = late s) by (apply L; rewrite Hp; reflexivity).
  split; [exact Hq|]. split.
  - unfold shape in D. rewrite Hp in D. exact D.
  - intros m Hm. rewrite Hp in C. rewrite C. rewrite A in Hm. rewrite <- Hq.
    apply in_app_or in Hm. destruct Hm as [Hm|Hm]; [left; apply in_or_app; left; exact Hm|].
    apply in_app_or in Hm. destruct Hm as [Hm|Hm]; [left; apply in_or_app; right; exact Hm|].
    right. exact Hm.
Qed.

(* post_stop can only run from that state, and pre_stop only before the drain *)
Theorem post_stop_after_drop s ok s' :
  step s (EPostStop ok) = Some s' -> exists x, pc s = PPostStop x.
Proof.
  intros H. destruct s as [cp qu sl st rxx p pa sw ac ha dr re fi ov la t].
  unfold step, step_gen in H. cbn in H. destruct p; try discriminate H. eexists. reflexivity.
Qed.

(* ---------------------------------------------------------------------- *)
(* the reservation is what excludes a second spawn of the same name: while an
   attempt holds the name — pre_start still running, i.e. before activation,
   or later — every other reservation of it is refused, and the refusal leaves
   the registry (the holder's registration) untouched *)
Theorem reserved_excludes es r a n b :
  rsteps rinit es = Some r -> holds r a n ->
  rstep r (RReserve b n true) = None /\
  (forall r', rstep r (RReserve b n false) = Some r' -> r' = r /\ holds r' a n).
Proof.
  intros H Ha. destruct (rreachable_inv _ _ H) as [U Hh E].
  assert (Ht : exists v, tfind n (table r) = Some v).
  { destruct (Hh _ _ Ha) as [T|T]; rewrite T; eexists; reflexivity. }
  destruct Ht as [v Ht]. split.
  - cbn [rstep]. destruct (kfind b (tokens r)); [reflexivity|]. rewrite Ht. reflexivity.
  - intros r' Hs. cbn [rstep] in Hs. destruct (kfind b (tokens r)); [discriminate|].
    rewrite Ht in Hs. injection Hs as <-. split; [reflexivity|exact Ha].
Qed.
