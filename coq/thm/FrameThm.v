(* FrameThm.v — lemmas about model/Frame.v (framers, Framed stream) *)
From Compio.Model Require Import Base Frame.
From Compio.Gen Require Consts.
From Compio.Thm Require Import ListFacts.

(* ---------------------------------------------------------------------- *)
(* generic list facts                                                      *)

Ltac splits := repeat match goal with |- _ /\ _ => split end.
Ltac side := first [assumption | reflexivity | congruence | (cbn [length]; lia) | idtac].

Lemma app_prefix_split {A} (w t e r : list A) :
  w ++ t = e ++ r -> length e <= length w -> exists w', w = e ++ w' /\ r = w' ++ t.
Proof.
  revert w; induction e as [|x e IH]; intros w H L.
  - exists w. split; [reflexivity|]. cbn [app] in H. symmetry; exact H.
  - destruct w as [|y w]; [cbn [length] in L; lia|].
    cbn [app] in H. injection H as -> H. cbn [length] in L.
    destruct (IH w H ltac:(lia)) as (w' & -> & ->). exists w'. split; reflexivity.
Qed.

Lemma prefix_firstn {A} (w t s : list A) k :
  w ++ t = s -> k <= length w -> firstn k w = firstn k s.
Proof.
  intros <- L. rewrite firstn_app. replace (k - length w) with 0 by lia.
  cbn [firstn]. rewrite app_nil_r. reflexivity.
Qed.

Lemma skipn_app_l {A} (a b : list A) n : n <= length a -> skipn n (a ++ b) = skipn n a ++ b.
Proof.
  intros L. rewrite skipn_app. replace (n - length a) with 0 by lia. reflexivity.
Qed.

(* ---------------------------------------------------------------------- *)
(* the length field                                                        *)

Lemma le_bytes_length k n : length (le_bytes k n) = k.
Proof. revert n; induction k as [|k IH]; intros n; cbn [le_bytes length]; [|rewrite IH]; reflexivity. Qed.

Lemma le_value_le_bytes k : forall n, (n < 256 ^ N.of_nat k)%N -> le_value (le_bytes k n) = n.
Proof.
  induction k as [|k IH]; intros n H.
  - cbn [le_bytes le_value]. change (N.of_nat 0) with 0%N in H. rewrite N.pow_0_r in H. lia.
  - cbn [le_bytes le_value]. rewrite IH.
    + rewrite N.add_comm. symmetry. apply N.div_mod. lia.
    + rewrite Nat2N.inj_succ, N.pow_succ_r' in H.
      apply N.div_lt_upper_bound; lia.
Qed.

Lemma len_bytes_length lfl be n : length (len_bytes lfl be n) = lfl.
Proof. unfold len_bytes. destruct be; [rewrite rev_length|]; apply le_bytes_length. Qed.

Lemma len_value_len_bytes lfl be n :
  (n < 256 ^ N.of_nat lfl)%N -> len_value be (len_bytes lfl be n) = n.
Proof.
  intros H. unfold len_value, len_bytes. destruct be; [rewrite rev_involutive|];
    apply le_value_le_bytes; exact H.
Qed.

(* ---------------------------------------------------------------------- *)
(* delimiter search                                                        *)

Definition occ (d w : list byte) (n : nat) : Prop :=
  exists a b, w = a ++ d ++ b /\ length a = n.

Lemma starts_with_true d : forall w, starts_with d w = true -> exists b, w = d ++ b.
Proof.
  induction d as [|x d IH]; intros w H.
  - exists w. reflexivity.
  - destruct w as [|y w]; cbn [starts_with] in H; [discriminate|].
    apply andb_prop in H as [E H]. apply N.eqb_eq in E as ->.
    destruct (IH w H) as (b & ->). exists b. reflexivity.
Qed.

Lemma starts_with_app d b : starts_with d (d ++ b) = true.
Proof.
  induction d as [|x d IH]; [reflexivity|].
  cbn [starts_with app]. rewrite N.eqb_refl, IH. reflexivity.
Qed.

Lemma occ_0 d w : occ d w 0 <-> starts_with d w = true.
Proof.
  split.
  - intros (a & b & -> & L). destruct a; [|discriminate]. cbn [app]. apply starts_with_app.
  - intros H. destruct (starts_with_true d w H) as (b & ->). exists [], b. split; reflexivity.
Qed.

Lemma occ_S d x w n : occ d (x :: w) (S n) <-> occ d w n.
Proof.
  split.
  - intros (a & b & E & L). destruct a as [|y a]; [discriminate|].
    cbn [app] in E. injection E as _ ->. exists a, b. split; [reflexivity|cbn [length] in L; lia].
  - intros (a & b & -> & L). exists (x :: a), b. split; [reflexivity|cbn [length]; lia].
Qed.

Lemma occ_S_inv d x w n : occ d (x :: w) (S n) -> occ d w n.
Proof. apply occ_S. Qed.
Lemma occ_S_intro d x w n : occ d w n -> occ d (x :: w) (S n).
Proof. apply occ_S. Qed.

Lemma occ_nil d n : occ d [] (S n) -> False.
Proof. intros (a & b & E & L). destruct a; discriminate. Qed.

Lemma occ_length d w n : occ d w n -> n + length d <= length w.
Proof. intros (a & b & -> & <-). rewrite !app_length. lia. Qed.

Lemma occ_app_r d w t n : occ d w n -> occ d (w ++ t) n.
Proof.
  intros (a & b & -> & L). exists a, (b ++ t). split; [|exact L].
  rewrite <- !app_assoc. reflexivity.
Qed.

Lemma occ_prefix d u v n : occ d (u ++ v) n -> n + length d <= length u -> occ d u n.
Proof.
  intros (a & b & E & L) Hl.
  assert (E' : u ++ v = (a ++ d) ++ b) by (rewrite <- app_assoc; exact E).
  destruct (app_prefix_split u v (a ++ d) b E') as (u' & -> & _).
  { rewrite app_length. lia. }
  exists a, u'. split; [rewrite <- app_assoc; reflexivity|exact L].
Qed.

Lemma find_sub_Some d : forall w n,
  find_sub d w = Some n -> occ d w n /\ forall m, m < n -> ~ occ d w m.
Proof.
  induction w as [|x w IH]; intros n H; cbn [find_sub] in H.
  - destruct (starts_with d []) eqn:Sw; [|discriminate]. injection H as <-.
    split; [apply occ_0; exact Sw|intros m Hm; lia].
  - destruct (starts_with d (x :: w)) eqn:Sw.
    + injection H as <-. split; [apply occ_0; exact Sw|intros m Hm; lia].
    + destruct (find_sub d w) as [k|] eqn:F; [|discriminate]. injection H as <-.
      destruct (IH k eq_refl) as [O M]. split; [apply occ_S_intro; exact O|].
      intros [|m] Hm Ho.
      * apply occ_0 in Ho. congruence.
      * apply occ_S_inv in Ho. apply (M m); [lia|exact Ho].
Qed.

Lemma find_sub_None d : forall w, find_sub d w = None -> forall m, ~ occ d w m.
Proof.
  induction w as [|x w IH]; intros H m Ho; cbn [find_sub] in H.
  - destruct (starts_with d []) eqn:Sw; [discriminate|].
    destruct m; [apply occ_0 in Ho; congruence|exact (occ_nil d m Ho)].
  - destruct (starts_with d (x :: w)) eqn:Sw; [discriminate|].
    destruct (find_sub d w) eqn:F; [discriminate|].
    destruct m; [apply occ_0 in Ho; congruence|].
    apply occ_S_inv in Ho. exact (IH eq_refl m Ho).
Qed.

Lemma find_sub_first d w n :
  occ d w n -> (forall m, m < n -> ~ occ d w m) -> find_sub d w = Some n.
Proof.
  intros O M. destruct (find_sub d w) as [k|] eqn:F.
  - destruct (find_sub_Some d w k F) as [Ok Mk]. f_equal.
    destruct (Nat.lt_trichotomy k n) as [L|[E|L]]; [exfalso; exact (M k L Ok)|exact E|
      exfalso; exact (Mk n L O)].
  - exfalso. exact (find_sub_None d w F n O).
Qed.

(* ---------------------------------------------------------------------- *)
(* parameters and payloads the round trip is stated for                     *)

Definition framer_ok (fr : framer) : Prop :=
  match fr with
  | LenDelim lfl _ => 1 <= lfl <= nn Consts.MAX_LFL
  | AnyDelim d => d <> []
  | Noop mx => 1 <= mx
  end.

(* a payload the framer can represent: the length fits the length field,
   resp. the first occurrence of the delimiter in payload ++ delimiter is the
   appended one *)
Definition payload_ok (fr : framer) (p : list byte) : Prop :=
  match fr with
  | LenDelim lfl _ => (NN (length p) < 256 ^ NN lfl)%N
  | AnyDelim d => find_sub d (p ++ d) = Some (length p)
  | Noop _ => True
  end.

Definition delimited (fr : framer) : Prop :=
  match fr with Noop _ => False | _ => True end.

Lemma enclose_nonempty fr p : framer_ok fr -> delimited fr -> 1 <= length (enclose fr p).
Proof.
  destruct fr as [lfl be|d|mx]; cbn [framer_ok delimited enclose]; intros H D.
  - rewrite app_length, len_bytes_length. lia.
  - rewrite app_length. destruct d; [congruence|cbn [length]; lia].
  - contradiction.
Qed.

Lemma extract_any d w :
  d <> [] ->
  extract (AnyDelim d) w =
  match find_sub d w with
  | Some pos => Ok (Some (mkframe 0 pos (length d)))
  | None => Ok None
  end.
Proof.
  intros H. destruct d as [|y d]; [congruence|]. destruct w as [|x w]; reflexivity.
Qed.

Lemma extract_nil fr : framer_ok fr -> extract fr [] = Ok None.
Proof.
  destruct fr as [lfl be|d|mx]; cbn [framer_ok extract length]; intros H; try reflexivity.
  destruct (Nat.ltb_spec 0 lfl); [reflexivity|lia].
Qed.

(* C13_extract_total: for every byte string, no panic, and a returned frame
   is non-empty and lies inside the buffer *)
Lemma extract_inside fr w :
  framer_ok fr ->
  extract fr w = Ok None \/
  exists f, extract fr w = Ok (Some f) /\ 1 <= frame_len f /\ frame_len f <= length w.
Proof.
  destruct fr as [lfl be|d|mx]; cbn [framer_ok extract]; intros H.
  - destruct (Nat.ltb_spec (length w) lfl) as [L|L]; [left; reflexivity|].
    destruct (N.ltb_spec (NN (length w - lfl)) (len_value be (firstn lfl w))) as [L2|L2];
      [left; reflexivity|right].
    eexists. split; [reflexivity|]. unfold frame_len; cbn [f_prefix f_payload f_suffix].
    unfold NN, nn in *. lia.
  - destruct w as [|x w]; [left; reflexivity|].
    destruct d as [|y d]; [congruence|].
    destruct (find_sub (y :: d) (x :: w)) as [pos|] eqn:F; [right|left; reflexivity].
    eexists. split; [reflexivity|]. unfold frame_len; cbn [f_prefix f_payload f_suffix].
    apply find_sub_Some in F as [O _]. apply occ_length in O. cbn [length] in *. lia.
  - destruct w as [|x w]; [left; reflexivity|right].
    eexists. split; [reflexivity|]. unfold frame_len; cbn [f_prefix f_payload f_suffix length]. lia.
Qed.

(* a returned frame's payload range lies inside the buffer: Frame::slice is exact *)
Lemma extract_payload_inside fr w f :
  framer_ok fr -> extract fr w = Ok (Some f) ->
  f_prefix f + f_payload f <= length w /\
  frame_slice f w = Ok (firstn (f_payload f) (skipn (f_prefix f) w)) /\
  length (firstn (f_payload f) (skipn (f_prefix f) w)) = f_payload f.
Proof.
  intros H E. destruct (extract_inside fr w H) as [N|(f' & E' & L1 & L2)]; [congruence|].
  rewrite E in E'. injection E' as <-. unfold frame_len in *.
  split; [lia|]. unfold frame_slice.
  destruct (Nat.ltb_spec (length w) (f_prefix f)); [lia|]. split; [reflexivity|].
  rewrite firstn_length, skipn_length. lia.
Qed.

(* ---------------------------------------------------------------------- *)
(* extract on a prefix of a stream that starts with an enclosed payload     *)

Lemma extract_complete fr p w t rest :
  framer_ok fr -> delimited fr -> payload_ok fr p ->
  w ++ t = enclose fr p ++ rest -> length (enclose fr p) <= length w ->
  exists f, extract fr w = Ok (Some f) /\ frame_len f = length (enclose fr p) /\
            frame_slice f w = Ok p.
Proof.
  intros H D P E L. destruct (app_prefix_split w t _ rest E L) as (w' & -> & _).
  destruct fr as [lfl be|d|mx]; cbn [framer_ok delimited payload_ok enclose] in *.
  - set (lb := len_bytes lfl be (NN (length p))) in *.
    assert (Ll : length lb = lfl) by apply len_bytes_length.
    cbn [extract]. rewrite !app_length, Ll.
    destruct (Nat.ltb_spec (lfl + length p + length w') lfl); [lia|].
    rewrite <- app_assoc, (firstn_app_exact0 lb _ lfl Ll).
    assert (Lv : len_value be lb = NN (length p)) by (apply len_value_len_bytes; exact P).
    rewrite !Lv.
    destruct (N.ltb_spec (NN (lfl + length p + length w' - lfl)) (NN (length p))) as [X|X];
      [unfold NN in X; lia|].
    eexists. split; [reflexivity|]. unfold frame_len, frame_slice; cbn [f_prefix f_payload f_suffix].
    unfold nn, NN. rewrite Nat2N.id. split; [lia|].
    rewrite !app_length, Ll. destruct (Nat.ltb_spec (lfl + (length p + length w')) lfl); [lia|].
    rewrite (skipn_app_exact0 lb _ lfl Ll). rewrite (firstn_app_exact0 p w' _ eq_refl). reflexivity.
  - rewrite (extract_any d _ H).
    assert (F : find_sub d ((p ++ d) ++ w') = Some (length p)).
    { apply find_sub_first.
      - exists p, w'. split; [rewrite <- app_assoc; reflexivity|reflexivity].
      - intros m Hm Ho. apply find_sub_Some in P as [_ M]. apply (M m Hm).
        apply (occ_prefix d (p ++ d) w' m Ho). rewrite app_length. lia. }
    rewrite F. eexists. split; [reflexivity|].
    unfold frame_len, frame_slice; cbn [f_prefix f_payload f_suffix length skipn].
    rewrite app_length. split; [lia|].
    rewrite <- app_assoc, (firstn_app_exact0 p _ _ eq_refl). reflexivity.
  - contradiction.
Qed.

Lemma extract_incomplete fr p w t rest :
  framer_ok fr -> delimited fr -> payload_ok fr p ->
  w ++ t = enclose fr p ++ rest -> length w < length (enclose fr p) ->
  extract fr w = Ok None.
Proof.
  intros H D P E L.
  destruct fr as [lfl be|d|mx]; cbn [framer_ok delimited payload_ok enclose] in *.
  - set (lb := len_bytes lfl be (NN (length p))) in *.
    assert (Ll : length lb = lfl) by apply len_bytes_length.
    rewrite app_length, Ll in L. cbn [extract].
    destruct (Nat.ltb_spec (length w) lfl) as [X|X]; [reflexivity|].
    rewrite (prefix_firstn w t _ lfl E X).
    rewrite <- app_assoc, (firstn_app_exact0 lb _ lfl Ll).
    unfold lb. rewrite (len_value_len_bytes lfl be _ P).
    destruct (N.ltb_spec (NN (length w - lfl)) (NN (length p))) as [Y|Y]; [reflexivity|].
    unfold NN in Y. lia.
  - cbn [extract]. destruct w as [|x w]; [reflexivity|].
    destruct d as [|y d]; [congruence|].
    destruct (find_sub (y :: d) (x :: w)) as [n|] eqn:F; [exfalso|reflexivity].
    apply find_sub_Some in F as [O _]. pose proof (occ_length _ _ _ O) as Ln.
    rewrite app_length in L.
    apply find_sub_Some in P as [_ M]. apply (M n); [lia|].
    apply (occ_app_r _ _ t) in O. rewrite E, <- app_assoc in O.
    rewrite app_assoc in O. apply (occ_prefix (y :: d) (p ++ (y :: d)) rest n O). rewrite app_length. lia.
  - contradiction.
Qed.

(* ---------------------------------------------------------------------- *)
(* reader state                                                            *)

Definition wf (st : rstate) : Prop :=
  rs_begin st <= length (rs_data st) /\ length (rs_data st) <= rs_cap st.

Lemma window_length st : length (window st) = length (rs_data st) - rs_begin st.
Proof. unfold window. apply skipn_length. Qed.

Lemma rs_advance_ok st amount :
  wf st -> amount <= length (window st) ->
  exists st', rs_advance st amount = Ok st' /\ wf st' /\
    window st' = skipn amount (window st) /\
    rs_cap st' = rs_cap st /\ rs_eof st' = rs_eof st.
Proof.
  intros [W1 W2] L. rewrite window_length in L. unfold rs_advance.
  destruct (Nat.ltb_spec (rs_cap st) (rs_begin st + amount)); [lia|].
  destruct (Nat.ltb_spec (length (rs_data st)) (rs_begin st + amount)); [lia|].
  destruct (Nat.leb_spec (length (rs_data st)) (rs_begin st + amount)).
  - eexists. split; [reflexivity|]. unfold wf, window; cbn [rs_data rs_cap rs_begin rs_eof length skipn].
    repeat split; try lia.
    rewrite skipn_skipn'. rewrite skipn_all2 by lia. reflexivity.
  - eexists. split; [reflexivity|]. unfold wf, window; cbn [rs_data rs_cap rs_begin rs_eof].
    repeat split; try lia. rewrite skipn_skipn'. reflexivity.
Qed.

Lemma rs_reserve_ok st add :
  wf st ->
  wf (rs_reserve st add) /\ window (rs_reserve st add) = window st /\
  rs_data (rs_reserve st add) = rs_data st /\ rs_begin (rs_reserve st add) = rs_begin st /\
  rs_eof (rs_reserve st add) = rs_eof st /\
  add <= rs_cap (rs_reserve st add) - length (rs_data st).
Proof.
  intros [W1 W2]. unfold rs_reserve.
  destruct (Nat.leb_spec add (rs_cap st - length (rs_data st))).
  - repeat split; try assumption.
  - unfold wf, window; cbn [rs_data rs_cap rs_begin rs_eof]. repeat split; lia.
Qed.

(* one poll that finds a frame: never a panic, the window shrinks *)
Lemma take_frame_total fr st :
  framer_ok fr -> wf st ->
  take_frame fr st = Ok None \/
  exists p st', take_frame fr st = Ok (Some (p, st')) /\ wf st' /\
    length (window st') < length (window st) /\
    rs_cap st' = rs_cap st /\ rs_eof st' = rs_eof st /\
    (forall mx, fr = Noop mx -> p ++ window st' = window st).
Proof.
  intros H W. unfold take_frame.
  destruct (extract_inside fr (window st) H) as [->|(f & E & L1 & L2)]; [left; reflexivity|right].
  rewrite E. cbn [rbind].
  destruct (extract_payload_inside fr _ f H E) as (I1 & -> & I3). cbn [rbind].
  destruct (rs_advance_ok st (frame_len f) W L2) as (st' & -> & W' & Ew & Ec & Ee). cbn [rbind].
  eexists _, st'. split; [reflexivity|]. split; [exact W'|].
  split; [rewrite Ew, skipn_length; lia|]. split; [exact Ec|]. split; [exact Ee|].
  intros mx ->. cbn [extract] in E. destruct (window st) as [|x w] eqn:Ewd; [discriminate|].
  injection E as <-. unfold frame_len in Ew; cbn [f_prefix f_payload f_suffix skipn plus] in *.
  rewrite Ew, Nat.add_0_r. apply firstn_skipn.
Qed.

Lemma drain_total fr : forall fuel st,
  framer_ok fr -> wf st -> length (window st) <= fuel ->
  exists ps st', drain fuel fr st = Ok (ps, st') /\ wf st' /\
    rs_cap st' = rs_cap st /\ rs_eof st' = rs_eof st /\
    length ps + length (window st') <= length (window st) /\
    take_frame fr st' = Ok None /\
    (forall mx, fr = Noop mx -> concat ps = window st /\ window st' = []).
Proof.
  induction fuel as [|k IH]; intros st H W L.
  - assert (E : window st = []) by (destruct (window st); [reflexivity|cbn [length] in L; lia]).
    assert (T : take_frame fr st = Ok None).
    { unfold take_frame. rewrite E, (extract_nil fr H). reflexivity. }
    cbn [drain]. rewrite T. cbn [rbind]. exists [], st. splits; side.
    intros mx ->. rewrite E. split; reflexivity.
  - cbn [drain]. destruct (take_frame_total fr st H W) as [T|(p & st1 & T & W1 & L1 & C1 & E1 & N1)].
    + rewrite T. cbn [rbind]. exists [], st. splits; side.
      intros mx ->. cbn [concat]. unfold take_frame in T. cbn [extract] in T.
      destruct (window st); [split; reflexivity|]. cbn [rbind] in T.
      destruct (frame_slice _ _); cbn [rbind] in T; [|discriminate].
      destruct (rs_advance _ _); cbn [rbind] in T; discriminate.
    + rewrite T. cbn [rbind].
      destruct (IH st1 H W1 ltac:(lia)) as (ps & st' & D & W' & C' & E' & L' & T' & N').
      rewrite D. cbn [rbind]. exists (p :: ps), st'. splits; side.
      intros mx Hm. destruct (N' mx Hm) as [X Y]. split; [|exact Y].
      cbn [concat]. rewrite X. apply (N1 mx Hm).
Qed.

(* ---------------------------------------------------------------------- *)
(* run_reader: unfolding equations                                          *)

Definition after_drain (st : rstate) : rstate := rs_reserve st (nn Consts.FRAMED_RESERVE).
Definition set_eof (st : rstate) : rstate := mkrs (rs_data st) (rs_cap st) (rs_begin st) true.
Definition fill (st : rstate) (bs : list byte) : rstate :=
  mkrs (rs_data st ++ bs) (rs_cap st) (rs_begin st) (rs_eof st).

Lemma run_reader_nil fr src st reads ps st1 :
  drain (length (window st)) fr st = Ok (ps, st1) ->
  run_reader fr [] src st reads =
  Ok (map IOk ps, reads + (if rs_eof (after_drain st1) then 1 else 2), src).
Proof. intros D. cbn [run_reader]. rewrite D. reflexivity. Qed.

Lemma run_reader_err fr e sched src st reads ps st1 :
  drain (length (window st)) fr st = Ok (ps, st1) ->
  run_reader fr (RdErr e :: sched) src st reads =
  (let! '(its, r, s) := run_reader fr sched src (after_drain st1) (S reads) in
   Ok (map IOk ps ++ IErr e :: its, r, s)).
Proof. intros D. cbn [run_reader]. rewrite D. reflexivity. Qed.

Lemma run_reader_chunk fr n sched src st reads ps st1 :
  drain (length (window st)) fr st = Ok (ps, st1) ->
  run_reader fr (RdChunk n :: sched) src st reads =
  (let st2 := after_drain st1 in
   let k := read_len st2 n src in
   if Nat.eqb k 0 then
     if rs_eof st2 then Ok (map IOk ps, S reads, src)
     else let! '(its, r, s) := run_reader fr sched src (set_eof st2) (S reads) in
          Ok (map IOk ps ++ its, r, s)
   else let! '(its, r, s) := run_reader fr sched (skipn k src) (fill st2 (firstn k src)) (S reads) in
        Ok (map IOk ps ++ its, r, s)).
Proof. intros D. cbn [run_reader]. rewrite D. reflexivity. Qed.

Lemma after_drain_ok st :
  wf st -> wf (after_drain st) /\ window (after_drain st) = window st /\
  rs_eof (after_drain st) = rs_eof st.
Proof.
  intros W. destruct (rs_reserve_ok st (nn Consts.FRAMED_RESERVE) W) as (A & B & _ & _ & C & _).
  unfold after_drain. splits; assumption.
Qed.

Lemma set_eof_ok st : wf st -> wf (set_eof st) /\ window (set_eof st) = window st.
Proof. intros W. split; [exact W|reflexivity]. Qed.

Lemma fill_ok st n src :
  wf st -> let k := read_len st n src in
  wf (fill st (firstn k src)) /\ window (fill st (firstn k src)) = window st ++ firstn k src.
Proof.
  intros [W1 W2] k. unfold fill, wf, window; cbn [rs_data rs_cap rs_begin].
  assert (Lk : length (firstn k src) = k).
  { rewrite firstn_length. unfold k, read_len. lia. }
  rewrite app_length, Lk. splits; try lia.
  - unfold k, read_len. lia.
  - apply skipn_app_l. exact W1.
Qed.

Definition oks (its : list item) : list (list byte) :=
  flat_map (fun i => match i with IOk p => [p] | IErr _ => [] end) its.

Lemma oks_app a b : oks (a ++ b) = oks a ++ oks b.
Proof. unfold oks. apply flat_map_app. Qed.

Lemma oks_map_IOk ps : oks (map IOk ps) = ps.
Proof. induction ps as [|p ps IH]; [reflexivity|]. cbn [map oks flat_map app] in *. f_equal. exact IH. Qed.

(* ---------------------------------------------------------------------- *)
(* totality and step bound, for EVERY byte stream and schedule               *)

Lemma run_reader_total fr : forall sched src st reads,
  framer_ok fr -> wf st ->
  exists its r src',
    run_reader fr sched src st reads = Ok (its, r, src') /\
    r <= reads + length sched + 2 /\
    length its + length src' <= length (window st) + length src + length sched /\
    exists k, src' = skipn k src.
Proof.
  induction sched as [|a sched IH]; intros src st reads H W.
  - destruct (drain_total fr _ st H W (le_n _)) as (ps & st1 & D & W1 & _ & _ & L1 & _).
    rewrite (run_reader_nil _ _ _ _ _ _ D). eexists _, _, _. split; [reflexivity|].
    rewrite map_length. cbn [length]. splits.
    + destruct (rs_eof _); lia.
    + lia.
    + exists 0. reflexivity.
  - destruct (drain_total fr _ st H W (le_n _)) as (ps & st1 & D & W1 & _ & _ & L1 & _).
    destruct (after_drain_ok st1 W1) as (W2 & Ew2 & _).
    destruct a as [n|e].
    + rewrite (run_reader_chunk _ _ _ _ _ _ _ _ D). cbv zeta.
      destruct (Nat.eqb_spec (read_len (after_drain st1) n src) 0) as [K|K].
      * destruct (rs_eof (after_drain st1)).
        -- eexists _, _, _. split; [reflexivity|]. rewrite map_length. cbn [length].
           splits; try lia. exists 0. reflexivity.
        -- destruct (set_eof_ok _ W2) as (W3 & Ew3).
           destruct (IH src (set_eof (after_drain st1)) (S reads) H W3) as (its & r & s & E & B1 & B2 & k & Es).
           rewrite E. cbn [rbind]. eexists _, _, _. split; [reflexivity|].
           rewrite app_length, map_length. cbn [length]. rewrite Ew3, Ew2 in B2.
           splits; try lia. exists k. exact Es.
      * destruct (fill_ok (after_drain st1) n src W2) as (W3 & Ew3).
        set (k := read_len (after_drain st1) n src) in *.
        destruct (IH (skipn k src) (fill (after_drain st1) (firstn k src)) (S reads) H W3)
          as (its & r & s & E & B1 & B2 & j & Es).
        rewrite E. cbn [rbind]. eexists _, _, _. split; [reflexivity|].
        rewrite app_length, map_length. cbn [length].
        rewrite Ew3, Ew2, app_length, firstn_length, skipn_length in B2.
        splits; try lia. exists (k + j). rewrite Es. apply skipn_skipn'.
    + rewrite (run_reader_err _ _ _ _ _ _ _ _ D).
      destruct (IH src (after_drain st1) (S reads) H W2) as (its & r & s & E & B1 & B2 & k & Es).
      rewrite E. cbn [rbind]. eexists _, _, _. split; [reflexivity|].
      rewrite app_length, map_length. cbn [length]. rewrite Ew2 in B2.
      splits; try lia. exists k. exact Es.
Qed.

Lemma rs_init_wf : wf rs_init.
Proof. split; cbn; lia. Qed.

Theorem decode_stream_total fr sched src :
  framer_ok fr ->
  exists its r src',
    decode_stream fr sched src = Ok (its, r, src') /\
    r <= length sched + 2 /\
    length its + length src' <= length src + length sched.
Proof.
  intros H. destruct (run_reader_total fr sched src rs_init 0 H rs_init_wf)
    as (its & r & s & E & B1 & B2 & _).
  exists its, r, s. split; [exact E|]. cbn [window rs_init rs_begin rs_data skipn length] in B2.
  split; lia.
Qed.

(* ---------------------------------------------------------------------- *)
(* round trip for the delimited framers                                     *)

Lemma encode_stream_cons fr p fs : encode_stream fr (p :: fs) = enclose fr p ++ encode_stream fr fs.
Proof. reflexivity. Qed.

Lemma take_frame_complete fr st p src fs :
  framer_ok fr -> delimited fr -> payload_ok fr p -> wf st ->
  window st ++ src = encode_stream fr (p :: fs) ->
  length (enclose fr p) <= length (window st) ->
  exists st', take_frame fr st = Ok (Some (p, st')) /\ wf st' /\
    window st' ++ src = encode_stream fr fs /\
    length (window st') < length (window st) /\
    rs_cap st' = rs_cap st /\ rs_eof st' = rs_eof st.
Proof.
  intros H D P W E L. rewrite encode_stream_cons in E.
  destruct (extract_complete fr p _ _ _ H D P E L) as (f & X & Fl & Sl).
  unfold take_frame. rewrite X. cbn [rbind]. rewrite Sl. cbn [rbind].
  destruct (rs_advance_ok st (frame_len f) W ltac:(lia)) as (st' & -> & W' & Ew & Ec & Ee).
  cbn [rbind]. exists st'. split; [reflexivity|].
  destruct (app_prefix_split _ _ _ _ E L) as (w' & Ew' & Er).
  pose proof (enclose_nonempty fr p H D) as Ne.
  splits; try assumption.
  - rewrite Ew, Fl, Ew'. rewrite (skipn_app_exact0 _ w' _ eq_refl). symmetry. exact Er.
  - rewrite Ew, skipn_length. lia.
Qed.

Lemma drain_stream fr : forall fs fuel st src,
  framer_ok fr -> delimited fr -> Forall (payload_ok fr) fs -> wf st ->
  length (window st) <= fuel ->
  window st ++ src = encode_stream fr fs ->
  exists n st', drain fuel fr st = Ok (firstn n fs, st') /\ wf st' /\
    window st' ++ src = encode_stream fr (skipn n fs) /\
    rs_cap st' = rs_cap st /\ rs_eof st' = rs_eof st /\
    take_frame fr st' = Ok None.
Proof.
  induction fs as [|p fs IH]; intros fuel st src H D P W L E.
  - destruct (drain_total fr fuel st H W L) as (ps & st' & Dr & W' & C' & E' & L' & T' & _).
    assert (Ew : window st = []).
    { cbn in E. destruct (window st); [reflexivity|discriminate]. }
    rewrite Ew in L'. cbn [length] in L'.
    assert (ps = []) by (destruct ps; [reflexivity|cbn [length] in L'; lia]). subst ps.
    exists 0, st'. cbn [firstn skipn]. splits; try assumption.
    assert (window st' = []) by (destruct (window st'); [reflexivity|cbn [length] in L'; lia]).
    rewrite H0. cbn in E |- *. destruct src; [reflexivity|]. rewrite Ew in E. discriminate.
  - inversion P as [|? ? P1 P2]; subst.
    destruct (Nat.le_gt_cases (length (enclose fr p)) (length (window st))) as [C|C].
    + destruct (take_frame_complete fr st p src fs H D P1 W E C) as (st1 & T & W1 & E1 & L1 & C1 & F1).
      destruct fuel as [|k]; [lia|]. cbn [drain]. rewrite T. cbn [rbind].
      destruct (IH k st1 src H D P2 W1 ltac:(lia) E1) as (n & st' & Dr & W' & E' & C' & F' & T').
      rewrite Dr. cbn [rbind]. exists (S n), st'. cbn [firstn skipn].
      splits; try assumption; congruence.
    + assert (T : take_frame fr st = Ok None).
      { unfold take_frame. rewrite encode_stream_cons in E.
        rewrite (extract_incomplete fr p _ _ _ H D P1 E C). reflexivity. }
      exists 0, st. cbn [firstn skipn].
      destruct fuel; cbn [drain]; rewrite T; cbn [rbind]; splits; try assumption; reflexivity.
Qed.

(* when the reader holds nothing more and no complete frame is buffered,
   every frame has been handed out *)
Lemma nothing_left fr st fs :
  framer_ok fr -> delimited fr -> Forall (payload_ok fr) fs -> wf st ->
  window st ++ [] = encode_stream fr fs -> take_frame fr st = Ok None -> fs = [].
Proof.
  intros H D P W E T. destruct fs as [|p fs]; [reflexivity|exfalso].
  inversion P as [|? ? P1 P2]; subst.
  assert (L : length (enclose fr p) <= length (window st)).
  { apply (f_equal (@length _)) in E. rewrite encode_stream_cons, !app_length in E.
    cbn [length] in E. lia. }
  destruct (take_frame_complete fr st p [] fs H D P1 W E L) as (st' & T' & _). congruence.
Qed.

Lemma run_reader_stream fr : forall sched src st reads fs,
  framer_ok fr -> delimited fr -> Forall (payload_ok fr) fs -> wf st ->
  window st ++ src = encode_stream fr fs ->
  exists its r src' n,
    run_reader fr sched src st reads = Ok (its, r, src') /\
    oks its = firstn n fs /\ (src' = [] -> oks its = fs).
Proof.
  induction sched as [|a sched IH]; intros src st reads fs H D P W E.
  - destruct (drain_stream fr fs _ st src H D P W (le_n _) E) as (n & st1 & Dr & W1 & E1 & _ & _ & T1).
    rewrite (run_reader_nil _ _ _ _ _ _ Dr). eexists _, _, _, n. split; [reflexivity|].
    rewrite oks_map_IOk. split; [reflexivity|]. intros ->.
    assert (P' : Forall (payload_ok fr) (skipn n fs)).
    { rewrite <- (firstn_skipn n fs) in P. apply Forall_app in P. apply P. }
    rewrite <- (firstn_skipn n fs) at 2. rewrite (nothing_left fr st1 _ H D P' W1 E1 T1).
    rewrite app_nil_r. reflexivity.
  - destruct (drain_stream fr fs _ st src H D P W (le_n _) E) as (n & st1 & Dr & W1 & E1 & _ & _ & T1).
    destruct (after_drain_ok st1 W1) as (W2 & Ew2 & _).
    assert (P' : Forall (payload_ok fr) (skipn n fs)).
    { rewrite <- (firstn_skipn n fs) in P. apply Forall_app in P. apply P. }
    assert (Join : forall its' n', oks its' = firstn n' (skipn n fs) ->
              oks (map IOk (firstn n fs) ++ its') = firstn (n + n') fs).
    { intros its' n' X. rewrite oks_app, oks_map_IOk, X. apply firstn_add_skipn. }
    assert (Full : forall its', oks its' = skipn n fs ->
              oks (map IOk (firstn n fs) ++ its') = fs).
    { intros its' X. rewrite oks_app, oks_map_IOk, X. apply firstn_skipn. }
    destruct a as [c|e].
    + rewrite (run_reader_chunk _ _ _ _ _ _ _ _ Dr). cbv zeta.
      destruct (Nat.eqb_spec (read_len (after_drain st1) c src) 0) as [K|K].
      * destruct (rs_eof (after_drain st1)).
        -- eexists _, _, _, n. split; [reflexivity|]. rewrite oks_map_IOk.
           split; [reflexivity|]. intros ->.
           rewrite <- (firstn_skipn n fs) at 2.
           rewrite (nothing_left fr st1 _ H D P' W1 E1 T1), app_nil_r. reflexivity.
        -- destruct (set_eof_ok _ W2) as (W3 & Ew3).
           destruct (IH src (set_eof (after_drain st1)) (S reads) (skipn n fs) H D P' W3)
             as (its & r & s & n' & X & O1 & O2).
           { rewrite Ew3, Ew2. exact E1. }
           rewrite X. cbn [rbind]. eexists _, _, _, (n + n'). split; [reflexivity|].
           split; [apply Join; exact O1|]. intros Hs. apply Full. apply O2. exact Hs.
      * destruct (fill_ok (after_drain st1) c src W2) as (W3 & Ew3).
        set (k := read_len (after_drain st1) c src) in *.
        destruct (IH (skipn k src) (fill (after_drain st1) (firstn k src)) (S reads) (skipn n fs)
                    H D P' W3) as (its & r & s & n' & X & O1 & O2).
        { rewrite Ew3, Ew2, <- app_assoc, firstn_skipn. exact E1. }
        rewrite X. cbn [rbind]. eexists _, _, _, (n + n'). split; [reflexivity|].
        split; [apply Join; exact O1|]. intros Hs. apply Full. apply O2. exact Hs.
    + rewrite (run_reader_err _ _ _ _ _ _ _ _ Dr).
      destruct (IH src (after_drain st1) (S reads) (skipn n fs) H D P' W2)
        as (its & r & s & n' & X & O1 & O2).
      { rewrite Ew2. exact E1. }
      rewrite X. cbn [rbind]. eexists _, _, _, (n + n'). split; [reflexivity|].
      assert (Oe : forall l, oks (map IOk (firstn n fs) ++ IErr e :: l) = oks (map IOk (firstn n fs) ++ l)).
      { intros l. rewrite !oks_app. reflexivity. }
      rewrite Oe. split; [apply Join; exact O1|]. intros Hs. apply Full. apply O2. exact Hs.
Qed.

Theorem roundtrip_delimited fr frames sched :
  framer_ok fr -> delimited fr -> Forall (payload_ok fr) frames ->
  exists its reads src' n,
    decode_stream fr sched (encode_stream fr frames) = Ok (its, reads, src') /\
    oks its = firstn n frames /\ (src' = [] -> oks its = frames).
Proof.
  intros H D P. apply run_reader_stream; try assumption; [apply rs_init_wf|reflexivity].
Qed.

(* ---------------------------------------------------------------------- *)
(* NoopFramer: the byte stream is preserved (frame boundaries are not)      *)

Lemma run_reader_noop mx : forall sched src st reads,
  1 <= mx -> wf st ->
  exists its r src',
    run_reader (Noop mx) sched src st reads = Ok (its, r, src') /\
    exists k, src' = skipn k src /\ concat (oks its) = window st ++ firstn k src.
Proof.
  induction sched as [|a sched IH]; intros src st reads H W.
  - destruct (drain_total (Noop mx) _ st H W (le_n _)) as (ps & st1 & D & W1 & _ & _ & _ & _ & N).
    destruct (N mx eq_refl) as [Nc Nw].
    rewrite (run_reader_nil _ _ _ _ _ _ D). eexists _, _, _. split; [reflexivity|].
    exists 0. rewrite oks_map_IOk. cbn [firstn skipn]. rewrite app_nil_r. split; [reflexivity|exact Nc].
  - destruct (drain_total (Noop mx) _ st H W (le_n _)) as (ps & st1 & D & W1 & _ & _ & _ & _ & N).
    destruct (N mx eq_refl) as [Nc Nw].
    destruct (after_drain_ok st1 W1) as (W2 & Ew2 & _).
    destruct a as [c|e].
    + rewrite (run_reader_chunk _ _ _ _ _ _ _ _ D). cbv zeta.
      destruct (Nat.eqb_spec (read_len (after_drain st1) c src) 0) as [K|K].
      * destruct (rs_eof (after_drain st1)).
        -- eexists _, _, _. split; [reflexivity|]. exists 0. rewrite oks_map_IOk.
           cbn [firstn skipn]. rewrite app_nil_r. split; [reflexivity|exact Nc].
        -- destruct (set_eof_ok _ W2) as (W3 & Ew3).
           destruct (IH src (set_eof (after_drain st1)) (S reads) H W3) as (its & r & s & X & k & Es & Ec).
           rewrite X. cbn [rbind]. eexists _, _, _. split; [reflexivity|]. exists k.
           split; [exact Es|]. rewrite oks_app, oks_map_IOk, concat_app, Nc, Ec, Ew3, Ew2, Nw. reflexivity.
      * destruct (fill_ok (after_drain st1) c src W2) as (W3 & Ew3).
        set (k := read_len (after_drain st1) c src) in *.
        destruct (IH (skipn k src) (fill (after_drain st1) (firstn k src)) (S reads) H W3)
          as (its & r & s & X & j & Es & Ec).
        rewrite X. cbn [rbind]. eexists _, _, _. split; [reflexivity|]. exists (k + j).
        split; [rewrite Es; apply skipn_skipn'|].
        rewrite oks_app, oks_map_IOk, concat_app, Nc, Ec, Ew3, Ew2, Nw. cbn [app].
        rewrite firstn_add_skipn. reflexivity.
    + rewrite (run_reader_err _ _ _ _ _ _ _ _ D).
      destruct (IH src (after_drain st1) (S reads) H W2) as (its & r & s & X & k & Es & Ec).
      rewrite X. cbn [rbind]. eexists _, _, _. split; [reflexivity|]. exists k.
      split; [exact Es|]. rewrite oks_app, oks_map_IOk. cbn [oks flat_map app].
      fold (oks its). rewrite concat_app, Nc, Ec, Ew2, Nw. reflexivity.
Qed.

Lemma encode_stream_noop mx frames : encode_stream (Noop mx) frames = concat frames.
Proof. unfold encode_stream. cbn [enclose]. rewrite map_id. reflexivity. Qed.

Theorem roundtrip_noop mx frames sched :
  1 <= mx ->
  exists its reads src',
    decode_stream (Noop mx) sched (encode_stream (Noop mx) frames) = Ok (its, reads, src') /\
    concat (oks its) ++ src' = concat frames.
Proof.
  intros H. destruct (run_reader_noop mx sched (encode_stream (Noop mx) frames) rs_init 0 H rs_init_wf)
    as (its & r & s & X & k & Es & Ec).
  exists its, r, s. split; [exact X|]. rewrite Ec, Es. cbn [window rs_init rs_begin rs_data skipn app].
  rewrite firstn_skipn. apply encode_stream_noop.
Qed.

(* ---------------------------------------------------------------------- *)
(* every fragmentation into non-empty reads delivers the whole stream        *)

Definition positive (a : rd) : Prop := match a with RdChunk n => 1 <= n | RdErr _ => False end.

Lemma reserve_positive : 1 <= nn Consts.FRAMED_RESERVE.
Proof. vm_compute. lia. Qed.

Lemma run_reader_delivers fr : forall sched src st reads its r src',
  framer_ok fr -> wf st -> Forall positive sched -> length src <= length sched ->
  run_reader fr sched src st reads = Ok (its, r, src') -> src' = [].
Proof.
  induction sched as [|a sched IH]; intros src st reads its r src' H W P L E.
  - destruct src; [|cbn [length] in L; lia].
    destruct (drain_total fr _ st H W (le_n _)) as (ps & st1 & D & _).
    rewrite (run_reader_nil _ _ _ _ _ _ D) in E. injection E as _ _ <-. reflexivity.
  - inversion P as [|? ? Pa Ps]; subst.
    destruct (drain_total fr _ st H W (le_n _)) as (ps & st1 & D & W1 & _).
    destruct a as [c|e]; [|contradiction]. cbn [positive] in Pa.
    rewrite (run_reader_chunk _ _ _ _ _ _ _ _ D) in E. cbv zeta in E.
    destruct (rs_reserve_ok st1 (nn Consts.FRAMED_RESERVE) W1) as (W2 & _ & Ed & _ & _ & Sp).
    fold (after_drain st1) in W2, Ed, Sp. pose proof reserve_positive as Rp.
    destruct (Nat.eqb_spec (read_len (after_drain st1) c src) 0) as [K|K].
    + assert (src = []).
      { unfold read_len in K. rewrite Ed in K. destruct src; [reflexivity|cbn [length] in K; lia]. }
      subst src.
      destruct (rs_eof (after_drain st1)); [injection E as _ _ <-; reflexivity|].
      destruct (set_eof_ok _ W2) as (W3 & _).
      destruct (run_reader fr sched [] (set_eof (after_drain st1)) (S reads)) as [[[i2 r2] s2]|] eqn:X;
        cbn [rbind] in E; [|discriminate].
      injection E as _ _ <-. apply (IH [] _ _ _ _ _ H W3 Ps (Nat.le_0_l _) X).
    + destruct (fill_ok (after_drain st1) c src W2) as (W3 & _).
      set (k := read_len (after_drain st1) c src) in *.
      destruct (run_reader fr sched (skipn k src) (fill (after_drain st1) (firstn k src)) (S reads))
        as [[[i2 r2] s2]|] eqn:X; cbn [rbind] in E; [|discriminate].
      injection E as _ _ <-. apply (IH _ _ _ _ _ _ H W3 Ps) in X; [exact X|].
      rewrite skipn_length. cbn [length] in L. lia.
Qed.

(* ---------------------------------------------------------------------- *)
(* sufficient conditions for payload_ok                                      *)

(* a one-byte delimiter: the payload must not contain it *)
Lemma payload_ok_single b p : ~ In b p -> payload_ok (AnyDelim [b]) p.
Proof.
  intros Hn. cbn [payload_ok]. apply find_sub_first.
  - exists p, []. split; reflexivity.
  - intros m Hm (a & c & E & L). apply Hn.
    cbn [app] in E.
    assert (E' : p ++ [b] = a ++ b :: c) by exact E.
    destruct (app_prefix_split p [b] (a ++ [b]) c) as (w' & -> & _).
    { rewrite <- app_assoc. exact E'. }
    { rewrite app_length. cbn [length]. lia. }
    apply in_or_app. left. apply in_or_app. right. left. reflexivity.
Qed.

(* a delimiter without a border (no proper prefix that is also a suffix; every
   UTF-8 encoded char is one): the payload must not contain the delimiter *)
Definition bordered (d : list byte) : Prop :=
  exists k, 0 < k < length d /\ firstn k d = skipn (length d - k) d.

Lemma payload_ok_unbordered d p :
  ~ bordered d -> (forall m, ~ occ d p m) -> payload_ok (AnyDelim d) p.
Proof.
  intros Hb Hf. cbn [payload_ok]. apply find_sub_first.
  - exists p, []. split; [rewrite app_nil_r; reflexivity|reflexivity].
  - intros m Hm Ho.
    destruct (Nat.le_gt_cases (m + length d) (length p)) as [C|C].
    + apply (Hf m). apply (occ_prefix d p d m Ho C).
    + apply Hb. destruct Ho as (a & b & E & L).
      exists (m + length d - length p). split; [lia|].
      apply (f_equal (skipn (length p))) in E.
      rewrite (skipn_app_exact0 p d _ eq_refl) in E.
      rewrite skipn_app in E. rewrite (skipn_all2 a) in E by lia. cbn [app] in E.
      rewrite L in E. rewrite skipn_app_l in E by lia.
      replace (length d - (m + length d - length p)) with (length p - m) by lia.
      remember (skipn (length p - m) d) as X eqn:EX.
      assert (LX : length X = m + length d - length p) by (subst X; rewrite skipn_length; lia).
      transitivity (firstn (m + length d - length p) (X ++ b)); [rewrite <- E; reflexivity|].
      apply firstn_app_exact0. exact LX.
Qed.

(* ---------------------------------------------------------------------- *)
(* every fragmentation into non-empty reads, long enough to drain the stream *)

Theorem roundtrip_all_fragmentations fr frames ns :
  framer_ok fr -> delimited fr -> Forall (payload_ok fr) frames ->
  Forall (fun n => 1 <= n) ns -> length (encode_stream fr frames) <= length ns ->
  exists its reads,
    decode_stream fr (map RdChunk ns) (encode_stream fr frames) = Ok (its, reads, []) /\
    oks its = frames.
Proof.
  intros H D P Pn L.
  destruct (roundtrip_delimited fr frames (map RdChunk ns) H D P) as (its & r & s & n & E & _ & F).
  assert (Es : s = []).
  { apply (run_reader_delivers fr (map RdChunk ns) (encode_stream fr frames) rs_init 0 its r s H rs_init_wf); [| |exact E].
    - apply Forall_map. exact Pn.
    - rewrite map_length. exact L. }
  subst s. exists its, r. split; [exact E|apply F; reflexivity].
Qed.

Lemma max_lfl_8 : nn Consts.MAX_LFL = 8.
Proof. reflexivity. Qed.

Theorem roundtrip_length_delimited lfl be frames sched :
  1 <= lfl <= 8 ->
  Forall (fun p => (N.of_nat (length p) < 256 ^ N.of_nat lfl)%N) frames ->
  exists items reads rest n,
    decode_stream (LenDelim lfl be) sched (encode_stream (LenDelim lfl be) frames)
      = Ok (items, reads, rest) /\
    oks items = firstn n frames /\ (rest = [] -> oks items = frames).
Proof. intros H P. exact (roundtrip_delimited (LenDelim lfl be) frames sched H I P). Qed.

Theorem roundtrip_delimiter d frames sched :
  d <> [] ->
  Forall (fun p => find_sub d (p ++ d) = Some (length p)) frames ->
  exists items reads rest n,
    decode_stream (AnyDelim d) sched (encode_stream (AnyDelim d) frames) = Ok (items, reads, rest) /\
    oks items = firstn n frames /\ (rest = [] -> oks items = frames).
Proof. intros H P. exact (roundtrip_delimited (AnyDelim d) frames sched H I P). Qed.

Theorem extract_length_delimited_total lfl be w :
  1 <= lfl <= 8 ->
  extract (LenDelim lfl be) w = Ok None \/
  exists f, extract (LenDelim lfl be) w = Ok (Some f) /\
            1 <= frame_len f /\ frame_len f <= length w.
Proof. intros H. exact (extract_inside (LenDelim lfl be) w H). Qed.

(* ====================================================================== *)
(* sink side with a codec that can fail                                     *)

From Compio.Model Require IoHelpers.
From Compio.Thm Require IoHelpersThm.

Notation sbytes := IoHelpers.sink_bytes.

(* the frame a pending write still has to hand over *)
Definition pend (sk : sink) : list byte := if sk_writing sk then sk_buf sk else [].

Definition item_frames (fr : framer) (it : sitem) : list (list byte) :=
  match si_fail it with None => [enclose fr (si_payload it)] | Some _ => [] end.

(* the framings of the successfully encoded items of a program, each framed
   on its own *)
Definition ok_frames (fr : framer) (ops : list sop) : list (list byte) :=
  flat_map (fun op => match op with
                      | SFeed it | SSend it => item_frames fr it
                      | _ => []
                      end) ops.

Definition io_err (r : sres) : Prop := match r with SIoErr _ => True | _ => False end.

Definition expected_res (op : sop) : sres :=
  match op with
  | SFeed it | SSend it => match si_fail it with None => SOk | Some _ => SCodecErr end
  | _ => SOk
  end.

(* start_send depends neither on what the buffer held before nor on how much
   a failing encoder wrote *)
Lemma start_send_spec fr sk it :
  start_send fr sk it =
  match si_fail it with
  | None => (SOk, mksink (enclose fr (si_payload it)) true false)
  | Some _ => (SCodecErr, mksink [] false false)
  end.
Proof. unfold start_send, encode_item, buf_clear. destruct (si_fail it); reflexivity. Qed.

Lemma finish_write_spec sk ws log :
  exists r sk' ws' log' n,
    finish_write sk ws log = (r, sk', ws', log') /\
    sk_writing sk' = false /\ (r = SOk \/ io_err r) /\
    n <= length (pend sk) /\
    sbytes log' = sbytes log ++ firstn n (pend sk) /\
    (~ io_err r -> n = length (pend sk)).
Proof.
  unfold finish_write, pend. destruct (sk_writing sk) eqn:W.
  - destruct (IoHelpersThm.write_all_correct ws (sk_buf sk)) as (o & l & ws' & n & E & Ln & Eb & Full).
    rewrite E. eexists _, _, _, _, n. split; [reflexivity|]. cbn [sk_writing].
    split; [reflexivity|]. split; [destruct o; [left; reflexivity|right; exact I]|].
    split; [exact Ln|]. split; [rewrite IoHelpersThm.sink_bytes_app, Eb; reflexivity|].
    intros Hn. destruct o as [k|e]; [apply (Full k eq_refl)|exfalso; apply Hn; exact I].
  - eexists _, _, _, _, 0. split; [reflexivity|]. split; [exact W|]. split; [left; reflexivity|].
    cbn [length firstn]. split; [lia|]. split; [rewrite app_nil_r; reflexivity|reflexivity].
Qed.

Lemma sbytes_flush log : sbytes (log ++ [IoHelpers.WFlush]) = sbytes log.
Proof. rewrite IoHelpersThm.sink_bytes_app. cbn. apply app_nil_r. Qed.
Lemma sbytes_shutdown log : sbytes (log ++ [IoHelpers.WShutdown]) = sbytes log.
Proof. rewrite IoHelpersThm.sink_bytes_app. cbn. apply app_nil_r. Qed.

(* ---- exact form: a writer that reports no error ------------------------ *)

Lemma finish_write_exact sk ws log r sk1 ws1 log1 :
  finish_write sk ws log = (r, sk1, ws1, log1) -> ~ io_err r ->
  r = SOk /\ sk_writing sk1 = false /\ sbytes log1 = sbytes log ++ pend sk.
Proof.
  intros E Hn. destruct (finish_write_spec sk ws log) as (r' & sk' & ws' & log' & n & E' & W & R & Ln & Eb & Full).
  rewrite E in E'. injection E' as <- <- <- <-.
  split; [destruct R; [assumption|contradiction]|]. split; [exact W|].
  rewrite Eb, (Full Hn). rewrite firstn_all. reflexivity.
Qed.

Lemma pend_idle sk : sk_writing sk = false -> pend sk = [].
Proof. unfold pend. intros ->. reflexivity. Qed.

Lemma sink_feed_exact fr it sk ws log r sk1 ws1 log1 :
  sink_feed fr it sk ws log = (r, sk1, ws1, log1) -> ~ io_err r ->
  r = expected_res (SFeed it) /\
  sbytes log1 ++ pend sk1 = (sbytes log ++ pend sk) ++ concat (item_frames fr it).
Proof.
  unfold sink_feed. destruct (finish_write sk ws log) as [[[r0 sk0] ws0] log0] eqn:F.
  destruct (finish_write_spec sk ws log) as (r' & sk' & ws' & log' & n & E' & W & R & _).
  rewrite F in E'. injection E' as <- <- <- <-.
  destruct R as [->|R].
  - rewrite start_send_spec. destruct (finish_write_exact _ _ _ _ _ _ _ F ltac:(intros [])) as (_ & _ & Eb).
    unfold item_frames, expected_res. destruct (si_fail it); intros E Hn; injection E as <- <- <- <-.
    + split; [reflexivity|]. unfold pend at 1; cbn [sk_writing concat]. rewrite Eb, !app_nil_r. reflexivity.
    + split; [reflexivity|]. unfold pend at 1; cbn [sk_writing sk_buf concat]. rewrite Eb, app_nil_r. reflexivity.
  - destruct r0; try contradiction. intros E Hn. injection E as <- <- <- <-. exfalso. apply Hn. exact I.
Qed.

Lemma sink_flush_exact sk ws log r sk1 ws1 log1 :
  sink_flush sk ws log = (r, sk1, ws1, log1) -> ~ io_err r ->
  r = SOk /\ sk_writing sk1 = false /\ sbytes log1 ++ pend sk1 = sbytes log ++ pend sk.
Proof.
  unfold sink_flush. destruct (sk_writing sk) eqn:W; intros E Hn.
  - destruct (finish_write_exact _ _ _ _ _ _ _ E Hn) as (-> & W1 & Eb).
    split; [reflexivity|]. split; [exact W1|]. rewrite (pend_idle sk1 W1), app_nil_r. exact Eb.
  - injection E as <- <- <- <-. split; [reflexivity|]. split; [reflexivity|].
    rewrite sbytes_flush. unfold pend; cbn [sk_writing]. rewrite W. reflexivity.
Qed.

Lemma sink_close_exact sk ws log r sk1 ws1 log1 :
  sink_close sk ws log = (r, sk1, ws1, log1) -> ~ io_err r ->
  r = SOk /\ sbytes log1 ++ pend sk1 = sbytes log ++ pend sk.
Proof.
  unfold sink_close. destruct (sk_writing sk) eqn:W; intros E Hn.
  - destruct (finish_write_exact _ _ _ _ _ _ _ E Hn) as (-> & W1 & Eb).
    split; [reflexivity|]. rewrite (pend_idle sk1 W1), app_nil_r. exact Eb.
  - destruct (sk_conf sk); injection E as <- <- <- <-; (split; [reflexivity|]);
      [|rewrite sbytes_shutdown]; unfold pend; cbn [sk_writing]; rewrite W; reflexivity.
Qed.

Lemma sink_step_exact fr op sk ws log r sk1 ws1 log1 :
  sink_step fr op sk ws log = (r, sk1, ws1, log1) -> ~ io_err r ->
  r = expected_res op /\
  sbytes log1 ++ pend sk1 = (sbytes log ++ pend sk) ++ concat (ok_frames fr [op]).
Proof.
  unfold ok_frames; cbn [flat_map]. rewrite app_nil_r.
  destruct op as [it|it| |]; cbn [sink_step].
  - apply sink_feed_exact.
  - destruct (sink_feed fr it sk ws log) as [[[r0 sk0] ws0] log0] eqn:F.
    destruct r0.
    + intros E Hn. destruct (sink_feed_exact _ _ _ _ _ _ _ _ _ F ltac:(intros [])) as (R0 & Eb).
      destruct (sink_flush_exact _ _ _ _ _ _ _ E Hn) as (-> & _ & Eb').
      split; [exact R0|]. rewrite Eb'. exact Eb.
    + intros E Hn. injection E as <- <- <- <-. apply (sink_feed_exact _ _ _ _ _ _ _ _ _ F Hn).
    + intros E Hn. injection E as <- <- <- <-. exfalso. apply Hn. exact I.
  - intros E Hn. destruct (sink_flush_exact _ _ _ _ _ _ _ E Hn) as (-> & _ & Eb).
    split; [reflexivity|]. cbn [concat]. rewrite app_nil_r. exact Eb.
  - intros E Hn. destruct (sink_close_exact _ _ _ _ _ _ _ E Hn) as (-> & Eb).
    split; [reflexivity|]. cbn [concat]. rewrite app_nil_r. exact Eb.
Qed.

Lemma ok_frames_cons fr op ops : ok_frames fr (op :: ops) = ok_frames fr [op] ++ ok_frames fr ops.
Proof. unfold ok_frames. cbn [flat_map]. rewrite app_nil_r. reflexivity. Qed.

Theorem sink_run_exact fr : forall ops sk ws log rs sk' log',
  sink_run fr ops sk ws log = (rs, sk', log') ->
  Forall (fun r => ~ io_err r) rs ->
  rs = map expected_res ops /\
  sbytes log' ++ pend sk' = (sbytes log ++ pend sk) ++ concat (ok_frames fr ops).
Proof.
  induction ops as [|op ops IH]; intros sk ws log rs sk' log' E Hn.
  - cbn [sink_run] in E. injection E as <- <- <-. split; [reflexivity|]. cbn. rewrite app_nil_r. reflexivity.
  - cbn [sink_run] in E.
    destruct (sink_step fr op sk ws log) as [[[r sk1] ws1] log1] eqn:S.
    destruct (sink_run fr ops sk1 ws1 log1) as [[rs1 sk2] log2] eqn:R.
    injection E as <- <- <-. inversion Hn as [|? ? Hr Hrs]; subst.
    destruct (sink_step_exact _ _ _ _ _ _ _ _ _ S Hr) as (-> & Eb).
    destruct (IH _ _ _ _ _ _ R Hrs) as (-> & Eb2).
    split; [reflexivity|]. rewrite Eb2, Eb, (ok_frames_cons fr op ops), concat_app, !app_assoc. reflexivity.
Qed.

(* `send` for every item, from a fresh sink: everything is handed over *)
Lemma send_leaves_idle fr it sk ws log r sk1 ws1 log1 :
  sink_step fr (SSend it) sk ws log = (r, sk1, ws1, log1) -> sk_writing sk1 = false.
Proof.
  cbn [sink_step]. unfold sink_feed.
  destruct (finish_write_spec sk ws log) as (r0 & sk0 & ws0 & log0 & n & E0 & W0 & R0 & _).
  rewrite E0. destruct R0 as [->|R0].
  - rewrite start_send_spec. destruct (si_fail it).
    + intros E. injection E as <- <- <- <-. reflexivity.
    + unfold sink_flush; cbn [sk_writing]. intros E.
      destruct (finish_write_spec (mksink (enclose fr (si_payload it)) true false) ws0 log0)
        as (r2 & sk2 & ws2 & log2 & n2 & E2 & W2 & _).
      rewrite E2 in E. injection E as <- <- <- <-. exact W2.
  - destruct r0; try contradiction. intros E. injection E as <- <- <- <-. exact W0.
Qed.

Lemma sink_run_sends_idle fr : forall items sk ws log rs sk' log',
  sk_writing sk = false ->
  sink_run fr (map SSend items) sk ws log = (rs, sk', log') -> sk_writing sk' = false.
Proof.
  induction items as [|it items IH]; intros sk ws log rs sk' log' W E.
  - cbn in E. injection E as <- <- <-. exact W.
  - cbn [map sink_run] in E.
    destruct (sink_step fr (SSend it) sk ws log) as [[[r sk1] ws1] log1] eqn:S.
    destruct (sink_run fr (map SSend items) sk1 ws1 log1) as [[rs1 sk2] log2] eqn:R.
    injection E as <- <- <-. apply (IH _ _ _ _ _ _ (send_leaves_idle _ _ _ _ _ _ _ _ _ S) R).
Qed.

Definition ok_payloads (items : list sitem) : list (list byte) :=
  flat_map (fun it => match si_fail it with None => [si_payload it] | Some _ => [] end) items.

Lemma ok_frames_sends fr items :
  ok_frames fr (map SSend items) = map (enclose fr) (ok_payloads items).
Proof.
  induction items as [|it items IH]; [reflexivity|].
  cbn [map]. rewrite (ok_frames_cons fr (SSend it) (map SSend items)), IH. unfold ok_payloads at 2. cbn [flat_map].
  rewrite map_app. f_equal. unfold ok_frames, item_frames. cbn [flat_map].
  destruct (si_fail it); reflexivity.
Qed.

Theorem sink_send_all fr items ws rs sk' log' :
  sink_run fr (map SSend items) sink_init ws [] = (rs, sk', log') ->
  Forall (fun r => ~ io_err r) rs ->
  sbytes log' = encode_stream fr (ok_payloads items) /\
  rs = map (fun it => match si_fail it with None => SOk | Some _ => SCodecErr end) items.
Proof.
  intros E Hn. destruct (sink_run_exact fr _ _ _ _ _ _ _ E Hn) as (Er & Eb).
  pose proof (sink_run_sends_idle fr items sink_init ws [] rs sk' log' eq_refl E) as W.
  rewrite (pend_idle sk' W), app_nil_r in Eb. cbn in Eb. rewrite ok_frames_sends in Eb.
  split; [exact Eb|]. rewrite Er, map_map. reflexivity.
Qed.

(* ---- general form: any writer script ----------------------------------- *)

(* [bs] is made of a prefix of every frame of [fs], in order: no byte that is
   not part of the framing of a successfully encoded item, nothing reordered *)
Inductive pieces : list (list byte) -> list byte -> Prop :=
| p_nil : pieces [] []
| p_snoc fs bs f n : pieces fs bs -> pieces (fs ++ [f]) (bs ++ firstn n f).

Definition sinv (F : list (list byte)) (sk : sink) (bs : list byte) : Prop :=
  if sk_writing sk then exists F', F = F' ++ [sk_buf sk] /\ pieces F' bs else pieces F bs.

Lemma pieces_skip fs bs f : pieces fs bs -> pieces (fs ++ [f]) bs.
Proof. intros P. rewrite <- (app_nil_r bs). apply (p_snoc fs bs f 0 P). Qed.

Lemma pieces_skip_frames fr it fs bs : pieces fs bs -> pieces (fs ++ item_frames fr it) bs.
Proof.
  intros P. unfold item_frames. destruct (si_fail it); [rewrite app_nil_r; exact P|apply pieces_skip; exact P].
Qed.

Lemma finish_write_pieces F sk ws log r sk1 ws1 log1 :
  sinv F sk (sbytes log) -> finish_write sk ws log = (r, sk1, ws1, log1) ->
  sk_writing sk1 = false /\ pieces F (sbytes log1) /\ (r = SOk \/ io_err r).
Proof.
  intros I E. destruct (finish_write_spec sk ws log) as (r' & sk' & ws' & log' & n & E' & W & R & Ln & Eb & _).
  rewrite E in E'. injection E' as <- <- <- <-. split; [exact W|]. split; [|exact R].
  rewrite Eb. unfold sinv, pend in *. destruct (sk_writing sk).
  - destruct I as (F' & -> & P). apply p_snoc. exact P.
  - cbn [firstn]. rewrite firstn_nil, app_nil_r. exact I.
Qed.

Lemma sink_feed_pieces fr it F sk ws log r sk1 ws1 log1 :
  sinv F sk (sbytes log) -> sink_feed fr it sk ws log = (r, sk1, ws1, log1) ->
  sinv (F ++ item_frames fr it) sk1 (sbytes log1).
Proof.
  intros I. unfold sink_feed. destruct (finish_write sk ws log) as [[[r0 sk0] ws0] log0] eqn:Fw.
  destruct (finish_write_pieces F _ _ _ _ _ _ _ I Fw) as (W0 & P0 & R0).
  destruct R0 as [->|R0].
  - rewrite start_send_spec. unfold item_frames. destruct (si_fail it); intros E; injection E as <- <- <- <-.
    + unfold sinv; cbn [sk_writing]. rewrite app_nil_r. exact P0.
    + unfold sinv; cbn [sk_writing sk_buf]. exists F. split; [reflexivity|exact P0].
  - destruct r0; try contradiction. intros E. injection E as <- <- <- <-.
    unfold sinv. rewrite W0. apply pieces_skip_frames. exact P0.
Qed.

Lemma sink_flush_pieces F sk ws log r sk1 ws1 log1 :
  sinv F sk (sbytes log) -> sink_flush sk ws log = (r, sk1, ws1, log1) -> sinv F sk1 (sbytes log1).
Proof.
  intros I. unfold sink_flush. destruct (sk_writing sk) eqn:W; intros E.
  - destruct (finish_write_pieces F _ _ _ _ _ _ _ I E) as (W1 & P1 & _). unfold sinv. rewrite W1. exact P1.
  - injection E as <- <- <- <-. unfold sinv in *. cbn [sk_writing]. rewrite W in I. rewrite sbytes_flush. exact I.
Qed.

Lemma sink_close_pieces F sk ws log r sk1 ws1 log1 :
  sinv F sk (sbytes log) -> sink_close sk ws log = (r, sk1, ws1, log1) -> sinv F sk1 (sbytes log1).
Proof.
  intros I. unfold sink_close. destruct (sk_writing sk) eqn:W; intros E.
  - destruct (finish_write_pieces F _ _ _ _ _ _ _ I E) as (W1 & P1 & _). unfold sinv. rewrite W1. exact P1.
  - unfold sinv in I. rewrite W in I.
    destruct (sk_conf sk); injection E as <- <- <- <-; unfold sinv; cbn [sk_writing]; try rewrite W;
      [|rewrite sbytes_shutdown]; exact I.
Qed.

Lemma sink_step_pieces fr op F sk ws log r sk1 ws1 log1 :
  sinv F sk (sbytes log) -> sink_step fr op sk ws log = (r, sk1, ws1, log1) ->
  sinv (F ++ ok_frames fr [op]) sk1 (sbytes log1).
Proof.
  intros I. unfold ok_frames; cbn [flat_map]. rewrite app_nil_r.
  destruct op as [it|it| |]; cbn [sink_step].
  - apply sink_feed_pieces. exact I.
  - destruct (sink_feed fr it sk ws log) as [[[r0 sk0] ws0] log0] eqn:Fd.
    pose proof (sink_feed_pieces fr it F _ _ _ _ _ _ _ I Fd) as I0.
    destruct r0; intros E; [apply (sink_flush_pieces _ _ _ _ _ _ _ _ I0 E)| |];
      injection E as <- <- <- <-; exact I0.
  - rewrite app_nil_r. apply sink_flush_pieces. exact I.
  - rewrite app_nil_r. apply sink_close_pieces. exact I.
Qed.

Theorem sink_run_pieces fr : forall ops F sk ws log rs sk' log',
  sinv F sk (sbytes log) -> sink_run fr ops sk ws log = (rs, sk', log') ->
  sinv (F ++ ok_frames fr ops) sk' (sbytes log').
Proof.
  induction ops as [|op ops IH]; intros F sk ws log rs sk' log' I E.
  - cbn [sink_run] in E. injection E as <- <- <-. cbn. rewrite app_nil_r. exact I.
  - cbn [sink_run] in E.
    destruct (sink_step fr op sk ws log) as [[[r sk1] ws1] log1] eqn:S.
    destruct (sink_run fr ops sk1 ws1 log1) as [[rs1 sk2] log2] eqn:R.
    injection E as <- <- <-. rewrite (ok_frames_cons fr op ops), app_assoc.
    apply (IH _ _ _ _ _ _ _ (sink_step_pieces _ _ _ _ _ _ _ _ _ _ I S) R).
Qed.

(* from a fresh sink, whatever the writer does: what it has been handed plus
   what is still pending is made of prefixes of the framings of the ok items *)
Theorem sink_no_leak fr ops ws rs sk' log' :
  sink_run fr ops sink_init ws [] = (rs, sk', log') ->
  exists bs, pieces (ok_frames fr ops) bs /\
    (sk_writing sk' = false -> bs = sbytes log') /\
    (sk_writing sk' = true -> bs = sbytes log' ++ sk_buf sk').
Proof.
  intros E. pose proof (sink_run_pieces fr ops [] sink_init ws [] rs sk' log' p_nil E) as I.
  cbn [app] in I. unfold sinv in I. destruct (sk_writing sk').
  - destruct I as (F' & EF & P). exists (sbytes log' ++ sk_buf sk'). rewrite EF.
    split; [|split; [discriminate|reflexivity]].
    rewrite <- (firstn_all (sk_buf sk')) at 2. apply p_snoc. exact P.
  - exists (sbytes log'). split; [exact I|]. split; [reflexivity|discriminate].
Qed.

(* ---- the failing decoder ----------------------------------------------- *)

Lemma decode_stream_probe_spec fr sched src its r s :
  decode_stream fr sched src = Ok (its, r, s) ->
  decode_stream_probe fr sched src = Ok (map probe_decode its, r, s).
Proof. intros E. unfold decode_stream_probe. rewrite E. reflexivity. Qed.

(* a frame the decoder rejects is consumed like any other: the result is the
   item-by-item image of a run whose decoded payloads are exactly the frames *)
Theorem roundtrip_probe_decoder fr frames ns :
  framer_ok fr -> delimited fr -> Forall (payload_ok fr) frames ->
  Forall (fun n => 1 <= n) ns -> length (encode_stream fr frames) <= length ns ->
  exists items reads,
    decode_stream_probe fr (map RdChunk ns) (encode_stream fr frames) =
      Ok (map probe_decode items, reads, []) /\
    oks items = frames.
Proof.
  intros H D P Pn L.
  destruct (roundtrip_all_fragmentations fr frames ns H D P Pn L) as (its & r & E & O).
  exists its, r. split; [apply decode_stream_probe_spec; exact E|exact O].
Qed.

Theorem sink_program_exact fr ops ws rs sk' log' :
  sink_run fr ops sink_init ws [] = (rs, sk', log') ->
  Forall (fun r => ~ io_err r) rs ->
  rs = map expected_res ops /\
  sbytes log' ++ pend sk' = concat (ok_frames fr ops).
Proof. intros E Hn. exact (sink_run_exact fr ops sink_init ws [] rs sk' log' E Hn). Qed.

(* ---------------------------------------------------------------------- *)
(* every public construction path yields the same framer                    *)

Theorem framer_via_new ct s : framer_via ct s = framer_via CNew s.
Proof. destruct ct, s; reflexivity. Qed.

(* ... and it is the declared one: the delimiter of CharDelimited<C> is the
   UTF-8 encoding of C whatever the scratch buffer holds *)
Theorem char_delimited_framer cd : cd_framer cd = AnyDelim (utf8 (cd_char cd)).
Proof. reflexivity. Qed.

Theorem framer_via_declared ct s :
  framer_via ct s =
  match s with
  | FLen lfl be => LenDelim lfl be
  | FAny d => AnyDelim d
  | FChar c => AnyDelim (utf8 c)
  | FNoop => Noop (nn Consts.NOOP_MAX_SIZE)
  end.
Proof. destruct ct, s; reflexivity. Qed.
