(* WakeThm.v — invariants of the wake-up LTS (model/Wake.v), proved for every
   reachable state: every interleaving of any number of waker threads with the
   runtime thread and the kernel, every queue capacity >= 1, both notifier
   flavours, block_on and external-loop mode.  Sequential consistency only. *)
From Compio.Model Require Import Base Wake.
From Compio.Gen Require Import Consts.
Local Open Scope nat_scope.

(* ---------------------------------------------------------------------- *)
(* AwakeFlag arithmetic (re-checked against the regenerated constants)     *)

Lemma hn_wake f : has_notified (fl_wake f) = true.
Proof.
  unfold has_notified, fl_wake, AWAKE_NOTIFIED.
  rewrite N.land_lor_distr_l. change (N.land 1 1) with 1%N.
  destruct (N.eqb (N.lor (N.land f 1) 1) 0%N) eqn:E; [|reflexivity].
  apply N.eqb_eq in E. apply N.lor_eq_0_iff in E. destruct E as [_ E]. discriminate E.
Qed.

Lemma hn_idle : has_notified AWAKE_IDLE = false.
Proof. vm_compute. reflexivity. Qed.

Lemma hn_awake : has_notified AWAKE_AWAKE = false.
Proof. vm_compute. reflexivity. Qed.

Lemma idle_is_idle : fl_idle AWAKE_IDLE = true.
Proof. vm_compute. reflexivity. Qed.

Lemma idle_not_notified f : fl_idle f = true -> has_notified f = false.
Proof. unfold fl_idle. intros H. apply N.eqb_eq in H. subst. exact hn_idle. Qed.

Lemma hn_mono f : has_notified f = true -> has_notified (fl_wake f) = true.
Proof. intros _. apply hn_wake. Qed.

(* ---------------------------------------------------------------------- *)
(* guarded list update                                                     *)

Lemma upd_length {A} (l : list A) i x : length (upd l i x) = length l.
Proof.
  unfold upd. destruct (Nat.ltb i (length l)) eqn:E; [|reflexivity].
  apply Nat.ltb_lt in E. rewrite app_length. cbn [length].
  rewrite firstn_length, skipn_length. lia.
Qed.

Lemma nth_error_upd_eq {A} (l : list A) i x :
  i < length l -> nth_error (upd l i x) i = Some x.
Proof.
  intros H. unfold upd. assert (E : Nat.ltb i (length l) = true) by (apply Nat.ltb_lt; exact H).
  rewrite E. rewrite nth_error_app2; rewrite firstn_length; [|lia].
  replace (i - Nat.min i (length l)) with 0 by lia. reflexivity.
Qed.

Lemma nth_error_firstn_lt {A} (l : list A) i j : j < i -> nth_error (firstn i l) j = nth_error l j.
Proof.
  revert i j. induction l as [|a l IH]; intros i j H.
  - destruct i, j; reflexivity.
  - destruct i as [|i]; [lia|]. destruct j as [|j]; [reflexivity|]. cbn. apply IH. lia.
Qed.

Lemma nth_error_skipn_add {A} (l : list A) n k : nth_error (skipn n l) k = nth_error l (n + k).
Proof.
  revert l. induction n as [|n IH]; intros l; [reflexivity|].
  destruct l as [|a l]; [destruct k; reflexivity|]. cbn. apply IH.
Qed.

Lemma nth_error_upd_neq {A} (l : list A) i j x :
  i <> j -> nth_error (upd l i x) j = nth_error l j.
Proof.
  intros H. unfold upd. destruct (Nat.ltb i (length l)) eqn:E; [|reflexivity].
  apply Nat.ltb_lt in E.
  destruct (Nat.lt_ge_cases j i) as [Hlt|Hge].
  - rewrite nth_error_app1; [|rewrite firstn_length; lia].
    apply nth_error_firstn_lt; exact Hlt.
  - rewrite nth_error_app2; rewrite firstn_length; [|lia].
    replace (Nat.min i (length l)) with i by lia.
    destruct (j - i) as [|k] eqn:Ek; [lia|]. cbn [nth_error].
    rewrite nth_error_skipn_add. f_equal. lia.
Qed.

Lemma nth_error_upd_cases {A} (l : list A) i j x y :
  nth_error (upd l i x) j = Some y ->
  (j = i /\ y = x /\ i < length l) \/ (j <> i /\ nth_error l j = Some y).
Proof.
  intros H. destruct (Nat.eq_dec i j) as [->|Hn].
  - destruct (Nat.lt_ge_cases j (length l)) as [Hlt|Hge].
    + rewrite nth_error_upd_eq in H by exact Hlt. inversion H; subst. left. auto.
    + assert (Hx : nth_error (upd l j x) j = None).
      { apply nth_error_None. rewrite upd_length. exact Hge. }
      rewrite Hx in H. discriminate.
  - rewrite nth_error_upd_neq in H by exact Hn. right. split; [intro; subst; auto|exact H].
Qed.

Lemma nth_error_lt {A} (l : list A) i x : nth_error l i = Some x -> i < length l.
Proof. intros H. apply nth_error_Some. rewrite H. discriminate. Qed.

Lemma existsb_nth {A} (f : A -> bool) l i x :
  nth_error l i = Some x -> f x = true -> existsb f l = true.
Proof.
  intros H Hf. apply existsb_exists. exists x. split; [eapply nth_error_In; eauto|exact Hf].
Qed.

Lemma existsb_nth_inv {A} (f : A -> bool) l :
  existsb f l = true -> exists i x, nth_error l i = Some x /\ f x = true.
Proof.
  intros H. apply existsb_exists in H. destruct H as (x & Hin & Hf).
  apply In_nth_error in Hin. destruct Hin as (i & Hi). exists i, x. auto.
Qed.

Lemma existsb_upd_new {A} (f : A -> bool) l i o x :
  nth_error l i = Some o -> f x = true -> existsb f (upd l i x) = true.
Proof.
  intros H Hf. eapply existsb_nth; [|exact Hf].
  apply nth_error_upd_eq. eapply nth_error_lt; eauto.
Qed.

Lemma existsb_upd_keep {A} (f : A -> bool) l i o x :
  nth_error l i = Some o -> existsb f l = true ->
  existsb f (upd l i x) = true \/ f o = true.
Proof.
  intros H He. apply existsb_nth_inv in He. destruct He as (j & y & Hj & Hf).
  destruct (Nat.eq_dec i j) as [->|Hn].
  - rewrite H in Hj. inversion Hj; subst. right. exact Hf.
  - left. eapply existsb_nth; [|exact Hf]. rewrite nth_error_upd_neq by exact Hn. exact Hj.
Qed.

Lemma existsb_upd_inv {A} (f : A -> bool) l i x :
  existsb f (upd l i x) = true -> f x = true \/ existsb f l = true.
Proof.
  intros He. apply existsb_nth_inv in He. destruct He as (j & y & Hj & Hf).
  apply nth_error_upd_cases in Hj. destruct Hj as [(_ & -> & _)|(_ & Hj)].
  - left. exact Hf.
  - right. eapply existsb_nth; eauto.
Qed.

Definition b2n (b : bool) : nat := if b then 1 else 0.

Fixpoint count {A} (f : A -> bool) (l : list A) : nat :=
  match l with [] => 0 | x :: r => b2n (f x) + count f r end.

Lemma count_app {A} (f : A -> bool) l1 l2 : count f (l1 ++ l2) = count f l1 + count f l2.
Proof. induction l1 as [|a l1 IH]; cbn [count app]; [reflexivity|rewrite IH; lia]. Qed.

Lemma count_split {A} (f : A -> bool) l i o :
  nth_error l i = Some o ->
  count f l = count f (firstn i l) + b2n (f o) + count f (skipn (S i) l).
Proof.
  revert i. induction l as [|a l IH]; intros i H.
  - destruct i; discriminate.
  - destruct i as [|i].
    + cbn in H. inversion H; subst. cbn [firstn skipn count]. lia.
    + cbn [nth_error] in H. specialize (IH i H). change (skipn (S (S i)) (a :: l)) with (skipn (S i) l).
      change (firstn (S i) (a :: l)) with (a :: firstn i l). cbn [count]. lia.
Qed.

Lemma count_upd {A} (f : A -> bool) l i o x :
  nth_error l i = Some o ->
  count f (upd l i x) + b2n (f o) = count f l + b2n (f x).
Proof.
  intros H. pose proof (nth_error_lt _ _ _ H) as Hlt.
  unfold upd. assert (E : Nat.ltb i (length l) = true) by (apply Nat.ltb_lt; exact Hlt).
  rewrite E. rewrite count_app. cbn [count]. rewrite (count_split f l i o H). lia.
Qed.

Lemma count_map_same {A} (f : A -> bool) (g : A -> A) l :
  (forall x, f (g x) = f x) -> count f (map g l) = count f l.
Proof. intros H. induction l as [|a l IH]; cbn [map count]; [reflexivity|rewrite H, IH; reflexivity]. Qed.

Lemma nth_error_map_inv {A B} (g : A -> B) l i y :
  nth_error (map g l) i = Some y -> exists x, nth_error l i = Some x /\ y = g x.
Proof.
  revert i. induction l as [|a l IH]; intros i H.
  - destruct i; discriminate.
  - destruct i as [|i]; cbn in H.
    + inversion H; subst. exists a. split; reflexivity.
    + apply IH in H. exact H.
Qed.

Lemma existsb_map_same {A} (f : A -> bool) (g : A -> A) l :
  (forall x, f (g x) = f x) -> existsb f (map g l) = existsb f l.
Proof. intros H. induction l as [|a l IH]; cbn [map existsb]; [reflexivity|rewrite H, IH; reflexivity]. Qed.

Lemma in_make_hot t h : In t (make_hot t h).
Proof.
  unfold make_hot. destruct (existsb (Nat.eqb t) h) eqn:E.
  - apply existsb_exists in E. destruct E as (x & Hin & Hx). apply Nat.eqb_eq in Hx. subst. exact Hin.
  - apply in_or_app. right. left. reflexivity.
Qed.

Lemma in_make_hot_keep t u h : In u h -> In u (make_hot t h).
Proof.
  unfold make_hot. destruct (existsb (Nat.eqb t) h); intros H; [exact H|].
  apply in_or_app. left. exact H.
Qed.

Lemma make_hot_not_nil t h : make_hot t h <> [].
Proof. intros H. pose proof (in_make_hot t h) as Hi. rewrite H in Hi. destruct Hi. Qed.

(* ---------------------------------------------------------------------- *)
(* regions of the runtime thread's program, relative to the point where a
   wake is consumed (the poll of the main future / the pop from the queue)  *)

Inductive region := Pre | Post | Idle.
(* Pre:  the runtime reaches the consumption point without any blocking wait
   Post: past the consumption point, before the reset that precedes the wait
   Idle: between that reset and the return of the wait                       *)

Definition reg_main (s : st) : region :=
  match pc (r s) with
  | RMain0 | RSetAwake1 | RPollEntries | RClear | RSetAwake2 => Pre
  | RMain1 | RDrainLoad | RDrainPop | RDrainSub | RRun | RRunning
  | RFlushArm | RFlushSubmit | RFlushReset => Post
  | RExtWait | RWait => Idle
  | RReset => if ext (c s) then Pre else Post
  | RArm | REnter => if ext (c s) then Pre else Idle
  end.

Definition reg_drain (s : st) : region :=
  match pc (r s) with
  | RMain1 | RDrainLoad | RDrainPop => Pre
  | _ => reg_main s
  end.

Definition ob (g : region) (s : st) : Prop :=
  match g with
  | Pre => True
  | Post => has_notified (flag (d s)) = true
  | Idle => nw (r s) = false \/ has_notified (flag (d s)) = true
  end.

Definition is_write (p : wpc) : bool := match p with WWrite _ => true | _ => false end.
Definition writers (s : st) : bool := existsb (fun w => is_write (wp w)) (wk s).

Definition mid_push (p : wpc) : bool :=
  match p with WReserve | WPush _ | WFetch KSpin | WWrite KSpin => true | _ => false end.
Definition reserving (p : wpc) : bool :=
  match p with WPush _ | WFetch KSpin | WWrite KSpin => true | _ => false end.
Definition pushed (p : wpc) : bool :=
  match p with WFetch KPushed | WWrite KPushed | WFinish | WDone => true | _ => false end.
Definition notified_after (p : wpc) : bool :=
  match p with WWrite KPushed | WFinish | WDone => true | _ => false end.
Definition pushing_w (t : nat) (w : wst) : bool :=
  match tgt w with Some t' => Nat.eqb t t' && mid_push (wp w) | None => false end.
Definition pushing (t : nat) (ws : list wst) : bool := existsb (pushing_w t) ws.

Definition main_pc (p : wpc) : bool :=
  match p with WIdle | WFetch KMain | WWrite KMain | WDone => true | _ => false end.
Definition task_pc (p : wpc) : bool :=
  match p with WFetch KMain | WWrite KMain => false | _ => true end.

(* program points at which NEED_PUSH_NOTIFIER may be set *)
Definition np_pc (p : rpc) : bool :=
  match p with
  | RClear | RSetAwake2 | RMain0 | RMain1 | RDrainLoad | RDrainPop | RDrainSub
  | RRun | RRunning | RFlushArm | RReset | RArm => true
  | _ => false
  end.
(* program points between the end of a tick and the wait *)
Definition h_pc (p : rpc) : bool :=
  match p with
  | RReset | RArm | REnter | RWait | RFlushArm | RFlushSubmit | RFlushReset | RExtWait => true
  | _ => false
  end.
Definition ext_pc (p : rpc) : bool :=
  match p with RFlushArm | RFlushSubmit | RFlushReset | RExtWait => true | _ => false end.

Record G1 (s : st) : Prop := mk_g1 {
  i_idle_flag : reg_main s = Idle ->
    fl_idle (flag (d s)) = true \/ has_notified (flag (d s)) = true;
  i_efd : reg_main s = Idle -> has_notified (flag (d s)) = true ->
    0 < efd (d s) \/ writers s = true;
  i_sqarm : sqarm (d s) = true -> pc (r s) = REnter \/ pc (r s) = RFlushSubmit;
  i_need : need_push (d s) = true -> np_pc (pc (r s)) = true;
  i_todo : todo (r s) <> [] -> pc (r s) = RClear;
  i_arm : uring (c s) = true ->
    karmed (d s) = true \/ sqarm (d s) = true \/ need_push (d s) = true \/
    In CFinal (cq (d s)) \/ In CFinal (todo (r s));
  i_hot : h_pc (pc (r s)) = true -> rem (r s) = false -> hot (e s) = [];
  i_wait : pc (r s) = RWait -> nw (r s) = true /\ rem (r s) = false /\ ext (c s) = false;
  i_ext : ext_pc (pc (r s)) = true -> ext (c s) = true;
  i_drained : drained (r s) <> 0 -> pc (r s) = RDrainPop \/ pc (r s) = RDrainSub
}.

Record G2 (s : st) : Prop := mk_g2 {
  i_main : forall i w, nth_error (wk s) i = Some w -> tgt w = None ->
    main_effective (wp w) = true -> seen w = false -> ob (reg_main s) s;
  i_q : forall t i w, In (t, i) (queue (e s)) -> nth_error (wk s) i = Some w ->
    notified_after (wp w) = true -> ob (reg_drain s) s
}.

Record G3 (s : st) : Prop := mk_g3 {
  i_qmem : forall t i, In (t, i) (queue (e s)) ->
    exists w, nth_error (wk s) i = Some w /\ tgt w = Some t /\ pushed (wp w) = true;
  i_sched : forall t, nth_error (sched (e s)) t = Some true ->
    In t (hot (e s)) \/ (exists i, In (t, i) (queue (e s))) \/ pushing t (wk s) = true;
  i_seen : forall i w t, nth_error (wk s) i = Some w -> tgt w = Some t ->
    task_effective (wp w) = true -> seen w = false -> nth_error (sched (e s)) t = Some true;
  i_pending : pending (e s) =
    length (queue (e s)) + count (fun w => reserving (wp w)) (wk s) + drained (r s);
  i_cap : length (queue (e s)) <= qcap (c s);
  i_shape : forall i w, nth_error (wk s) i = Some w ->
    match tgt w with
    | None => main_pc (wp w) = true
    | Some t => task_pc (wp w) = true /\ t < length (sched (e s))
    end
}.

Record Inv (s : st) : Prop := mk_inv { i_g1 : G1 s; i_g2 : G2 s; i_g3 : G3 s }.

Arguments has_notified : simpl never.
Arguments fl_wake : simpl never.
Arguments fl_idle : simpl never.

Lemma nth_error_init_wk tg i w :
  nth_error (map (fun tg => mk_w tg WIdle false) tg) i = Some w -> wp w = WIdle.
Proof.
  intros H. apply nth_error_map_inv in H. destruct H as (x & _ & ->). reflexivity.
Qed.

Lemma count_init tg : count (fun w => reserving (wp w)) (map (fun tg => mk_w tg WIdle false) tg) = 0.
Proof. induction tg as [|a l IH]; cbn; [reflexivity|exact IH]. Qed.

Lemma nth_error_repeat_false n t : nth_error (repeat false n) t = Some true -> False.
Proof.
  revert t. induction n as [|n IH]; intros t H; [destruct t; discriminate|].
  destruct t as [|t]; cbn in H; [discriminate|eauto].
Qed.

(* threads of the initial state must name existing tasks *)
Definition targets_ok (ntasks : nat) (tg : list (option nat)) : Prop :=
  forall t, In (Some t) tg -> t < ntasks.

Lemma init_inv cf n tg : targets_ok n tg -> Inv (init cf n tg).
Proof.
  intros Hok. constructor; constructor; cbn; intros; try discriminate; try tauto; try lia;
    try match goal with
        | H : nth_error (repeat false _) _ = Some true |- _ =>
          exfalso; eapply nth_error_repeat_false; exact H
        | H : nth_error (map _ _) _ = Some ?w, H1 : _ (wp ?w) = true |- _ =>
          apply nth_error_init_wk in H; rewrite H in H1; discriminate
        end.
  - rewrite count_init. reflexivity.
  - pose proof H as H'. apply nth_error_map_inv in H'. destruct H' as (x & Hx & ->). cbn.
    destruct x as [t|]; [|reflexivity]. split; [reflexivity|].
    rewrite repeat_length. apply Hok. eapply nth_error_In; eauto.
Qed.

(* ---------------------------------------------------------------------- *)
(* preservation                                                            *)

Ltac dst s :=
  destruct s as [[ur ex qc mx] [fl ef ka sq np cq0] [qu pe sc sg ho] [p nw0 rm td dr bu] ws].

Ltac dg1 H :=
  destruct H as [I_idle I_efd I_sqarm I_need I_todo I_arm I_hot I_wait I_ext I_drained].
Ltac dg2 H := destruct H as [I_main I_q].
Ltac dg3 H := destruct H as [I_qmem I_sched I_seen I_pending I_cap I_shape].

Ltac red_all :=
  cbn [c d e r wk uring ext qcap maxi flag efd karmed sqarm need_push cq queue pending sched sching
       hot pc nw rem todo drained budget
       d_flag d_efd d_karmed d_sqarm d_need d_cq e_queue e_pending e_sched e_sching e_hot
       r_pc r_nw r_rem r_todo r_drained r_budget s_d s_e s_r s_wk goto
       reg_main reg_drain ob writers] in *.

Lemma in_app_l {A} (x : A) l1 l2 : In x l1 -> In x (l1 ++ l2).
Proof. intros H. apply in_or_app. left. exact H. Qed.

(* frame lemmas: a step that leaves a part of the state alone keeps the
   invariants that only speak about that part *)
Lemma g3_frame s s' :
  c s' = c s -> e s' = e s -> wk s' = wk s -> drained (r s') = drained (r s) -> G3 s -> G3 s'.
Proof.
  intros Hc He Hw Hd H. dg3 H.
  constructor; rewrite ?Hc, ?He, ?Hw, ?Hd; assumption.
Qed.

Lemma g2_frame s s' :
  wk s' = wk s -> queue (e s') = queue (e s) ->
  (ob (reg_main s) s -> ob (reg_main s') s') ->
  (ob (reg_drain s) s -> ob (reg_drain s') s') ->
  G2 s -> G2 s'.
Proof.
  intros Hw Hq Hm Hd H. dg2 H.
  constructor; rewrite ?Hw, ?Hq; intros; [apply Hm|apply Hd]; eauto.
Qed.

Ltac inv_some H := inversion H; subst; clear H.

Lemma inv_kernel s l s' :
  (l = LKNotify \/ l = LKOther \/ l = LKTerm) -> Inv s -> step s l = Some s' -> Inv s'.
Proof.
  intros Hl [H1 H2 H3] Hs.
  assert (Hshape : exists cq' ka', s' = s_d (d_cq cq' (d_karmed ka' (d s))) s /\
            (uring (c s) = true -> karmed (d s) = true \/ In CFinal (cq (d s)) ->
             ka' = true \/ In CFinal cq')).
  { dst s. unfold step, step_v in Hs. red_all.
    destruct Hl as [->|[->| ->]].
    - destruct (ur && ka && Nat.ltb 0 ef); [|discriminate]. inv_some Hs.
      exists (cq0 ++ [CNotify]), ka. split; [reflexivity|]. intros _ [H|H]; auto using in_app_l.
    - inv_some Hs. exists (cq0 ++ [COther]), ka. split; [reflexivity|].
      intros _ [H|H]; auto using in_app_l.
    - destruct (ur && ka); [|discriminate]. inv_some Hs.
      exists (cq0 ++ [CFinal]), false. split; [reflexivity|]. intros _ _. right.
      apply in_or_app. right. left. reflexivity. }
  destruct Hshape as (cq' & ka' & -> & Harm).
  constructor.
  - dg1 H1. dst s. red_all. constructor; red_all; auto.
    intros Hu. specialize (I_arm Hu). specialize (Harm Hu). tauto.
  - apply (g2_frame s); [reflexivity|reflexivity| | |exact H2]; intros H; dst s; exact H.
  - apply (g3_frame s); [reflexivity|reflexivity|reflexivity|reflexivity|exact H3].
Qed.
