(* WakeThm.v — invariants of the wake-up LTS (model/Wake.v), proved for every
   reachable state: every interleaving of any number of waker threads with the
   runtime thread and the kernel, every queue capacity >= 1, both notifier
   flavours, block_on and external-loop mode.  Sequential consistency only. *)
From Compio.Model Require Import Base Wake.
From Compio.Gen Require Import Consts.
Local Open Scope nat_scope.

(* ---------------------------------------------------------------------- *)
(* AwakeFlag arithmetic (re-checked against the regenerated constants)     *)

Lemma hn_wake f : has_notified (fl_wake f) = true.
Proof.
  unfold has_notified, fl_wake, AWAKE_NOTIFIED.
  rewrite N.land_lor_distr_l. change (N.land 1 1) with 1%N.
  destruct (N.eqb (N.lor (N.land f 1) 1) 0%N) eqn:E; [|reflexivity].
  apply N.eqb_eq in E. apply N.lor_eq_0_iff in E. destruct E as [_ E]. discriminate E.
Qed.

Lemma hn_idle : has_notified AWAKE_IDLE = false.
Proof. vm_compute. reflexivity. Qed.

Lemma hn_awake : has_notified AWAKE_AWAKE = false.
Proof. vm_compute. reflexivity. Qed.

Lemma idle_is_idle : fl_idle AWAKE_IDLE = true.
Proof. vm_compute. reflexivity. Qed.

Lemma idle_not_notified f : fl_idle f = true -> has_notified f = false.
Proof. unfold fl_idle. intros H. apply N.eqb_eq in H. subst. exact hn_idle. Qed.

Lemma hn_mono f : has_notified f = true -> has_notified (fl_wake f) = true.
Proof. intros _. apply hn_wake. Qed.

(* ---------------------------------------------------------------------- *)
(* guarded list update                                                     *)

Lemma upd_length {A} (l : list A) i x : length (upd l i x) = length l.
Proof.
  unfold upd. destruct (Nat.ltb i (length l)) eqn:E; [|reflexivity].
  apply Nat.ltb_lt in E. rewrite app_length. cbn [length].
  rewrite firstn_length, skipn_length. lia.
Qed.

Lemma nth_error_upd_eq {A} (l : list A) i x :
  i < length l -> nth_error (upd l i x) i = Some x.
Proof.
  intros H. unfold upd. assert (E : Nat.ltb i (length l) = true) by (apply Nat.ltb_lt; exact H).
  rewrite E. rewrite nth_error_app2; rewrite firstn_length; [|lia].
  replace (i - Nat.min i (length l)) with 0 by lia. reflexivity.
Qed.

Lemma nth_error_firstn_lt {A} (l : list A) i j : j < i -> nth_error (firstn i l) j = nth_error l j.
Proof.
  revert i j. induction l as [|a l IH]; intros i j H.
  - destruct i, j; reflexivity.
  - destruct i as [|i]; [lia|]. destruct j as [|j]; [reflexivity|]. cbn. apply IH. lia.
Qed.

Lemma nth_error_skipn_add {A} (l : list A) n k : nth_error (skipn n l) k = nth_error l (n + k).
Proof.
  revert l. induction n as [|n IH]; intros l; [reflexivity|].
  destruct l as [|a l]; [destruct k; reflexivity|]. cbn. apply IH.
Qed.

Lemma nth_error_upd_neq {A} (l : list A) i j x :
  i <> j -> nth_error (upd l i x) j = nth_error l j.
Proof.
  intros H. unfold upd. destruct (Nat.ltb i (length l)) eqn:E; [|reflexivity].
  apply Nat.ltb_lt in E.
  destruct (Nat.lt_ge_cases j i) as [Hlt|Hge].
  - rewrite nth_error_app1; [|rewrite firstn_length; lia].
    apply nth_error_firstn_lt; exact Hlt.
  - rewrite nth_error_app2; rewrite firstn_length; [|lia].
    replace (Nat.min i (length l)) with i by lia.
    destruct (j - i) as [|k] eqn:Ek; [lia|]. cbn [nth_error].
    rewrite nth_error_skipn_add. f_equal. lia.
Qed.

Lemma nth_error_upd_cases {A} (l : list A) i j x y :
  nth_error (upd l i x) j = Some y ->
  (j = i /\ y = x /\ i < length l) \/ (j <> i /\ nth_error l j = Some y).
Proof.
  intros H. destruct (Nat.eq_dec i j) as [->|Hn].
  - destruct (Nat.lt_ge_cases j (length l)) as [Hlt|Hge].
    + rewrite nth_error_upd_eq in H by exact Hlt. inversion H; subst. left. auto.
    + assert (Hx : nth_error (upd l j x) j = None).
      { apply nth_error_None. rewrite upd_length. exact Hge. }
      rewrite Hx in H. discriminate.
  - rewrite nth_error_upd_neq in H by exact Hn. right. split; [intro; subst; auto|exact H].
Qed.

Lemma nth_error_lt {A} (l : list A) i x : nth_error l i = Some x -> i < length l.
Proof. intros H. apply nth_error_Some. rewrite H. discriminate. Qed.

Lemma existsb_nth {A} (f : A -> bool) l i x :
  nth_error l i = Some x -> f x = true -> existsb f l = true.
Proof.
  intros H Hf. apply existsb_exists. exists x. split; [eapply nth_error_In; eauto|exact Hf].
Qed.

Lemma existsb_nth_inv {A} (f : A -> bool) l :
  existsb f l = true -> exists i x, nth_error l i = Some x /\ f x = true.
Proof.
  intros H. apply existsb_exists in H. destruct H as (x & Hin & Hf).
  apply In_nth_error in Hin. destruct Hin as (i & Hi). exists i, x. auto.
Qed.

Lemma existsb_upd_new {A} (f : A -> bool) l i o x :
  nth_error l i = Some o -> f x = true -> existsb f (upd l i x) = true.
Proof.
  intros H Hf. eapply existsb_nth; [|exact Hf].
  apply nth_error_upd_eq. eapply nth_error_lt; eauto.
Qed.

Lemma existsb_upd_keep {A} (f : A -> bool) l i o x :
  nth_error l i = Some o -> existsb f l = true ->
  existsb f (upd l i x) = true \/ f o = true.
Proof.
  intros H He. apply existsb_nth_inv in He. destruct He as (j & y & Hj & Hf).
  destruct (Nat.eq_dec i j) as [->|Hn].
  - rewrite H in Hj. inversion Hj; subst. right. exact Hf.
  - left. eapply existsb_nth; [|exact Hf]. rewrite nth_error_upd_neq by exact Hn. exact Hj.
Qed.

Lemma existsb_upd_inv {A} (f : A -> bool) l i x :
  existsb f (upd l i x) = true -> f x = true \/ existsb f l = true.
Proof.
  intros He. apply existsb_nth_inv in He. destruct He as (j & y & Hj & Hf).
  apply nth_error_upd_cases in Hj. destruct Hj as [(_ & -> & _)|(_ & Hj)].
  - left. exact Hf.
  - right. eapply existsb_nth; eauto.
Qed.

Definition b2n (b : bool) : nat := if b then 1 else 0.

Fixpoint count {A} (f : A -> bool) (l : list A) : nat :=
  match l with [] => 0 | x :: r => b2n (f x) + count f r end.

Lemma count_app {A} (f : A -> bool) l1 l2 : count f (l1 ++ l2) = count f l1 + count f l2.
Proof. induction l1 as [|a l1 IH]; cbn [count app]; [reflexivity|rewrite IH; lia]. Qed.

Lemma count_split {A} (f : A -> bool) l i o :
  nth_error l i = Some o ->
  count f l = count f (firstn i l) + b2n (f o) + count f (skipn (S i) l).
Proof.
  revert i. induction l as [|a l IH]; intros i H.
  - destruct i; discriminate.
  - destruct i as [|i].
    + cbn in H. inversion H; subst. cbn [firstn skipn count]. lia.
    + cbn [nth_error] in H. specialize (IH i H). change (skipn (S (S i)) (a :: l)) with (skipn (S i) l).
      change (firstn (S i) (a :: l)) with (a :: firstn i l). cbn [count]. lia.
Qed.

Lemma count_upd {A} (f : A -> bool) l i o x :
  nth_error l i = Some o ->
  count f (upd l i x) + b2n (f o) = count f l + b2n (f x).
Proof.
  intros H. pose proof (nth_error_lt _ _ _ H) as Hlt.
  unfold upd. assert (E : Nat.ltb i (length l) = true) by (apply Nat.ltb_lt; exact Hlt).
  rewrite E. rewrite count_app. cbn [count]. rewrite (count_split f l i o H). lia.
Qed.

Lemma count_map_same {A} (f : A -> bool) (g : A -> A) l :
  (forall x, f (g x) = f x) -> count f (map g l) = count f l.
Proof. intros H. induction l as [|a l IH]; cbn [map count]; [reflexivity|rewrite H, IH; reflexivity]. Qed.

Lemma nth_error_map_inv {A B} (g : A -> B) l i y :
  nth_error (map g l) i = Some y -> exists x, nth_error l i = Some x /\ y = g x.
Proof.
  revert i. induction l as [|a l IH]; intros i H.
  - destruct i; discriminate.
  - destruct i as [|i]; cbn in H.
    + inversion H; subst. exists a. split; reflexivity.
    + apply IH in H. exact H.
Qed.

Lemma existsb_map_same {A} (f : A -> bool) (g : A -> A) l :
  (forall x, f (g x) = f x) -> existsb f (map g l) = existsb f l.
Proof. intros H. induction l as [|a l IH]; cbn [map existsb]; [reflexivity|rewrite H, IH; reflexivity]. Qed.

Lemma in_make_hot t h : In t (make_hot t h).
Proof.
  unfold make_hot. destruct (existsb (Nat.eqb t) h) eqn:E.
  - apply existsb_exists in E. destruct E as (x & Hin & Hx). apply Nat.eqb_eq in Hx. subst. exact Hin.
  - apply in_or_app. right. left. reflexivity.
Qed.

Lemma in_make_hot_keep t u h : In u h -> In u (make_hot t h).
Proof.
  unfold make_hot. destruct (existsb (Nat.eqb t) h); intros H; [exact H|].
  apply in_or_app. left. exact H.
Qed.

Lemma make_hot_not_nil t h : make_hot t h <> [].
Proof. intros H. pose proof (in_make_hot t h) as Hi. rewrite H in Hi. destruct Hi. Qed.

(* ---------------------------------------------------------------------- *)
(* regions of the runtime thread's program, relative to the point where a
   wake is consumed (the poll of the main future / the pop from the queue)  *)

Inductive region := Pre | Post | Idle.
(* Pre:  the runtime reaches the consumption point without any blocking wait
   Post: past the consumption point, before the reset that precedes the wait
   Idle: between that reset and the return of the wait                       *)

Definition reg_main (s : st) : region :=
  match pc (r s) with
  | RMain0 | RSetAwake1 | RPollEntries | RClear | RSetAwake2 => Pre
  | RMain1 | RDrainLoad | RDrainPop | RDrainSub | RRun | RRunning
  | RFlushArm | RFlushSubmit | RFlushReset => Post
  | RExtWait | RWait => Idle
  | RReset => if ext (c s) then Pre else Post
  | RArm | REnter => if ext (c s) then Pre else Idle
  end.

Definition reg_drain (s : st) : region :=
  match pc (r s) with
  | RMain1 | RDrainLoad | RDrainPop => Pre
  | _ => reg_main s
  end.

Definition ob (g : region) (s : st) : Prop :=
  match g with
  | Pre => True
  | Post => has_notified (flag (d s)) = true
  | Idle => nw (r s) = false \/ has_notified (flag (d s)) = true
  end.

Definition is_write (p : wpc) : bool := match p with WWrite _ => true | _ => false end.
Definition writers (s : st) : bool := existsb (fun w => is_write (wp w)) (wk s).

Definition mid_push (p : wpc) : bool :=
  match p with WSection | WReserve | WPush _ | WFetch KSpin | WWrite KSpin => true | _ => false end.
(* inside the SCHEDULING section it entered itself *)
Definition owner (p : wpc) : bool :=
  match p with
  | WCoal | WReserve | WPush _ | WFetch KSpin | WFetch KPushed | WWrite KSpin | WWrite KPushed
  | WFinish => true
  | _ => false
  end.
Definition reserving (p : wpc) : bool :=
  match p with WPush _ | WFetch KSpin | WWrite KSpin => true | _ => false end.
Definition pushed (p : wpc) : bool :=
  match p with WFetch KPushed | WWrite KPushed | WFinish | WDone => true | _ => false end.
Definition notified_after (p : wpc) : bool :=
  match p with WWrite KPushed | WFinish | WDone => true | _ => false end.
Definition pushing_w (t : nat) (w : wst) : bool :=
  match tgt w with Some t' => Nat.eqb t t' && mid_push (wp w) | None => false end.
Definition pushing (t : nat) (ws : list wst) : bool := existsb (pushing_w t) ws.

Definition main_pc (p : wpc) : bool :=
  match p with WIdle | WFetch KMain | WWrite KMain | WDone => true | _ => false end.
Definition task_pc (p : wpc) : bool :=
  match p with WFetch KMain | WWrite KMain => false | _ => true end.

(* program points at which NEED_PUSH_NOTIFIER may be set *)
Definition np_pc (p : rpc) : bool :=
  match p with
  | RClear | RSetAwake2 | RMain0 | RMain1 | RDrainLoad | RDrainPop | RDrainSub
  | RRun | RRunning | RFlushArm | RReset | RArm => true
  | _ => false
  end.
(* program points between the end of a tick and the wait *)
Definition h_pc (p : rpc) : bool :=
  match p with
  | RReset | RArm | REnter | RWait | RFlushArm | RFlushSubmit | RFlushReset | RExtWait => true
  | _ => false
  end.
Definition ext_pc (p : rpc) : bool :=
  match p with RFlushArm | RFlushSubmit | RFlushReset | RExtWait => true | _ => false end.

Record G1 (s : st) : Prop := mk_g1 {
  i_idle_flag : reg_main s = Idle ->
    fl_idle (flag (d s)) = true \/ has_notified (flag (d s)) = true;
  i_efd : reg_main s = Idle -> has_notified (flag (d s)) = true ->
    0 < efd (d s) \/ writers s = true;
  i_sqarm : sqarm (d s) = true -> pc (r s) = REnter \/ pc (r s) = RFlushSubmit;
  i_need : uring (c s) = true -> need_push (d s) = true -> np_pc (pc (r s)) = true;
  i_todo : todo (r s) <> [] -> pc (r s) = RClear;
  i_arm : uring (c s) = true ->
    karmed (d s) = true \/ sqarm (d s) = true \/ need_push (d s) = true \/
    In CFinal (cq (d s)) \/ In CFinal (todo (r s));
  i_hot : h_pc (pc (r s)) = true -> rem (r s) = false -> hot (e s) = [] \/ ob (reg_main s) s;
  i_wait : pc (r s) = RWait -> nw (r s) = true /\ rem (r s) = false /\ ext (c s) = false;
  i_ext : ext_pc (pc (r s)) = true -> ext (c s) = true;
  i_drained : drained (r s) <> 0 -> pc (r s) = RDrainPop \/ pc (r s) = RDrainSub
}.

Record G2 (s : st) : Prop := mk_g2 {
  i_main : forall i w, nth_error (wk s) i = Some w -> tgt w = None ->
    main_effective (wp w) = true -> seen w = false -> ob (reg_main s) s;
  i_q : forall t i w, In (t, i) (queue (e s)) -> nth_error (wk s) i = Some w ->
    notified_after (wp w) = true -> ob (reg_drain s) s
}.

Record G3 (s : st) : Prop := mk_g3 {
  i_qmem : forall t i, In (t, i) (queue (e s)) ->
    exists w, nth_error (wk s) i = Some w /\ tgt w = Some t /\ pushed (wp w) = true;
  i_sched : forall t, nth_error (sched (e s)) t = Some true ->
    In t (hot (e s)) \/ (exists i, In (t, i) (queue (e s))) \/ pushing t (wk s) = true;
  i_seen : forall i w t, nth_error (wk s) i = Some w -> tgt w = Some t ->
    task_effective (wp w) = true -> seen w = false -> nth_error (sched (e s)) t = Some true;
  i_pending : pending (e s) =
    length (queue (e s)) + count (fun w => reserving (wp w)) (wk s) + drained (r s);
  i_cap : length (queue (e s)) <= qcap (c s);
  i_section : forall t, nth_error (sching (e s)) t = Some true ->
    exists i w, nth_error (wk s) i = Some w /\ tgt w = Some t /\ owner (wp w) = true;
  i_lens : length (sching (e s)) = length (sched (e s));
  i_shape : forall i w, nth_error (wk s) i = Some w ->
    match tgt w with
    | None => main_pc (wp w) = true
    | Some t => task_pc (wp w) = true /\ t < length (sched (e s))
    end
}.

Record Inv (s : st) : Prop := mk_inv { i_g1 : G1 s; i_g2 : G2 s; i_g3 : G3 s }.

Arguments has_notified : simpl never.
Arguments fl_wake : simpl never.
Arguments fl_idle : simpl never.

Lemma nth_error_init_wk tg i w :
  nth_error (map (fun tg => mk_w tg WIdle false) tg) i = Some w -> wp w = WIdle.
Proof.
  intros H. apply nth_error_map_inv in H. destruct H as (x & _ & ->). reflexivity.
Qed.

Lemma count_init tg : count (fun w => reserving (wp w)) (map (fun tg => mk_w tg WIdle false) tg) = 0.
Proof. induction tg as [|a l IH]; cbn; [reflexivity|exact IH]. Qed.

Lemma nth_error_repeat_false n t : nth_error (repeat false n) t = Some true -> False.
Proof.
  revert t. induction n as [|n IH]; intros t H; [destruct t; discriminate|].
  destruct t as [|t]; cbn in H; [discriminate|eauto].
Qed.

(* threads of the initial state must name existing tasks *)
Definition targets_ok (ntasks : nat) (tg : list (option nat)) : Prop :=
  forall t, In (Some t) tg -> t < ntasks.

Lemma init_inv cf n tg : targets_ok n tg -> Inv (init cf n tg).
Proof.
  intros Hok. constructor; constructor; cbn; intros; try discriminate; try tauto; try lia;
    try match goal with
        | H : nth_error (repeat false _) _ = Some true |- _ =>
          exfalso; eapply nth_error_repeat_false; exact H
        | H : nth_error (map _ _) _ = Some ?w, H1 : _ (wp ?w) = true |- _ =>
          apply nth_error_init_wk in H; rewrite H in H1; discriminate
        end.
  - rewrite count_init. reflexivity.
  - pose proof H as H'. apply nth_error_map_inv in H'. destruct H' as (x & Hx & ->). cbn.
    destruct x as [t|]; [|reflexivity]. split; [reflexivity|].
    rewrite repeat_length. apply Hok. eapply nth_error_In; eauto.
Qed.

(* ---------------------------------------------------------------------- *)
(* preservation                                                            *)

Ltac dst s :=
  destruct s as [[ur ex qc mx] [fl ef ka sq np cq0] [qu pe sc sg ho] [p nw0 rm td dr bu] ws].

Ltac dg1 H :=
  destruct H as [I_idle I_efd I_sqarm I_need I_todo I_arm I_hot I_wait I_ext I_drained].
Ltac dg2 H := destruct H as [I_main I_q].
Ltac dg3 H := destruct H as [I_qmem I_sched I_seen I_pending I_cap I_section I_lens I_shape].

Ltac red_all :=
  cbn [c d e r wk uring ext qcap maxi flag efd karmed sqarm need_push cq queue pending sched sching
       hot pc nw rem todo drained budget
       d_flag d_efd d_karmed d_sqarm d_need d_cq e_queue e_pending e_sched e_sching e_hot
       r_pc r_nw r_rem r_todo r_drained r_budget s_d s_e s_r s_wk goto
       reg_main reg_drain ob writers] in *.

Lemma in_app_l {A} (x : A) l1 l2 : In x l1 -> In x (l1 ++ l2).
Proof. intros H. apply in_or_app. left. exact H. Qed.

(* frame lemmas: a step that leaves a part of the state alone keeps the
   invariants that only speak about that part *)
Lemma g3_frame s s' :
  c s' = c s -> e s' = e s -> wk s' = wk s -> drained (r s') = drained (r s) -> G3 s -> G3 s'.
Proof.
  intros Hc He Hw Hd H. dg3 H.
  constructor; rewrite ?Hc, ?He, ?Hw, ?Hd; assumption.
Qed.

Lemma g2_frame s s' :
  wk s' = wk s -> queue (e s') = queue (e s) ->
  (ob (reg_main s) s -> ob (reg_main s') s') ->
  (ob (reg_drain s) s -> ob (reg_drain s') s') ->
  G2 s -> G2 s'.
Proof.
  intros Hw Hq Hm Hd H. dg2 H.
  constructor; rewrite ?Hw, ?Hq; intros; [apply Hm|apply Hd]; eauto.
Qed.

Ltac inv_some H := inversion H; subst; clear H.

Lemma inv_kernel s l s' :
  (l = LKNotify \/ l = LKOther \/ l = LKTerm) -> Inv s -> step s l = Some s' -> Inv s'.
Proof.
  intros Hl [H1 H2 H3] Hs.
  assert (Hshape : exists cq' ka', s' = s_d (d_cq cq' (d_karmed ka' (d s))) s /\
            (uring (c s) = true -> karmed (d s) = true \/ In CFinal (cq (d s)) ->
             ka' = true \/ In CFinal cq')).
  { dst s. unfold step, step_v in Hs. red_all.
    destruct Hl as [->|[->| ->]].
    - destruct (ur && ka && Nat.ltb 0 ef); [|discriminate]. inv_some Hs.
      exists (cq0 ++ [CNotify]), ka. split; [reflexivity|]. intros _ [H|H]; auto using in_app_l.
    - inv_some Hs. exists (cq0 ++ [COther]), ka. split; [reflexivity|].
      intros _ [H|H]; auto using in_app_l.
    - destruct (ur && ka); [|discriminate]. inv_some Hs.
      exists (cq0 ++ [CFinal]), false. split; [reflexivity|]. intros _ _. right.
      apply in_or_app. right. left. reflexivity. }
  destruct Hshape as (cq' & ka' & -> & Harm).
  constructor.
  - dg1 H1. dst s. red_all. constructor; red_all; auto.
    intros Hu. specialize (I_arm Hu). specialize (Harm Hu). tauto.
  - apply (g2_frame s); [reflexivity|reflexivity| | |exact H2]; intros H; dst s; exact H.
  - apply (g3_frame s); [reflexivity|reflexivity|reflexivity|reflexivity|exact H3].
Qed.

(* ---------------------------------------------------------------------- *)
(* steps of the runtime thread                                              *)

Lemma writers_map g ws :
  (forall w, wp (g w) = wp w) ->
  existsb (fun w => is_write (wp w)) (map g ws) = existsb (fun w => is_write (wp w)) ws.
Proof. intros H. apply existsb_map_same. intros x. rewrite H. reflexivity. Qed.

Lemma consume_main_wp w : wp (consume_main w) = wp w.
Proof. unfold consume_main. destruct (tgt w); [reflexivity|]. destruct (main_effective (wp w)); reflexivity. Qed.
Lemma consume_task_wp t w : wp (consume_task t w) = wp w.
Proof. unfold consume_task. destruct (tgt w); [|reflexivity]. destruct (_ && _); reflexivity. Qed.

Ltac split_hs Hs :=
  repeat match type of Hs with
         | context [if ?b then _ else _] => destruct b eqn:?
         | context [match ?x with _ => _ end] => destruct x eqn:?
         end.

(* case analysis of one step of the runtime thread *)
Ltac rt_cases Hs :=
  unfold rt_step in Hs; red_all;
  try match goal with p : rpc |- _ => destruct p end;
  unfold arm, submit, return_ok, do_reset, apply_cqe, ready, current in Hs; red_all;
  cbn [v_flush_arms isnil] in Hs; split_hs Hs; try discriminate; inv_some Hs;
  red_all; cbn [np_pc h_pc ext_pc isnil negb] in *.

Ltac lfin :=
  intros;
  repeat match goal with
         | H : _ /\ _ |- _ => destruct H
         | H : ?a = ?a -> _ |- _ => specialize (H eq_refl)
         end;
  rewrite ?hn_idle, ?hn_awake, ?idle_is_idle, ?andb_false_r, ?andb_true_r, ?orb_false_r, ?orb_true_r in *;
  repeat match goal with
         | H : _ && _ = true |- _ => apply andb_prop in H; destruct H
         | H : negb (isnil ?h) = false |- _ => destruct h; [clear H|discriminate H]
         | H : negb ?x = true |- _ => destruct x; [discriminate H|clear H]
         | H : negb ?x = false |- _ => destruct x; [clear H|discriminate H]
         end;
  try discriminate; try congruence; auto;
  try solve [intuition (try discriminate; try congruence; auto)].

Ltac obfin X :=
  red_all; cbn [negb] in *;
  try exact I; try exact X;
  try (rewrite X; cbn [negb]; auto; fail);
  try (destruct X as [X|X]; [left; exact X|right; exact X]; fail);
  try (destruct X as [X|X]; rewrite ?X; cbn [negb]; auto; fail);
  lfin.

Lemma g1_rt_idle_flag s s' :
  (reg_main s = Idle -> fl_idle (flag (d s)) = true \/ has_notified (flag (d s)) = true) ->
  rt_step current s = Some s' ->
  (reg_main s' = Idle -> fl_idle (flag (d s')) = true \/ has_notified (flag (d s')) = true).
Proof.
  intros H Hs. dst s. destruct ex; rt_cases Hs; lfin.
Qed.

Lemma g1_rt_efd s s' :
  (reg_main s = Idle -> has_notified (flag (d s)) = true -> 0 < efd (d s) \/ writers s = true) ->
  rt_step current s = Some s' ->
  (reg_main s' = Idle -> has_notified (flag (d s')) = true -> 0 < efd (d s') \/ writers s' = true).
Proof.
  intros H Hs. dst s. destruct ex; rt_cases Hs; lfin.
Qed.

Lemma g1_rt_sqarm s s' :
  (sqarm (d s) = true -> pc (r s) = REnter \/ pc (r s) = RFlushSubmit) ->
  rt_step current s = Some s' ->
  (sqarm (d s') = true -> pc (r s') = REnter \/ pc (r s') = RFlushSubmit).
Proof.
  intros H Hs. dst s. destruct ex, ur; rt_cases Hs; lfin.
Qed.

Lemma g1_rt_need s s' :
  (uring (c s) = true -> need_push (d s) = true -> np_pc (pc (r s)) = true) ->
  rt_step current s = Some s' ->
  (uring (c s') = true -> need_push (d s') = true -> np_pc (pc (r s')) = true).
Proof.
  intros H Hs. dst s. destruct ex, ur; rt_cases Hs; lfin.
Qed.

Lemma g1_rt_todo s s' :
  (todo (r s) <> [] -> pc (r s) = RClear) ->
  rt_step current s = Some s' ->
  (todo (r s') <> [] -> pc (r s') = RClear).
Proof.
  intros H Hs. dst s. destruct ex, ur; rt_cases Hs; lfin.
Qed.

Lemma g1_rt_hot s s' :
  (ext_pc (pc (r s)) = true -> ext (c s) = true) ->
  (h_pc (pc (r s)) = true -> rem (r s) = false -> hot (e s) = [] \/ ob (reg_main s) s) ->
  rt_step current s = Some s' ->
  (h_pc (pc (r s')) = true -> rem (r s') = false -> hot (e s') = [] \/ ob (reg_main s') s').
Proof.
  intros Hx H Hs. dst s. destruct ex, ur; rt_cases Hs; intros Hh Hr; try discriminate Hh;
    try (left; reflexivity);
    try (specialize (Hx eq_refl); discriminate Hx);
    try (destruct (H eq_refl Hr) as [He|Ho]; [left; exact He|right; obfin Ho]);
    lfin.
Qed.

Lemma g1_rt_ext s s' :
  (ext_pc (pc (r s)) = true -> ext (c s) = true) ->
  rt_step current s = Some s' ->
  (ext_pc (pc (r s')) = true -> ext (c s') = true).
Proof.
  intros H Hs. dst s. destruct ex, ur; rt_cases Hs; lfin.
Qed.

Lemma g1_rt_drained s s' :
  (drained (r s) <> 0 -> pc (r s) = RDrainPop \/ pc (r s) = RDrainSub) ->
  rt_step current s = Some s' ->
  (drained (r s') <> 0 -> pc (r s') = RDrainPop \/ pc (r s') = RDrainSub).
Proof.
  intros H Hs. dst s. destruct ex, ur; rt_cases Hs; lfin.
Qed.

Lemma g1_rt_arm s s' :
  (todo (r s) <> [] -> pc (r s) = RClear) ->
  (uring (c s) = true ->
    karmed (d s) = true \/ sqarm (d s) = true \/ need_push (d s) = true \/
    In CFinal (cq (d s)) \/ In CFinal (todo (r s))) ->
  rt_step current s = Some s' ->
  (uring (c s') = true ->
    karmed (d s') = true \/ sqarm (d s') = true \/ need_push (d s') = true \/
    In CFinal (cq (d s')) \/ In CFinal (todo (r s'))).
Proof.
  intros Ht H Hs. dst s. destruct ur; [|rt_cases Hs; intros; discriminate].
  specialize (H eq_refl). red_all.
  destruct ex; rt_cases Hs; intros _; try exact H; auto 6;
    try (assert (Etd : td = []) by (destruct td as [|x0 td0]; [reflexivity|]; exfalso;
           assert (X : x0 :: td0 <> []) by discriminate; specialize (Ht X); discriminate); subst td);
    repeat match goal with b : bool |- _ => destruct b end;
    cbn [orb In] in *; intuition (try discriminate; auto).
Qed.

Lemma g1_rt_wait s s' :
  (pc (r s) = RWait -> nw (r s) = true /\ rem (r s) = false /\ ext (c s) = false) ->
  rt_step current s = Some s' ->
  (pc (r s') = RWait -> nw (r s') = true /\ rem (r s') = false /\ ext (c s') = false).
Proof.
  intros H Hs. dst s. destruct ex, ur, nw0, rm; rt_cases Hs; lfin.
Qed.

Lemma consume_main_tgt w : tgt (consume_main w) = tgt w.
Proof. unfold consume_main. destruct (tgt w) eqn:E; [exact E|]. destruct (main_effective (wp w)); cbn [tgt w_seen]; exact E. Qed.
Lemma consume_task_tgt t w : tgt (consume_task t w) = tgt w.
Proof. unfold consume_task. destruct (tgt w) eqn:E; [|exact E]. destruct (_ && _); cbn [tgt w_seen]; exact E. Qed.

Lemma consume_main_seen w :
  tgt w = None -> main_effective (wp w) = true -> seen (consume_main w) = true.
Proof. intros Ht He. unfold consume_main. rewrite Ht, He. reflexivity. Qed.
Lemma consume_task_none t w : tgt w = None -> consume_task t w = w.
Proof. intros Ht. unfold consume_task. rewrite Ht. reflexivity. Qed.

Ltac g2_generic I_main I_q :=
  constructor; red_all;
  [ intros i w Hn Ht He Hse; pose proof (I_main i w Hn Ht He Hse) as X; obfin X
  | intros t i w Hin Hn He; pose proof (I_q t i w Hin Hn He) as X; obfin X ].

Lemma g2_rt s s' : G1 s -> G3 s -> G2 s -> rt_step current s = Some s' -> G2 s'.
Proof.
  intros H1 H3 H2 Hs. dg2 H2. pose proof (i_pending _ H3) as Hpend. clear H3.
  pose proof (i_ext _ H1) as Hext. clear H1.
  dst s. red_all.
  destruct p eqn:Ep; try (
    destruct ex, ur; rt_cases Hs; (g2_generic I_main I_q); fail).
  - (* RMain0: the main future is polled *)
    rt_cases Hs. constructor; red_all; [|intros; exact I].
    intros i w Hn Ht He Hse. exfalso.
    apply nth_error_map_inv in Hn. destruct Hn as (w0 & Hn0 & ->).
    rewrite consume_main_tgt in Ht. rewrite consume_main_wp in He.
    rewrite (consume_main_seen w0 Ht He) in Hse. discriminate.
  - (* RDrainLoad *)
    unfold rt_step in Hs. red_all. destruct (Nat.eqb pe 0) eqn:E.
    + apply Nat.eqb_eq in E. subst pe. destruct qu as [|x qu]; [|cbn in Hpend; lia].
      inv_some Hs. constructor; red_all.
      * intros i w Hn Ht He Hse. pose proof (I_main i w Hn Ht He Hse) as X. exact X.
      * intros t i w Hin. destruct Hin.
    + inv_some Hs. g2_generic I_main I_q.
  - (* RDrainPop *)
    unfold rt_step in Hs. red_all. destruct qu as [|[t0 i0] q]; inv_some Hs; constructor; red_all.
    + intros i w Hn Ht He Hse. exact (I_main i w Hn Ht He Hse).
    + intros t i w Hin. destruct Hin.
    + intros i w Hn Ht He Hse. exact (I_main i w Hn Ht He Hse).
    + intros t i w Hin Hn He. exact (I_q t i w (or_intror Hin) Hn He).
  - (* RRun *)
    unfold rt_step in Hs. red_all. destruct bu as [|b]; [|destruct ho as [|t0 h]].
    + inv_some Hs. destruct ex; g2_generic I_main I_q.
    + inv_some Hs. destruct ex; g2_generic I_main I_q.
    + inv_some Hs. constructor; red_all.
      * intros i w Hn Ht He Hse.
        apply nth_error_map_inv in Hn. destruct Hn as (w0 & Hn0 & ->).
        rewrite consume_task_tgt in Ht. rewrite (consume_task_none _ _ Ht) in *.
        exact (I_main i w0 Hn0 Ht He Hse).
      * intros t i w Hin Hn He.
        apply nth_error_map_inv in Hn. destruct Hn as (w0 & Hn0 & ->).
        rewrite consume_task_wp in He. exact (I_q t i w0 Hin Hn0 He).
Qed.

Lemma consume_main_some w t : tgt w = Some t -> consume_main w = w.
Proof. intros H. unfold consume_main. rewrite H. reflexivity. Qed.

Lemma pushing_map t g ws :
  (forall w, wp (g w) = wp w) -> (forall w, tgt (g w) = tgt w) ->
  pushing t (map g ws) = pushing t ws.
Proof.
  intros Hw Ht. unfold pushing. apply existsb_map_same. intros x. unfold pushing_w.
  rewrite Ht, Hw. reflexivity.
Qed.

Lemma count_res_map g ws :
  (forall w, wp (g w) = wp w) ->
  count (fun w => reserving (wp w)) (map g ws) = count (fun w => reserving (wp w)) ws.
Proof. intros H. apply count_map_same. intros x. rewrite H. reflexivity. Qed.

Lemma nth_error_map_some {A B} (g : A -> B) l i x :
  nth_error l i = Some x -> nth_error (map g l) i = Some (g x).
Proof. intros H. apply map_nth_error. exact H. Qed.

(* G3 is insensitive to the ghost [seen] except through i_seen *)
Lemma g3_map_wk s g :
  (forall w, wp (g w) = wp w) -> (forall w, tgt (g w) = tgt w) ->
  (forall i w t, nth_error (wk s) i = Some w -> tgt w = Some t ->
     task_effective (wp w) = true -> seen (g w) = false -> seen w = false) ->
  G3 s -> G3 (s_wk (map g (wk s)) s).
Proof.
  intros Hw Ht Hse H. dg3 H. dst s. red_all.
  constructor; red_all.
  - intros t i Hin. destruct (I_qmem t i Hin) as (w & Hn & Htg & Hp).
    exists (g w). rewrite Hw, Ht. split; [apply nth_error_map_some; exact Hn|auto].
  - intros t Hs. rewrite pushing_map by assumption. apply I_sched. exact Hs.
  - intros i w t Hn Htg He Hsn.
    apply nth_error_map_inv in Hn. destruct Hn as (w0 & Hn0 & ->).
    rewrite Ht in Htg. rewrite Hw in He. eapply I_seen; eauto.
  - rewrite count_res_map by assumption. exact I_pending.
  - exact I_cap.
  - intros t Hs. destruct (I_section t Hs) as (i & w & Hn & Htg & Ho).
    exists i, (g w). rewrite Hw, Ht. split; [apply nth_error_map_some; exact Hn|auto].
  - exact I_lens.
  - intros i w Hn. apply nth_error_map_inv in Hn. destruct Hn as (w0 & Hn0 & ->).
    rewrite Ht, Hw. apply (I_shape i w0 Hn0).
Qed.

Lemma consume_task_seen t w :
  tgt w = Some t -> task_effective (wp w) = true -> seen (consume_task t w) = true.
Proof. intros Ht He. unfold consume_task. rewrite Ht, He, Nat.eqb_refl. reflexivity. Qed.

Lemma consume_task_seen_mono t w : seen (consume_task t w) = false -> seen w = false.
Proof.
  unfold consume_task. destruct (tgt w); [|auto]. destruct (_ && _); cbn; [discriminate|auto].
Qed.
Lemma consume_main_seen_mono w : seen (consume_main w) = false -> seen w = false.
Proof.
  unfold consume_main. destruct (tgt w); [auto|]. destruct (main_effective _); cbn; [discriminate|auto].
Qed.

Lemma g3_rt s s' : G1 s -> G3 s -> rt_step current s = Some s' -> G3 s'.
Proof.
  intros H1 H3 Hs. pose proof (i_drained _ H1) as Hdr. clear H1.
  destruct (pc (r s)) eqn:Ep.
  all: try (dst s; red_all; subst p; rt_cases Hs;
            (eapply g3_frame; [| | | |exact H3]; reflexivity); fail).
  - (* RMain0 *)
    dst s. red_all. subst p. rt_cases Hs.
    apply (g3_frame (s_wk (map consume_main ws)
             (mk_st (mk_cfg ur ex qc mx) (mk_drv fl ef ka sq np cq0) (mk_exe qu pe sc sg ho)
                    (mk_rt RMain0 nw0 rm td dr bu) ws))); try reflexivity.
    apply g3_map_wk; [apply consume_main_wp|apply consume_main_tgt| |exact H3].
    intros i w t _ _ _. apply consume_main_seen_mono.
  - (* RDrainLoad *)
    dst s. red_all. subst p.
    assert (dr = 0) as ->.
    { destruct dr; [reflexivity|]. destruct (Hdr ltac:(discriminate)); discriminate. }
    rt_cases Hs; (eapply g3_frame; [| | | |exact H3]; reflexivity).
  - (* RDrainPop *)
    dg3 H3. dst s. red_all. subst p. unfold rt_step in Hs. red_all.
    destruct qu as [|[t0 i0] q]; inv_some Hs.
    + constructor; red_all; auto.
    + constructor; red_all; auto.
      * intros t i Hin. apply I_qmem. right. exact Hin.
      * intros t Hs. destruct (I_sched t Hs) as [Hh|[(i & [Hi|Hi])|Hp]].
        -- left. apply in_make_hot_keep. exact Hh.
        -- inversion Hi; subst. left. apply in_make_hot.
        -- right. left. exists i. exact Hi.
        -- right. right. exact Hp.
      * cbn [length] in *. lia.
      * cbn [length] in *. lia.
  - (* RDrainSub *)
    dg3 H3. dst s. red_all. subst p. rt_cases Hs. constructor; red_all; auto. lia.
  - (* RRun *)
    dst s. red_all. subst p. unfold rt_step in Hs. red_all.
    destruct bu as [|b]; [|destruct ho as [|t0 h]];
      try (inv_some Hs; (eapply g3_frame; [| | | |exact H3]; reflexivity); fail).
    inv_some Hs.
    pose proof (g3_map_wk _ (consume_task t0) (consume_task_wp t0) (consume_task_tgt t0)
                  (fun i w t _ _ _ => consume_task_seen_mono t0 w) H3) as H3'.
    red_all. dg3 H3'. red_all. constructor; red_all; auto.
    + intros t Hs.
      assert (Hne : t <> t0).
      { intros ->. destruct (Nat.lt_ge_cases t0 (length sc)) as [Hl|Hl].
        - rewrite nth_error_upd_eq in Hs by exact Hl. discriminate.
        - unfold upd in Hs. assert (E : Nat.ltb t0 (length sc) = false) by (apply Nat.ltb_ge; exact Hl).
          rewrite E in Hs. apply nth_error_lt in Hs. lia. }
      rewrite nth_error_upd_neq in Hs by (intro; apply Hne; auto).
      destruct (I_sched t Hs) as [[Hh|Hh]|Hr]; [exfalso; auto|left; exact Hh|right; exact Hr].
    + intros i w t Hn Htg He Hsn.
      assert (Hne : t <> t0).
      { intros ->. apply nth_error_map_inv in Hn. destruct Hn as (w0 & Hn0 & ->).
        rewrite consume_task_tgt in Htg. rewrite consume_task_wp in He.
        rewrite (consume_task_seen t0 w0 Htg He) in Hsn. discriminate. }
      rewrite nth_error_upd_neq by (intro; apply Hne; auto).
      eapply I_seen; eauto.
    + rewrite upd_length. exact I_lens.
    + intros i w Hn. specialize (I_shape i w Hn). rewrite upd_length. exact I_shape.
Qed.

Lemma g1_rt s s' : G1 s -> rt_step current s = Some s' -> G1 s'.
Proof.
  intros H Hs. dg1 H. constructor.
  - eapply g1_rt_idle_flag; eauto.
  - eapply g1_rt_efd; eauto.
  - eapply g1_rt_sqarm; eauto.
  - eapply g1_rt_need; eauto.
  - eapply g1_rt_todo; eauto.
  - eapply g1_rt_arm; eauto.
  - eapply g1_rt_hot; eauto.
  - eapply g1_rt_wait; eauto.
  - eapply g1_rt_ext; eauto.
  - eapply g1_rt_drained; eauto.
Qed.

Lemma inv_rt s s' : Inv s -> rt_step current s = Some s' -> Inv s'.
Proof.
  intros [H1 H2 H3] Hs. constructor.
  - eapply g1_rt; eauto.
  - eapply g2_rt; eauto.
  - eapply g3_rt; eauto.
Qed.

Lemma inv_timeout s s' : Inv s -> rt_timeout s = Some s' -> Inv s'.
Proof.
  intros [H1 H2 H3] Hs.
  pose proof (i_ext _ H1) as Hext.
  assert (Hf : c s' = c s /\ e s' = e s /\ wk s' = wk s /\ drained (r s') = drained (r s)).
  { dst s. unfold rt_timeout, return_ok in Hs. red_all.
    destruct p; try discriminate; destruct ur; inv_some Hs; red_all; auto. }
  destruct Hf as (Hc0 & He0 & Hw0 & Hd0).
  constructor.
  - dg1 H1. dst s. unfold rt_timeout, return_ok in Hs. red_all.
    destruct p; try discriminate; destruct ur, ex; inv_some Hs; constructor; red_all;
      cbn [np_pc h_pc ext_pc] in *; lfin.
  - dg2 H2. dst s. unfold rt_timeout, return_ok in Hs. red_all.
    destruct p; try discriminate; destruct ur, ex; inv_some Hs;
      cbn [ext_pc] in Hext; try (specialize (Hext eq_refl); discriminate);
      g2_generic I_main I_q.
  - eapply g3_frame; eauto.
Qed.

Lemma inv_skip s s' : Inv s -> step s LSkip = Some s' -> Inv s'.
Proof.
  intros [H1 H2 H3] Hs. unfold step, step_v in Hs.
  constructor.
  - dg1 H1. dst s. red_all. destruct p; try discriminate. destruct ur; [discriminate|].
    inv_some Hs. constructor; red_all; cbn [np_pc h_pc ext_pc] in *; lfin.
  - dg2 H2. dst s. red_all. destruct p; try discriminate. destruct ur; [discriminate|].
    inv_some Hs. destruct ex; g2_generic I_main I_q.
  - dst s. red_all. destruct p; try discriminate. destruct ur; [discriminate|].
    inv_some Hs. eapply g3_frame; [| | | |exact H3]; reflexivity.
Qed.

Lemma inv_local s t s' : Inv s -> rt_local current t s = Some s' -> Inv s'.
Proof.
  intros [H1 H2 H3] Hs. unfold rt_local, local_notify, local_point in Hs.
  cbn [v_local_wakes current] in Hs.
  constructor.
  - dg1 H1. dst s. red_all.
    destruct p; cbn [andb] in Hs; try discriminate; try (destruct ex; cbn [andb] in Hs; try discriminate);
      destruct (Nat.ltb t (length sc)); try discriminate;
      destruct (fl_idle fl) eqn:Hidle; inv_some Hs; constructor; red_all; cbn [np_pc h_pc ext_pc] in *;
      try (intros; right; apply hn_wake);
      try (intros _ _; left; unfold notify_efd; destruct ur; lia);
      try (intros _ _; right; apply hn_wake);
      try (intros _ _; right; right; apply hn_wake);
      lfin.
    all: try (left; unfold notify_efd; cbn [uring]; destruct ur; lia).
    all: try (destruct I_idle as [Hx|Hx]; [congruence|];
              destruct (I_efd Hx) as [He|He]; [left; exact He|right; exact He]).
  - dg2 H2. dst s. red_all.
    destruct p; cbn [andb] in Hs; try discriminate; try (destruct ex; cbn [andb] in Hs; try discriminate);
      destruct (Nat.ltb t (length sc)); try discriminate;
      destruct (fl_idle fl); inv_some Hs; constructor; red_all; intros; try exact I;
      try (right; apply hn_wake); apply hn_wake.
  - dg3 H3. dst s. red_all.
    destruct p; cbn [andb] in Hs; try discriminate; try (destruct ex; cbn [andb] in Hs; try discriminate);
      destruct (Nat.ltb t (length sc)); try discriminate;
      destruct (fl_idle fl); inv_some Hs; constructor; red_all; auto;
      intros t' Hs; destruct (I_sched t' Hs) as [Hh|Hr]; auto using in_make_hot_keep.
Qed.

(* ---------------------------------------------------------------------- *)
(* steps of a waker thread                                                 *)

Lemma pushing_upd_new t ws i w w1 :
  nth_error ws i = Some w -> pushing_w t w1 = true -> pushing t (upd ws i w1) = true.
Proof. intros. unfold pushing. eapply existsb_upd_new; eauto. Qed.

Lemma pushing_upd_keep t ws i w w1 :
  nth_error ws i = Some w -> pushing t ws = true ->
  pushing_w t w = false \/ pushing_w t w1 = true -> pushing t (upd ws i w1) = true.
Proof.
  intros Hn Hp [Hf|Ht]; [|eapply pushing_upd_new; eauto].
  unfold pushing in *. destruct (existsb_upd_keep _ _ _ _ w1 Hn Hp) as [H|H]; [exact H|congruence].
Qed.

(* a step that only moves thread i (and possibly touches the driver part) *)
Lemma g3_thread s i w w1 dd :
  nth_error (wk s) i = Some w -> tgt w1 = tgt w -> seen w1 = seen w ->
  (pushed (wp w) = true -> pushed (wp w1) = true) ->
  mid_push (wp w1) = mid_push (wp w) ->
  (forall t, tgt w = Some t -> task_effective (wp w1) = true -> task_effective (wp w) = true) ->
  reserving (wp w1) = reserving (wp w) ->
  (owner (wp w) = true -> owner (wp w1) = true) ->
  match tgt w with None => main_pc (wp w1) = true | Some _ => task_pc (wp w1) = true end ->
  G3 s -> G3 (s_d dd (set_w s i w1)).
Proof.
  intros Hn Ht Hse Hpu Hmid Heff Hres Hown Hshape H. dg3 H. dst s. unfold set_w. red_all.
  constructor; red_all.
  - intros t j Hin. destruct (I_qmem t j Hin) as (w' & Hn' & Htg & Hp).
    destruct (Nat.eq_dec i j) as [->|Hne].
    + rewrite Hn in Hn'. inversion Hn'; subst w'. exists w1.
      split; [apply nth_error_upd_eq; eapply nth_error_lt; eauto|]. rewrite Ht. auto.
    + exists w'. rewrite nth_error_upd_neq by exact Hne. auto.
  - intros t Hs. destruct (I_sched t Hs) as [Hh|[Hq|Hp]]; auto.
    right. right. eapply pushing_upd_keep; eauto.
    unfold pushing_w. rewrite Ht, Hmid. destruct (tgt w); [|left; reflexivity].
    destruct (Nat.eqb t n && mid_push (wp w)); auto.
  - intros j w' t Hn' Htg He Hsn. apply nth_error_upd_cases in Hn'.
    destruct Hn' as [(-> & -> & _)|(_ & Hn')].
    + rewrite Ht in Htg. rewrite Hse in Hsn. eapply I_seen; eauto.
    + eapply I_seen; eauto.
  - pose proof (count_upd (fun w => reserving (wp w)) ws i w w1 Hn) as Hc. cbv beta in Hc.
    rewrite Hres in Hc. lia.
  - exact I_cap.
  - intros t Hs. destruct (I_section t Hs) as (j & w' & Hn' & Htg & Ho).
    destruct (Nat.eq_dec i j) as [->|Hne].
    + rewrite Hn in Hn'. inversion Hn'; subst w'. exists j, w1.
      split; [apply nth_error_upd_eq; eapply nth_error_lt; eauto|]. rewrite Ht. auto.
    + exists j, w'. rewrite nth_error_upd_neq by exact Hne. auto.
  - exact I_lens.
  - intros j w' Hn'. apply nth_error_upd_cases in Hn'.
    destruct Hn' as [(-> & -> & _)|(_ & Hn')]; [|apply (I_shape j w' Hn')].
    specialize (I_shape i w Hn). rewrite Ht. destruct (tgt w); [|exact Hshape].
    destruct I_shape. split; assumption.
Qed.

Ltac upd_cases H :=
  apply nth_error_upd_cases in H;
  let Hn' := fresh "Hn'" in
  destruct H as [(-> & -> & _)|(_ & Hn')].

(* WReserve -> WPush false: pending.fetch_add(1) *)
Lemma g3_reserve s i w :
  nth_error (wk s) i = Some w -> wp w = WReserve ->
  G3 s -> G3 (set_w (s_e (e_pending (S (pending (e s))) (e s)) s) i (w_wp (WPush false) w)).
Proof.
  intros Hn Hw H. dg3 H. dst s. unfold set_w. red_all.
  constructor; red_all.
  - intros t j Hin. destruct (I_qmem t j Hin) as (w' & Hn' & Htg & Hp).
    destruct (Nat.eq_dec i j) as [->|Hne].
    + rewrite Hn in Hn'. inversion Hn'; subst w'. rewrite Hw in Hp. discriminate.
    + exists w'. rewrite nth_error_upd_neq by exact Hne. auto.
  - intros t Hs. destruct (I_sched t Hs) as [Hh|[Hq|Hp]]; auto.
    right. right. eapply pushing_upd_keep; eauto.
    unfold pushing_w. cbn [tgt wp w_wp]. rewrite Hw. destruct (tgt w); [|left; reflexivity].
    destruct (Nat.eqb t n); cbn; auto.
  - intros j w' t Hn' Htg He Hsn. upd_cases Hn'.
    + cbn [tgt seen w_wp] in *. eapply I_seen; eauto. rewrite Hw. reflexivity.
    + eapply I_seen; eauto.
  - pose proof (count_upd (fun w => reserving (wp w)) ws i w (w_wp (WPush false) w) Hn) as Hc.
    cbv beta in Hc. cbn [wp w_wp reserving] in Hc. rewrite Hw in Hc. cbn [reserving b2n] in Hc. lia.
  - exact I_cap.
  - intros t Hs. destruct (I_section t Hs) as (j & w' & Hn' & Htg & Ho).
    destruct (Nat.eq_dec i j) as [->|Hne].
    + rewrite Hn in Hn'. inversion Hn'; subst w'. exists j, (w_wp (WPush false) w).
      split; [apply nth_error_upd_eq; eapply nth_error_lt; eauto|]. auto.
    + exists j, w'. rewrite nth_error_upd_neq by exact Hne. auto.
  - exact I_lens.
  - intros j w' Hn'. upd_cases Hn'; [|apply (I_shape j w' Hn'0)].
    specialize (I_shape i w Hn). cbn [tgt wp w_wp]. destruct (tgt w); [|rewrite Hw in I_shape; discriminate].
    destruct I_shape. split; [reflexivity|assumption].
Qed.

(* WPush -> WFetch KPushed: sync.push succeeded *)
Lemma g3_push s i w t nt :
  nth_error (wk s) i = Some w -> wp w = WPush nt -> tgt w = Some t ->
  length (queue (e s)) < qcap (c s) ->
  G3 s -> G3 (set_w (s_e (e_queue (queue (e s) ++ [(t, i)]) (e s)) s) i (w_wp (WFetch KPushed) w)).
Proof.
  intros Hn Hw Htg Hlen H. dg3 H. dst s. unfold set_w. red_all.
  constructor; red_all.
  - intros t' j Hin. apply in_app_or in Hin. destruct Hin as [Hin|[Hin|[]]].
    + destruct (I_qmem t' j Hin) as (w' & Hn' & Htg' & Hp).
      destruct (Nat.eq_dec i j) as [->|Hne].
      * rewrite Hn in Hn'. inversion Hn'; subst w'. rewrite Hw in Hp. discriminate.
      * exists w'. rewrite nth_error_upd_neq by exact Hne. auto.
    + inversion Hin; subst t' j. exists (w_wp (WFetch KPushed) w).
      split; [apply nth_error_upd_eq; eapply nth_error_lt; eauto|]. auto.
  - intros t' Hs. destruct (Nat.eq_dec t' t) as [->|Hne].
    + right. left. exists i. apply in_or_app. right. left. reflexivity.
    + destruct (I_sched t' Hs) as [Hh|[(j & Hq)|Hp]]; auto.
      * right. left. exists j. apply in_or_app. left. exact Hq.
      * right. right. eapply pushing_upd_keep; eauto.
        left. unfold pushing_w. rewrite Htg.
        destruct (Nat.eqb t' t) eqn:E; [apply Nat.eqb_eq in E; contradiction|reflexivity].
  - intros j w' t' Hn' Htg' He Hsn. upd_cases Hn'.
    + cbn [tgt seen w_wp] in *. eapply I_seen; eauto. rewrite Hw. reflexivity.
    + eapply I_seen; eauto.
  - pose proof (count_upd (fun w => reserving (wp w)) ws i w (w_wp (WFetch KPushed) w) Hn) as Hc.
    cbv beta in Hc. cbn [wp w_wp reserving] in Hc. rewrite Hw in Hc. cbn [reserving b2n] in Hc.
    rewrite app_length. cbn [length]. lia.
  - rewrite app_length. cbn [length]. lia.
  - intros t' Hs. destruct (I_section t' Hs) as (j & w' & Hn' & Htg' & Ho).
    destruct (Nat.eq_dec i j) as [->|Hne].
    + rewrite Hn in Hn'. inversion Hn'; subst w'. exists j, (w_wp (WFetch KPushed) w).
      split; [apply nth_error_upd_eq; eapply nth_error_lt; eauto|]. auto.
    + exists j, w'. rewrite nth_error_upd_neq by exact Hne. auto.
  - exact I_lens.
  - intros j w' Hn'. upd_cases Hn'; [|apply (I_shape j w' Hn'0)].
    specialize (I_shape i w Hn). cbn [tgt wp w_wp]. rewrite Htg in *.
    destruct I_shape. split; [reflexivity|assumption].
Qed.

(* WCoal / WFinish -> WDone: finish_scheduling *)
Lemma g3_finish s i w t :
  nth_error (wk s) i = Some w -> (wp w = WCoal \/ wp w = WFinish) -> tgt w = Some t ->
  G3 s -> G3 (set_w (s_e (e_sching (upd (sching (e s)) t false) (e s)) s) i (w_wp WDone w)).
Proof.
  intros Hn Hw Htg H. dg3 H. dst s. unfold set_w. red_all.
  assert (Hnp : pushing_w t w = false /\ reserving (wp w) = false /\
                task_effective (wp w) = true /\ (pushed (wp w) = true -> True)).
  { unfold pushing_w. rewrite Htg. destruct Hw as [-> | ->]; cbn; rewrite ?andb_false_r; auto. }
  destruct Hnp as (Hnp & Hnr & Heff & _).
  constructor; red_all.
  - intros t' j Hin. destruct (I_qmem t' j Hin) as (w' & Hn' & Htg' & Hp).
    destruct (Nat.eq_dec i j) as [->|Hne].
    + rewrite Hn in Hn'. inversion Hn'; subst w'. exists (w_wp WDone w).
      split; [apply nth_error_upd_eq; eapply nth_error_lt; eauto|]. auto.
    + exists w'. rewrite nth_error_upd_neq by exact Hne. auto.
  - intros t' Hs. destruct (I_sched t' Hs) as [Hh|[Hq|Hp]]; auto.
    right. right. eapply pushing_upd_keep; eauto. left.
    unfold pushing_w. rewrite Htg. destruct Hw as [-> | ->]; cbn; rewrite ?andb_false_r; reflexivity.
  - intros j w' t' Hn' Htg' He Hsn. upd_cases Hn'.
    + cbn [tgt seen w_wp] in *. eapply I_seen; eauto.
    + eapply I_seen; eauto.
  - pose proof (count_upd (fun w => reserving (wp w)) ws i w (w_wp WDone w) Hn) as Hc.
    cbv beta in Hc. cbn [wp w_wp reserving] in Hc. rewrite Hnr in Hc. cbn [b2n] in Hc. lia.
  - exact I_cap.
  - intros t' Hs.
    assert (Hne : t' <> t).
    { intros ->. destruct (Nat.lt_ge_cases t (length sg)) as [Hl|Hl].
      - rewrite nth_error_upd_eq in Hs by exact Hl. discriminate.
      - apply nth_error_lt in Hs. rewrite upd_length in Hs. lia. }
    rewrite nth_error_upd_neq in Hs by (intro; apply Hne; auto).
    destruct (I_section t' Hs) as (j & w' & Hn' & Htg' & Ho).
    destruct (Nat.eq_dec i j) as [->|Hnj].
    + rewrite Hn in Hn'. inversion Hn'; subst w'. congruence.
    + exists j, w'. rewrite nth_error_upd_neq by exact Hnj. auto.
  - rewrite upd_length. exact I_lens.
  - intros j w' Hn'. upd_cases Hn'; [|apply (I_shape j w' Hn'0)].
    specialize (I_shape i w Hn). cbn [tgt wp w_wp]. rewrite Htg in *.
    destruct I_shape. split; [reflexivity|assumption].
Qed.

(* WIdle / WSection: start_scheduling *)
Lemma g3_start s i w t prior nx :
  nth_error (wk s) i = Some w -> (wp w = WIdle \/ wp w = WSection) -> tgt w = Some t ->
  nth_error (sched (e s)) t = Some prior ->
  ((nx = WSection \/ nx = WReserve) \/ (prior = true /\ wp w = WIdle /\ (nx = WDone \/ nx = WCoal))) ->
  (owner nx = true \/ nth_error (sching (e s)) t = Some true) ->
  G3 s ->
  G3 (set_w (s_e (e_sching (upd (sching (e s)) t true) (e_sched (upd (sched (e s)) t true) (e s))) s)
        i (w_wp nx w)).
Proof.
  intros Hn Hw Htg Hpr Hnp Hown H. dg3 H. dst s. unfold set_w. red_all.
  pose proof (nth_error_lt _ _ _ Hpr) as Htl.
  assert (Hold : pushed (wp w) = false /\ reserving (wp w) = false /\ owner (wp w) = false).
  { destruct Hw as [-> | ->]; cbn; auto. }
  destruct Hold as (Hop & Hor & Hoo).
  assert (Hnew : reserving nx = false /\ task_pc nx = true /\ task_effective nx = true).
  { destruct Hnp as [[-> | ->]|(_ & _ & [-> | ->])]; cbn; repeat split; reflexivity. }
  destruct Hnew as (Hnr & Hntp & Hneff).
  constructor; red_all.
  - intros t' j Hin. destruct (I_qmem t' j Hin) as (w' & Hn' & Htg' & Hp).
    destruct (Nat.eq_dec i j) as [->|Hne].
    + rewrite Hn in Hn'. inversion Hn'; subst w'. congruence.
    + exists w'. rewrite nth_error_upd_neq by exact Hne. auto.
  - intros t' Hs. destruct (Nat.eq_dec t' t) as [->|Hne].
    + destruct Hnp as [Hm|(-> & Hwi & _)].
      * right. right. eapply pushing_upd_new; eauto. unfold pushing_w. cbn [tgt wp w_wp].
        rewrite Htg, Nat.eqb_refl. destruct Hm as [-> | ->]; reflexivity.
      * destruct (I_sched t Hpr) as [Hh|[Hq|Hp]]; auto.
        right. right. eapply pushing_upd_keep; eauto. left.
        unfold pushing_w. rewrite Htg, Hwi. cbn. apply andb_false_r.
    + rewrite nth_error_upd_neq in Hs by (intro; apply Hne; auto).
      destruct (I_sched t' Hs) as [Hh|[Hq|Hp]]; auto.
      right. right. eapply pushing_upd_keep; eauto. left.
      unfold pushing_w. rewrite Htg.
      destruct (Nat.eqb t' t) eqn:E; [apply Nat.eqb_eq in E; contradiction|reflexivity].
  - assert (Hsc : forall t', nth_error sc t' = Some true -> nth_error (upd sc t true) t' = Some true).
    { intros t' Ht'. destruct (Nat.eq_dec t t') as [<-|Hne];
        [apply nth_error_upd_eq; exact Htl|rewrite nth_error_upd_neq by exact Hne; exact Ht']. }
    intros j w' t' Hn' Htg' He Hsn. upd_cases Hn'.
    + cbn [tgt seen w_wp] in *. rewrite Htg in Htg'. inversion Htg'; subst t'.
      apply nth_error_upd_eq. exact Htl.
    + apply Hsc. eapply I_seen; eauto.
  - pose proof (count_upd (fun w => reserving (wp w)) ws i w (w_wp nx w) Hn) as Hc.
    cbv beta in Hc. cbn [wp w_wp] in Hc. rewrite Hor, Hnr in Hc. lia.
  - exact I_cap.
  - intros t' Hs. destruct (Nat.eq_dec t' t) as [->|Hne].
    + destruct Hown as [Ho|Hheld].
      * exists i, (w_wp nx w). split; [apply nth_error_upd_eq; eapply nth_error_lt; eauto|]. auto.
      * destruct (I_section t Hheld) as (j & w' & Hn' & Htg' & Ho).
        destruct (Nat.eq_dec i j) as [->|Hnj].
        -- rewrite Hn in Hn'. inversion Hn'; subst w'. congruence.
        -- exists j, w'. rewrite nth_error_upd_neq by exact Hnj. auto.
    + rewrite nth_error_upd_neq in Hs by (intro; apply Hne; auto).
      destruct (I_section t' Hs) as (j & w' & Hn' & Htg' & Ho).
      destruct (Nat.eq_dec i j) as [->|Hnj].
      * rewrite Hn in Hn'. inversion Hn'; subst w'. congruence.
      * exists j, w'. rewrite nth_error_upd_neq by exact Hnj. auto.
  - rewrite !upd_length. exact I_lens.
  - intros j w' Hn'. rewrite upd_length. upd_cases Hn'; [|apply (I_shape j w' Hn'0)].
    cbn [tgt wp w_wp]. rewrite Htg. split; assumption.
Qed.

Lemma ob_notified g s : has_notified (flag (d s)) = true -> ob g s.
Proof. intros H. destruct g; cbn; auto. Qed.

Lemma ob_mono g s s' :
  ext (c s') = ext (c s) -> r s' = r s ->
  (flag (d s') = flag (d s) \/ flag (d s') = fl_wake (flag (d s))) ->
  ob g s -> ob g s'.
Proof.
  intros _ Hr Hf H. destruct g; cbn in *; auto.
  - destruct Hf as [-> | ->]; [exact H|apply hn_wake].
  - rewrite Hr. destruct H as [H|H]; [left; exact H|right].
    destruct Hf as [-> | ->]; [exact H|apply hn_wake].
Qed.

Lemma reg_main_eq s s' : c s' = c s -> r s' = r s -> reg_main s' = reg_main s.
Proof. intros Hc Hr. unfold reg_main. rewrite Hc, Hr. reflexivity. Qed.
Lemma reg_drain_eq s s' : c s' = c s -> r s' = r s -> reg_drain s' = reg_drain s.
Proof. intros Hc Hr. unfold reg_drain. rewrite (reg_main_eq s s' Hc Hr), Hr. reflexivity. Qed.

Lemma g1_w_frame s s' :
  c s' = c s -> r s' = r s -> hot (e s') = hot (e s) ->
  sqarm (d s') = sqarm (d s) -> need_push (d s') = need_push (d s) ->
  karmed (d s') = karmed (d s) -> cq (d s') = cq (d s) ->
  (flag (d s') = flag (d s) \/ flag (d s') = fl_wake (flag (d s))) ->
  (fl_idle (flag (d s)) = true \/ has_notified (flag (d s)) = true ->
   fl_idle (flag (d s')) = true \/ has_notified (flag (d s')) = true) ->
  ((has_notified (flag (d s)) = true -> 0 < efd (d s) \/ writers s = true) ->
   fl_idle (flag (d s)) = true \/ has_notified (flag (d s)) = true ->
   has_notified (flag (d s')) = true -> 0 < efd (d s') \/ writers s' = true) ->
  G1 s -> G1 s'.
Proof.
  intros Hc Hr Hh Hsq Hne Hka Hcq Hfl Hfa Hfb H. dg1 H.
  pose proof (reg_main_eq s s' Hc Hr) as Hreg.
  constructor; rewrite ?Hreg, ?Hc, ?Hr, ?Hh, ?Hsq, ?Hne, ?Hka, ?Hcq; auto.
  intros Hp Hrm. rewrite <- Hr in Hp, Hrm. rewrite Hr in Hp, Hrm.
  destruct (I_hot Hp Hrm) as [He|Ho]; [left; exact He|right].
  eapply ob_mono; [rewrite Hc; reflexivity|exact Hr|exact Hfl|exact Ho].
Qed.

Lemma g2_w_frame s s' i w w1 :
  c s' = c s -> r s' = r s ->
  nth_error (wk s) i = Some w -> wk s' = upd (wk s) i w1 ->
  tgt w1 = tgt w -> seen w1 = seen w ->
  (queue (e s') = queue (e s) \/
   exists t, queue (e s') = queue (e s) ++ [(t, i)] /\ notified_after (wp w1) = false /\
             pushed (wp w) = false) ->
  (flag (d s') = flag (d s) \/ flag (d s') = fl_wake (flag (d s))) ->
  (tgt w = None -> main_effective (wp w1) = true ->
   main_effective (wp w) = true \/ has_notified (flag (d s')) = true) ->
  (forall t, In (t, i) (queue (e s)) -> notified_after (wp w1) = true ->
   notified_after (wp w) = true \/ has_notified (flag (d s')) = true) ->
  G2 s -> G2 s'.
Proof.
  intros Hc Hr Hn Hw Ht Hse Hq Hf Hme Hna H. dg2 H.
  assert (Hmono : forall g, ob g s -> ob g s').
  { intros g. apply ob_mono; [rewrite Hc; reflexivity|exact Hr|exact Hf]. }
  constructor; rewrite ?(reg_main_eq s s' Hc Hr), ?(reg_drain_eq s s' Hc Hr), Hw.
  - intros j w' Hn' Htg He Hsn. apply nth_error_upd_cases in Hn'.
    destruct Hn' as [(-> & -> & _)|(_ & Hn')].
    + rewrite Ht in Htg. rewrite Hse in Hsn. destruct (Hme Htg He) as [He'|Hno].
      * apply Hmono. eapply I_main; eauto.
      * apply ob_notified. exact Hno.
    + apply Hmono. eapply I_main; eauto.
  - intros t j w' Hin Hn' He.
    assert (Hold : In (t, j) (queue (e s)) -> ob (reg_drain s) s').
    { intros Hin'. apply nth_error_upd_cases in Hn'.
      destruct Hn' as [(-> & -> & _)|(_ & Hn')].
      - destruct (Hna t Hin' He) as [He'|Hno]; [apply Hmono; eapply I_q; eauto|apply ob_notified; exact Hno].
      - apply Hmono. eapply I_q; eauto. }
    destruct Hq as [Hq|(t0 & Hq & Hnn & Hnp)]; rewrite Hq in Hin; [auto|].
    apply in_app_or in Hin. destruct Hin as [Hin|[Hin|[]]]; [auto|].
    inversion Hin; subst t0 j.
    rewrite nth_error_upd_eq in Hn' by (eapply nth_error_lt; eauto). inversion Hn'; subst w'.
    congruence.
Qed.

Lemma writers_keep ws i w w1 :
  nth_error ws i = Some w -> is_write (wp w) = false ->
  existsb (fun w => is_write (wp w)) ws = true ->
  existsb (fun w => is_write (wp w)) (upd ws i w1) = true.
Proof.
  intros Hn Hf He. destruct (existsb_upd_keep _ _ _ _ w1 Hn He) as [H|H]; [exact H|].
  cbv beta in H. congruence.
Qed.

Lemma g1_w_same s s' i w w1 :
  c s' = c s -> r s' = r s -> d s' = d s -> hot (e s') = hot (e s) ->
  nth_error (wk s) i = Some w -> wk s' = upd (wk s) i w1 -> is_write (wp w) = false ->
  G1 s -> G1 s'.
Proof.
  intros Hc Hr Hd Hh Hn Hw Hnw H.
  apply (g1_w_frame s s'); auto; try (rewrite Hd; reflexivity).
  - left. rewrite Hd. reflexivity.
  - rewrite Hd. auto.
  - rewrite Hd. intros IH _ Hno. destruct (IH Hno) as [He|He]; [left; exact He|right].
    unfold writers in *. rewrite Hw. eapply writers_keep; eauto.
Qed.

Lemma g2_w_same s s' i w w1 :
  c s' = c s -> r s' = r s -> d s' = d s -> queue (e s') = queue (e s) ->
  nth_error (wk s) i = Some w -> wk s' = upd (wk s) i w1 ->
  tgt w1 = tgt w -> seen w1 = seen w ->
  (tgt w = None -> main_effective (wp w1) = true -> main_effective (wp w) = true) ->
  (forall t, In (t, i) (queue (e s)) -> notified_after (wp w1) = true -> notified_after (wp w) = true) ->
  G2 s -> G2 s'.
Proof.
  intros Hc Hr Hd Hq Hn Hw Ht Hse Hme Hna H.
  eapply (g2_w_frame s s' i w w1); eauto.
  left. rewrite Hd. reflexivity.
Qed.

Lemma no_item s i w :
  G3 s -> nth_error (wk s) i = Some w -> pushed (wp w) = false ->
  forall t, In (t, i) (queue (e s)) -> False.
Proof.
  intros H3 Hn Hp t Hin. destruct (i_qmem _ H3 t i Hin) as (w' & Hn' & _ & Hp').
  rewrite Hn in Hn'. inversion Hn'; subst. congruence.
Qed.


Lemma after_not_write k : is_write (after k) = false.
Proof. destruct k; reflexivity. Qed.



Ltac refl_all := try reflexivity.

Lemma inv_fetch s i w k :
  Inv s -> nth_error (wk s) i = Some w -> wp w = WFetch k ->
  Inv (set_w (s_d (d_flag (fl_wake (flag (d s))) (d s)) s) i
         (w_wp (if fl_idle (flag (d s)) then WWrite k else after k) w)).
Proof.
  intros [H1 H2 H3] Hn Hwp.
  pose proof (i_shape _ H3 i w Hn) as Hsh. rewrite Hwp in Hsh.
  set (f := flag (d s)).
  set (nx := if fl_idle f then WWrite k else after k).
  constructor.
  - eapply (g1_w_frame s); refl_all.
    + right. reflexivity.
    + intros _. right. cbn [flag d set_w s_wk s_d d_flag]. apply hn_wake.
    + intros IH Hor _. change (flag (d s)) with f in IH, Hor.
      destruct (fl_idle f) eqn:Hidle.
      * right. unfold writers. cbn [wk set_w s_wk s_d]. eapply existsb_upd_new; eauto.
      * destruct Hor as [Hx|Hno]; [discriminate|].
        destruct (IH Hno) as [He|He]; [left; exact He|right].
        unfold writers in *. cbn [wk set_w s_wk s_d]. eapply writers_keep; eauto.
        rewrite Hwp. reflexivity.
    + exact H1.
  - eapply (g2_w_frame s _ i w (w_wp nx w)); refl_all; eauto;
      try (intros; right; cbn [flag d set_w s_wk s_d d_flag]; apply hn_wake);
      try (right; reflexivity).
  - apply (g3_thread s i w (w_wp nx w)); auto; rewrite ?Hwp; unfold nx;
      destruct (tgt w); destruct k; destruct (fl_idle f); cbn in *; auto; try discriminate;
      try (destruct Hsh; discriminate).
Qed.

Lemma inv_write s i w k :
  Inv s -> nth_error (wk s) i = Some w -> wp w = WWrite k ->
  Inv (set_w (s_d (d_efd (notify_efd (c s) (efd (d s))) (d s)) s) i (w_wp (after k) w)).
Proof.
  intros [H1 H2 H3] Hn Hwp.
  pose proof (i_shape _ H3 i w Hn) as Hsh. rewrite Hwp in Hsh.
  constructor.
  - eapply (g1_w_frame s); refl_all; auto; try (left; reflexivity).
    intros _ _ _. left. cbn. unfold notify_efd. destruct (uring (c s)); lia.
  - eapply (g2_w_frame s _ i w (w_wp (after k) w)); refl_all; eauto;
      try (left; reflexivity); intros; rewrite ?Hwp in *;
      try match goal with
          | Hin : In (_, i) (queue (e s)) |- _ =>
            destruct k; cbn in *; auto;
            exfalso; eapply (no_item s i w); eauto; rewrite Hwp; reflexivity
          end;
      destruct k; cbn in *; auto; try discriminate;
      match goal with Ht : tgt w = None |- _ => rewrite Ht in Hsh; discriminate end.
  - apply (g3_thread s i w (w_wp (after k) w)); auto; rewrite ?Hwp;
      destruct (tgt w); destruct k; cbn in *; auto; try discriminate;
      try (destruct Hsh; discriminate).
Qed.

Lemma inv_w s i s' : Inv s -> w_step current s i = Some s' -> Inv s'.
Proof.
  intros [H1 H2 H3] Hs. unfold w_step in Hs.
  destruct (nth_error (wk s) i) as [w|] eqn:Hn; [|discriminate].
  pose proof (i_shape _ H3 i w Hn) as Hsh.
  destruct (wp w) eqn:Hwp; destruct (tgt w) as [t|] eqn:Htg; try discriminate.
  - (* WIdle, task: start_scheduling *)
    destruct (nth_error (sched (e s)) t) as [prior|] eqn:Hpr; [|discriminate].
    inv_some Hs.
    set (held := match nth_error (sching (e s)) t with Some b => b | None => false end).
    set (nx := if prior then if held then WDone else WCoal else if held then WSection else WReserve).
    assert (Hnx1 : (nx = WSection \/ nx = WReserve) \/
                   (prior = true /\ wp w = WIdle /\ (nx = WDone \/ nx = WCoal))).
    { unfold nx. destruct prior, held; auto 6. }
    assert (Hnx2 : owner nx = true \/ nth_error (sching (e s)) t = Some true).
    { unfold nx, held. destruct (nth_error (sching (e s)) t) as [[|]|]; destruct prior; auto. }
    constructor.
    + eapply (g1_w_same s _ i w (w_wp nx w)); refl_all; eauto. rewrite Hwp. reflexivity.
    + eapply (g2_w_same s _ i w (w_wp nx w)); refl_all; eauto.
      * rewrite Htg. discriminate.
      * intros t' Hin. exfalso. eapply (no_item s i w); eauto. rewrite Hwp. reflexivity.
    + eapply g3_start; eauto.
  - (* WIdle, main future *)
    inv_some Hs. constructor.
    + eapply (g1_w_same s _ i w); refl_all; eauto. rewrite Hwp. reflexivity.
    + eapply (g2_w_same s _ i w); refl_all; eauto.
      * cbn. discriminate.
      * cbn. discriminate.
    + apply (g3_thread s i w (w_wp (WFetch KMain) w) (d s)); auto; rewrite ?Hwp, ?Htg; cbn; auto; discriminate.
  - (* WCoal *)
    inv_some Hs. constructor.
    + eapply (g1_w_same s _ i w); refl_all; eauto. rewrite Hwp. reflexivity.
    + eapply (g2_w_same s _ i w); refl_all; eauto.
      * rewrite Htg. discriminate.
      * intros t' Hin. exfalso. eapply (no_item s i w); eauto. rewrite Hwp. reflexivity.
    + eapply g3_finish; eauto.
  - (* WSection *)
    inv_some Hs.
    set (held := match nth_error (sching (e s)) t with Some b => b | None => false end).
    set (nx := if held then WSection else WReserve).
    destruct Hsh as (_ & Htl).
    destruct (nth_error (sched (e s)) t) as [prior|] eqn:Hpr;
      [|apply nth_error_None in Hpr; lia].
    assert (Hnx1 : (nx = WSection \/ nx = WReserve) \/
                   (prior = true /\ wp w = WIdle /\ (nx = WDone \/ nx = WCoal))).
    { unfold nx. destruct held; auto. }
    assert (Hnx2 : owner nx = true \/ nth_error (sching (e s)) t = Some true).
    { unfold nx, held. destruct (nth_error (sching (e s)) t) as [[|]|]; auto. }
    constructor.
    + eapply (g1_w_same s _ i w (w_wp nx w)); refl_all; eauto. rewrite Hwp. reflexivity.
    + eapply (g2_w_same s _ i w (w_wp nx w)); refl_all; eauto.
      * rewrite Htg. discriminate.
      * intros t' Hin. exfalso. eapply (no_item s i w); eauto. rewrite Hwp. reflexivity.
    + eapply g3_start; eauto.
  - (* WReserve *)
    inv_some Hs. constructor.
    + eapply (g1_w_same s _ i w); refl_all; eauto. rewrite Hwp. reflexivity.
    + eapply (g2_w_same s _ i w); refl_all; eauto.
      * rewrite Htg. discriminate.
      * cbn. discriminate.
    + eapply g3_reserve; eauto.
  - (* WPush *)
    destruct (Nat.ltb (length (queue (e s))) (qcap (c s))) eqn:Hfull.
    + apply Nat.ltb_lt in Hfull. replace (nt && negb (v_wake_after_spin current)) with false in Hs
        by (cbn; rewrite andb_false_r; reflexivity).
      inv_some Hs. constructor.
      * eapply (g1_w_same s _ i w); refl_all; eauto. rewrite Hwp. reflexivity.
      * eapply (g2_w_frame s _ i w (w_wp (WFetch KPushed) w)); refl_all; eauto.
        -- right. exists t. split; [reflexivity|]. rewrite Hwp. split; reflexivity.
        -- rewrite Htg. discriminate.
        -- cbn. discriminate.
      * eapply g3_push; eauto.
    + destruct nt.
      * inv_some Hs. constructor; assumption.
      * inv_some Hs. constructor.
        -- eapply (g1_w_same s _ i w); refl_all; eauto. rewrite Hwp. reflexivity.
        -- eapply (g2_w_same s _ i w); refl_all; eauto.
           ++ rewrite Htg. discriminate.
           ++ cbn. discriminate.
        -- apply (g3_thread s i w (w_wp (WFetch KSpin) w) (d s)); auto; rewrite ?Hwp, ?Htg; cbn; auto; discriminate.
  - (* WFetch, task *) inv_some Hs. apply inv_fetch; auto. constructor; assumption.
  - (* WFetch, main *) inv_some Hs. apply inv_fetch; auto. constructor; assumption.
  - (* WWrite, task *) inv_some Hs. apply inv_write; auto. constructor; assumption.
  - (* WWrite, main *) inv_some Hs. apply inv_write; auto. constructor; assumption.
  - (* WFinish *)
    inv_some Hs. constructor.
    + eapply (g1_w_same s _ i w); refl_all; eauto. rewrite Hwp. reflexivity.
    + eapply (g2_w_same s _ i w); refl_all; eauto.
      * rewrite Htg. discriminate.
      * intros. rewrite Hwp. reflexivity.
    + eapply g3_finish; eauto.
Qed.

(* ---------------------------------------------------------------------- *)
(* every label, every reachable state                                      *)

Theorem inv_step s l s' : Inv s -> step s l = Some s' -> Inv s'.
Proof.
  intros Hi Hs. destruct l.
  - eapply inv_rt; eauto.
  - eapply inv_timeout; eauto.
  - eapply inv_skip; eauto.
  - eapply inv_local; eauto.
  - eapply (inv_kernel s LKNotify); auto.
  - eapply (inv_kernel s LKOther); auto.
  - eapply (inv_kernel s LKTerm); auto.
  - eapply inv_w; eauto.
Qed.

Theorem inv_steps ls : forall s s', Inv s -> steps s ls = Some s' -> Inv s'.
Proof.
  induction ls as [|l ls IH]; intros s s' Hi Hs.
  - cbn in Hs. inversion Hs; subst. exact Hi.
  - unfold steps in Hs. cbn [steps_v] in Hs.
    destruct (step_v current s l) as [s1|] eqn:E; [|discriminate].
    eapply IH; [eapply inv_step; eauto|exact Hs].
Qed.

Theorem reachable_inv cf n tg ls s :
  targets_ok n tg -> steps (init cf n tg) ls = Some s -> Inv s.
Proof. intros Hok Hs. eapply inv_steps; [apply init_inv; exact Hok|exact Hs]. Qed.

(* ---------------------------------------------------------------------- *)
(* C03: no lost wake-up                                                    *)

Definition progress (s : st) : bool := ready s || knotify_enabled s || some_in_flight s.

Lemma wait_facts s :
  Inv s -> at_wait s = true ->
  reg_main s = Idle /\ reg_drain s = Idle /\ nw (r s) = true /\ rem (r s) = false /\
  (hot (e s) = [] \/ ob Idle s) /\ (uring (c s) = true -> karmed (d s) = true \/ In CFinal (cq (d s))).
Proof.
  intros [H1 _ _] Hw. dg1 H1. dst s. unfold at_wait in Hw. red_all.
  destruct p; try discriminate; cbn [np_pc h_pc ext_pc] in *.
  - (* RExtWait *)
    apply andb_prop in Hw. destruct Hw as (-> & Hr). destruct rm; [discriminate|].
    repeat split; auto.
    intros Hu. destruct (I_arm Hu) as [H|[H|[H|[H|H]]]]; auto.
    + destruct (I_sqarm H); discriminate.
    + specialize (I_need Hu H). discriminate.
    + destruct td as [|x0 td0]; [destruct H|]. assert (X : x0 :: td0 <> []) by discriminate.
      specialize (I_todo X). discriminate.
  - (* RWait *)
    destruct (I_wait eq_refl) as (-> & -> & ->).
    repeat split; auto.
    intros Hu. destruct (I_arm Hu) as [H|[H|[H|[H|H]]]]; auto.
    + destruct (I_sqarm H); discriminate.
    + specialize (I_need Hu H). discriminate.
    + destruct td as [|x0 td0]; [destruct H|]. assert (X : x0 :: td0 <> []) by discriminate.
      specialize (I_todo X). discriminate.
Qed.

Lemma in_flight_progress s i w :
  nth_error (wk s) i = Some w -> in_flight s w = true -> progress s = true.
Proof.
  intros Hn Hf. unfold progress, some_in_flight.
  rewrite (existsb_nth _ _ _ _ Hn Hf). apply orb_true_r.
Qed.

Lemma notified_progress s :
  Inv s -> at_wait s = true -> has_notified (flag (d s)) = true -> progress s = true.
Proof.
  intros Hi Hw Hno. destruct (wait_facts s Hi Hw) as (Hreg & _ & _ & _ & _ & Harm).
  destruct Hi as [H1 _ _]. destruct (i_efd _ H1 Hreg Hno) as [He|Hwr].
  - unfold progress, ready, knotify_enabled.
    destruct (uring (c s)) eqn:Hu.
    + destruct (Harm eq_refl) as [Hk|Hc].
      * rewrite Hk. assert (E : Nat.ltb 0 (efd (d s)) = true) by (apply Nat.ltb_lt; exact He).
        rewrite E. cbn. rewrite orb_true_r. reflexivity.
      * destruct (cq (d s)); [destruct Hc|]. reflexivity.
    + assert (E : Nat.ltb 0 (efd (d s)) = true) by (apply Nat.ltb_lt; exact He).
      rewrite E. cbn. rewrite orb_true_r. reflexivity.
  - unfold writers in Hwr. apply existsb_nth_inv in Hwr. destruct Hwr as (i & w & Hn & Hf).
    eapply in_flight_progress; eauto. unfold in_flight. destruct (wp w); try discriminate. reflexivity.
Qed.

Lemma ob_idle_progress s :
  Inv s -> at_wait s = true -> ob Idle s -> progress s = true.
Proof.
  intros Hi Hw Hob. destruct (wait_facts s Hi Hw) as (_ & _ & Hnw & _).
  cbn in Hob. destruct Hob as [Hx|Hno]; [congruence|]. apply notified_progress; auto.
Qed.

Lemma queue_progress s t j :
  Inv s -> at_wait s = true -> In (t, j) (queue (e s)) -> progress s = true.
Proof.
  intros Hi Hw Hin. pose proof Hi as [_ H2 H3].
  destruct (i_qmem _ H3 t j Hin) as (w & Hn & Htg & Hp).
  destruct (notified_after (wp w)) eqn:Hna.
  - destruct (wait_facts s Hi Hw) as (_ & Hreg & _).
    pose proof (i_q _ H2 t j w Hin Hn Hna) as Hob. rewrite Hreg in Hob.
    apply ob_idle_progress; auto.
  - eapply in_flight_progress; eauto. unfold in_flight.
    destruct (wp w) as [| | | |nt|k|k| |]; try discriminate; try reflexivity.
Qed.

Lemma push_progress s i w nt :
  1 <= qcap (c s) -> Inv s -> at_wait s = true ->
  nth_error (wk s) i = Some w -> wp w = WPush nt -> progress s = true.
Proof.
  intros Hq Hi Hw Hn Hwp.
  destruct (Nat.ltb (length (queue (e s))) (qcap (c s))) eqn:Hfull.
  - eapply in_flight_progress; eauto. unfold in_flight. rewrite Hwp. destruct nt; auto.
  - destruct nt; [|eapply in_flight_progress; eauto; unfold in_flight; rewrite Hwp; reflexivity].
    apply Nat.ltb_ge in Hfull. destruct (queue (e s)) as [|[t j] q] eqn:Eq; [cbn in Hfull; lia|].
    apply (queue_progress s t j); auto. rewrite Eq. left. reflexivity.
Qed.

Lemma owner_progress s i w :
  1 <= qcap (c s) -> Inv s -> at_wait s = true ->
  nth_error (wk s) i = Some w -> owner (wp w) = true -> progress s = true.
Proof.
  intros Hq Hi Hw Hn Ho.
  destruct (wp w) as [| | | |nt|k|k| |] eqn:Hwp; try discriminate;
    try (eapply in_flight_progress; eauto; unfold in_flight; rewrite Hwp; reflexivity).
  eapply push_progress; eauto.
Qed.

Theorem no_lost_wake s :
  1 <= qcap (c s) -> Inv s -> owed s = true -> stuck s = false.
Proof.
  intros Hq Hi Ho. unfold stuck.
  destruct (at_wait s) eqn:Hw; [|reflexivity].
  assert (Hp : progress s = true).
  { unfold owed in Ho. apply existsb_nth_inv in Ho. destruct Ho as (i & w & Hn & Hf).
    destruct (wp w) eqn:Hwp; try discriminate. destruct (seen w) eqn:Hse; [discriminate|].
    pose proof Hi as [H1 H2 H3].
    destruct (wait_facts s Hi Hw) as (Hreg & _ & _ & _ & Hhot & _).
    destruct (tgt w) as [t|] eqn:Htg.
    - (* a task *)
      assert (Hsc : nth_error (sched (e s)) t = Some true).
      { eapply (i_seen _ H3 i w t); eauto. rewrite Hwp. reflexivity. }
      destruct (i_sched _ H3 t Hsc) as [Hh|[(j & Hin)|Hpu]].
      + destruct Hhot as [Hhot|Hob]; [rewrite Hhot in Hh; destruct Hh|apply ob_idle_progress; auto].
      + eapply queue_progress; eauto.
      + unfold pushing in Hpu. apply existsb_nth_inv in Hpu. destruct Hpu as (j & w' & Hn' & Hf').
        unfold pushing_w in Hf'. destruct (tgt w') as [t'|] eqn:Htg'; [|discriminate].
        apply andb_prop in Hf'. destruct Hf' as (Et & Hm). apply Nat.eqb_eq in Et. subst t'.
        destruct (wp w') as [| | | |nt|k|k| |] eqn:Hwp'; try discriminate;
          try (eapply in_flight_progress; eauto; unfold in_flight; rewrite Hwp'; reflexivity).
        * (* WSection: the section is free, or its owner is on its way *)
          pose proof (i_shape _ H3 j w' Hn') as Hsh. rewrite Htg' in Hsh. destruct Hsh as (_ & Hlt).
          rewrite <- (i_lens _ H3) in Hlt.
          destruct (nth_error (sching (e s)) t) as [[|]|] eqn:Hsg.
          -- destruct (i_section _ H3 t Hsg) as (k & w'' & Hn'' & _ & Hown).
             eapply owner_progress; eauto.
          -- eapply in_flight_progress; eauto. unfold in_flight. rewrite Hwp', Htg', Hsg. reflexivity.
          -- apply nth_error_None in Hsg. lia.
        * eapply push_progress; eauto.
    - (* the main future *)
      pose proof (i_main _ H2 i w Hn Htg) as Hob. rewrite Hwp in Hob.
      specialize (Hob eq_refl Hse). rewrite Hreg in Hob.
      apply ob_idle_progress; auto. }
  unfold progress in Hp. apply orb_prop in Hp. destruct Hp as [Hp|Hp].
  - apply orb_prop in Hp. destruct Hp as [-> | ->]; cbn; rewrite ?andb_false_r; reflexivity.
  - rewrite Hp. cbn. rewrite ?andb_false_r. reflexivity.
Qed.

(* the protocol-level reading of the invariant *)
Theorem wake_protocol s :
  Inv s ->
  (forall i w, nth_error (wk s) i = Some w -> tgt w = None -> wp w = WDone -> seen w = false ->
     reg_main s = Pre \/ has_notified (flag (d s)) = true \/
     (reg_main s = Idle /\ nw (r s) = false)) /\
  (forall t i w, In (t, i) (queue (e s)) -> nth_error (wk s) i = Some w -> wp w = WDone ->
     reg_drain s = Pre \/ has_notified (flag (d s)) = true \/
     (reg_drain s = Idle /\ nw (r s) = false)) /\
  (reg_main s = Idle -> has_notified (flag (d s)) = true -> 0 < efd (d s) \/ writers s = true) /\
  (at_wait s = true -> uring (c s) = true -> karmed (d s) = true \/ In CFinal (cq (d s))).
Proof.
  intros Hi. pose proof Hi as [H1 H2 H3]. repeat split.
  - intros i w Hn Ht Hw Hs. pose proof (i_main _ H2 i w Hn Ht) as Hob. rewrite Hw in Hob.
    specialize (Hob eq_refl Hs). destruct (reg_main s); cbn in Hob; auto. destruct Hob; auto.
  - intros t i w Hin Hn Hw. pose proof (i_q _ H2 t i w Hin Hn) as Hob. rewrite Hw in Hob.
    specialize (Hob eq_refl). destruct (reg_drain s); cbn in Hob; auto. destruct Hob; auto.
  - apply (i_efd _ H1).
  - intros Hw. destruct (wait_facts s Hi Hw) as (_ & _ & _ & _ & _ & Ha). exact Ha.
Qed.

(* ---------------------------------------------------------------------- *)
(* bounded: the runtime's own steps after the wait                         *)

Theorem bounded_main s :
  Inv s -> reg_main s = Pre ->
  exists s', step s LR = Some s' /\
             (pc (r s) = RMain0 \/ (reg_main s' = Pre /\ mu_main s' < mu_main s)).
Proof.
  intros [H1 _ _] Hreg. pose proof (i_todo _ H1) as Ht. clear H1.
  dst s. unfold step, step_v, rt_step, mu_main. red_all.
  assert (Htd : p <> RClear -> td = []).
  { intros Hp. destruct td as [|x0 td0]; [reflexivity|]. exfalso. apply Hp. apply Ht. discriminate. }
  destruct p; red_all; try discriminate Hreg.
  - eexists. split; [reflexivity|]. left. reflexivity.
  - (* RReset (external loop) *)
    destruct ex; [|discriminate]. unfold do_reset. red_all.
    eexists. split; [reflexivity|]. right. destruct ur; red_all; cbn [rank]; split; auto; lia.
  - destruct ex; [|discriminate]. eexists. split; [reflexivity|]. right.
    unfold arm. destruct np; red_all; cbn [rank]; split; auto; lia.
  - (* REnter (external loop): never blocks *)
    destruct ex; [|discriminate]. rewrite andb_false_r. unfold submit, return_ok. red_all.
    destruct (ur && nw0 && isnil cq0) eqn:E.
    + eexists. split; [reflexivity|]. right. red_all. cbn [rank]. split; auto; lia.
    + eexists. split; [reflexivity|]. right. destruct ur; red_all; cbn [rank length]; split; auto; lia.
  - (* RSetAwake1 *)
    eexists. split; [reflexivity|]. right. rewrite (Htd ltac:(discriminate)).
    destruct ur; red_all; cbn [rank length]; split; auto; lia.
  - (* RPollEntries *)
    eexists. split; [reflexivity|]. right. rewrite (Htd ltac:(discriminate)).
    red_all. cbn [rank length]. split; auto; lia.
  - (* RClear *)
    destruct td as [|x rest].
    + eexists. split; [reflexivity|]. right. red_all. cbn [rank length]. split; auto; lia.
    + eexists. split; [reflexivity|]. right. red_all. cbn [rank length]. split; auto; lia.
  - (* RSetAwake2 *)
    eexists. split; [reflexivity|]. right. red_all. cbn [rank]. split; auto; lia.
Qed.

Lemma w_step_rt s i s' : w_step current s i = Some s' -> r s' = r s /\ c s' = c s /\ cq (d s') = cq (d s).
Proof.
  unfold w_step. intros Hs.
  destruct (nth_error (wk s) i) as [w|]; [|discriminate].
  destruct (wp w); destruct (tgt w); try discriminate;
    repeat match type of Hs with
           | context [match ?x with _ => _ end] => destruct x
           | context [if ?b then _ else _] => destruct b
           end; try discriminate; inv_some Hs; auto.
Qed.

Theorem bounded_env s l s' :
  step s l = Some s' ->
  match l with
  | LW _ => mu_main s' = mu_main s /\ pc (r s') = pc (r s)
  | LKNotify | LKOther | LKTerm => mu_main s' <= S (mu_main s) /\ pc (r s') = pc (r s)
  | _ => True
  end.
Proof.
  intros Hs. destruct l; auto; unfold step, step_v in Hs.
  - destruct (_ && _); [|discriminate]. inv_some Hs. unfold mu_main. dst s. red_all.
    rewrite app_length. cbn [length]. split; [|reflexivity]. destruct p; lia.
  - inv_some Hs. unfold mu_main. dst s. red_all.
    rewrite app_length. cbn [length]. split; [|reflexivity]. destruct p; lia.
  - destruct (_ && _); [|discriminate]. inv_some Hs. unfold mu_main. dst s. red_all.
    rewrite app_length. cbn [length]. split; [|reflexivity]. destruct p; lia.
  - destruct (w_step_rt _ _ _ Hs) as (Hr & _ & Hc). unfold mu_main. rewrite Hr, Hc. auto.
Qed.

(* a queued id makes drain_sync take the slow path; the wait is never entered
   with a hot task *)
(* a hot task never sleeps: if the runtime is at its wait with a hot task (in
   external-loop mode a task can be woken on the runtime's own thread after the
   flush), the wait is about to end *)
Theorem hot_never_sleeps s :
  Inv s -> at_wait s = true -> hot (e s) <> [] -> stuck s = false.
Proof.
  intros Hi Hw Hh. destruct (wait_facts s Hi Hw) as (_ & _ & _ & _ & [Hx|Hob] & _); [contradiction|].
  pose proof (ob_idle_progress s Hi Hw Hob) as Hp.
  unfold stuck. rewrite Hw. unfold progress in Hp. apply orb_prop in Hp. destruct Hp as [Hp|Hp].
  - apply orb_prop in Hp. destruct Hp as [-> | ->]; cbn; rewrite ?andb_false_r; reflexivity.
  - rewrite Hp. cbn. rewrite ?andb_false_r. reflexivity.
Qed.

Theorem bounded_drain s :
  Inv s ->
  (queue (e s) <> [] -> pending (e s) <> 0) /\
  (at_wait s = true -> hot (e s) <> [] -> stuck s = false).
Proof.
  intros Hi. split.
  - pose proof Hi as [_ _ H3]. pose proof (i_pending _ H3) as Hp.
    destruct (queue (e s)); [congruence|]. cbn [length] in Hp. lia.
  - apply hot_never_sleeps. exact Hi.
Qed.

(* ---------------------------------------------------------------------- *)
(* coalescing                                                              *)

Theorem coalesce_not_drop s :
  Inv s ->
  (forall t, nth_error (sched (e s)) t = Some true ->
     In t (hot (e s)) \/ (exists i, In (t, i) (queue (e s))) \/ pushing t (wk s) = true) /\
  (forall i w t s' w', nth_error (wk s) i = Some w -> wp w = WIdle -> tgt w = Some t ->
     step s (LW i) = Some s' -> nth_error (wk s') i = Some w' ->
     (wp w' = WCoal \/ wp w' = WDone) -> nth_error (sched (e s)) t = Some true).
Proof.
  intros [_ _ H3]. split; [apply (i_sched _ H3)|].
  intros i w t s' w' Hn Hwp Htg Hs Hn' Hc. unfold step, step_v, w_step in Hs.
  rewrite Hn, Hwp, Htg in Hs.
  destruct (nth_error (sched (e s)) t) as [prior|] eqn:Hpr; [|discriminate].
  inv_some Hs. unfold set_w in Hn'. cbn [wk s_wk s_e] in Hn'.
  rewrite nth_error_upd_eq in Hn' by (eapply nth_error_lt; eauto). inv_some Hn'.
  cbn [wp w_wp] in Hc. destruct prior; [reflexivity|].
  destruct (match nth_error (sching (e s)) t with Some b => b | None => false end);
    destruct Hc; discriminate.
Qed.

(* ---------------------------------------------------------------------- *)
(* the full queue                                                          *)

Theorem full_queue_waits s :
  Inv s ->
  (pending (e s) = length (queue (e s)) + count (fun w => reserving (wp w)) (wk s) + drained (r s)) /\
  length (queue (e s)) <= qcap (c s) /\
  (forall i w t nt, nth_error (wk s) i = Some w -> wp w = WPush nt -> tgt w = Some t ->
     qcap (c s) <= length (queue (e s)) ->
     exists s', step s (LW i) = Some s' /\ e s' = e s /\
       exists w', nth_error (wk s') i = Some w' /\ reserving (wp w') = true /\ tgt w' = Some t).
Proof.
  intros [_ _ H3]. split; [apply (i_pending _ H3)|]. split; [apply (i_cap _ H3)|].
  intros i w t nt Hn Hwp Htg Hfull. unfold step, step_v, w_step. rewrite Hn, Hwp, Htg.
  assert (E : Nat.ltb (length (queue (e s))) (qcap (c s)) = false) by (apply Nat.ltb_ge; exact Hfull).
  rewrite E. destruct nt.
  - exists s. split; [reflexivity|]. split; [reflexivity|]. exists w. rewrite Hwp. auto.
  - eexists. split; [reflexivity|]. split; [reflexivity|].
    exists (w_wp (WFetch KSpin) w). split; [|auto].
    unfold set_w. cbn [wk s_wk]. apply nth_error_upd_eq. eapply nth_error_lt; eauto.
Qed.

(* the queue is a FIFO: ids are appended by wakers and removed only by the
   drain, which makes the task hot *)
Theorem queue_fifo s l s' :
  step s l = Some s' ->
  queue (e s') = queue (e s) \/
  (exists x, queue (e s') = queue (e s) ++ [x]) \/
  (exists t i, queue (e s) = (t, i) :: queue (e s') /\ In t (hot (e s'))).
Proof.
  intros Hs. destruct l; unfold step, step_v in Hs.
  - dst s. unfold rt_step in Hs. red_all.
    destruct p; unfold arm, submit, return_ok, do_reset, apply_cqe, ready, current in Hs; red_all;
      cbn [v_flush_arms isnil] in Hs;
      repeat match type of Hs with
             | context [if ?b then _ else _] => destruct b
             | context [match ?x with _ => _ end] => destruct x
             end; try discriminate; inv_some Hs; red_all; auto.
    right. right. eexists _, _. split; [reflexivity|]. apply in_make_hot.
  - unfold rt_timeout, return_ok in Hs. dst s. red_all.
    destruct p; try discriminate; destruct ur; inv_some Hs; auto.
  - dst s. red_all. destruct p; try discriminate. destruct ur; try discriminate. inv_some Hs. auto.
  - unfold rt_local, local_notify in Hs. cbn [v_local_wakes current] in Hs. dst s. red_all.
    destruct (_ && _); [|discriminate]. destruct (fl_idle fl); inv_some Hs; auto.
  - destruct (_ && _); [|discriminate]. inv_some Hs. auto.
  - inv_some Hs. auto.
  - destruct (_ && _); [|discriminate]. inv_some Hs. auto.
  - unfold w_step in Hs. destruct (nth_error (wk s) i) as [w|]; [|discriminate].
    destruct (wp w); destruct (tgt w); try discriminate;
      repeat match type of Hs with
             | context [match ?x with _ => _ end] => destruct x
             | context [if ?b then _ else _] => destruct b
             end; try discriminate; inv_some Hs; auto.
    all: right; left; eexists; reflexivity.
Qed.

(* ---------------------------------------------------------------------- *)
(* the two earlier code variants lose a wake-up                            *)

Definition reps {A} (n : nat) (x : A) : list A := repeat x n.

Definition flush_witness : list label := reps 7 LR ++ [LW 0; LW 0; LW 0].
Definition flush_cfg : cfg := mk_cfg true true 1 61.

Lemma flush_unarmed_refuted :
  exists s, steps_v old_flush (init flush_cfg 0 [None]) flush_witness = Some s /\
            owed s = true /\ stuck s = true /\
            pc (r s) = RExtWait /\ karmed (d s) = false /\ efd (d s) = 1.
Proof. eexists. split; [vm_compute; reflexivity|]. repeat split; vm_compute; reflexivity. Qed.

Lemma flush_armed_ok :
  exists s, steps (init flush_cfg 0 [None]) flush_witness = Some s /\
            owed s = true /\ at_wait s = true /\ stuck s = false /\ knotify_enabled s = true.
Proof. eexists. split; [vm_compute; reflexivity|]. repeat split; vm_compute; reflexivity. Qed.

Definition spin_witness : list label :=
  reps 6 (LW 0) ++ reps 4 (LW 1) ++ reps 12 LR ++ [LKNotify] ++ reps 14 LR ++ [LW 1; LW 1].
Definition spin_cfg : cfg := mk_cfg true false 1 61.

Lemma spin_wake_refuted :
  exists s, steps_v old_spin (init spin_cfg 2 [Some 0; Some 1]) spin_witness = Some s /\
            owed s = true /\ stuck s = true /\
            pc (r s) = RWait /\ queue (e s) = [(1, 1)] /\ flag (d s) = AWAKE_IDLE.
Proof. eexists. split; [vm_compute; reflexivity|]. repeat split; vm_compute; reflexivity. Qed.

(* hypothetical variant: a wake on the runtime's own thread that does not wake
   the driver.  External loop: run, flush, then a host-loop callback wakes task 0
   before the loop sleeps on the descriptor: runnable task, sleeping loop. *)
Definition host_witness : list label := reps 7 LR ++ [LLocal 0].

Lemma local_wake_refuted :
  exists s, steps_v no_local_wake (init flush_cfg 1 []) host_witness = Some s /\
            at_wait s = true /\ hot (e s) = [0] /\ stuck s = true.
Proof. eexists. split; [vm_compute; reflexivity|]. repeat split; vm_compute; reflexivity. Qed.

Lemma local_wake_ok :
  exists s, steps (init flush_cfg 1 []) host_witness = Some s /\
            at_wait s = true /\ hot (e s) = [0] /\ stuck s = false /\ knotify_enabled s = true.
Proof. eexists. split; [vm_compute; reflexivity|]. repeat split; vm_compute; reflexivity. Qed.

Lemma spin_wake_ok :
  exists s, steps (init spin_cfg 2 [Some 0; Some 1]) spin_witness = Some s /\
            at_wait s = true /\ stuck s = false /\ queue (e s) = [(1, 1)] /\
            has_notified (flag (d s)) = true.
Proof. eexists. split; [vm_compute; reflexivity|]. repeat split; vm_compute; reflexivity. Qed.

(* the configuration never changes *)
Lemma step_cfg s l s' : step s l = Some s' -> c s' = c s.
Proof.
  intros E. destruct l; unfold step, step_v in E.
  - unfold rt_step in E.
    destruct (pc (r s)); unfold return_ok, do_reset, goto in E;
      repeat match type of E with
             | context [if ?b then _ else _] => destruct b
             | context [match ?x with _ => _ end] => destruct x
             end; try discriminate; inversion E; reflexivity.
  - unfold rt_timeout, return_ok in E. destruct (pc (r s)); try discriminate;
      destruct (uring (c s)); inversion E; reflexivity.
  - destruct (pc (r s)); try discriminate. destruct (uring (c s)); [discriminate|].
    inversion E; reflexivity.
  - unfold rt_local, local_notify in E. cbn [v_local_wakes current] in E.
    destruct (_ && _); [|discriminate]. destruct (fl_idle _); inversion E; reflexivity.
  - destruct (_ && _); [|discriminate]. inversion E; reflexivity.
  - inversion E; reflexivity.
  - destruct (_ && _); [|discriminate]. inversion E; reflexivity.
  - destruct (w_step_rt _ _ _ E) as (_ & H & _). exact H.
Qed.

Lemma steps_cfg ls : forall a b, steps a ls = Some b -> c b = c a.
Proof.
  induction ls as [|l ls IH]; intros a b H; [inversion H; reflexivity|].
  unfold steps in H. cbn [steps_v] in H. destruct (step_v current a l) as [a1|] eqn:E; [|discriminate].
  rewrite (IH _ _ H). eapply step_cfg. exact E.
Qed.

Theorem no_lost_wake_reach cf n tg ls s :
  1 <= qcap cf -> targets_ok n tg ->
  steps (init cf n tg) ls = Some s ->
  owed s = true -> stuck s = false.
Proof.
  intros Hq Hok Hs Ho.
  assert (Hc : c s = cf) by (rewrite (steps_cfg _ _ _ Hs); reflexivity).
  apply no_lost_wake; [rewrite Hc; exact Hq|eapply reachable_inv; eauto|exact Ho].
Qed.

Theorem hot_never_sleeps_reach cf n tg ls s :
  targets_ok n tg -> steps (init cf n tg) ls = Some s ->
  at_wait s = true -> hot (e s) <> [] -> stuck s = false.
Proof. intros Hok Hs. apply hot_never_sleeps. eapply reachable_inv; eauto. Qed.
