(* WakeThm.v — invariants of the wake-up LTS (model/Wake.v), proved for every
   reachable state: every interleaving of any number of waker threads with the
   runtime thread and the kernel, every queue capacity >= 1, both notifier
   flavours, block_on and external-loop mode.  Sequential consistency only. *)
From Compio.Model Require Import Base Wake.
From Compio.Gen Require Import Consts.
Local Open Scope nat_scope.

(* ---------------------------------------------------------------------- *)
(* AwakeFlag arithmetic (re-checked against the regenerated constants)     *)

Lemma hn_wake f : has_notified (fl_wake f) = true.
Proof.
  unfold has_notified, fl_wake, AWAKE_NOTIFIED.
  rewrite N.land_lor_distr_l. change (N.land 1 1) with 1%N.
  destruct (N.eqb (N.lor (N.land f 1) 1) 0%N) eqn:E; [|reflexivity].
  apply N.eqb_eq in E. apply N.lor_eq_0_iff in E. destruct E as [_ E]. discriminate E.
Qed.

Lemma hn_idle : has_notified AWAKE_IDLE = false.
Proof. vm_compute. reflexivity. Qed.

Lemma hn_awake : has_notified AWAKE_AWAKE = false.
Proof. vm_compute. reflexivity. Qed.

Lemma idle_is_idle : fl_idle AWAKE_IDLE = true.
Proof. vm_compute. reflexivity. Qed.

Lemma idle_not_notified f : fl_idle f = true -> has_notified f = false.
Proof. unfold fl_idle. intros H. apply N.eqb_eq in H. subst. exact hn_idle. Qed.

Lemma hn_mono f : has_notified f = true -> has_notified (fl_wake f) = true.
Proof. intros _. apply hn_wake. Qed.

(* ---------------------------------------------------------------------- *)
(* guarded list update                                                     *)

Lemma upd_length {A} (l : list A) i x : length (upd l i x) = length l.
Proof.
  unfold upd. destruct (Nat.ltb i (length l)) eqn:E; [|reflexivity].
  apply Nat.ltb_lt in E. rewrite app_length. cbn [length].
  rewrite firstn_length, skipn_length. lia.
Qed.

Lemma nth_error_upd_eq {A} (l : list A) i x :
  i < length l -> nth_error (upd l i x) i = Some x.
Proof.
  intros H. unfold upd. assert (E : Nat.ltb i (length l) = true) by (apply Nat.ltb_lt; exact H).
  rewrite E. rewrite nth_error_app2; rewrite firstn_length; [|lia].
  replace (i - Nat.min i (length l)) with 0 by lia. reflexivity.
Qed.

Lemma nth_error_firstn_lt {A} (l : list A) i j : j < i -> nth_error (firstn i l) j = nth_error l j.
Proof.
  revert i j. induction l as [|a l IH]; intros i j H.
  - destruct i, j; reflexivity.
  - destruct i as [|i]; [lia|]. destruct j as [|j]; [reflexivity|]. cbn. apply IH. lia.
Qed.

Lemma nth_error_skipn_add {A} (l : list A) n k : nth_error (skipn n l) k = nth_error l (n + k).
Proof.
  revert l. induction n as [|n IH]; intros l; [reflexivity|].
  destruct l as [|a l]; [destruct k; reflexivity|]. cbn. apply IH.
Qed.

Lemma nth_error_upd_neq {A} (l : list A) i j x :
  i <> j -> nth_error (upd l i x) j = nth_error l j.
Proof.
  intros H. unfold upd. destruct (Nat.ltb i (length l)) eqn:E; [|reflexivity].
  apply Nat.ltb_lt in E.
  destruct (Nat.lt_ge_cases j i) as [Hlt|Hge].
  - rewrite nth_error_app1; [|rewrite firstn_length; lia].
    apply nth_error_firstn_lt; exact Hlt.
  - rewrite nth_error_app2; rewrite firstn_length; [|lia].
    replace (Nat.min i (length l)) with i by lia.
    destruct (j - i) as [|k] eqn:Ek; [lia|]. cbn [nth_error].
    rewrite nth_error_skipn_add. f_equal. lia.
Qed.

Lemma nth_error_upd_cases {A} (l : list A) i j x y :
  nth_error (upd l i x) j = Some y ->
  (j = i /\ y = x /\ i < length l) \/ (j <> i /\ nth_error l j = Some y).
Proof.
  intros H. destruct (Nat.eq_dec i j) as [->|Hn].
  - destruct (Nat.lt_ge_cases j (length l)) as [Hlt|Hge].
    + rewrite nth_error_upd_eq in H by exact Hlt. inversion H; subst. left. auto.
    + assert (Hx : nth_error (upd l j x) j = None).
      { apply nth_error_None. rewrite upd_length. exact Hge. }
      rewrite Hx in H. discriminate.
  - rewrite nth_error_upd_neq in H by exact Hn. right. split; [intro; subst; auto|exact H].
Qed.

Lemma nth_error_lt {A} (l : list A) i x : nth_error l i = Some x -> i < length l.
Proof. intros H. apply nth_error_Some. rewrite H. discriminate. Qed.

Lemma existsb_nth {A} (f : A -> bool) l i x :
  nth_error l i = Some x -> f x = true -> existsb f l = true.
Proof.
  intros H Hf. apply existsb_exists. exists x. split; [eapply nth_error_In; eauto|exact Hf].
Qed.

Lemma existsb_nth_inv {A} (f : A -> bool) l :
  existsb f l = true -> exists i x, nth_error l i = Some x /\ f x = true.
Proof.
  intros H. apply existsb_exists in H. destruct H as (x & Hin & Hf).
  apply In_nth_error in Hin. destruct Hin as (i & Hi). exists i, x. auto.
Qed.

Lemma existsb_upd_new {A} (f : A -> bool) l i o x :
  nth_error l i = Some o -> f x = true -> existsb f (upd l i x) = true.
Proof.
  intros H Hf. eapply existsb_nth; [|exact Hf].
  apply nth_error_upd_eq. eapply nth_error_lt; eauto.
Qed.

Lemma existsb_upd_keep {A} (f : A -> bool) l i o x :
  nth_error l i = Some o -> existsb f l = true ->
  existsb f (upd l i x) = true \/ f o = true.
Proof.
  intros H He. apply existsb_nth_inv in He. destruct He as (j & y & Hj & Hf).
  destruct (Nat.eq_dec i j) as [->|Hn].
  - rewrite H in Hj. inversion Hj; subst. right. exact Hf.
  - left. eapply existsb_nth; [|exact Hf]. rewrite nth_error_upd_neq by exact Hn. exact Hj.
Qed.

Lemma existsb_upd_inv {A} (f : A -> bool) l i x :
  existsb f (upd l i x) = true -> f x = true \/ existsb f l = true.
Proof.
  intros He. apply existsb_nth_inv in He. destruct He as (j & y & Hj & Hf).
  apply nth_error_upd_cases in Hj. destruct Hj as [(_ & -> & _)|(_ & Hj)].
  - left. exact Hf.
  - right. eapply existsb_nth; eauto.
Qed.

Definition b2n (b : bool) : nat := if b then 1 else 0.

Fixpoint count {A} (f : A -> bool) (l : list A) : nat :=
  match l with [] => 0 | x :: r => b2n (f x) + count f r end.

Lemma count_app {A} (f : A -> bool) l1 l2 : count f (l1 ++ l2) = count f l1 + count f l2.
Proof. induction l1 as [|a l1 IH]; cbn [count app]; [reflexivity|rewrite IH; lia]. Qed.

Lemma count_split {A} (f : A -> bool) l i o :
  nth_error l i = Some o ->
  count f l = count f (firstn i l) + b2n (f o) + count f (skipn (S i) l).
Proof.
  revert i. induction l as [|a l IH]; intros i H.
  - destruct i; discriminate.
  - destruct i as [|i].
    + cbn in H. inversion H; subst. cbn [firstn skipn count]. lia.
    + cbn [nth_error] in H. specialize (IH i H). change (skipn (S (S i)) (a :: l)) with (skipn (S i) l).
      change (firstn (S i) (a :: l)) with (a :: firstn i l). cbn [count]. lia.
Qed.

Lemma count_upd {A} (f : A -> bool) l i o x :
  nth_error l i = Some o ->
  count f (upd l i x) + b2n (f o) = count f l + b2n (f x).
Proof.
  intros H. pose proof (nth_error_lt _ _ _ H) as Hlt.
  unfold upd. assert (E : Nat.ltb i (length l) = true) by (apply Nat.ltb_lt; exact Hlt).
  rewrite E. rewrite count_app. cbn [count]. rewrite (count_split f l i o H). lia.
Qed.

Lemma count_map_same {A} (f : A -> bool) (g : A -> A) l :
  (forall x, f (g x) = f x) -> count f (map g l) = count f l.
Proof. intros H. induction l as [|a l IH]; cbn [map count]; [reflexivity|rewrite H, IH; reflexivity]. Qed.

Lemma nth_error_map_inv {A B} (g : A -> B) l i y :
  nth_error (map g l) i = Some y -> exists x, nth_error l i = Some x /\ y = g x.
Proof.
  revert i. induction l as [|a l IH]; intros i H.
  - destruct i; discriminate.
  - destruct i as [|i]; cbn in H.
    + inversion H; subst. exists a. split; reflexivity.
    + apply IH in H. exact H.
Qed.

Lemma existsb_map_same {A} (f : A -> bool) (g : A -> A) l :
  (forall x, f (g x) = f x) -> existsb f (map g l) = existsb f l.
Proof. intros H. induction l as [|a l IH]; cbn [map existsb]; [reflexivity|rewrite H, IH; reflexivity]. Qed.

Lemma in_make_hot t h : In t (make_hot t h).
Proof.
  unfold make_hot. destruct (existsb (Nat.eqb t) h) eqn:E.
  - apply existsb_exists in E. destruct E as (x & Hin & Hx). apply Nat.eqb_eq in Hx. subst. exact Hin.
  - apply in_or_app. right. left. reflexivity.
Qed.

Lemma in_make_hot_keep t u h : In u h -> In u (make_hot t h).
Proof.
  unfold make_hot. destruct (existsb (Nat.eqb t) h); intros H; [exact H|].
  apply in_or_app. left. exact H.
Qed.

Lemma make_hot_not_nil t h : make_hot t h <> [].
Proof. intros H. pose proof (in_make_hot t h) as Hi. rewrite H in Hi. destruct Hi. Qed.

(* ---------------------------------------------------------------------- *)
(* regions of the runtime thread's program, relative to the point where a
   wake is consumed (the poll of the main future / the pop from the queue)  *)

Inductive region := Pre | Post | Idle.
(* Pre:  the runtime reaches the consumption point without any blocking wait
   Post: past the consumption point, before the reset that precedes the wait
   Idle: between that reset and the return of the wait                       *)

Definition reg_main (s : st) : region :=
  match pc (r s) with
  | RMain0 | RSetAwake1 | RPollEntries | RClear | RSetAwake2 => Pre
  | RMain1 | RDrainLoad | RDrainPop | RDrainSub | RRun | RRunning
  | RFlushArm | RFlushSubmit | RFlushReset => Post
  | RExtWait | RWait => Idle
  | RReset => if ext (c s) then Pre else Post
  | RArm | REnter => if ext (c s) then Pre else Idle
  end.

Definition reg_drain (s : st) : region :=
  match pc (r s) with
  | RMain1 | RDrainLoad | RDrainPop => Pre
  | _ => reg_main s
  end.

Definition ob (g : region) (s : st) : Prop :=
  match g with
  | Pre => True
  | Post => has_notified (flag (d s)) = true
  | Idle => nw (r s) = false \/ has_notified (flag (d s)) = true
  end.

Definition is_write (p : wpc) : bool := match p with WWrite _ => true | _ => false end.
Definition writers (s : st) : bool := existsb (fun w => is_write (wp w)) (wk s).

Definition mid_push (p : wpc) : bool :=
  match p with WSection | WReserve | WPush _ | WFetch KSpin | WWrite KSpin => true | _ => false end.
(* inside the SCHEDULING section it entered itself *)
Definition owner (p : wpc) : bool :=
  match p with
  | WCoal | WReserve | WPush _ | WFetch KSpin | WFetch KPushed | WWrite KSpin | WWrite KPushed
  | WFinish => true
  | _ => false
  end.
Definition reserving (p : wpc) : bool :=
  match p with WPush _ | WFetch KSpin | WWrite KSpin => true | _ => false end.
Definition pushed (p : wpc) : bool :=
  match p with WFetch KPushed | WWrite KPushed | WFinish | WDone => true | _ => false end.
Definition notified_after (p : wpc) : bool :=
  match p with WWrite KPushed | WFinish | WDone => true | _ => false end.
Definition pushing_w (t : nat) (w : wst) : bool :=
  match tgt w with Some t' => Nat.eqb t t' && mid_push (wp w) | None => false end.
Definition pushing (t : nat) (ws : list wst) : bool := existsb (pushing_w t) ws.

Definition main_pc (p : wpc) : bool :=
  match p with WIdle | WFetch KMain | WWrite KMain | WDone => true | _ => false end.
Definition task_pc (p : wpc) : bool :=
  match p with WFetch KMain | WWrite KMain => false | _ => true end.

(* program points at which NEED_PUSH_NOTIFIER may be set *)
Definition np_pc (p : rpc) : bool :=
  match p with
  | RClear | RSetAwake2 | RMain0 | RMain1 | RDrainLoad | RDrainPop | RDrainSub
  | RRun | RRunning | RFlushArm | RReset | RArm => true
  | _ => false
  end.
(* program points between the end of a tick and the wait *)
Definition h_pc (p : rpc) : bool :=
  match p with
  | RReset | RArm | REnter | RWait | RFlushArm | RFlushSubmit | RFlushReset | RExtWait => true
  | _ => false
  end.
Definition ext_pc (p : rpc) : bool :=
  match p with RFlushArm | RFlushSubmit | RFlushReset | RExtWait => true | _ => false end.

Record G1 (s : st) : Prop := mk_g1 {
  i_idle_flag : reg_main s = Idle ->
    fl_idle (flag (d s)) = true \/ has_notified (flag (d s)) = true;
  i_efd : reg_main s = Idle -> has_notified (flag (d s)) = true ->
    0 < efd (d s) \/ writers s = true;
  i_sqarm : sqarm (d s) = true -> pc (r s) = REnter \/ pc (r s) = RFlushSubmit;
  i_need : uring (c s) = true -> need_push (d s) = true -> np_pc (pc (r s)) = true;
  i_todo : todo (r s) <> [] -> pc (r s) = RClear;
  i_arm : uring (c s) = true ->
    karmed (d s) = true \/ sqarm (d s) = true \/ need_push (d s) = true \/
    In CFinal (cq (d s)) \/ In CFinal (todo (r s));
  i_hot : h_pc (pc (r s)) = true -> rem (r s) = false -> hot (e s) = [];
  i_wait : pc (r s) = RWait -> nw (r s) = true /\ rem (r s) = false /\ ext (c s) = false;
  i_ext : ext_pc (pc (r s)) = true -> ext (c s) = true;
  i_drained : drained (r s) <> 0 -> pc (r s) = RDrainPop \/ pc (r s) = RDrainSub
}.

Record G2 (s : st) : Prop := mk_g2 {
  i_main : forall i w, nth_error (wk s) i = Some w -> tgt w = None ->
    main_effective (wp w) = true -> seen w = false -> ob (reg_main s) s;
  i_q : forall t i w, In (t, i) (queue (e s)) -> nth_error (wk s) i = Some w ->
    notified_after (wp w) = true -> ob (reg_drain s) s
}.

Record G3 (s : st) : Prop := mk_g3 {
  i_qmem : forall t i, In (t, i) (queue (e s)) ->
    exists w, nth_error (wk s) i = Some w /\ tgt w = Some t /\ pushed (wp w) = true;
  i_sched : forall t, nth_error (sched (e s)) t = Some true ->
    In t (hot (e s)) \/ (exists i, In (t, i) (queue (e s))) \/ pushing t (wk s) = true;
  i_seen : forall i w t, nth_error (wk s) i = Some w -> tgt w = Some t ->
    task_effective (wp w) = true -> seen w = false -> nth_error (sched (e s)) t = Some true;
  i_pending : pending (e s) =
    length (queue (e s)) + count (fun w => reserving (wp w)) (wk s) + drained (r s);
  i_cap : length (queue (e s)) <= qcap (c s);
  i_section : forall t, nth_error (sching (e s)) t = Some true ->
    exists i w, nth_error (wk s) i = Some w /\ tgt w = Some t /\ owner (wp w) = true;
  i_lens : length (sching (e s)) = length (sched (e s));
  i_shape : forall i w, nth_error (wk s) i = Some w ->
    match tgt w with
    | None => main_pc (wp w) = true
    | Some t => task_pc (wp w) = true /\ t < length (sched (e s))
    end
}.

Record Inv (s : st) : Prop := mk_inv { i_g1 : G1 s; i_g2 : G2 s; i_g3 : G3 s }.

Arguments has_notified : simpl never.
Arguments fl_wake : simpl never.
Arguments fl_idle : simpl never.

Lemma nth_error_init_wk tg i w :
  nth_error (map (fun tg => mk_w tg WIdle false) tg) i = Some w -> wp w = WIdle.
Proof.
  intros H. apply nth_error_map_inv in H. destruct H as (x & _ & ->). reflexivity.
Qed.

Lemma count_init tg : count (fun w => reserving (wp w)) (map (fun tg => mk_w tg WIdle false) tg) = 0.
Proof. induction tg as [|a l IH]; cbn; [reflexivity|exact IH]. Qed.

Lemma nth_error_repeat_false n t : nth_error (repeat false n) t = Some true -> False.
Proof.
  revert t. induction n as [|n IH]; intros t H; [destruct t; discriminate|].
  destruct t as [|t]; cbn in H; [discriminate|eauto].
Qed.

(* threads of the initial state must name existing tasks *)
Definition targets_ok (ntasks : nat) (tg : list (option nat)) : Prop :=
  forall t, In (Some t) tg -> t < ntasks.

Lemma init_inv cf n tg : targets_ok n tg -> Inv (init cf n tg).
Proof.
  intros Hok. constructor; constructor; cbn; intros; try discriminate; try tauto; try lia;
    try match goal with
        | H : nth_error (repeat false _) _ = Some true |- _ =>
          exfalso; eapply nth_error_repeat_false; exact H
        | H : nth_error (map _ _) _ = Some ?w, H1 : _ (wp ?w) = true |- _ =>
          apply nth_error_init_wk in H; rewrite H in H1; discriminate
        end.
  - rewrite count_init. reflexivity.
  - pose proof H as H'. apply nth_error_map_inv in H'. destruct H' as (x & Hx & ->). cbn.
    destruct x as [t|]; [|reflexivity]. split; [reflexivity|].
    rewrite repeat_length. apply Hok. eapply nth_error_In; eauto.
Qed.

(* ---------------------------------------------------------------------- *)
(* preservation                                                            *)

Ltac dst s :=
  destruct s as [[ur ex qc mx] [fl ef ka sq np cq0] [qu pe sc sg ho] [p nw0 rm td dr bu] ws].

Ltac dg1 H :=
  destruct H as [I_idle I_efd I_sqarm I_need I_todo I_arm I_hot I_wait I_ext I_drained].
Ltac dg2 H := destruct H as [I_main I_q].
Ltac dg3 H := destruct H as [I_qmem I_sched I_seen I_pending I_cap I_section I_lens I_shape].

Ltac red_all :=
  cbn [c d e r wk uring ext qcap maxi flag efd karmed sqarm need_push cq queue pending sched sching
       hot pc nw rem todo drained budget
       d_flag d_efd d_karmed d_sqarm d_need d_cq e_queue e_pending e_sched e_sching e_hot
       r_pc r_nw r_rem r_todo r_drained r_budget s_d s_e s_r s_wk goto
       reg_main reg_drain ob writers] in *.

Lemma in_app_l {A} (x : A) l1 l2 : In x l1 -> In x (l1 ++ l2).
Proof. intros H. apply in_or_app. left. exact H. Qed.

(* frame lemmas: a step that leaves a part of the state alone keeps the
   invariants that only speak about that part *)
Lemma g3_frame s s' :
  c s' = c s -> e s' = e s -> wk s' = wk s -> drained (r s') = drained (r s) -> G3 s -> G3 s'.
Proof.
  intros Hc He Hw Hd H. dg3 H.
  constructor; rewrite ?Hc, ?He, ?Hw, ?Hd; assumption.
Qed.

Lemma g2_frame s s' :
  wk s' = wk s -> queue (e s') = queue (e s) ->
  (ob (reg_main s) s -> ob (reg_main s') s') ->
  (ob (reg_drain s) s -> ob (reg_drain s') s') ->
  G2 s -> G2 s'.
Proof.
  intros Hw Hq Hm Hd H. dg2 H.
  constructor; rewrite ?Hw, ?Hq; intros; [apply Hm|apply Hd]; eauto.
Qed.

Ltac inv_some H := inversion H; subst; clear H.

Lemma inv_kernel s l s' :
  (l = LKNotify \/ l = LKOther \/ l = LKTerm) -> Inv s -> step s l = Some s' -> Inv s'.
Proof.
  intros Hl [H1 H2 H3] Hs.
  assert (Hshape : exists cq' ka', s' = s_d (d_cq cq' (d_karmed ka' (d s))) s /\
            (uring (c s) = true -> karmed (d s) = true \/ In CFinal (cq (d s)) ->
             ka' = true \/ In CFinal cq')).
  { dst s. unfold step, step_v in Hs. red_all.
    destruct Hl as [->|[->| ->]].
    - destruct (ur && ka && Nat.ltb 0 ef); [|discriminate]. inv_some Hs.
      exists (cq0 ++ [CNotify]), ka. split; [reflexivity|]. intros _ [H|H]; auto using in_app_l.
    - inv_some Hs. exists (cq0 ++ [COther]), ka. split; [reflexivity|].
      intros _ [H|H]; auto using in_app_l.
    - destruct (ur && ka); [|discriminate]. inv_some Hs.
      exists (cq0 ++ [CFinal]), false. split; [reflexivity|]. intros _ _. right.
      apply in_or_app. right. left. reflexivity. }
  destruct Hshape as (cq' & ka' & -> & Harm).
  constructor.
  - dg1 H1. dst s. red_all. constructor; red_all; auto.
    intros Hu. specialize (I_arm Hu). specialize (Harm Hu). tauto.
  - apply (g2_frame s); [reflexivity|reflexivity| | |exact H2]; intros H; dst s; exact H.
  - apply (g3_frame s); [reflexivity|reflexivity|reflexivity|reflexivity|exact H3].
Qed.

(* ---------------------------------------------------------------------- *)
(* steps of the runtime thread                                              *)

Lemma writers_map g ws :
  (forall w, wp (g w) = wp w) ->
  existsb (fun w => is_write (wp w)) (map g ws) = existsb (fun w => is_write (wp w)) ws.
Proof. intros H. apply existsb_map_same. intros x. rewrite H. reflexivity. Qed.

Lemma consume_main_wp w : wp (consume_main w) = wp w.
Proof. unfold consume_main. destruct (tgt w); [reflexivity|]. destruct (main_effective (wp w)); reflexivity. Qed.
Lemma consume_task_wp t w : wp (consume_task t w) = wp w.
Proof. unfold consume_task. destruct (tgt w); [|reflexivity]. destruct (_ && _); reflexivity. Qed.

Ltac split_hs Hs :=
  repeat match type of Hs with
         | context [if ?b then _ else _] => destruct b eqn:?
         | context [match ?x with _ => _ end] => destruct x eqn:?
         end.

(* case analysis of one step of the runtime thread *)
Ltac rt_cases Hs :=
  unfold rt_step in Hs; red_all;
  try match goal with p : rpc |- _ => destruct p end;
  unfold arm, submit, return_ok, do_reset, apply_cqe, ready, current in Hs; red_all;
  cbn [v_flush_arms isnil] in Hs; split_hs Hs; try discriminate; inv_some Hs;
  red_all; cbn [np_pc h_pc ext_pc isnil negb] in *.

Ltac lfin :=
  intros;
  repeat match goal with
         | H : _ /\ _ |- _ => destruct H
         | H : ?a = ?a -> _ |- _ => specialize (H eq_refl)
         end;
  rewrite ?hn_idle, ?hn_awake, ?idle_is_idle, ?andb_false_r, ?andb_true_r, ?orb_false_r, ?orb_true_r in *;
  repeat match goal with
         | H : _ && _ = true |- _ => apply andb_prop in H; destruct H
         | H : negb (isnil ?h) = false |- _ => destruct h; [clear H|discriminate H]
         | H : negb ?x = true |- _ => destruct x; [discriminate H|clear H]
         | H : negb ?x = false |- _ => destruct x; [clear H|discriminate H]
         end;
  try discriminate; try congruence; auto;
  try solve [intuition (try discriminate; try congruence; auto)].

Lemma g1_rt_idle_flag s s' :
  (reg_main s = Idle -> fl_idle (flag (d s)) = true \/ has_notified (flag (d s)) = true) ->
  rt_step current s = Some s' ->
  (reg_main s' = Idle -> fl_idle (flag (d s')) = true \/ has_notified (flag (d s')) = true).
Proof.
  intros H Hs. dst s. destruct ex; rt_cases Hs; lfin.
Qed.

Lemma g1_rt_efd s s' :
  (reg_main s = Idle -> has_notified (flag (d s)) = true -> 0 < efd (d s) \/ writers s = true) ->
  rt_step current s = Some s' ->
  (reg_main s' = Idle -> has_notified (flag (d s')) = true -> 0 < efd (d s') \/ writers s' = true).
Proof.
  intros H Hs. dst s. destruct ex; rt_cases Hs; lfin.
Qed.

Lemma g1_rt_sqarm s s' :
  (sqarm (d s) = true -> pc (r s) = REnter \/ pc (r s) = RFlushSubmit) ->
  rt_step current s = Some s' ->
  (sqarm (d s') = true -> pc (r s') = REnter \/ pc (r s') = RFlushSubmit).
Proof.
  intros H Hs. dst s. destruct ex, ur; rt_cases Hs; lfin.
Qed.

Lemma g1_rt_need s s' :
  (uring (c s) = true -> need_push (d s) = true -> np_pc (pc (r s)) = true) ->
  rt_step current s = Some s' ->
  (uring (c s') = true -> need_push (d s') = true -> np_pc (pc (r s')) = true).
Proof.
  intros H Hs. dst s. destruct ex, ur; rt_cases Hs; lfin.
Qed.

Lemma g1_rt_todo s s' :
  (todo (r s) <> [] -> pc (r s) = RClear) ->
  rt_step current s = Some s' ->
  (todo (r s') <> [] -> pc (r s') = RClear).
Proof.
  intros H Hs. dst s. destruct ex, ur; rt_cases Hs; lfin.
Qed.

Lemma g1_rt_hot s s' :
  (h_pc (pc (r s)) = true -> rem (r s) = false -> hot (e s) = []) ->
  rt_step current s = Some s' ->
  (h_pc (pc (r s')) = true -> rem (r s') = false -> hot (e s') = []).
Proof.
  intros H Hs. dst s. destruct ex, ur; rt_cases Hs; lfin.
Qed.

Lemma g1_rt_ext s s' :
  (ext_pc (pc (r s)) = true -> ext (c s) = true) ->
  rt_step current s = Some s' ->
  (ext_pc (pc (r s')) = true -> ext (c s') = true).
Proof.
  intros H Hs. dst s. destruct ex, ur; rt_cases Hs; lfin.
Qed.

Lemma g1_rt_drained s s' :
  (drained (r s) <> 0 -> pc (r s) = RDrainPop \/ pc (r s) = RDrainSub) ->
  rt_step current s = Some s' ->
  (drained (r s') <> 0 -> pc (r s') = RDrainPop \/ pc (r s') = RDrainSub).
Proof.
  intros H Hs. dst s. destruct ex, ur; rt_cases Hs; lfin.
Qed.

Lemma g1_rt_arm s s' :
  (todo (r s) <> [] -> pc (r s) = RClear) ->
  (uring (c s) = true ->
    karmed (d s) = true \/ sqarm (d s) = true \/ need_push (d s) = true \/
    In CFinal (cq (d s)) \/ In CFinal (todo (r s))) ->
  rt_step current s = Some s' ->
  (uring (c s') = true ->
    karmed (d s') = true \/ sqarm (d s') = true \/ need_push (d s') = true \/
    In CFinal (cq (d s')) \/ In CFinal (todo (r s'))).
Proof.
  intros Ht H Hs. dst s. destruct ur; [|rt_cases Hs; intros; discriminate].
  specialize (H eq_refl). red_all.
  destruct ex; rt_cases Hs; intros _; try exact H; auto 6;
    try (assert (Etd : td = []) by (destruct td as [|x0 td0]; [reflexivity|]; exfalso;
           assert (X : x0 :: td0 <> []) by discriminate; specialize (Ht X); discriminate); subst td);
    repeat match goal with b : bool |- _ => destruct b end;
    cbn [orb In] in *; intuition (try discriminate; auto).
Qed.

Lemma g1_rt_wait s s' :
  (pc (r s) = RWait -> nw (r s) = true /\ rem (r s) = false /\ ext (c s) = false) ->
  rt_step current s = Some s' ->
  (pc (r s') = RWait -> nw (r s') = true /\ rem (r s') = false /\ ext (c s') = false).
Proof.
  intros H Hs. dst s. destruct ex, ur, nw0, rm; rt_cases Hs; lfin.
Qed.

Lemma consume_main_tgt w : tgt (consume_main w) = tgt w.
Proof. unfold consume_main. destruct (tgt w) eqn:E; [exact E|]. destruct (main_effective (wp w)); cbn [tgt w_seen]; exact E. Qed.
Lemma consume_task_tgt t w : tgt (consume_task t w) = tgt w.
Proof. unfold consume_task. destruct (tgt w) eqn:E; [|exact E]. destruct (_ && _); cbn [tgt w_seen]; exact E. Qed.

Ltac obfin X :=
  red_all; cbn [negb] in *;
  try exact I; try exact X;
  try (rewrite X; cbn [negb]; auto; fail);
  try (destruct X as [X|X]; [left; exact X|right; exact X]; fail);
  try (destruct X as [X|X]; rewrite ?X; cbn [negb]; auto; fail);
  lfin.

Lemma consume_main_seen w :
  tgt w = None -> main_effective (wp w) = true -> seen (consume_main w) = true.
Proof. intros Ht He. unfold consume_main. rewrite Ht, He. reflexivity. Qed.
Lemma consume_task_none t w : tgt w = None -> consume_task t w = w.
Proof. intros Ht. unfold consume_task. rewrite Ht. reflexivity. Qed.

Ltac g2_generic I_main I_q :=
  constructor; red_all;
  [ intros i w Hn Ht He Hse; pose proof (I_main i w Hn Ht He Hse) as X; obfin X
  | intros t i w Hin Hn He; pose proof (I_q t i w Hin Hn He) as X; obfin X ].

Lemma g2_rt s s' : G1 s -> G3 s -> G2 s -> rt_step current s = Some s' -> G2 s'.
Proof.
  intros H1 H3 H2 Hs. dg2 H2. pose proof (i_pending _ H3) as Hpend. clear H3.
  pose proof (i_ext _ H1) as Hext. clear H1.
  dst s. red_all.
  destruct p eqn:Ep; try (
    destruct ex, ur; rt_cases Hs; (g2_generic I_main I_q); fail).
  - (* RMain0: the main future is polled *)
    rt_cases Hs. constructor; red_all; [|intros; exact I].
    intros i w Hn Ht He Hse. exfalso.
    apply nth_error_map_inv in Hn. destruct Hn as (w0 & Hn0 & ->).
    rewrite consume_main_tgt in Ht. rewrite consume_main_wp in He.
    rewrite (consume_main_seen w0 Ht He) in Hse. discriminate.
  - (* RDrainLoad *)
    unfold rt_step in Hs. red_all. destruct (Nat.eqb pe 0) eqn:E.
    + apply Nat.eqb_eq in E. subst pe. destruct qu as [|x qu]; [|cbn in Hpend; lia].
      inv_some Hs. constructor; red_all.
      * intros i w Hn Ht He Hse. pose proof (I_main i w Hn Ht He Hse) as X. exact X.
      * intros t i w Hin. destruct Hin.
    + inv_some Hs. g2_generic I_main I_q.
  - (* RDrainPop *)
    unfold rt_step in Hs. red_all. destruct qu as [|[t0 i0] q]; inv_some Hs; constructor; red_all.
    + intros i w Hn Ht He Hse. exact (I_main i w Hn Ht He Hse).
    + intros t i w Hin. destruct Hin.
    + intros i w Hn Ht He Hse. exact (I_main i w Hn Ht He Hse).
    + intros t i w Hin Hn He. exact (I_q t i w (or_intror Hin) Hn He).
  - (* RRun *)
    unfold rt_step in Hs. red_all. destruct bu as [|b]; [|destruct ho as [|t0 h]].
    + inv_some Hs. destruct ex; g2_generic I_main I_q.
    + inv_some Hs. destruct ex; g2_generic I_main I_q.
    + inv_some Hs. constructor; red_all.
      * intros i w Hn Ht He Hse.
        apply nth_error_map_inv in Hn. destruct Hn as (w0 & Hn0 & ->).
        rewrite consume_task_tgt in Ht. rewrite (consume_task_none _ _ Ht) in *.
        exact (I_main i w0 Hn0 Ht He Hse).
      * intros t i w Hin Hn He.
        apply nth_error_map_inv in Hn. destruct Hn as (w0 & Hn0 & ->).
        rewrite consume_task_wp in He. exact (I_q t i w0 Hin Hn0 He).
Qed.

Lemma consume_main_some w t : tgt w = Some t -> consume_main w = w.
Proof. intros H. unfold consume_main. rewrite H. reflexivity. Qed.

Lemma pushing_map t g ws :
  (forall w, wp (g w) = wp w) -> (forall w, tgt (g w) = tgt w) ->
  pushing t (map g ws) = pushing t ws.
Proof.
  intros Hw Ht. unfold pushing. apply existsb_map_same. intros x. unfold pushing_w.
  rewrite Ht, Hw. reflexivity.
Qed.

Lemma count_res_map g ws :
  (forall w, wp (g w) = wp w) ->
  count (fun w => reserving (wp w)) (map g ws) = count (fun w => reserving (wp w)) ws.
Proof. intros H. apply count_map_same. intros x. rewrite H. reflexivity. Qed.

Lemma nth_error_map_some {A B} (g : A -> B) l i x :
  nth_error l i = Some x -> nth_error (map g l) i = Some (g x).
Proof. intros H. apply map_nth_error. exact H. Qed.

(* G3 is insensitive to the ghost [seen] except through i_seen *)
Lemma g3_map_wk s g :
  (forall w, wp (g w) = wp w) -> (forall w, tgt (g w) = tgt w) ->
  (forall i w t, nth_error (wk s) i = Some w -> tgt w = Some t ->
     task_effective (wp w) = true -> seen (g w) = false -> seen w = false) ->
  G3 s -> G3 (s_wk (map g (wk s)) s).
Proof.
  intros Hw Ht Hse H. dg3 H. dst s. red_all.
  constructor; red_all.
  - intros t i Hin. destruct (I_qmem t i Hin) as (w & Hn & Htg & Hp).
    exists (g w). rewrite Hw, Ht. split; [apply nth_error_map_some; exact Hn|auto].
  - intros t Hs. rewrite pushing_map by assumption. apply I_sched. exact Hs.
  - intros i w t Hn Htg He Hsn.
    apply nth_error_map_inv in Hn. destruct Hn as (w0 & Hn0 & ->).
    rewrite Ht in Htg. rewrite Hw in He. eapply I_seen; eauto.
  - rewrite count_res_map by assumption. exact I_pending.
  - exact I_cap.
  - intros t Hs. destruct (I_section t Hs) as (i & w & Hn & Htg & Ho).
    exists i, (g w). rewrite Hw, Ht. split; [apply nth_error_map_some; exact Hn|auto].
  - exact I_lens.
  - intros i w Hn. apply nth_error_map_inv in Hn. destruct Hn as (w0 & Hn0 & ->).
    rewrite Ht, Hw. apply (I_shape i w0 Hn0).
Qed.

Lemma consume_task_seen t w :
  tgt w = Some t -> task_effective (wp w) = true -> seen (consume_task t w) = true.
Proof. intros Ht He. unfold consume_task. rewrite Ht, He, Nat.eqb_refl. reflexivity. Qed.

Lemma consume_task_seen_mono t w : seen (consume_task t w) = false -> seen w = false.
Proof.
  unfold consume_task. destruct (tgt w); [|auto]. destruct (_ && _); cbn; [discriminate|auto].
Qed.
Lemma consume_main_seen_mono w : seen (consume_main w) = false -> seen w = false.
Proof.
  unfold consume_main. destruct (tgt w); [auto|]. destruct (main_effective _); cbn; [discriminate|auto].
Qed.

Lemma g3_rt s s' : G1 s -> G3 s -> rt_step current s = Some s' -> G3 s'.
Proof.
  intros H1 H3 Hs. pose proof (i_drained _ H1) as Hdr. clear H1.
  destruct (pc (r s)) eqn:Ep.
  all: try (dst s; red_all; subst p; rt_cases Hs;
            (eapply g3_frame; [| | | |exact H3]; reflexivity); fail).
  - (* RMain0 *)
    dst s. red_all. subst p. rt_cases Hs.
    apply (g3_frame (s_wk (map consume_main ws)
             (mk_st (mk_cfg ur ex qc mx) (mk_drv fl ef ka sq np cq0) (mk_exe qu pe sc sg ho)
                    (mk_rt RMain0 nw0 rm td dr bu) ws))); try reflexivity.
    apply g3_map_wk; [apply consume_main_wp|apply consume_main_tgt| |exact H3].
    intros i w t _ _ _. apply consume_main_seen_mono.
  - (* RDrainLoad *)
    dst s. red_all. subst p.
    assert (dr = 0) as ->.
    { destruct dr; [reflexivity|]. destruct (Hdr ltac:(discriminate)); discriminate. }
    rt_cases Hs; (eapply g3_frame; [| | | |exact H3]; reflexivity).
  - (* RDrainPop *)
    dg3 H3. dst s. red_all. subst p. unfold rt_step in Hs. red_all.
    destruct qu as [|[t0 i0] q]; inv_some Hs.
    + constructor; red_all; auto.
    + constructor; red_all; auto.
      * intros t i Hin. apply I_qmem. right. exact Hin.
      * intros t Hs. destruct (I_sched t Hs) as [Hh|[(i & [Hi|Hi])|Hp]].
        -- left. apply in_make_hot_keep. exact Hh.
        -- inversion Hi; subst. left. apply in_make_hot.
        -- right. left. exists i. exact Hi.
        -- right. right. exact Hp.
      * cbn [length] in *. lia.
      * cbn [length] in *. lia.
  - (* RDrainSub *)
    dg3 H3. dst s. red_all. subst p. rt_cases Hs. constructor; red_all; auto. lia.
  - (* RRun *)
    dst s. red_all. subst p. unfold rt_step in Hs. red_all.
    destruct bu as [|b]; [|destruct ho as [|t0 h]];
      try (inv_some Hs; (eapply g3_frame; [| | | |exact H3]; reflexivity); fail).
    inv_some Hs.
    pose proof (g3_map_wk _ (consume_task t0) (consume_task_wp t0) (consume_task_tgt t0)
                  (fun i w t _ _ _ => consume_task_seen_mono t0 w) H3) as H3'.
    red_all. dg3 H3'. red_all. constructor; red_all; auto.
    + intros t Hs.
      assert (Hne : t <> t0).
      { intros ->. destruct (Nat.lt_ge_cases t0 (length sc)) as [Hl|Hl].
        - rewrite nth_error_upd_eq in Hs by exact Hl. discriminate.
        - unfold upd in Hs. assert (E : Nat.ltb t0 (length sc) = false) by (apply Nat.ltb_ge; exact Hl).
          rewrite E in Hs. apply nth_error_lt in Hs. lia. }
      rewrite nth_error_upd_neq in Hs by (intro; apply Hne; auto).
      destruct (I_sched t Hs) as [[Hh|Hh]|Hr]; [exfalso; auto|left; exact Hh|right; exact Hr].
    + intros i w t Hn Htg He Hsn.
      assert (Hne : t <> t0).
      { intros ->. apply nth_error_map_inv in Hn. destruct Hn as (w0 & Hn0 & ->).
        rewrite consume_task_tgt in Htg. rewrite consume_task_wp in He.
        rewrite (consume_task_seen t0 w0 Htg He) in Hsn. discriminate. }
      rewrite nth_error_upd_neq by (intro; apply Hne; auto).
      eapply I_seen; eauto.
    + rewrite upd_length. exact I_lens.
    + intros i w Hn. specialize (I_shape i w Hn). rewrite upd_length. exact I_shape.
Qed.

Lemma g1_rt s s' : G1 s -> rt_step current s = Some s' -> G1 s'.
Proof.
  intros H Hs. dg1 H. constructor.
  - eapply g1_rt_idle_flag; eauto.
  - eapply g1_rt_efd; eauto.
  - eapply g1_rt_sqarm; eauto.
  - eapply g1_rt_need; eauto.
  - eapply g1_rt_todo; eauto.
  - eapply g1_rt_arm; eauto.
  - eapply g1_rt_hot; eauto.
  - eapply g1_rt_wait; eauto.
  - eapply g1_rt_ext; eauto.
  - eapply g1_rt_drained; eauto.
Qed.

Lemma inv_rt s s' : Inv s -> rt_step current s = Some s' -> Inv s'.
Proof.
  intros [H1 H2 H3] Hs. constructor.
  - eapply g1_rt; eauto.
  - eapply g2_rt; eauto.
  - eapply g3_rt; eauto.
Qed.

Lemma inv_timeout s s' : Inv s -> rt_timeout s = Some s' -> Inv s'.
Proof.
  intros [H1 H2 H3] Hs.
  pose proof (i_ext _ H1) as Hext.
  assert (Hf : c s' = c s /\ e s' = e s /\ wk s' = wk s /\ drained (r s') = drained (r s)).
  { dst s. unfold rt_timeout, return_ok in Hs. red_all.
    destruct p; try discriminate; destruct ur; inv_some Hs; red_all; auto. }
  destruct Hf as (Hc0 & He0 & Hw0 & Hd0).
  constructor.
  - dg1 H1. dst s. unfold rt_timeout, return_ok in Hs. red_all.
    destruct p; try discriminate; destruct ur, ex; inv_some Hs; constructor; red_all;
      cbn [np_pc h_pc ext_pc] in *; lfin.
  - dg2 H2. dst s. unfold rt_timeout, return_ok in Hs. red_all.
    destruct p; try discriminate; destruct ur, ex; inv_some Hs;
      cbn [ext_pc] in Hext; try (specialize (Hext eq_refl); discriminate);
      g2_generic I_main I_q.
  - eapply g3_frame; eauto.
Qed.

Lemma inv_skip s s' : Inv s -> step s LSkip = Some s' -> Inv s'.
Proof.
  intros [H1 H2 H3] Hs. unfold step, step_v in Hs.
  constructor.
  - dg1 H1. dst s. red_all. destruct p; try discriminate. destruct ur; [discriminate|].
    inv_some Hs. constructor; red_all; cbn [np_pc h_pc ext_pc] in *; lfin.
  - dg2 H2. dst s. red_all. destruct p; try discriminate. destruct ur; [discriminate|].
    inv_some Hs. destruct ex; g2_generic I_main I_q.
  - dst s. red_all. destruct p; try discriminate. destruct ur; [discriminate|].
    inv_some Hs. eapply g3_frame; [| | | |exact H3]; reflexivity.
Qed.

Lemma inv_local s t s' : Inv s -> rt_local t s = Some s' -> Inv s'.
Proof.
  intros [H1 H2 H3] Hs. unfold rt_local, local_notify in Hs.
  constructor.
  - dg1 H1. dst s. red_all.
    destruct p; try discriminate; destruct (Nat.ltb t (length sc)); try discriminate;
      destruct (fl_idle fl); inv_some Hs; constructor; red_all; cbn [np_pc h_pc ext_pc] in *; lfin.
  - dg2 H2. dst s. red_all.
    destruct p; try discriminate; destruct (Nat.ltb t (length sc)); try discriminate;
      destruct (fl_idle fl); inv_some Hs; constructor; red_all; intros; try exact I; apply hn_wake.
  - dg3 H3. dst s. red_all.
    destruct p; try discriminate; destruct (Nat.ltb t (length sc)); try discriminate;
      destruct (fl_idle fl); inv_some Hs; constructor; red_all; auto;
      intros t' Hs; destruct (I_sched t' Hs) as [Hh|Hr]; auto using in_make_hot_keep.
Qed.
