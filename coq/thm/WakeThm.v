(* WakeThm.v — invariants of the wake-up LTS (model/Wake.v), proved for every
   reachable state: every interleaving of any number of waker threads with the
   runtime thread and the kernel, every queue capacity >= 1, both notifier
   flavours, block_on and external-loop mode.  Sequential consistency only. *)
From Compio.Model Require Import Base Wake.
From Compio.Gen Require Import Consts.
Local Open Scope nat_scope.

(* ---------------------------------------------------------------------- *)
(* AwakeFlag arithmetic (re-checked against the regenerated constants)     *)

Lemma hn_wake f : has_notified (fl_wake f) = true.
Proof.
  unfold has_notified, fl_wake, AWAKE_NOTIFIED.
  rewrite N.land_lor_distr_l. change (N.land 1 1) with 1%N.
  destruct (N.eqb (N.lor (N.land f 1) 1) 0%N) eqn:E; [|reflexivity].
  apply N.eqb_eq in E. apply N.lor_eq_0_iff in E. destruct E as [_ E]. discriminate E.
Qed.

Lemma hn_idle : has_notified AWAKE_IDLE = false.
Proof. vm_compute. reflexivity. Qed.

Lemma hn_awake : has_notified AWAKE_AWAKE = false.
Proof. vm_compute. reflexivity. Qed.

Lemma idle_is_idle : fl_idle AWAKE_IDLE = true.
Proof. vm_compute. reflexivity. Qed.

Lemma idle_not_notified f : fl_idle f = true -> has_notified f = false.
Proof. unfold fl_idle. intros H. apply N.eqb_eq in H. subst. exact hn_idle. Qed.

Lemma hn_mono f : has_notified f = true -> has_notified (fl_wake f) = true.
Proof. intros _. apply hn_wake. Qed.

(* ---------------------------------------------------------------------- *)
(* guarded list update                                                     *)

Lemma upd_length {A} (l : list A) i x : length (upd l i x) = length l.
Proof.
  unfold upd. destruct (Nat.ltb i (length l)) eqn:E; [|reflexivity].
  apply Nat.ltb_lt in E. rewrite app_length. cbn [length].
  rewrite firstn_length, skipn_length. lia.
Qed.

Lemma nth_error_upd_eq {A} (l : list A) i x :
  i < length l -> nth_error (upd l i x) i = Some x.
Proof.
  intros H. unfold upd. assert (E : Nat.ltb i (length l) = true) by (apply Nat.ltb_lt; exact H).
  rewrite E. rewrite nth_error_app2; rewrite firstn_length; [|lia].
  replace (i - Nat.min i (length l)) with 0 by lia. reflexivity.
Qed.

Lemma nth_error_firstn_lt {A} (l : list A) i j : j < i -> nth_error (firstn i l) j = nth_error l j.
Proof.
  revert i j. induction l as [|a l IH]; intros i j H.
  - destruct i, j; reflexivity.
  - destruct i as [|i]; [lia|]. destruct j as [|j]; [reflexivity|]. cbn. apply IH. lia.
Qed.

Lemma nth_error_skipn_add {A} (l : list A) n k : nth_error (skipn n l) k = nth_error l (n + k).
Proof.
  revert l. induction n as [|n IH]; intros l; [reflexivity|].
  destruct l as [|a l]; [destruct k; reflexivity|]. cbn. apply IH.
Qed.

Lemma nth_error_upd_neq {A} (l : list A) i j x :
  i <> j -> nth_error (upd l i x) j = nth_error l j.
Proof.
  intros H. unfold upd. destruct (Nat.ltb i (length l)) eqn:E; [|reflexivity].
  apply Nat.ltb_lt in E.
  destruct (Nat.lt_ge_cases j i) as [Hlt|Hge].
  - rewrite nth_error_app1; [|rewrite firstn_length; lia].
    apply nth_error_firstn_lt; exact Hlt.
  - rewrite nth_error_app2; rewrite firstn_length; [|lia].
    replace (Nat.min i (length l)) with i by lia.
    destruct (j - i) as [|k] eqn:Ek; [lia|]. cbn [nth_error].
    rewrite nth_error_skipn_add. f_equal. lia.
Qed.

Lemma nth_error_upd_cases {A} (l : list A) i j x y :
  nth_error (upd l i x) j = Some y ->
  (j = i /\ y = x /\ i < length l) \/ (j <> i /\ nth_error l j = Some y).
Proof.
  intros H. destruct (Nat.eq_dec i j) as [->|Hn].
  - destruct (Nat.lt_ge_cases j (length l)) as [Hlt|Hge].
    + rewrite nth_error_upd_eq in H by exact Hlt. inversion H; subst. left. auto.
    + assert (Hx : nth_error (upd l j x) j = None).
      { apply nth_error_None. rewrite upd_length. exact Hge. }
      rewrite Hx in H. discriminate.
  - rewrite nth_error_upd_neq in H by exact Hn. right. split; [intro; subst; auto|exact H].
Qed.

Lemma nth_error_lt {A} (l : list A) i x : nth_error l i = Some x -> i < length l.
Proof. intros H. apply nth_error_Some. rewrite H. discriminate. Qed.

Lemma existsb_nth {A} (f : A -> bool) l i x :
  nth_error l i = Some x -> f x = true -> existsb f l = true.
Proof.
  intros H Hf. apply existsb_exists. exists x. split; [eapply nth_error_In; eauto|exact Hf].
Qed.

Lemma existsb_nth_inv {A} (f : A -> bool) l :
  existsb f l = true -> exists i x, nth_error l i = Some x /\ f x = true.
Proof.
  intros H. apply existsb_exists in H. destruct H as (x & Hin & Hf).
  apply In_nth_error in Hin. destruct Hin as (i & Hi). exists i, x. auto.
Qed.

Lemma existsb_upd_new {A} (f : A -> bool) l i o x :
  nth_error l i = Some o -> f x = true -> existsb f (upd l i x) = true.
Proof.
  intros H Hf. eapply existsb_nth; [|exact Hf].
  apply nth_error_upd_eq. eapply nth_error_lt; eauto.
Qed.

Lemma existsb_upd_keep {A} (f : A -> bool) l i o x :
  nth_error l i = Some o -> existsb f l = true ->
  existsb f (upd l i x) = true \/ f o = true.
Proof.
  intros H He. apply existsb_nth_inv in He. destruct He as (j & y & Hj & Hf).
  destruct (Nat.eq_dec i j) as [->|Hn].
  - rewrite H in Hj. inversion Hj; subst. right. exact Hf.
  - left. eapply existsb_nth; [|exact Hf]. rewrite nth_error_upd_neq by exact Hn. exact Hj.
Qed.

Lemma existsb_upd_inv {A} (f : A -> bool) l i x :
  existsb f (upd l i x) = true -> f x = true \/ existsb f l = true.
Proof.
  intros He. apply existsb_nth_inv in He. destruct He as (j & y & Hj & Hf).
  apply nth_error_upd_cases in Hj. destruct Hj as [(_ & -> & _)|(_ & Hj)].
  - left. exact Hf.
  - right. eapply existsb_nth; eauto.
Qed.

Definition b2n (b : bool) : nat := if b then 1 else 0.

Fixpoint count {A} (f : A -> bool) (l : list A) : nat :=
  match l with [] => 0 | x :: r => b2n (f x) + count f r end.

Lemma count_app {A} (f : A -> bool) l1 l2 : count f (l1 ++ l2) = count f l1 + count f l2.
Proof. induction l1 as [|a l1 IH]; cbn [count app]; [reflexivity|rewrite IH; lia]. Qed.

Lemma count_split {A} (f : A -> bool) l i o :
  nth_error l i = Some o ->
  count f l = count f (firstn i l) + b2n (f o) + count f (skipn (S i) l).
Proof.
  revert i. induction l as [|a l IH]; intros i H.
  - destruct i; discriminate.
  - destruct i as [|i].
    + cbn in H. inversion H; subst. cbn [firstn skipn count]. lia.
    + cbn [nth_error] in H. cbn [firstn skipn count]. rewrite (IH i H). lia.
Qed.

Lemma count_upd {A} (f : A -> bool) l i o x :
  nth_error l i = Some o ->
  count f (upd l i x) + b2n (f o) = count f l + b2n (f x).
Proof.
  intros H. pose proof (nth_error_lt _ _ _ H) as Hlt.
  unfold upd. assert (E : Nat.ltb i (length l) = true) by (apply Nat.ltb_lt; exact Hlt).
  rewrite E. rewrite count_app. cbn [count]. rewrite (count_split f l i o H). lia.
Qed.

Lemma count_map_same {A} (f : A -> bool) (g : A -> A) l :
  (forall x, f (g x) = f x) -> count f (map g l) = count f l.
Proof. intros H. induction l as [|a l IH]; cbn [map count]; [reflexivity|rewrite H, IH; reflexivity]. Qed.

Lemma nth_error_map_inv {A B} (g : A -> B) l i y :
  nth_error (map g l) i = Some y -> exists x, nth_error l i = Some x /\ y = g x.
Proof.
  revert i. induction l as [|a l IH]; intros i H.
  - destruct i; discriminate.
  - destruct i as [|i]; cbn in H.
    + inversion H; subst. exists a. split; reflexivity.
    + apply IH in H. exact H.
Qed.

Lemma existsb_map_same {A} (f : A -> bool) (g : A -> A) l :
  (forall x, f (g x) = f x) -> existsb f (map g l) = existsb f l.
Proof. intros H. induction l as [|a l IH]; cbn [map existsb]; [reflexivity|rewrite H, IH; reflexivity]. Qed.

Lemma in_make_hot t h : In t (make_hot t h).
Proof.
  unfold make_hot. destruct (existsb (Nat.eqb t) h) eqn:E.
  - apply existsb_exists in E. destruct E as (x & Hin & Hx). apply Nat.eqb_eq in Hx. subst. exact Hin.
  - apply in_or_app. right. left. reflexivity.
Qed.

Lemma in_make_hot_keep t u h : In u h -> In u (make_hot t h).
Proof.
  unfold make_hot. destruct (existsb (Nat.eqb t) h); intros H; [exact H|].
  apply in_or_app. left. exact H.
Qed.

Lemma make_hot_not_nil t h : make_hot t h <> [].
Proof. intros H. pose proof (in_make_hot t h) as Hi. rewrite H in Hi. destruct Hi. Qed.
