(* ProcSpecThm.v — lemmas about the child-process reference (model/ProcSpec.v). *)
From Compio.Model Require Import Base PipeSpec ProcSpec.
From Compio.Thm Require Import ListFacts.

(* ====================================================================== *)
(* the pipe reference, one call at a time                                   *)

Lemma pipe_write_spec p d p' r :
  pipe_write p d = (p', r) -> rclosed p = false ->
  match r with
  | WOk n => n <= length d /\ n <= pipe_free p /\ pq p' = pq p ++ firstn n d /\
             pcap p' = pcap p /\ wclosed p' = wclosed p /\ rclosed p' = false /\
             (d <> [] -> 0 < n) /\ (n = 0 -> p' = p)
  | WBlock => p' = p /\ d <> [] /\ pipe_free p = 0
  | WErr _ => False
  end.
Proof.
  intros H Hr. unfold pipe_write in H. rewrite Hr in H.
  destruct d as [|x d].
  - inversion H; subst. cbn. rewrite app_nil_r. repeat split; auto; try lia. congruence.
  - remember (Nat.min (length (x :: d)) (pipe_free p)) as m eqn:Em.
    destruct (Nat.eqb_spec m 0) as [E|E]; injection H as <- <-.
    + repeat split; auto; try congruence. cbn [length] in Em. lia.
    + cbn [pipe_with_q pq pcap wclosed rclosed].
      repeat split; auto; try (intros; lia).
Qed.

Lemma pipe_read_spec p k p' r :
  pipe_read p k = (p', r) ->
  match r with
  | ROk bs => bs = firstn k (pq p) /\ pq p' = skipn k (pq p) /\ pcap p' = pcap p /\
              wclosed p' = wclosed p /\ rclosed p' = rclosed p /\
              (bs = [] -> 0 < k -> pq p = [] /\ wclosed p = true)
  | RBlock => p' = p /\ pq p = [] /\ wclosed p = false /\ 0 < k
  end.
Proof.
  intros H. unfold pipe_read in H.
  destruct (Nat.eqb_spec k 0) as [E|E].
  - injection H as <- <-. subst k. cbn [firstn skipn]. repeat split; auto; lia.
  - destruct (pq p) as [|x q] eqn:Q.
    + destruct (wclosed p) eqn:W; injection H as <- <-.
      * destruct k; cbn [firstn skipn]; repeat split; auto.
      * repeat split; auto. lia.
    + injection H as <- <-. cbn [pipe_with_q pq pcap wclosed rclosed].
      repeat split; auto; destruct k; try lia; discriminate.
Qed.

(* ====================================================================== *)
(* one direction                                                            *)

Definition chan_inv (cap : nat) (data : list byte) (c : chan) : Prop :=
  pcap (cpipe c) = cap /\
  cgot c ++ pq (cpipe c) ++ ctodo c = data /\
  length (pq (cpipe c)) <= pcap (cpipe c) /\
  rclosed (cpipe c) = false /\
  (ceof c = true -> wclosed (cpipe c) = true /\ pq (cpipe c) = []).

Lemma firstn_firstn_le {A} (l : list A) n k :
  n <= length (firstn k l) -> firstn n (firstn k l) = firstn n l.
Proof.
  intros H. rewrite firstn_firstn. rewrite firstn_length in H.
  replace (Nat.min n k) with n by lia. reflexivity.
Qed.

Lemma chan_init_inv cap data : chan_inv cap data (chan_init cap data).
Proof.
  unfold chan_inv, chan_init; cbn. repeat split; auto; try lia.
Qed.

Lemma chan_step_inv cap data c s : chan_inv cap data c -> chan_inv cap data (chan_step c s).
Proof.
  intros Hinv. pose proof Hinv as (Hcap & Hd & Hl & Hr & He).
  destruct s as [k|k|]; unfold chan_step.
  - destruct (wclosed (cpipe c)) eqn:W; [exact Hinv|].
    destruct (pipe_write (cpipe c) (firstn k (ctodo c))) as [p' r] eqn:E.
    pose proof (pipe_write_spec _ _ _ _ E Hr) as S.
    destruct r as [n| |e]; [|exact Hinv|exact Hinv].
    destruct S as (Hn & Hf & Hq & Hc & Hw & Hr' & _ & _).
    unfold chan_inv; cbn [cpipe ctodo cgot ceof].
    rewrite Hq, Hc, Hw, (firstn_firstn_le _ _ _ Hn). repeat split; auto.
    + rewrite <- Hd. rewrite <- !app_assoc. rewrite firstn_skipn. reflexivity.
    + rewrite app_length, firstn_length. unfold pipe_free in Hf. lia.
    + apply He in H. destruct H; discriminate.
    + apply He in H. destruct H; discriminate.
  - destruct (pipe_read (cpipe c) k) as [p' r] eqn:E.
    pose proof (pipe_read_spec _ _ _ _ E) as S.
    destruct r as [bs|]; [|exact Hinv].
    destruct S as (Hb & Hq & Hc & Hw & Hr' & Hz).
    unfold chan_inv; cbn [cpipe ctodo cgot ceof].
    rewrite Hq, Hc, Hw, Hr', Hb. repeat split; auto.
    + rewrite <- Hd. rewrite <- !app_assoc. rewrite (app_assoc (firstn k _)).
      rewrite firstn_skipn. reflexivity.
    + rewrite skipn_length. lia.
    + rewrite orb_true_iff, andb_true_iff in H. destruct H as [F|[K N]].
      * apply He in F. tauto.
      * rewrite <- Hb in N. destruct bs; [|discriminate].
        apply negb_true_iff in K. apply Nat.eqb_neq in K.
        apply Hz; auto. lia.
    + rewrite orb_true_iff, andb_true_iff in H. destruct H as [F|[K N]].
      * apply He in F. destruct F as [_ F]. rewrite F. destruct k; reflexivity.
      * rewrite <- Hb in N. destruct bs; [|discriminate].
        apply negb_true_iff in K. apply Nat.eqb_neq in K.
        destruct Hz as [Z _]; auto; try lia. rewrite Z. destruct k; reflexivity.
  - unfold chan_inv; cbn [cpipe ctodo cgot ceof pipe_close_w pq pcap wclosed rclosed].
    repeat split; auto. apply He in H. tauto.
Qed.

Lemma run_inv cap data sch : forall c, chan_inv cap data c -> chan_inv cap data (run sch c).
Proof.
  induction sch as [|s r IH]; intros c H; cbn [run]; auto.
  apply IH. apply chan_step_inv. exact H.
Qed.

(* the statement of C20_stdio_complete *)
Lemma stdio_complete : forall (cap : nat) (data : list byte) (sch : list step),
  let c := run sch (chan_init cap data) in
  cgot c ++ pq (cpipe c) ++ ctodo c = data /\
  length (pq (cpipe c)) <= cap /\
  (ceof c = true -> wclosed (cpipe c) = true /\ pq (cpipe c) = [] /\ cgot c ++ ctodo c = data) /\
  (ceof c = true -> ctodo c = [] -> cgot c = data).
Proof.
  intros cap data sch c.
  assert (I : chan_inv cap data c) by (apply run_inv, chan_init_inv).
  destruct I as (Hcap & Hd & Hl & Hr & He).
  repeat split; auto; try lia.
  - apply He in H. tauto.
  - apply He in H. tauto.
  - apply He in H. destruct H as [_ Q]. rewrite Q in Hd. exact Hd.
  - intros F T. apply He in F. destruct F as [_ Q]. rewrite Q, T in Hd.
    rewrite app_nil_r in Hd. exact Hd.
Qed.

(* ---------------------------------------------------------------------- *)
(* progress: a state that has not reached end-of-file always has an        *)
(* enabled step                                                             *)

Lemma chan_progress : forall c,
  1 <= pcap (cpipe c) -> length (pq (cpipe c)) <= pcap (cpipe c) ->
  rclosed (cpipe c) = false -> ceof c = false ->
  exists s, enabled c s = true.
Proof.
  intros c Hc Hl Hr He. unfold enabled, chan_eqb_progress.
  destruct (pq (cpipe c)) as [|x q] eqn:Q.
  - destruct (wclosed (cpipe c)) eqn:W.
    + exists (Cons 1). unfold chan_step, pipe_read. cbn [Nat.eqb]. rewrite Q, W.
      cbn [ceof cgot ctodo cpipe]. rewrite He. cbn. rewrite !orb_true_r. reflexivity.
    + destruct (ctodo c) as [|y t] eqn:T.
      * exists CloseW. unfold chan_step. cbn [ceof cgot ctodo cpipe pipe_close_w wclosed].
        cbn. rewrite !orb_true_r. reflexivity.
      * exists (Prod 1). unfold chan_step. rewrite W.
        destruct (pipe_write (cpipe c) (firstn 1 (ctodo c))) as [p' r] eqn:E.
        pose proof (pipe_write_spec _ _ _ _ E Hr) as S. rewrite T in S. cbn [firstn] in S.
        destruct r as [n| |e].
        -- destruct S as (Hn & _ & _ & _ & _ & _ & Hpos & _).
           assert (0 < n) by (apply Hpos; discriminate).
           assert (L : forall a b, 0 < b -> 0 < a -> (a - b <? a) = true)
             by (intros; apply Nat.ltb_lt; lia).
           cbn [ctodo cgot ceof cpipe]. rewrite skipn_length. rewrite ?T. cbn [length].
           rewrite L by lia. reflexivity.
        -- destruct S as (_ & _ & F). unfold pipe_free in F. rewrite Q in F.
           cbn [length] in F. lia.
        -- destruct S.
  - exists (Cons 1). unfold chan_step, pipe_read. cbn [Nat.eqb]. rewrite Q.
    cbn [ceof cgot ctodo cpipe firstn]. rewrite app_length. cbn [length].
    replace (length (cgot c) <? length (cgot c) + 1) with true
      by (symmetry; apply Nat.ltb_lt; lia).
    rewrite orb_true_r. reflexivity.
Qed.

(* the only way a producer with data and an open end is blocked: the pipe is
   full, i.e. the other side does not read *)
Lemma prod_blocked_iff : forall c k,
  rclosed (cpipe c) = false -> wclosed (cpipe c) = false ->
  0 < k -> ctodo c <> [] ->
  (enabled c (Prod k) = false <-> pcap (cpipe c) <= length (pq (cpipe c))).
Proof.
  intros c k Hr W Hk T. unfold enabled, chan_eqb_progress, chan_step. rewrite W.
  destruct (ctodo c) as [|y t] eqn:Ht; [congruence|].
  destruct k as [|k]; [lia|]. cbn [firstn].
  unfold pipe_write. rewrite Hr.
  remember (Nat.min (length (y :: firstn k t)) (pipe_free (cpipe c))) as m eqn:Em.
  unfold pipe_free in Em. cbn [length] in Em.
  destruct (Nat.eqb_spec m 0) as [E|E].
  - rewrite ?W, ?Ht, !Nat.ltb_irrefl.
    destruct (ceof c); cbn; split; auto; intros _; lia.
  - cbn [ctodo cgot ceof cpipe]. split; [|intros F; lia].
    intros F. exfalso.
    rewrite !orb_false_iff in F. destruct F as [[[F _] _] _].
    apply Nat.ltb_ge in F. rewrite skipn_length in F. cbn [length] in F. lia.
Qed.

(* ... and in that state a read is enabled *)
Lemma full_pipe_read_enabled : forall c k,
  1 <= pcap (cpipe c) -> pcap (cpipe c) <= length (pq (cpipe c)) -> 0 < k ->
  enabled c (Cons k) = true.
Proof.
  intros c k Hc Hf Hk. unfold enabled, chan_eqb_progress, chan_step, pipe_read.
  destruct k as [|k]; [lia|]. cbn [Nat.eqb].
  destruct (pq (cpipe c)) as [|x q] eqn:Q; [cbn [length] in Hf; lia|].
  cbn [ceof cgot ctodo cpipe firstn]. rewrite app_length. cbn [length].
  replace (length (cgot c) <? length (cgot c) + S (length (firstn k q))) with true
    by (symmetry; apply Nat.ltb_lt; lia).
  rewrite orb_true_r. reflexivity.
Qed.

(* without a reader a full pipe stays full: the producer (the child) makes no
   progress however often it is scheduled ("wait before drain" with an output
   above the capacity never terminates, in the operating system as well) *)
Lemma no_reader_no_progress : forall sch c,
  forallb (fun s => negb (is_cons s)) sch = true ->
  rclosed (cpipe c) = false ->
  pcap (cpipe c) <= length (pq (cpipe c)) ->
  ctodo (run sch c) = ctodo c /\ cgot (run sch c) = cgot c /\
  pq (cpipe (run sch c)) = pq (cpipe c).
Proof.
  induction sch as [|s r IH]; intros c Hs Hr Hf; cbn [run]; auto.
  cbn [forallb] in Hs. apply andb_true_iff in Hs. destruct Hs as [Hs1 Hs2].
  assert (G : ctodo (chan_step c s) = ctodo c /\ cgot (chan_step c s) = cgot c /\
              cpipe (chan_step c s) = cpipe c \/
              ctodo (chan_step c s) = ctodo c /\ cgot (chan_step c s) = cgot c /\
              cpipe (chan_step c s) = pipe_close_w (cpipe c)).
  { destruct s as [k|k|]; [|discriminate|right; cbn; auto].
    left. unfold chan_step. destruct (wclosed (cpipe c)); auto.
    unfold pipe_write. rewrite Hr. destruct (firstn k (ctodo c)) as [|y t] eqn:F; cbn; auto.
    unfold pipe_free. replace (pcap (cpipe c) - length (pq (cpipe c))) with 0 by lia.
    rewrite ?Nat.min_0_r. cbn. auto. }
  destruct G as [(G1 & G2 & G3)|(G1 & G2 & G3)].
  - destruct (IH (chan_step c s)) as (I1 & I2 & I3); auto; try (rewrite G3; auto).
    rewrite I1, I2, I3, G1, G2, G3. auto.
  - destruct (IH (chan_step c s)) as (I1 & I2 & I3); auto; try (rewrite G3; cbn; auto).
    rewrite I1, I2, I3, G1, G2, G3. cbn. auto.
Qed.

(* ---------------------------------------------------------------------- *)
(* a fair round-robin schedule delivers everything: liveness of the        *)
(* reference (used by the simulation in RunC20.v)                           *)

Definition measure (c : chan) : nat := 2 * length (ctodo c) + length (pq (cpipe c)).

Lemma prod_step_facts : forall cap data c kw,
  chan_inv cap data c -> wclosed (cpipe c) = false -> 1 <= kw -> 1 <= cap ->
  let c1 := chan_step c (Prod kw) in
  wclosed (cpipe c1) = false /\ ceof c1 = ceof c /\ measure c1 <= measure c /\
  (ctodo c <> [] -> measure c1 < measure c \/ 1 <= length (pq (cpipe c1))) /\
  (ctodo c = [] -> ctodo c1 = [] /\ pq (cpipe c1) = pq (cpipe c)).
Proof.
  intros cap data c kw (Hcap & Hd & Hl & Hr & He) W Hk Hc c1. subst c1.
  unfold chan_step. rewrite W.
  destruct (pipe_write (cpipe c) (firstn kw (ctodo c))) as [p' r] eqn:E.
  pose proof (pipe_write_spec _ _ _ _ E Hr) as S.
  destruct r as [n| |e].
  - destruct S as (Hn & Hf & Hq & Hc' & Hw & Hr' & Hpos & _).
    unfold measure. cbn [cpipe ctodo cgot ceof]. rewrite Hq, Hw.
    rewrite (firstn_firstn_le _ _ _ Hn).
    rewrite firstn_length in Hn.
    rewrite app_length, skipn_length, firstn_length.
    repeat split; auto; try lia.
    + intros T. left.
      assert (0 < n).
      { apply Hpos. destruct (ctodo c); [congruence|]. destruct kw; [lia|]. discriminate. }
      lia.
    + rewrite H. destruct n; reflexivity.
    + rewrite H. destruct n; cbn; rewrite app_nil_r; reflexivity.
  - destruct S as (-> & Hne & Hfree). unfold pipe_free in Hfree.
    repeat split; auto; try (intros; right; lia).
  - destruct S.
Qed.

Lemma cons_step_facts : forall c kr,
  wclosed (cpipe c) = false -> 1 <= kr ->
  let c' := chan_step c (Cons kr) in
  wclosed (cpipe c') = false /\ ceof c' = ceof c /\ ctodo c' = ctodo c /\
  length (pq (cpipe c')) <= length (pq (cpipe c)) /\
  (1 <= length (pq (cpipe c)) -> length (pq (cpipe c')) < length (pq (cpipe c))).
Proof.
  intros c kr W Hk c'. subst c'. unfold chan_step.
  destruct (pipe_read (cpipe c) kr) as [p' r] eqn:E.
  pose proof (pipe_read_spec _ _ _ _ E) as S.
  destruct r as [bs|].
  - destruct S as (Hb & Hq & Hc & Hw & Hr' & Hz).
    cbn [cpipe ctodo cgot ceof]. rewrite Hq, Hw, skipn_length.
    repeat split; auto; try lia.
    destruct bs as [|b bs].
    + destruct Hz as [_ F]; auto. congruence.
    + cbn. rewrite andb_false_r, orb_false_r. reflexivity.
  - destruct S as (-> & Q & _ & _). repeat split; auto. rewrite Q. cbn. lia.
Qed.

Lemma fair_run : forall rounds cap data kw kr c,
  chan_inv cap data c -> 1 <= cap -> 1 <= kw -> 1 <= kr ->
  wclosed (cpipe c) = false -> ceof c = false -> measure c <= rounds ->
  let c' := run (fair rounds kw kr) c in
  cgot c' = data /\ ceof c' = true /\ ctodo c' = [] /\ pq (cpipe c') = [].
Proof.
  induction rounds as [|r IH]; intros cap data kw kr c I Hc Hkw Hkr W E M c'; subst c'.
  - unfold measure in M.
    assert (T : ctodo c = []) by (destruct (ctodo c); [auto|cbn in M; lia]).
    assert (Q : pq (cpipe c) = []) by (destruct (pq (cpipe c)); [auto|cbn in M; lia]).
    destruct I as (Hcap & Hd & Hl & Hr & He).
    cbn [fair run]. unfold chan_step at 2. unfold chan_step, pipe_read.
    cbn [cpipe ctodo cgot ceof pipe_close_w pq wclosed].
    destruct kr as [|kr]; [lia|]. cbn [Nat.eqb]. rewrite Q.
    cbn [cpipe ctodo cgot ceof pipe_close_w pq wclosed negb andb is_nil].
    rewrite orb_true_r, app_nil_r. rewrite Q, T in Hd. cbn in Hd. rewrite app_nil_r in Hd.
    auto.
  - cbn [fair run].
    pose proof (prod_step_facts cap data c kw I W Hkw Hc) as (W1 & E1 & M1 & P1 & P2).
    pose proof (chan_step_inv cap data c (Prod kw) I) as I1.
    set (c1 := chan_step c (Prod kw)) in *.
    pose proof (cons_step_facts c1 kr W1 Hkr) as (W2 & E2 & T2 & L2 & L3).
    pose proof (chan_step_inv cap data c1 (Cons kr) I1) as I2.
    set (c2 := chan_step c1 (Cons kr)) in *.
    apply (IH cap data kw kr c2); auto; try congruence.
    unfold measure in *. rewrite T2.
    destruct (ctodo c) as [|y t] eqn:T.
    + destruct P2 as [P2 P3]; auto. rewrite P2 in *. rewrite P3 in *.
      cbn [length] in *.
      destruct (Nat.eq_dec (length (pq (cpipe c))) 0) as [Z|Z]; [lia|].
      assert (length (pq (cpipe c2)) < length (pq (cpipe c))) by (apply L3; lia). lia.
    + destruct P1 as [P1|P1]; [congruence|lia|].
      assert (length (pq (cpipe c2)) < length (pq (cpipe c1))) by (apply L3; lia). lia.
Qed.

Lemma fair_completes : forall (cap : nat) (data : list byte) (kw kr rounds : nat),
  1 <= cap -> 1 <= kw -> 1 <= kr -> 2 * length data <= rounds ->
  let c := run (fair rounds kw kr) (chan_init cap data) in
  cgot c = data /\ ceof c = true /\ ctodo c = [] /\ pq (cpipe c) = [].
Proof.
  intros cap data kw kr rounds Hc Hkw Hkr Hr.
  apply (fair_run rounds cap data kw kr); auto.
  - apply chan_init_inv.
  - unfold measure, chan_init; cbn. lia.
Qed.

(* ====================================================================== *)
(* the three streams of a child do not interfere                            *)

Lemma run3_independent : forall (sch : list (fdn * step)) (s : stdio3),
  run3 sch s = mk3 (run (proj FIn sch) (s_in s)) (run (proj FOut sch) (s_out s))
                   (run (proj FErr sch) (s_err s)).
Proof.
  induction sch as [|[f st] r IH]; intros s.
  - destruct s; reflexivity.
  - cbn [run3]. rewrite IH. unfold proj. cbn [filter fst snd].
    destruct f; cbn [step3 fdn_eqb fst snd s_in s_out s_err map run]; reflexivity.
Qed.

Definition chan_complete (data : list byte) (c : chan) : Prop :=
  cgot c ++ pq (cpipe c) ++ ctodo c = data /\
  (ceof c = true -> wclosed (cpipe c) = true /\ pq (cpipe c) = [] /\ cgot c ++ ctodo c = data) /\
  (ceof c = true -> ctodo c = [] -> cgot c = data).

Lemma stdio3_complete : forall (cap : nat) (din dout derr : list byte) (sch : list (fdn * step)),
  let s := run3 sch (mk3 (chan_init cap din) (chan_init cap dout) (chan_init cap derr)) in
  chan_complete din (s_in s) /\ chan_complete dout (s_out s) /\ chan_complete derr (s_err s).
Proof.
  intros cap din dout derr sch s. subst s. rewrite run3_independent.
  cbn [s_in s_out s_err]. unfold chan_complete.
  pose proof (stdio_complete cap din (proj FIn sch)) as (A1 & _ & A2 & A3).
  pose proof (stdio_complete cap dout (proj FOut sch)) as (B1 & _ & B2 & B3).
  pose proof (stdio_complete cap derr (proj FErr sch)) as (C1 & _ & C2 & C3).
  repeat split; auto; try (apply A2; assumption); try (apply B2; assumption);
    try (apply C2; assumption).
Qed.

(* ====================================================================== *)
(* the echo system                                                          *)

Definition echo_inv (capa capb : nat) (data : list byte) (e : echo) : Prop :=
  pcap (ea e) = capa /\ pcap (eb e) = capb /\
  egot e ++ pq (eb e) ++ ebuf e ++ pq (ea e) ++ etodo e = data /\
  length (pq (ea e)) <= capa /\ length (pq (eb e)) <= capb /\
  rclosed (ea e) = false /\ rclosed (eb e) = false /\
  (ein_eof e = true -> wclosed (ea e) = true /\ pq (ea e) = []) /\
  (wclosed (eb e) = true -> ein_eof e = true /\ ebuf e = []) /\
  (eeof e = true -> wclosed (eb e) = true /\ pq (eb e) = []).

Lemma echo_init_inv capa capb data : echo_inv capa capb data (echo_init capa capb data).
Proof.
  unfold echo_inv, echo_init; cbn. repeat split; auto; try lia; discriminate.
Qed.

Lemma eof_flag_cases (old : bool) (k : nat) (bs : list byte) :
  (old || (negb (k =? 0) && is_nil bs)) = true -> old = true \/ (0 < k /\ bs = []).
Proof.
  intros H. apply orb_true_iff in H. destruct H as [H|H]; auto.
  apply andb_true_iff in H. destruct H as [K N]. right.
  apply negb_true_iff, Nat.eqb_neq in K. destruct bs; [split; [lia|auto]|discriminate].
Qed.

Lemma echo_step_inv capa capb data e s :
  echo_inv capa capb data e -> echo_inv capa capb data (echo_step e s).
Proof.
  intros Hinv.
  pose proof Hinv as (Hca & Hcb & Hd & Hla & Hlb & Hra & Hrb & Hin & Hbw & Hee).
  destruct s as [k| |k|k| |k]; unfold echo_step.
  - (* EWrite *)
    destruct (wclosed (ea e)) eqn:W; [exact Hinv|].
    destruct (pipe_write (ea e) (firstn k (etodo e))) as [a' r] eqn:E.
    pose proof (pipe_write_spec _ _ _ _ E Hra) as S.
    destruct r as [n| |x]; [|exact Hinv|exact Hinv].
    destruct S as (Hn & Hf & Hq & Hc & Hw & Hr' & _ & _).
    unfold echo_inv; cbn [ea eb etodo ebuf ein_eof egot eeof].
    rewrite Hq, Hc, Hw, (firstn_firstn_le _ _ _ Hn).
    repeat split; auto.
    + rewrite <- Hd. rewrite <- !app_assoc. rewrite firstn_skipn. reflexivity.
    + rewrite app_length, firstn_length. unfold pipe_free in Hf. lia.
    + apply Hin in H. destruct H; congruence.
    + apply Hin in H. destruct H; congruence.
    + apply Hbw in H. tauto.
    + apply Hbw in H. tauto.
    + apply Hee in H. tauto.
    + apply Hee in H. tauto.
  - (* ECloseIn *)
    unfold echo_inv; cbn [ea eb etodo ebuf ein_eof egot eeof pipe_close_w pq pcap wclosed rclosed].
    repeat split; auto.
    + apply Hin in H. tauto.
    + apply Hbw in H. tauto.
    + apply Hbw in H. tauto.
    + apply Hee in H. tauto.
    + apply Hee in H. tauto.
  - (* EChildRead *)
    destruct (wclosed (eb e)) eqn:W; [exact Hinv|].
    destruct (pipe_read (ea e) k) as [a' r] eqn:E.
    pose proof (pipe_read_spec _ _ _ _ E) as S.
    destruct r as [bs|]; [|exact Hinv].
    destruct S as (Hb & Hq & Hc & Hw & Hr' & Hz).
    unfold echo_inv; cbn [ea eb etodo ebuf ein_eof egot eeof].
    rewrite Hq, Hc, Hw, Hr'. repeat split; auto.
    + rewrite <- Hd. rewrite Hb. rewrite <- !app_assoc.
      rewrite (app_assoc (firstn k _)). rewrite firstn_skipn. reflexivity.
    + rewrite skipn_length. lia.
    + apply eof_flag_cases in H. destruct H as [H|[K N]].
      * apply Hin in H. tauto.
      * apply Hz; auto.
    + apply eof_flag_cases in H. destruct H as [H|[K N]].
      * apply Hin in H. destruct H as [_ H]. rewrite H. destruct k; reflexivity.
      * destruct Hz as [Z _]; auto. rewrite Z. destruct k; reflexivity.
    + congruence.
    + congruence.
    + apply Hee in H. destruct H; congruence.
    + apply Hee in H. tauto.
  - (* EChildWrite *)
    destruct (wclosed (eb e)) eqn:W; [exact Hinv|].
    destruct (pipe_write (eb e) (firstn k (ebuf e))) as [b' r] eqn:E.
    pose proof (pipe_write_spec _ _ _ _ E Hrb) as S.
    destruct r as [n| |x]; [|exact Hinv|exact Hinv].
    destruct S as (Hn & Hf & Hq & Hc & Hw & Hr' & _ & _).
    unfold echo_inv; cbn [ea eb etodo ebuf ein_eof egot eeof].
    rewrite Hq, Hc, Hw, (firstn_firstn_le _ _ _ Hn).
    repeat split; auto.
    + rewrite <- Hd. rewrite <- !app_assoc. rewrite (app_assoc (firstn n _)).
      rewrite firstn_skipn. reflexivity.
    + rewrite app_length, firstn_length. unfold pipe_free in Hf. lia.
    + apply Hin in H. tauto.
    + apply Hin in H. tauto.
    + congruence.
    + congruence.
    + apply Hee in H. destruct H; congruence.
    + apply Hee in H. destruct H; congruence.
  - (* EChildExit *)
    destruct (ein_eof e && is_nil (ebuf e)) eqn:G; [|exact Hinv].
    apply andb_true_iff in G. destruct G as [G1 G2].
    unfold echo_inv; cbn [ea eb etodo ebuf ein_eof egot eeof pipe_close_w pq pcap wclosed rclosed].
    repeat split; auto.
    + apply Hin in H. tauto.
    + apply Hin in H. tauto.
    + destruct (ebuf e); [auto|discriminate].
    + apply Hee in H. tauto.
  - (* ERead *)
    destruct (pipe_read (eb e) k) as [b' r] eqn:E.
    pose proof (pipe_read_spec _ _ _ _ E) as S.
    destruct r as [bs|]; [|exact Hinv].
    destruct S as (Hb & Hq & Hc & Hw & Hr' & Hz).
    unfold echo_inv; cbn [ea eb etodo ebuf ein_eof egot eeof].
    rewrite Hq, Hc, Hw, Hr'. repeat split; auto.
    + rewrite <- Hd. rewrite Hb. rewrite <- !app_assoc.
      rewrite (app_assoc (firstn k _)). rewrite firstn_skipn. reflexivity.
    + rewrite skipn_length. lia.
    + apply Hin in H. tauto.
    + apply Hin in H. tauto.
    + apply Hbw in H. tauto.
    + apply Hbw in H. tauto.
    + apply eof_flag_cases in H. destruct H as [H|[K N]].
      * apply Hee in H. tauto.
      * apply Hz; auto.
    + apply eof_flag_cases in H. destruct H as [H|[K N]].
      * apply Hee in H. destruct H as [_ H]. rewrite H. destruct k; reflexivity.
      * destruct Hz as [Z _]; auto. rewrite Z. destruct k; reflexivity.
Qed.

Lemma erun_inv capa capb data sch :
  forall e, echo_inv capa capb data e -> echo_inv capa capb data (erun sch e).
Proof.
  induction sch as [|s r IH]; intros e H; cbn [erun]; auto.
  apply IH. apply echo_step_inv. exact H.
Qed.

Lemma echo_complete : forall (capa capb : nat) (data : list byte) (sch : list estep),
  let e := erun sch (echo_init capa capb data) in
  egot e ++ pq (eb e) ++ ebuf e ++ pq (ea e) ++ etodo e = data /\
  (eeof e = true -> wclosed (ea e) = true /\ egot e ++ etodo e = data) /\
  (eeof e = true -> etodo e = [] -> egot e = data).
Proof.
  intros capa capb data sch e.
  assert (I : echo_inv capa capb data e) by (apply erun_inv, echo_init_inv).
  destruct I as (Hca & Hcb & Hd & Hla & Hlb & Hra & Hrb & Hin & Hbw & Hee).
  assert (G : eeof e = true -> wclosed (ea e) = true /\ egot e ++ etodo e = data).
  { intros F. apply Hee in F. destruct F as [F1 F2].
    apply Hbw in F1. destruct F1 as [F3 F4]. apply Hin in F3. destruct F3 as [F5 F6].
    rewrite F2, F4, F6 in Hd. cbn in Hd. auto. }
  repeat split; auto; try (apply G; assumption).
  intros F T. apply G in F. destruct F as [_ F]. rewrite T, app_nil_r in F. exact F.
Qed.

Lemma echo_open_stays_open : forall sch e,
  forallb (fun s => negb (is_closein s)) sch = true ->
  wclosed (ea e) = false -> wclosed (ea (erun sch e)) = false.
Proof.
  induction sch as [|s r IH]; intros e Hs W; cbn [erun]; auto.
  cbn [forallb] in Hs. apply andb_true_iff in Hs. destruct Hs as [Hs1 Hs2].
  apply IH; auto.
  destruct s as [k| |k|k| |k]; try discriminate; unfold echo_step.
  - rewrite W. destruct (pipe_write (ea e) (firstn k (etodo e))) as [a' r0] eqn:E.
    destruct r0; auto. cbn [ea].
    unfold pipe_write in E. destruct (firstn k (etodo e)).
    + injection E as <- _. exact W.
    + destruct (rclosed (ea e)); [discriminate|].
      destruct (Nat.min _ _ =? 0); [discriminate|]. injection E as <- _. exact W.
  - destruct (wclosed (eb e)); auto.
    destruct (pipe_read (ea e) k) as [a' r0] eqn:E. destruct r0; auto. cbn [ea].
    apply pipe_read_spec in E. destruct E as (_ & _ & _ & Hw & _). congruence.
  - destruct (wclosed (eb e)); auto.
    destruct (pipe_write (eb e) (firstn k (ebuf e))) as [b' r0]. destruct r0; auto.
  - destruct (ein_eof e && is_nil (ebuf e)); auto.
  - destruct (pipe_read (eb e) k) as [b' r0]. destruct r0; auto.
Qed.

(* a child that copies its input to the end (cat) does not exit, and the parent
   never sees end of file on its output, unless the parent's end of the child's
   stdin gets closed: a wait that consumes the Child together with its ChildStdin
   must close it, or it never returns *)
Lemma echo_needs_close : forall (capa capb : nat) (data : list byte) (sch : list estep),
  forallb (fun s => negb (is_closein s)) sch = true ->
  let e := erun sch (echo_init capa capb data) in
  ein_eof e = false /\ wclosed (eb e) = false /\ eeof e = false.
Proof.
  intros capa capb data sch Hs e.
  assert (I : echo_inv capa capb data e) by (apply erun_inv, echo_init_inv).
  assert (W : wclosed (ea e) = false) by (apply echo_open_stays_open; auto).
  destruct I as (_ & _ & _ & _ & _ & _ & _ & Hin & Hbw & Hee).
  assert (A : ein_eof e = false).
  { destruct (ein_eof e); auto. destruct Hin as [F _]; auto. congruence. }
  assert (B : wclosed (eb e) = false).
  { destruct (wclosed (eb e)); auto. destruct Hbw as [F _]; auto. congruence. }
  repeat split; auto.
  destruct (eeof e); auto. destruct Hee as [F _]; auto. congruence.
Qed.

(* ====================================================================== *)
(* waiting for the child                                                    *)

Definition winv (hist : list wlabel) (s : wstate) : Prop :=
  (forall st, wchild s = CZombie st -> In (EnvExit st) hist) /\
  (forall st, wwait s = WGot st -> In (EnvExit st) hist /\ wchild s = CReaped) /\
  (wwait s = WPollReady -> is_zombie (wchild s) = true) /\
  (forall e, wwait s = WFailed e -> In (OsFail e) hist) /\
  (wwait s = WDone -> wchild s = CReaped \/ exists e, In (OsFail e) hist) /\
  (wchild s = CReaped -> exists st, In (EnvExit st) hist).

Lemma winit_inv : winv [] winit.
Proof. unfold winv, winit; cbn. repeat split; intros; try discriminate. Qed.

Ltac wcase H :=
  repeat match type of H with
  | context [N.eqb ?a ?b] => destruct (N.eqb_spec a b); subst
  end; try discriminate H.

Lemma wstep_inv : forall hist s l s',
  winv hist s -> wstep s l = Some (Ok s') -> winv (hist ++ [l]) s'.
Proof.
  intros hist [c w] l s' (I1 & I2 & I3 & I4 & I5 & I6) H.
  cbn [wchild wwait] in *.
  destruct l as [st|m| | |st|e|st|e| | ]; destruct c as [|zs|]; destruct w as [| | | | |gs|fe|];
    try destruct m; cbn in H; wcase H;
    injection H as <-; unfold winv; cbn [wchild wwait];
    repeat split; intros; try discriminate;
    try (match goal with
         | E : CZombie _ = CZombie _ |- _ => injection E as <-
         | E : WGot _ = WGot _ |- _ => injection E as <-
         | E : WFailed _ = WFailed _ |- _ => injection E as <-
         end);
    rewrite ?in_app_iff; cbn [In];
    try (left; apply I1; reflexivity);
    try (left; apply I2; reflexivity);
    try (left; apply I4; reflexivity);
    try (right; left; reflexivity);
    auto.
  all: try (destruct (I6 eq_refl) as [x Hx]; exists x; rewrite in_app_iff; auto).
  all: try (destruct (I2 _ eq_refl) as [Hx _]; eexists; rewrite in_app_iff; left; exact Hx).
  all: try (eexists; rewrite in_app_iff; left; apply I1; reflexivity).
  all: try (destruct I5 as [F|[x Hx]]; auto; [discriminate F | right; exists x; rewrite in_app_iff; auto]).
  all: try (right; eexists; rewrite in_app_iff; left; apply I4; reflexivity).
  all: try (destruct (I2 _ eq_refl) as [_ F]; discriminate F).
Qed.

Lemma wrun_inv : forall tr s hist s',
  winv hist s -> wrun s tr = Some (Ok s') -> winv (hist ++ tr) s'.
Proof.
  induction tr as [|l tr IH]; intros s hist s' I H.
  - cbn in H. injection H as <-. rewrite app_nil_r. exact I.
  - cbn [wrun] in H. destruct (wstep s l) as [[s1|c]|] eqn:E; try discriminate.
    + replace (hist ++ l :: tr) with ((hist ++ [l]) ++ tr) by (rewrite <- app_assoc; reflexivity).
      apply (IH s1); auto. eapply wstep_inv; eauto.
    + destruct tr; discriminate.
Qed.

Lemma wdone_stuck : forall l, wstep (mkw CReaped WDone) l = None.
Proof. destruct l as [st|m| | |st|e|st|e| | ]; try destruct m; reflexivity. Qed.

Lemma wrun_stuck : forall s, (forall l, wstep s l = None) ->
  forall tr r, wrun s tr = Some r -> tr = [] /\ r = Ok s.
Proof.
  intros s H [|l tr] r E.
  - cbn in E. injection E as <-. auto.
  - cbn in E. rewrite H in E. discriminate.
Qed.

Lemma wstep_deliver : forall hist s st r,
  winv hist s -> wstep s (Deliver st) = Some r ->
  In (EnvExit st) hist /\ r = Ok (mkw CReaped WDone).
Proof.
  intros hist [c w] st r (I1 & I2 & _) H. cbn [wchild wwait] in *.
  destruct c, w; cbn in H; wcase H; injection H as <-;
    destruct (I2 _ eq_refl) as [Hx F]; try discriminate F; auto.
Qed.

Lemma wrun_deliver : forall tr s hist r,
  winv hist s -> wrun s tr = Some r ->
  forall pre st post, tr = pre ++ Deliver st :: post ->
  In (EnvExit st) (hist ++ pre) /\ post = [] /\ r = Ok (mkw CReaped WDone).
Proof.
  induction tr as [|l tr IH]; intros s hist r I H pre st post E.
  - destruct pre; discriminate.
  - destruct pre as [|l0 pre].
    + cbn in E. injection E as E1 E2. subst l tr. cbn [wrun] in H.
      destruct (wstep s (Deliver st)) as [r1|] eqn:S; [|discriminate].
      destruct (wstep_deliver _ _ _ _ I S) as [Hin ->].
      apply wrun_stuck in H; [|apply wdone_stuck]. destruct H as [-> ->].
      rewrite app_nil_r. auto.
    + cbn in E. injection E as E1 E2. subst l0 tr. cbn [wrun] in H.
      destruct (wstep s l) as [[s1|c]|] eqn:S; try discriminate.
      * replace (hist ++ l :: pre) with ((hist ++ [l]) ++ pre)
          by (rewrite <- app_assoc; reflexivity).
        eapply IH; eauto. eapply wstep_inv; eauto.
      * destruct pre; discriminate.
Qed.

Lemma wrun_deliver_count : forall tr s hist r,
  winv hist s -> wrun s tr = Some r -> length (filter is_deliver tr) <= 1.
Proof.
  induction tr as [|l tr IH]; intros s hist r I H; [cbn; lia|].
  destruct (is_deliver l) eqn:D.
  - destruct l; try discriminate.
    destruct (wrun_deliver _ _ _ _ I H [] st tr eq_refl) as (_ & -> & _). cbn. lia.
  - cbn [filter]. rewrite D. cbn [wrun] in H.
    destruct (wstep s l) as [[s1|c]|] eqn:S; try discriminate.
    + apply (IH s1 (hist ++ [l]) r); auto. eapply wstep_inv; eauto.
    + destruct tr; [cbn; lia|discriminate].
Qed.

Lemma wstep_exit_facts : forall s l s',
  wstep s l = Some (Ok s') ->
  (is_exit l = true -> wchild s = CRunning /\ wchild s' <> CRunning) /\
  (wchild s <> CRunning -> wchild s' <> CRunning).
Proof.
  intros [c w] l s' H. cbn [wchild wwait] in *.
  destruct l as [st|m| | |st|e|st|e| | ]; destruct c as [|zs|]; destruct w as [| | | | |gs|fe|];
    try destruct m; cbn in H; wcase H; injection H as <-; cbn [wchild is_exit];
    split; intros; try discriminate; try split; try congruence.
Qed.

Lemma wrun_exit_count : forall tr s r,
  wrun s tr = Some r ->
  length (filter is_exit tr) <= (match wchild s with CRunning => 1 | _ => 0 end).
Proof.
  induction tr as [|l tr IH]; intros s r H; [cbn; lia|].
  cbn [wrun] in H. destruct (wstep s l) as [[s1|c]|] eqn:S; try discriminate.
  - destruct (wstep_exit_facts _ _ _ S) as [F1 F2].
    specialize (IH _ _ H). cbn [filter].
    destruct (is_exit l) eqn:X.
    + destruct F1 as [G1 G2]; auto. rewrite G1. cbn [length].
      destruct (wchild s1); [congruence|lia|lia].
    + destruct (wchild s) eqn:C.
      * destruct (wchild s1); lia.
      * destruct (wchild s1) eqn:C1; try lia. exfalso. apply F2; congruence.
      * destruct (wchild s1) eqn:C1; try lia. exfalso. apply F2; congruence.
  - destruct tr; [|discriminate]. cbn [filter].
    destruct l; cbn [is_exit length]; try lia.
    destruct s as [c0 w0]; destruct c0, w0; discriminate.
Qed.

Lemma wrun_panic_only_by_fault : forall tr s c,
  wrun s tr = Some (Panic c) -> In EnvJobCancelled tr \/ In EnvTakeFails tr.
Proof.
  induction tr as [|l tr IH]; intros s c H; [discriminate|].
  cbn [wrun] in H. destruct (wstep s l) as [[s1|c1]|] eqn:S; try discriminate.
  - destruct (IH _ _ H); [left|right]; right; auto.
  - destruct s as [c0 w0].
    destruct l as [st|m| | |st|e|st|e| | ]; try (left; left; reflexivity);
      try (right; left; reflexivity);
      destruct c0, w0; try destruct m; cbn in S; wcase S.
Qed.

(* liveness: once the child has exited, a started wait finishes within four
   steps, none of them an environment fault *)
Lemma wait_finishes : forall s st,
  wchild s = CZombie st -> wait_pending (wwait s) = true ->
  wrun s (finish_wait (wwait s) st) = Some (Ok (mkw CReaped WDone)) /\
  In (Deliver st) (finish_wait (wwait s) st) /\
  length (finish_wait (wwait s) st) <= 4 /\
  forallb (fun l => negb (is_env_fault l)) (finish_wait (wwait s) st) = true.
Proof.
  intros [c w] st C P. cbn [wchild wwait] in *. subst c.
  destruct w; try discriminate; cbn; repeat (rewrite N.eqb_refl; cbn); repeat split; auto 10; try lia.
Qed.

Lemma reachable_pending : forall tr s st,
  wrun winit tr = Some (Ok s) ->
  wchild s = CZombie st -> wwait s <> WIdle -> (forall e, ~ In (OsFail e) tr) ->
  wait_pending (wwait s) = true.
Proof.
  intros tr s st H C W F.
  pose proof (wrun_inv _ _ _ _ winit_inv H) as (I1 & I2 & I3 & I4 & I5 & I6).
  cbn [app] in *.
  destruct (wwait s) eqn:E; try reflexivity; try congruence.
  - destruct (I2 _ eq_refl) as [_ G]. congruence.
  - exfalso. eapply F. apply I4. reflexivity.
  - destruct I5 as [G|[e G]]; auto; [congruence|]. exfalso. eapply F; eauto.
Qed.

(* the statement of C20_wait_once *)
Lemma wait_once : forall (tr : list wlabel) (r : R wstate),
  wrun winit tr = Some r ->
  length (filter is_deliver tr) <= 1 /\
  length (filter is_exit tr) <= 1 /\
  (forall pre st post, tr = pre ++ Deliver st :: post ->
     In (EnvExit st) pre /\ post = [] /\ r = Ok (mkw CReaped WDone)) /\
  (forall c, r = Panic c -> In EnvJobCancelled tr \/ In EnvTakeFails tr).
Proof.
  intros tr r H. repeat split.
  - eapply wrun_deliver_count; eauto. apply winit_inv.
  - apply (wrun_exit_count _ _ _ H).
  - destruct (wrun_deliver _ _ _ _ winit_inv H _ _ _ H0) as (G & _ & _). exact G.
  - destruct (wrun_deliver _ _ _ _ winit_inv H _ _ _ H0) as (_ & G & _). exact G.
  - destruct (wrun_deliver _ _ _ _ winit_inv H _ _ _ H0) as (_ & _ & G). exact G.
  - intros c ->. eapply wrun_panic_only_by_fault; eauto.
Qed.

Lemma wait_live : forall (tr : list wlabel) (s : wstate) (st : status),
  wrun winit tr = Some (Ok s) ->
  wchild s = CZombie st -> wwait s <> WIdle -> (forall e, ~ In (OsFail e) tr) ->
  exists k, length k <= 4 /\ In (Deliver st) k /\
            forallb (fun l => negb (is_env_fault l)) k = true /\
            wrun winit (tr ++ k) = Some (Ok (mkw CReaped WDone)).
Proof.
  intros tr s st H C W F.
  pose proof (reachable_pending _ _ _ H C W F) as P.
  destruct (wait_finishes s st C P) as (R1 & R2 & R3 & R4).
  exists (finish_wait (wwait s) st). repeat split; auto.
  clear - H R1. revert H. generalize winit.
  induction tr as [|l tr IH]; intros s0 H.
  - cbn in H. injection H as ->. exact R1.
  - cbn [app wrun] in *. destruct (wstep s0 l) as [[s1|c]|]; try discriminate.
    + apply IH; auto.
    + destruct tr; discriminate.
Qed.

(* ---------------------------------------------------------------------- *)
(* request lengths of huge buffers                                         *)

Lemma request_len_le b n : (request_len b n <= n)%N.
Proof. unfold request_len. destruct b; [apply N.le_min_l|apply N.le_refl]. Qed.

Lemma request_len_pos b n : (0 < n)%N -> (0 < request_len b n)%N.
Proof.
  intros H. unfold request_len. destruct b; [|exact H].
  apply N.min_glb_lt; [exact H|reflexivity].
Qed.

Lemma request_len_small b n : (n <= U32_MAX)%N -> request_len b n = n.
Proof. intros H. unfold request_len. destruct b; [apply N.min_l; exact H|reflexivity]. Qed.

Lemma request_len_huge n : (U32_MAX <= n)%N -> request_len true n = U32_MAX.
Proof. intros H. unfold request_len. apply N.min_r. exact H. Qed.

Lemma request_len_poll n : request_len false n = n.
Proof. reflexivity. Qed.

(* a non-empty buffer and a pipe with room: the write moves at least one byte
   (never Ok(0) / WriteZero), at most the buffer *)
Lemma write_accepts_pos b p n :
  (0 < n)%N -> 0 < pipe_free p ->
  (0 < write_accepts p (request_len b n))%N /\ (write_accepts p (request_len b n) <= n)%N.
Proof.
  intros Hn Hf. unfold write_accepts. split.
  - apply N.min_glb_lt; [apply request_len_pos; exact Hn|].
    destruct (pipe_free p) as [|f]; [inversion Hf|]. cbn [N.of_nat]. reflexivity.
  - eapply N.le_trans; [apply N.le_min_l|apply request_len_le].
Qed.

(* a non-empty capacity and bytes in the pipe: the read returns at least one
   byte (no premature end of file), at most the capacity *)
Lemma read_returns_pos b p cap :
  (0 < cap)%N -> pq p <> [] ->
  (0 < read_returns p (request_len b cap))%N /\ (read_returns p (request_len b cap) <= cap)%N.
Proof.
  intros Hn Hq. unfold read_returns. split.
  - apply N.min_glb_lt; [apply request_len_pos; exact Hn|].
    destruct (pq p) as [|x q]; [contradiction|]. cbn [length]. reflexivity.
  - eapply N.le_trans; [apply N.le_min_l|apply request_len_le].
Qed.

(* the counts agree with the byte-level pipe reference *)
Lemma write_accepts_is_pipe_write p d :
  rclosed p = false -> d <> [] -> 0 < pipe_free p ->
  snd (pipe_write p d) = WOk (N.to_nat (write_accepts p (N.of_nat (length d)))).
Proof.
  intros Hr Hd Hf. unfold pipe_write, write_accepts. destruct d as [|x d]; [contradiction|].
  rewrite Hr. rewrite <- Nat2N.inj_min, Nat2N.id.
  destruct (Nat.eqb_spec (Nat.min (length (x :: d)) (pipe_free p)) 0) as [E|E];
    [cbn [length] in E; lia|reflexivity].
Qed.

Lemma read_returns_is_pipe_read p k :
  pq p <> [] -> 0 < k ->
  exists p' bs, pipe_read p k = (p', ROk bs) /\
                length bs = N.to_nat (read_returns p (N.of_nat k)).
Proof.
  intros Hq Hk. unfold pipe_read, read_returns.
  destruct (Nat.eqb_spec k 0) as [E|E]; [lia|].
  destruct (pq p) as [|x q] eqn:Q; [contradiction|].
  eexists. eexists. split; [reflexivity|].
  rewrite firstn_length, <- Nat2N.inj_min, Nat2N.id. reflexivity.
Qed.
