(* ProcSpecThm.v — lemmas about the child-process reference (model/ProcSpec.v). *)
From Compio.Model Require Import Base PipeSpec ProcSpec.
From Compio.Thm Require Import ListFacts.

(* ====================================================================== *)
(* the pipe reference, one call at a time                                   *)

Lemma pipe_write_spec p d p' r :
  pipe_write p d = (p', r) -> rclosed p = false ->
  match r with
  | WOk n => n <= length d /\ n <= pipe_free p /\ pq p' = pq p ++ firstn n d /\
             pcap p' = pcap p /\ wclosed p' = wclosed p /\ rclosed p' = false /\
             (d <> [] -> 0 < n) /\ (n = 0 -> p' = p)
  | WBlock => p' = p /\ d <> [] /\ pipe_free p = 0
  | WErr _ => False
  end.
Proof.
  intros H Hr. unfold pipe_write in H. rewrite Hr in H.
  destruct d as [|x d].
  - inversion H; subst. cbn. rewrite app_nil_r. repeat split; auto; try lia. congruence.
  - remember (Nat.min (length (x :: d)) (pipe_free p)) as m eqn:Em.
    destruct (Nat.eqb_spec m 0) as [E|E]; injection H as <- <-.
    + repeat split; auto; try congruence. cbn [length] in Em. lia.
    + cbn [pipe_with_q pq pcap wclosed rclosed].
      repeat split; auto; try (intros; lia).
Qed.

Lemma pipe_read_spec p k p' r :
  pipe_read p k = (p', r) ->
  match r with
  | ROk bs => bs = firstn k (pq p) /\ pq p' = skipn k (pq p) /\ pcap p' = pcap p /\
              wclosed p' = wclosed p /\ rclosed p' = rclosed p /\
              (bs = [] -> 0 < k -> pq p = [] /\ wclosed p = true)
  | RBlock => p' = p /\ pq p = [] /\ wclosed p = false /\ 0 < k
  end.
Proof.
  intros H. unfold pipe_read in H.
  destruct (Nat.eqb_spec k 0) as [E|E].
  - injection H as <- <-. subst k. cbn [firstn skipn]. repeat split; auto; lia.
  - destruct (pq p) as [|x q] eqn:Q.
    + destruct (wclosed p) eqn:W; injection H as <- <-.
      * destruct k; cbn [firstn skipn]; repeat split; auto.
      * repeat split; auto. lia.
    + injection H as <- <-. cbn [pipe_with_q pq pcap wclosed rclosed].
      repeat split; auto; destruct k; try lia; discriminate.
Qed.

(* ====================================================================== *)
(* one direction                                                            *)

Definition chan_inv (cap : nat) (data : list byte) (c : chan) : Prop :=
  pcap (cpipe c) = cap /\
  cgot c ++ pq (cpipe c) ++ ctodo c = data /\
  length (pq (cpipe c)) <= pcap (cpipe c) /\
  rclosed (cpipe c) = false /\
  (ceof c = true -> wclosed (cpipe c) = true /\ pq (cpipe c) = []).

Lemma firstn_firstn_le {A} (l : list A) n k :
  n <= length (firstn k l) -> firstn n (firstn k l) = firstn n l.
Proof.
  intros H. rewrite firstn_firstn. rewrite firstn_length in H.
  replace (Nat.min n k) with n by lia. reflexivity.
Qed.

Lemma chan_init_inv cap data : chan_inv cap data (chan_init cap data).
Proof.
  unfold chan_inv, chan_init; cbn. repeat split; auto; try lia.
Qed.

Lemma chan_step_inv cap data c s : chan_inv cap data c -> chan_inv cap data (chan_step c s).
Proof.
  intros Hinv. pose proof Hinv as (Hcap & Hd & Hl & Hr & He).
  destruct s as [k|k|]; unfold chan_step.
  - destruct (wclosed (cpipe c)) eqn:W; [exact Hinv|].
    destruct (pipe_write (cpipe c) (firstn k (ctodo c))) as [p' r] eqn:E.
    pose proof (pipe_write_spec _ _ _ _ E Hr) as S.
    destruct r as [n| |e]; [|exact Hinv|exact Hinv].
    destruct S as (Hn & Hf & Hq & Hc & Hw & Hr' & _ & _).
    unfold chan_inv; cbn [cpipe ctodo cgot ceof].
    rewrite Hq, Hc, Hw, (firstn_firstn_le _ _ _ Hn). repeat split; auto.
    + rewrite <- Hd. rewrite <- !app_assoc. rewrite firstn_skipn. reflexivity.
    + rewrite app_length, firstn_length. unfold pipe_free in Hf. lia.
    + apply He in H. destruct H; discriminate.
    + apply He in H. destruct H; discriminate.
  - destruct (pipe_read (cpipe c) k) as [p' r] eqn:E.
    pose proof (pipe_read_spec _ _ _ _ E) as S.
    destruct r as [bs|]; [|exact Hinv].
    destruct S as (Hb & Hq & Hc & Hw & Hr' & Hz).
    unfold chan_inv; cbn [cpipe ctodo cgot ceof].
    rewrite Hq, Hc, Hw, Hr', Hb. repeat split; auto.
    + rewrite <- Hd. rewrite <- !app_assoc. rewrite (app_assoc (firstn k _)).
      rewrite firstn_skipn. reflexivity.
    + rewrite skipn_length. lia.
    + rewrite orb_true_iff, andb_true_iff in H. destruct H as [F|[K N]].
      * apply He in F. tauto.
      * rewrite <- Hb in N. destruct bs; [|discriminate].
        apply negb_true_iff in K. apply Nat.eqb_neq in K.
        apply Hz; auto. lia.
    + rewrite orb_true_iff, andb_true_iff in H. destruct H as [F|[K N]].
      * apply He in F. destruct F as [_ F]. rewrite F. destruct k; reflexivity.
      * rewrite <- Hb in N. destruct bs; [|discriminate].
        apply negb_true_iff in K. apply Nat.eqb_neq in K.
        destruct Hz as [Z _]; auto; try lia. rewrite Z. destruct k; reflexivity.
  - unfold chan_inv; cbn [cpipe ctodo cgot ceof pipe_close_w pq pcap wclosed rclosed].
    repeat split; auto. apply He in H. tauto.
Qed.

Lemma run_inv cap data sch : forall c, chan_inv cap data c -> chan_inv cap data (run sch c).
Proof.
  induction sch as [|s r IH]; intros c H; cbn [run]; auto.
  apply IH. apply chan_step_inv. exact H.
Qed.

(* the statement of C20_stdio_complete *)
Lemma stdio_complete : forall (cap : nat) (data : list byte) (sch : list step),
  let c := run sch (chan_init cap data) in
  cgot c ++ pq (cpipe c) ++ ctodo c = data /\
  length (pq (cpipe c)) <= cap /\
  (ceof c = true -> wclosed (cpipe c) = true /\ pq (cpipe c) = [] /\ cgot c ++ ctodo c = data) /\
  (ceof c = true -> ctodo c = [] -> cgot c = data).
Proof.
  intros cap data sch c.
  assert (I : chan_inv cap data c) by (apply run_inv, chan_init_inv).
  destruct I as (Hcap & Hd & Hl & Hr & He).
  repeat split; auto; try lia.
  - apply He in H. tauto.
  - apply He in H. tauto.
  - apply He in H. destruct H as [_ Q]. rewrite Q in Hd. exact Hd.
  - intros F T. apply He in F. destruct F as [_ Q]. rewrite Q, T in Hd.
    rewrite app_nil_r in Hd. exact Hd.
Qed.
