(* ProcSpecThm.v — lemmas about the child-process reference (model/ProcSpec.v). *)
From Compio.Model Require Import Base PipeSpec ProcSpec.
From Compio.Thm Require Import ListFacts.

(* ====================================================================== *)
(* the pipe reference, one call at a time                                   *)

Lemma pipe_write_spec p d p' r :
  pipe_write p d = (p', r) -> rclosed p = false ->
  match r with
  | WOk n => n <= length d /\ n <= pipe_free p /\ pq p' = pq p ++ firstn n d /\
             pcap p' = pcap p /\ wclosed p' = wclosed p /\ rclosed p' = false /\
             (d <> [] -> 0 < n) /\ (n = 0 -> p' = p)
  | WBlock => p' = p /\ d <> [] /\ pipe_free p = 0
  | WErr _ => False
  end.
Proof.
  intros H Hr. unfold pipe_write in H. rewrite Hr in H.
  destruct d as [|x d].
  - inversion H; subst. cbn. rewrite app_nil_r. repeat split; auto; try lia. congruence.
  - remember (Nat.min (length (x :: d)) (pipe_free p)) as m eqn:Em.
    destruct (Nat.eqb_spec m 0) as [E|E]; injection H as <- <-.
    + repeat split; auto; try congruence. cbn [length] in Em. lia.
    + cbn [pipe_with_q pq pcap wclosed rclosed].
      repeat split; auto; try (intros; lia).
Qed.

Lemma pipe_read_spec p k p' r :
  pipe_read p k = (p', r) ->
  match r with
  | ROk bs => bs = firstn k (pq p) /\ pq p' = skipn k (pq p) /\ pcap p' = pcap p /\
              wclosed p' = wclosed p /\ rclosed p' = rclosed p /\
              (bs = [] -> 0 < k -> pq p = [] /\ wclosed p = true)
  | RBlock => p' = p /\ pq p = [] /\ wclosed p = false /\ 0 < k
  end.
Proof.
  intros H. unfold pipe_read in H.
  destruct (Nat.eqb_spec k 0) as [E|E].
  - injection H as <- <-. subst k. cbn [firstn skipn]. repeat split; auto; lia.
  - destruct (pq p) as [|x q] eqn:Q.
    + destruct (wclosed p) eqn:W; injection H as <- <-.
      * destruct k; cbn [firstn skipn]; repeat split; auto.
      * repeat split; auto. lia.
    + injection H as <- <-. cbn [pipe_with_q pq pcap wclosed rclosed].
      repeat split; auto; destruct k; try lia; discriminate.
Qed.

(* ====================================================================== *)
(* one direction                                                            *)

Definition chan_inv (cap : nat) (data : list byte) (c : chan) : Prop :=
  pcap (cpipe c) = cap /\
  cgot c ++ pq (cpipe c) ++ ctodo c = data /\
  length (pq (cpipe c)) <= pcap (cpipe c) /\
  rclosed (cpipe c) = false /\
  (ceof c = true -> wclosed (cpipe c) = true /\ pq (cpipe c) = []).

Lemma firstn_firstn_le {A} (l : list A) n k :
  n <= length (firstn k l) -> firstn n (firstn k l) = firstn n l.
Proof.
  intros H. rewrite firstn_firstn. rewrite firstn_length in H.
  replace (Nat.min n k) with n by lia. reflexivity.
Qed.

Lemma chan_init_inv cap data : chan_inv cap data (chan_init cap data).
Proof.
  unfold chan_inv, chan_init; cbn. repeat split; auto; try lia.
Qed.

Lemma chan_step_inv cap data c s : chan_inv cap data c -> chan_inv cap data (chan_step c s).
Proof.
  intros Hinv. pose proof Hinv as (Hcap & Hd & Hl & Hr & He).
  destruct s as [k|k|]; unfold chan_step.
  - destruct (wclosed (cpipe c)) eqn:W; [exact Hinv|].
    destruct (pipe_write (cpipe c) (firstn k (ctodo c))) as [p' r] eqn:E.
    pose proof (pipe_write_spec _ _ _ _ E Hr) as S.
    destruct r as [n| |e]; [|exact Hinv|exact Hinv].
    destruct S as (Hn & Hf & Hq & Hc & Hw & Hr' & _ & _).
    unfold chan_inv; cbn [cpipe ctodo cgot ceof].
    rewrite Hq, Hc, Hw, (firstn_firstn_le _ _ _ Hn). repeat split; auto.
    + rewrite <- Hd. rewrite <- !app_assoc. rewrite firstn_skipn. reflexivity.
    + rewrite app_length, firstn_length. unfold pipe_free in Hf. lia.
    + apply He in H. destruct H; discriminate.
    + apply He in H. destruct H; discriminate.
  - destruct (pipe_read (cpipe c) k) as [p' r] eqn:E.
    pose proof (pipe_read_spec _ _ _ _ E) as S.
    destruct r as [bs|]; [|exact Hinv].
    destruct S as (Hb & Hq & Hc & Hw & Hr' & Hz).
    unfold chan_inv; cbn [cpipe ctodo cgot ceof].
    rewrite Hq, Hc, Hw, Hr', Hb. repeat split; auto.
    + rewrite <- Hd. rewrite <- !app_assoc. rewrite (app_assoc (firstn k _)).
      rewrite firstn_skipn. reflexivity.
    + rewrite skipn_length. lia.
    + rewrite orb_true_iff, andb_true_iff in H. destruct H as [F|[K N]].
      * apply He in F. tauto.
      * rewrite <- Hb in N. destruct bs; [|discriminate].
        apply negb_true_iff in K. apply Nat.eqb_neq in K.
        apply Hz; auto. lia.
    + rewrite orb_true_iff, andb_true_iff in H. destruct H as [F|[K N]].
      * apply He in F. destruct F as [_ F]. rewrite F. destruct k; reflexivity.
      * rewrite <- Hb in N. destruct bs; [|discriminate].
        apply negb_true_iff in K. apply Nat.eqb_neq in K.
        destruct Hz as [Z _]; auto; try lia. rewrite Z. destruct k; reflexivity.
  - unfold chan_inv; cbn [cpipe ctodo cgot ceof pipe_close_w pq pcap wclosed rclosed].
    repeat split; auto. apply He in H. tauto.
Qed.

Lemma run_inv cap data sch : forall c, chan_inv cap data c -> chan_inv cap data (run sch c).
Proof.
  induction sch as [|s r IH]; intros c H; cbn [run]; auto.
  apply IH. apply chan_step_inv. exact H.
Qed.

(* the statement of C20_stdio_complete *)
Lemma stdio_complete : forall (cap : nat) (data : list byte) (sch : list step),
  let c := run sch (chan_init cap data) in
  cgot c ++ pq (cpipe c) ++ ctodo c = data /\
  length (pq (cpipe c)) <= cap /\
  (ceof c = true -> wclosed (cpipe c) = true /\ pq (cpipe c) = [] /\ cgot c ++ ctodo c = data) /\
  (ceof c = true -> ctodo c = [] -> cgot c = data).
Proof.
  intros cap data sch c.
  assert (I : chan_inv cap data c) by (apply run_inv, chan_init_inv).
  destruct I as (Hcap & Hd & Hl & Hr & He).
  repeat split; auto; try lia.
  - apply He in H. tauto.
  - apply He in H. tauto.
  - apply He in H. destruct H as [_ Q]. rewrite Q in Hd. exact Hd.
  - intros F T. apply He in F. destruct F as [_ Q]. rewrite Q, T in Hd.
    rewrite app_nil_r in Hd. exact Hd.
Qed.

(* ---------------------------------------------------------------------- *)
(* progress: a state that has not reached end-of-file always has an        *)
(* enabled step                                                             *)

Lemma chan_progress : forall c,
  1 <= pcap (cpipe c) -> length (pq (cpipe c)) <= pcap (cpipe c) ->
  rclosed (cpipe c) = false -> ceof c = false ->
  exists s, enabled c s = true.
Proof.
  intros c Hc Hl Hr He. unfold enabled, chan_eqb_progress.
  destruct (pq (cpipe c)) as [|x q] eqn:Q.
  - destruct (wclosed (cpipe c)) eqn:W.
    + exists (Cons 1). unfold chan_step, pipe_read. cbn [Nat.eqb]. rewrite Q, W.
      cbn [ceof cgot ctodo cpipe]. rewrite He. cbn. rewrite !orb_true_r. reflexivity.
    + destruct (ctodo c) as [|y t] eqn:T.
      * exists CloseW. unfold chan_step. cbn [ceof cgot ctodo cpipe pipe_close_w wclosed].
        cbn. rewrite !orb_true_r. reflexivity.
      * exists (Prod 1). unfold chan_step. rewrite W.
        destruct (pipe_write (cpipe c) (firstn 1 (ctodo c))) as [p' r] eqn:E.
        pose proof (pipe_write_spec _ _ _ _ E Hr) as S. rewrite T in S. cbn [firstn] in S.
        destruct r as [n| |e].
        -- destruct S as (Hn & _ & _ & _ & _ & _ & Hpos & _).
           assert (0 < n) by (apply Hpos; discriminate).
           assert (L : forall a b, 0 < b -> 0 < a -> (a - b <? a) = true)
             by (intros; apply Nat.ltb_lt; lia).
           cbn [ctodo cgot ceof cpipe]. rewrite skipn_length. rewrite ?T. cbn [length].
           rewrite L by lia. reflexivity.
        -- destruct S as (_ & _ & F). unfold pipe_free in F. rewrite Q in F.
           cbn [length] in F. lia.
        -- destruct S.
  - exists (Cons 1). unfold chan_step, pipe_read. cbn [Nat.eqb]. rewrite Q.
    cbn [ceof cgot ctodo cpipe firstn]. rewrite app_length. cbn [length].
    replace (length (cgot c) <? length (cgot c) + 1) with true
      by (symmetry; apply Nat.ltb_lt; lia).
    rewrite orb_true_r. reflexivity.
Qed.

(* the only way a producer with data and an open end is blocked: the pipe is
   full, i.e. the other side does not read *)
Lemma prod_blocked_iff : forall c k,
  rclosed (cpipe c) = false -> wclosed (cpipe c) = false ->
  0 < k -> ctodo c <> [] ->
  (enabled c (Prod k) = false <-> pcap (cpipe c) <= length (pq (cpipe c))).
Proof.
  intros c k Hr W Hk T. unfold enabled, chan_eqb_progress, chan_step. rewrite W.
  destruct (ctodo c) as [|y t] eqn:Ht; [congruence|].
  destruct k as [|k]; [lia|]. cbn [firstn].
  unfold pipe_write. rewrite Hr.
  remember (Nat.min (length (y :: firstn k t)) (pipe_free (cpipe c))) as m eqn:Em.
  unfold pipe_free in Em. cbn [length] in Em.
  destruct (Nat.eqb_spec m 0) as [E|E].
  - rewrite ?W, ?Ht, !Nat.ltb_irrefl.
    destruct (ceof c); cbn; split; auto; intros _; lia.
  - cbn [ctodo cgot ceof cpipe]. split; [|intros F; lia].
    intros F. exfalso.
    rewrite !orb_false_iff in F. destruct F as [[[F _] _] _].
    apply Nat.ltb_ge in F. rewrite skipn_length in F. cbn [length] in F. lia.
Qed.

(* ... and in that state a read is enabled *)
Lemma full_pipe_read_enabled : forall c k,
  1 <= pcap (cpipe c) -> pcap (cpipe c) <= length (pq (cpipe c)) -> 0 < k ->
  enabled c (Cons k) = true.
Proof.
  intros c k Hc Hf Hk. unfold enabled, chan_eqb_progress, chan_step, pipe_read.
  destruct k as [|k]; [lia|]. cbn [Nat.eqb].
  destruct (pq (cpipe c)) as [|x q] eqn:Q; [cbn [length] in Hf; lia|].
  cbn [ceof cgot ctodo cpipe firstn]. rewrite app_length. cbn [length].
  replace (length (cgot c) <? length (cgot c) + S (length (firstn k q))) with true
    by (symmetry; apply Nat.ltb_lt; lia).
  rewrite orb_true_r. reflexivity.
Qed.

(* without a reader a full pipe stays full: the producer (the child) makes no
   progress however often it is scheduled ("wait before drain" with an output
   above the capacity never terminates, in the operating system as well) *)
Lemma no_reader_no_progress : forall sch c,
  forallb (fun s => negb (is_cons s)) sch = true ->
  rclosed (cpipe c) = false ->
  pcap (cpipe c) <= length (pq (cpipe c)) ->
  ctodo (run sch c) = ctodo c /\ cgot (run sch c) = cgot c /\
  pq (cpipe (run sch c)) = pq (cpipe c).
Proof.
  induction sch as [|s r IH]; intros c Hs Hr Hf; cbn [run]; auto.
  cbn [forallb] in Hs. apply andb_true_iff in Hs. destruct Hs as [Hs1 Hs2].
  assert (G : ctodo (chan_step c s) = ctodo c /\ cgot (chan_step c s) = cgot c /\
              cpipe (chan_step c s) = cpipe c \/
              ctodo (chan_step c s) = ctodo c /\ cgot (chan_step c s) = cgot c /\
              cpipe (chan_step c s) = pipe_close_w (cpipe c)).
  { destruct s as [k|k|]; [|discriminate|right; cbn; auto].
    left. unfold chan_step. destruct (wclosed (cpipe c)); auto.
    unfold pipe_write. rewrite Hr. destruct (firstn k (ctodo c)) as [|y t] eqn:F; cbn; auto.
    unfold pipe_free. replace (pcap (cpipe c) - length (pq (cpipe c))) with 0 by lia.
    rewrite ?Nat.min_0_r. cbn. auto. }
  destruct G as [(G1 & G2 & G3)|(G1 & G2 & G3)].
  - destruct (IH (chan_step c s)) as (I1 & I2 & I3); auto; try (rewrite G3; auto).
    rewrite I1, I2, I3, G1, G2, G3. auto.
  - destruct (IH (chan_step c s)) as (I1 & I2 & I3); auto; try (rewrite G3; cbn; auto).
    rewrite I1, I2, I3, G1, G2, G3. cbn. auto.
Qed.

(* ---------------------------------------------------------------------- *)
(* a fair round-robin schedule delivers everything: liveness of the        *)
(* reference (used by the simulation in RunC20.v)                           *)

Definition measure (c : chan) : nat := 2 * length (ctodo c) + length (pq (cpipe c)).

Lemma prod_step_facts : forall cap data c kw,
  chan_inv cap data c -> wclosed (cpipe c) = false -> 1 <= kw -> 1 <= cap ->
  let c1 := chan_step c (Prod kw) in
  wclosed (cpipe c1) = false /\ ceof c1 = ceof c /\ measure c1 <= measure c /\
  (ctodo c <> [] -> measure c1 < measure c \/ 1 <= length (pq (cpipe c1))) /\
  (ctodo c = [] -> ctodo c1 = [] /\ pq (cpipe c1) = pq (cpipe c)).
Proof.
  intros cap data c kw (Hcap & Hd & Hl & Hr & He) W Hk Hc c1. subst c1.
  unfold chan_step. rewrite W.
  destruct (pipe_write (cpipe c) (firstn kw (ctodo c))) as [p' r] eqn:E.
  pose proof (pipe_write_spec _ _ _ _ E Hr) as S.
  destruct r as [n| |e].
  - destruct S as (Hn & Hf & Hq & Hc' & Hw & Hr' & Hpos & _).
    unfold measure. cbn [cpipe ctodo cgot ceof]. rewrite Hq, Hw.
    rewrite (firstn_firstn_le _ _ _ Hn).
    rewrite firstn_length in Hn.
    rewrite app_length, skipn_length, firstn_length.
    repeat split; auto; try lia.
    + intros T. left.
      assert (0 < n).
      { apply Hpos. destruct (ctodo c); [congruence|]. destruct kw; [lia|]. discriminate. }
      lia.
    + rewrite H. destruct n; reflexivity.
    + rewrite H. destruct n; cbn; rewrite app_nil_r; reflexivity.
  - destruct S as (-> & Hne & Hfree). unfold pipe_free in Hfree.
    repeat split; auto.
    + intros _. right. lia.
    + intros T. rewrite T in Hne. destruct kw; cbn in Hne; congruence.
  - destruct S.
Qed.

Lemma cons_step_facts : forall c kr,
  wclosed (cpipe c) = false -> 1 <= kr ->
  let c' := chan_step c (Cons kr) in
  wclosed (cpipe c') = false /\ ceof c' = ceof c /\ ctodo c' = ctodo c /\
  length (pq (cpipe c')) <= length (pq (cpipe c)) /\
  (1 <= length (pq (cpipe c)) -> length (pq (cpipe c')) < length (pq (cpipe c))).
Proof.
  intros c kr W Hk c'. subst c'. unfold chan_step.
  destruct (pipe_read (cpipe c) kr) as [p' r] eqn:E.
  pose proof (pipe_read_spec _ _ _ _ E) as S.
  destruct r as [bs|].
  - destruct S as (Hb & Hq & Hc & Hw & Hr' & Hz).
    cbn [cpipe ctodo cgot ceof]. rewrite Hq, Hw, skipn_length.
    repeat split; auto; try lia.
    destruct bs as [|b bs].
    + destruct Hz as [_ F]; auto. congruence.
    + cbn. rewrite andb_false_r, orb_false_r. reflexivity.
  - destruct S as (-> & Q & _ & _). repeat split; auto. rewrite Q. cbn. lia.
Qed.

Lemma fair_run : forall rounds cap data kw kr c,
  chan_inv cap data c -> 1 <= cap -> 1 <= kw -> 1 <= kr ->
  wclosed (cpipe c) = false -> ceof c = false -> measure c <= rounds ->
  let c' := run (fair rounds kw kr) c in
  cgot c' = data /\ ceof c' = true /\ ctodo c' = [] /\ pq (cpipe c') = [].
Proof.
  induction rounds as [|r IH]; intros cap data kw kr c I Hc Hkw Hkr W E M c'; subst c'.
  - unfold measure in M.
    assert (T : ctodo c = []) by (destruct (ctodo c); [auto|cbn in M; lia]).
    assert (Q : pq (cpipe c) = []) by (destruct (pq (cpipe c)); [auto|cbn in M; lia]).
    destruct I as (Hcap & Hd & Hl & Hr & He).
    cbn [fair run]. unfold chan_step at 2. unfold chan_step, pipe_read.
    cbn [cpipe ctodo cgot ceof pipe_close_w pq wclosed].
    destruct kr as [|kr]; [lia|]. cbn [Nat.eqb]. rewrite Q.
    cbn [cpipe ctodo cgot ceof pipe_close_w pq wclosed negb andb is_nil].
    rewrite orb_true_r, app_nil_r. rewrite Q, T in Hd. cbn in Hd. rewrite app_nil_r in Hd.
    auto.
  - cbn [fair run].
    pose proof (prod_step_facts cap data c kw I W Hkw Hc) as (W1 & E1 & M1 & P1 & P2).
    pose proof (chan_step_inv cap data c (Prod kw) I) as I1.
    set (c1 := chan_step c (Prod kw)) in *.
    pose proof (cons_step_facts c1 kr W1 Hkr) as (W2 & E2 & T2 & L2 & L3).
    pose proof (chan_step_inv cap data c1 (Cons kr) I1) as I2.
    set (c2 := chan_step c1 (Cons kr)) in *.
    apply (IH cap data kw kr c2); auto; try congruence.
    unfold measure in *. rewrite T2.
    destruct (ctodo c) as [|y t] eqn:T.
    + destruct P2 as [P2 P3]; auto. rewrite P2 in *. rewrite P3 in *.
      cbn [length] in *.
      destruct (Nat.eq_dec (length (pq (cpipe c))) 0) as [Z|Z]; [lia|].
      assert (length (pq (cpipe c2)) < length (pq (cpipe c))) by (apply L3; lia). lia.
    + destruct P1 as [P1|P1]; [congruence|lia|].
      assert (length (pq (cpipe c2)) < length (pq (cpipe c1))) by (apply L3; lia). lia.
Qed.

Lemma fair_completes : forall (cap : nat) (data : list byte) (kw kr rounds : nat),
  1 <= cap -> 1 <= kw -> 1 <= kr -> 2 * length data <= rounds ->
  let c := run (fair rounds kw kr) (chan_init cap data) in
  cgot c = data /\ ceof c = true /\ ctodo c = [] /\ pq (cpipe c) = [].
Proof.
  intros cap data kw kr rounds Hc Hkw Hkr Hr.
  apply (fair_run rounds cap data kw kr); auto.
  - apply chan_init_inv.
  - unfold measure, chan_init; cbn. lia.
Qed.
