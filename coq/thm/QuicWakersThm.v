(* QuicWakersThm.v — lemmas about model/QuicWakers.v (property C16). *)
From Compio.Model Require Import Base QuicWakers.

Local Ltac inv H := inversion H; subst; clear H.

(* ---------------------------------------------------------------------- *)
(* stream maps                                                              *)

Lemma sm_get_remove_same k m : sm_get k (sm_remove k m) = None.
Proof.
  induction m as [|[k' w] r IH]; cbn; auto.
  destruct (Nat.eqb k k') eqn:E; cbn; auto. rewrite E. auto.
Qed.

Lemma sm_get_remove_other k k' m : k <> k' -> sm_get k' (sm_remove k m) = sm_get k' m.
Proof.
  intros N. induction m as [|[k2 w] r IH]; cbn; auto.
  destruct (Nat.eqb k k2) eqn:E.
  - apply Nat.eqb_eq in E. subst k2.
    destruct (Nat.eqb k' k) eqn:E2; [apply Nat.eqb_eq in E2; congruence|]. exact IH.
  - cbn. destruct (Nat.eqb k' k2); auto.
Qed.

Lemma sm_get_insert_same k w m : sm_get k (sm_insert k w m) = Some w.
Proof. unfold sm_insert. cbn. rewrite Nat.eqb_refl. reflexivity. Qed.

Lemma sm_get_insert_other k k' w m : k <> k' -> sm_get k' (sm_insert k w m) = sm_get k' m.
Proof.
  intros N. unfold sm_insert. cbn.
  destruct (Nat.eqb k' k) eqn:E; [apply Nat.eqb_eq in E; congruence|].
  apply sm_get_remove_other; auto.
Qed.

Lemma sm_get_in k m w : sm_get k m = Some w -> In w (sm_wakers m).
Proof.
  induction m as [|[k' w'] r IH]; cbn; [discriminate|].
  destruct (Nat.eqb k k'); intros H; [inv H; auto|auto].
Qed.

Lemma sm_wakers_remove_incl k m w : In w (sm_wakers (sm_remove k m)) -> In w (sm_wakers m).
Proof.
  induction m as [|[k' w'] r IH]; cbn; auto.
  destruct (Nat.eqb k k'); cbn; intuition.
Qed.

Lemma pair_get_set_same {A} (d : dir) (x : A) p : pair_get d (pair_set d x p) = x.
Proof. destruct d; reflexivity. Qed.

Lemma pair_get_set_other {A} (d d' : dir) (x : A) p :
  d <> d' -> pair_get d' (pair_set d x p) = pair_get d' p.
Proof. destruct d, d'; cbn; intros H; try reflexivity; congruence. Qed.

(* ---------------------------------------------------------------------- *)
(* C16_terminate_wakes_all                                                  *)

Definition terminating (l : label) : bool :=
  match l with LClose | LEvent (QConnectionLost _) => true | _ => false end.

(* the step that terminates the connection wakes every registered waker, leaves
   no registration behind and stores an error *)
Lemma terminate_wakes_all c l :
  terminating l = true ->
  snd (step c l) = OWoken (registered c) /\
  registered (fst (step c l)) = [] /\
  error (fst (step c l)) <> None /\ connected (fst (step c l)) = false.
Proof.
  destruct l as [e| | | |]; try discriminate.
  - destruct e; try discriminate. intros _. cbn. repeat split; auto. discriminate.
  - intros _. cbn. repeat split; auto. discriminate.
Qed.

(* with an error stored, no poll of any future returns Pending, and the futures
   that look at the error first return exactly it *)
Lemma poll_after_error c e x w ready :
  error c = Some e ->
  fst (poll_waiter c x w ready) = c /\
  snd (poll_waiter c x w ready) <> PWait /\
  (error_first x = true -> snd (poll_waiter c x w ready) = PError e) /\
  (ready = false -> snd (poll_waiter c x w ready) = PError e).
Proof.
  intros He. destruct x; cbn; rewrite He; cbn; try (repeat split; auto; discriminate);
    destruct ready; cbn; rewrite ?He; repeat split; auto; try discriminate.
Qed.

Definition dead (c : conn) : Prop := error c <> None /\ registered c = [].

Lemma app_nil_inv {A} (a b : list A) : a ++ b = [] -> a = [] /\ b = [].
Proof. destruct a; cbn; [auto|discriminate]. Qed.

Lemma dead_tables c : dead c ->
  on_handshake_data c = None /\ on_connected c = [] /\ datagram_received c = [] /\
  datagrams_unblocked c = [] /\ stream_opened c = ([], []) /\ stream_available c = ([], []) /\
  writable c = [] /\ readable c = [] /\ stopped c = [].
Proof.
  intros [_ R]. unfold registered in R.
  repeat (apply app_nil_inv in R; let H := fresh "H" in destruct R as [H R]).
  destruct (on_handshake_data c); [discriminate|].
  destruct (stream_opened c) as [o1 o2]. destruct (stream_available c) as [a1 a2]. cbn in *. subst.
  unfold sm_wakers in *.
  destruct (writable c); [|discriminate]. destruct (readable c); [|discriminate].
  destruct (stopped c); [|discriminate]. repeat split; auto.
Qed.

Lemma dead_shape c : dead c ->
  exists e b, c = mkconn (Some e) b [] None [] [] ([], []) ([], []) [] [] [].
Proof.
  intros D. pose proof (dead_tables c D) as (T1 & T2 & T3 & T4 & T5 & T6 & T7 & T8 & T9).
  destruct D as [De _]. destruct c as [er co oc oh dr du so sa wr rd st]. cbn in *. subst.
  destruct er as [e|]; [|congruence]. exists e, co. reflexivity.
Qed.

Lemma dead_step c l : dead c -> dead (fst (step c l)) /\
  (forall r, snd (step c l) = OPoll r -> r <> PWait) /\
  (forall ws, snd (step c l) = OWoken ws -> ws = []).
Proof.
  intros D. destruct (dead_shape c D) as (e & b & ->).
  destruct l as [ev| |x w ready|k|k].
  - destruct ev; try (destruct rejected_0rtt); try (destruct d); cbn; unfold dead; cbn;
      (split; [split; [discriminate|reflexivity]|]);
      (split; [intros r H; discriminate H|intros ws H; inv H; reflexivity]).
  - cbn. unfold dead. cbn. split; [split; [discriminate|reflexivity]|].
    split; [intros r H; discriminate H|intros ws H; inv H; reflexivity].
  - cbn [step].
    set (c := mkconn (Some e) b [] None [] [] ([], []) ([], []) [] [] []) in *.
    pose proof (poll_after_error c e x w ready eq_refl) as (P1 & P2 & _).
    destruct (poll_waiter c x w ready) as [c1 r] eqn:P. cbn [fst snd] in *. subst c1.
    split; [exact D|]. split; [intros r0 H; inv H; exact P2|intros ws H; discriminate H].
  - cbn. unfold dead. cbn. split; [split; [discriminate|reflexivity]|]. split; intros ? H; discriminate H.
  - cbn. unfold dead. cbn. split; [split; [discriminate|reflexivity]|]. split; intros ? H; discriminate H.
Qed.

(* ... for ever: along every continuation *)
Lemma dead_run : forall ls c, dead c ->
  dead (fst (run c ls)) /\ (forall r, In (OPoll r) (snd (run c ls)) -> r <> PWait).
Proof.
  induction ls as [|l r IH]; intros c D; cbn.
  - split; [exact D|]. intros r0 F. destruct F.
  - destruct (step c l) as [c1 o] eqn:S. destruct (run c1 r) as [c2 os] eqn:Rn. cbn.
    pose proof (dead_step c l D) as (D1 & P1 & _). rewrite S in D1, P1. cbn in *.
    pose proof (IH c1 D1) as [D2 P2]. rewrite Rn in D2, P2. cbn in *.
    split; auto. intros r0 [H|H]; [apply P1; auto|apply P2; auto].
Qed.

Theorem terminate_then_nothing_hangs c l ls :
  terminating l = true ->
  snd (step c l) = OWoken (registered c) /\
  (forall r, In (OPoll r) (snd (run (fst (step c l)) ls)) -> r <> PWait) /\
  registered (fst (run (fst (step c l)) ls)) = [].
Proof.
  intros T. pose proof (terminate_wakes_all c l T) as (A & B & C & _).
  split; auto. assert (D : dead (fst (step c l))) by (split; auto).
  pose proof (dead_run ls _ D) as [[_ D2] P]. split; auto.
Qed.

(* ---------------------------------------------------------------------- *)
(* C16_event_wakes_waiter                                                   *)

(* a poll that returns Pending has put the waker where the matching event looks *)
Lemma pending_registers c x w ready c1 :
  poll_waiter c x w ready = (c1, PWait) -> In w (lookup c1 x) /\ error c1 = None.
Proof.
  destruct x; cbn; destruct (error c) eqn:He; try (destruct ready); cbn;
    try (destruct (connected c)); intros H; inv H; cbn; rewrite ?He;
    try (split; [|reflexivity]).
  all: try (left; reflexivity).
  all: try (apply in_or_app; right; left; reflexivity).
  all: try (rewrite pair_get_set_same; apply in_or_app; right; left; reflexivity).
  all: try (rewrite sm_get_insert_same; left; reflexivity).
  all: try (rewrite Nat.eqb_refl; left; reflexivity).
  all: destruct (existsb (Nat.eqb w) (on_connected c)) eqn:Ex;
    [apply existsb_exists in Ex; destruct Ex as (w0 & I0 & E0); apply Nat.eqb_eq in E0; subst; exact I0
    |apply in_or_app; right; left; reflexivity].
Qed.

(* the matching event wakes it *)
Lemma matching_event_wakes c e x w :
  matches e x = true -> In w (lookup c x) -> In w (snd (handle_event c e)).
Proof.
  destruct e, x; cbn; try discriminate; intros M H; auto.
  - destruct rejected_0rtt; cbn; auto. apply in_or_app. left. exact H.
  - apply Nat.eqb_eq in M. subst. unfold wake_stream. cbn. exact H.
  - apply Nat.eqb_eq in M. subst. unfold wake_stream. cbn. exact H.
  - apply Nat.eqb_eq in M. subst. unfold wake_stream. cbn. exact H.
  - apply Nat.eqb_eq in M. subst. unfold wake_stream. cbn. apply in_or_app. right. exact H.
  - apply Nat.eqb_eq in M. subst. unfold wake_stream. cbn. apply in_or_app. left. exact H.
  - apply Bool.eqb_prop in M. subst. exact H.
  - apply Bool.eqb_prop in M. subst. exact H.
Qed.

(* two waiters use different table entries *)
Definition same_slot (x y : waiter) : bool :=
  match x, y with
  | WConnecting, WConnecting | WHandshakeData, WHandshakeData
  | WRecvDatagram, WRecvDatagram | WSendDatagram, WSendDatagram => true
  | WOpen d, WOpen d' | WAccept d, WAccept d' => Bool.eqb d d'
  | WWrite k, WWrite k' | WStopped k, WStopped k' | WRead k, WRead k' => Nat.eqb k k'
  | _, _ => false
  end.

(* registering never touches another stream / kind *)
Lemma poll_keeps_others c x w ready y :
  same_slot x y = false -> lookup (fst (poll_waiter c x w ready)) y = lookup c y.
Proof.
  intros S.
  destruct x; cbn; destruct (error c) eqn:He; try (destruct ready); cbn;
    try (destruct (connected c)); cbn; try reflexivity;
    destruct y; cbn in *; try reflexivity; try discriminate S.
  all: try (apply pair_get_set_other; intros Q; subst; rewrite Bool.eqb_reflx in S; discriminate S).
  all: try (apply f_equal; apply sm_get_insert_other; intros Q; subst; rewrite Nat.eqb_refl in S; discriminate S).
Qed.

(* the queue tables never overwrite even within the same slot *)
Lemma poll_queue_keeps c x w ready w' :
  match x with WConnecting | WRecvDatagram | WSendDatagram | WOpen _ | WAccept _ => True | _ => False end ->
  In w' (lookup c x) -> In w' (lookup (fst (poll_waiter c x w ready)) x).
Proof.
  destruct x; try contradiction; intros _ H; cbn; destruct (error c); try (destruct ready); cbn; auto.
  all: try (apply in_or_app; left; exact H).
  all: try (rewrite pair_get_set_same; apply in_or_app; left; exact H).
  all: destruct (connected c); cbn; auto;
    destruct (existsb (Nat.eqb w) (on_connected c)); auto; apply in_or_app; left; exact H.
Qed.

(* ---------------------------------------------------------------------- *)
(* C16_no_cross_talk                                                        *)

Definition broadcast (e : qevent) : bool :=
  match e with QConnectionLost _ | QConnected true => true | _ => false end.

(* an event leaves every entry it does not match untouched *)
Lemma event_keeps_others c e y :
  broadcast e = false -> matches e y = false -> lookup (fst (handle_event c e)) y = lookup c y.
Proof.
  intros B M.
  destruct e; try discriminate B; try (destruct rejected_0rtt; try discriminate B);
    destruct y; cbn in *; try reflexivity; try discriminate M;
    unfold wake_stream; cbn.
  all: try (apply f_equal; apply sm_get_remove_other; intros Q; subst; rewrite Nat.eqb_refl in M; discriminate M).
  all: try (apply pair_get_set_other; intros Q; subst; rewrite Bool.eqb_reflx in M; discriminate M).
Qed.

(* ... and wakes only wakers registered under an entry it matches *)
Lemma event_wakes_only_matching c e w :
  broadcast e = false -> In w (snd (handle_event c e)) ->
  exists x, matches e x = true /\ In w (lookup c x).
Proof.
  intros B H.
  destruct e; try discriminate B; try (destruct rejected_0rtt; try discriminate B); cbn in H;
    unfold wake_stream in H; cbn in H.
  - exists WHandshakeData. split; auto.
  - exists WConnecting. split; auto.
  - exists (WRead s). cbn. rewrite Nat.eqb_refl. split; auto.
  - exists (WWrite s). cbn. rewrite Nat.eqb_refl. split; auto.
  - exists (WStopped s). cbn. rewrite Nat.eqb_refl. split; auto.
  - apply in_app_or in H. destruct H as [H|H].
    + exists (WStopped s). cbn. rewrite Nat.eqb_refl. split; auto.
    + exists (WWrite s). cbn. rewrite Nat.eqb_refl. split; auto.
  - exists (WOpen d). cbn. rewrite Bool.eqb_reflx. split; auto.
  - exists (WAccept d). cbn. rewrite Bool.eqb_reflx. split; auto.
  - exists WRecvDatagram. split; auto.
  - exists WSendDatagram. split; auto.
Qed.

(* every event (broadcasts included) only ever wakes registered wakers, and never
   registers anything *)
Lemma sm_remove_lookup_incl k k' m w :
  In w (opt_wakers (sm_get k' (sm_remove k m))) -> In w (opt_wakers (sm_get k' m)).
Proof.
  destruct (Nat.eq_dec k k') as [->|N].
  - rewrite sm_get_remove_same. intros [].
  - rewrite sm_get_remove_other; auto.
Qed.

(* a registered waiter stays registered until the step that wakes it, the drop
   of its own stream handle, or a new registration in its own single slot *)
Definition disturbs (l : label) (x : waiter) : bool :=
  match l with
  | LPoll y _ _ => same_slot y x
  | LDropSend k => match x with WWrite k' | WStopped k' => Nat.eqb k k' | _ => false end
  | LDropRecv k => match x with WRead k' => Nat.eqb k k' | _ => false end
  | _ => false
  end.

Lemma opt_sm_in k m w : In w (opt_wakers (sm_get k m)) -> In w (sm_wakers m).
Proof.
  destruct (sm_get k m) eqn:G; cbn; [|intros []]. intros [<-|[]]. eapply sm_get_in; eauto.
Qed.

Lemma lookup_in_registered c x w : In w (lookup c x) -> In w (registered c).
Proof.
  unfold registered. rewrite !in_app_iff.
  destruct x; cbn; intros H; try (apply opt_sm_in in H); try (destruct d; cbn in H); tauto.
Qed.

Lemma waiter_stays_or_woken c l x w :
  In w (lookup c x) -> disturbs l x = false ->
  In w (lookup (fst (step c l)) x) \/ (exists ws, snd (step c l) = OWoken ws /\ In w ws).
Proof.
  intros H D. destruct l as [e| |y w' ready|k|k]; cbn [step].
  - destruct (handle_event c e) as [c1 ws] eqn:He. cbn [fst snd].
    destruct (broadcast e) eqn:B.
    + destruct e; try discriminate B.
      * destruct rejected_0rtt; try discriminate B. cbn in He. inv He.
        destruct x; cbn in H |- *.
        all: try (left; exact H).
        all: right; eexists; (split; [reflexivity|]); rewrite !in_app_iff;
          try (apply opt_sm_in in H); tauto.
      * right. exists ws. split; auto. cbn in He. inv He. apply lookup_in_registered with (x := x). exact H.
    + destruct (matches e x) eqn:M.
      * right. exists ws. split; auto.
        pose proof (matching_event_wakes c e x w M H) as Hw. rewrite He in Hw. exact Hw.
      * left. pose proof (event_keeps_others c e x B M) as K. rewrite He in K. cbn in K. rewrite K. exact H.
  - right. eexists. split; [reflexivity|]. apply lookup_in_registered with (x := x). exact H.
  - left. cbn in D. destruct (poll_waiter c y w' ready) as [c1 r] eqn:P. cbn [fst snd].
    pose proof (poll_keeps_others c y w' ready x D) as K. rewrite P in K. cbn in K. rewrite K. exact H.
  - left. cbn [fst]. destruct x; cbn in *; try exact H.
    + rewrite sm_get_remove_other; auto. intros Q; subst; rewrite Nat.eqb_refl in D; discriminate D.
    + rewrite sm_get_remove_other; auto. intros Q; subst; rewrite Nat.eqb_refl in D; discriminate D.
  - left. cbn [fst]. destruct x; cbn in *; try exact H.
    rewrite sm_get_remove_other; auto. intros Q; subst; rewrite Nat.eqb_refl in D; discriminate D.
Qed.

(* C16_event_wakes_waiter, assembled: a future that returned Pending is woken by
   the first later step that is its matching event or a terminating step,
   whatever undisturbing steps come in between *)
Fixpoint woken_in (w : waker) (os : list output) : Prop :=
  match os with
  | [] => False
  | OWoken ws :: r => In w ws \/ woken_in w r
  | _ :: r => woken_in w r
  end.

Theorem blocked_future_is_woken : forall ls c x w ready c1 l,
  poll_waiter c x w ready = (c1, PWait) ->
  (forall l', In l' ls -> disturbs l' x = false) ->
  (terminating l = true \/ exists e, l = LEvent e /\ matches e x = true) ->
  woken_in w (snd (run c1 (ls ++ [l]))).
Proof.
  intros ls c x w ready c1 l P. apply pending_registers in P. destruct P as [Hin _].
  revert c1 Hin. induction ls as [|l0 r IH]; intros c1 Hin Hd Hl.
  - cbn. destruct (step c1 l) as [c2 o] eqn:S. cbn.
    destruct Hl as [T|(e & -> & M)].
    + pose proof (terminate_wakes_all c1 l T) as (A & _). rewrite S in A. cbn in A. subst o. cbn.
      left. eapply lookup_in_registered; eauto.
    + cbn in S. destruct (handle_event c1 e) as [c3 ws] eqn:He. inv S. cbn. left.
      pose proof (matching_event_wakes c1 e x w M Hin) as Hw. rewrite He in Hw. exact Hw.
  - cbn [app run]. destruct (step c1 l0) as [c2 o] eqn:S.
    destruct (run c2 (r ++ [l])) as [c3 os] eqn:Rn. cbn [snd].
    assert (D0 : disturbs l0 x = false) by (apply Hd; left; reflexivity).
    pose proof (waiter_stays_or_woken c1 l0 x w Hin D0) as [St|(ws & Eo & Iw)]; rewrite S in *; cbn in *.
    + assert (W : woken_in w (snd (run c2 (r ++ [l])))).
      { apply IH; auto. }
      rewrite Rn in W. cbn in W. destruct o; auto.
    + subst o. cbn. left. exact Iw.
Qed.

(* ---------------------------------------------------------------------- *)
(* dropping a send stream closes it towards the peer                        *)

Theorem send_drop_closes st :
  closed_towards_peer (fst (send_drop false st)) = true /\
  (closed_towards_peer st = false -> snd (send_drop false st) = true) /\
  (forall c, st = SStopped c -> fst (send_drop false st) = SReset c).
Proof.
  destruct st; cbn; repeat split; auto; try discriminate; intros c0 H; inversion H; reflexivity.
Qed.

(* ---------------------------------------------------------------------- *)
(* read_to_end returns exactly the bytes between the lowest offset delivered
   and the end of the stream                                               *)

From Compio.Thm Require Import ListFacts.

Lemma nth_firstn_lt {A} (l : list A) n i d : i < n -> nth i (firstn n l) d = nth i l d.
Proof.
  revert n i. induction l as [|a l IH]; intros n i H.
  - rewrite firstn_nil. reflexivity.
  - destruct n; [lia|]. destruct i; cbn; auto. apply IH. lia.
Qed.

Lemma nth_skipn_add {A} (l : list A) k i d : nth i (skipn k l) d = nth (k + i) l d.
Proof.
  revert l. induction k as [|k IH]; intros l; cbn; auto.
  destruct l; cbn; [destruct i; reflexivity|]. apply IH.
Qed.

Lemma nth_write_at (c : list byte) off bs i d0 :
  off + length bs <= length c ->
  nth i (write_at c off bs) d0 =
  if Nat.leb off i && Nat.ltb i (off + length bs) then nth (i - off) bs d0 else nth i c d0.
Proof.
  intros H. unfold write_at.
  assert (Lf : length (firstn off c) = off) by (rewrite firstn_length; lia).
  destruct (Nat.leb off i) eqn:E1; cbn [andb].
  - apply Nat.leb_le in E1. rewrite app_nth2; rewrite Lf; [|lia].
    destruct (Nat.ltb i (off + length bs)) eqn:E2.
    + apply Nat.ltb_lt in E2. rewrite app_nth1; [reflexivity|lia].
    + apply Nat.ltb_ge in E2. rewrite app_nth2; [|lia].
      rewrite nth_skipn_add. f_equal. lia.
  - apply Nat.leb_gt in E1. rewrite app_nth1; [|lia]. apply nth_firstn_lt. lia.
Qed.

Lemma rte_min_le cs : forall m, rte_min cs m <= m /\ (forall c, In c cs -> rte_min cs m <= fst c).
Proof.
  induction cs as [|c0 r IH]; intros m; cbn.
  - split; [lia|]. intros c [].
  - destruct (IH (Nat.min m (fst c0))) as [A B]. split; [lia|].
    intros c [<-|H]; [lia|]. apply B. exact H.
Qed.

Lemma rte_max_ge cs : forall m, m <= rte_max cs m /\ (forall c, In c cs -> fst c + length (snd c) <= rte_max cs m).
Proof.
  induction cs as [|c0 r IH]; intros m; cbn.
  - split; [lia|]. intros c [].
  - destruct (IH (Nat.max m (fst c0 + length (snd c0)))) as [A B]. split; [lia|].
    intros c [<-|H]; [lia|]. apply B. exact H.
Qed.

Lemma rte_bounds cs c : In c cs -> rte_start cs <= fst c /\ fst c + length (snd c) <= rte_end cs.
Proof.
  intros H. split.
  - destruct cs as [|c0 r]; [destruct H|]. cbn. destruct (rte_min_le r (fst c0)) as [A B].
    destruct H as [<-|H]; [exact A|apply B; exact H].
  - apply (rte_max_ge cs 0). exact H.
Qed.

Lemma repeat_b_length b n : length (repeat_b b n) = n.
Proof. induction n; cbn; auto. Qed.

Definition chunk_of (d : list byte) (c : chunk) : Prop :=
  fst c + length (snd c) <= length d /\ forall j, j < length (snd c) -> nth j (snd c) 0%N = nth (fst c + j) d 0%N.

Definition covers (cs : list chunk) (p : nat) : Prop :=
  exists c, In c cs /\ fst c <= p < fst c + length (snd c).

(* folding the copies: length kept, every covered position holds the stream's byte *)
Lemma assemble_fold d s L : forall cs buf,
  length buf = L ->
  (forall c, In c cs -> chunk_of d c /\ s <= fst c /\ fst c + length (snd c) <= s + L) ->
  let res := fold_left (fun buf c => write_at buf (fst c - s) (snd c)) cs buf in
  length res = L /\
  (forall i, i < L -> (covers cs (s + i) -> nth i res 0%N = nth (s + i) d 0%N) /\
                      (~ covers cs (s + i) -> nth i res 0%N = nth i buf 0%N)).
Proof.
  induction cs as [|c r IH]; intros buf Hl Hc; cbn.
  - split; auto. intros i Hi. split; [intros (c & [] & _)|reflexivity].
  - destruct (Hc c (or_introl eq_refl)) as ((Cb & Cn) & C1 & C2).
    assert (Hfit : (fst c - s) + length (snd c) <= length buf) by lia.
    assert (Hl1 : length (write_at buf (fst c - s) (snd c)) = L) by (rewrite write_at_length; auto).
    destruct (IH (write_at buf (fst c - s) (snd c)) Hl1) as [A B].
    { intros c' H'. apply Hc. right. exact H'. }
    split; [exact A|]. intros i Hi. destruct (B i Hi) as [B1 B2].
    assert (Hn : nth i (write_at buf (fst c - s) (snd c)) 0%N =
                 if Nat.leb (fst c - s) i && Nat.ltb i (fst c - s + length (snd c))
                 then nth (i - (fst c - s)) (snd c) 0%N else nth i buf 0%N)
      by (apply nth_write_at; exact Hfit).
    assert (Dec : covers r (s + i) \/ ~ covers r (s + i)).
    { clear -r. induction r as [|c1 r1 IHr].
      - right. intros (c & [] & _).
      - destruct (le_lt_dec (fst c1) (s + i)) as [L1|L1];
          [destruct (lt_dec (s + i) (fst c1 + length (snd c1))) as [L2|L2]|].
        + left. exists c1. split; [left; reflexivity|lia].
        + destruct IHr as [(c & I & R)|N]; [left; exists c; split; [right; exact I|exact R]|].
          right. intros (c & [<-|I] & R); [lia|]. apply N. exists c. auto.
        + destruct IHr as [(c & I & R)|N]; [left; exists c; split; [right; exact I|exact R]|].
          right. intros (c & [<-|I] & R); [lia|]. apply N. exists c. auto. }
    split.
    + intros (c' & [<-|I'] & R).
      * destruct Dec as [Cv|Ncv]; [apply B1; exact Cv|].
        rewrite (B2 Ncv), Hn.
        assert (E1 : Nat.leb (fst c - s) i = true) by (apply Nat.leb_le; lia).
        assert (E2 : Nat.ltb i (fst c - s + length (snd c)) = true) by (apply Nat.ltb_lt; lia).
        rewrite E1, E2. cbn [andb]. rewrite Cn; [|lia]. f_equal. lia.
      * apply B1. exists c'. auto.
    + intros Ncv.
      assert (Nr : ~ covers r (s + i)) by (intros (c' & I & R); apply Ncv; exists c'; split; [right; exact I|exact R]).
      rewrite (B2 Nr), Hn.
      destruct (Nat.leb (fst c - s) i) eqn:E1; cbn [andb]; [|reflexivity].
      destruct (Nat.ltb i (fst c - s + length (snd c))) eqn:E2; [|reflexivity].
      apply Nat.leb_le in E1. apply Nat.ltb_lt in E2.
      exfalso. apply Ncv. exists c. split; [left; reflexivity|lia].
Qed.

Theorem read_to_end_exact d cs :
  cs <> [] ->
  (forall c, In c cs -> chunk_of d c) ->
  (forall p, rte_start cs <= p < rte_end cs -> covers cs p) ->
  read_to_end_assemble cs = sub_list d (rte_start cs) (rte_end cs - rte_start cs).
Proof.
  intros Hne Hch Hcov. unfold read_to_end_assemble.
  set (s := rte_start cs). set (e := rte_end cs).
  assert (He : e <= length d).
  { destruct cs as [|c0 r]; [congruence|].
    unfold e, rte_end. clear -Hch.
    assert (G : forall l m, m <= length d -> (forall c, In c l -> chunk_of d c) -> rte_max l m <= length d).
    { induction l as [|c l IH]; intros m Hm Hc; cbn; auto.
      apply IH; [|intros c' H'; apply Hc; right; exact H'].
      destruct (Hc c (or_introl eq_refl)) as [Hb _]. lia. }
    apply G; [lia|exact Hch]. }
  destruct (Nat.leb e s) eqn:Les.
  - apply Nat.leb_le in Les. replace (e - s) with 0 by lia. unfold sub_list. reflexivity.
  - apply Nat.leb_gt in Les.
    pose proof (assemble_fold d s (e - s) cs (repeat_b 0%N (e - s)) (repeat_b_length _ _)) as F.
    destruct F as [Fl Fn].
    { intros c Hc. split; [apply Hch; exact Hc|]. pose proof (rte_bounds cs c Hc). fold s e in H. lia. }
    apply nth_ext with (d := 0%N) (d' := 0%N).
    + rewrite Fl. unfold sub_list. rewrite firstn_length, skipn_length. lia.
    + intros i Hi. rewrite Fl in Hi. destruct (Fn i Hi) as [F1 _].
      rewrite F1; [|apply Hcov; fold s e; lia].
      unfold sub_list. rewrite nth_firstn_lt; [|exact Hi]. rewrite nth_skipn_add. reflexivity.
Qed.
