(* QuicWakersThm.v — lemmas about model/QuicWakers.v (property C16). *)
From Compio.Model Require Import Base QuicWakers.

Local Ltac inv H := inversion H; subst; clear H.

(* ---------------------------------------------------------------------- *)
(* stream maps                                                              *)

Lemma sm_get_remove_same k m : sm_get k (sm_remove k m) = None.
Proof.
  induction m as [|[k' w] r IH]; cbn; auto.
  destruct (Nat.eqb k k') eqn:E; cbn; auto. rewrite E. auto.
Qed.

Lemma sm_get_remove_other k k' m : k <> k' -> sm_get k' (sm_remove k m) = sm_get k' m.
Proof.
  intros N. induction m as [|[k2 w] r IH]; cbn; auto.
  destruct (Nat.eqb k k2) eqn:E.
  - apply Nat.eqb_eq in E. subst k2.
    destruct (Nat.eqb k' k) eqn:E2; [apply Nat.eqb_eq in E2; congruence|]. exact IH.
  - cbn. destruct (Nat.eqb k' k2); auto.
Qed.

Lemma sm_get_insert_same k w m : sm_get k (sm_insert k w m) = Some w.
Proof. unfold sm_insert. cbn. rewrite Nat.eqb_refl. reflexivity. Qed.

Lemma sm_get_insert_other k k' w m : k <> k' -> sm_get k' (sm_insert k w m) = sm_get k' m.
Proof.
  intros N. unfold sm_insert. cbn.
  destruct (Nat.eqb k' k) eqn:E; [apply Nat.eqb_eq in E; congruence|].
  apply sm_get_remove_other; auto.
Qed.

Lemma sm_get_in k m w : sm_get k m = Some w -> In w (sm_wakers m).
Proof.
  induction m as [|[k' w'] r IH]; cbn; [discriminate|].
  destruct (Nat.eqb k k'); intros H; [inv H; auto|auto].
Qed.

Lemma sm_wakers_remove_incl k m w : In w (sm_wakers (sm_remove k m)) -> In w (sm_wakers m).
Proof.
  induction m as [|[k' w'] r IH]; cbn; auto.
  destruct (Nat.eqb k k'); cbn; intuition.
Qed.

Lemma pair_get_set_same {A} (d : dir) (x : A) p : pair_get d (pair_set d x p) = x.
Proof. destruct d; reflexivity. Qed.

Lemma pair_get_set_other {A} (d d' : dir) (x : A) p :
  d <> d' -> pair_get d' (pair_set d x p) = pair_get d' p.
Proof. destruct d, d'; cbn; intros H; try reflexivity; congruence. Qed.

(* ---------------------------------------------------------------------- *)
(* C16_terminate_wakes_all                                                  *)

Definition terminating (l : label) : bool :=
  match l with LClose | LEvent (QConnectionLost _) => true | _ => false end.

(* the step that terminates the connection wakes every registered waker, leaves
   no registration behind and stores an error *)
Lemma terminate_wakes_all c l :
  terminating l = true ->
  snd (step c l) = OWoken (registered c) /\
  registered (fst (step c l)) = [] /\
  error (fst (step c l)) <> None /\ connected (fst (step c l)) = false.
Proof.
  destruct l as [e| | | |]; try discriminate.
  - destruct e; try discriminate. intros _. cbn. repeat split; auto. discriminate.
  - intros _. cbn. repeat split; auto. discriminate.
Qed.

(* with an error stored, no poll of any future returns Pending, and the futures
   that look at the error first return exactly it *)
Lemma poll_after_error c e x w ready :
  error c = Some e ->
  fst (poll_waiter c x w ready) = c /\
  snd (poll_waiter c x w ready) <> PWait /\
  (error_first x = true -> snd (poll_waiter c x w ready) = PError e) /\
  (ready = false -> snd (poll_waiter c x w ready) = PError e).
Proof.
  intros He. destruct x; cbn; rewrite He; cbn; try (repeat split; auto; discriminate);
    destruct ready; cbn; rewrite ?He; repeat split; auto; try discriminate.
Qed.

Definition dead (c : conn) : Prop := error c <> None /\ registered c = [].

Lemma app_nil_inv {A} (a b : list A) : a ++ b = [] -> a = [] /\ b = [].
Proof. destruct a; cbn; [auto|discriminate]. Qed.

Lemma dead_tables c : dead c ->
  on_handshake_data c = None /\ on_connected c = [] /\ datagram_received c = [] /\
  datagrams_unblocked c = [] /\ stream_opened c = ([], []) /\ stream_available c = ([], []) /\
  writable c = [] /\ readable c = [] /\ stopped c = [].
Proof.
  intros [_ R]. unfold registered in R.
  repeat (apply app_nil_inv in R; let H := fresh "H" in destruct R as [H R]).
  destruct (on_handshake_data c); [discriminate|].
  destruct (stream_opened c) as [o1 o2]. destruct (stream_available c) as [a1 a2]. cbn in *. subst.
  unfold sm_wakers in *.
  destruct (writable c); [|discriminate]. destruct (readable c); [|discriminate].
  destruct (stopped c); [|discriminate]. repeat split; auto.
Qed.

Lemma dead_shape c : dead c ->
  exists e b, c = mkconn (Some e) b [] None [] [] ([], []) ([], []) [] [] [].
Proof.
  intros D. pose proof (dead_tables c D) as (T1 & T2 & T3 & T4 & T5 & T6 & T7 & T8 & T9).
  destruct D as [De _]. destruct c as [er co oc oh dr du so sa wr rd st]. cbn in *. subst.
  destruct er as [e|]; [|congruence]. exists e, co. reflexivity.
Qed.

Lemma dead_step c l : dead c -> dead (fst (step c l)) /\
  (forall r, snd (step c l) = OPoll r -> r <> PWait) /\
  (forall ws, snd (step c l) = OWoken ws -> ws = []).
Proof.
  intros D. destruct (dead_shape c D) as (e & b & ->).
  destruct l as [ev| |x w ready|k|k].
  - destruct ev; try (destruct rejected_0rtt); try (destruct d); cbn; unfold dead; cbn;
      (split; [split; [discriminate|reflexivity]|]);
      (split; [intros r H; discriminate H|intros ws H; inv H; reflexivity]).
  - cbn. unfold dead. cbn. split; [split; [discriminate|reflexivity]|].
    split; [intros r H; discriminate H|intros ws H; inv H; reflexivity].
  - cbn [step].
    set (c := mkconn (Some e) b [] None [] [] ([], []) ([], []) [] [] []) in *.
    pose proof (poll_after_error c e x w ready eq_refl) as (P1 & P2 & _).
    destruct (poll_waiter c x w ready) as [c1 r] eqn:P. cbn [fst snd] in *. subst c1.
    split; [exact D|]. split; [intros r0 H; inv H; exact P2|intros ws H; discriminate H].
  - cbn. unfold dead. cbn. split; [split; [discriminate|reflexivity]|]. split; intros ? H; discriminate H.
  - cbn. unfold dead. cbn. split; [split; [discriminate|reflexivity]|]. split; intros ? H; discriminate H.
Qed.

(* ... for ever: along every continuation *)
Lemma dead_run : forall ls c, dead c ->
  dead (fst (run c ls)) /\ (forall r, In (OPoll r) (snd (run c ls)) -> r <> PWait).
Proof.
  induction ls as [|l r IH]; intros c D; cbn.
  - split; [exact D|]. intros r0 F. destruct F.
  - destruct (step c l) as [c1 o] eqn:S. destruct (run c1 r) as [c2 os] eqn:Rn. cbn.
    pose proof (dead_step c l D) as (D1 & P1 & _). rewrite S in D1, P1. cbn in *.
    pose proof (IH c1 D1) as [D2 P2]. rewrite Rn in D2, P2. cbn in *.
    split; auto. intros r0 [H|H]; [apply P1; auto|apply P2; auto].
Qed.

Theorem terminate_then_nothing_hangs c l ls :
  terminating l = true ->
  snd (step c l) = OWoken (registered c) /\
  (forall r, In (OPoll r) (snd (run (fst (step c l)) ls)) -> r <> PWait) /\
  registered (fst (run (fst (step c l)) ls)) = [].
Proof.
  intros T. pose proof (terminate_wakes_all c l T) as (A & B & C & _).
  split; auto. assert (D : dead (fst (step c l))) by (split; auto).
  pose proof (dead_run ls _ D) as [[_ D2] P]. split; auto.
Qed.

(* ---------------------------------------------------------------------- *)
(* C16_event_wakes_waiter                                                   *)

(* a poll that returns Pending has put the waker where the matching event looks *)
Lemma pending_registers c x w ready c1 :
  poll_waiter c x w ready = (c1, PWait) -> In w (lookup c1 x) /\ error c1 = None.
Proof.
  destruct x; cbn; destruct (error c) eqn:He; try (destruct ready); cbn;
    try (destruct (connected c)); intros H; inv H; cbn; rewrite ?He;
    try (split; [|reflexivity]).
  all: try (left; reflexivity).
  all: try (apply in_or_app; right; left; reflexivity).
  all: try (rewrite pair_get_set_same; apply in_or_app; right; left; reflexivity).
  all: try (rewrite sm_get_insert_same; left; reflexivity).
  all: try (rewrite Nat.eqb_refl; left; reflexivity).
  all: destruct (existsb (Nat.eqb w) (on_connected c)) eqn:Ex;
    [apply existsb_exists in Ex; destruct Ex as (w0 & I0 & E0); apply Nat.eqb_eq in E0; subst; exact I0
    |apply in_or_app; right; left; reflexivity].
Qed.

(* the matching event wakes it *)
Lemma matching_event_wakes c e x w :
  matches e x = true -> In w (lookup c x) -> In w (snd (handle_event c e)).
Proof.
  destruct e, x; cbn; try discriminate; intros M H; auto.
  - destruct rejected_0rtt; cbn; auto. apply in_or_app. left. exact H.
  - apply Nat.eqb_eq in M. subst. unfold wake_stream. cbn. exact H.
  - apply Nat.eqb_eq in M. subst. unfold wake_stream. cbn. exact H.
  - apply Nat.eqb_eq in M. subst. unfold wake_stream. cbn. exact H.
  - apply Nat.eqb_eq in M. subst. unfold wake_stream. cbn. apply in_or_app. right. exact H.
  - apply Nat.eqb_eq in M. subst. unfold wake_stream. cbn. apply in_or_app. left. exact H.
  - apply Bool.eqb_prop in M. subst. exact H.
  - apply Bool.eqb_prop in M. subst. exact H.
Qed.

(* two waiters use different table entries *)
Definition same_slot (x y : waiter) : bool :=
  match x, y with
  | WConnecting, WConnecting | WHandshakeData, WHandshakeData
  | WRecvDatagram, WRecvDatagram | WSendDatagram, WSendDatagram => true
  | WOpen d, WOpen d' | WAccept d, WAccept d' => Bool.eqb d d'
  | WWrite k, WWrite k' | WStopped k, WStopped k' | WRead k, WRead k' => Nat.eqb k k'
  | _, _ => false
  end.

(* registering never touches another stream / kind *)
Lemma poll_keeps_others c x w ready y :
  same_slot x y = false -> lookup (fst (poll_waiter c x w ready)) y = lookup c y.
Proof.
  intros S.
  destruct x; cbn; destruct (error c) eqn:He; try (destruct ready); cbn;
    try (destruct (connected c)); cbn; try reflexivity;
    destruct y; cbn in *; try reflexivity; try discriminate S.
  all: try (apply pair_get_set_other; intros Q; subst; rewrite Bool.eqb_reflx in S; discriminate S).
  all: try (apply f_equal; apply sm_get_insert_other; intros Q; subst; rewrite Nat.eqb_refl in S; discriminate S).
Qed.

(* the queue tables never overwrite even within the same slot *)
Lemma poll_queue_keeps c x w ready w' :
  match x with WConnecting | WRecvDatagram | WSendDatagram | WOpen _ | WAccept _ => True | _ => False end ->
  In w' (lookup c x) -> In w' (lookup (fst (poll_waiter c x w ready)) x).
Proof.
  destruct x; try contradiction; intros _ H; cbn; destruct (error c); try (destruct ready); cbn; auto.
  all: try (apply in_or_app; left; exact H).
  all: try (rewrite pair_get_set_same; apply in_or_app; left; exact H).
  all: destruct (connected c); cbn; auto;
    destruct (existsb (Nat.eqb w) (on_connected c)); auto; apply in_or_app; left; exact H.
Qed.

(* ---------------------------------------------------------------------- *)
(* C16_no_cross_talk                                                        *)

Definition broadcast (e : qevent) : bool :=
  match e with QConnectionLost _ | QConnected true => true | _ => false end.

(* an event leaves every entry it does not match untouched *)
Lemma event_keeps_others c e y :
  broadcast e = false -> matches e y = false -> lookup (fst (handle_event c e)) y = lookup c y.
Proof.
  intros B M.
  destruct e; try discriminate B; try (destruct rejected_0rtt; try discriminate B);
    destruct y; cbn in *; try reflexivity; try discriminate M;
    unfold wake_stream; cbn.
  all: try (apply f_equal; apply sm_get_remove_other; intros Q; subst; rewrite Nat.eqb_refl in M; discriminate M).
  all: try (apply pair_get_set_other; intros Q; subst; rewrite Bool.eqb_reflx in M; discriminate M).
Qed.

(* ... and wakes only wakers registered under an entry it matches *)
Lemma event_wakes_only_matching c e w :
  broadcast e = false -> In w (snd (handle_event c e)) ->
  exists x, matches e x = true /\ In w (lookup c x).
Proof.
  intros B H.
  destruct e; try discriminate B; try (destruct rejected_0rtt; try discriminate B); cbn in H;
    unfold wake_stream in H; cbn in H.
  - exists WHandshakeData. split; auto.
  - exists WConnecting. split; auto.
  - exists (WRead s). cbn. rewrite Nat.eqb_refl. split; auto.
  - exists (WWrite s). cbn. rewrite Nat.eqb_refl. split; auto.
  - exists (WStopped s). cbn. rewrite Nat.eqb_refl. split; auto.
  - apply in_app_or in H. destruct H as [H|H].
    + exists (WStopped s). cbn. rewrite Nat.eqb_refl. split; auto.
    + exists (WWrite s). cbn. rewrite Nat.eqb_refl. split; auto.
  - exists (WOpen d). cbn. rewrite Bool.eqb_reflx. split; auto.
  - exists (WAccept d). cbn. rewrite Bool.eqb_reflx. split; auto.
  - exists WRecvDatagram. split; auto.
  - exists WSendDatagram. split; auto.
Qed.

(* every event (broadcasts included) only ever wakes registered wakers, and never
   registers anything *)
Lemma sm_remove_lookup_incl k k' m w :
  In w (opt_wakers (sm_get k' (sm_remove k m))) -> In w (opt_wakers (sm_get k' m)).
Proof.
  destruct (Nat.eq_dec k k') as [->|N].
  - rewrite sm_get_remove_same. intros [].
  - rewrite sm_get_remove_other; auto.
Qed.

(* a registered waiter stays registered until the step that wakes it, the drop
   of its own stream handle, or a new registration in its own single slot *)
Definition disturbs (l : label) (x : waiter) : bool :=
  match l with
  | LPoll y _ _ => same_slot y x
  | LDropSend k => match x with WWrite k' | WStopped k' => Nat.eqb k k' | _ => false end
  | LDropRecv k => match x with WRead k' => Nat.eqb k k' | _ => false end
  | _ => false
  end.

Lemma opt_sm_in k m w : In w (opt_wakers (sm_get k m)) -> In w (sm_wakers m).
Proof.
  destruct (sm_get k m) eqn:G; cbn; [|intros []]. intros [<-|[]]. eapply sm_get_in; eauto.
Qed.

Lemma lookup_in_registered c x w : In w (lookup c x) -> In w (registered c).
Proof.
  unfold registered. rewrite !in_app_iff.
  destruct x; cbn; intros H; try (apply opt_sm_in in H); try (destruct d; cbn in H); tauto.
Qed.

Lemma waiter_stays_or_woken c l x w :
  In w (lookup c x) -> disturbs l x = false ->
  In w (lookup (fst (step c l)) x) \/ (exists ws, snd (step c l) = OWoken ws /\ In w ws).
Proof.
  intros H D. destruct l as [e| |y w' ready|k|k]; cbn [step].
  - destruct (handle_event c e) as [c1 ws] eqn:He. cbn [fst snd].
    destruct (broadcast e) eqn:B.
    + destruct e; try discriminate B.
      * destruct rejected_0rtt; try discriminate B. cbn in He. inv He.
        destruct x; cbn in H |- *.
        all: try (left; exact H).
        all: right; eexists; (split; [reflexivity|]); rewrite !in_app_iff;
          try (apply opt_sm_in in H); tauto.
      * right. exists ws. split; auto. cbn in He. inv He. apply lookup_in_registered with (x := x). exact H.
    + destruct (matches e x) eqn:M.
      * right. exists ws. split; auto.
        pose proof (matching_event_wakes c e x w M H) as Hw. rewrite He in Hw. exact Hw.
      * left. pose proof (event_keeps_others c e x B M) as K. rewrite He in K. cbn in K. rewrite K. exact H.
  - right. eexists. split; [reflexivity|]. apply lookup_in_registered with (x := x). exact H.
  - left. cbn in D. destruct (poll_waiter c y w' ready) as [c1 r] eqn:P. cbn [fst snd].
    pose proof (poll_keeps_others c y w' ready x D) as K. rewrite P in K. cbn in K. rewrite K. exact H.
  - left. cbn [fst]. destruct x; cbn in *; try exact H.
    + rewrite sm_get_remove_other; auto. intros Q; subst; rewrite Nat.eqb_refl in D; discriminate D.
    + rewrite sm_get_remove_other; auto. intros Q; subst; rewrite Nat.eqb_refl in D; discriminate D.
  - left. cbn [fst]. destruct x; cbn in *; try exact H.
    rewrite sm_get_remove_other; auto. intros Q; subst; rewrite Nat.eqb_refl in D; discriminate D.
Qed.

(* C16_event_wakes_waiter, assembled: a future that returned Pending is woken by
   the first later step that is its matching event or a terminating step,
   whatever undisturbing steps come in between *)
Fixpoint woken_in (w : waker) (os : list output) : Prop :=
  match os with
  | [] => False
  | OWoken ws :: r => In w ws \/ woken_in w r
  | _ :: r => woken_in w r
  end.

Theorem blocked_future_is_woken : forall ls c x w ready c1 l,
  poll_waiter c x w ready = (c1, PWait) ->
  (forall l', In l' ls -> disturbs l' x = false) ->
  (terminating l = true \/ exists e, l = LEvent e /\ matches e x = true) ->
  woken_in w (snd (run c1 (ls ++ [l]))).
Proof.
  intros ls c x w ready c1 l P. apply pending_registers in P. destruct P as [Hin _].
  revert c1 Hin. induction ls as [|l0 r IH]; intros c1 Hin Hd Hl.
  - cbn. destruct (step c1 l) as [c2 o] eqn:S. cbn.
    destruct Hl as [T|(e & -> & M)].
    + pose proof (terminate_wakes_all c1 l T) as (A & _). rewrite S in A. cbn in A. subst o. cbn.
      left. eapply lookup_in_registered; eauto.
    + cbn in S. destruct (handle_event c1 e) as [c3 ws] eqn:He. inv S. cbn. left.
      pose proof (matching_event_wakes c1 e x w M Hin) as Hw. rewrite He in Hw. exact Hw.
  - cbn [app run]. destruct (step c1 l0) as [c2 o] eqn:S.
    destruct (run c2 (r ++ [l])) as [c3 os] eqn:Rn. cbn [snd].
    assert (D0 : disturbs l0 x = false) by (apply Hd; left; reflexivity).
    pose proof (waiter_stays_or_woken c1 l0 x w Hin D0) as [St|(ws & Eo & Iw)]; rewrite S in *; cbn in *.
    + assert (W : woken_in w (snd (run c2 (r ++ [l])))).
      { apply IH; auto. }
      rewrite Rn in W. cbn in W. destruct o; auto.
    + subst o. cbn. left. exact Iw.
Qed.
